(* Lib/GoSemStr.v — what the [ext:T17] extension of the Go -> Gallina translator (gen/trans_ext17.go, see
   gen/TRANSLATOR.md) targets besides Lib/GoSem.v and Lib/GoSemStd.v: rune-aware string code.
   Strings are byte lists.  The functions of package strings / the string<->[]rune conversions are MODELLED here
   (through Lib/Utf8.v, the model the hand-written models use), not verified.  No proofs in this file. *)
From Coq Require Import List ZArith Bool.
From V Require Import Lib.GoSem Lib.Utf8 Lib.GoSemStd.
Import ListNotations.
Local Open Scope Z_scope.

(* a == b on strings *)
Fixpoint bytes_eqb (a b : list Z) : bool :=
  match a, b with
  | [], [] => true
  | x :: a', y :: b' => (x =? y) && bytes_eqb a' b'
  | _, _ => false
  end.

(* `for i, v := range s` at byte offset i: the rune and its width (invalid byte: (U+FFFD, 1); behind the end: (U+FFFD, 0)) *)
Definition str_rune_at (s : list Z) (i : Z) : Z * Z := std_utf8_DecodeRune (skipn (Z.to_nat i) s).

(* []rune(s): the runes `range s` yields;  string(rs): every rune encoded, invalid ones as U+FFFD *)
Definition std_runes (s : list Z) : list Z := runes s.
Definition std_string_of_runes (rs : list Z) : list Z := concat (map encode_rune rs).

(* strings.Repeat(s, count) (go1.21 .. 1.23): count 0 and 1 return at once; a negative count panics; then the output
   length must fit an int ("strings: Repeat output length overflow"); the empty string is returned for an empty s; the
   result is built in a Builder grown to its final size first, which panics above runtime.maxAlloc (linux/amd64: 2^48). *)
Definition std_maxint : Z := 9223372036854775807.
Definition std_alloc_limit : Z := 281474976710656.
Definition std_strings_Repeat (s : list Z) (count : Z) : M (list Z) :=
  if count =? 0 then Ret []
  else if count =? 1 then Ret s
  else if count <? 0 then Panic
  else if std_maxint <? zlen s * count then Panic
  else match s with
       | [] => Ret []
       | _ => if std_alloc_limit <? zlen s * count then Panic else Ret (concat (repeat s (Z.to_nat count)))
       end.
