(* Encoding helpers shared by every Run/Cxx.v: a case is a list of integers. *)
From Coq Require Import List ZArith Bool.
Import ListNotations.
Local Open Scope Z_scope.

(* Distinguished output tokens *)
Definition PANIC : Z := -1000001.   (* the Go code would panic here *)
Definition NOFUEL : Z := -1000002.  (* model ran out of fuel (must never be observed) *)
Definition BADCASE : Z := -1000003. (* the case did not decode *)
Definition ASK : Z := -1000004.     (* the model needs the value of a primitive: [ASK; query...] *)

Definition zb (b : bool) : Z := if b then 1 else 0.
Definition bz (z : Z) : bool := negb (z =? 0).

(* length-prefixed lists *)
Definition put_list (l : list Z) : list Z := Z.of_nat (length l) :: l.
Definition get_list (l : list Z) : list Z * list Z :=
  match l with
  | [] => ([], [])
  | n :: t => (firstn (Z.to_nat n) t, skipn (Z.to_nat n) t)
  end.

Fixpoint put_lists (ls : list (list Z)) : list Z :=
  match ls with [] => [] | l :: t => put_list l ++ put_lists t end.

(* n length-prefixed lists *)
Fixpoint get_lists (n : nat) (l : list Z) : list (list Z) * list Z :=
  match n with
  | O => ([], l)
  | S k => let (a, r) := get_list l in let (b, r') := get_lists k r in (a :: b, r')
  end.

Definition nats_of (l : list Z) : list nat := map Z.to_nat l.
Definition Ns_of (l : list Z) : list N := map Z.to_N l.
Definition of_Ns (l : list N) : list Z := map Z.of_N l.
Definition of_nats (l : list nat) : list Z := map Z.of_nat l.

Definition hd0 (l : list Z) : Z := match l with [] => 0 | x :: _ => x end.
Definition nthz (l : list Z) (i : nat) : Z := nth i l 0.

(* association table for oracle answers: [k; (query, answer) x k] with both length-prefixed *)
Fixpoint list_eqb (a b : list Z) : bool :=
  match a, b with
  | [], [] => true
  | x :: a', y :: b' => (x =? y) && list_eqb a' b'
  | _, _ => false
  end.
Fixpoint lookup (q : list Z) (tbl : list (list Z * list Z)) : option (list Z) :=
  match tbl with
  | [] => None
  | (k, v) :: t => if list_eqb q k then Some v else lookup q t
  end.
Fixpoint get_table (n : nat) (l : list Z) : list (list Z * list Z) * list Z :=
  match n with
  | O => ([], l)
  | S k => let (q, r) := get_list l in let (a, r') := get_list r in
           let (t, r'') := get_table k r' in ((q, a) :: t, r'')
  end.
