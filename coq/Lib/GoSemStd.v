(* Lib/GoSemStd.v — what the [ext:T07] extension of the Go -> Gallina translator (gen/trans_ext07.go, see
   gen/TRANSLATOR.md) targets besides Lib/GoSem.v:

   (a) write-back of slice arguments that a callee writes in place ([splice]) and the in-place effect of an append-style
       standard-library call whose destination is a prefix of a variable ([append_in_place]);
   (b) models of the few standard-library functions the translator maps calls to when an area lists them in
       TransSpec.Std.  They are MODELLED, not verified: strconv.AppendUint, unicode/utf8 (through Lib/Utf8.v, the same
       model the hand-written models use), unicode/utf16.
   No proofs in this file. *)
From Coq Require Import List ZArith Bool.
From V Require Import Lib.GoSem Lib.Utf8.
Import ListNotations.
Local Open Scope Z_scope.

(* ------------------------------------------------------------------ written slice arguments *)
(* after f(l[a:b]) where f wrote its parameter in place and handed back its new contents x (same length, b - a):
   the caller's l *)
Definition splice (l : list Z) (a b : Z) (x : list Z) : list Z :=
  firstn (Z.to_nat a) l ++ x ++ skipn (Z.to_nat b) l.

(* r := F(l[a:b], ...) for an append-style F that appends the bytes x: with cap(l) = len(l) (the idealisation of
   Lib/GoSem.v) the bytes are written behind position b of l's array exactly when they fit into len(l); otherwise F
   allocates and l is unchanged.  The result r = l[a:b] ++ x in both cases. *)
Definition append_in_place (l : list Z) (b : Z) (x : list Z) : list Z :=
  if b + zlen x <=? zlen l then firstn (Z.to_nat b) l ++ x ++ skipn (Z.to_nat (b + zlen x)) l else l.

(* ------------------------------------------------------------------ strconv *)
(* "0123456789abcdefghijklmnopqrstuvwxyz"[d] *)
Definition std_digit_char (d : Z) : Z := if d <? 10 then 48 + d else 87 + d.
Fixpoint std_fmt_digits (fuel : nat) (base v : Z) (acc : list Z) : list Z :=
  match fuel with
  | O => acc
  | S fu => let acc' := std_digit_char (v mod base) :: acc in
            if v / base =? 0 then acc' else std_fmt_digits fu base (v / base) acc'
  end.
(* the bytes strconv.AppendUint(dst, v, base) appends to dst (v a uint64: at most 64 digits); an illegal base panics *)
Definition std_strconv_AppendUint (v base : Z) : M (list Z) :=
  if (base <? 2) || (36 <? base) then Panic else Ret (std_fmt_digits 64 base v []).

(* ------------------------------------------------------------------ unicode/utf8 (Lib/Utf8.v) *)
(* utf8.DecodeRuneInString(s) / utf8.DecodeRune(p): (rune, width) *)
Definition std_utf8_DecodeRune (s : list Z) : Z * Z := let (r, w) := decode s in (r, Z.of_nat w).
(* utf8.RuneCountInString(s) / utf8.RuneCount(p) *)
Definition std_utf8_RuneCount (s : list Z) : Z := Z.of_nat (rune_count s).
(* n := utf8.EncodeRune(p, r): the new p and n; panics (before writing anything) when p is too short *)
Definition std_utf8_EncodeRune (p : list Z) (r : Z) : M (list Z * Z) :=
  let bs := encode_rune r in
  if zlen bs <=? zlen p then Ret (bs ++ skipn (length bs) p, zlen bs) else Panic.
(* the bytes utf8.AppendRune(p, r) appends to p *)
Definition std_utf8_AppendRune (r : Z) : M (list Z) := Ret (encode_rune r).

(* ------------------------------------------------------------------ unicode/utf16 *)
Definition std_utf16_EncodeRune (r : Z) : Z * Z :=
  if (r <? 65536) || (1114111 <? r) then (RuneError, RuneError)
  else (55296 + ((r - 65536) / 1024) mod 1024, 56320 + (r - 65536) mod 1024).
Definition std_utf16_DecodeRune (r1 r2 : Z) : Z :=
  if (55296 <=? r1) && (r1 <? 56320) && (56320 <=? r2) && (r2 <? 57344)
  then (r1 - 55296) * 1024 + (r2 - 56320) + 65536 else RuneError.
