(* A small statement language for method bodies that work on ONE guarded map (C12: mapz.SafeKV).  Syntax only; the
   semantics over the model's map type is Model/SafeKVCode.v.  gen/safekv_code.go dumps the body of every non-callback
   SafeKV method into this syntax on every run (Gen/SafeKVCode.v); it fails closed on every statement or expression that has
   no constructor here.
   Keys, values, booleans and ints are all integers (bool: 0 / 1; the zero value of every type is 0).  Locals are numbered
   by the generator with Go's scoping rules applied (a `:=` in an if-header declares a NEW variable), parameters by position. *)
From Coq Require Import List ZArith.

Inductive exp :=
| EVar (x : nat)          (* local variable *)
| EArg (i : nat)          (* i-th non-variadic parameter *)
| ENot (e : exp)          (* !e *)
| EBool (b : bool)        (* true / false *)
| EZero.                  (* the zero value of `var x T` *)

Inductive stmt :=
| SSkip
| SSeq (a b : stmt)
| SAssign (x : nat) (e : exp)                  (* x := e, x = e, var x T *)
| SLookup (xv xok : option nat) (k : exp)      (* xv, xok := m[k]; None = the blank identifier or a one-value index *)
| SStore (k v : exp)                           (* m[k] = v *)
| SDelete (k : exp)                            (* delete(m, k) *)
| SLen (x : nat)                               (* x := len(m) *)
| SClear                                       (* m = make(...), clear(m) *)
| SIf (c : exp) (t e : stmt)
| SForArgs (x : nat) (body : stmt)             (* for _, x := range <the variadic parameter> *)
| SReturn (es : list exp)
(* slices of keys / values (Keys, Values): slice locals live in their own name space *)
| SMakeSlice (x : nat)                         (* x := make([]T, 0[, pure capacity hint]) *)
| SAppend (x : nat) (e : exp)                  (* x = append(x, e) *)
| SRangeMap (kx vx : option nat) (body : stmt) (* for kx, vx := range m; the generator rejects bodies that write the map *)
| SReturnSlice (x : nat)                       (* return x   (encoded as length :: elements) *)
(* callbacks: the method's function-typed parameter (fn, yield) *)
| SCall (es : list exp) (xres : option nat)    (* [xres :=] fn(es...): the arguments are logged, the callback's answer is a bool *)
| SCallMap                                     (* fn(m): the callback is handed the guarded map itself and may change it *)
| SBreak.                                      (* break out of the innermost loop *)

(* n_args: number of non-variadic parameters; variadic: has a `keys ...K` parameter *)
Record method := { n_args : nat; variadic : bool; m_body : stmt }.
