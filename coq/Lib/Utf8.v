From Coq Require Import List ZArith Lia Bool.
Import ListNotations.
Local Open Scope Z_scope.
Arguments Z.mul : simpl never.
Arguments Z.add : simpl never.
Arguments Z.sub : simpl never.
Arguments Z.div : simpl never.
Arguments Z.modulo : simpl never.

(* Model of unicode/utf8: EncodeRune and DecodeRune(InString) with Go's accept ranges. *)
Definition RuneError : Z := 65533.
Definition valid_scalar (r : Z) : Prop := (0 <= r < 55296) \/ (57344 <= r <= 1114111).

Definition encode (r : Z) : list Z :=
  if r <? 128 then [r]
  else if r <? 2048 then [192 + r / 64; 128 + r mod 64]
  else if r <? 65536 then [224 + r / 4096; 128 + (r / 64) mod 64; 128 + r mod 64]
  else [240 + r / 262144; 128 + (r / 4096) mod 64; 128 + (r / 64) mod 64; 128 + r mod 64].

Definition cont (b : Z) : bool := (128 <=? b) && (b <=? 191).
Definition inr (lo hi b : Z) : bool := (lo <=? b) && (b <=? hi).

(* returns (rune, width); on any malformed prefix: (RuneError, 1); on empty input (RuneError, 0) *)
Definition decode (s : list Z) : Z * nat :=
  match s with
  | [] => (RuneError, 0%nat)
  | b0 :: t =>
      if b0 <? 128 then (b0, 1%nat)
      else if inr 194 223 b0 then
        match t with
        | b1 :: _ => if cont b1 then ((b0 mod 32) * 64 + b1 mod 64, 2%nat) else (RuneError, 1%nat)
        | _ => (RuneError, 1%nat)
        end
      else if inr 224 239 b0 then
        match t with
        | b1 :: b2 :: _ =>
            let lo := if b0 =? 224 then 160 else 128 in
            let hi := if b0 =? 237 then 159 else 191 in
            if inr lo hi b1 && cont b2 then ((b0 mod 16) * 4096 + (b1 mod 64) * 64 + b2 mod 64, 3%nat) else (RuneError, 1%nat)
        | _ => (RuneError, 1%nat)
        end
      else if inr 240 244 b0 then
        match t with
        | b1 :: b2 :: b3 :: _ =>
            let lo := if b0 =? 240 then 144 else 128 in
            let hi := if b0 =? 244 then 143 else 191 in
            if inr lo hi b1 && cont b2 && cont b3
            then ((b0 mod 8) * 262144 + (b1 mod 64) * 4096 + (b2 mod 64) * 64 + b3 mod 64, 4%nat) else (RuneError, 1%nat)
        | _ => (RuneError, 1%nat)
        end
      else (RuneError, 1%nat)
  end.
Definition width (s : list Z) : nat := snd (decode s).

(* utf8.RuneLen, utf8.RuneCountInString, range-over-string decoding, utf16 helpers *)
Definition rune_len (r : Z) : Z :=
  if r <? 0 then -1 else if r <? 128 then 1 else if r <? 2048 then 2
  else if (55296 <=? r) && (r <=? 57343) then -1
  else if r <? 65536 then 3 else if r <=? 1114111 then 4 else -1.
(* utf8.EncodeRune / AppendRune / WriteRune: invalid runes (negative, surrogates, > MaxRune) are written as U+FFFD *)
Definition encode_rune (r : Z) : list Z :=
  if (r <? 0) || (1114111 <? r) || ((55296 <=? r) && (r <=? 57343)) then encode RuneError else encode r.
(* all runes of a byte string as `for _, r := range s` yields them, with their widths *)
Fixpoint decode_all_fuel (fuel : nat) (s : list Z) : list (Z * nat) :=
  match fuel with
  | O => []
  | S f => match s with
           | [] => []
           | _ => let (r, w) := decode s in (r, w) :: decode_all_fuel f (skipn (Nat.max w 1) s)
           end
  end.
Definition decode_all (s : list Z) : list (Z * nat) := decode_all_fuel (length s) s.
Definition runes (s : list Z) : list Z := map fst (decode_all s).
Definition rune_count (s : list Z) : nat := length (decode_all s).
Definition valid_utf8 (s : list Z) : bool :=
  forallb (fun p => negb ((fst p =? RuneError) && (Nat.eqb (snd p) 1))) (decode_all s).
