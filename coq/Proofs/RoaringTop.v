(* C03: the bitmap over its ordered container map.  Invariant, and refinement of Add / Remove / Contains / Len / Range / All /
   Buckets to the set-of-N specification (strictly ascending list). *)
From Coq Require Import List ZArith NArith Lia Bool Arith ZifyN ZifyNat ZifyBool Sorted.
From V Require Import Lib.Enc Gen.Roaring Model.Bits Model.Roaring.
From V Require Import Proofs.BitsBasic Proofs.BitsBulk Proofs.BitsIter Proofs.BitsRefine Proofs.RoaringArr Proofs.RoaringCont.
Import ListNotations.
Local Open Scope N_scope.
Ltac Zify.zify_post_hook ::= Z.div_mod_to_equations.

(* ---------------------------------------------------------------- a number is its (high, low) pair *)
Lemma land_shift_low k v : v < 65536 -> N.land (k * 65536) v = 0.
Proof.
  intros Hv. apply N.bits_inj. intros n. rewrite N.land_spec, N.bits_0.
  destruct (N.ltb_spec n 16) as [Hn|Hn].
  - change 65536 with (2 ^ 16). rewrite N.mul_pow2_bits_low by exact Hn. reflexivity.
  - replace (N.testbit v n) with false; [apply andb_false_r|]. symmetry.
    destruct (N.eq_dec v 0) as [->|Hne]; [apply N.bits_0|]. apply N.bits_above_log2.
    apply N.log2_lt_pow2; [lia|]. eapply N.lt_le_trans; [exact Hv|]. change 65536 with (2 ^ 16). apply N.pow_le_mono_r; lia.
Qed.
Lemma join_add k v : v < 65536 -> join k v = k * 65536 + v.
Proof.
  intros Hv. unfold join, key_shift. rewrite N.shiftl_mul_pow2. change (2 ^ 16) with 65536.
  pose proof (land_shift_low k v Hv) as H. rewrite (N.add_nocarry_lxor _ _ H). symmetry. apply N.lxor_lor, H.
Qed.
Lemma hi_div p : hi p = (p / 65536) mod 65536.
Proof. unfold hi, key_shift. rewrite N.shiftr_div_pow2. change 65535 with (N.ones 16). rewrite N.land_ones. reflexivity. Qed.
Lemma lo_mod p : lo p = p mod 65536.
Proof. unfold lo. change 65535 with (N.ones 16). rewrite N.land_ones. reflexivity. Qed.
Lemma hi_join k v : k < 65536 -> v < 65536 -> hi (join k v) = k.
Proof. intros Hk Hv. rewrite join_add, hi_div by exact Hv. lia. Qed.
Lemma lo_join k v : v < 65536 -> lo (join k v) = v.
Proof. intros Hv. rewrite join_add, lo_mod by exact Hv. lia. Qed.
Lemma join_hi_lo p : p < 4294967296 -> join (hi p) (lo p) = p.
Proof. intros Hp. rewrite join_add by (rewrite lo_mod; lia). rewrite hi_div, lo_mod. lia. Qed.
Lemma hi_bound p : hi p < 65536.
Proof. rewrite hi_div. lia. Qed.
Lemma lo_bound p : lo p < 65536.
Proof. rewrite lo_mod. lia. Qed.

(* ---------------------------------------------------------------- the ordered map *)
Definition keys (m : cmap) : list N := map fst m.
Definition kasc (m : cmap) : Prop := StronglySorted N.lt (keys m).

Lemma kasc_tl k c m : kasc ((k, c) :: m) -> kasc m /\ forall k' c', In (k', c') m -> k < k'.
Proof.
  unfold kasc, keys. cbn [map fst]. intros H. inversion H as [|? ? S A]; subst. split; auto.
  intros k' c' Hin. rewrite Forall_forall in A. apply A. apply in_map_iff. exists (k', c'). auto.
Qed.
Lemma m_get_In m : kasc m -> forall k c, m_get k m = Some c <-> In (k, c) m.
Proof.
  induction m as [|[k0 c0] m IH]; intros Hs k c; cbn [m_get In]; [split; [discriminate|tauto]|].
  destruct (kasc_tl _ _ _ Hs) as [Hs' Hlt].
  destruct (N.eqb_spec k0 k) as [->|Hne].
  - split; [intros E; inversion E; auto|]. intros [E|Hin]; [inversion E; auto|]. specialize (Hlt _ _ Hin). lia.
  - destruct (N.ltb_spec k k0) as [Hl|Hg].
    + split; [discriminate|]. intros [E|Hin]; [inversion E; congruence|]. specialize (Hlt _ _ Hin). lia.
    + rewrite IH by auto. split; auto. intros [E|Hin]; auto. inversion E; congruence.
Qed.
Lemma m_get_None m : kasc m -> forall k, m_get k m = None -> forall c, ~ In (k, c) m.
Proof. intros Hs k Hn c Hin. apply (m_get_In m Hs) in Hin. congruence. Qed.

Lemma m_set_In m : kasc m -> forall k c k' c', In (k', c') (m_set k c m) <-> (k' = k /\ c' = c) \/ (k' <> k /\ In (k', c') m).
Proof.
  induction m as [|[k0 c0] m IH]; intros Hs k c k' c'; cbn [m_set In].
  - split; [intros [E|[]]; inversion E; auto|]. intros [[-> ->]|[_ []]]. auto.
  - destruct (kasc_tl _ _ _ Hs) as [Hs' Hlt].
    destruct (N.eqb_spec k0 k) as [->|Hne]; cbn [In].
    + split.
      * intros [E|Hin]; [inversion E; auto|]. right. split; auto. specialize (Hlt _ _ Hin). lia.
      * intros [[-> ->]|[Hn [E|Hin]]]; auto. inversion E; congruence.
    + destruct (N.ltb_spec k k0) as [Hl|Hg]; cbn [In].
      * split.
        -- intros [E|[E|Hin]].
           ++ inversion E; subst. left. auto.
           ++ inversion E; subst. right. split; [lia|auto].
           ++ right. split; [specialize (Hlt _ _ Hin); lia|auto].
        -- intros [[-> ->]|[Hn H]]; auto.
      * rewrite IH by auto. split.
        -- intros [E|[H|[H1 H2]]]; [inversion E; subst; right; split; auto|left; exact H|right; split; auto].
        -- intros [H|[Hn [E|Hin]]]; [right; left; exact H|left; exact E|right; right; split; auto].
Qed.
Lemma m_set_keys_In m k c k' : In k' (keys (m_set k c m)) <-> k' = k \/ In k' (keys m).
Proof.
  induction m as [|[k0 c0] m IH]; cbn [m_set keys map fst In]; [intuition|].
  destruct (N.eqb_spec k0 k) as [->|Hne]; cbn [keys map fst In]; [intuition|].
  destruct (N.ltb_spec k k0); cbn [keys map fst In]; [intuition|]. unfold keys in IH. rewrite IH. intuition.
Qed.
Lemma m_set_kasc m k c : kasc m -> kasc (m_set k c m).
Proof.
  unfold kasc. induction m as [|[k0 c0] m IH]; intros Hs; cbn [m_set keys map fst]; [repeat constructor|].
  inversion Hs as [|? ? S A]; subst.
  destruct (N.eqb_spec k0 k) as [->|Hne]; [exact Hs|].
  destruct (N.ltb_spec k k0) as [Hl|Hg]; cbn [keys map fst].
  - constructor; [exact Hs|]. constructor; [exact Hl|]. eapply Forall_impl; [|exact A]. cbv beta. intros; lia.
  - constructor; [apply IH, S|]. apply Forall_forall. intros k' Hk'. apply m_set_keys_In in Hk'.
    destruct Hk' as [->|Hk']; [lia|]. rewrite Forall_forall in A. apply A, Hk'.
Qed.
Lemma m_del_In m : kasc m -> forall k k' c', In (k', c') (m_del k m) <-> k' <> k /\ In (k', c') m.
Proof.
  induction m as [|[k0 c0] m IH]; intros Hs k k' c'; cbn [m_del In]; [tauto|].
  destruct (kasc_tl _ _ _ Hs) as [Hs' Hlt].
  destruct (N.eqb_spec k0 k) as [->|Hne].
  - split; [intros Hin; split; auto; specialize (Hlt _ _ Hin); lia|]. intros [Hn [E|Hin]]; auto. inversion E; congruence.
  - destruct (N.ltb_spec k k0) as [Hl|Hg]; cbn [In].
    + split; [|tauto]. intros [E|Hin]; [inversion E; subst; split; auto; lia|]. split; auto. specialize (Hlt _ _ Hin). lia.
    + rewrite IH by auto. split; [intros [E|[H1 H2]]; auto; inversion E; subst; auto|tauto].
Qed.
Lemma m_del_kasc m k : kasc m -> kasc (m_del k m).
Proof.
  unfold kasc. induction m as [|[k0 c0] m IH]; intros Hs; cbn [m_del keys map fst]; [constructor|].
  inversion Hs as [|? ? S A]; subst.
  destruct (N.eqb_spec k0 k); [exact S|]. destruct (N.ltb_spec k k0); [exact Hs|]. cbn [keys map fst].
  constructor; [apply IH, S|]. apply Forall_forall. intros k' Hk'. apply in_map_iff in Hk'. destruct Hk' as ([k1 c1] & <- & Hin).
  apply m_del_In in Hin; auto. rewrite Forall_forall in A. apply A. apply in_map_iff. exists (k1, c1). tauto.
Qed.

(* ---------------------------------------------------------------- all members, bucket by bucket *)
Definition block (kc : N * container) : list N := map (join (fst kc)) (cset (snd kc)).
Definition all (m : cmap) : list N := flat_map block m.

(* every container in the map is well-formed, non-empty, under a 16-bit key *)
Definition good (m : cmap) : Prop := forall k c, In (k, c) m -> k < 65536 /\ cwf c /\ cset c <> [].

Lemma In_all m q : In q (all m) <-> exists k c v, In (k, c) m /\ In v (cset c) /\ q = join k v.
Proof.
  unfold all, block. rewrite in_flat_map. split.
  - intros ([k c] & Hin & Hq). cbn [fst snd] in Hq. apply in_map_iff in Hq. destruct Hq as (v & <- & Hv). eauto 6.
  - intros (k & c & v & Hin & Hv & ->). exists (k, c). split; auto. cbn [fst snd]. apply in_map_iff. eauto.
Qed.

Lemma sorted_map_join k l : Forall (fun v => v < 65536) l -> StronglySorted N.lt l -> StronglySorted N.lt (map (join k) l).
Proof.
  induction l as [|a l IH]; intros B S; cbn [map]; [constructor|]. inversion S as [|? ? S' A]; subst. inversion B as [|? ? Ba Bl]; subst.
  constructor; [apply IH; auto|]. rewrite Forall_forall in *. intros y Hy. apply in_map_iff in Hy. destruct Hy as (z & <- & Hz).
  rewrite !join_add by auto. specialize (A _ Hz). lia.
Qed.
Lemma all_sorted m : kasc m -> good m -> StronglySorted N.lt (all m).
Proof.
  induction m as [|[k c] m IH]; intros Hs Hg; cbn [all flat_map]; [constructor|].
  destruct (kasc_tl _ _ _ Hs) as [Hs' Hlt].
  assert (Hg' : good m) by (intros k' c' Hin; apply Hg; right; exact Hin).
  destruct (Hg k c (or_introl eq_refl)) as (Hk & (Sc & Bc & _) & _).
  apply sorted_appN.
  - unfold block. cbn [fst snd]. apply sorted_map_join; auto.
  - apply IH; auto.
  - intros x y Hx Hy. unfold block in Hx. cbn [fst snd] in Hx. apply in_map_iff in Hx. destruct Hx as (v & <- & Hv).
    apply In_all in Hy. destruct Hy as (k' & c' & v' & Hin & Hv' & ->).
    destruct (Hg' _ _ Hin) as (_ & (_ & Bc' & _) & _). rewrite Forall_forall in Bc, Bc'.
    rewrite !join_add by auto. specialize (Hlt _ _ Hin). specialize (Bc _ Hv). lia.
Qed.

(* membership of p = join k x, in terms of bucket k *)
Lemma In_all_bucket m k c x : kasc m -> good m -> k < 65536 -> x < 65536 -> In (k, c) m ->
  (In (join k x) (all m) <-> In x (cset c)).
Proof.
  intros Hs Hg Hk Hx Hin. rewrite In_all. split.
  - intros (k' & c' & v & Hin' & Hv & E). destruct (Hg _ _ Hin') as (Hk' & (_ & B & _) & _). rewrite Forall_forall in B.
    assert (k' = k) by (rewrite <- (hi_join k x), E, hi_join; auto). subst k'.
    assert (v = x) by (rewrite <- (lo_join k x), E, lo_join; auto). subst v.
    assert (c' = c) by (apply (m_get_In m Hs) in Hin, Hin'; congruence). subst. exact Hv.
  - intros Hv. eauto 6.
Qed.
Lemma In_all_nobucket m k x : kasc m -> good m -> k < 65536 -> x < 65536 -> (forall c, ~ In (k, c) m) -> ~ In (join k x) (all m).
Proof.
  intros Hs Hg Hk Hx Hn Hin. apply In_all in Hin. destruct Hin as (k' & c' & v & Hin' & Hv & E).
  destruct (Hg _ _ Hin') as (Hk' & (_ & B & _) & _). rewrite Forall_forall in B.
  assert (k' = k) by (rewrite <- (hi_join k x), E, hi_join; auto). subst k'. apply (Hn c'), Hin'.
Qed.

(* ---------------------------------------------------------------- the invariant and the abstraction *)
Record Inv (r : rb) (s : list N) : Prop := {
  i_keys : kasc (conts r);
  i_good : good (conts r);
  i_all : s = all (conts r);
  i_len : rlen r = Z.of_nat (length s);
  i_buf : length (buf r) = N.to_nat buf_len
}.

Lemma Inv_sorted r s : Inv r s -> StronglySorted N.lt s.
Proof. intros [K G A _ _]. subst. apply all_sorted; auto. Qed.

Lemma Inv_empty : Inv r_empty [].
Proof.
  constructor.
  - unfold kasc, keys. cbn [r_empty conts map]. constructor.
  - intros k c [].
  - reflexivity.
  - reflexivity.
  - apply repeat_length.
Qed.

Lemma cwf_single x : x < 65536 -> cwf (Arr [x]).
Proof. intros Hx. split; [repeat constructor|]. split; [repeat constructor; exact Hx|]. cbn. unfold arr_max. lia. Qed.
Lemma c_add_empty x bf : c_add (Arr []) x bf = (Arr [x], true, bf).
Proof. reflexivity. Qed.

Theorem r_add_spec r s p : Inv r s -> p < 4294967296 ->
  let (r', ok) := r_add r p in Inv r' (s_insert p s) /\ ok = negb (s_mem p s).
Proof.
  intros HI Hp. pose proof (Inv_sorted _ _ HI) as Hss. destruct HI as [K G A L Bf].
  pose proof (hi_bound p) as Hk. pose proof (lo_bound p) as Hx. pose proof (join_hi_lo p Hp) as Ep.
  unfold r_add. set (k := hi p) in *. set (x := lo p) in *.
  destruct (m_get k (conts r)) as [c|] eqn:Eg.
  - apply (m_get_In _ K) in Eg. destruct (G _ _ Eg) as (_ & Wc & Nc).
    pose proof (c_add_spec c x (buf r) Wc Hx Bf) as CS. destruct (c_add c x (buf r)) as [[c' ok] buf'].
    destruct CS as (Wc' & Ec' & Eok & Bf').
    assert (Hmem : s_mem p s = s_mem x (cset c)).
    { apply s_mem_ext. rewrite s_mem_In, A, <- Ep. apply In_all_bucket; auto. }
    assert (K' : kasc (m_set k c' (conts r))) by (apply m_set_kasc, K).
    assert (G' : good (m_set k c' (conts r))).
    { intros k1 c1 Hin. apply m_set_In in Hin; auto. destruct Hin as [[-> ->]|[_ Hin]]; [|apply G, Hin].
      split; auto. split; auto. rewrite Ec'. intros E. assert (In x (s_insert x (cset c))) by (apply s_insert_In; auto). rewrite E in *. contradiction. }
    assert (A' : s_insert p s = all (m_set k c' (conts r))).
    { apply sorted_ext; [apply s_insert_sorted, Hss|apply all_sorted; auto|]. intros q.
      rewrite s_insert_In, A, !In_all. split.
      - intros [->|(k1 & c1 & v & Hin & Hv & ->)].
        + exists k, c', x. split; [apply m_set_In; auto|]. split; auto. rewrite Ec'. apply s_insert_In. auto.
        + destruct (N.eq_dec k1 k) as [->|Hne].
          * assert (c1 = c) by (apply (m_get_In _ K) in Hin, Eg; congruence). subst c1.
            exists k, c', v. split; [apply m_set_In; auto|]. split; auto. rewrite Ec'. apply s_insert_In. auto.
          * exists k1, c1, v. split; [apply m_set_In; auto|]. auto.
      - intros (k1 & c1 & v & Hin & Hv & ->). apply m_set_In in Hin; auto. destruct Hin as [[-> ->]|[Hne Hin]].
        + rewrite Ec' in Hv. apply s_insert_In in Hv. destruct Hv as [->|Hv]; [left; auto|right; eauto 6].
        + right. eauto 6. }
    split; [|rewrite Hmem; exact Eok].
    constructor; cbn [conts buf rlen]; auto.
    rewrite s_insert_length, Hmem, L by exact Hss. rewrite Eok. destruct (s_mem x (cset c)); cbn [negb]; lia.
  - pose proof (m_get_None _ K _ Eg) as Hn. rewrite c_add_empty.
    assert (Hnot : ~ In p s) by (rewrite A, <- Ep; apply In_all_nobucket; auto).
    assert (Hmem : s_mem p s = false) by (apply s_mem_ext; split; [tauto|discriminate]).
    assert (K' : kasc (m_set k (Arr [x]) (conts r))) by (apply m_set_kasc, K).
    assert (G' : good (m_set k (Arr [x]) (conts r))).
    { intros k1 c1 Hin. apply m_set_In in Hin; auto. destruct Hin as [[-> ->]|[_ Hin]]; [|apply G, Hin].
      split; auto. split; [apply cwf_single, Hx|]. cbn. discriminate. }
    assert (A' : s_insert p s = all (m_set k (Arr [x]) (conts r))).
    { apply sorted_ext; [apply s_insert_sorted, Hss|apply all_sorted; auto|]. intros q.
      rewrite s_insert_In, A, !In_all. split.
      - intros [->|(k1 & c1 & v & Hin & Hv & ->)].
        + exists k, (Arr [x]), x. split; [apply m_set_In; auto|]. cbn. auto.
        + exists k1, c1, v. split; [apply m_set_In; auto|auto]. right. split; auto. intros ->. apply (Hn c1), Hin.
      - intros (k1 & c1 & v & Hin & Hv & ->). apply m_set_In in Hin; auto. destruct Hin as [[-> ->]|[Hne Hin]].
        + cbn in Hv. destruct Hv as [<-|[]]. left. auto.
        + right. eauto 6. }
    split; [|rewrite Hmem; reflexivity].
    constructor; cbn [conts buf rlen]; auto.
    rewrite s_insert_length, Hmem, L by exact Hss. lia.
Qed.

Theorem r_remove_spec r s p : Inv r s -> p < 4294967296 ->
  let (r', ok) := r_remove r p in Inv r' (s_delete p s) /\ ok = s_mem p s.
Proof.
  intros HI Hp. pose proof (Inv_sorted _ _ HI) as Hss. pose proof HI as [K G A L Bf].
  pose proof (hi_bound p) as Hk. pose proof (lo_bound p) as Hx. pose proof (join_hi_lo p Hp) as Ep.
  assert (Hnodel : s_mem p s = false -> s_delete p s = s).
  { clear. unfold s_mem. induction s as [|a l IH]; intros M; [reflexivity|]. cbn [existsb] in M. apply orb_false_iff in M. destruct M as [M1 M2].
    cbn [s_delete]. rewrite M1. f_equal. apply IH, M2. }
  unfold r_remove. set (k := hi p) in *. set (x := lo p) in *.
  destruct (m_get k (conts r)) as [c|] eqn:Eg.
  - apply (m_get_In _ K) in Eg. destruct (G _ _ Eg) as (_ & Wc & Nc).
    pose proof (c_remove_spec c x Wc) as CS. destruct (c_remove c x) as [c' ok]. destruct CS as (Wc' & Ec' & Eok).
    assert (Hmem : s_mem p s = s_mem x (cset c)).
    { apply s_mem_ext. rewrite s_mem_In, A, <- Ep. apply In_all_bucket; auto. }
    destruct ok.
    + split; [|rewrite Hmem; exact Eok].
      pose proof (c_len_spec c' Wc') as Lc'.
      assert (Hlen : (rlen r - 1)%Z = Z.of_nat (length (s_delete p s))).
      { pose proof (s_delete_length p s Hss) as D. rewrite Hmem, <- Eok in D. lia. }
      (* membership after the operation, whichever way the map is updated *)
      assert (Hdel : forall m', kasc m' -> good m' ->
                (forall k1 c1, In (k1, c1) m' <-> (k1 <> k /\ In (k1, c1) (conts r)) \/ (k1 = k /\ c1 = c' /\ cset c' <> [])) ->
                s_delete p s = all m').
      { intros m' K' G' Hm'. apply sorted_ext; [apply s_delete_sorted, Hss|apply all_sorted; auto|]. intros q.
        rewrite s_delete_In, A, !In_all by exact Hss. split.
        - intros [Hq (k1 & c1 & v & Hin & Hv & ->)]. destruct (N.eq_dec k1 k) as [->|Hne].
          + assert (c1 = c) by (apply (m_get_In _ K) in Hin, Eg; congruence). subst c1.
            assert (Hv' : In v (cset c')) by (rewrite Ec'; apply s_delete_In; [apply Wc|]; split; auto; intros ->; apply Hq; exact Ep).
            exists k, c', v. split; [apply Hm'; right; repeat split; auto; intros E; rewrite E in Hv'; contradiction|auto].
          + exists k1, c1, v. split; [apply Hm'; auto|auto].
        - intros (k1 & c1 & v & Hin & Hv & ->). apply Hm' in Hin. destruct Hin as [[Hne Hin]|(-> & -> & _)].
          + split; [|eauto 6]. intros E. destruct (G _ _ Hin) as (Hk1 & (_ & B1 & _) & _). rewrite Forall_forall in B1.
            apply Hne. rewrite <- (hi_join k1 v), E, <- Ep, hi_join; auto.
          + rewrite Ec' in Hv. apply s_delete_In in Hv; [|apply Wc]. destruct Hv as [Hne Hv]. split; [|eauto 6].
            intros E. destruct Wc as (_ & B & _). rewrite Forall_forall in B. apply Hne.
            rewrite <- (lo_join k v), E, <- Ep, lo_join; auto. }
      destruct (Z.eqb_spec (c_len c') 0) as [E0|E0].
      * assert (Hnil : cset c' = []) by (destruct (cset c'); [reflexivity|cbn [length] in Lc'; lia]).
        constructor; cbn [conts buf rlen]; auto.
        -- apply m_del_kasc, K.
        -- intros k1 c1 Hin. apply m_del_In in Hin; auto. apply G, Hin.
        -- apply Hdel; [apply m_del_kasc, K|intros k1 c1 Hin; apply m_del_In in Hin; auto; apply G, Hin|].
           intros k1 c1. rewrite m_del_In by exact K. split; [auto|]. intros [H|(_ & _ & H)]; [exact H|congruence].
      * assert (Hnn : cset c' <> []) by (intros E; rewrite E in Lc'; cbn in Lc'; lia).
        assert (G' : good (m_set k c' (conts r))).
        { intros k1 c1 Hin. apply m_set_In in Hin; auto. destruct Hin as [[-> ->]|[_ Hin]]; [|apply G, Hin]. auto. }
        constructor; cbn [conts buf rlen]; auto.
        -- apply m_set_kasc, K.
        -- apply Hdel; [apply m_set_kasc, K|exact G'|].
           intros k1 c1. rewrite m_set_In by exact K. split; [intros [[-> ->]|H]; auto|]. intros [H|(-> & -> & _)]; auto.
    + split; [|rewrite Hmem; exact Eok]. rewrite Hnodel by (rewrite Hmem; symmetry; exact Eok). exact HI.
  - pose proof (m_get_None _ K _ Eg) as Hn.
    assert (Hnot : ~ In p s) by (rewrite A, <- Ep; apply In_all_nobucket; auto).
    assert (Hmem : s_mem p s = false) by (apply s_mem_ext; split; [tauto|discriminate]).
    split; [|symmetry; exact Hmem]. rewrite Hnodel by exact Hmem. exact HI.
Qed.

Theorem r_contains_spec r s p : Inv r s -> p < 4294967296 -> r_contains r p = s_mem p s.
Proof.
  intros [K G A L Bf] Hp.
  pose proof (hi_bound p) as Hk. pose proof (lo_bound p) as Hx. pose proof (join_hi_lo p Hp) as Ep.
  unfold r_contains. set (k := hi p) in *. set (x := lo p) in *.
  destruct (m_get k (conts r)) as [c|] eqn:Eg.
  - apply (m_get_In _ K) in Eg. destruct (G _ _ Eg) as (_ & Wc & _). rewrite c_contains_spec by exact Wc.
    symmetry. apply s_mem_ext. rewrite s_mem_In, A, <- Ep. apply In_all_bucket; auto.
  - pose proof (m_get_None _ K _ Eg) as Hn. symmetry. apply s_mem_ext. split; [|discriminate].
    intros Hin. exfalso. rewrite A, <- Ep in Hin. revert Hin. apply In_all_nobucket; auto.
Qed.

(* Range / All walk exactly the member list *)
Lemma c_elems_cset c : c_elems c = cset c.
Proof. destruct c as [v|b]; cbn [c_elems cset]; [reflexivity|]. rewrite range_loop_spec by lia. reflexivity. Qed.
Lemma r_all_all m : r_all m = all m.
Proof.
  unfold r_all, all, block. induction m as [|[k c] m IH]; cbn [flat_map fst snd]; [reflexivity|]. rewrite IH, c_elems_cset. reflexivity.
Qed.
Theorem r_range_spec r s n : Inv r s -> r_range r n = match n with O => s | _ => firstn n s end.
Proof. intros [_ _ A _ _]. unfold r_range. rewrite r_all_all, <- A. reflexivity. Qed.

(* the number of containers is the number of distinct high parts: no empty bucket stays in the map *)
Lemma dedup_block k n l : (forall y, In y l -> k <> y) -> dedup (repeat k (S n) ++ l) = k :: dedup l.
Proof.
  intros H. induction n as [|n IH]; cbn [repeat app].
  - cbn [dedup]. destruct l as [|y l']; [reflexivity|]. destruct (N.eqb_spec k y) as [E|_]; [exfalso; apply (H y); [left; reflexivity|exact E]|reflexivity].
  - cbn [repeat app] in IH. cbn [dedup]. rewrite N.eqb_refl. exact IH.
Qed.
Lemma map_hi_block k c : k < 65536 -> Forall (fun v => v < 65536) (cset c) -> map hi (block (k, c)) = repeat k (length (cset c)).
Proof.
  intros Hk B. unfold block. cbn [fst snd]. induction (cset c) as [|v l IH]; cbn [map repeat length]; [reflexivity|].
  inversion B; subst. rewrite hi_join by auto. f_equal. apply IH. assumption.
Qed.
Lemma buckets_all : forall m, kasc m -> good m -> length m = length (dedup (map hi (all m))).
Proof.
  induction m as [|[k c] m IH]; intros K G; cbn [all flat_map length]; [reflexivity|].
  destruct (kasc_tl _ _ _ K) as [K' Hlt].
  assert (G' : good m) by (intros k' c' Hin; apply G; right; exact Hin).
  destruct (G k c (or_introl eq_refl)) as (Hk & (_ & Bc & _) & Nc).
  rewrite map_app, map_hi_block by auto. destruct (cset c) as [|v0 l0] eqn:Ec; [congruence|]. cbn [length].
  rewrite dedup_block; [cbn [length]; f_equal; apply IH; auto|].
  intros y Hy. apply in_map_iff in Hy. destruct Hy as (q & <- & Hq). apply In_all in Hq. destruct Hq as (k1 & c1 & v & Hin & Hv & ->).
  destruct (G' _ _ Hin) as (Hk1 & (_ & B1 & _) & _). rewrite Forall_forall in B1. rewrite hi_join by auto. specialize (Hlt _ _ Hin). lia.
Qed.
Theorem buckets_spec r s : Inv r s -> length (conts r) = s_buckets s.
Proof. intros [K G A _ _]. subst s. unfold s_buckets. apply buckets_all; auto. Qed.
Print Assumptions r_add_spec.
Print Assumptions r_remove_spec.
Print Assumptions buckets_spec.
