(* C01 without the Fresh hypothesis: a schedule of fewer than 2^32 steps started from a state in which no
   operation is in flight is always fresh (each step advances a counter by at most one, and every position a
   thread holds was loaded during the run). *)
From Coq Require Import List ZArith Lia Bool Arith.
Import ListNotations.
From V Require Import Model.SyncRingConc Proofs.SyncRingConc Proofs.SyncRingConcTop Proofs.SyncRingSeqState.
Local Open Scope Z_scope.

Definition recent (t0 h0 : Z) (p : pc) : Prop :=
  match p with
  | PuLoadSeq _ _ T0 | PuCas _ _ _ T0 | PuWrite _ _ _ T0 | PuPublish _ _ _ T0 => t0 <= T0
  | PoLoadSeq _ H0 | PoCas _ _ H0 | PoRead _ _ H0 _ | PoClear _ _ H0 _ _ | PoRelease _ _ H0 _ _ => h0 <= H0
  | _ => True
  end.
Definition bounded (t0 h0 : Z) (c : config) (j : Z) : Prop :=
  t0 <= tl (sh c) <= t0 + j /\ h0 <= hd (sh c) <= h0 + j /\ Forall (recent t0 h0) (ths c).

Lemma Forall_upd {A} (P : A -> Prop) l i x : Forall P l -> P x -> Forall P (upd l i x).
Proof.
  revert i; induction l as [|a l IH]; intros [|i] H Hx; cbn [upd]; auto.
  - inversion H; subst. constructor; auto.
  - inversion H; subst. constructor; auto.
Qed.

Lemma step_bounded t0 h0 c e c' j : 0 <= j -> bounded t0 h0 c j -> step c e = Some c' -> bounded t0 h0 c' (j + 1).
Proof.
  intros Hj (Ht & Hh & HF) Hs. destruct e as [i o]. unfold step in Hs.
  destruct (nth_error (ths c) i) as [p|] eqn:Hi.
  2:{ inversion Hs; subst. repeat split; try lia. exact HF. }
  assert (Hp : recent t0 h0 p) by (rewrite Forall_forall in HF; apply HF; eapply nth_error_In; eauto).
  destruct (tstep (sh c) p o) as [[[s' p'] r]|] eqn:E; [|discriminate]. inversion Hs; subst c'. clear Hs.
  unfold bounded. cbn [sh ths].
  assert (K : t0 <= tl s' <= t0 + (j + 1) /\ h0 <= hd s' <= h0 + (j + 1) /\ recent t0 h0 p').
  { destruct p; cbn [tstep] in E; cbn [recent] in Hp.
    - destruct o; inversion E; subst; cbn [recent]; repeat split; try lia; auto.
    - inversion E; subst; cbn [recent]; repeat split; try lia.
    - destruct (nth_error (slots (sh c)) (sidx (sh c) pos)) as [[xv xs]|]; [|discriminate].
      destruct (pos =? xs); inversion E; subst; cbn [recent]; repeat split; try lia; auto.
    - destruct (u32 (tl (sh c)) =? pos); inversion E; subst; cbn [recent tl hd]; repeat split; try lia; auto.
    - destruct (nth_error (slots (sh c)) (sidx (sh c) pos)) as [[xv xs]|]; [|discriminate].
      inversion E; subst; cbn [recent set_slot tl hd]; repeat split; try lia; auto.
    - destruct (nth_error (slots (sh c)) (sidx (sh c) pos)) as [[xv xs]|]; [|discriminate].
      inversion E; subst; cbn [recent set_slot tl hd]; repeat split; try lia; auto.
    - inversion E; subst; cbn [recent]; repeat split; try lia.
    - destruct (nth_error (slots (sh c)) (sidx (sh c) pos)) as [[xv xs]|]; [|discriminate].
      destruct (u32 (pos + 1) =? xs); inversion E; subst; cbn [recent]; repeat split; try lia; auto.
    - destruct (u32 (hd (sh c)) =? pos); inversion E; subst; cbn [recent tl hd]; repeat split; try lia; auto.
    - destruct (nth_error (slots (sh c)) (sidx (sh c) pos)) as [[xv xs]|]; [|discriminate].
      inversion E; subst; cbn [recent]; repeat split; try lia; auto.
    - destruct (nth_error (slots (sh c)) (sidx (sh c) pos)) as [[xv xs]|]; [|discriminate].
      inversion E; subst; cbn [recent set_slot tl hd]; repeat split; try lia; auto.
    - destruct (nth_error (slots (sh c)) (sidx (sh c) pos)) as [[xv xs]|]; [|discriminate].
      inversion E; subst; cbn [recent set_slot tl hd]; repeat split; try lia; auto.
    - inversion E; subst; cbn [recent]; repeat split; try lia; auto.
    - inversion E; subst; cbn [recent]; repeat split; try lia; auto. }
  destruct K as (K1 & K2 & K3). repeat split; try lia. apply Forall_upd; auto.
Qed.

Lemma fresh_of_bounded t0 h0 c j i : bounded t0 h0 c j -> j < M32 -> fresh_ok c i.
Proof.
  intros (Ht & Hh & HF) Hj. unfold fresh_ok. destruct (nth_error (ths c) i) as [p|] eqn:Hi; auto.
  assert (Hp : recent t0 h0 p) by (rewrite Forall_forall in HF; apply HF; eapply nth_error_In; eauto).
  destruct p; auto; cbn [recent] in Hp; lia.
Qed.

Lemma bounded_fresh_run t0 h0 : forall sched c j, 0 <= j -> bounded t0 h0 c j -> j + Z.of_nat (length sched) < M32 + 1 ->
  fresh_run c sched.
Proof.
  induction sched as [|e rest IH]; intros c j Hj HB Hl; cbn [fresh_run]; auto.
  cbn [length] in Hl. split.
  - eapply fresh_of_bounded; eauto. lia.
  - destruct (step c e) as [c'|] eqn:E; auto. apply (IH c' (j + 1)); try lia. eapply step_bounded; eauto.
Qed.

Theorem short_schedules_are_fresh c0 sched :
  Forall (fun p => p = Idle) (ths c0) -> Z.of_nat (length sched) <= M32 -> fresh_run c0 sched.
Proof.
  intros Hidle Hl. apply (bounded_fresh_run (tl (sh c0)) (hd (sh c0)) sched c0 0); try lia.
  repeat split; try lia. eapply Forall_impl; [|exact Hidle]. intros p ->. exact I.
Qed.

(* the unconditional form of C01: from every sequentially reachable state, every schedule of at most 2^32 steps *)
Theorem syncring_unconditional k base fill n sched c :
  1 <= k <= 31 -> 0 <= base -> 0 <= fill <= 2 ^ k -> Z.of_nat (length sched) <= M32 ->
  run (seq_state k base fill n) sched = Some c ->
  Inv k c /\
  0 <= tl (sh c) - hd (sh c) <= 2 ^ k /\ Z.of_nat (length (q (sh c))) = tl (sh c) - hd (sh c) /\
  replay (2 ^ k) (lin (sh c)) [] = Some (q (sh c)) /\
  (forall i v g, In (i, RPop v (Some g)) (hist c) -> v = Some g) /\
  ~ race c /\
  len_of (u32 (tl (sh c))) (u32 (hd (sh c))) (cap (sh c)) = Z.of_nat (length (q (sh c))).
Proof.
  intros Hk Hb Hf Hl HR.
  apply (syncring_from_inv k (seq_state k base fill n) sched c); auto.
  - apply SyncRingSeqState.seq_state_inv; auto.
  - apply short_schedules_are_fresh; auto. cbn [seq_state ths]. apply Forall_forall. intros p Hp. apply repeat_spec in Hp. exact Hp.
Qed.
