(* C11, refinement of the history judge: one schedule entry of the run (go1) prints tokens on which the judge moves
   to a related state. *)
From Coq Require Import List ZArith Lia Bool Arith.
Import ListNotations.
From V Require Import Lib.Enc Model.SyncListConc Proofs.SyncListConc Proofs.SyncListTop Run.C11
  Proofs.SyncListJudgeBase Proofs.SyncListJudgeSim.
Local Open Scope Z_scope.
Arguments Z.add : simpl never.
Arguments Z.sub : simpl never.
Arguments Z.of_nat : simpl never.

(* ---- the run side: what go1 does ---- *)
Definition start_pc (o : op) : pc := match o with OpPush v => PushLoadTail v | OpPop => PopLoadHead | OpLen => LenLoad end.

Lemma go1_none c rts x : nth_error (ths c) (Z.to_nat x) = None -> go1 c rts x = (c, rts, []).
Proof. intros H. unfold go1. rewrite H. reflexivity. Qed.
Lemma go1_none' c rts x : nth_error rts (Z.to_nat x) = None -> go1 c rts x = (c, rts, []).
Proof. intros H. unfold go1. rewrite H. destruct (nth_error (ths c) (Z.to_nat x)); reflexivity. Qed.

Lemma go1_yield c rts x rt : nth_error (ths c) (Z.to_nat x) = Some Idle -> nth_error rts (Z.to_nat x) = Some rt ->
  r_yield rt = true ->
  go1 c rts x = (c, upd rts (Z.to_nat x) (rt_unyield rt), [x; 1; EvGosched; 0; 0; 0; 0]).
Proof. intros Hp Hrt Hy. unfold go1. rewrite Hp, Hrt. cbn [pc_idle andb]. rewrite Hy, updl_upd. reflexivity. Qed.

Definition idle_start (rt : rthread) : option (op * rthread) :=
  if negb (r_wait rt =? 0) then Some (OpPop, rt) else rt_begin rt.

Lemma go1_idle_none c rts x rt : nth_error (ths c) (Z.to_nat x) = Some Idle -> nth_error rts (Z.to_nat x) = Some rt ->
  r_yield rt = false -> idle_start rt = None -> go1 c rts x = (c, rts, []).
Proof.
  intros Hp Hrt Hy Hs. unfold go1. rewrite Hp, Hrt. cbn [pc_idle andb negb]. rewrite Hy. unfold idle_start in Hs. rewrite Hs.
  reflexivity.
Qed.
Lemma go1_idle_start c rts x rt o rt1 : nth_error (ths c) (Z.to_nat x) = Some Idle -> nth_error rts (Z.to_nat x) = Some rt ->
  r_yield rt = false -> idle_start rt = Some (o, rt1) ->
  go1 c rts x = ({| sh := sh c; ths := upd (ths c) (Z.to_nat x) (start_pc o); hist := hist c |}, upd rts (Z.to_nat x) rt1, [x; 0]).
Proof.
  intros Hp Hrt Hy Hs. unfold go1. rewrite Hp, Hrt. cbn [pc_idle andb negb]. rewrite Hy. unfold idle_start in Hs. rewrite Hs.
  rewrite (step_at c _ o Idle Hp). cbn [observe]. rewrite (updl_upd rts). destruct o; reflexivity.
Qed.

Lemma go1_busy c rts x p rt : nth_error (ths c) (Z.to_nat x) = Some p -> nth_error rts (Z.to_nat x) = Some rt ->
  pc_idle p = false ->
  go1 c rts x = let '(s', p', r) := tstep (sh c) p OpPop in
    ({| sh := s'; ths := upd (ths c) (Z.to_nat x) p'; hist := push_hist (hist c) (Z.to_nat x) r |},
     upd rts (Z.to_nat x) (match r with Some y => if pc_idle p' then rt_return rt y else rt | None => rt end),
     x :: observe (sh c) p).
Proof.
  intros Hp Hrt Hi. unfold go1. rewrite Hp, Hrt, Hi. cbn [andb negb].
  rewrite (step_at c _ OpPop p Hp). destruct (tstep (sh c) p OpPop) as [[s' p'] r]. cbn [ths hist].
  rewrite (nth_error_upd_same (ths c) (Z.to_nat x) p' p Hp), (updl_upd rts). unfold push_hist.
  destruct r as [y|].
  - rewrite app_length. cbn [length]. replace (Nat.eqb (length (hist c) + 1) (length (hist c))) with false
      by (symmetry; apply Nat.eqb_neq; lia).
    rewrite map_app. cbn [map]. rewrite last_last. cbn [snd negb andb]. rewrite andb_true_r.
    destruct p'; reflexivity.
  - rewrite Nat.eqb_refl. cbn [negb]. rewrite andb_false_r. reflexivity.
Qed.

(* ---- the judge side ---- *)
Lemma j_event_neutral s i t r ek loc a b res :
  nth_error (j_ths s) i = Some t -> t_cur t = Some r ->
  (ek =? EvStorePtr) && (loc =? LocTail) = false ->
  (ek =? EvCasPtr) && (loc =? LocHead) && (res =? 1) = false ->
  (ek =? EvLoadI64) && (loc =? LocLen) = false ->
  j_event s i ek loc a b res = {| j_q := j_q s; j_ths := map (look (j_q s)) (j_ths s); j_ok := j_ok s |}.
Proof. intros Ht Hr H1 H2 H3. unfold j_event. rewrite Ht, Hr, H1, H2, H3. reflexivity. Qed.

Definition rec_pushed (r : oprec) : oprec :=
  {| o_kind := o_kind r; o_val := o_val r; o_lp := true; o_got := 0; o_excuse := o_excuse r; o_lenmin := 0;
     o_wait := o_wait r; o_left := o_left r |}.
Lemma j_event_store_tail s i t r a b res :
  nth_error (j_ths s) i = Some t -> t_cur t = Some r ->
  j_event s i EvStorePtr LocTail a b res =
    {| j_q := j_q s ++ [o_val r]; j_ths := map (look (j_q s ++ [o_val r])) (upd (j_ths s) i (with_cur t (Some (rec_pushed r))));
       j_ok := j_ok s && ((o_kind r =? 1) && negb (o_lp r)) |}.
Proof. intros Ht Hr. unfold j_event. rewrite Ht, Hr. cbn. unfold set_rec. rewrite updl_upd. reflexivity. Qed.

Definition rec_popped (r : oprec) (x : Z) : oprec :=
  {| o_kind := o_kind r; o_val := 0; o_lp := true; o_got := x; o_excuse := o_excuse r; o_lenmin := 0;
     o_wait := o_wait r; o_left := o_left r |}.
Lemma j_event_cas_head s i t r a b x q' :
  nth_error (j_ths s) i = Some t -> t_cur t = Some r -> j_q s = x :: q' ->
  j_event s i EvCasPtr LocHead a b 1 =
    {| j_q := q'; j_ths := map (look q') (upd (j_ths s) i (with_cur t (Some (rec_popped r x))));
       j_ok := j_ok s && ((o_kind r =? 2) && negb (o_lp r)) |}.
Proof. intros Ht Hr Hq. unfold j_event. rewrite Ht, Hr, Hq. cbn. unfold set_rec. rewrite updl_upd. reflexivity. Qed.

Definition rec_len (r : oprec) (z : Z) (m : Z) : oprec :=
  {| o_kind := o_kind r; o_val := o_val r; o_lp := true; o_got := z; o_excuse := o_excuse r;
     o_lenmin := m; o_wait := false; o_left := 0 |}.
Lemma j_event_len s i t r a b res :
  nth_error (j_ths s) i = Some t -> t_cur t = Some r ->
  j_event s i EvLoadI64 LocLen a b res =
    {| j_q := j_q s; j_ths := map (look (j_q s)) (upd (j_ths s) i (with_cur t (Some (rec_len r res (Z.of_nat (length (j_q s)))))));
       j_ok := j_ok s && (o_kind r =? 3) |}.
Proof. intros Ht Hr. unfold j_event. rewrite Ht, Hr. cbn. unfold set_rec. rewrite updl_upd. reflexivity. Qed.

Definition rec_again (r : oprec) : oprec :=
  {| o_kind := 2; o_val := 0; o_lp := false; o_got := 0; o_excuse := o_excuse r; o_lenmin := 0;
     o_wait := true; o_left := if o_left r <? 0 then -1 else o_left r - 1 |}.
Lemma j_start_again progs s i t0 r :
  nth_error (j_ths s) i = Some t0 -> t_cur t0 = Some r -> o_wait r && negb (o_lp r) && negb (o_left r =? 0) = true ->
  j_start progs s i =
    {| j_q := j_q s; j_ths := map (look (j_q s)) (upd (j_ths s) i (with_cur t0 (Some (rec_again r)))); j_ok := j_ok s |}.
Proof. intros Ht Hr Hc. unfold j_start. rewrite Ht, Hr, Hc, updl_upd. reflexivity. Qed.

Definition rec_fresh (o : Z) (others : bool) : oprec :=
  {| o_kind := if (o =? 0) || is_wait o then 2 else if o <? 0 then 3 else 1; o_val := o; o_lp := false; o_got := 0;
     o_excuse := others; o_lenmin := 0; o_wait := is_wait o; o_left := if o <=? -100 then - o - 100 else -1 |}.
Definition t_fresh (t0 : tstate) (r : oprec) : tstate :=
  {| t_next := S (t_next t0); t_cur := Some r; t_done := t_done (finish t0); t_lasthead := -1 |}.
Lemma finish_next t : t_next (finish t) = t_next t.
Proof. unfold finish. destruct (t_cur t); reflexivity. Qed.
Lemma j_start_fresh progs s i t0 o :
  nth_error (j_ths s) i = Some t0 ->
  match t_cur t0 with Some r => o_wait r && negb (o_lp r) && negb (o_left r =? 0) | None => false end = false ->
  nth_error (nth i progs []) (t_next t0) = Some o ->
  j_start progs s i =
    let others := existsb in_flight (upd (j_ths s) i (finish t0)) in
    let l := upd (j_ths s) i (t_fresh t0 (rec_fresh o others)) in
    {| j_q := j_q s; j_ths := map (look (j_q s)) (if others then map excuse_all l else l); j_ok := j_ok s |}.
Proof.
  intros Ht Hc Ho. unfold j_start. rewrite Ht, Hc, finish_next, Ho, !(updl_upd (j_ths s)). unfold t_fresh. rewrite ?finish_next. reflexivity.
Qed.

(* ---- tokens of a busy step as an item ---- *)
Definition item_of (s : shared) (x : Z) (p : pc) : item :=
  match observe s p with
  | [k] => if k =? 0 then IStart x else IPlain x
  | [_; ek; loc; a; b; res] => IEv x ek loc a b res
  | _ => IPlain x
  end.
Lemma item_of_enc s x p : x :: observe s p = enc_item (item_of s x p).
Proof. destruct p; try reflexivity. destruct nx; reflexivity. Qed.
Lemma item_of_tid s x p : item_tid (item_of s x p) = x.
Proof. destruct p; try reflexivity. destruct nx; reflexivity. Qed.

(* ---- pieces of the step lemma ---- *)
Lemma config_eta c i p : nth_error (ths c) i = Some p -> c = {| sh := sh c; ths := upd (ths c) i p; hist := hist c |}.
Proof. intros H. rewrite (upd_same_id _ _ _ H). destruct c; reflexivity. Qed.

Lemma skipn_cons_nth {A} (l : list A) k x m : skipn k l = x :: m -> nth_error l k = Some x /\ skipn (S k) l = m.
Proof.
  revert l; induction k as [|k IH]; intros l H.
  - cbn [skipn] in H. subst l. split; reflexivity.
  - destruct l as [|a l]; [cbn in H; discriminate|]. cbn [skipn] in H. destruct (IH _ H) as [H1 H2]. split; [exact H1|].
    exact H2.
Qed.
Lemma skipn_In {A} (l : list A) k x : In x (skipn k l) -> In x l.
Proof.
  revert l; induction k as [|k IH]; intros l H; [exact H|]. destruct l as [|a l]; [exact H|]. right. apply IH. exact H.
Qed.

Lemma tsim_return hd prog rt t' r' res :
  r_prog rt = skipn (t_next t') prog -> r_yield rt = false -> t_cur t' = Some r' -> done_ok (t_done t') (r_res rt) ->
  (if (r_wait rt =? 0) || res_success res || (r_left rt =? 0)
   then cur_complete r' /\ chk1 r' (enc_res res) = true
   else o_kind r' = 2 /\ o_lp r' = false /\ o_wait r' = true /\ o_left r' = r_left rt /\ -1 <= r_left rt /\ r_wait rt <> 0) ->
  tsim hd prog Idle (rt_return rt res) t'.
Proof.
  intros Hprog Hy Hcur Hdone H. unfold rt_return.
  destruct ((r_wait rt =? 0) || res_success res || (r_left rt =? 0)) eqn:Ec.
  - destruct H as [H1 H2]. unfold tsim, settled. cbn [r_prog r_yield r_wait r_res pc_idle andb Z.eqb].
    split; [exact Hprog|]. split; [discriminate|]. rewrite Hcur. split; [exact H1|].
    exists (enc_res res), (r_res rt). rewrite rev_append_rev. repeat split; auto.
  - destruct H as (K1 & K2 & K3 & K4 & K5 & K6).
    apply orb_false_iff in Ec as [Ec Ec3]. apply orb_false_iff in Ec as [Ec1 Ec2].
    assert (Hne : r_left rt <> 0) by (apply Z.eqb_neq; exact Ec3).
    destruct (Z.ltb_spec (r_left rt) 0) as [Hlt|Hge]; unfold tsim, settled; cbn [r_prog r_yield r_wait r_left r_res pc_idle andb];
      rewrite Ec1; cbn [andb].
    + split; [exact Hprog|]. split; [intros _; split; [reflexivity|exact K6]|].
      exists r'. repeat split; auto. cbn [opsim]. unfold wait_idle. cbn [r_left]. repeat split; auto. left. split; [reflexivity|lia].
    + split; [exact Hprog|]. split; [discriminate|].
      exists r'. repeat split; auto. cbn [opsim]. unfold wait_idle. cbn [r_left]. repeat split; auto. right. lia.
Qed.

(* a Pop attempt that returns false *)
Lemma pop_fail_cond rt r res : res = RPopEmpty \/ res = RPopBusy ->
  o_kind r = 2 -> o_lp r = false -> wait_run rt r -> o_excuse r = true ->
  (if (r_wait rt =? 0) || res_success res || (r_left rt =? 0)
   then cur_complete r /\ chk1 r (enc_res res) = true
   else o_kind r = 2 /\ o_lp r = false /\ o_wait r = true /\ o_left r = r_left rt /\ -1 <= r_left rt /\ r_wait rt <> 0).
Proof.
  intros Hres Hk Hlp [Hw Hl] He.
  assert (Hs : res_success res = false) by (destruct Hres; subst; reflexivity).
  assert (Henc : enc_res res = [2; 0; 0]) by (destruct Hres; subst; reflexivity).
  rewrite Hs, Henc, orb_false_r. unfold cur_complete, chk1. cbn [check_results].
  destruct (Z.eqb_spec (r_wait rt) 0) as [E0|E0]; cbn [orb negb] in *.
  - rewrite Hk, Hlp, Hw, He. cbn. auto.
  - destruct (Hl E0) as [Hl1 Hl2]. destruct (Z.eqb_spec (r_left rt) 0) as [E1|E1].
    + rewrite Hk, Hlp, Hw, Hl1, E1. cbn. rewrite orb_true_r. auto.
    + repeat split; auto.
Qed.

Lemma look_nil_pop t r : t_cur t = Some r -> o_kind r = 2 -> look [] t = with_cur t (Some (excuse r)).
Proof. intros H K. unfold look. rewrite H, K. reflexivity. Qed.

Lemma look_excuse_all_excused q0 t r : t_cur (look q0 (excuse_all t)) = Some r -> o_excuse r = true.
Proof.
  pose proof (exc_only_look q0 (excuse_all t)) as (_ & _ & L). intros H. rewrite H in L.
  unfold excuse_all in L. destruct (t_cur t) as [r0|] eqn:E0.
  - cbn [with_cur t_cur] in L. destruct L as (_&_&_&_&_&_&_&L). apply L. reflexivity.
  - rewrite E0 in L. tauto.
Qed.

Lemma existsb_false_nth {A} (f : A -> bool) l i x : existsb f l = false -> nth_error l i = Some x -> f x = false.
Proof.
  intros H Hi. destruct (f x) eqn:E; [|reflexivity]. assert (existsb f l = true); [|congruence].
  apply existsb_exists. exists x. split; [eapply nth_error_In; eauto|exact E].
Qed.

Lemma Econt_with_cur t r r' : t_cur t = Some r -> (o_excuse r = true -> o_excuse r' = true) -> Econt t (with_cur t (Some r')).
Proof. intros H K r'' E. cbn in E. inversion E; subst. exists r. split; auto. Qed.
Lemma Econt_refl t : Econt t t.
Proof. intros r H. exists r. split; auto. Qed.

Lemma j_item_neutral progs s x t r ek loc a b res :
  nth_error (j_ths s) (Z.to_nat x) = Some t -> t_cur t = Some r ->
  (ek = EvLoadPtr \/ ek = EvAddI64 \/ ek = EvGosched \/ (ek = EvCasPtr /\ (10 <= loc \/ res = 0))) ->
  j_item progs s (IEv x ek loc a b res) = {| j_q := j_q s; j_ths := map (look (j_q s)) (j_ths s); j_ok := j_ok s |}.
Proof.
  intros Ht Hr H. cbn [j_item]. apply (j_event_neutral s _ t r); auto.
  - destruct H as [->|[->|[->|[-> _]]]]; reflexivity.
  - destruct H as [->|[->|[->|[-> H]]]]; try reflexivity. unfold EvCasPtr, LocHead. rewrite Z.eqb_refl. cbn [andb].
    destruct H as [H| ->]; [|apply andb_false_r]. replace (loc =? 1) with false by (symmetry; apply Z.eqb_neq; lia). reflexivity.
  - destruct H as [->|[->|[->|[-> _]]]]; reflexivity.
Qed.

Section Busy.
Variables (progs : list (list Z)) (c : config) (rts : list rthread) (js : jstate) (x : Z) (p : pc) (rt : rthread)
  (t : tstate) (r : oprec).
Let i := Z.to_nat x.
Hypothesis HS : SIM progs c rts js.
Hypothesis Hp : nth_error (ths c) i = Some p.
Hypothesis Hrt : nth_error rts i = Some rt.
Hypothesis Ht : nth_error (j_ths js) i = Some t.
Hypothesis Hprog : r_prog rt = skipn (t_next t) (nth i progs []).
Hypothesis Hy : r_yield rt = false.
Hypothesis Hcur : t_cur t = Some r.
Hypothesis Hdone : done_ok (t_done t) (r_res rt).
Hypothesis Hidle : pc_idle p = false.

Lemma busy_inv s' p' res : tstep (sh c) p OpPop = (s', p', res) ->
  Inv {| sh := s'; ths := upd (ths c) i p'; hist := push_hist (hist c) i res |}.
Proof.
  intros E. pose proof (step_inv c (i, OpPop) (s_inv _ _ _ _ HS)) as H. rewrite (step_at c i OpPop p Hp), E in H. exact H.
Qed.

Lemma busy_tassert : tassert (sh c) p.
Proof.
  pose proof (i_t _ (s_inv _ _ _ _ HS)) as HT. rewrite Forall_forall in HT. apply HT. eapply nth_error_In; eauto.
Qed.

Lemma busy_neutral s' p' f js' :
  tstep (sh c) p OpPop = (s', p', None) -> pc_idle p' = false -> q s' = q (sh c) -> head s' = head (sh c) ->
  opsim (head (sh c)) p' rt r ->
  exc_only f -> j_q js' = j_q js -> j_ok js' = j_ok js -> j_ths js' = map f (j_ths js) ->
  SIM progs {| sh := s'; ths := upd (ths c) i p'; hist := hist c |} (upd rts i rt) js'.
Proof.
  intros E Hi' Hq Hh Hop Hf Hjq Hjok Hjt.
  eapply (sim_frame progs c rts js i p rt t s' p' (hist c) rt t f js'); eauto.
  - exact (busy_inv _ _ _ E).
  - rewrite Hjq, Hq. apply (s_q _ _ _ _ HS).
  - rewrite Hjok. apply (s_ok _ _ _ _ HS).
  - rewrite (upd_same_id _ _ _ Ht). exact Hjt.
  - apply (tsim_le _ _ _ _ t); [apply Hf|]. unfold tsim, settled. rewrite Hi', Hh. cbn [andb].
    split; [exact Hprog|]. split; [rewrite Hy; discriminate|]. exists r. auto.
  - eapply Einv_frame; eauto; [apply (s_e _ _ _ _ HS)|apply Econt_refl].
Qed.

Lemma busy_return s' res t' f js' :
  tstep (sh c) p OpPop = (s', Idle, Some res) ->
  exc_only f -> j_q js' = q s' -> j_ok js' = true -> j_ths js' = map f (upd (j_ths js) i t') ->
  tsim (head s') (nth i progs []) Idle (rt_return rt res) (f t') ->
  head s' = head (sh c) ->
  Econt t t' ->
  SIM progs {| sh := s'; ths := upd (ths c) i Idle; hist := hist c ++ [(i, res)] |} (upd rts i (rt_return rt res)) js'.
Proof.
  intros E Hf Hjq Hjok Hjt Hts Hh HE.
  eapply (sim_frame progs c rts js i p rt t s' Idle _ (rt_return rt res) t' f js'); eauto.
  - exact (busy_inv _ _ _ E).
  - eapply Einv_frame; eauto. apply (s_e _ _ _ _ HS).
Qed.
End Busy.

Lemma look_not_pop q0 t r : t_cur t = Some r -> o_kind r <> 2 -> look q0 t = t.
Proof.
  intros H K. unfold look. rewrite H. destruct q0; [|reflexivity]. destruct (Z.eqb_spec (o_kind r) 2); [contradiction|reflexivity].
Qed.

Lemma sim_step_busy progs c rts js x p rt t :
  SIM progs c rts js -> nth_error (ths c) (Z.to_nat x) = Some p -> nth_error rts (Z.to_nat x) = Some rt ->
  nth_error (j_ths js) (Z.to_nat x) = Some t -> pc_idle p = false ->
  let '(c', rts', toks) := go1 c rts x in
  SIM progs c' rts' (j_item progs js (item_of (sh c) x p)) /\ toks = enc_item (item_of (sh c) x p).
Proof.
  intros HS Hp Hrt Ht Hidle. rewrite (go1_busy c rts x p rt Hp Hrt Hidle).
  pose proof (s_t _ _ _ _ HS _ _ _ _ Hp Hrt Ht) as (Hprog & Hyield & Hrest).
  unfold settled in Hrest. rewrite Hidle in Hrest. cbn [andb] in Hrest. destruct Hrest as (r & Hcur & Hdone & Hop).
  assert (Hy : r_yield rt = false).
  { destruct (r_yield rt); [|reflexivity]. destruct (Hyield eq_refl) as [H _]. congruence. }
  pose proof (busy_tassert progs c rts js x p HS Hp) as Hta.
  pose proof (s_inv _ _ _ _ HS) as HI.
  pose proof (s_q _ _ _ _ HS) as Hjq. pose proof (s_ok _ _ _ _ HS) as Hjok.
  pose proof (busy_neutral progs c rts js x p rt t r HS Hp Hrt Ht Hprog Hy Hcur Hdone) as NEU.
  pose proof (busy_return progs c rts js x p rt t HS Hp Hrt Ht) as RET.
  pose proof (j_item_neutral progs js x t r) as JN.
  destruct p; try discriminate Hidle; cbn [tstep].
  - (* PushLoadTail *) split; [|apply item_of_enc]. unfold item_of; cbn [observe push_hist].
    rewrite JN by tauto. eapply NEU with (f := look (j_q js)); try reflexivity; [exact Hop|apply exc_only_look].
  - (* PushLoadNext *) split; [|apply item_of_enc]. unfold item_of; cbn [observe push_hist].
    rewrite JN by tauto. eapply NEU with (f := look (j_q js)); try reflexivity; [exact Hop|apply exc_only_look].
  - (* PushCas *) cbn [opsim] in Hop. destruct Hop as (K1 & K2 & K3 & K4). destruct nx as [n|].
    + split; [|apply item_of_enc]. unfold item_of; cbn [observe push_hist Z.eqb j_item].
      unfold starts_ok. rewrite Ht, Hcur, K1, K3. cbn [Z.eqb negb andb Pos.eqb].
      eapply NEU with (f := fun t => t); try reflexivity; [cbn [opsim]; auto|apply exc_only_id|symmetry; apply map_id].
    + assert (JN' : forall a b res, j_item progs js (IEv x EvCasPtr (loc_next t0) a b res) =
                {| j_q := j_q js; j_ths := map (look (j_q js)) (j_ths js); j_ok := j_ok js |}).
      { intros. apply JN; auto. right; right; right. split; [reflexivity|left; unfold loc_next; lia]. }
      destruct (next_of (sh c) t0) eqn:En.
      * split; [|apply item_of_enc]. unfold item_of; cbn [observe push_hist]. rewrite JN'.
        eapply NEU with (f := look (j_q js)); try reflexivity; [cbn [tstep]; rewrite En; reflexivity|cbn [opsim]; auto|apply exc_only_look].
      * split; [|apply item_of_enc]. unfold item_of; cbn [observe push_hist]. rewrite JN'.
        eapply NEU with (f := look (j_q js)); try reflexivity; [cbn [tstep]; rewrite En; reflexivity|cbn [opsim]; auto|apply exc_only_look].
  - (* PushAdd *) split; [|apply item_of_enc]. unfold item_of; cbn [observe push_hist].
    rewrite JN by tauto. eapply NEU with (f := look (j_q js)); try reflexivity; [exact Hop|apply exc_only_look].
  - (* PushStoreTail *) cbn [opsim] in Hop. destruct Hop as (K1 & K2 & K3 & K4).
    split; [|apply item_of_enc]. unfold item_of; cbn [observe push_hist j_item].
    rewrite (j_event_store_tail js _ t r _ _ _ Ht Hcur).
    assert (Hlk : look (j_q js ++ [o_val r]) (with_cur t (Some (rec_pushed r))) = with_cur t (Some (rec_pushed r))).
    { eapply look_not_pop; [reflexivity|]. cbn [rec_pushed o_kind]. lia. }
    eapply RET with (f := look (j_q js ++ [o_val r])) (t' := with_cur t (Some (rec_pushed r))); try reflexivity.
    + apply exc_only_look.
    + cbn [j_q q]. rewrite Hjq, K2. reflexivity.
    + cbn [j_ok]. rewrite Hjok, K1, K3. reflexivity.
    + rewrite Hlk. eapply tsim_return; eauto; try reflexivity. rewrite K4. cbn [Z.eqb orb].
      unfold cur_complete, chk1. cbn [check_results rec_pushed o_kind o_lp o_wait enc_res]. rewrite K1. cbn. rewrite !andb_false_r. auto.
    + apply (Econt_with_cur t r); auto.
  - (* PushYield *) split; [|apply item_of_enc]. unfold item_of; cbn [observe push_hist].
    rewrite JN by tauto. eapply NEU with (f := look (j_q js)); try reflexivity; [exact Hop|apply exc_only_look].
  - (* PopLoadHead *) split; [|apply item_of_enc]. unfold item_of; cbn [observe push_hist].
    rewrite JN by tauto. eapply NEU with (f := look (j_q js)); try reflexivity; [|apply exc_only_look].
    cbn [opsim] in *. intuition.
  - (* PopLoadTail *) cbn [opsim] in Hop. destruct Hop as (K1 & K2 & K3 & K4). cbn [tassert] in Hta.
    destruct (Nat.eqb_spec h (tail (sh c))) as [E|E];
      (split; [|apply item_of_enc]); unfold item_of; cbn [observe push_hist]; rewrite JN by tauto.
    + assert (Hemp : q (sh c) = []).
      { pose proof (i_q _ HI) as A. pose proof (i_ht _ HI) as B. destruct (q (sh c)); [reflexivity|cbn [length] in A; lia]. }
      assert (Hjq0 : j_q js = []) by congruence. rewrite Hjq0.
      eapply RET with (f := look []) (t' := t); try reflexivity.
      * cbn [tstep]. destruct (Nat.eqb_spec h (tail (sh c))); [reflexivity|contradiction].
      * apply exc_only_look.
      * cbn [j_q q]. auto.
      * exact Hjok.
      * cbn [j_ths]. rewrite (upd_same_id _ _ _ Ht). reflexivity.
      * rewrite (look_nil_pop t r Hcur K1). eapply tsim_return; eauto; try reflexivity.
        apply pop_fail_cond; auto.
      * apply Econt_refl.
    + eapply NEU with (f := look (j_q js)); try reflexivity;
        [cbn [tstep]; destruct (Nat.eqb_spec h (tail (sh c))); [contradiction|reflexivity]|cbn [opsim]; auto|apply exc_only_look].
  - (* PopLoadNext *) split; [|apply item_of_enc]. unfold item_of; cbn [observe push_hist].
    rewrite JN by tauto. eapply NEU with (f := look (j_q js)); try reflexivity; [exact Hop|apply exc_only_look].
  - (* PopCas *) cbn [opsim] in Hop. destruct Hop as (K1 & K2 & K3 & K4). cbn [tassert] in Hta. destruct Hta as [T1 T2].
    destruct (Nat.eqb_spec (head (sh c)) h) as [E|E].
    + symmetry in E. destruct (T2 E) as [Hlt ->]. subst h.
      split; [|apply item_of_enc]. unfold item_of; cbn [observe push_hist]. rewrite Nat.eqb_refl. cbn [zb ptr j_item].
      pose proof (i_q _ HI) as A.
      destruct (q (sh c)) as [|g q'] eqn:Eq; [cbn [length] in A; lia|].
      rewrite (j_event_cas_head js _ t r _ _ g q' Ht Hcur Hjq). cbn [nth List.tl].
      assert (ET : tstep (sh c) (PopCas (head (sh c)) (Some (S (head (sh c))))) OpPop =
        ({| vals := vals (sh c); head := S (head (sh c)); tail := tail (sh c); len := len (sh c); q := q';
            lin := lin (sh c) ++ [LPop g] |}, PopRead (S (head (sh c))) g, None)).
      { cbn [tstep]. rewrite Nat.eqb_refl, Eq. reflexivity. }
      pose proof (busy_inv progs c rts js x _ HS Hp _ _ _ ET) as BI. cbn [push_hist] in BI.
      eapply (sim_frame progs c rts js (Z.to_nat x) _ rt t _ _ _ rt (with_cur t (Some (rec_popped r g))) (look q')); eauto.
      * apply exc_only_look.
      * cbn [j_ok]. rewrite Hjok, K1, K2. reflexivity.
      * apply (tsim_le _ _ _ _ (with_cur t (Some (rec_popped r g)))); [apply exc_only_look|].
        unfold tsim, settled. cbn [pc_idle andb with_cur t_next t_cur t_done].
        split; [exact Hprog|]. split; [rewrite Hy; discriminate|]. eexists. split; [reflexivity|]. split; [exact Hdone|].
        cbn [opsim rec_popped o_kind o_lp o_got]. auto.
      * right. unfold in_flight. rewrite Hcur. reflexivity.
      * eapply Einv_frame; eauto; [apply (s_e _ _ _ _ HS)|apply (Econt_with_cur t r); auto|apply exc_only_look].
    + (* CAS lost *)
      split; [|apply item_of_enc]. unfold item_of; cbn [observe push_hist].
      destruct (Nat.eqb_spec (head (sh c)) h) as [E'|_]; [contradiction|]. cbn [zb].
      rewrite JN by (first [assumption | right; right; right; split; [reflexivity|right; reflexivity]]).
      eapply RET with (f := look (j_q js)) (t' := t); try reflexivity.
      * cbn [tstep]. destruct (Nat.eqb_spec (head (sh c)) h); [contradiction|reflexivity].
      * apply exc_only_look.
      * exact Hjq.
      * exact Hjok.
      * cbn [j_ths]. rewrite (upd_same_id _ _ _ Ht). reflexivity.
      * apply (tsim_le _ _ _ _ t); [apply exc_only_look|]. eapply tsim_return; eauto.
        apply pop_fail_cond; auto.
      * apply Econt_refl.
  - (* PopRead *) split; [|apply item_of_enc]. unfold item_of; cbn [observe push_hist Z.eqb j_item].
    eapply NEU with (f := fun t => t); try reflexivity; [exact Hop|apply exc_only_id|symmetry; apply map_id].
  - (* PopClear *) split; [|apply item_of_enc]. unfold item_of; cbn [observe push_hist Z.eqb j_item].
    eapply NEU with (f := fun t => t); try reflexivity; [exact Hop|apply exc_only_id|symmetry; apply map_id].
  - (* PopDec *) cbn [opsim] in Hop. destruct Hop as (K1 & K2 & K3). cbn [tassert] in Hta. subst val.
    split; [|apply item_of_enc]. unfold item_of; cbn [observe push_hist].
    rewrite JN by tauto.
    eapply RET with (f := look (j_q js)) (t' := t); try reflexivity.
    + apply exc_only_look.
    + exact Hjq.
    + exact Hjok.
    + cbn [j_ths]. rewrite (upd_same_id _ _ _ Ht). reflexivity.
    + apply (tsim_le _ _ _ _ t); [apply exc_only_look|]. eapply tsim_return; eauto.
      cbn [res_success]. rewrite orb_true_r. cbn [orb enc_res].
      unfold cur_complete, chk1. cbn [check_results]. rewrite K1, K2, K3. cbn. rewrite ?Z.eqb_refl, ?andb_false_r. cbn. auto.
    + apply Econt_refl.
  - (* LenLoad *) cbn [opsim] in Hop. destruct Hop as (K1 & K2).
    split; [|apply item_of_enc]. unfold item_of; cbn [observe push_hist j_item].
    rewrite (j_event_len js _ t r _ _ _ Ht Hcur).
    set (r' := rec_len r (len (sh c)) (Z.of_nat (length (j_q js)))).
    assert (Hlk : look (j_q js) (with_cur t (Some r')) = with_cur t (Some r')).
    { eapply look_not_pop; [reflexivity|]. cbn [r' rec_len o_kind]. lia. }
    eapply RET with (f := look (j_q js)) (t' := with_cur t (Some r')); try reflexivity.
    + apply exc_only_look.
    + exact Hjq.
    + cbn [j_ok]. rewrite Hjok, K1. reflexivity.
    + rewrite Hlk. eapply tsim_return; eauto; try reflexivity. rewrite K2. cbn [Z.eqb orb].
      unfold cur_complete, chk1. cbn [check_results r' rec_len o_kind o_lp o_wait o_got o_lenmin enc_res]. rewrite K1, Z.eqb_refl.
      pose proof (i_cnt _ HI) as A. pose proof (i_ht _ HI) as B. pose proof (i_q _ HI) as C.
      pose proof (sumw_nonneg (ths c)) as D. rewrite Hjq, C.
      replace (0 <=? len (sh c)) with true by (symmetry; apply Z.leb_le; lia).
      replace (Z.of_nat (tail (sh c) - head (sh c)) <=? len (sh c)) with true by (symmetry; apply Z.leb_le; lia).
      cbn. rewrite ?Z.eqb_refl. auto.
    + apply (Econt_with_cur t r); auto.
Qed.

(* ---- an idle thread: Gosched between two attempts of PopWait(-1), next attempt, next operation, or nothing ---- *)
Lemma rt_begin_spec rt o more : r_prog rt = o :: more -> op_ok o = true ->
  exists opx rt1, rt_begin rt = Some (opx, rt1) /\ r_prog rt1 = more /\ r_yield rt1 = false /\ r_res rt1 = r_res rt /\
    forall hd others, opsim hd (start_pc opx) rt1 (rec_fresh o others).
Proof.
  intros Hrp Hok. unfold rt_begin. rewrite Hrp. unfold op_ok in Hok. destruct (is_wait o) eqn:Ew.
  - exists OpPop, {| r_prog := more; r_wait := o; r_left := tries_of o; r_yield := false; r_res := r_res rt |}.
    split; [reflexivity|]. cbn [r_prog r_yield r_res]. split; [reflexivity|]. split; [reflexivity|]. split; [reflexivity|].
    intros hd others. cbn [start_pc opsim]. unfold wait_run. cbn [rec_fresh o_kind o_lp o_wait o_left r_wait r_left].
    rewrite Ew, orb_true_r. split; [reflexivity|]. split; [reflexivity|].
    assert (Hn0 : o <> 0) by (unfold is_wait in Ew; intros ->; discriminate).
    split; [destruct (Z.eqb_spec o 0); [contradiction|reflexivity]|].
    intros _. split; [reflexivity|]. unfold tries_of. destruct (Z.leb_spec o (-100)); lia.
  - pose proof Ew as Ew'. unfold is_wait in Ew. apply orb_false_iff in Ew as [E1 E2]. rewrite E1, E2 in Hok. rewrite !orb_false_r in Hok.
    apply Z.leb_le in Hok. unfold dec_op.
    destruct (Z.eqb_spec o 0) as [->|N0]; [|destruct (Z.eqb_spec o (-1)) as [->|N1]].
    + exists OpPop, {| r_prog := more; r_wait := 0; r_left := 0; r_yield := false; r_res := r_res rt |}.
      split; [reflexivity|]. cbn [r_prog r_yield r_res]. split; [reflexivity|]. split; [reflexivity|]. split; [reflexivity|].
      intros hd others. cbn [start_pc opsim]. unfold wait_run. cbn [rec_fresh o_kind o_lp o_wait o_left r_wait r_left Z.eqb orb negb].
      repeat split; auto. intros; lia.
    + exists OpLen, {| r_prog := more; r_wait := 0; r_left := 0; r_yield := false; r_res := r_res rt |}.
      split; [reflexivity|]. cbn [r_prog r_yield r_res]. split; [reflexivity|]. split; [reflexivity|]. split; [reflexivity|].
      intros hd others. cbn [start_pc opsim rec_fresh o_kind r_wait]. split; reflexivity.
    + replace (o <? 0) with false by (symmetry; apply Z.ltb_ge; lia).
      exists (OpPush o), {| r_prog := more; r_wait := 0; r_left := 0; r_yield := false; r_res := r_res rt |}.
      split; [reflexivity|]. cbn [r_prog r_yield r_res]. split; [reflexivity|]. split; [reflexivity|]. split; [reflexivity|].
      intros hd others. cbn [start_pc opsim rec_fresh o_kind o_val o_lp r_wait]. rewrite Ew'.
      replace (o =? 0) with false by (symmetry; apply Z.eqb_neq; lia).
      replace (o <? 0) with false by (symmetry; apply Z.ltb_ge; lia). cbn [orb]. repeat split; reflexivity.
Qed.

Lemma done_ok_finish t rs0 :
  match t_cur t with
  | None => done_ok (t_done t) rs0
  | Some r => cur_complete r /\ exists e rs, rs0 = rev e ++ rs /\ done_ok (t_done t) rs /\ chk1 r e = true
  end -> done_ok (t_done (finish t)) rs0.
Proof.
  unfold finish. destruct (t_cur t) as [r|]; [|auto]. intros (_ & e & rs & -> & H1 & H2). cbn [t_done]. unfold done_ok in *.
  cbn [rev]. rewrite rev_app_distr, rev_involutive. apply check_results_snoc; auto.
Qed.

Lemma Einv_fresh l i t0 r q0 :
  o_excuse r = existsb in_flight (upd l i (finish t0)) ->
  Einv (map (look q0) (if existsb in_flight (upd l i (finish t0)) then map excuse_all (upd l i (t_fresh t0 r)) else upd l i (t_fresh t0 r))).
Proof.
  intros He. destruct (existsb in_flight (upd l i (finish t0))) eqn:Eo.
  - rewrite map_map. apply Einv_all_excused. intros j tj rj Hj Hc. apply nth_error_map_inv in Hj as (tj0 & _ & ->).
    eapply look_excuse_all_excused; eauto.
  - apply Einv_map; [apply exc_only_look|]. apply (Einv_single _ i). intros j tj Hji Hj.
    rewrite nth_error_upd_ne in Hj by exact Hji.
    apply (existsb_false_nth _ _ j _ Eo). rewrite nth_error_upd_ne by exact Hji. exact Hj.
Qed.

Lemma sim_step_idle progs c rts js x rt t :
  Forall (Forall (fun o => op_ok o = true)) progs ->
  SIM progs c rts js -> nth_error (ths c) (Z.to_nat x) = Some Idle -> nth_error rts (Z.to_nat x) = Some rt ->
  nth_error (j_ths js) (Z.to_nat x) = Some t ->
  let '(c', rts', toks) := go1 c rts x in
  exists js', SIM progs c' rts' js' /\
    ((toks = [] /\ js' = js) \/ exists it, toks = enc_item it /\ item_tid it = x /\ js' = j_item progs js it).
Proof.
  intros Hwf HS Hp Hrt Ht.
  pose proof (s_t _ _ _ _ HS _ _ _ _ Hp Hrt Ht) as (Hprog & Hyield & Hrest).
  pose proof (s_inv _ _ _ _ HS) as HI.
  pose proof (s_q _ _ _ _ HS) as Hjq. pose proof (s_ok _ _ _ _ HS) as Hjok.
  unfold settled in Hrest. cbn [pc_idle andb] in Hrest.
  destruct (r_yield rt) eqn:Hy.
  - (* Gosched of PopWait(-1) *)
    rewrite (go1_yield c rts x rt Hp Hrt Hy). destruct (Hyield eq_refl) as [_ Hw].
    replace (r_wait rt =? 0) with false in Hrest by (symmetry; apply Z.eqb_neq; exact Hw).
    destruct Hrest as (r & Hcur & Hdone & Hop).
    eexists. split; [|right; exists (IEv x EvGosched 0 0 0 0); split; [reflexivity|split; [reflexivity|reflexivity]]].
    rewrite (j_item_neutral progs js x t r _ _ _ _ _ Ht Hcur) by tauto.
    rewrite (config_eta c _ _ Hp) at 1.
    eapply (sim_frame progs c rts js (Z.to_nat x) Idle rt t (sh c) Idle (hist c) (rt_unyield rt) t (look (j_q js))); eauto.
    + rewrite <- (config_eta c _ _ Hp). exact HI.
    + apply exc_only_look.
    + cbn [j_ths]. rewrite (upd_same_id _ _ _ Ht). reflexivity.
    + apply (tsim_le _ _ _ _ t); [apply exc_only_look|]. unfold tsim, settled. cbn [pc_idle andb rt_unyield r_prog r_yield r_wait r_res].
      replace (r_wait rt =? 0) with false by (symmetry; apply Z.eqb_neq; exact Hw).
      split; [exact Hprog|]. split; [discriminate|]. exists r. split; [exact Hcur|]. split; [exact Hdone|]. exact Hop.
    + eapply Einv_frame; eauto; [apply (s_e _ _ _ _ HS)|apply Econt_refl|apply exc_only_look].
  - destruct (Z.eqb_spec (r_wait rt) 0) as [Hw|Hw].
    + (* no call pending *)
      destruct (r_prog rt) as [|o more] eqn:Hrp.
      * assert (Hs : idle_start rt = None).
        { unfold idle_start. rewrite Hw. cbn [Z.eqb negb]. unfold rt_begin. rewrite Hrp. reflexivity. }
        rewrite (go1_idle_none c rts x rt Hp Hrt Hy Hs). exists js. split; [exact HS|left; auto].
      * symmetry in Hprog. destruct (skipn_cons_nth _ _ _ _ Hprog) as [Hnth Hmore].
        assert (Hok : op_ok o = true).
        { assert (Hin : In o (nth (Z.to_nat x) progs [])) by (eapply skipn_In; rewrite Hprog; left; reflexivity).
          destruct (nth_in_or_default (Z.to_nat x) progs []) as [Hin'|Hd]; [|rewrite Hd in Hin; destruct Hin].
          rewrite Forall_forall in Hwf. specialize (Hwf _ Hin'). rewrite Forall_forall in Hwf. apply Hwf. exact Hin. }
        destruct (rt_begin_spec rt o more Hrp Hok) as (opx & rt1 & Hbeg & Hrp1 & Hy1 & Hres1 & Hops).
        assert (Hs : idle_start rt = Some (opx, rt1)).
        { unfold idle_start. rewrite Hw. cbn [Z.eqb negb]. exact Hbeg. }
        rewrite (go1_idle_start c rts x rt opx rt1 Hp Hrt Hy Hs).
        eexists. split; [|right; exists (IStart x); split; [reflexivity|split; [reflexivity|reflexivity]]].
        cbn [j_item].
        assert (Hst : starts_ok js (Z.to_nat x) = true).
        { unfold starts_ok. rewrite Ht. destruct (t_cur t) as [r|]; [|reflexivity]. destruct Hrest as ((C1 & _) & _). rewrite C1. reflexivity. }
        assert (Hnc : match t_cur t with Some r => o_wait r && negb (o_lp r) && negb (o_left r =? 0) | None => false end = false).
        { destruct (t_cur t) as [r|]; [|reflexivity]. destruct Hrest as ((_ & C2) & _). exact C2. }
        rewrite Hst, (j_start_fresh progs js _ t o Ht Hnc Hnth). cbv zeta.
        set (others := existsb in_flight (upd (j_ths js) (Z.to_nat x) (finish t))).
        set (f := if others then (fun t => look (j_q js) (excuse_all t)) else look (j_q js)).
        assert (Hf : exc_only f).
        { unfold f. destruct others; [apply exc_only_comp; [apply exc_only_excuse_all|apply exc_only_look]|apply exc_only_look]. }
        assert (Inv {| sh := sh c; ths := upd (ths c) (Z.to_nat x) (start_pc opx); hist := hist c |}) as HI'.
        { pose proof (step_inv c (Z.to_nat x, opx) HI) as H. rewrite (step_at c _ opx Idle Hp) in H. destruct opx; exact H. }
        eapply (sim_frame progs c rts js (Z.to_nat x) Idle rt t (sh c) (start_pc opx) (hist c) rt1
                  (t_fresh t (rec_fresh o others)) f); eauto.
        -- cbn [j_ths]. unfold f. destruct others; [rewrite map_map|]; reflexivity.
        -- apply (tsim_le _ _ _ _ (t_fresh t (rec_fresh o others))); [apply Hf|].
           unfold tsim, settled. replace (pc_idle (start_pc opx)) with false by (destruct opx; reflexivity). cbn [andb t_fresh t_next t_cur t_done].
           split; [congruence|]. split; [rewrite Hy1; discriminate|].
           eexists. split; [reflexivity|]. split; [|apply Hops]. rewrite Hres1. apply done_ok_finish. exact Hrest.
        -- unfold f. fold others. pose proof (Einv_fresh (j_ths js) (Z.to_nat x) t (rec_fresh o others) (j_q js) eq_refl) as HE.
           fold others in HE. destruct others; [rewrite map_map in HE|]; exact HE.
    + (* next attempt of a pending PopWait *)
      replace (r_wait rt =? 0) with false in Hrest by (symmetry; apply Z.eqb_neq; exact Hw).
      destruct Hrest as (r & Hcur & Hdone & Hop). cbn [opsim] in Hop. destruct Hop as (K1 & K2 & K3 & K4).
      assert (Hs : idle_start rt = Some (OpPop, rt)).
      { unfold idle_start. replace (r_wait rt =? 0) with false by (symmetry; apply Z.eqb_neq; exact Hw). reflexivity. }
      rewrite (go1_idle_start c rts x rt OpPop rt Hp Hrt Hy Hs).
      eexists. split; [|right; exists (IStart x); split; [reflexivity|split; [reflexivity|reflexivity]]].
      cbn [j_item start_pc].
      assert (Hst : starts_ok js (Z.to_nat x) = true).
      { unfold starts_ok. rewrite Ht, Hcur, K1. reflexivity. }
      assert (Hc : o_wait r && negb (o_lp r) && negb (o_left r =? 0) = true).
      { rewrite K2, K3. cbn [negb andb]. destruct (Z.eqb_spec (o_left r) 0); [lia|reflexivity]. }
      rewrite Hst, (j_start_again progs js _ t r Ht Hcur Hc).
      assert (Inv {| sh := sh c; ths := upd (ths c) (Z.to_nat x) PopLoadHead; hist := hist c |}) as HI'.
      { pose proof (step_inv c (Z.to_nat x, OpPop) HI) as H. rewrite (step_at c _ OpPop Idle Hp) in H. exact H. }
      eapply (sim_frame progs c rts js (Z.to_nat x) Idle rt t (sh c) PopLoadHead (hist c) rt
                (with_cur t (Some (rec_again r))) (look (j_q js))); eauto.
      * apply exc_only_look.
      * apply (tsim_le _ _ _ _ (with_cur t (Some (rec_again r)))); [apply exc_only_look|].
        unfold tsim, settled. cbn [pc_idle andb with_cur t_next t_cur t_done].
        split; [exact Hprog|]. split; [rewrite Hy; discriminate|].
        exists (rec_again r). split; [reflexivity|]. split; [exact Hdone|]. cbn [opsim]. unfold wait_run.
        cbn [rec_again o_kind o_lp o_wait o_left].
        split; [reflexivity|]. split; [reflexivity|]. split.
        -- destruct (Z.eqb_spec (r_wait rt) 0); [contradiction|reflexivity].
        -- intros _. destruct K4 as [[A B]|[A B]]; rewrite B.
           ++ rewrite A. cbn. split; lia.
           ++ destruct (Z.ltb_spec (r_left rt + 1) 0); split; lia.
      * eapply Einv_frame; eauto; [apply (s_e _ _ _ _ HS)|apply (Econt_with_cur t r); auto|apply exc_only_look].
Qed.

(* ---- one schedule entry ---- *)
Theorem sim_step progs c rts js x :
  Forall (Forall (fun o => op_ok o = true)) progs -> SIM progs c rts js ->
  let '(c', rts', toks) := go1 c rts x in
  exists js', SIM progs c' rts' js' /\
    ((toks = [] /\ js' = js) \/ exists it, toks = enc_item it /\ item_tid it = x /\ js' = j_item progs js it).
Proof.
  intros Hwf HS.
  destruct (nth_error (ths c) (Z.to_nat x)) as [p|] eqn:Hp.
  - pose proof (nth_error_some_lt _ _ _ Hp) as Hlt.
    destruct (nth_error rts (Z.to_nat x)) as [rt|] eqn:Hrt;
      [|apply nth_error_None in Hrt; rewrite (s_len1 _ _ _ _ HS) in Hrt; lia].
    destruct (nth_error (j_ths js) (Z.to_nat x)) as [t|] eqn:Ht;
      [|apply nth_error_None in Ht; rewrite (s_len2 _ _ _ _ HS) in Ht; lia].
    destruct (pc_idle p) eqn:Hidle.
    + assert (p = Idle) by (destruct p; try discriminate; reflexivity). subst p.
      apply (sim_step_idle progs c rts js x rt t Hwf HS Hp Hrt Ht).
    + pose proof (sim_step_busy progs c rts js x p rt t HS Hp Hrt Ht Hidle) as H.
      destruct (go1 c rts x) as [[c' rts'] toks]. destruct H as [H1 H2].
      eexists. split; [exact H1|]. right. eexists. split; [exact H2|]. split; [apply item_of_tid|reflexivity].
  - rewrite (go1_none c rts x Hp). exists js. split; [exact HS|left; auto].
Qed.
