(* C01: without the unbounded loops PushWait(v,-1) / PopWait(-1) and with at most 4 timed retries per call, every
   operation of a case has returned when the schedule (with its round-robin completion tail) is exhausted.
   Measure per thread: steps left in the current attempt + 7 per retry still allowed + 7 * (1 + retries) per
   operation not yet started; every schedule entry of a thread lowers its measure unless it is already 0. *)
From Coq Require Import List ZArith Lia Bool Arith.
Import ListNotations.
From V Require Import Lib.Enc Model.SyncRingConc Proofs.SyncRingConc Run.C01 Proofs.SyncRingJudgeSim Proofs.SyncRingJudgeThread
  Proofs.SyncRingJudgeStep Proofs.SyncRingJudgeEntry.
Local Open Scope Z_scope.
Arguments Z.add : simpl never.
Arguments Z.sub : simpl never.
Arguments Z.mul : simpl never.
Arguments Z.modulo : simpl never.
Arguments Z.div : simpl never.
Arguments Z.pow : simpl never.
Arguments Z.of_nat : simpl never.
Arguments Z.to_nat : simpl never.

Definition rem (p : pc) : Z :=
  match p with
  | Idle => 0
  | PuLoadTail _ => 5 | PuLoadSeq _ _ _ => 4 | PuCas _ _ _ _ => 3 | PuWrite _ _ _ _ => 2 | PuPublish _ _ _ _ => 1
  | PoLoadHead => 6 | PoLoadSeq _ _ => 5 | PoCas _ _ _ => 4 | PoRead _ _ _ _ => 3 | PoClear _ _ _ _ _ => 2 | PoRelease _ _ _ _ _ => 1
  | ObsFirst _ => 2 | ObsSecond _ _ => 1
  end.
Definition cost (x : Z) : Z := 7 * (1 + (if is_wait x then tries_of x else 0)).
Fixpoint sum_cost (l : list Z) : Z := match l with [] => 0 | x :: t => cost x + sum_cost t end.
Definition W (p : pc) (rt : rthread) : Z :=
  rem p + (if r_wait rt =? 0 then 0 else 7 * r_left rt + (if is_idle p then 7 else 0)) + sum_cost (r_prog rt).
Definition WB (rt : rthread) : Prop :=
  r_yield rt = false /\ (r_wait rt <> 0 -> 0 <= r_left rt) /\ Forall (fun x => bounded_op x = true) (r_prog rt).
Definition Wi (c : config) (rts : list rthread) (i : nat) : Z :=
  match nth_error (ths c) i, nth_error rts i with Some p, Some rt => W p rt | _, _ => 0 end.

Lemma bounded_tries x : bounded_op x = true -> is_wait x = true -> 0 <= tries_of x <= 4.
Proof.
  unfold bounded_op, is_wait, tries_of. intros H Hw.
  rewrite !andb_true_iff, !negb_true_iff, andb_false_iff in H. rewrite !orb_true_iff in Hw.
  rewrite ?Z.eqb_eq, ?Z.eqb_neq, ?Z.ltb_lt, ?Z.leb_le, ?Z.leb_gt, ?Z.ltb_ge in *.
  destruct H as ((H1 & H2) & H3).
  destruct (Z.leb_spec x (-100)); [lia|].
  destruct (Z.leb_spec 2000000 x).
  - split; [apply Z.div_pos; lia|lia].
  - lia.
Qed.
Lemma cost_bounds x : bounded_op x = true -> 7 <= cost x <= 35.
Proof.
  intros H. unfold cost. destruct (is_wait x) eqn:E; [|lia]. pose proof (bounded_tries x H E). lia.
Qed.
Lemma sum_cost_bounds l : Forall (fun x => bounded_op x = true) l -> 0 <= sum_cost l <= 35 * Z.of_nat (length l).
Proof.
  induction 1 as [|x l Hx _ IH]; cbn [sum_cost length]; [lia|]. pose proof (cost_bounds x Hx). lia.
Qed.
Lemma rem_nonneg p : 0 <= rem p.
Proof. destruct p; cbn [rem]; lia. Qed.
Lemma W_nonneg p rt : WB rt -> 0 <= W p rt.
Proof.
  intros (_ & B & C). unfold W. pose proof (rem_nonneg p). pose proof (sum_cost_bounds _ C).
  destruct (Z.eqb_spec (r_wait rt) 0); [lia|]. specialize (B n). destruct (is_idle p); lia.
Qed.
Lemma W_zero p rt : WB rt -> W p rt <= 0 -> p = Idle /\ r_wait rt = 0.
Proof.
  intros HB H. destruct HB as (_ & B & C). unfold W in H. pose proof (rem_nonneg p). pose proof (sum_cost_bounds _ C).
  destruct (Z.eqb_spec (r_wait rt) 0) as [E|E].
  - split; auto. destruct p; cbn [rem] in *; try lia. reflexivity.
  - specialize (B E). destruct p; cbn [rem is_idle] in *; lia.
Qed.

Lemma tstep_rem s p o s' p' r : tstep s p o = Some (s', p', r) -> p <> Idle ->
  match r with None => p' <> Idle /\ rem p' < rem p | Some _ => p' = Idle end.
Proof.
  intros H Hp. destruct p; try congruence; cbn [tstep] in H;
    repeat match type of H with
           | context [match ?x with _ => _ end] => destruct x
           | context [if ?b then _ else _] => destruct b
           end; inversion H; subst; cbn [rem]; try reflexivity; (split; [discriminate|lia]).
Qed.
Lemma rem_start o : rem (start_pc o) <= 6.
Proof. destruct o; cbn [start_pc rem]; lia. Qed.

Lemma step_shape c i o c1 p : step c (i, o) = Some c1 -> nth_error (ths c) i = Some p ->
  exists s' p' r, tstep (sh c) p o = Some (s', p', r) /\
    c1 = {| sh := s'; ths := upd (ths c) i p'; hist := match r with Some x => hist c ++ [(i, x)] | None => hist c end |}.
Proof.
  intros Hs Hi. unfold step in Hs. rewrite Hi in Hs. destruct (tstep (sh c) p o) as [[[s' p'] r]|]; [|discriminate].
  inversion Hs. eauto.
Qed.

Lemma WB_after rt x : WB rt -> WB (rt_after rt x).
Proof.
  intros (A & B & C). unfold rt_after.
  destruct ((r_wait rt =? 0) || res_success x || (r_left rt =? 0)) eqn:E.
  - repeat split; cbn [r_yield r_wait r_left r_prog]; auto. intros X; congruence.
  - apply orb_false_iff in E. destruct E as [E E3]. apply orb_false_iff in E. destruct E as [E1 _].
    apply Z.eqb_neq in E1, E3. specialize (B E1).
    destruct (Z.ltb_spec (r_left rt) 0); [lia|]. repeat split; cbn [r_yield r_wait r_left r_prog]; auto. intros _. lia.
Qed.
Lemma W_after p rt x : WB rt -> p <> Idle -> W Idle (rt_after rt x) <= W p rt - 1.
Proof.
  intros (A & B & C) Hp. unfold rt_after, W. pose proof (sum_cost_bounds _ C).
  assert (1 <= rem p) by (destruct p; cbn [rem]; try lia; congruence).
  destruct ((r_wait rt =? 0) || res_success x || (r_left rt =? 0)) eqn:E; cbn [r_wait r_left r_prog rem is_idle].
  - cbn. destruct (Z.eqb_spec (r_wait rt) 0) as [|E1]; [lia|]. specialize (B E1). destruct (is_idle p); lia.
  - apply orb_false_iff in E. destruct E as [E E3]. apply orb_false_iff in E. destruct E as [E1 _].
    rewrite E1. apply Z.eqb_neq in E1, E3. specialize (B E1).
    destruct (Z.ltb_spec (r_left rt) 0); [lia|]. cbn [r_wait r_left r_prog]. apply Z.eqb_neq in E1. rewrite E1.
    destruct (is_idle p); lia.
Qed.

Lemma WB_begin rt x more : WB rt -> r_prog rt = x :: more -> WB (rt_begin rt x more).
Proof.
  intros (A & B & C) Hp. rewrite Hp in C. inversion C as [|? ? Hx Hm]; subst. unfold rt_begin.
  destruct (is_wait x) eqn:E; repeat split; cbn [r_yield r_wait r_left r_prog]; auto; try congruence.
  intros _. apply (bounded_tries x Hx E).
Qed.
Lemma W_begin rt x more : WB rt -> r_wait rt = 0 -> r_prog rt = x :: more ->
  W (start_pc (if is_wait x then attempt_of x else dec_op x)) (rt_begin rt x more) <= W Idle rt - 1.
Proof.
  intros (A & B & C) Hw Hp. unfold W. rewrite Hw, Hp. cbn [rem sum_cost Z.eqb]. unfold rt_begin, cost.
  pose proof (rem_start (if is_wait x then attempt_of x else dec_op x)).
  destruct (is_wait x) eqn:E; cbn [r_wait r_left r_prog].
  - rewrite (is_wait_nonzero x E).
    assert (is_idle (start_pc (attempt_of x)) = false) by (destruct (attempt_of x); reflexivity).
    rewrite H0. lia.
  - cbn. lia.
Qed.
Lemma W_retry rt : r_wait rt <> 0 -> W (start_pc (attempt_of (r_wait rt))) rt <= W Idle rt - 1.
Proof.
  intros Hw. unfold W. apply Z.eqb_neq in Hw. rewrite Hw. cbn [rem is_idle].
  pose proof (rem_start (attempt_of (r_wait rt))).
  assert (is_idle (start_pc (attempt_of (r_wait rt))) = false) by (destruct (attempt_of (r_wait rt)); reflexivity).
  rewrite H0. lia.
Qed.
Lemma W_move p p' rt : p <> Idle -> p' <> Idle -> rem p' < rem p -> W p' rt <= W p rt - 1.
Proof.
  intros Hp Hp' H. unfold W. assert (is_idle p = false) by (destruct p; try reflexivity; congruence).
  assert (is_idle p' = false) by (destruct p'; try reflexivity; congruence). rewrite H0, H1. lia.
Qed.

Lemma Forall_upd_in {A} (P : A -> Prop) l i x : Forall P l -> P x -> Forall P (upd l i x).
Proof. intros H; revert i; induction H as [|a l Ha Hl IH]; intros [|i] Hx; cbn [upd]; constructor; auto. Qed.

(* one schedule entry *)
Lemma entry_measure c rts t rest acc X :
  0 <= t -> length rts = length (ths c) -> Forall WB rts ->
  go c rts (t :: rest) acc = Some X ->
  exists c1 rts1 acc1, go c1 rts1 rest acc1 = Some X /\
    length rts1 = length (ths c1) /\ length (ths c1) = length (ths c) /\ Forall WB rts1 /\
    (forall j, j <> Z.to_nat t -> Wi c1 rts1 j = Wi c rts j) /\
    Wi c1 rts1 (Z.to_nat t) <= Z.max 0 (Wi c rts (Z.to_nat t) - 1).
Proof.
  intros Ht Hlen HB Hgo. rewrite go_cons in Hgo by lia. set (i := Z.to_nat t) in *.
  destruct (nth_error (ths c) i) as [p|] eqn:Hi.
  2:{ exists c, rts, acc. repeat split; auto. unfold Wi. rewrite Hi. lia. }
  destruct (nth_error rts i) as [rt|] eqn:Hrt.
  2:{ exists c, rts, acc. repeat split; auto. unfold Wi. rewrite Hi, Hrt. lia. }
  assert (HBrt : WB rt) by (rewrite Forall_forall in HB; apply HB; eapply nth_error_In; eauto).
  pose proof HBrt as (Hy & Hl & Hpr). rewrite Hy, andb_false_r in Hgo.
  destruct (rt_start p rt) as [[o rt1]|] eqn:Est.
  2:{ exists c, rts, acc. repeat split; auto. unfold Wi. rewrite Hi, Hrt. pose proof (W_nonneg p rt HBrt).
      unfold rt_start in Est. destruct p; cbn [is_idle negb] in Est; try discriminate.
      destruct (r_wait rt =? 0) eqn:Ew; cbn [negb] in Est; [|discriminate]. destruct (r_prog rt) eqn:Ep; [|discriminate].
      unfold W. rewrite Ew, Ep. cbn. lia. }
  destruct (step c (i, o)) as [c1|] eqn:Hs; [|discriminate].
  destruct (step_shape _ _ _ _ _ Hs Hi) as (s' & p' & r & Hts & Hc1).
  exists c1, (updl rts i (rt_next p c1 i rt1)), (rev_append (t :: observe (sh c) p) acc).
  assert (Hths : ths c1 = upd (ths c) i p') by (rewrite Hc1; reflexivity).
  assert (Key : WB (rt_next p c1 i rt1) /\ W p' (rt_next p c1 i rt1) <= W p rt - 1).
  { unfold rt_start in Est. destruct (is_idle p) eqn:Eidle; cbn [negb] in Est.
    - destruct p; try discriminate. rewrite tstep_idle in Hts. inversion Hts; subst s' p' r.
      change (rt_next Idle c1 i rt1) with rt1.
      destruct (r_wait rt =? 0) eqn:Ew; cbn [negb] in Est.
      + destruct (r_prog rt) as [|x more] eqn:Ep; [discriminate|]. inversion Est; subst o rt1. apply Z.eqb_eq in Ew.
        split; [apply WB_begin; auto|apply W_begin; auto].
      + inversion Est; subst o rt1. apply Z.eqb_neq in Ew. split; [exact HBrt|apply W_retry; auto].
    - inversion Est; subst o rt1. assert (Hp : p <> Idle) by (intros ->; discriminate).
      pose proof (tstep_rem _ _ _ _ _ _ Hts Hp) as Hr. destruct r as [x|].
      + subst p'. rewrite Hc1. rewrite (rt_next_ret c i p s' x rt Hp Hi). split; [apply WB_after; auto|apply W_after; auto].
      + destruct Hr as [Hp' Hlt]. rewrite Hc1. rewrite (rt_next_cont c i p s' p' _ rt Hp' Hi). split; [exact HBrt|apply W_move; auto]. }
  destruct Key as [KB KW].
  split; [exact Hgo|]. rewrite Hths. repeat split.
  - rewrite updl_upd, !upd_length. exact Hlen.
  - apply upd_length.
  - rewrite updl_upd. apply Forall_upd_in; auto.
  - intros j Hj. unfold Wi. rewrite Hths, updl_upd, !nth_error_upd_ne by auto. reflexivity.
  - unfold Wi. rewrite Hths, updl_upd, (nth_error_upd_len _ _ _ _ Hi), (nth_error_upd_len _ _ _ _ Hrt), Hi, Hrt. lia.
Qed.

Lemma go_measure : forall sched c rts acc c' rts' acc',
  Forall (fun t => 0 <= t) sched -> length rts = length (ths c) -> Forall WB rts ->
  go c rts sched acc = Some (c', rts', acc') ->
  length rts' = length (ths c') /\ length (ths c') = length (ths c) /\ Forall WB rts' /\
  forall i, Wi c' rts' i <= Z.max 0 (Wi c rts i - Z.of_nat (count_occ Z.eq_dec sched (Z.of_nat i))).
Proof.
  induction sched as [|t rest IH]; intros c rts acc c' rts' acc' Hnn Hlen HB Hgo.
  - cbn [go] in Hgo. inversion Hgo; subst. repeat split; auto. intros i. cbn [count_occ]. lia.
  - inversion Hnn as [|? ? Ht Hrest]; subst.
    destruct (entry_measure c rts t rest acc _ Ht Hlen HB Hgo) as (c1 & rts1 & acc1 & Hgo1 & L1 & L2 & HB1 & Hoth & Hown).
    destruct (IH c1 rts1 acc1 c' rts' acc' Hrest L1 HB1 Hgo1) as (L1' & L2' & HB' & HW).
    repeat split; auto; try congruence. intros i. specialize (HW i). cbn [count_occ].
    destruct (Z.eq_dec t (Z.of_nat i)) as [E|E].
    + subst t. rewrite Nat2Z.id in Hown. lia.
    + rewrite Hoth in HW by lia. exact HW.
Qed.

Lemma count_concat_repeat (l : list Z) x R : count_occ Z.eq_dec (concat (repeat l R)) x = (R * count_occ Z.eq_dec l x)%nat.
Proof. induction R as [|R IH]; cbn [repeat concat]; [reflexivity|]. rewrite count_occ_app, IH. lia. Qed.

Lemma count_completion n progs i : (i < n)%nat ->
  (40 * fold_left (fun a p => a + length p)%nat progs O + 40 <= count_occ Z.eq_dec (completion n progs) (Z.of_nat i))%nat.
Proof.
  intros Hi. unfold completion. rewrite count_concat_repeat.
  assert (0 < count_occ Z.eq_dec (map Z.of_nat (seq 0 n)) (Z.of_nat i))%nat.
  { apply count_occ_In. apply in_map. apply in_seq. lia. }
  nia.
Qed.

Lemma fold_add_ge (progs : list (list Z)) : forall a i, (a + length (nth i progs []) <= fold_left (fun a p => a + length p)%nat progs a)%nat.
Proof.
  assert (Mono : forall (l : list (list Z)) a, (a <= fold_left (fun a p => a + length p)%nat l a)%nat).
  { induction l as [|p l IH]; intros a; cbn [fold_left]; [lia|]. specialize (IH (a + length p)%nat). lia. }
  induction progs as [|p progs IH]; intros a i; cbn [fold_left].
  - destruct i; cbn [nth length]; lia.
  - destruct i as [|i]; cbn [nth].
    + apply Mono.
    + specialize (IH (a + length p)%nat i). lia.
Qed.

Lemma go_finishes n progs c0 sched c' rts' acc' :
  length progs = n -> ths c0 = repeat Idle n -> Forall (Forall (fun x => bounded_op x = true)) progs ->
  Forall (fun t => 0 <= t) (sched ++ completion n progs) ->
  go c0 (start_rts progs) (sched ++ completion n progs) [] = Some (c', rts', acc') -> finished c' rts' = true.
Proof.
  intros Hn Hths Hb Hnn Hgo.
  assert (HB0 : Forall WB (start_rts progs)).
  { unfold start_rts. apply Forall_forall. intros rt Hrt. apply in_map_iff in Hrt. destruct Hrt as (pr & <- & Hpr).
    repeat split; cbn [r_yield r_wait r_left r_prog]; auto; try congruence. rewrite Forall_forall in Hb. auto. }
  assert (Hl0 : length (start_rts progs) = length (ths c0)).
  { unfold start_rts. rewrite map_length, Hths, repeat_length. exact Hn. }
  destruct (go_measure _ _ _ _ _ _ _ Hnn Hl0 HB0 Hgo) as (L1 & L2 & HB' & HW).
  assert (Hn' : length (ths c') = n) by (rewrite L2, Hths; apply repeat_length).
  assert (Hdone : forall i p rt, nth_error (ths c') i = Some p -> nth_error rts' i = Some rt -> p = Idle /\ r_wait rt = 0).
  { intros i p rt Hp Hrt. assert (Hi : (i < n)%nat) by (rewrite <- Hn'; apply nth_error_Some; congruence).
    assert (HBrt : WB rt) by (rewrite Forall_forall in HB'; apply HB'; eapply nth_error_In; eauto).
    apply W_zero; auto. specialize (HW i). unfold Wi at 1 in HW. rewrite Hp, Hrt in HW.
    assert (Wi c0 (start_rts progs) i <= 35 * Z.of_nat (length (nth i progs []))).
    { unfold Wi. rewrite Hths. rewrite (nth_error_repeat Idle Hi). unfold start_rts. rewrite nth_error_map.
      destruct (nth_error progs i) as [pr|] eqn:Epr; cbn [option_map]; [|lia].
      unfold W. cbn [r_wait r_prog rem Z.eqb]. rewrite (nth_error_nth _ _ _ Epr).
      assert (Forall (fun x => bounded_op x = true) pr) by (rewrite Forall_forall in Hb; apply Hb; eapply nth_error_In; eauto).
      pose proof (sum_cost_bounds _ H). lia. }
    rewrite count_occ_app in HW. pose proof (count_completion n progs i Hi). pose proof (fold_add_ge progs O i). lia. }
  unfold finished. apply andb_true_iff. split; apply forallb_forall.
  - intros p Hp. apply In_nth_error in Hp. destruct Hp as [i Hp].
    destruct (nth_error rts' i) as [rt|] eqn:Hrt.
    + destruct (Hdone i p rt Hp Hrt) as [-> _]. reflexivity.
    + apply nth_error_None in Hrt. assert (i < length (ths c'))%nat by (apply nth_error_Some; congruence). lia.
  - intros rt Hrt. apply In_nth_error in Hrt. destruct Hrt as [i Hrt].
    destruct (nth_error (ths c') i) as [p|] eqn:Hp.
    + destruct (Hdone i p rt Hp Hrt) as [_ ->]. reflexivity.
    + apply nth_error_None in Hp. assert (i < length rts')%nat by (apply nth_error_Some; congruence). lia.
Qed.
