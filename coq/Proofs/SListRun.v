(* C13 — listz.SList: one step of the model against the specification, for every method; the refinement for every
   operation sequence inside the specification; the invariant in every reachable state. *)
From Coq Require Import List ZArith Arith Lia Bool Permutation.
From V Require Import Model.DList Model.SList Proofs.DListChains Proofs.DListRel Proofs.DListStep Proofs.SListInv Proofs.SListStep.
Import ListNotations.
Local Open Scope Z_scope.
Arguments Z.of_nat : simpl never.
Arguments Z.to_nat : simpl never.
Arguments Z.add : simpl never.
Arguments Z.sub : simpl never.

Lemma qnode_range s q e : RS s q -> qnode q e = true -> (2 <= e < fr s)%nat.
Proof.
  intros HR H. unfold qnode in H. rewrite <- (rs_fr _ _ HR) in H. apply andb_true_iff in H. destruct H as [H1 H2].
  apply Nat.leb_le in H1. apply Nat.ltb_lt in H2. lia.
Qed.
Lemma s_is_node_qnode s q e : RS s q -> s_is_node s e = qnode q e.
Proof. intros HR. unfold s_is_node, qnode. rewrite (rs_fr _ _ HR). reflexivity. Qed.

Lemma RS_set s q ids s' : RS s q -> Inv s' ids -> sv s' = sv s -> fr s' = fr s -> RS s' (set_sq q ids).
Proof.
  intros HR HI Hv Hf. constructor; cbn [set_sq sq qval qfresh]; auto.
  - intros x. rewrite Hv. apply (rs_val _ _ HR).
  - rewrite Hf. apply (rs_fr _ _ HR).
Qed.

Lemma within_in_range s q i : RS s q -> within s i = in_range q i.
Proof. intros HR. unfold within, in_range. rewrite (i_ln _ _ (rs_inv _ _ HR)). reflexivity. Qed.

Lemma in_range_split q i : in_range q i = true ->
  exists pre e post, sq q = pre ++ e :: post /\ length pre = Z.to_nat i /\ nth_error (sq q) (Z.to_nat i) = Some e /\ i = Z.of_nat (length pre).
Proof.
  unfold in_range. intros H. apply andb_true_iff in H. destruct H as [H1 H2]. apply Z.leb_le in H1. apply Z.ltb_lt in H2.
  destruct (nth_error (sq q) (Z.to_nat i)) as [e|] eqn:E; [|apply nth_error_None in E; lia].
  destruct (nth_error_split _ _ E) as (pre & post & E1 & E2). exists pre, e, post. repeat split; auto. lia.
Qed.

Lemma del_at_split (pre post : list nat) e : del_at (pre ++ e :: post) (length pre) = pre ++ post.
Proof.
  unfold del_at. rewrite firstn_app, Nat.sub_diag, firstn_all. cbn [firstn]. rewrite app_nil_r. f_equal.
  replace (pre ++ e :: post) with ((pre ++ [e]) ++ post) by (rewrite <- app_assoc; reflexivity).
  rewrite skipn_app. rewrite skipn_all2 by (rewrite app_length; cbn [length]; lia).
  replace (S (length pre) - length (pre ++ [e]))%nat with 0%nat by (rewrite app_length; cbn [length]; lia). reflexivity.
Qed.

(* insertion of a node that is not in the list, at a clamped index *)
Lemma inv_insert_at s ids i e : Inv s ids -> ~ In e ids -> (2 <= e < fr s)%nat ->
  exists s', insert_node_at s i e = Some s' /\ Inv s' (ins_at ids i e) /\ sv s' = sv s /\ fr s' = fr s.
Proof.
  intros HI He Hr. unfold ins_at. pose proof (i_ln _ _ HI) as Hl.
  destruct (Z.leb_spec i 0) as [H0|H0].
  - unfold insert_node_at. destruct (Z.leb_spec i 0); [|lia]. eexists. split; [reflexivity|].
    split; [apply inv_push_front; auto|]. unfold push_front_node, set_ln, set_tl, set_hd, set_nx. destruct (ln _ =? 0); split; reflexivity.
  - destruct (Z.leb_spec (Z.of_nat (length ids)) i) as [H1|H1].
    + unfold insert_node_at. destruct (Z.leb_spec i 0); [lia|]. rewrite Hl. destruct (Z.leb_spec (Z.of_nat (length ids)) i); [|lia].
      destruct (inv_push_back s ids e HI He Hr) as (s' & E & HI'). exists s'. split; [exact E|]. split; [exact HI'|].
      unfold push_back_node in E. destruct (ln s =? 0); [|destruct (tl s)]; inversion E; split; reflexivity.
    + (* 0 < i < len *)
      destruct (nth_error ids (Z.to_nat (i - 1))) as [b|] eqn:Eb; [|apply nth_error_None in Eb; lia].
      destruct (nth_error_split _ _ Eb) as (pre & post & E1 & E2).
      assert (Hpost : post <> []).
      { intros ->. rewrite E1, app_length in H1. cbn [length] in H1. lia. }
      assert (Hi : i = Z.of_nat (S (length pre))) by lia.
      rewrite E1 in HI, He. destruct (inv_insert_mid s pre b post e HI Hpost He Hr) as (s' & E & HI').
      rewrite <- Hi in E. exists s'. split; [exact E|]. split.
      * rewrite E1. replace (Z.to_nat i) with (S (length pre)) by lia.
        replace (pre ++ b :: post) with ((pre ++ [b]) ++ post) by (rewrite <- app_assoc; reflexivity).
        rewrite firstn_app, skipn_app.
        replace (S (length pre) - length (pre ++ [b]))%nat with 0%nat by (rewrite app_length; cbn [length]; lia).
        rewrite firstn_all2, skipn_all2 by (rewrite app_length; cbn [length]; lia). cbn [firstn skipn app].
        rewrite app_nil_r, <- app_assoc. exact HI'.
      * unfold insert_node_at in E. destruct (i <=? 0); [inversion E; unfold push_front_node, set_ln, set_tl, set_hd, set_nx; destruct (ln _ =? 0); split; reflexivity|].
        destruct (ln s <=? i).
        -- unfold push_back_node in E. destruct (ln s =? 0); [|destruct (tl s)]; inversion E; split; reflexivity.
        -- destruct (walkn _ _ _ _) as [[? [?|]]|]; inversion E. split; reflexivity.
Qed.

Theorem sl_step_refines s q o q' r : RS s q -> qstep q o = Some (q', r) -> exists s', sl_step s o = SOk s' r /\ RS s' q'.
Proof.
  intros HR Hs. pose proof (rs_inv _ _ HR) as HI. destruct o; cbn [qstep] in Hs; cbn [sl_step].
  - (* Len *) inversion Hs; subst. exists s. rewrite (i_ln _ _ HI). auto.
  - (* Front *) inversion Hs; subst. exists s. rewrite (hd_spec _ _ HI). auto.
  - (* Back *) inversion Hs; subst. exists s. rewrite (i_tl _ _ HI). auto.
  - (* Get *) inversion Hs; subst. rewrite (get_spec s _ i HI). exists s. auto.
  - (* Remove *)
    destruct (in_range q i) eqn:Er.
    + destruct (in_range_split q i Er) as (pre & e & post & E1 & E2 & E3 & E4). inversion Hs; subst q' r.
      rewrite E1 in HI. destruct (inv_remove s pre e post HI) as (s' & E & HI' & Hv & Hf). rewrite <- E4 in E. rewrite E.
      exists s'. rewrite E3. split; [reflexivity|]. rewrite E1, <- E2, del_at_split. eapply RS_set; eauto.
    + inversion Hs; subst. unfold remove_at. rewrite (within_in_range s q' i HR), Er. cbn [negb]. exists s. auto.
  - (* RemoveFront *)
    destruct (sq q) as [|x t] eqn:Eq.
    + inversion Hs; subst. unfold remove_front. rewrite (i_ln _ _ HI), ?Eq. cbn [length]. change (Z.of_nat 0 =? 0) with true. exists s. auto.
    + inversion Hs; subst q' r. rewrite ?Eq in HI. destruct (inv_remove_front s x t HI) as (s' & E & HI' & Hv & Hf). rewrite E.
      exists s'. split; [reflexivity|]. eapply RS_set; eauto.
  - (* PushFront *)
    unfold qalloc in Hs. inversion Hs; subst q' r. destruct (RS_alloc s q v HR) as (Ea & _ & HR0 & Hno & Hf2).
    destruct (salloc1 s v) as [s1 e] eqn:Es. cbn [fst snd] in *. subst e. pose proof (rs_fr _ _ HR) as Hfq.
    exists (push_front_node s1 (fr s)). split; [reflexivity|].
    assert (Hfr1 : fr s1 = S (fr s)) by (unfold salloc1 in Es; inversion Es; reflexivity).
    assert (HI1 : Inv (push_front_node s1 (fr s)) (fr s :: sq q)).
    { apply inv_push_front; [apply (rs_inv _ _ HR0)|exact Hno|lia]. }
    change ({| sq := qfresh q :: sq q; qval := fupd (qval q) (qfresh q) v; qfresh := S (qfresh q) |})
      with (set_sq (fst (qalloc q v)) (qfresh q :: sq q)). rewrite Hfq in *.
    eapply RS_set; [exact HR0|exact HI1| |]; unfold push_front_node, set_ln, set_tl, set_hd, set_nx; destruct (ln _ =? 0); reflexivity.
  - (* PushBack *)
    unfold qalloc in Hs. inversion Hs; subst q' r. destruct (RS_alloc s q v HR) as (Ea & _ & HR0 & Hno & Hf2).
    destruct (salloc1 s v) as [s1 e] eqn:Es. cbn [fst snd] in *. subst e. pose proof (rs_fr _ _ HR) as Hfq.
    assert (Hfr1 : fr s1 = S (fr s)) by (unfold salloc1 in Es; inversion Es; reflexivity).
    destruct (inv_push_back s1 (sq q) (fr s) (rs_inv _ _ HR0) Hno ltac:(lia)) as (s' & E & HI').
    rewrite E. exists s'. split; [reflexivity|].
    change ({| sq := sq q ++ [qfresh q]; qval := fupd (qval q) (qfresh q) v; qfresh := S (qfresh q) |})
      with (set_sq (fst (qalloc q v)) (sq q ++ [qfresh q])). rewrite Hfq in *.
    unfold push_back_node in E. eapply RS_set; [exact HR0|exact HI'| |]; destruct (ln s1 =? 0); [|destruct (tl s1)| |destruct (tl s1)]; inversion E; reflexivity.
  - (* InsertAt *)
    unfold qalloc in Hs. inversion Hs; subst q' r. destruct (RS_alloc s q v HR) as (Ea & _ & HR0 & Hno & Hf2).
    destruct (salloc1 s v) as [s1 e] eqn:Es. cbn [fst snd] in *. subst e. pose proof (rs_fr _ _ HR) as Hfq.
    assert (Hfr1 : fr s1 = S (fr s)) by (unfold salloc1 in Es; inversion Es; reflexivity).
    destruct (inv_insert_at s1 (sq q) i (fr s) (rs_inv _ _ HR0) Hno ltac:(lia)) as (s' & E & HI' & Hv & Hf).
    rewrite E. exists s'. split; [reflexivity|].
    change ({| sq := ins_at (sq q) i (qfresh q); qval := fupd (qval q) (qfresh q) v; qfresh := S (qfresh q) |})
      with (set_sq (fst (qalloc q v)) (ins_at (sq q) i (qfresh q))). rewrite Hfq in *.
    eapply RS_set; eauto.
  - (* PushFrontNode *)
    destruct (qnode q e) eqn:Ge; cbn [andb] in Hs; [|discriminate]. destruct (mem e (sq q)) eqn:Em; [discriminate|]. cbn [negb] in Hs.
    inversion Hs; subst q' r. rewrite (s_is_node_qnode s q e HR), Ge. apply mem_false in Em.
    exists (push_front_node s e). split; [reflexivity|].
    eapply RS_set; [exact HR|apply inv_push_front; auto; eapply qnode_range; eauto| |];
      unfold push_front_node, set_ln, set_tl, set_hd, set_nx; destruct (ln _ =? 0); reflexivity.
  - (* PushBackNode *)
    destruct (qnode q e) eqn:Ge; cbn [andb] in Hs; [|discriminate]. destruct (mem e (sq q)) eqn:Em; [discriminate|]. cbn [negb] in Hs.
    inversion Hs; subst q' r. rewrite (s_is_node_qnode s q e HR), Ge. apply mem_false in Em.
    destruct (inv_push_back s (sq q) e HI Em (qnode_range s q e HR Ge)) as (s' & E & HI'). rewrite E.
    exists s'. split; [reflexivity|].
    unfold push_back_node in E. eapply RS_set; [exact HR|exact HI'| |]; destruct (ln s =? 0); [|destruct (tl s)| |destruct (tl s)]; inversion E; reflexivity.
  - (* InsertNodeAt *)
    destruct (qnode q e) eqn:Ge; cbn [andb] in Hs; [|discriminate]. destruct (mem e (sq q)) eqn:Em; [discriminate|]. cbn [negb] in Hs.
    inversion Hs; subst q' r. rewrite (s_is_node_qnode s q e HR), Ge. apply mem_false in Em.
    destruct (inv_insert_at s (sq q) i e HI Em (qnode_range s q e HR Ge)) as (s' & E & HI' & Hv & Hf). rewrite E.
    exists s'. split; [reflexivity|]. eapply RS_set; eauto.
  - (* Swap *)
    unfold swap. rewrite !(within_in_range s q _ HR).
    destruct (in_range q i && in_range q j && negb (i =? j)) eqn:Ec.
    + apply andb_true_iff in Ec. destruct Ec as [Ec Hne]. apply andb_true_iff in Ec. destruct Ec as [Ri Rj].
      apply negb_true_iff, Z.eqb_neq in Hne.
      destruct (in_range_split q i Ri) as (_ & a & _ & _ & _ & Ea & _). destruct (in_range_split q j Rj) as (_ & b & _ & _ & _ & Eb & _).
      rewrite Ea, Eb in Hs. inversion Hs; subst q' r.
      unfold in_range in Ri, Rj. apply andb_true_iff in Ri, Rj. destruct Ri as [Ri1 Ri2], Rj as [Rj1 Rj2].
      apply Z.leb_le in Ri1, Rj1. apply Z.ltb_lt in Ri2, Rj2.
      pose proof (ids_bound _ _ HI) as Hb.
      assert (Hfind : swap_find (S (S (fr s))) (nx s) 0 i j (hd s) None None = Some (Some (a, b))).
      { replace i with (Z.of_nat (Z.to_nat i)) at 1 by lia. replace j with (Z.of_nat (Z.to_nat j)) at 1 by lia.
        change 0 with (Z.of_nat 0).
        apply (swap_find_spec (nx s) (sq q) (Z.to_nat i) (Z.to_nat j) a b Ea Eb ltac:(lia) (S (Nat.max (Z.to_nat i) (Z.to_nat j))) 0%nat [] (sq q));
          auto; try reflexivity.
        - apply (i_seg _ _ HI).
        - assert (Nat.max (Z.to_nat i) (Z.to_nat j) < length (sq q))%nat by (apply Nat.max_lub_lt; lia). lia. }
      rewrite Hfind. eexists. split; [reflexivity|].
      constructor; cbn [sq qval qfresh].
      * apply inv_set_sv, inv_set_sv. exact HI.
      * intros x. unfold set_sv, fupd. cbn [sv]. rewrite !(rs_val _ _ HR).
        destruct (Nat.eqb x b); [reflexivity|]. destruct (Nat.eqb x a); reflexivity.
      * apply (rs_fr _ _ HR).
    + inversion Hs; subst. exists s. auto.
  - (* Next *)
    destruct (qnode q e) eqn:Ge; [|discriminate]. inversion Hs; subst. rewrite (s_is_node_qnode s q' e HR), Ge.
    exists s. rewrite (nx_spec s _ e HI). auto.
  - (* Value *)
    destruct (qnode q e) eqn:Ge; [|discriminate]. inversion Hs; subst. rewrite (s_is_node_qnode s q' e HR), Ge.
    exists s. rewrite (rs_val _ _ HR). auto.
  - (* Fwd *)
    inversion Hs; subst. rewrite (hd_spec _ _ HI).
    rewrite (swalk_spec s _ HI (sq q') [] (S (fr s)) [] eq_refl); [|pose proof (ids_bound _ _ HI); lia].
    exists s. split; [|exact HR]. cbn [rev app]. do 2 f_equal. apply flat_map_ext. intros x. rewrite (rs_val _ _ HR). reflexivity.
  - (* All *)
    inversion Hs; subst. rewrite (hd_spec _ _ HI).
    rewrite (swalk_all_spec s _ HI (sq q') [] (S (fr s)) k [] eq_refl); [|pose proof (ids_bound _ _ HI); lia].
    exists s. split; [|exact HR]. cbn [rev app]. do 3 f_equal. apply map_ext. intros x. apply (rs_val _ _ HR).
  - (* NewNode *)
    unfold qalloc in Hs. inversion Hs; subst q' r. destruct (RS_alloc s q v HR) as (Ea & _ & HR0 & _).
    destruct (salloc1 s v) as [s1 e]. cbn [fst snd] in *. subst e. rewrite (rs_fr _ _ HR). exists s1. split; [reflexivity|exact HR0].
Qed.

Lemma RS0 : RS sl0 sspec0.
Proof.
  constructor; cbn [sl0 sspec0 sq qval qfresh sv fr]; auto. constructor; cbn [sl0 nx hd tl ln fr seg length]; auto.
  - constructor.
  - intros x [].
Qed.

Lemma sl_run_refines : forall ops s q acc outs, RS s q -> qrun_acc q ops acc = Some outs -> sl_run_acc s ops acc = ROut outs.
Proof.
  induction ops as [|o ops IH]; intros s q acc outs HR Hs; cbn [qrun_acc sl_run_acc] in *.
  - inversion Hs. reflexivity.
  - destruct (qstep q o) as [[q' r]|] eqn:Es; [|discriminate].
    destruct (sl_step_refines s q o q' r HR Es) as (s' & E & HR'). rewrite E. eapply IH; eauto.
Qed.

(* every operation sequence inside the specification (known handles; node insertion only of nodes that are not in
   the list), all indices incl. out-of-range: no panic, no fuel exhaustion, exactly the specification's results *)
Theorem slist_refines_seq : forall ops outs, sspec_case ops = Some outs -> slist_case ops = ROut outs.
Proof. intros ops outs H. unfold slist_case. eapply sl_run_refines; [apply RS0|exact H]. Qed.

Lemma sl_exec_refines : forall ops s q q', RS s q -> q_exec q ops = Some q' -> exists s', sl_exec s ops = Some s' /\ RS s' q'.
Proof.
  induction ops as [|o ops IH]; intros s q q' HR Hs; cbn [q_exec sl_exec] in *.
  - inversion Hs; subst. eauto.
  - destruct (qstep q o) as [[q1 r]|] eqn:Es; [|discriminate].
    destruct (sl_step_refines s q o q1 r HR Es) as (s1 & E & HR1). rewrite E. eapply IH; eauto.
Qed.

(* the invariant (chain from head through exactly the ids to nil, tail = last node, len = chain length, detached
   nodes have next = nil) in every reachable state *)
Theorem slist_inv : forall ops q', q_exec sspec0 ops = Some q' -> exists s', sl_exec sl0 ops = Some s' /\ RS s' q'.
Proof. intros ops q' H. eapply sl_exec_refines; [apply RS0|exact H]. Qed.
