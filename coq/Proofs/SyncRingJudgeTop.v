(* C01: the history judge accepts every run of the step model (refinement theorem).
   judge (case ++ run_case case) = [1] for every well-formed case whose operations all return within the schedule. *)
From Coq Require Import List ZArith Lia Bool Arith.
Import ListNotations.
From V Require Import Lib.Enc Model.SyncRingConc Model.SyncRingJudge Proofs.SyncRingConc Proofs.SyncRingConcTop Proofs.SyncRingSeqState
  Proofs.SyncRingShort Run.C01 Proofs.SyncRingJudgeSim Proofs.SyncRingJudgeThread Proofs.SyncRingJudgeStep Proofs.SyncRingJudgeEntry
  Proofs.SyncRingJudgeRun Proofs.SyncRingJudgeEnc.
Local Open Scope Z_scope.
Arguments Z.add : simpl never.
Arguments Z.sub : simpl never.
Arguments Z.mul : simpl never.
Arguments Z.modulo : simpl never.
Arguments Z.div : simpl never.
Arguments Z.pow : simpl never.
Arguments Z.of_nat : simpl never.
Arguments Z.to_nat : simpl never.

Lemma get_lists_length n : forall l, length (fst (get_lists n l)) = n.
Proof.
  induction n as [|n IH]; intros l; cbn [get_lists]; [reflexivity|].
  destruct (get_list l) as [a r]. specialize (IH r). destruct (get_lists n r) as [b r']. cbn [fst length] in *. lia.
Qed.

Definition t_init : tstate := {| t_next := 0; t_cur := None; t_done := [] |}.

Lemma SIM_init k base fill n progs : length progs = n ->
  SIM k progs (sh (seq_state k base fill n)) (ths (seq_state k base fill n)) (start_rts progs)
      {| j_q := map fill_val (map Z.of_nat (seq 0 (Z.to_nat fill))); j_ths := repeat t_init n; j_ok := true |}.
Proof.
  intros Hn. constructor; cbn [j_q j_ths j_ok seq_state sh ths q]; auto.
  - unfold start_rts. rewrite map_length, repeat_length. exact Hn.
  - rewrite !repeat_length. reflexivity.
  - intros i p rt t Hp Hrt Ht.
    apply nth_error_In, repeat_spec in Hp. apply nth_error_In, repeat_spec in Ht. subst p t.
    unfold start_rts in Hrt. rewrite nth_error_map in Hrt. destruct (nth_error progs i) as [pr|] eqn:Epr; [|discriminate].
    inversion Hrt; subst rt. split.
    + exists [], []. cbn [r_res r_prog r_wait t_init t_next t_cur t_done rev flat_map skipn]. repeat split; auto.
      symmetry. apply nth_error_nth. exact Epr.
    + intros r Hr. discriminate Hr.
  - right. exists 0%nat. intros j t _ Hj. apply nth_error_In, repeat_spec in Hj. subst t. reflexivity.
Qed.

Lemma rev'_rev {A} (l : list A) : rev' (rev l) = l.
Proof. unfold rev'. rewrite <- rev_alt. apply rev_involutive. Qed.

Lemma progs_wf_of progs : forallb (forallb wf_op) progs = true -> progs_wf progs.
Proof.
  intros H i x Hx. rewrite forallb_forall in H.
  destruct (nth_in_or_default i progs []) as [Hin|Hd]; [|rewrite Hd in Hx; contradiction].
  specialize (H _ Hin). rewrite forallb_forall in H. apply H. exact Hx.
Qed.

Lemma finished_spec c rts : finished c rts = true ->
  Forall (fun p => p = Idle) (ths c) /\ (forall i rt, nth_error rts i = Some rt -> r_wait rt = 0).
Proof.
  unfold finished. intros H. apply andb_true_iff in H. destruct H as [A B]. rewrite forallb_forall in A, B. split.
  - apply Forall_forall. intros p Hp. specialize (A p Hp). destruct p; try discriminate. reflexivity.
  - intros i rt Hi. apply Z.eqb_eq. apply B. eapply nth_error_In; eauto.
Qed.

Definition j_init (fill : Z) (n : nat) : jstate :=
  {| j_q := map fill_val (map Z.of_nat (seq 0 (Z.to_nat fill))); j_ths := repeat t_init n; j_ok := true |}.

(* a syntactically well-formed case runs without panic, and the judge follows it *)
Lemma wf_go k bh bl fill nt r progs r1 sched r2 :
  get_lists (Z.to_nat nt) r = (progs, r1) -> get_list r1 = (sched, r2) ->
  wf_syntax (k :: bh :: bl :: fill :: nt :: r) = true ->
  length progs = Z.to_nat nt /\ Forall (fun t => 0 <= t) (sched ++ completion (Z.to_nat nt) progs) /\
  exists c' rts' evs,
    go (seq_state k (bh * 2 ^ 32 + bl) fill (Z.to_nat nt)) (start_rts progs) (sched ++ completion (Z.to_nat nt) progs) [] =
      Some (c', rts', rev (flat_map enc_jev evs)) /\
    Inv k c' /\ SIM k progs (sh c') (ths c') rts' (fold_left (jstep (2 ^ k) progs) evs (j_init fill (Z.to_nat nt))).
Proof.
  intros Egl Egs Hwf. unfold wf_syntax in Hwf. rewrite Egl, Egs in Hwf.
  pose proof (get_lists_length (Z.to_nat nt) r) as Hlen. rewrite Egl in Hlen. cbn [fst] in Hlen.
  repeat (apply andb_true_iff in Hwf; destruct Hwf as [Hwf ?]).
  repeat match goal with H : (_ <=? _) = true |- _ => apply Z.leb_le in H end.
  set (n := Z.to_nat nt) in *. set (base := bh * 2 ^ 32 + bl) in *.
  set (c0 := seq_state k base fill n) in *.
  assert (Hk : 1 <= k <= 31) by lia.
  assert (HI0 : Inv k c0) by (apply seq_state_inv; auto; lia).
  assert (HB0 : bounded (tl (sh c0)) (hd (sh c0)) c0 0).
  { repeat split; try lia. unfold c0. cbn [seq_state ths]. apply Forall_forall. intros p Hp. apply repeat_spec in Hp. subst p. exact I. }
  assert (Hnn : Forall (fun t => 0 <= t) (sched ++ completion n progs)).
  { apply Forall_app. split.
    - apply Forall_forall. intros t Ht. match goal with H : forallb (fun t => 0 <=? t) sched = true |- _ => rewrite forallb_forall in H; specialize (H t Ht) end. lia.
    - unfold completion. apply Forall_concat. apply Forall_forall. intros l Hl. apply repeat_spec in Hl. subst l.
      apply Forall_forall. intros t Ht. apply in_map_iff in Ht. destruct Ht as (j & <- & _). lia. }
  split; [exact Hlen|]. split; [exact Hnn|].
  destruct (go_ok k progs (tl (sh c0)) (hd (sh c0)) (sched ++ completion n progs) c0 (start_rts progs) _ 0 []
              HI0 (SIM_init k base fill n progs Hlen) (progs_wf_of progs ltac:(assumption)) Hnn HB0 ltac:(lia) ltac:(unfold M32; lia))
    as (c' & rts' & evs & Hgo & HI' & HS').
  rewrite app_nil_r in Hgo. exists c', rts', evs. auto.
Qed.

Theorem judge_accepts_finished : forall args,
  wf_syntax args = true -> finishes args = true -> judge (put_list args ++ put_list (run_case args)) = [1].
Proof.
  intros args Hwf Hfin.
  destruct args as [|k [|bh [|bl [|fill [|nt r]]]]]; try discriminate Hwf.
  unfold judge. rewrite get_list_put_app, get_list_put.
  unfold finishes in Hfin. cbn [run_case].
  destruct (get_lists (Z.to_nat nt) r) as [progs r1] eqn:Egl.
  destruct (get_list r1) as [sched r2] eqn:Egs.
  destruct (wf_go _ _ _ _ _ _ _ _ _ _ Egl Egs Hwf) as (Hlen & Hnn & c' & rts' & evs & Hgo & HI' & HS').
  fold (start_rts progs). rewrite Hgo in *.
  destruct (finished_spec c' rts' Hfin) as [Hidle Hw0].
  rewrite !rev'_rev. cbn [app].
  change {| j_q := map fill_val (map Z.of_nat (seq 0 (Z.to_nat fill)));
            j_ths := repeat {| t_next := 0; t_cur := None; t_done := [] |} (Z.to_nat nt); j_ok := true |} with (j_init fill (Z.to_nat nt)).
  set (js' := fold_left (jstep (2 ^ k) progs) evs _) in *.
  rewrite judge_steps_evs.
  2:{ rewrite app_length. pose proof (flat_map_enc_len evs). lia. }
  fold js'.
  assert (HF2 : Forall2 (fun t rt => check_results (2 ^ k) (rev (t_done (finish t))) (rev' (r_res rt)) = true) (j_ths js') rts').
  { apply Forall2_nth.
    - rewrite (sim_len1 _ _ _ _ _ _ HS'), (sim_len2 _ _ _ _ _ _ HS'). reflexivity.
    - intros i t rt Ht Hrt.
      assert (Hp : nth_error (ths c') i = Some Idle).
      { destruct (nth_error (ths c') i) as [p|] eqn:Ep.
        - rewrite Forall_forall in Hidle. rewrite (Hidle p (nth_error_In _ _ Ep)). reflexivity.
        - apply nth_error_None in Ep. rewrite <- (sim_len1 _ _ _ _ _ _ HS') in Ep.
          assert (i < length rts')%nat by (apply nth_error_Some; congruence). lia. }
      eapply thread_results_ok; [eapply (sim_tr _ _ _ _ _ _ HS'); eauto|]. eapply Hw0; eauto. }
  rewrite (check_threads_ok _ _ _ _ HF2).
  rewrite (sim_ok _ _ _ _ _ _ HS'), (sim_q _ _ _ _ _ _ HS'). cbn [andb].
  pose proof (check_final_ok k c' HI' Hidle) as Hcf. cbn [app] in Hcf. rewrite Hcf. reflexivity.
Qed.
Print Assumptions judge_accepts_finished.
