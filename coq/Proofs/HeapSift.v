(* C04 — lemmas about the pure sift loops of Model/Heap.v (from design-notes/proto/HeapSift_proto.v):
   for any comparator with [lt a b -> ~ lt b a] and transitive [~ lt], sift-down / sift-up / fix restore the heap
   order, the root is minimal, swaps permute. *)
From Coq Require Import List Arith Lia Bool PeanoNat Permutation Wf_nat.
From V Require Import Model.Heap.
Import ListNotations.

Lemma upd_length {X : Type} (l : list X) i x : length (upd l i x) = length l.
Proof. revert i; induction l as [|a l IH]; intros [|i]; cbn [upd length]; auto. Qed.
Lemma nth_upd_eq {X : Type} (d : X) (l : list X) i x : i < length l -> nth i (upd l i x) d = x.
Proof. revert i; induction l as [|a l IH]; intros [|i] H; cbn [upd nth length] in *; try lia; auto; apply IH; lia. Qed.
Lemma nth_upd_ne {X : Type} (d : X) (l : list X) i j x : i <> j -> nth j (upd l i x) d = nth j l d.
Proof. revert i j; induction l as [|a l IH]; intros [|i] [|j] H; cbn [upd nth]; auto; try lia; apply IH; lia. Qed.

Section Heap.
Variable A : Type.
Variable d : A.
Variable lt : A -> A -> bool.
Local Notation le := (Heap.le A lt).
Local Notation swap := (Heap.swap A d).
Local Notation down_go := (Heap.down_go A d lt).
Local Notation down := (Heap.down A d lt).
Local Notation up_go := (Heap.up_go A d lt).
Local Notation up := (Heap.up A d lt).
Local Notation fix_ := (Heap.fix_ A d lt).
Local Notation ok := (Heap.ok A d lt).
Local Notation heap_ok := (Heap.heap_ok A d lt).
Hypothesis le_trans : forall a b c, le a b -> le b c -> le a c.
Hypothesis lt_asym : forall a b, lt a b = true -> lt b a = false.

Lemma swap_length s i j : length (swap s i j) = length s.
Proof. unfold Heap.swap. rewrite !upd_length. reflexivity. Qed.
Lemma nth_swap s i j k : i < length s -> j < length s ->
  nth k (swap s i j) d = if Nat.eqb k j then nth i s d else if Nat.eqb k i then nth j s d else nth k s d.
Proof.
  intros Hi Hj. unfold Heap.swap. destruct (Nat.eqb_spec k j) as [->|Hkj].
  - rewrite nth_upd_eq; auto. rewrite upd_length; auto.
  - rewrite nth_upd_ne by auto. destruct (Nat.eqb_spec k i) as [->|Hki].
    + rewrite nth_upd_eq; auto.
    + rewrite nth_upd_ne; auto.
Qed.

Lemma le_of_not_lt a b : lt a b = false -> le b a.
Proof. auto. Qed.
Lemma le_of_lt a b : lt a b = true -> le a b.
Proof. intros H. apply lt_asym. exact H. Qed.

(* the chosen child dominates its sibling *)
Lemma choice_ok s i n :
  2 * i + 1 < n ->
  let j1 := 2 * i + 1 in
  let j := if (j1 + 1 <? n) && lt (nth (j1 + 1) s d) (nth j1 s d) then j1 + 1 else j1 in
  is_child i j /\ j < n /\ (forall k, k < n -> is_child i k -> ok s j k).
Proof.
  intros Hn j1 j. unfold j, Heap.ok, Heap.le.
  destruct (Nat.ltb_spec (j1 + 1) n) as [H2|H2]; cbn [andb].
  - destruct (lt (nth (j1 + 1) s d) (nth j1 s d)) eqn:E.
    + split; [right; unfold j1; lia|]. split; [lia|]. intros k Hk [-> | ->].
      * fold j1. apply lt_asym. exact E.
      * replace (2 * i + 2) with (j1 + 1) by (unfold j1; lia). destruct (lt (nth (j1+1) s d) (nth (j1+1) s d)) eqn:E2; auto. apply lt_asym in E2 as E3. congruence.
    + split; [left; reflexivity|]. split; [unfold j1; lia|]. intros k Hk [-> | ->].
      * fold j1. destruct (lt (nth j1 s d) (nth j1 s d)) eqn:E2; auto. apply lt_asym in E2 as E3. congruence.
      * replace (2 * i + 2) with (j1 + 1) by (unfold j1; lia). exact E.
  - split; [left; reflexivity|]. split; [unfold j1; lia|]. intros k Hk [-> | ->].
    + fold j1. destruct (lt (nth j1 s d) (nth j1 s d)) eqn:E2; auto. apply lt_asym in E2 as E3. congruence.
    + unfold j1 in *. lia.
Qed.

Lemma down_heap n : forall fuel s i, n <= length s -> n <= i + fuel ->
  (forall p c, c < n -> is_child p c -> p <> i -> ok s p c) ->
  (forall g c, is_child g i -> c < n -> is_child i c -> ok s g c) ->
  heap_ok (fst (down_go fuel s i n)) n.
Proof.
  induction fuel as [|f IH]; intros s i Hlen Hf Hpre Hbr.
  - cbn [Heap.down_go fst]. intros p c Hc Hpc. apply Hpre; auto. unfold is_child in Hpc. lia.
  - cbn [Heap.down_go]. destruct (Nat.leb_spec n (2 * i + 1)) as [Hn|Hn].
    + cbn [fst]. intros p c Hc Hpc. apply Hpre; auto. unfold is_child in Hpc. lia.
    + destruct (choice_ok s i n Hn) as (Hij & Hjn & Hjk). cbv zeta in Hij, Hjn, Hjk.
      set (j := if (2 * i + 1 + 1 <? n) && lt (nth (2 * i + 1 + 1) s d) (nth (2 * i + 1) s d) then 2 * i + 1 + 1 else 2 * i + 1) in *.
      assert (Hi_lt : i < length s) by (unfold is_child in Hij; lia).
      assert (Hj_lt : j < length s) by lia.
      destruct (lt (nth j s d) (nth i s d)) eqn:E.
      * apply IH; auto.
        -- rewrite swap_length; auto.
        -- unfold is_child in Hij. lia.
        -- intros p c Hc Hpc Hpj. unfold Heap.ok. rewrite !nth_swap by auto.
           destruct (Nat.eqb_spec p j) as [-> | _]; [congruence|].
           destruct (Nat.eqb_spec p i) as [-> | Hpi].
           ++ destruct (Nat.eqb_spec c j) as [-> | Hcj].
              ** apply le_of_lt. exact E.
              ** destruct (Nat.eqb_spec c i) as [-> | _]; [unfold is_child in Hpc; lia|]. apply Hjk; auto.
           ++ destruct (Nat.eqb_spec c j) as [-> | Hcj].
              ** exfalso. unfold is_child in *. lia.
              ** destruct (Nat.eqb_spec c i) as [-> | _].
                 --- apply (Hbr p j); auto.
                 --- apply Hpre; auto.
        -- intros g c Hgj Hc Hjc. assert (g = i) by (unfold is_child in *; lia). subst g.
           unfold Heap.ok. rewrite !nth_swap by auto. rewrite Nat.eqb_refl.
           destruct (Nat.eqb_spec i j) as [Eij|_]; [unfold is_child in Hij; lia|].
           destruct (Nat.eqb_spec c j) as [-> | _]; [unfold is_child in Hjc; lia|].
           destruct (Nat.eqb_spec c i) as [-> | _]; [unfold is_child in *; lia|].
           apply Hpre; auto. unfold is_child in Hij. lia.
      * cbn [fst]. intros p c Hc Hpc. destruct (Nat.eq_dec p i) as [-> | Hpi]; [|apply Hpre; auto].
        apply (le_trans _ (nth j s d)); [exact E|apply Hjk; auto].
Qed.

(* Pop: after moving the last element to the root, sifting it down restores the heap *)
Theorem down_from_root s n : n <= length s -> (forall p c, c < n -> is_child p c -> p <> 0 -> ok s p c) ->
  heap_ok (fst (down s 0 n)) n.
Proof.
  intros Hlen Hpre. unfold Heap.down. destruct (down_go n s 0 n) as [s' i'] eqn:E. cbn [fst].
  change s' with (fst (s', i')). rewrite <- E. apply down_heap; auto; try lia.
  intros g c Hg. unfold is_child in Hg. lia.
Qed.

Lemma parent_child j : 0 < j -> is_child ((j - 1) / 2) j /\ (j - 1) / 2 < j.
Proof.
  intros Hj. pose proof (Nat.div_mod (j - 1) 2 ltac:(lia)) as E.
  pose proof (Nat.mod_upper_bound (j - 1) 2 ltac:(lia)) as B. unfold is_child. lia.
Qed.

Lemma up_heap n : forall fuel s j, n <= length s -> j < n -> j < fuel ->
  (forall p c, c < n -> is_child p c -> c <> j -> ok s p c) ->
  (forall g c, is_child g j -> c < n -> is_child j c -> ok s g c) ->
  heap_ok (up_go fuel s j) n.
Proof.
  induction fuel as [|f IH]; intros s j Hlen Hjn Hf Hpre Hbr; [lia|].
  cbn [Heap.up_go]. destruct j as [|j'].
  - cbn. intros p c Hc Hpc. apply Hpre; auto. unfold is_child in Hpc. lia.
  - set (j := S j') in *. destruct (parent_child j ltac:(lia)) as [Hij Hlt]. set (i := (j - 1) / 2) in *.
    destruct (Nat.eqb_spec i j) as [E|_]; [lia|]. cbn [orb].
    destruct (lt (nth j s d) (nth i s d)) eqn:E; cbn [negb].
    + apply IH; auto; try lia.
      * rewrite swap_length; auto.
      * intros p c Hc Hpc Hci. unfold Heap.ok. rewrite !nth_swap by lia.
        destruct (Nat.eqb_spec c j) as [-> | Hcj].
        -- assert (p = i) by (unfold is_child in *; lia). subst p. rewrite Nat.eqb_refl.
           destruct (Nat.eqb_spec i j); [lia|]. apply le_of_lt. exact E.
        -- destruct (Nat.eqb_spec c i) as [-> | _]; [congruence|].
           destruct (Nat.eqb_spec p j) as [-> | Hpj].
           ++ apply (Hbr i c); auto.
           ++ destruct (Nat.eqb_spec p i) as [-> | Hpi].
              ** apply (le_trans _ (nth i s d)); [apply le_of_lt; exact E|apply Hpre; auto].
              ** apply Hpre; auto.
      * intros g c Hgi Hc Hic. assert (g <> i /\ g <> j) by (unfold is_child in *; lia).
        unfold Heap.ok. rewrite !nth_swap by lia.
        destruct (Nat.eqb_spec g j); [lia|]. destruct (Nat.eqb_spec g i); [lia|].
        assert (Hgi' : ok s g i) by (apply Hpre; auto; lia).
        destruct (Nat.eqb_spec c j) as [-> | Hcj]; [exact Hgi'|].
        destruct (Nat.eqb_spec c i) as [-> | _]; [unfold is_child in Hic; lia|].
        apply (le_trans _ (nth i s d)); [exact Hgi'|apply Hpre; auto].
    + intros p c Hc Hpc. destruct (Nat.eq_dec c j) as [-> | Hcj]; [|apply Hpre; auto].
      assert (p = i) by (unfold is_child in *; lia). subst p. exact E.
Qed.

(* Push *)
Theorem push_heap s x : heap_ok s (length s) -> heap_ok (up (s ++ [x]) (length s)) (S (length s)).
Proof.
  intros H. unfold Heap.up. apply up_heap; try lia.
  - rewrite app_length. cbn. lia.
  - intros p c Hc Hpc Hne. unfold Heap.ok. assert (c < length s) by lia. assert (p < length s) by (unfold is_child in Hpc; lia).
    rewrite !app_nth1 by lia. apply H; auto.
  - intros g c _ Hc Hjc. unfold is_child in Hjc. lia.
Qed.

Lemma down_go_unfold f s i n : down_go (S f) s i n =
  if n <=? 2 * i + 1 then (s, i) else
  let j := if (2 * i + 1 + 1 <? n) && lt (nth (2 * i + 1 + 1) s d) (nth (2 * i + 1) s d) then 2 * i + 1 + 1 else 2 * i + 1 in
  if lt (nth j s d) (nth i s d) then down_go f (swap s i j) j n else (s, i).
Proof. reflexivity. Qed.

(* Fix / Remove(i): the element at i is arbitrary, everything else was a heap *)
Theorem fix_heap s i n : n <= length s -> i < n ->
  (forall p c, c < n -> is_child p c -> p <> i -> c <> i -> ok s p c) ->
  (forall g c, is_child g i -> c < n -> is_child i c -> ok s g c) ->
  heap_ok (fix_ s i n) n.
Proof.
  intros Hlen Hi Hpre Hbr. unfold Heap.fix_, Heap.down. destruct n as [|n']; [lia|]. rewrite down_go_unfold. cbv zeta. set (n := S n') in *.
  destruct (Nat.leb_spec n (2 * i + 1)) as [Hn|Hn].
  - (* no children: only the pair above i can be wrong *)
    rewrite Nat.ltb_irrefl. unfold Heap.up. apply up_heap; auto.
    intros p c Hc Hpc Hci. destruct (Nat.eq_dec p i) as [-> | Hpi]; [unfold is_child in Hpc; lia|apply Hpre; auto].
  - destruct (choice_ok s i n Hn) as (Hij & Hjn & Hjk). cbv zeta in Hij, Hjn, Hjk.
    set (j := if (2 * i + 1 + 1 <? n) && lt (nth (2 * i + 1 + 1) s d) (nth (2 * i + 1) s d) then 2 * i + 1 + 1 else 2 * i + 1) in *.
    destruct (lt (nth j s d) (nth i s d)) eqn:E.
    + (* it moves down: from then on the ordinary sift-down argument applies at j *)
      destruct (down_go n' (swap s i j) j n) as [s' i'] eqn:Ed.
      assert (Hmoved : i < i').
      { assert (Hge : forall f t a, a <= snd (down_go f t a n)).
        { induction f as [|f IHf]; intros t a; cbn [Heap.down_go snd]; [lia|].
          destruct (n <=? 2 * a + 1); [cbn; lia|].
          match goal with |- context [if lt ?x ?y then _ else _] => destruct (lt x y) end; [|cbn; lia].
          match goal with |- _ <= snd (down_go f _ ?b n) => specialize (IHf (swap t a b) b) end.
          destruct ((2 * a + 1 + 1 <? n) && lt (nth (2 * a + 1 + 1) t d) (nth (2 * a + 1) t d)); lia. }
        specialize (Hge n' (swap s i j) j). rewrite Ed in Hge. cbn [snd] in Hge. unfold is_child in Hij. lia. }
      apply Nat.ltb_lt in Hmoved. rewrite Hmoved.
      change s' with (fst (s', i')). rewrite <- Ed.
      assert (Hi_lt : i < length s) by lia. assert (Hj_lt : j < length s) by lia.
      apply down_heap.
      * rewrite swap_length; auto.
      * unfold is_child in Hij. lia.
      * intros p c Hc Hpc Hpj. unfold Heap.ok. rewrite !nth_swap by auto.
        destruct (Nat.eqb_spec p j) as [-> | _]; [congruence|].
        destruct (Nat.eqb_spec p i) as [-> | Hpi].
        -- destruct (Nat.eqb_spec c j) as [-> | Hcj]; [apply le_of_lt; exact E|].
           destruct (Nat.eqb_spec c i) as [-> | _]; [unfold is_child in Hpc; lia|]. apply Hjk; auto.
        -- destruct (Nat.eqb_spec c j) as [-> | Hcj]; [exfalso; unfold is_child in *; lia|].
           destruct (Nat.eqb_spec c i) as [-> | Hci]; [apply (Hbr p j); auto|apply Hpre; auto].
      * intros g c Hgj Hc Hjc. assert (g = i) by (unfold is_child in *; lia). subst g.
        unfold Heap.ok. rewrite !nth_swap by auto. rewrite Nat.eqb_refl.
        destruct (Nat.eqb_spec i j); [unfold is_child in Hij; lia|].
        destruct (Nat.eqb_spec c j) as [-> | _]; [unfold is_child in Hjc; lia|].
        destruct (Nat.eqb_spec c i) as [-> | _]; [unfold is_child in *; lia|].
        apply Hpre; auto; unfold is_child in *; lia.
    + (* it does not move: i dominates its children; sift up *)
      rewrite Nat.ltb_irrefl. unfold Heap.up. apply up_heap; auto.
      intros p c Hc Hpc Hci. destruct (Nat.eq_dec p i) as [-> | Hpi]; [|apply Hpre; auto].
      apply (le_trans _ (nth j s d)); [exact E|apply Hjk; auto].
Qed.

(* ---- the root of a heap precedes nothing: Peek/Pop return a minimum ---- *)
Lemma le_refl_ a : le a a.
Proof. unfold Heap.le. destruct (lt a a) eqn:E; auto. pose proof (lt_asym a a E). congruence. Qed.

Theorem root_is_min s n : heap_ok s n -> forall j, j < n -> le (nth 0 s d) (nth j s d).
Proof.
  intros Hh. induction j as [j IH] using lt_wf_ind. intros Hj.
  destruct j as [|j']; [apply le_refl_|].
  destruct (parent_child (S j') ltac:(lia)) as [Hc Hlt].
  apply (le_trans _ (nth ((S j' - 1) / 2) s d)).
  - apply IH; lia.
  - apply Hh; auto.
Qed.

(* swaps only permute: nothing is lost or duplicated by up/down/fix *)
Lemma upd_nth_perm_swap s i j : i < length s -> j < length s -> Permutation (swap s i j) s.
Proof.
  intros Hi Hj. apply Permutation_sym. apply Permutation_nth with (d := d). split; [apply swap_length|].
  exists (fun k => if Nat.eqb k j then i else if Nat.eqb k i then j else k).
  repeat split.
  - intros k Hk. destruct (Nat.eqb_spec k j); [lia|]. destruct (Nat.eqb_spec k i); lia.
  - intros a b Ha Hb. destruct (Nat.eqb_spec a j), (Nat.eqb_spec a i), (Nat.eqb_spec b j), (Nat.eqb_spec b i); lia.
  - intros k Hk. rewrite nth_swap by auto. destruct (Nat.eqb_spec k j); [reflexivity|]. destruct (Nat.eqb_spec k i); reflexivity.
Qed.

End Heap.
