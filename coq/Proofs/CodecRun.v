(* C07 — the tie between what the correspondence run executes and the theorems: on every well-formed case
   (any op, any entry point, any destination length, any byte string) the model's answer [entry 0] and the
   specification's answer [entry 1] of Run/C07.v are the same list. *)
From Coq Require Import List ZArith Lia Bool Arith ZifyBool.
From V Require Import Lib.Enc Lib.Utf8 Model.Codec Run.C07 Proofs.CodecBase Proofs.CodecParse Proofs.CodecSpec Proofs.CodecUtf16Spec
  Proofs.CodecUtf8 Proofs.CodecFormat Proofs.CodecRoundTrip.
Import ListNotations.
Local Open Scope Z_scope.
Arguments Z.of_nat : simpl never.

Lemma get_put s : get_list (put_list s) = (s, []).
Proof. unfold put_list, get_list. rewrite Nat2Z.id, firstn_all, skipn_all. reflexivity. Qed.
Lemma all_bytes_bytes s : all_bytes s = true -> bytes s.
Proof.
  unfold all_bytes, bytes. rewrite forallb_forall, Forall_forall. intros H b Hb. specialize (H b Hb). unfold is_byte. lia.
Qed.

Lemma run_format op s : bytes s -> res (m_format op s) = sp_format op s.
Proof.
  intros Hb. unfold m_format, sp_format.
  destruct (op =? 0); [rewrite octal_format_shape by exact Hb; reflexivity|].
  destruct (op =? 1); [rewrite hex_format_shape by exact Hb; reflexivity|].
  destruct (op =? 2); [rewrite unicode_format_shape by exact Hb; reflexivity|].
  rewrite utf16_format_shape by exact Hb. reflexivity.
Qed.
Lemma run_parse k dl s : (length s <= dl)%nat -> res (m_parse k dl s) = sp_parse k s.
Proof.
  intros Hd. unfold m_parse, sp_parse.
  destruct (k =? 0); [rewrite octal_parse_spec by exact Hd; reflexivity|].
  destruct (k =? 1); [rewrite hex_parse_spec by exact Hd; reflexivity|].
  destruct (k =? 2); [rewrite unicode_parse_spec by exact Hd; reflexivity|].
  rewrite utf16_parse_spec by exact Hd. reflexivity.
Qed.
Lemma run_roundtrip k s : 0 <= k -> bytes s -> res (m_roundtrip k s) = sp_roundtrip k s.
Proof.
  intros Hk Hb. unfold m_roundtrip, sp_roundtrip, m_format, m_parse.
  destruct (Z.eqb_spec k 0) as [E0|E0].
  { destruct (octal_roundtrip s Hb) as (e & He & Hp). rewrite He, (Hp _ (le_n _)). destruct (Z.ltb_spec k 2); [reflexivity|lia]. }
  destruct (Z.eqb_spec k 1) as [E1|E1].
  { destruct (hex_roundtrip s Hb) as (e & He & Hp). rewrite He, (Hp _ (le_n _)). destruct (Z.ltb_spec k 2); [reflexivity|lia]. }
  destruct (Z.ltb_spec k 2); [lia|].
  destruct (Z.eqb_spec k 2) as [E2|E2].
  { destruct (unicode_roundtrip_any s Hb) as (e & He & Hp). rewrite He, (Hp _ (le_n _)). cbn [res].
    destruct (valid_utf8 s) eqn:Ev; [apply sanitize_valid; assumption|reflexivity]. }
  destruct (utf16_roundtrip_any s Hb) as (e & He & Hp). rewrite He, (Hp _ (le_n _)). cbn [res].
  destruct (valid_utf8 s) eqn:Ev; [apply sanitize_valid; assumption|reflexivity].
Qed.

Theorem run_model_eq_spec op variant dl s : all_bytes s = true -> 0 <= op <= 11 -> 0 <= dl ->
  entry 0 (op :: variant :: dl :: put_list s) = entry 1 (op :: variant :: dl :: put_list s).
Proof.
  intros Hs Hop Hdl. pose proof (all_bytes_bytes s Hs) as Hb. unfold entry. rewrite get_put. cbn [fst]. rewrite Hs.
  destruct (Z.ltb_spec op 0); [lia|]. destruct (Z.ltb_spec 11 op); [lia|]. destruct (Z.ltb_spec dl 0); [lia|]. cbn [negb orb].
  change (0 =? 0) with true. change (1 =? 0) with false. change (1 =? 1) with true. cbv iota.
  destruct (Z.ltb_spec op 4); [apply run_format; exact Hb|].
  destruct (Z.ltb_spec op 8).
  - cbv zeta. destruct (Nat.leb_spec (length s) (if variant =? 0 then Z.to_nat dl else length s)); [|reflexivity].
    apply run_parse. assumption.
  - cbv zeta. apply run_roundtrip; [lia|exact Hb].
Qed.
