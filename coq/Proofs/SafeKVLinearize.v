(* C12, linearizability of the call-driven machine, part 2: the invariant.

   Linearization point of a call = the step on which it RELEASES the lock.  The ghost list L holds one item per call that has
   released, in release order; an item whose call has not returned yet has no response time.  Invariant: L is a legal
   sequential execution of the specification from m0 whose final map is the committed map of the machine (the map itself
   when no writer is inside, the snapshot of the writer otherwise); the items with a response are exactly the history; the
   items without are exactly the threads that have released and not returned; no item is invoked after a later item's
   response. *)
From Coq Require Import List Arith Lia Bool ZArith Permutation.
From V Require Import Lib.Enc Gen.SafeKVSkel Model.SafeKV Model.SafeKVCalls Model.SafeKVHist
  Proofs.SafeKVInv Proofs.SafeKVConc Proofs.SafeKVSkelOk Proofs.SafeKVExec Proofs.SafeKVCalls Proofs.SafeKVLinearizeStep.
Import ListNotations.

(* ---------------------------------------------------------------- the instrumentation does not touch the machine *)
Lemma hstep_hc h sc : hc (hstep h sc) = cstep (hc h) sc.
Proof. unfold hstep. destruct (nth_error _ _) as [t|]; [|reflexivity]. destruct (ccall t); [destruct (returning t)|]; reflexivity. Qed.
Lemma hstep_hk h sc : hk (hstep h sc) = S (hk h).
Proof. unfold hstep. destruct (nth_error _ _) as [t|]; [|reflexivity]. destruct (ccall t); [destruct (returning t)|]; reflexivity. Qed.
Lemma hfold_hc sched : forall h, hc (fold_left hstep sched h) = crun (hc h) sched.
Proof. induction sched as [|s t IH]; intros h; cbn [fold_left crun]; auto. rewrite IH, hstep_hc. reflexivity. Qed.
Lemma hfold_hk sched : forall h, hk (fold_left hstep sched h) = length sched + hk h.
Proof. induction sched as [|s t IH]; intros h; cbn [fold_left length]; auto. rewrite IH, hstep_hk. lia. Qed.
Theorem hrun_crun n m0 sched : hc (hrun n m0 sched) = crun (cinit n m0) sched.
Proof. unfold hrun. rewrite hfold_hc. reflexivity. Qed.
Theorem hrun_hk n m0 sched : hk (hrun n m0 sched) = length sched.
Proof. unfold hrun. rewrite hfold_hk. cbn [hinit hk]. lia. Qed.

(* ---------------------------------------------------------------- linearization items *)
Record litem := { l_tid : nat; l_inv : nat; l_call : call; l_res : list Z; l_resp : option nat }.
Definition pendingb (x : litem) : bool := match l_resp x with None => true | Some _ => false end.
Definition doneb (x : litem) : bool := negb (pendingb x).
Definition hop_of (K : nat) (x : litem) : hop :=
  {| h_inv := Z.of_nat (l_inv x); h_resp := Z.of_nat (match l_resp x with Some r => r | None => K end);
     h_call := l_call x; h_res := l_res x |}.

Fixpoint lseq (L : list litem) (m : map_) : Prop :=
  match L with [] => True | x :: t => l_res x = snd (sem (l_call x) m) /\ lseq t (fst (sem (l_call x) m)) end.
Definition lstate (L : list litem) (m : map_) : map_ := fold_left (fun s x => fst (sem (l_call x) s)) L m.
Fixpoint lrt (L : list litem) : Prop :=
  match L with
  | [] => True
  | x :: t => (forall y, In y (x :: t) -> forall r, l_resp y = Some r -> l_inv x < r) /\ lrt t
  end.

Lemma lstate_app a b m : lstate (a ++ b) m = lstate b (lstate a m).
Proof. apply fold_left_app. Qed.
Lemma lseq_app a : forall b m, lseq (a ++ b) m <-> lseq a m /\ lseq b (lstate a m).
Proof.
  induction a as [|x a IH]; intros b m; cbn [app lseq lstate fold_left]; [tauto|].
  rewrite IH. unfold lstate. tauto.
Qed.
Lemma lrt_app a : forall b, lrt (a ++ b) <->
  lrt a /\ lrt b /\ (forall x y, In x a -> In y b -> forall r, l_resp y = Some r -> l_inv x < r).
Proof.
  induction a as [|x a IH]; intros b; cbn [app lrt].
  - split; [intros H; repeat split; auto; intros ? ? []|tauto].
  - rewrite IH. split.
    + intros (H1 & H2 & H3 & H4). repeat split; auto.
      * intros y Hy. apply H1. destruct Hy as [->|Hy]; [left; auto|right; apply in_or_app; auto].
      * intros x0 y [<-|Hx] Hy; [apply H1; right; apply in_or_app; auto|apply H4; auto].
    + intros ((H1 & H2) & H3 & H4). repeat split; auto; [|intros x0 y Hx0; apply H4; right; auto].
      intros y [<-|Hy]; [apply H1; left; auto|]. apply in_app_or in Hy as [Hy|Hy]; [apply H1; right; auto|apply H4; auto; left; auto].
Qed.

Definition phase2 (t : cthread) : bool := match ccall t with Some _ => 2 <=? cph t | None => false end.
Definition ptids (L : list litem) : list nat := map l_tid (filter pendingb L).

(* the part of the invariant about times, items and the history *)
Record TInv (h : hconfig) (L : list litem) : Prop := {
  li_len : length (hinv h) = length (cths (hc h));
  li_invk : forall i t, nth_error (cths (hc h)) i = Some t -> ccall t <> None -> nth i (hinv h) 0 < hk h;
  li_hist : Permutation (map (hop_of 0) (filter doneb L)) (hhist h);
  li_nodup : NoDup (ptids L);
  li_pend : forall i, In i (ptids L) <-> exists t, nth_error (cths (hc h)) i = Some t /\ phase2 t = true;
  li_pitem : forall x, In x L -> l_resp x = None ->
     exists t cl, nth_error (cths (hc h)) (l_tid x) = Some t /\ ccall t = Some cl /\ l_call x = cl /\
                  l_inv x = nth (l_tid x) (hinv h) 0 /\ l_res x = snd (sem cl (snap (base t)));
  li_lt : forall x, In x L -> l_inv x < hk h;
  li_rt : lrt L
}.
(* the part about the map *)
Record SInv (m0 : map_) (c : cconfig) (L : list litem) : Prop := {
  li_seq : lseq L m0;
  li_A : writer (clk c) = false -> cmp c = lstate L m0;
  li_B : forall j t, nth_error (cths c) j = Some t -> hold (base t) = Some W -> snap (base t) = lstate L m0
}.
Definition LInv (m0 : map_) (h : hconfig) (L : list litem) : Prop := CInv (hc h) /\ TInv h L /\ SInv m0 (hc h) L.

(* ---------------------------------------------------------------- facts from the lock invariant *)
Lemma nth_error_proj c i t : nth_error (cths c) i = Some t -> nth_error (ths (proj c)) i = Some (base t).
Proof. intros H. cbn [proj ths]. rewrite nth_error_map_base, H. reflexivity. Qed.

Lemma holdsW_writer c i t : CInv c -> nth_error (cths c) i = Some t -> hold (base t) = Some W -> writer (clk c) = true.
Proof.
  intros [HI _] Hi Hh. pose proof (i_w _ HI) as Hw. cbn [proj lk ths] in Hw.
  assert (1 <= cntW (map base (cths c))).
  { unfold cntW. apply (filter_one isW _ i (base t)); [rewrite nth_error_map_base, Hi; reflexivity|unfold isW; rewrite Hh; reflexivity]. }
  destruct (writer (clk c)); auto. lia.
Qed.
Lemma holdsR_nowriter c i t : CInv c -> nth_error (cths c) i = Some t -> hold (base t) = Some R ->
  writer (clk c) = false /\ cmp c = snap (base t).
Proof.
  intros HC Hi Hh. pose proof HC as [HI _]. split.
  - pose proof (i_r _ HI) as Hr. pose proof (i_ex _ HI) as Hex. cbn [proj lk ths] in Hr, Hex.
    assert (1 <= cntR (map base (cths c))).
    { unfold cntR. apply (filter_one isR _ i (base t)); [rewrite nth_error_map_base, Hi; reflexivity|unfold isR; rewrite Hh; reflexivity]. }
    destruct (writer (clk c)); auto. specialize (Hex eq_refl). lia.
  - destruct (thread_tok c i t HC Hi) as [_ Hg]. rewrite Hh in Hg. apply Hg.
Qed.
Lemma W_excludes c i j a b : CInv c -> nth_error (cths c) i = Some a -> nth_error (cths c) j = Some b -> i <> j ->
  hold (base a) = Some W -> hold (base b) <> None -> False.
Proof.
  intros [HI _] Hi Hj Hij Ha Hb. apply (writer_excl (proj c) i j (base a) (base b)); auto; apply nth_error_proj; auto.
Qed.

(* ---------------------------------------------------------------- steps that leave L alone *)
Lemma phase2_upd_iff ts i t t' j : nth_error ts i = Some t -> phase2 t' = phase2 t ->
  ((exists y, nth_error (upd ts i t') j = Some y /\ phase2 y = true) <-> (exists y, nth_error ts j = Some y /\ phase2 y = true)).
Proof.
  intros Hi Hp. rewrite (nth_error_upd ts i t t' j Hi). destruct (Nat.eqb_spec j i) as [->|Hne]; [|tauto].
  split; intros (y & Hy & Py).
  - inversion Hy; subst. exists t. split; auto. congruence.
  - rewrite Hi in Hy. inversion Hy; subst. exists t'. split; auto. congruence.
Qed.

Lemma tinv_frame h L i t t' l' m' invs' :
  TInv h L -> nth_error (cths (hc h)) i = Some t -> phase2 t' = phase2 t ->
  (phase2 t = true -> ccall t' = ccall t /\ snap (base t') = snap (base t)) ->
  (ccall t' <> None -> nth i invs' 0 < S (hk h)) ->
  length invs' = length (hinv h) ->
  (forall j, j <> i \/ phase2 t = true -> nth j invs' 0 = nth j (hinv h) 0) ->
  TInv {| hc := {| clk := l'; cmp := m'; cths := upd (cths (hc h)) i t' |}; hk := S (hk h); hinv := invs'; hhist := hhist h |} L.
Proof.
  intros [Hlen Hinvk Hhist Hnd Hpend Hpit Hlt Hrt] Hi Hp2 Hkeep Hnew Hlen' Hsame.
  constructor; cbn [hc hk hinv hhist cths]; auto.
  - rewrite upd_length. congruence.
  - intros j y Hj Hc. rewrite (nth_error_upd _ i t t' j Hi) in Hj. destruct (Nat.eqb_spec j i) as [->|Hne].
    + inversion Hj; subst. auto.
    + rewrite Hsame by auto. specialize (Hinvk j y Hj Hc). lia.
  - intros j. rewrite Hpend. symmetry. apply (phase2_upd_iff _ i t t' j Hi Hp2).
  - intros x Hx Hr. destruct (Hpit x Hx Hr) as (y & cl & Hy & Hc & E1 & E2 & E3).
    rewrite (nth_error_upd _ i t t' _ Hi). destruct (Nat.eqb_spec (l_tid x) i) as [Heq|Hne].
    + rewrite Heq in Hy. rewrite Hi in Hy. inversion Hy; subst y.
      assert (P2 : phase2 t = true).
      { assert (Hin : In (l_tid x) (ptids L)) by (unfold ptids; apply in_map, filter_In; split; auto; unfold pendingb; rewrite Hr; reflexivity).
        apply Hpend in Hin as (y & Hy' & Py). rewrite Heq, Hi in Hy'. inversion Hy'; subst; auto. }
      destruct (Hkeep P2) as [K1 K2]. exists t', cl. rewrite K1, K2, Hsame by auto. repeat split; auto.
    + exists y, cl. rewrite Hsame by auto. repeat split; auto.
  - intros x Hx. specialize (Hlt x Hx). lia.
Qed.

(* ---------------------------------------------------------------- list facts for the two steps that change L *)
Lemma filter_mid {A} (f : A -> bool) l1 x l2 :
  filter f (l1 ++ x :: l2) = filter f l1 ++ (if f x then [x] else []) ++ filter f l2.
Proof. rewrite filter_app. cbn [filter]. destruct (f x); reflexivity. Qed.

Lemma lrt_set_resp L1 x x' L2 k : lrt (L1 ++ x :: L2) -> l_inv x' = l_inv x -> l_resp x' = Some k ->
  (forall y, In y (L1 ++ [x]) -> l_inv y < k) -> lrt (L1 ++ x' :: L2).
Proof.
  intros H Ei Er Hk. apply lrt_app in H as (H1 & H2 & H3). apply lrt_app. cbn [lrt] in H2 |- *. destruct H2 as [H2 H4].
  repeat split; auto.
  - intros y [<-|Hy] r Hr.
    + rewrite Er in Hr. inversion Hr; subst. rewrite Ei. apply Hk. apply in_or_app. right. left. auto.
    + rewrite Ei. apply (H2 y); auto. right; auto.
  - intros a y Ha [<-|Hy] r Hr.
    + rewrite Er in Hr. inversion Hr; subst. apply Hk. apply in_or_app. left. auto.
    + apply (H3 a y); auto. right; auto.
Qed.

(* ---------------------------------------------------------------- one step *)
Theorem hstep_linv m0 h L sc : LInv m0 h L -> exists L', LInv m0 (hstep h sc) L'.
Proof.
  intros (HC & HT & HS). destruct sc as [i nc]. pose proof (cstep_cinv (hc h) (i, nc) HC) as HC'.
  unfold LInv. rewrite hstep_hc. unfold hstep. cbn [fst].
  destruct (nth_error (cths (hc h)) i) as [t|] eqn:Hi.
  2: { (* no such thread: nothing moves *)
    exists L. split; auto. assert (E0 : cstep (hc h) (i, nc) = hc h) by (unfold cstep; rewrite Hi; reflexivity). rewrite E0. split; auto.
    destruct HT as [Hlen Hinvk Hhist Hnd Hpend Hpit Hlt Hrt]. constructor; cbn [hc hk hinv hhist]; rewrite ?E0; auto.
    - intros j y Hj Hc. specialize (Hinvk j y Hj Hc). lia.
    - intros x Hx. specialize (Hlt x Hx). lia. }
  destruct (cstep_kind (hc h) i nc t HC Hi) as (l' & m' & t' & Hstep & Hk). rewrite Hstep in HC' |- *.
  pose proof HT as [Hlen Hinvk Hhist Hnd Hpend Hpit Hlt Hrt]. pose proof HS as [Hseq HA HB].
  assert (Hil : i < length (hinv h)) by (rewrite Hlen; apply nth_error_Some; congruence).
  assert (Hok' : cok m' t').
  { pose proof (thread_cok _ i t' HC') as H0. cbn [cths cmp] in H0. apply H0. rewrite (nth_error_upd _ i t t' i Hi), Nat.eqb_refl. reflexivity. }
  destruct Hk as [Ec El Em Ec' Ep' Eh' Es' Elg | cl Ec Hret El Em Ec' Eb' Elog | cl Ec Hret El Ec' Ep' Eh' Es' Em Elg
                 | cl md Ec Hret Hn El Em Ec' Ep' Eh' Es' Hw Elg | cl md Ec Hret Hn El Em Ec' Ep' Ef' Eh' Es' Elg].
  - (* ---- invocation *)
    rewrite Ec. exists L. split; auto. subst l' m'.
    assert (P2 : phase2 t = false) by (unfold phase2; rewrite Ec; reflexivity).
    split.
    + apply (tinv_frame h L i t t'); auto.
      * unfold phase2. rewrite Ec, Ec', Ep'. reflexivity.
      * rewrite P2. discriminate.
      * intros _. rewrite nth_upd_same by auto. lia.
      * apply upd_length.
      * intros j [Hj|Hj]; [apply nth_upd_other; auto|congruence].
    + constructor; cbn [clk cmp cths]; auto.
      intros j y Hj Hh. rewrite (nth_error_upd _ i t t' j Hi) in Hj. destruct (Nat.eqb_spec j i) as [->|Hne]; [|eauto].
      inversion Hj; subst y. rewrite Es'. apply (HB i t); auto. congruence.
  - (* ---- response *)
    rewrite Ec, Hret. subst l' m'.
    assert (P2 : phase2 t = true).
    { unfold phase2. rewrite Ec. apply Nat.leb_le. apply (return_phase2 (hc h) i t cl); auto. }
    assert (Hin : In i (ptids L)) by (apply Hpend; eauto).
    unfold ptids in Hin. apply in_map_iff in Hin as (x & Etid & Hx). apply filter_In in Hx as [HxL Hxp].
    assert (Hxr : l_resp x = None) by (unfold pendingb in Hxp; destruct (l_resp x); [discriminate|reflexivity]).
    destruct (Hpit x HxL Hxr) as (y & cl0 & Hy & Hcy & X1 & X2 & X3). rewrite Etid, Hi in Hy. inversion Hy; subst y. clear Hy.
    assert (Ecl : cl0 = cl) by congruence. rewrite Ecl in *. clear Ecl Hcy.
    (* the result the thread returns is the specification's on its snapshot *)
    assert (Hres : result cl (cobs t) (cits t) = snd (sem cl (snap (base t)))).
    { destruct Hok' as [Hlog _]. rewrite Elog in Hlog. apply Forall_app in Hlog as [_ Hlog]. inversion Hlog as [|en tl Hen _]; subst.
      unfold log_ok in Hen. apply Hen. }
    apply in_split in HxL as (L1 & L2 & ->).
    set (x' := {| l_tid := l_tid x; l_inv := l_inv x; l_call := l_call x; l_res := l_res x; l_resp := Some (hk h) |}).
    exists (L1 ++ x' :: L2).
    assert (Hnd2 : NoDup (ptids L1 ++ ptids L2) /\ ~ In i (ptids L1 ++ ptids L2)).
    { unfold ptids in Hnd |- *. rewrite filter_mid, Hxp, !map_app in Hnd. cbn [map app] in Hnd. rewrite Etid in Hnd.
      apply NoDup_remove in Hnd. exact Hnd. }
    destruct Hnd2 as [Hnd2 Hni].
    assert (Eptids : ptids (L1 ++ x' :: L2) = ptids L1 ++ ptids L2).
    { unfold ptids. rewrite filter_mid. cbn [pendingb x' l_resp app]. rewrite map_app. reflexivity. }
    assert (Eptids0 : forall j, In j (ptids (L1 ++ x :: L2)) <-> j = i \/ In j (ptids L1 ++ ptids L2)).
    { intros j. unfold ptids. rewrite filter_mid, Hxp, !map_app. cbn [map app]. rewrite Etid, !in_app_iff. cbn [In]. intuition. }
    split; auto. split.
    + constructor; cbn [hc hk hinv hhist cths].
      * rewrite upd_length. auto.
      * intros j y Hj Hc. rewrite (nth_error_upd _ i t t' j Hi) in Hj. destruct (Nat.eqb_spec j i) as [->|Hne].
        -- inversion Hj; subst. congruence.
        -- specialize (Hinvk j y Hj Hc). lia.
      * unfold doneb in *. rewrite filter_mid in Hhist |- *. rewrite Hxp in Hhist. cbn [negb app] in Hhist.
        cbn [pendingb x' l_resp negb]. rewrite !map_app in *. cbn [map app].
        assert (Ehop : hop_of 0 x' = {| h_inv := Z.of_nat (nth i (hinv h) 0); h_resp := Z.of_nat (hk h); h_call := cl; h_res := result cl (cobs t) (cits t) |}).
        { unfold hop_of, x'. cbn [l_inv l_resp l_call l_res]. rewrite X1, X2, X3, Etid, Hres. reflexivity. }
        rewrite Ehop. eapply perm_trans; [apply Permutation_sym, Permutation_middle|].
        eapply perm_trans; [apply perm_skip, Hhist|]. apply Permutation_cons_append.
      * rewrite Eptids. exact Hnd2.
      * intros j. rewrite Eptids. rewrite (nth_error_upd _ i t t' j Hi). destruct (Nat.eqb_spec j i) as [->|Hne].
        -- split; [intros Hj; contradiction|]. intros (y & Hy & Py). inversion Hy; subst y. unfold phase2 in Py. rewrite Ec' in Py. discriminate.
        -- rewrite <- Hpend, Eptids0. intuition.
      * intros y Hy Hr.
        assert (HyL : In y (L1 ++ x :: L2) /\ In (l_tid y) (ptids L1 ++ ptids L2)).
        { apply in_app_or in Hy as [Hy|[<-|Hy]]; [| cbn [x' l_resp] in Hr; discriminate |].
          - split; [apply in_or_app; auto|]. apply in_or_app. left. unfold ptids. apply in_map, filter_In. split; auto. unfold pendingb. rewrite Hr. reflexivity.
          - split; [apply in_or_app; right; right; auto|]. apply in_or_app. right. unfold ptids. apply in_map, filter_In. split; auto. unfold pendingb. rewrite Hr. reflexivity. }
        destruct HyL as [HyL Hyt]. destruct (Hpit y HyL Hr) as (ty & cly & Y0 & Y1 & Y2 & Y3 & Y4).
        exists ty, cly. rewrite (nth_error_upd _ i t t' _ Hi). destruct (Nat.eqb_spec (l_tid y) i) as [Heq|Hne]; [rewrite Heq in Hyt; contradiction|].
        repeat split; auto.
      * intros y Hy. assert (l_inv y < hk h); [|lia]. apply in_app_or in Hy as [Hy|[<-|Hy]].
        -- apply Hlt. apply in_or_app; auto.
        -- cbn [x' l_inv]. apply Hlt. apply in_or_app. right. left. auto.
        -- apply Hlt. apply in_or_app. right. right. auto.
      * apply (lrt_set_resp L1 x x' L2 (hk h)); auto. intros y Hy. apply Hlt. apply in_app_or in Hy as [Hy|[<-|[]]]; apply in_or_app; [left|right; left]; auto.
    + assert (Est : forall m, lstate (L1 ++ x' :: L2) m = lstate (L1 ++ x :: L2) m) by (intros m; rewrite !lstate_app; reflexivity).
      constructor; cbn [clk cmp cths].
      * apply lseq_app in Hseq. apply lseq_app. exact Hseq.
      * rewrite Est. auto.
      * rewrite Est. intros j y Hj Hh. rewrite (nth_error_upd _ i t t' j Hi) in Hj. destruct (Nat.eqb_spec j i) as [->|Hne]; [|eauto].
        inversion Hj; subst y. rewrite Eb' in *. apply (HB i t); auto.
  - (* ---- a step inside the call that neither takes nor releases the lock *)
    rewrite Ec, Hret. exists L. split; auto. subst l'.
    assert (P2 : phase2 t' = phase2 t) by (unfold phase2; rewrite Ec, Ec', Ep'; reflexivity).
    split.
    + apply (tinv_frame h L i t t'); auto.
      * intros _. split; congruence.
      * intros _. assert (nth i (hinv h) 0 < hk h); [|lia]. apply (Hinvk i t); auto. congruence.
    + constructor; cbn [clk cmp cths]; auto.
      * intros Hw. destruct Em as [->|[lo Hn]]; auto. exfalso.
        pose proof (wr_holds _ i t lo HC Hi Hn) as Hh. pose proof (holdsW_writer _ i t HC Hi Hh). congruence.
      * intros j y Hj Hh. rewrite (nth_error_upd _ i t t' j Hi) in Hj. destruct (Nat.eqb_spec j i) as [->|Hne]; [|eauto].
        inversion Hj; subst y. rewrite Es'. apply (HB i t); auto. congruence.
  - (* ---- the lock is acquired *)
    rewrite Ec, Hret. exists L. split; auto. subst l' m'.
    assert (Hp0 : cph t = 0) by (apply (acq_phase0 (hc h) i t cl md); auto).
    assert (P2 : phase2 t = false) by (unfold phase2; rewrite Ec, Hp0; reflexivity).
    split.
    + apply (tinv_frame h L i t t'); auto.
      * unfold phase2. rewrite Ec, Ec', Ep', Hp0. reflexivity.
      * rewrite P2. discriminate.
      * intros _. assert (nth i (hinv h) 0 < hk h); [|lia]. apply (Hinvk i t); auto. congruence.
    + constructor; cbn [clk cmp cths]; auto.
      * intros j y Hj Hh. rewrite (nth_error_upd _ i t t' j Hi) in Hj. destruct (Nat.eqb_spec j i) as [->|Hne]; [|eauto].
        inversion Hj; subst y. rewrite Es'. auto.
  - (* ---- the lock is released: the call takes effect *)
    rewrite Ec, Hret. subst l' m'.
    destruct (rel_holds _ i t cl md HC Hi Ec Hn) as [Hh Hp1].
    assert (P2 : phase2 t = false) by (unfold phase2; rewrite Ec, Hp1; reflexivity).
    assert (P2' : phase2 t' = true) by (unfold phase2; rewrite Ec', Ep'; reflexivity).
    assert (Hni : ~ In i (ptids L)).
    { intros Hin. apply Hpend in Hin as (y & Hy & Py). rewrite Hi in Hy. inversion Hy; subst. congruence. }
    (* the map the call found is the state of the linearization so far *)
    assert (Hsnap : snap (base t) = lstate L m0).
    { destruct md; [|apply (HB i t); auto]. destruct (holdsR_nowriter _ i t HC Hi Hh) as [Hw Hm]. rewrite <- Hm. auto. }
    (* ... and the map it leaves is the specification's *)
    assert (Hfin : cmp (hc h) = fst (sem cl (lstate L m0))).
    { destruct Hok' as [_ Hc]. rewrite Ec', Ep' in Hc. destruct Hc as (_ & _ & _ & _ & Hf). rewrite Ef', Es', Hsnap in Hf. exact Hf. }
    set (x := {| l_tid := i; l_inv := nth i (hinv h) 0; l_call := cl; l_res := snd (sem cl (snap (base t))); l_resp := None |}).
    exists (L ++ [x]).
    assert (Eptids : ptids (L ++ [x]) = ptids L ++ [i]) by (unfold ptids; rewrite filter_app, map_app; reflexivity).
    split; auto. split.
    + constructor; cbn [hc hk hinv hhist cths].
      * rewrite upd_length. auto.
      * intros j y Hj Hc. rewrite (nth_error_upd _ i t t' j Hi) in Hj. destruct (Nat.eqb_spec j i) as [->|Hne].
        -- assert (nth i (hinv h) 0 < hk h); [|lia]. apply (Hinvk i t); auto. congruence.
        -- specialize (Hinvk j y Hj Hc). lia.
      * unfold doneb. rewrite filter_app. cbn [filter pendingb x l_resp negb]. rewrite app_nil_r. exact Hhist.
      * rewrite Eptids. apply (Permutation_NoDup (Permutation_cons_append (ptids L) i)). constructor; auto.
      * intros j. rewrite Eptids, in_app_iff. cbn [In]. rewrite (nth_error_upd _ i t t' j Hi). destruct (Nat.eqb_spec j i) as [->|Hne].
        -- split; [eauto|auto].
        -- rewrite Hpend. split; [intros [H|[H|[]]]; [auto|congruence]|auto].
      * intros y Hy Hr. apply in_app_or in Hy as [Hy|[<-|[]]].
        -- destruct (Hpit y Hy Hr) as (ty & cly & Y0 & Y1 & Y2 & Y3 & Y4). exists ty, cly.
           rewrite (nth_error_upd _ i t t' _ Hi). destruct (Nat.eqb_spec (l_tid y) i) as [Heq|Hne]; [|repeat split; auto].
           exfalso. apply Hni. rewrite <- Heq. unfold ptids. apply in_map, filter_In. split; auto. unfold pendingb. rewrite Hr. reflexivity.
        -- exists t', cl. cbn [x l_tid l_call l_inv l_res]. rewrite (nth_error_upd _ i t t' _ Hi), Nat.eqb_refl, Es'. repeat split; auto.
      * intros y Hy. apply in_app_or in Hy as [Hy|[<-|[]]]; [specialize (Hlt y Hy); lia|].
        cbn [x l_inv]. assert (nth i (hinv h) 0 < hk h); [|lia]. apply (Hinvk i t); auto. congruence.
      * apply lrt_app. split; auto. split.
        -- cbn [lrt]. split; auto. intros y [<-|[]] r Hr. cbn [x l_resp] in Hr. discriminate.
        -- intros a y _ [<-|[]] r Hr. cbn [x l_resp] in Hr. discriminate.
    + assert (Est : lstate (L ++ [x]) m0 = cmp (hc h)).
      { rewrite lstate_app. unfold lstate at 1. cbn [fold_left x l_call]. symmetry. exact Hfin. }
      constructor; cbn [clk cmp cths].
      * apply lseq_app. split; auto. cbn [lseq x l_res l_call]. rewrite Hsnap. auto.
      * intros _. symmetry. exact Est.
      * intros j y Hj Hhy. rewrite (nth_error_upd _ i t t' j Hi) in Hj. destruct (Nat.eqb_spec j i) as [->|Hne].
        -- inversion Hj; subst y. congruence.
        -- exfalso. apply (W_excludes (hc h) j i y t); auto. congruence.
Qed.

(* ---------------------------------------------------------------- every run *)
Lemma hinit_linv n m0 : LInv m0 (hinit n m0) [].
Proof.
  split; [apply cinit_cinv|]. split.
  - constructor; cbn [hinit hc hk hinv hhist cinit cths ptids filter map lrt]; auto.
    + rewrite !repeat_length. reflexivity.
    + intros i t Hi Hc. apply nth_error_In, repeat_spec in Hi. subst. cbn in Hc. congruence.
    + constructor.
    + intros i. split; [intros []|]. intros (t & Hi & Hp). apply nth_error_In, repeat_spec in Hi. subst. discriminate.
    + intros x [].
    + intros x [].
  - constructor; cbn [hinit hc cinit clk cmp cths lseq lstate fold_left]; auto.
    intros j t Hj Hh. apply nth_error_In, repeat_spec in Hj. subst. discriminate.
Qed.

Lemma hfold_linv m0 sched : forall h L, LInv m0 h L -> exists L', LInv m0 (fold_left hstep sched h) L'.
Proof.
  induction sched as [|sc s IH]; intros h L H; cbn [fold_left]; [eauto|].
  destruct (hstep_linv m0 h L sc H) as [L1 H1]. eapply IH; eauto.
Qed.

Theorem hrun_linv n m0 sched : exists L, LInv m0 (hrun n m0 sched) L.
Proof. apply (hfold_linv m0 sched _ []). apply hinit_linv. Qed.
