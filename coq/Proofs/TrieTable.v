(* C05 — the node table of Model/Trie.v: lookup/update laws, the two bisections (index, findChildIndex), and the
   structural invariant WF that Insert maintains from the empty trie: root present, prefix-closed, the children list
   of a node is exactly the set of its one-rune extensions, in strictly ascending order, keys distinct. *)
From Coq Require Import List ZArith Lia Bool Arith.
From V Require Import Model.Trie.
Import ListNotations.
Local Open Scope Z_scope.

(* ------------------------------------------------------------------ words, lookup, update *)
Lemma weqb_eq a b : weqb a b = true <-> a = b.
Proof.
  revert b; induction a as [|x a IH]; intros [|y b]; cbn [weqb]; split; intros H; try reflexivity; try discriminate.
  - apply andb_prop in H. destruct H as [H1 H2]. apply Z.eqb_eq in H1. apply IH in H2. subst. reflexivity.
  - inversion H; subst. rewrite Z.eqb_refl. cbn [andb]. apply IH. reflexivity.
Qed.
Lemma weqb_refl a : weqb a a = true.
Proof. apply weqb_eq. reflexivity. Qed.
Lemma weqb_neq a b : a <> b -> weqb a b = false.
Proof. intros H. destruct (weqb a b) eqn:E; [apply weqb_eq in E; contradiction|reflexivity]. Qed.
Lemma weqb_sym a b : weqb a b = weqb b a.
Proof.
  destruct (weqb a b) eqn:E1; destruct (weqb b a) eqn:E2; auto.
  - apply weqb_eq in E1. subst. rewrite weqb_refl in E2. discriminate.
  - apply weqb_eq in E2. subst. rewrite weqb_refl in E1. discriminate.
Qed.
Lemma word_eq_dec : forall a b : word, {a = b} + {a <> b}.
Proof. apply list_eq_dec, Z.eq_dec. Qed.

Definition inT (T : trie) (w : word) : bool := match get T w with Some _ => true | None => false end.

Lemma get_upd T w f w' : get (upd T w f) w' = if weqb w w' then option_map f (get T w') else get T w'.
Proof.
  induction T as [|[k n] T IH]; cbn [upd get].
  - destruct (weqb w w'); reflexivity.
  - destruct (weqb k w) eqn:E1.
    + apply weqb_eq in E1. subst k. cbn [get]. destruct (weqb w w') eqn:E2; reflexivity.
    + cbn [get]. destruct (weqb k w') eqn:E2.
      * apply weqb_eq in E2. subst k. rewrite weqb_sym, E1. reflexivity.
      * exact IH.
Qed.
Lemma get_upd_same T w f : get (upd T w f) w = option_map f (get T w).
Proof. rewrite get_upd, weqb_refl. reflexivity. Qed.
Lemma get_upd_other T w f w' : w <> w' -> get (upd T w f) w' = get T w'.
Proof. intros H. rewrite get_upd, (weqb_neq _ _ H). reflexivity. Qed.
Lemma get_app T k n w : get (T ++ [(k, n)]) w = match get T w with Some x => Some x | None => if weqb k w then Some n else None end.
Proof.
  induction T as [|[k' n'] T IH]; cbn [app get]; [reflexivity|]. destruct (weqb k' w); [reflexivity|exact IH].
Qed.
Lemma upd_keys T w f : map fst (upd T w f) = map fst T.
Proof.
  induction T as [|[k n] T IH]; cbn [upd map]; [reflexivity|]. destruct (weqb k w); cbn [map fst]; [reflexivity|f_equal; exact IH].
Qed.
Lemma upd_length T w f : length (upd T w f) = length T.
Proof. rewrite <- (map_length fst), upd_keys, map_length. reflexivity. Qed.
Lemma get_none_keys T w : get T w = None <-> ~ In w (map fst T).
Proof.
  induction T as [|[k n] T IH]; cbn [get map fst In]; [tauto|].
  destruct (weqb k w) eqn:E.
  - apply weqb_eq in E. subst. split; [discriminate|intros H; exfalso; apply H; left; reflexivity].
  - rewrite IH. split; [intros H [H1|H1]; [subst; rewrite weqb_refl in E; discriminate|contradiction]|tauto].
Qed.
Lemma inT_keys T w : inT T w = true <-> In w (map fst T).
Proof.
  unfold inT. destruct (get T w) eqn:E.
  - split; [intros _|reflexivity]. destruct (in_dec word_eq_dec w (map fst T)) as [H|H]; [exact H|].
    apply get_none_keys in H. congruence.
  - apply get_none_keys in E. split; [discriminate|contradiction].
Qed.

Lemma inT_upd T w f w' : inT (upd T w f) w' = inT T w'.
Proof. unfold inT. rewrite get_upd. destruct (weqb w w'); [destruct (get T w')|]; reflexivity. Qed.

(* ------------------------------------------------------------------ sorted children, the two bisections *)
Definition sorted (c : list Z) : Prop := forall i j, (i < j)%nat -> (j < length c)%nat -> nth i c 0 < nth j c 0.

Lemma index_loop_spec c v : sorted c -> forall fuel low high,
  (low <= high)%nat -> (high <= length c)%nat -> (high - low < fuel)%nat ->
  (forall i, (i < low)%nat -> nth i c 0 < v) -> (forall i, (high <= i)%nat -> (i < length c)%nat -> v < nth i c 0) ->
  let r := index_loop fuel c v low high in
  (0 <= r -> (Z.to_nat r < length c)%nat /\ nth (Z.to_nat r) c 0 = v) /\ (r = -1 -> ~ In v c) /\ (-1 <= r).
Proof.
  intros Hs. induction fuel as [|f IH]; intros low high H1 H2 H3 Hlo Hhi; [lia|]. cbn [index_loop].
  assert (Habsent : (low >= high)%nat -> ~ In v c).
  { intros Hge Hin. apply In_nth with (d := 0) in Hin. destruct Hin as (k & Hk & Ek).
    destruct (Nat.lt_ge_cases k low); [specialize (Hlo k ltac:(lia)); lia|specialize (Hhi k ltac:(lia) Hk); lia]. }
  destruct (Nat.ltb_spec low high) as [Hlt|Hge].
  - assert (Hm : (low <= (low + high) / 2 < high)%nat).
    { split; [apply Nat.div_le_lower_bound; lia | apply Nat.div_lt_upper_bound; lia]. }
    set (mid := ((low + high) / 2)%nat) in *.
    destruct (Z.eqb_spec (nth mid c 0) v) as [E|E].
    + cbv zeta. rewrite Nat2Z.id. repeat split; try lia.
    + destruct (Z.ltb_spec (nth mid c 0) v) as [Hc|Hc].
      * apply IH; try lia; auto. intros i Hi. destruct (Nat.eq_dec i mid) as [->|Hne]; auto.
        assert (nth i c 0 < nth mid c 0) by (apply Hs; lia). lia.
      * apply IH; try lia; auto. intros i Hi Hl. destruct (Nat.eq_dec i mid) as [->|Hne]; [lia|].
        assert (nth mid c 0 < nth i c 0) by (apply Hs; lia). lia.
  - cbv zeta. repeat split; try lia. intros _. apply Habsent. lia.
Qed.

Theorem index_spec c v : sorted c ->
  let r := index c v in
  (0 <= r -> (Z.to_nat r < length c)%nat /\ nth (Z.to_nat r) c 0 = v) /\ (r = -1 <-> ~ In v c) /\ (-1 <= r).
Proof.
  intros Hs. cbv zeta. unfold index.
  assert (Hout : forall k, (k < length c)%nat -> (v < nth 0 c 0 \/ nth (length c - 1) c 0 < v) -> nth k c 0 <> v).
  { intros k Hk [H|H] E.
    - destruct k; [lia|]. assert (nth 0 c 0 < nth (S k) c 0) by (apply Hs; lia). lia.
    - destruct (Nat.eq_dec k (length c - 1)) as [->|Hne]; [lia|]. assert (nth k c 0 < nth (length c - 1) c 0) by (apply Hs; lia). lia. }
  destruct (Nat.eqb_spec (length c) 0) as [E0|E0]; cbn [orb].
  - split; [lia|]. split; [|lia]. split; auto. intros _ Hin. destruct c; [contradiction|discriminate].
  - destruct (Z.ltb_spec v (nth 0 c 0)) as [Hlo|Hlo]; cbn [orb].
    + split; [lia|]. split; [|lia]. split; auto. intros _ Hin. apply In_nth with (d := 0) in Hin. destruct Hin as (k & Hk & Ek). apply (Hout k); auto.
    + destruct (Z.ltb_spec (nth (length c - 1) c 0) v) as [Hhi|Hhi].
      * split; [lia|]. split; [|lia]. split; auto. intros _ Hin. apply In_nth with (d := 0) in Hin. destruct Hin as (k & Hk & Ek). apply (Hout k); auto.
      * destruct (index_loop_spec c v Hs (S (length c)) 0%nat (length c)) as (A & B & C); try lia.
        split; [exact A|]. split; [|exact C]. split; [exact B|].
        intros Hnin. destruct (Z.eq_dec (index_loop (S (length c)) c v 0 (length c)) (-1)) as [|Hne]; auto.
        exfalso. apply Hnin. destruct (A ltac:(lia)) as [A1 A2]. rewrite <- A2. apply nth_In. auto.
Qed.

(* the two facts the callers use *)
Lemma index_found c v : sorted c -> 0 <= index c v -> In v c /\ nth (Z.to_nat (index c v)) c 0 = v.
Proof.
  intros Hs H. destruct (index_spec c v Hs) as (A & _ & _). destruct (A H) as [A1 A2]. split; [|exact A2].
  rewrite <- A2. apply nth_In. exact A1.
Qed.
Lemma index_absent c v : sorted c -> ~ (0 <= index c v) -> ~ In v c.
Proof.
  intros Hs H. destruct (index_spec c v Hs) as (_ & B & C). apply B. lia.
Qed.
Lemma index_iff c v : sorted c -> (0 <=? index c v) = true <-> In v c.
Proof.
  intros Hs. split.
  - intros H. apply Z.leb_le in H. apply (index_found c v Hs H).
  - intros H. apply Z.leb_le. destruct (Z_le_gt_dec 0 (index c v)) as [|Hn]; [assumption|].
    exfalso. apply (index_absent c v Hs); [lia|exact H].
Qed.

Lemma lb_loop_spec c v : sorted c -> forall fuel low high,
  (low <= high)%nat -> (high <= length c)%nat -> (high - low < fuel)%nat ->
  (forall i, (i < low)%nat -> nth i c 0 < v) -> (forall i, (high <= i)%nat -> (i < length c)%nat -> v <= nth i c 0) ->
  let r := lb_loop fuel c v low high in
  (r <= length c)%nat /\ (forall i, (i < r)%nat -> nth i c 0 < v) /\ (forall i, (r <= i)%nat -> (i < length c)%nat -> v <= nth i c 0).
Proof.
  intros Hs. induction fuel as [|f IH]; intros low high H1 H2 H3 Hlo Hhi; [lia|]. cbn [lb_loop].
  destruct (Nat.ltb_spec low high) as [Hlt|Hge].
  - assert (Hm : (low <= (low + high) / 2 < high)%nat).
    { split; [apply Nat.div_le_lower_bound; lia | apply Nat.div_lt_upper_bound; lia]. }
    set (mid := ((low + high) / 2)%nat) in *.
    destruct (Z.ltb_spec (nth mid c 0) v) as [Hc|Hc].
    + apply IH; try lia; auto. intros i Hi. destruct (Nat.eq_dec i mid) as [->|Hne]; auto.
      assert (nth i c 0 < nth mid c 0) by (apply Hs; lia). lia.
    + apply IH; try lia; auto. intros i Hi Hl. destruct (Nat.eq_dec i mid) as [->|Hne]; [lia|].
      assert (nth mid c 0 < nth i c 0) by (apply Hs; lia). lia.
  - cbv zeta. split; [lia|]. split; [exact Hlo|]. intros i Hi Hl. apply Hhi; lia.
Qed.
Lemma find_child_index_spec c v : sorted c ->
  let r := find_child_index c v in
  (r <= length c)%nat /\ (forall i, (i < r)%nat -> nth i c 0 < v) /\ (forall i, (r <= i)%nat -> (i < length c)%nat -> v <= nth i c 0).
Proof.
  intros Hs. unfold find_child_index. apply lb_loop_spec; auto; try lia.
Qed.

(* the test of Insert: idx >= len(children) || children[idx].val != r *)
Lemma insert_test c v : sorted c -> let idx := find_child_index c v in
  ((length c <=? idx)%nat || negb (nth idx c 0 =? v)) = negb (if in_dec Z.eq_dec v c then true else false).
Proof.
  intros Hs idx. destruct (find_child_index_spec c v Hs) as (B & Lo & Hi). fold idx in B, Lo, Hi.
  destruct (in_dec Z.eq_dec v c) as [Hin|Hnin]; cbn [negb].
  - apply In_nth with (d := 0) in Hin. destruct Hin as (k & Hk & Ek).
    assert (Hik : idx = k).
    { destruct (Nat.lt_trichotomy k idx) as [H|[H|H]]; [specialize (Lo k H); lia|auto|].
      assert (nth idx c 0 < nth k c 0) by (apply Hs; lia). specialize (Hi idx (le_n _) ltac:(lia)). lia. }
    rewrite Hik. destruct (Nat.leb_spec (length c) k); [lia|]. rewrite Ek, Z.eqb_refl. reflexivity.
  - destruct (Nat.leb_spec (length c) idx); [reflexivity|]. cbn [orb].
    destruct (Z.eqb_spec (nth idx c 0) v) as [E|E]; [|reflexivity]. exfalso. apply Hnin. rewrite <- E. apply nth_In. lia.
Qed.

Lemma nth_insert_at idx r c i : (idx <= length c)%nat ->
  nth i (insert_at idx r c) 0 = if (i <? idx)%nat then nth i c 0 else if (i =? idx)%nat then r else nth (i - 1) c 0.
Proof.
  intros Hidx. unfold insert_at.
  assert (Lf : length (firstn idx c) = idx) by (rewrite firstn_length; lia).
  destruct (Nat.ltb_spec i idx).
  - rewrite app_nth1 by lia. rewrite <- (firstn_skipn idx c) at 2. rewrite app_nth1 by lia. reflexivity.
  - rewrite app_nth2 by lia. rewrite Lf. destruct (Nat.eqb_spec i idx) as [->|Hne].
    + rewrite Nat.sub_diag. reflexivity.
    + destruct (i - idx)%nat as [|k] eqn:E; [lia|]. cbn [nth].
      rewrite <- (firstn_skipn idx c) at 2. rewrite app_nth2 by lia. rewrite Lf. f_equal. lia.
Qed.
Lemma insert_at_length idx r c : (idx <= length c)%nat -> length (insert_at idx r c) = S (length c).
Proof. intros H. unfold insert_at. rewrite app_length, firstn_length. cbn [length]. rewrite skipn_length. lia. Qed.
Lemma in_insert_at idx r c x : In x (insert_at idx r c) <-> x = r \/ In x c.
Proof.
  unfold insert_at. rewrite in_app_iff. cbn [In]. rewrite <- (firstn_skipn idx c) at 3. rewrite in_app_iff. intuition.
Qed.
Lemma insert_at_sorted c v : sorted c -> ~ In v c -> sorted (insert_at (find_child_index c v) v c).
Proof.
  intros Hs Hnin. destruct (find_child_index_spec c v Hs) as (B & Lo & Hi). set (idx := find_child_index c v) in *.
  assert (Hi' : forall i, (idx <= i)%nat -> (i < length c)%nat -> v < nth i c 0).
  { intros i H1 H2. specialize (Hi i H1 H2). destruct (Z.eq_dec v (nth i c 0)) as [E|E]; [|lia].
    exfalso. apply Hnin. rewrite E. apply nth_In. exact H2. }
  intros i j Hij Hj. rewrite insert_at_length in Hj by exact B. rewrite !nth_insert_at by exact B.
  destruct (Nat.ltb_spec i idx); destruct (Nat.ltb_spec j idx); try lia.
  - apply Hs; lia.
  - destruct (Nat.eqb_spec j idx).
    + apply Lo; lia.
    + assert (nth i c 0 < v) by (apply Lo; lia). assert (v < nth (j - 1) c 0) by (apply Hi'; lia). lia.
  - destruct (Nat.eqb_spec i idx); destruct (Nat.eqb_spec j idx); try lia.
    + apply Hi'; lia.
    + apply Hs; lia.
Qed.

(* ------------------------------------------------------------------ the structural invariant *)
Record WF (T : trie) : Prop := {
  wf_root : inT T [] = true;
  wf_prefix : forall w c, inT T (w ++ [c]) = true -> inT T w = true;
  wf_kids : forall w c, In c (kids_of T w) <-> inT T (w ++ [c]) = true;
  wf_sorted : forall w, sorted (kids_of T w);
  wf_nodup : NoDup (map fst T)
}.

Lemma WF_empty : WF empty_trie.
Proof.
  constructor.
  - reflexivity.
  - intros w c H. unfold inT, empty_trie in H. cbn [get] in H. destruct (w ++ [c]) eqn:E; [destruct w; discriminate|discriminate].
  - intros w c. unfold kids_of, inT, empty_trie. cbn [get]. destruct w; cbn [weqb app]; (split; [intros []|discriminate]).
  - intros w i j Hij Hj. unfold kids_of, empty_trie in Hj. cbn [get] in Hj. destruct (weqb [] w); cbn in Hj; lia.
  - cbn. constructor; [intros []|constructor].
Qed.

Lemma snoc_neq_self (w : word) c : w ++ [c] <> w.
Proof. intros E. apply (f_equal (@length Z)) in E. rewrite app_length in E. cbn in E. lia. Qed.
Lemma snoc_inj (a b : word) x y : a ++ [x] = b ++ [y] -> a = b /\ x = y.
Proof. intros E. apply app_inj_tail in E. exact E. Qed.

Lemma kids_of_upd_same T w f : kids_of (upd T w f) w = match get T w with Some n => kids (f n) | None => [] end.
Proof. unfold kids_of. rewrite get_upd_same. destruct (get T w); reflexivity. Qed.
Lemma kids_of_upd_other T w f w' : w <> w' -> kids_of (upd T w f) w' = kids_of T w'.
Proof. intros H. unfold kids_of. rewrite get_upd_other by exact H. reflexivity. Qed.

(* updates that keep the children *)
Lemma WF_upd_keep T w f : (forall n, kids (f n) = kids n) -> WF T -> WF (upd T w f).
Proof.
  intros Hk [R P K S N]. constructor.
  - rewrite inT_upd. exact R.
  - intros v c. rewrite !inT_upd. apply P.
  - intros v c. rewrite inT_upd. rewrite <- K. unfold kids_of. rewrite get_upd.
    destruct (weqb w v); [destruct (get T v); cbn [option_map]; rewrite ?Hk|]; reflexivity.
  - intros v. specialize (S v). unfold kids_of in *. rewrite get_upd.
    destruct (weqb w v); [destruct (get T v); cbn [option_map]; rewrite ?Hk|]; exact S.
  - rewrite upd_keys. exact N.
Qed.

(* adding the missing child r of cur *)
Lemma WF_add_child T cur r sz : WF T -> inT T cur = true -> ~ In r (kids_of T cur) ->
  WF (upd T cur (set_kids (insert_at (find_child_index (kids_of T cur) r) r (kids_of T cur)))
        ++ [(cur ++ [r], mkNode [] None sz false)]).
Proof.
  intros [R P K S N] Hcur Hnin.
  set (ks := kids_of T cur) in *. set (idx := find_child_index ks r).
  set (T1 := upd T cur (set_kids (insert_at idx r ks))).
  set (new := cur ++ [r]).
  assert (Hnew : inT T new = false).
  { destruct (inT T new) eqn:E; [|reflexivity]. exfalso. apply Hnin. apply K. exact E. }
  assert (Hin2 : forall w, inT (T1 ++ [(new, mkNode [] None sz false)]) w = inT T w || weqb new w).
  { intros w. unfold inT at 1. rewrite get_app. unfold T1. rewrite get_upd. fold (inT T w).
    destruct (weqb cur w) eqn:E1.
    - apply weqb_eq in E1. subst w. unfold inT in *. destruct (get T cur); [reflexivity|discriminate].
    - unfold inT. destruct (get T w); [reflexivity|]. destruct (weqb new w); reflexivity. }
  assert (Hk2 : forall w, kids_of (T1 ++ [(new, mkNode [] None sz false)]) w =
                          if weqb cur w then insert_at idx r ks else kids_of T w).
  { intros w. unfold kids_of at 1. rewrite get_app. unfold T1. rewrite get_upd.
    destruct (weqb cur w) eqn:E1.
    - apply weqb_eq in E1. subst w. unfold inT in Hcur. unfold ks, kids_of. destruct (get T cur); [reflexivity|discriminate].
    - unfold kids_of. destruct (get T w) eqn:E2; [reflexivity|]. destruct (weqb new w); reflexivity. }
  constructor.
  - rewrite Hin2, R. reflexivity.
  - intros w c. rewrite !Hin2. intros H. apply orb_true_iff in H. destruct H as [H|H].
    + rewrite (P w c H). reflexivity.
    + apply weqb_eq in H. unfold new in H. apply snoc_inj in H. destruct H as [-> _]. rewrite Hcur. reflexivity.
  - intros w c. rewrite Hk2, Hin2. destruct (weqb cur w) eqn:E1.
    + apply weqb_eq in E1. subst w. rewrite in_insert_at.
      rewrite orb_true_iff, weqb_eq. unfold new. split.
      * intros [->|H]; [right; reflexivity|left; apply K; exact H].
      * intros [H|H]; [right; apply K; exact H|left]. apply snoc_inj in H. symmetry. apply H.
    + rewrite (K w c). rewrite orb_true_iff, weqb_eq. split; [tauto|]. intros [H|H]; [exact H|].
      unfold new in H. apply snoc_inj in H. destruct H as [-> _]. rewrite weqb_refl in E1. discriminate.
  - intros w. rewrite Hk2. destruct (weqb cur w); [|apply S]. apply insert_at_sorted; [apply S|exact Hnin].
  - rewrite map_app. unfold T1. rewrite upd_keys. cbn [map fst].
    assert (Hn : ~ In new (map fst T)) by (apply get_none_keys; unfold inT in Hnew; destruct (get T new); [discriminate|reflexivity]).
    clear -N Hn. induction (map fst T) as [|a l IH]; cbn [app]; [constructor; [intros []|constructor]|].
    inversion N; subst. constructor.
    + rewrite in_app_iff. cbn [In]. intros [H|[H|[]]]; [contradiction|]. subst. apply Hn. left. reflexivity.
    + apply IH; auto. intros H. apply Hn. right. exact H.
Qed.
