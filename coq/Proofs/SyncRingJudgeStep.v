(* C01, refinement model -> judge: one schedule entry of Run.C01.go against the judge's reaction to the tokens it emits. *)
From Coq Require Import List ZArith Lia Bool Arith.
Import ListNotations.
From V Require Import Lib.Enc Model.SyncRingConc Model.SyncRingJudge Proofs.SyncRingConc Proofs.SyncRingConcTop Proofs.SyncRingExcuse
  Run.C01 Proofs.SyncRingJudgeSim Proofs.SyncRingJudgeThread.
Local Open Scope Z_scope.
Arguments Z.add : simpl never.
Arguments Z.sub : simpl never.
Arguments Z.mul : simpl never.
Arguments Z.modulo : simpl never.
Arguments Z.div : simpl never.
Arguments Z.pow : simpl never.
Arguments Z.of_nat : simpl never.
Arguments Z.to_nat : simpl never.

(* ---- Run.C01.go, one entry at a time ---- *)
Definition rt_next (p : pc) (c' : config) (i : nat) (rt1 : rthread) : rthread :=
  if negb (is_idle p) && match nth_error (ths c') i with Some Idle => true | _ => false end
  then match last (map (fun e => Some (snd e)) (hist c')) None with Some r => rt_after rt1 r | None => rt1 end
  else rt1.

Lemma go_cons c rts t rest acc : 0 <= t ->
  go c rts (t :: rest) acc =
  match nth_error (ths c) (Z.to_nat t), nth_error rts (Z.to_nat t) with
  | Some p, Some rt =>
      if is_idle p && r_yield rt
      then go c (updl rts (Z.to_nat t) (rt_unyield rt)) rest (rev_append [t; 1; EvGosched; 0; 0; 0; 0] acc)
      else match rt_start p rt with
           | None => go c rts rest acc
           | Some (o, rt1) =>
               match step c (Z.to_nat t, o) with
               | None => None
               | Some c' => go c' (updl rts (Z.to_nat t) (rt_next p c' (Z.to_nat t) rt1)) rest (rev_append (t :: observe (sh c) p) acc)
               end
           end
  | _, _ => go c rts rest acc
  end.
Proof.
  intros Ht. cbn [go]. destruct (Z.ltb_spec t 0); [lia|].
  destruct (nth_error (ths c) (Z.to_nat t)) as [p|]; [|reflexivity].
  destruct (nth_error rts (Z.to_nat t)) as [rt|]; [|reflexivity].
  unfold rt_start, rt_next, rt_begin, rt_unyield, is_idle.
  destruct p; cbn [negb andb]; try reflexivity.
  destruct (r_yield rt); [reflexivity|].
  destruct (negb (r_wait rt =? 0)); [reflexivity|].
  destruct (r_prog rt) as [|x more]; [reflexivity|].
  destruct (is_wait x); reflexivity.
Qed.

(* ---- the judge, one event at a time ---- *)
Definition jlook (cap : Z) (s : jstate) : jstate :=
  {| j_q := j_q s; j_ths := map (look cap (j_q s)) (j_ths s); j_ok := j_ok s |}.
Inductive jev := JStart (i : nat) | JPlain (i : nat) | JAtomic (i : nat) (ek loc a b res : Z).
Definition jstep (cap : Z) (progs : list (list Z)) (s : jstate) (e : jev) : jstate :=
  match e with
  | JStart i => j_start cap progs s i
  | JPlain _ => s
  | JAtomic i ek loc a b res =>
      if (ek =? EvCasU32) && (res =? 1) && (loc =? LocTail) then j_lp cap (jlook cap s) i true
      else if (ek =? EvCasU32) && (res =? 1) && (loc =? LocHead) then j_lp cap (jlook cap s) i false
      else jlook cap s
  end.
Definition enc_jev (e : jev) : list Z :=
  match e with
  | JStart i => [Z.of_nat i; 0]
  | JPlain i => [Z.of_nat i; 2]
  | JAtomic i ek loc a b res => [Z.of_nat i; 1; ek; loc; a; b; res]
  end.

Lemma nth_error_map_upd_ne {A B} (f : A -> B) l i j x : j <> i -> nth_error (map f (upd l i x)) j = nth_error (map f l) j.
Proof. intros H. rewrite !nth_error_map, nth_error_upd_ne by auto. reflexivity. Qed.
Lemma nth_error_map_upd_eq {A B} (f : A -> B) l i x y : nth_error l i = Some y -> nth_error (map f (upd l i x)) i = Some (f x).
Proof. intros H. rewrite nth_error_map, (nth_error_upd_len _ _ _ _ H). reflexivity. Qed.

Lemma TRmid_cur cap p rt t prog r : TRmid cap p rt t prog r -> t_cur t = Some r.
Proof. intros (? & _ & _ & _ & E & _). exact E. Qed.
Lemma TRmid_rec cap p rt t prog r : TRmid cap p rt t prog r -> rec_pc r p.
Proof. intros (? & _ & _ & _ & _ & E & _). exact E. Qed.
Lemma TRmid_wait cap p rt t prog r : TRmid cap p rt t prog r -> o_wait r = negb (r_wait rt =? 0).
Proof. intros (? & _ & _ & _ & _ & _ & E & _). exact E. Qed.

Lemma TR_mid_intro cap s p rt t prog r : TRmid cap p rt t prog r -> (o_excuse r = true \/ fresh s p r) -> TR cap s p rt t prog.
Proof.
  intros HM HF. split; [eapply TRmid_intro; eauto|]. intros r' Hr'. rewrite (TRmid_cur _ _ _ _ _ _ HM) in Hr'.
  inversion Hr'; subst. exact HF.
Qed.
Lemma TR_idle_intro cap s rt t prog : TRcore cap Idle rt t prog -> TR cap s Idle rt t prog.
Proof. intros H. split; auto. intros r _. right. exact I. Qed.

Lemma TR_mid_elim cap s p rt t prog : TR cap s p rt t prog -> p <> Idle ->
  exists r, TRmid cap p rt t prog r /\ (o_excuse r = true \/ fresh s p r).
Proof.
  intros [HC HF] Hp. destruct (TRmid_elim _ _ _ _ _ Hp HC) as (r & HM). exists r. split; auto.
  apply HF. eapply TRmid_cur; eauto.
Qed.

Lemma look_mid cap s p rt ti prog q0 : TR cap s p rt ti prog -> p <> Idle ->
  exists r1, TRmid cap p rt (look cap q0 ti) prog r1 /\ (o_excuse r1 = true \/ fresh s p r1) /\
             (boundary_now cap q0 r1 = true -> o_excuse r1 = true).
Proof.
  intros HT Hp. pose proof (TR_ext _ _ _ _ _ _ _ HT (ext_look cap q0 ti)) as HT'.
  destruct (TR_mid_elim _ _ _ _ _ _ HT' Hp) as (r1 & HM & HF). exists r1. split; [exact HM|]. split; [exact HF|].
  pose proof (TRmid_cur _ _ _ _ _ _ HM) as E1. unfold look in E1. destruct (t_cur ti) as [r|] eqn:Er.
  - destruct (boundary_now cap q0 r) eqn:Eb; cbn [t_cur] in E1.
    + inversion E1; subst. intros _. reflexivity.
    + rewrite Er in E1. inversion E1; subst. intros X. congruence.
  - rewrite Er in E1. discriminate.
Qed.

Lemma Einv_other l i j ti tj r rj :
  Einv l -> i <> j -> nth_error l i = Some ti -> t_cur ti = Some r -> nth_error l j = Some tj -> t_cur tj = Some rj -> o_excuse r = true.
Proof.
  intros [HA|(i0 & HS)] Hij Hi Hr Hj Hrj.
  - exact (HA i ti r Hi Hr).
  - destruct (Nat.eq_dec i i0) as [->|Hne].
    + rewrite (HS j tj) in Hrj by auto. discriminate.
    + rewrite (HS i ti) in Hr by auto. discriminate.
Qed.

Lemma Einv_upd l i ti ti' r r' :
  Einv l -> nth_error l i = Some ti -> t_cur ti = Some r -> t_cur ti' = Some r' -> (o_excuse r = true -> o_excuse r' = true) ->
  Einv (upd l i ti').
Proof.
  intros [HA|(i0 & HS)] Hi Hr Hr' Himp.
  - left. intros j t x Hj Hx. apply nth_error_upd_cases in Hj. destruct Hj as [[-> ->]|[Hne Hj]].
    + rewrite Hr' in Hx. inversion Hx; subst. apply Himp. exact (HA i ti r Hi Hr).
    + exact (HA j t x Hj Hx).
  - right. exists i0. intros j t Hne Hj. apply nth_error_upd_cases in Hj. destruct Hj as [[-> ->]|[Hne' Hj]].
    + rewrite (HS i ti) in Hr by auto. discriminate.
    + eapply HS; eauto.
Qed.

Lemma SIM_atomic k progs s pcs rts js i p s' p' rt' ti :
  SIM k progs s pcs rts js -> nth_error pcs i = Some p -> nth_error (j_ths js) i = Some ti -> same_view s s' ->
  TR (2 ^ k) s' p' rt' (look (2 ^ k) (j_q js) ti) (nth i progs []) ->
  SIM k progs s' (upd pcs i p') (updl rts i rt') (jlook (2 ^ k) js).
Proof.
  intros H Hi Hti Hv HT. pose proof (sim_q _ _ _ _ _ _ H) as Hq. pose proof (sim_ok _ _ _ _ _ _ H) as Hok.
  destruct js as [jq jths jok]. cbn [j_q j_ths j_ok] in *. subst jq jok. unfold jlook. cbn [j_q j_ths j_ok].
  replace (q s) with (q s') at 1 by (destruct Hv as (_ & _ & E & _); exact E).
  eapply SIM_step; eauto; cbn [j_ths].
  - apply map_length.
  - intros j t' Hne Hj. rewrite nth_error_map in Hj. destruct (nth_error jths j) as [tj|] eqn:Ej; [|discriminate].
    inversion Hj; subst. exists tj. split; auto. apply ext_look.
  - rewrite nth_error_map, Hti. reflexivity.
  - eapply Einv_lext; [apply (sim_e _ _ _ _ _ _ H)|]. cbn [j_ths]. apply lext_map. intros; apply ext_look.
Qed.

Lemma SIM_plain k progs s pcs rts js i p s' p' rt' ti :
  SIM k progs s pcs rts js -> nth_error pcs i = Some p -> nth_error (j_ths js) i = Some ti -> same_view s s' ->
  TR (2 ^ k) s' p' rt' ti (nth i progs []) ->
  SIM k progs s' (upd pcs i p') (updl rts i rt') js.
Proof.
  intros H Hi Hti Hv HT. pose proof (sim_q _ _ _ _ _ _ H) as Hq. pose proof (sim_ok _ _ _ _ _ _ H) as Hok.
  destruct js as [jq jths jok]. cbn [j_q j_ths j_ok] in *. subst jq jok.
  replace (q s) with (q s') at 1 by (destruct Hv as (_ & _ & E & _); exact E).
  eapply SIM_step; eauto; cbn [j_ths].
  - intros j t' Hne Hj. exists t'. split; auto. apply ext_refl.
  - apply (sim_e _ _ _ _ _ _ H).
Qed.

(* others in flight while thread i is in flight: all excused *)
Lemma others_excused l i ti r :
  Einv l -> nth_error l i = Some ti -> t_cur ti = Some r ->
  forall j t' r', j <> i -> nth_error l j = Some t' -> t_cur t' = Some r' -> o_excuse r' = true.
Proof. intros HE Hi Hr j t' r' Hne Hj Hr'. exact (Einv_other l j i t' ti r' r HE Hne Hj Hr' Hi Hr). Qed.

(* ---- linearisation point of Push ---- *)
Lemma SIM_lp_push k progs s pcs rts js i v pos seq T0 rt ti s' p' :
  SIM k progs s pcs rts js -> nth_error pcs i = Some (PuCas v pos seq T0) ->
  nth_error rts i = Some rt -> nth_error (j_ths js) i = Some ti ->
  q s' = q s ++ [v] -> Z.of_nat (length (q s)) < 2 ^ k ->
  (forall r, o_push r = true -> o_lp r = true -> rec_pc r p') -> (forall r, fresh s' p' r) ->
  SIM k progs s' (upd pcs i p') (updl rts i rt) (j_lp (2 ^ k) (jlook (2 ^ k) js) i true).
Proof.
  intros H Hi Hrt Hti Hq' Hroom Hrec Hfresh.
  pose proof (sim_q _ _ _ _ _ _ H) as Hq. pose proof (sim_ok _ _ _ _ _ _ H) as Hok. pose proof (sim_e _ _ _ _ _ _ H) as HE.
  pose proof (sim_tr _ _ _ _ _ _ H i _ _ _ Hi Hrt Hti) as HT.
  destruct js as [jq jths jok]. cbn [j_q j_ths j_ok] in *. subst jq jok.
  destruct (look_mid _ _ _ _ _ _ (q s) HT ltac:(discriminate)) as (r1 & HM & HF & HB).
  pose proof (TRmid_cur _ _ _ _ _ _ HM) as Hc1. pose proof (TRmid_rec _ _ _ _ _ _ HM) as Hr1. cbn [rec_pc] in Hr1.
  destruct Hr1 as (Rp & Rv & Rn & Rl).
  unfold j_lp, jlook. cbn [j_q j_ths j_ok]. rewrite nth_error_map, Hti. cbn [option_map]. rewrite Hc1, Rp, Rl. cbn [Bool.eqb negb orb].
  rewrite Rv. destruct (Z.ltb_spec (Z.of_nat (length (q s))) (2 ^ k)) as [_|]; [|lia]. cbn [andb].
  rewrite <- Hq'. rewrite updn_upd.
  set (r' := {| o_push := true; o_val := v; o_lp := true; o_got := 0; o_excuse := o_excuse r1; o_wait := o_wait r1; o_left := o_left r1 |}).
  set (l1 := map (look (2 ^ k) (q s)) jths).
  set (ti1 := look (2 ^ k) (q s) ti) in *.
  assert (Hl1 : nth_error l1 i = Some ti1) by (unfold l1; rewrite nth_error_map, Hti; reflexivity).
  assert (HE1 : Einv l1) by (eapply Einv_lext; [exact HE|apply lext_map; intros; apply ext_look]).
  set (ti2 := {| t_next := t_next ti1; t_cur := Some r'; t_done := t_done ti1 |}).
  assert (HE2 : Einv (upd l1 i ti2)) by exact (Einv_upd l1 i ti1 ti2 r1 r' HE1 Hl1 Hc1 eq_refl (fun x => x)).
  assert (HE3 : Einv (map (look (2 ^ k) (q s')) (upd l1 i ti2))) by (eapply Einv_lext; [exact HE2|apply lext_map; intros; apply ext_look]).
  assert (Hi3 : nth_error (map (look (2 ^ k) (q s')) (upd l1 i ti2)) i = Some (look (2 ^ k) (q s') ti2)) by (eapply nth_error_map_upd_eq; eauto).
  eapply SIM_step; eauto; cbn [j_ths].
  - rewrite map_length, upd_length. unfold l1. apply map_length.
  - intros j t' Hne Hj. rewrite nth_error_map_upd_ne in Hj by auto. rewrite nth_error_map in Hj. unfold l1 in Hj. rewrite nth_error_map in Hj.
    destruct (nth_error jths j) as [tj|] eqn:Ej; [|discriminate]. inversion Hj; subst. exists tj. split; auto.
    eapply ext_trans; apply ext_look.
  - apply (TR_ext _ _ _ _ ti2); [|apply ext_look]. apply (TR_mid_intro _ _ _ _ _ _ r'); [|right; apply Hfresh].
    apply (TRmid_lp _ _ _ _ _ _ _ _ HM); try reflexivity.
    + apply Hrec; reflexivity.
    + unfold att_ok. destruct (attempt_of (r_wait rt)); unfold r'; cbn [o_push o_val]; auto.
      * intros (_ & X & Y). repeat split; auto. congruence.
      * intros [X _]. congruence.
  - right. assert (Hc3 : t_cur (look (2 ^ k) (q s') ti2) = Some r' \/ t_cur (look (2 ^ k) (q s') ti2) = Some (set_excuse r')).
    { pose proof (ext_look (2 ^ k) (q s') ti2) as (_ & _ & X). exact X. }
    intros j t' rj Hne Hj Hrj. destruct Hc3 as [Hc3|Hc3]; eapply (others_excused _ i _ _ HE3 Hi3 Hc3); eauto.
Qed.

(* ---- linearisation point of Pop ---- *)
Lemma SIM_lp_pop k progs s pcs rts js i pos seq H0 rt ti s' p' x qt :
  SIM k progs s pcs rts js -> nth_error pcs i = Some (PoCas pos seq H0) ->
  nth_error rts i = Some rt -> nth_error (j_ths js) i = Some ti ->
  q s = x :: qt -> q s' = qt ->
  (forall r, o_push r = false -> o_lp r = true -> o_got r = x -> rec_pc r p') -> (forall r, fresh s' p' r) ->
  SIM k progs s' (upd pcs i p') (updl rts i rt) (j_lp (2 ^ k) (jlook (2 ^ k) js) i false).
Proof.
  intros H Hi Hrt Hti Hqs Hq' Hrec Hfresh.
  pose proof (sim_q _ _ _ _ _ _ H) as Hq. pose proof (sim_ok _ _ _ _ _ _ H) as Hok. pose proof (sim_e _ _ _ _ _ _ H) as HE.
  pose proof (sim_tr _ _ _ _ _ _ H i _ _ _ Hi Hrt Hti) as HT.
  destruct js as [jq jths jok]. cbn [j_q j_ths j_ok] in *. subst jq jok.
  destruct (look_mid _ _ _ _ _ _ (q s) HT ltac:(discriminate)) as (r1 & HM & HF & HB).
  pose proof (TRmid_cur _ _ _ _ _ _ HM) as Hc1. pose proof (TRmid_rec _ _ _ _ _ _ HM) as Hr1. cbn [rec_pc] in Hr1.
  destruct Hr1 as (Rp & Rv & Rl).
  unfold j_lp, jlook. cbn [j_q j_ths j_ok]. rewrite nth_error_map, Hti. cbn [option_map]. rewrite Hc1, Rp, Rl. cbn [Bool.eqb negb orb].
  rewrite Hqs at 1. rewrite <- Hq'. rewrite updn_upd.
  set (r' := {| o_push := false; o_val := 0; o_lp := true; o_got := x; o_excuse := o_excuse r1; o_wait := o_wait r1; o_left := o_left r1 |}).
  set (l1 := map (look (2 ^ k) (q s)) jths).
  set (ti1 := look (2 ^ k) (q s) ti) in *.
  assert (Hl1 : nth_error l1 i = Some ti1) by (unfold l1; rewrite nth_error_map, Hti; reflexivity).
  assert (HE1 : Einv l1) by (eapply Einv_lext; [exact HE|apply lext_map; intros; apply ext_look]).
  set (ti2 := {| t_next := t_next ti1; t_cur := Some r'; t_done := t_done ti1 |}).
  assert (HE2 : Einv (upd l1 i ti2)) by exact (Einv_upd l1 i ti1 ti2 r1 r' HE1 Hl1 Hc1 eq_refl (fun x => x)).
  assert (HE3 : Einv (map (look (2 ^ k) (q s')) (upd l1 i ti2))) by (eapply Einv_lext; [exact HE2|apply lext_map; intros; apply ext_look]).
  assert (Hi3 : nth_error (map (look (2 ^ k) (q s')) (upd l1 i ti2)) i = Some (look (2 ^ k) (q s') ti2)) by (eapply nth_error_map_upd_eq; eauto).
  eapply SIM_step; eauto; cbn [j_ths].
  - rewrite map_length, upd_length. unfold l1. apply map_length.
  - intros j t' Hne Hj. rewrite nth_error_map_upd_ne in Hj by auto. rewrite nth_error_map in Hj. unfold l1 in Hj. rewrite nth_error_map in Hj.
    destruct (nth_error jths j) as [tj|] eqn:Ej; [|discriminate]. inversion Hj; subst. exists tj. split; auto.
    eapply ext_trans; apply ext_look.
  - apply (TR_ext _ _ _ _ ti2); [|apply ext_look]. apply (TR_mid_intro _ _ _ _ _ _ r'); [|right; apply Hfresh].
    apply (TRmid_lp _ _ _ _ _ _ _ _ HM); try reflexivity.
    + apply Hrec; reflexivity.
    + unfold att_ok. destruct (attempt_of (r_wait rt)); unfold r'; cbn [o_push o_val]; auto.
      * intros [X _]. congruence.
      * intros _. split; [reflexivity|lia].
  - right. assert (Hc3 : t_cur (look (2 ^ k) (q s') ti2) = Some r' \/ t_cur (look (2 ^ k) (q s') ti2) = Some (set_excuse r')).
    { pose proof (ext_look (2 ^ k) (q s') ti2) as (_ & _ & X). exact X. }
    intros j t' rj Hne Hj Hrj. destruct Hc3 as [Hc3|Hc3]; eapply (others_excused _ i _ _ HE3 Hi3 Hc3); eauto.
Qed.

(* ---- operation start ---- *)
Definition jv (x : Z) : Z :=
  if 2000000 <=? x then (x - 2000000) mod 10000 else if 1000000 <=? x then x - 1000000
  else if (x =? -10) || (x <=? -100) then 0 else x.
Lemma op_class x : wf_op x = true ->
  match (if is_wait x then attempt_of x else dec_op x) with
  | OpPush w => jv x = w /\ 0 < w
  | OpPop => jv x = 0
  | OpObs k => jv x = obs_code k /\ is_wait x = false
  end.
Proof.
  unfold wf_op, is_wait, attempt_of, dec_op, jv. intros H.
  rewrite !orb_true_iff, !andb_true_iff in H.
  rewrite ?Z.eqb_eq, ?Z.ltb_lt, ?Z.leb_le in H.
  repeat (match goal with
          | |- context [Z.leb ?a ?b] => destruct (Z.leb_spec a b)
          | |- context [Z.ltb ?a ?b] => destruct (Z.ltb_spec a b)
          | |- context [Z.eqb ?a ?b] => destruct (Z.eqb_spec a b)
          end; try lia); cbn [orb obs_code]; try (split; [reflexivity|lia]); try lia; try reflexivity.
  all: try (split; [lia|reflexivity]).
Qed.

Lemma existsb_false_nth {A} (f : A -> bool) l j a : existsb f l = false -> nth_error l j = Some a -> f a = false.
Proof.
  intros H Hj. destruct (f a) eqn:E; auto. assert (existsb f l = true) by (apply existsb_exists; exists a; split; auto; eapply nth_error_In; eauto).
  congruence.
Qed.
Lemma look_excuse_all cap q0 t r : t_cur (look cap q0 (excuse_all t)) = Some r -> o_excuse r = true.
Proof.
  unfold look, excuse_all. destruct (t_cur t) as [r0|] eqn:E; cbn [t_cur].
  - destruct (boundary_now cap q0 (set_excuse r0)); cbn [t_cur]; intros X; inversion X; reflexivity.
  - rewrite E. cbv iota. rewrite E. discriminate.
Qed.

Lemma SIM_begin k progs s pcs rts js i rt ti x more :
  SIM k progs s pcs rts js -> nth_error pcs i = Some Idle -> nth_error rts i = Some rt -> nth_error (j_ths js) i = Some ti ->
  r_wait rt = 0 -> r_prog rt = x :: more -> wf_op x = true -> cap s = 2 ^ k ->
  SIM k progs s (upd pcs i (start_pc (if is_wait x then attempt_of x else dec_op x))) (updl rts i (rt_begin rt x more))
      (j_start (2 ^ k) progs js i).
Proof.
  intros H Hi Hrt Hti Hw Hp Hwf Hcap.
  pose proof (sim_q _ _ _ _ _ _ H) as Hq. pose proof (sim_ok _ _ _ _ _ _ H) as Hok. pose proof (sim_e _ _ _ _ _ _ H) as HE.
  pose proof (sim_tr _ _ _ _ _ _ H i _ _ _ Hi Hrt Hti) as [HC HF].
  destruct js as [jq jths jok]. cbn [j_q j_ths j_ok] in *. subst jq jok.
  pose (others := existsb in_flight (updn jths i (finish ti))).
  pose (rnew := {| o_push := 0 <? jv x; o_val := jv x; o_lp := false; o_got := obs_exact (2 ^ k) (q s) (jv x); o_excuse := others;
                   o_wait := is_wait x; o_left := tries_of x |}).
  pose proof (op_class x Hwf) as Hcl.
  assert (Hrec : rec_pc rnew (start_pc (if is_wait x then attempt_of x else dec_op x)) /\
                 (is_wait x = true -> match attempt_of x with
                       | OpPush v => o_push rnew = true /\ o_val rnew = v /\ 0 <= v
                       | OpPop => o_push rnew = false /\ 0 <= o_val rnew
                       | OpObs _ => False end) /\
                 fresh s (start_pc (if is_wait x then attempt_of x else dec_op x)) rnew).
  { destruct (is_wait x) eqn:Ew.
    - destruct (attempt_of x) as [w| |k0]; cbn [start_pc rec_pc rnew o_push o_val o_lp o_wait fresh].
      + destruct Hcl as [-> Hpos]. destruct (Z.ltb_spec 0 w); [|lia]. repeat split; auto; lia.
      + rewrite Hcl. repeat split; auto; lia.
      + destruct Hcl as [_ X]. discriminate.
    - destruct (dec_op x) as [w| |k0]; cbn [start_pc rec_pc rnew o_push o_val o_lp o_wait o_got fresh].
      + destruct Hcl as [-> Hpos]. destruct (Z.ltb_spec 0 w); [|lia]. repeat split; auto; try lia; discriminate.
      + rewrite Hcl. repeat split; auto; try lia; discriminate.
      + destruct Hcl as [-> _]. rewrite Hcap. repeat split; auto; try discriminate. destruct k0; reflexivity. }
  destruct Hrec as (Hrec & Hatt & Hfr).
  destruct (TRcore_begin _ _ _ _ x more rnew HC Hw Hp Hrec eq_refl eq_refl Hatt) as (Hnr & Hnth & HM).
  set (t' := {| t_next := S (t_next (finish ti)); t_cur := Some rnew; t_done := t_done (finish ti) |}) in *.
  unfold j_start. cbn [j_q j_ths j_ok]. rewrite Hti, Hnr. cbv zeta. rewrite Hnth.
  change (SIM k progs s (upd pcs i (start_pc (if is_wait x then attempt_of x else dec_op x))) (updl rts i (rt_begin rt x more))
            {| j_q := q s; j_ths := map (look (2 ^ k) (q s)) (if others then map excuse_all (updn jths i t') else updn jths i t'); j_ok := true |}).
  rewrite updn_upd.
  assert (HTi : TR (2 ^ k) s (start_pc (if is_wait x then attempt_of x else dec_op x)) (rt_begin rt x more) t' (nth i progs []))
    by (eapply TR_mid_intro; [exact HM|right; exact Hfr]).
  eapply SIM_step with (ti' := look (2 ^ k) (q s) (if others then excuse_all t' else t')); eauto; cbn [j_ths].
  - rewrite map_length. destruct others; rewrite ?map_length, upd_length; reflexivity.
  - intros j t'' Hne Hj. rewrite nth_error_map in Hj. destruct others.
    + rewrite nth_error_map, nth_error_upd_ne in Hj by auto. destruct (nth_error jths j) as [tj|]; [|discriminate].
      inversion Hj; subst. exists tj. split; auto. eapply ext_trans; [apply ext_excuse_all|apply ext_look].
    + rewrite nth_error_upd_ne in Hj by auto. destruct (nth_error jths j) as [tj|]; [|discriminate].
      inversion Hj; subst. exists tj. split; auto. apply ext_look.
  - rewrite nth_error_map. destruct others.
    + rewrite nth_error_map, (nth_error_upd_len _ _ _ _ Hti). reflexivity.
    + rewrite (nth_error_upd_len _ _ _ _ Hti). reflexivity.
  - eapply TR_ext; [exact HTi|]. destruct others; [eapply ext_trans; [apply ext_excuse_all|apply ext_look]|apply ext_look].
  - destruct others eqn:Eo.
    + left. intros j t0 r0 Hj Hr0. rewrite !nth_error_map in Hj.
      destruct (nth_error (upd jths i t') j) as [tj|]; [|discriminate]. inversion Hj; subst. eapply look_excuse_all; eauto.
    + right. exists i. intros j t0 Hne Hj. rewrite nth_error_map, nth_error_upd_ne in Hj by auto.
      destruct (nth_error jths j) as [tj|] eqn:Ej; [|discriminate]. inversion Hj; subst.
      apply (ext_cur_none tj); [apply ext_look|].
      assert (X : in_flight tj = false).
      { apply (existsb_false_nth _ _ j _ Eo). rewrite updn_upd, nth_error_upd_ne by auto. exact Ej. }
      unfold in_flight in X. destruct (t_cur tj); [discriminate|reflexivity].
  - left. repeat split.
Qed.

Lemma SIM_retry k progs s pcs rts js i rt ti :
  SIM k progs s pcs rts js -> nth_error pcs i = Some Idle -> nth_error rts i = Some rt -> nth_error (j_ths js) i = Some ti ->
  r_wait rt <> 0 ->
  SIM k progs s (upd pcs i (start_pc (attempt_of (r_wait rt)))) (updl rts i rt) (j_start (2 ^ k) progs js i).
Proof.
  intros H Hi Hrt Hti Hw.
  pose proof (sim_q _ _ _ _ _ _ H) as Hq. pose proof (sim_ok _ _ _ _ _ _ H) as Hok. pose proof (sim_e _ _ _ _ _ _ H) as HE.
  pose proof (sim_tr _ _ _ _ _ _ H i _ _ _ Hi Hrt Hti) as [HC HF].
  destruct js as [jq jths jok]. cbn [j_q j_ths j_ok] in *. subst jq jok.
  destruct (t_cur ti) as [r|] eqn:Hc.
  2:{ destruct HC as (? & ? & _ & _ & _ & X). rewrite Hc in X. destruct X as (_ & X & _). contradiction. }
  destruct (TRcore_retry _ _ _ _ r HC Hw Hc) as (Hcond & HM).
  assert (Hfr : fresh s (start_pc (attempt_of (r_wait rt))) (retry_rec r)).
  { destruct HM as (? & _ & _ & _ & _ & _ & _ & X). destruct (X Hw) as [_ Y]. unfold att_ok in Y.
    destruct (attempt_of (r_wait rt)); cbn [start_pc fresh]; auto. contradiction. }
  unfold j_start. cbn [j_q j_ths j_ok]. rewrite Hti, Hc, Hcond. rewrite updn_upd.
  change (SIM k progs s (upd pcs i (start_pc (attempt_of (r_wait rt)))) (updl rts i rt)
            {| j_q := q s; j_ths := upd jths i {| t_next := t_next ti; t_cur := Some (retry_rec r); t_done := t_done ti |}; j_ok := true |}).
  eapply SIM_step; eauto; cbn [j_ths].
  - apply upd_length.
  - intros j t' Hne Hj. rewrite nth_error_upd_ne in Hj by auto. exists t'. split; auto. apply ext_refl.
  - eapply nth_error_upd_len; eauto.
  - eapply TR_mid_intro; [exact HM|right; exact Hfr].
  - exact (Einv_upd jths i ti {| t_next := t_next ti; t_cur := Some (retry_rec r); t_done := t_done ti |} r (retry_rec r) HE Hti Hc eq_refl (fun x => x)).
  - left. repeat split.
Qed.
