(* C16: on every case of the correspondence run, model output (sub 0) = specification output (sub 1) *)
From Coq Require Import List ZArith NArith Bool.
From V Require Import Lib.Enc Model.Bits Proofs.BitsRefine.
From V Require Run.C16.
Import ListNotations.
Local Open Scope Z_scope.

Theorem c16_entry_eq args : C16.entry 0 args = C16.entry 1 args.
Proof.
  unfold C16.entry. destruct args as [|k r]; [reflexivity|].
  destruct (C16.dec_ops (length r) r) as [ops|]; [|reflexivity]. cbn. apply bits_refines_set.
Qed.
Print Assumptions c16_entry_eq.
