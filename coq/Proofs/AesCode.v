(* C08 — the code GENERATED from cryptz/aes.go (coq/Gen/AesCode.v, written by gen/trans.go + gen/trans_ext08.go on every
   run) is equal to the hand-written model of Model/Aes.v, function by function, for all arguments.
   The generated functions take the Go standard library as the parameter [ext' : Foreign]; it is instantiated with
   [std E D seal open] (Run/C08Code.v): what Model/Aes.v says about crypto/aes, crypto/cipher, bytes.Repeat / Equal, with the
   AES block functions and the AEAD as quantified variables.  The buffer functions are compared at the model's functional
   level (dst, src: separate values; Props/C08.v c08_alias_* tie that level to the memory level the run executes).
   Proof style: unfold both sides completely, normalise the slice / copy / index primitives with rewriting lemmas whose
   side conditions are discharged by lia, case analysis on every condition (innermost first), lia / congruence.  No step
   depends on the order of statements, the polarity of a condition or the names of locals; helper functions that appear
   in the source are unfolded through the hint database go2v. *)
From Coq Require Import List ZArith Lia Bool Arith ZifyNat ZifyBool.
From V Require Import Lib.Enc Lib.GoSem Lib.GoSemRec Proofs.GoSemFacts Gen.Cryptz Gen.AesCode Model.Aes Proofs.AesPkcs7 Proofs.AesCbc Run.C08 Run.C08Code.
Import ListNotations.
Local Open Scope Z_scope.
Arguments Z.mul : simpl never.
Arguments Z.add : simpl never.
Arguments Z.sub : simpl never.
Arguments Z.rem : simpl never.
Arguments Z.modulo : simpl never.
Arguments Z.land : simpl never.
Arguments Z.pow : simpl never.
Arguments Nat.modulo : simpl never.

(* ---- list / integer facts *)
Lemma concat_repeat1 (x : Z) n : concat (repeat [x] n) = repeat x n.
Proof. induction n as [|n IH]; cbn [repeat concat app]; [reflexivity|]. rewrite IH. reflexivity. Qed.
Lemma rem_nat a b : 0 < b -> Z.rem (Z.of_nat a) b = Z.of_nat (a mod Z.to_nat b).
Proof.
  intros Hb. rewrite Z.rem_mod_nonneg by lia. rewrite Nat2Z.inj_mod, Z2Nat.id by lia. reflexivity.
Qed.
Lemma get_last (d : list Z) : d <> [] -> get_at d (Z.of_nat (length d) - 1) = Some (last d 0).
Proof.
  intros Hd. destruct (exists_last Hd) as (p & x & ->). rewrite app_length. cbn [length].
  replace (Z.of_nat (length p + 1) - 1) with (Z.of_nat (length p)) by lia.
  unfold get_at. destruct (Z.leb_spec 0 (Z.of_nat (length p))); [|lia]. rewrite Nat2Z.id.
  rewrite nth_error_app2, Nat.sub_diag by lia. rewrite last_last. reflexivity.
Qed.
Lemma slice_suffix (d : list Z) k : 0 <= k <= Z.of_nat (length d) -> slice d (Z.of_nat (length d) - k) (Z.of_nat (length d)) = Some (skipn (length d - Z.to_nat k) d).
Proof.
  intros Hk. unfold slice.
  destruct (Z.leb_spec 0 (Z.of_nat (length d) - k)); [|lia].
  destruct (Z.leb_spec (Z.of_nat (length d) - k) (Z.of_nat (length d))); [|lia].
  rewrite Z.leb_refl. cbn [andb]. rewrite Nat2Z.id.
  replace (Z.to_nat (Z.of_nat (length d) - k)) with (length d - Z.to_nat k)%nat by lia.
  rewrite firstn_all2 by (rewrite skipn_length; lia). reflexivity.
Qed.
Lemma slice_suffix_none (d : list Z) k : Z.of_nat (length d) < k -> slice d (Z.of_nat (length d) - k) (Z.of_nat (length d)) = None.
Proof. intros Hk. unfold slice. destruct (Z.leb_spec 0 (Z.of_nat (length d) - k)); [lia|]. reflexivity. Qed.
Lemma slice_prefix (d : list Z) b : 0 <= b <= Z.of_nat (length d) -> slice d 0 b = Some (firstn (Z.to_nat b) d).
Proof.
  intros Hb. unfold slice. cbn [Z.leb andb].
  destruct (Z.leb_spec 0 b); [|lia]. destruct (Z.leb_spec b (Z.of_nat (length d))); [|lia].
  cbn [andb Z.to_nat skipn]. rewrite Nat.sub_0_r. reflexivity.
Qed.
Lemma wrap8 x : wrap 8 x = x mod 256.
Proof. reflexivity. Qed.


Lemma beq_false a b : beq a b = false <-> a <> b.
Proof. split; intros H. - intros Eq. apply beq_true in Eq. congruence. - destruct (beq a b) eqn:Eb; [apply beq_true in Eb; contradiction|reflexivity]. Qed.
Lemma land15 x : 0 <= x -> Z.land x 15 = x mod 16.
Proof. intros H. change 15 with (Z.ones 4). rewrite Z.land_ones by lia. reflexivity. Qed.
Lemma masked_Z n : Z.of_nat (masked n) = Z.land (Z.of_nat n) 15.
Proof. unfold masked. change block_size_mask with 15. rewrite Z2Nat.id; [reflexivity|]. apply Z.land_nonneg. lia. Qed.

Lemma land15_nat n : Z.land (Z.of_nat n) 15 = Z.of_nat (n mod 16).
Proof. rewrite land15 by lia. rewrite Nat2Z.inj_mod. reflexivity. Qed.
Lemma rem16_nat n : Z.rem (Z.of_nat n) 16 = Z.of_nat (n mod 16).
Proof. rewrite rem_nat by lia. reflexivity. Qed.
Lemma to_nat_sub_nat a k : Z.to_nat (Z.of_nat a - Z.of_nat k) = (a - k)%nat.
Proof. lia. Qed.
Lemma to_nat_16_sub k : Z.to_nat (16 - Z.of_nat k) = (16 - k)%nat.
Proof. lia. Qed.
Lemma m_copy_tail_none dst k src : (length dst < k)%nat -> m_copy dst (Z.of_nat k) (Z.of_nat (length dst)) src = GoSem.Panic.
Proof.
  intros H. unfold m_copy, slice. destruct (Z.leb_spec 0 (Z.of_nat k)); [|lia].
  destruct (Z.leb_spec (Z.of_nat k) (Z.of_nat (length dst))); [lia|]. reflexivity.
Qed.

Lemma m_copy_tail_gen d k n src : n = length d -> (k <= n)%nat ->
  m_copy d (Z.of_nat k) (Z.of_nat n) src = Ret (firstn k d ++ gocopy (skipn k d) src, Z.of_nat (Nat.min (n - k) (length src))).
Proof. intros -> H. apply m_copy_tail. exact H. Qed.
Lemma m_copy_tail_none_gen d k n src : n = length d -> (n < k)%nat -> m_copy d (Z.of_nat k) (Z.of_nat n) src = GoSem.Panic.
Proof. intros -> H. apply m_copy_tail_none. exact H. Qed.

Lemma length_nonempty (d : list Z) : (0 < length d)%nat -> d <> [].
Proof. destruct d; cbn [length]; [lia|discriminate]. Qed.

Lemma slice_suffix_gen (d : list Z) n k : n = length d -> 0 <= k <= Z.of_nat n ->
  slice d (Z.of_nat n - k) (Z.of_nat n) = Some (skipn (n - Z.to_nat k) d).
Proof. intros -> H. apply slice_suffix. exact H. Qed.
Lemma slice_suffix_none_gen (d : list Z) n k : n = length d -> Z.of_nat n < k -> slice d (Z.of_nat n - k) (Z.of_nat n) = None.
Proof. intros -> H. apply slice_suffix_none. exact H. Qed.
Lemma slice_prefix_gen (d : list Z) n b : n = length d -> 0 <= b <= Z.of_nat n -> slice d 0 b = Some (firstn (Z.to_nat b) d).
Proof. intros -> H. apply slice_prefix. exact H. Qed.

(* booleans in the context -> propositions *)
Ltac boolp :=
  repeat match goal with
  | H : Z.eqb _ _ = true |- _ => apply Z.eqb_eq in H
  | H : Z.eqb _ _ = false |- _ => apply Z.eqb_neq in H
  | H : Z.leb _ _ = true |- _ => apply Z.leb_le in H
  | H : Z.leb _ _ = false |- _ => apply Z.leb_gt in H
  | H : Z.ltb _ _ = true |- _ => apply Z.ltb_lt in H
  | H : Z.ltb _ _ = false |- _ => apply Z.ltb_ge in H
  | H : Nat.eqb _ _ = true |- _ => apply Nat.eqb_eq in H
  | H : Nat.eqb _ _ = false |- _ => apply Nat.eqb_neq in H
  | H : Nat.leb _ _ = true |- _ => apply Nat.leb_le in H
  | H : Nat.leb _ _ = false |- _ => apply Nat.leb_gt in H
  | H : Nat.ltb _ _ = true |- _ => apply Nat.ltb_lt in H
  | H : Nat.ltb _ _ = false |- _ => apply Nat.ltb_ge in H
  | H : negb _ = true |- _ => apply negb_true_iff in H
  | H : negb _ = false |- _ => apply negb_false_iff in H
  | H : orb _ _ = true |- _ => apply orb_true_iff in H
  | H : orb _ _ = false |- _ => apply orb_false_iff in H; destruct H
  | H : andb _ _ = true |- _ => apply andb_true_iff in H; destruct H
  | H : andb _ _ = false |- _ => apply andb_false_iff in H
  | H : beq _ _ = true |- _ => apply beq_true in H
  | H : beq _ _ = false |- _ => apply beq_false in H
  | H : _ \/ _ |- _ => destruct H
  end.

Section S.
Variable E D : bytes -> bytes -> bytes.
Variable seal : bytes -> bytes -> bytes -> bytes -> bytes.
Variable open : bytes -> bytes -> bytes -> bytes -> option bytes.
Local Notation X := (std E D seal open).
(* every theorem of this section is generalised over E D seal open (stated explicitly: which variables a proof term
   happens to mention must not decide the type Props/C08.v sees) *)

Ltac open_code :=
  repeat autounfold with go2v;
  cbv beta iota zeta delta [bind fst snd std bytes_res int_res dst_res dst_n_res m_res mmap view_dst view_dst_n
    m_rem m_quot m_get m_set m_slice m_getA m_setA lift gorem goquot get_atA copy_all zlen zlenA
    std_Repeat std_Equal std_NewCipher std_NewCBC std_CryptBlocks std_NewGCM std_Seal std_Open append_into
    bytes aes_block_size block_size_mask gcm_tag_size BS TAG E_NEWCIPHER E_CTLEN E_PADLEN E_PADBYTES E_NEWGCM E_OPEN E_EMPTY E_BLOCKSIZE E_MULTIPLE];
  change (Z.to_nat 16) with 16%nat in *; change (Z.to_nat 0) with 0%nat in *; change copy_into with gocopy in *.
Ltac lia' := Z.div_mod_to_equations; lia.
Ltac nonempty := first [assumption | discriminate | apply length_nonempty; rewrite ?gocopy_length; lia'].
Ltac norm1 :=
  first
  [ rewrite rem16_nat
  | progress change (Z.to_nat 16) with 16%nat
  | rewrite rem_nat by lia'
  | rewrite get_last by nonempty
  | rewrite last_opt_some by nonempty
  | rewrite slice_suffix_gen by (rewrite ?gocopy_length; lia')
  | rewrite slice_suffix_none_gen by (rewrite ?gocopy_length; lia')
  | rewrite slice_prefix by (rewrite ?gocopy_length; lia')
  | rewrite concat_repeat1
  | rewrite land15_nat
  | rewrite masked_mod
  | rewrite to_nat_16_sub
  | rewrite to_nat_sub_nat
  | rewrite gocopy_length
  | rewrite m_copy_tail_gen by (rewrite ?gocopy_length; lia')
  | rewrite m_copy_tail_none_gen by (rewrite ?gocopy_length; lia')
  | rewrite wrap8 ].
Ltac break_if :=
  match goal with |- context [if ?c then _ else _] =>
    match c with context [if _ then _ else _] => fail 1 | _ => idtac end; destruct c eqn:? end;
  boolp; try (exfalso; lia'); cbn [negb andb orb].
Ltac break_opt :=
  match goal with |- context [match ?x with Some _ => _ | None => _ end] => destruct x eqn:? end.
Ltac crush := repeat first [norm1 | break_if | break_opt].
(* equal up to arithmetic inside the same constructors / list functions: arithmetic first, then one level down *)
Ltac feq := first [ reflexivity | lia' | progress f_equal; feq ].
Ltac finish := try reflexivity; try congruence; try (solve [feq]).

Theorem code_PKCS7Padding : forall d bs, g_PKCS7Padding X d bs = bytes_res (pkcs7_pad d bs).
Proof using E D seal open.
  intros. unfold pkcs7_pad. open_code. crush; finish.
Qed.


Theorem code_PKCS7UnPadding : forall d bs, g_PKCS7UnPadding X d bs = bytes_res (pkcs7_unpad d bs).
Proof using E D seal open.
  intros. unfold pkcs7_unpad. open_code.
  destruct d as [|x0 d0]; [reflexivity|]. set (d := x0 :: d0). assert (Hd : d <> []) by discriminate.
  crush; finish.
Qed.
Theorem code_PKCS5Padding : forall d, g_PKCS5Padding X d = bytes_res (pkcs5_pad d).
Proof using E D seal open.
  intros. unfold pkcs5_pad. rewrite <- code_PKCS7Padding. open_code.
  repeat match goal with |- context [match ?m with Ret _ => _ | GoSem.Panic => _ | NoFuel => _ end] => destruct m as [[? ?]| |] end; reflexivity.
Qed.
Theorem code_PKCS5UnPadding : forall d, g_PKCS5UnPadding X d = bytes_res (pkcs5_unpad d).
Proof using E D seal open.
  intros. unfold pkcs5_unpad. rewrite <- code_PKCS7UnPadding. open_code.
  repeat match goal with |- context [match ?m with Ret _ => _ | GoSem.Panic => _ | NoFuel => _ end] => destruct m as [[? ?]| |] end; reflexivity.
Qed.

Theorem code_AESCBCEncryptLen : forall p, g_AESCBCEncryptLen p = Ret (cbc_encrypt_len (length p)).
Proof using E D seal open. intros. unfold cbc_encrypt_len. open_code. crush; finish. Qed.
Theorem code_AESCBCDecryptLen : forall p, g_AESCBCDecryptLen p = Ret (cbc_decrypt_len (length p)).
Proof using E D seal open. intros. unfold cbc_decrypt_len. open_code. crush; finish. Qed.
Theorem code_AESGCMEncryptLen : forall p, g_AESGCMEncryptLen p = Ret (gcm_encrypt_len (length p)).
Proof using E D seal open. intros. unfold gcm_encrypt_len. open_code. crush; finish. Qed.
Theorem code_AESGCMDecryptLen : forall p, g_AESGCMDecryptLen p = Ret (gcm_decrypt_len (length p)).
Proof using E D seal open. intros. unfold gcm_decrypt_len. open_code. crush; finish. Qed.

Theorem code_pkcs7UnPadding : forall d, g_pkcs7UnPadding X pad_table d = int_res (unpad_tbl d).
Proof using E D seal open.
  intros. unfold unpad_tbl. open_code.
  destruct d as [|x0 d0]; [reflexivity|]. set (d := x0 :: d0). assert (Hd : d <> []) by discriminate.
  crush; finish.
Qed.

(* what the hand model's cbc_encrypt takes for granted: the block function returns blocks (premise of c08_cbc_encrypt_spec) *)
Definition E_blocks : Prop := forall k b, good_key k = true -> length b = 16%nat -> length (E k b) = 16%nat.

Lemma enc_len : E_blocks -> forall k iv d, good_key k = true -> length iv = 16%nat -> (length d mod 16 = 0)%nat ->
  length (cbc_enc_bytes E k iv d) = length d.
Proof using E D seal open.
  intros El k iv d Hk Hiv Hd. unfold cbc_enc_bytes.
  destruct (cbc_enc_forall E El k Hk (blocks d) iv Hiv (blocks_forall d Hd)) as [F L].
  rewrite concat_length16 by exact F. rewrite L.
  pose proof (concat_length16 (blocks d) (blocks_forall d Hd)) as C. rewrite blocks_concat in C. symmetry. exact C.
Qed.
Lemma gocopy_same dst src : length src = length dst -> gocopy dst src = src.
Proof using E D seal open. exact (copy_into_same dst src). Qed.

(* AESCBCEncrypt up to CryptBlocks (no premise): the model's cbc_encrypt_prep, then the chain written over dst *)
Theorem code_AESCBCEncrypt_prep : forall dst plain key iv,
  mmap view_dst (g_AESCBCEncrypt X pad_table dst plain key iv) =
  dst_res (match cbc_encrypt_prep dst plain key iv with
           | Ok d2 => Ok (copy_into d2 (cbc_enc_bytes E key iv d2)) | Err e => Err e | Aes.Panic => Aes.Panic end).
Proof using E D seal open.
  intros. unfold cbc_encrypt_prep. open_code. crush; finish.
Qed.

Theorem code_AESCBCEncrypt : E_blocks -> forall dst plain key iv,
  mmap view_dst (g_AESCBCEncrypt X pad_table dst plain key iv) = dst_res (cbc_encrypt E dst plain key iv).
Proof using E D seal open.
  intros El dst plain key iv. rewrite code_AESCBCEncrypt_prep. unfold cbc_encrypt.
  destruct (cbc_encrypt_prep dst plain key iv) as [d2|e|] eqn:Ep; try reflexivity.
  unfold cbc_encrypt_prep in Ep.
  repeat match type of Ep with
  | (if ?c then _ else _) = _ => destruct c eqn:?; try discriminate
  | match ?x with Some _ => _ | None => _ end = _ => destruct x eqn:?; try discriminate
  end.
  injection Ep as <-. boolp.
  rewrite copy_into_same; [reflexivity|]. apply enc_len; auto.
Qed.

Theorem code_AESCBCDecrypt : forall dst ct key iv,
  mmap view_dst_n (g_AESCBCDecrypt X pad_table dst ct key iv) = dst_n_res (cbc_decrypt D dst ct key iv).
Proof using E D seal open.
  intros. unfold cbc_decrypt, unpad_tbl. open_code. crush; finish.
Qed.

Theorem code_AESGCMEncrypt : forall dst plain key nonce ad,
  mmap view_dst (g_AESGCMEncrypt X dst plain key nonce ad) = dst_res (gcm_encrypt seal dst plain key nonce ad).
Proof using E D seal open.
  intros. unfold gcm_encrypt. open_code. crush; finish.
Qed.
Theorem code_AESGCMDecrypt : forall dst ct key nonce ad,
  mmap view_dst (g_AESGCMDecrypt X dst ct key nonce ad) = dst_res (gcm_decrypt open dst ct key nonce ad).
Proof using E D seal open.
  intros. unfold gcm_decrypt. open_code. crush; finish.
Qed.

(* init(): run on the zero value of the table with fuel f, for EVERY f: the 17 patterns need 18 loop tests *)
Lemma while_more {S R} (c : S -> M bool) (b : S -> M (ctl S R)) (p : S -> M S) : forall k f s r,
  while f c b p s = Ret r -> while (f + k) c b p s = Ret r.
Proof using E D seal open.
  induction f as [|f IH]; intros s r; [discriminate|].
  cbn [Nat.add]. rewrite !while_step. destruct (c s) as [x| |]; cbn [bind]; try discriminate.
  destruct x; [|trivial]. destruct (b s) as [y| |]; cbn [bind]; try discriminate.
  destruct y as [s1|s1|r1]; [|trivial|trivial]. destruct (p s1) as [s2| |]; cbn [bind]; try discriminate. apply IH.
Qed.
Theorem code_init_fuel : forall fuel,
  g_init_prePadPatterns fuel X g0_prePadPatterns = if (18 <=? fuel)%nat then Ret pad_table else NoFuel.
Proof using E D seal open.
  intros fuel. do 18 (destruct fuel as [|fuel]; [vm_compute; reflexivity|]).
  change (18 <=? S (S (S (S (S (S (S (S (S (S (S (S (S (S (S (S (S (S fuel))))))))))))))))))%nat with true. cbv iota.
  repeat autounfold with go2v. cbv beta zeta.
  match goal with |- bind (while _ ?c ?b ?p ?s) ?k = _ =>
    assert (H18 : exists r, while 18 c b p s = Ret r /\ k r = Ret pad_table) by (eexists; split; vm_compute; reflexivity);
    destruct H18 as (r & H18 & Hk);
    replace (S (S (S (S (S (S (S (S (S (S (S (S (S (S (S (S (S (S fuel)))))))))))))))))) with (18 + fuel)%nat by reflexivity;
    rewrite (while_more c b p fuel 18 s r H18); exact Hk
  end.
Qed.
Corollary code_init : forall fuel, (18 <= fuel)%nat -> g_init_prePadPatterns fuel X g0_prePadPatterns = Ret pad_table.
Proof using E D seal open. intros fuel H. rewrite code_init_fuel. destruct (Nat.leb_spec 18 fuel); [reflexivity|lia]. Qed.

(* ---- the value operations of the case interpreter through the generated code *)
Lemma enc_m_res r : (forall e, r = Err e -> e <> 0) -> enc_m (bytes_res r) = enc_res (fun x => x) r.
Proof using E D seal open.
  intros H. destruct r as [a|e|]; try reflexivity. specialize (H e eq_refl).
  unfold bytes_res, m_res, enc_m, enc_res. destruct (Z.eqb_spec e 0); [contradiction|reflexivity].
Qed.
Ltac model_ifs :=
  repeat match goal with
  | |- context [if ?c then _ else _] => destruct c
  end; try discriminate; intros [= <-]; discriminate.
Lemma pad_err d bs e : pkcs7_pad d bs = Err e -> e <> 0.
Proof using E D seal open. unfold pkcs7_pad. model_ifs. Qed.
Lemma unpad_err d bs e : pkcs7_unpad d bs = Err e -> e <> 0.
Proof using E D seal open. unfold pkcs7_unpad. model_ifs. Qed.

Theorem run_op_code_is_run_op : forall o, run_op_code E D seal open o = run_op E D seal open o.
Proof using E D seal open.
  destruct o; try reflexivity; cbn [run_op_code run_op].
  - rewrite code_AESCBCEncryptLen, code_AESCBCDecryptLen, code_AESGCMEncryptLen, code_AESGCMDecryptLen, repeat_length.
    repeat match goal with |- context [if ?c then _ else _] => destruct c end; reflexivity.
  - rewrite code_PKCS7Padding. apply enc_m_res, pad_err.
  - rewrite code_PKCS7UnPadding. apply enc_m_res, unpad_err.
  - rewrite code_PKCS5Padding. apply enc_m_res. unfold pkcs5_pad. apply pad_err.
  - rewrite code_PKCS5UnPadding. apply enc_m_res. unfold pkcs5_unpad. apply unpad_err.
Qed.
End S.

(* what the check executes as `entry 0` IS the generated code on the value operations (length helpers, PKCS7/PKCS5) *)
Theorem entry_code_is_entry : forall sub args, entry_code sub args = entry sub args.
Proof.
  intros sub args. unfold entry_code, entry. destruct (sub =? 2); [reflexivity|].
  destruct (dec_op args) as [[o|] rest]; [|reflexivity].
  destruct (first_missing _ _); [reflexivity|]. apply run_op_code_is_run_op.
Qed.

(* in-kernel anchors: the generated code computes (same cases as the anchors of Run/C08.v) *)
Example anchor_len_code : entry_code 0 [0; 0;32;0;0;0; 0; 0; 0; 0; 0] = [48].
Proof. vm_compute. reflexivity. Qed.
Example anchor_pad_code : entry_code 0 [5; 4;0;0;0;0; 3;1;2;3; 0; 0; 0; 0] = [0; 1;2;3;1].
Proof. vm_compute. reflexivity. Qed.
Example anchor_unpad_code : entry_code 0 [6; 4;0;0;0;0; 4;9;9;2;2; 0; 0; 0; 0] = [0; 9;9].
Proof. vm_compute. reflexivity. Qed.
Example anchor_unpad_bad_code : entry_code 0 [6; 4;0;0;0;0; 4;9;9;3;2; 0; 0; 0; 0] = [1; 4].
Proof. vm_compute. reflexivity. Qed.
