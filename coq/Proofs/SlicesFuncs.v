(* C14: Diff / Intersect / Unique / UniqueByKey / Filter and their InPlace variants, function by function:
   the early returns of the Go code plus the loop theorems of SlicesSel.v / SlicesInPlace.v. *)
From Coq Require Import List ZArith Bool Arith Lia Permutation.
From V Require Import Model.Slices Proofs.SlicesBase Proofs.SlicesSel Proofs.SlicesInPlace.
Import ListNotations.

(* the dst layouts of the property: dst shares no array with s1 (nil, own buffer, s2[:0]), or starts where s1 starts
   (s1[:0], s1, s1[:0:c]) *)
Definition claimed (dst s1 : slice) : Prop := arr dst <> arr s1 \/ off dst = off s1.
Lemma layout_claimed_iff dst s1 : layout_claimed dst s1 = true <-> claimed dst s1.
Proof.
  unfold layout_claimed, claimed. rewrite orb_true_iff, negb_true_iff, Nat.eqb_neq, Nat.eqb_eq. tauto.
Qed.

(* result of a dst-taking function: no panic, the returned slice shows [expect] *)
Definition sel_post (m : mem) (expect : list Z) (res : option (mem * slice)) : Prop :=
  exists m' r, res = Some (m', r) /\ slice_vals m' r = expect /\ length m <= length m'.
(* result of an InPlace function on s: no panic; the returned slice is the front of s and shows [expect];
   s's window is a permutation of what it was; the heap has the same arrays *)
Definition ip_post (m : mem) (s : slice) (expect : list Z) (res : option (mem * slice)) : Prop :=
  exists m' r, res = Some (m', r) /\ arr r = arr s /\ off r = off s /\ len r <= len s /\
    slice_vals m' r = expect /\ Permutation (slice_vals m' s) (slice_vals m s) /\ length m' = length m.

Lemma vals_nil_of_len0 m s : len s = 0 -> slice_vals m s = [].
Proof. intros H. unfold slice_vals. rewrite H. apply window_0. Qed.
Lemma reslice0_vals m s : slice_vals m (reslice0 s) = [].
Proof. reflexivity. Qed.
Lemma filter_all {A} (f : A -> bool) l : (forall x, In x l -> f x = true) -> filter f l = l.
Proof. induction l as [|x l IH]; intros H; cbn [filter]; [reflexivity|]. rewrite (H x (or_introl eq_refl)). f_equal. apply IH. intros y Hy. apply H. right. exact Hy. Qed.
Lemma filter_none {A} (f : A -> bool) l : (forall x, In x l -> f x = false) -> filter f l = [].
Proof. induction l as [|x l IH]; intros H; cbn [filter]; [reflexivity|]. rewrite (H x (or_introl eq_refl)). apply IH. intros y Hy. apply H. right. exact Hy. Qed.

Lemma append_all_vals m s vs : wfs m s ->
  slice_vals (fst (append_all m s vs)) (snd (append_all m s vs)) = slice_vals m s ++ vs /\
  length m <= length (fst (append_all m s vs)).
Proof.
  intros (W1 & W2 & W3). unfold append_all. destruct vs as [|v vs0]; [cbn [fst snd]; rewrite app_nil_r; auto|].
  set (vs := v :: vs0). destruct (Nat.leb_spec (len s + length vs) (cap s)) as [H|H]; cbn [fst snd];
    (split; [|try rewrite set_arr_length; try rewrite app_length; lia]).
  - unfold slice_vals. cbn [arr off len]. rewrite arr_of_set_same by exact W1. rewrite window_app2. f_equal.
    + apply splice_window_before; lia.
    + apply splice_window. lia.
  - unfold slice_vals at 1. cbn [arr off len]. rewrite arr_of_app_new.
    replace (len s + length vs) with (length (slice_vals m s ++ vs))
      by (rewrite app_length, slice_vals_length by (repeat split; assumption); reflexivity).
    apply window_all.
Qed.

(* ---------------------------------------------------------------- the dst-taking functions *)
Theorem go_filter_spec p m dst s : wfs m s -> wfs m dst -> claimed dst s ->
  sel_post m (filter p (slice_vals m s)) (go_filter p m dst s).
Proof.
  intros Ws Wd C. unfold go_filter. destruct (sel_spec unit (pstep p) s tt m dst Ws Wd C) as (m' & r & E & V & _ & L & _).
  exists m', r. split; [exact E|]. split; [|exact L]. rewrite V. apply kept_pstep.
Qed.

Theorem go_diff_spec m dst s1 s2 : wfs m s1 -> wfs m s2 -> wfs m dst -> claimed dst s1 ->
  sel_post m (spec_diff (slice_vals m s1) (slice_vals m s2)) (go_diff m dst s1 s2).
Proof.
  intros W1 W2 Wd C. unfold go_diff, spec_diff. destruct (Nat.eqb_spec (len s1) 0) as [H1|H1].
  - exists m, (reslice0 dst). split; [reflexivity|]. split; [|lia]. rewrite (vals_nil_of_len0 m s1 H1). reflexivity.
  - destruct (Nat.eqb_spec (len s2) 0) as [H2|H2].
    + rewrite (slice_vals_chk_wf _ _ W1). eexists _, _. split; [apply f_equal; apply surjective_pairing|].
      assert (Wd0 : wfs m (reslice0 dst)) by (destruct Wd as (?&?&?); unfold wfs, reslice0; cbn [arr off len cap]; repeat split; auto; lia).
      destruct (append_all_vals m (reslice0 dst) (slice_vals m s1) Wd0) as (AV & AL). split; [|exact AL]. rewrite AV.
      rewrite reslice0_vals. cbn [app]. rewrite (vals_nil_of_len0 m s2 H2). symmetry. apply filter_all. reflexivity.
    + rewrite (slice_vals_chk_wf _ _ W2).
      destruct (sel_spec unit (pstep (fun v => negb (memz v (slice_vals m s2)))) s1 tt m dst W1 Wd C) as (m' & r & E & V & _ & L & _).
      exists m', r. split; [exact E|]. split; [|exact L]. rewrite V. apply kept_pstep.
Qed.

Theorem go_intersect_spec m dst s1 s2 : wfs m s1 -> wfs m s2 -> wfs m dst -> claimed dst s1 ->
  sel_post m (spec_intersect (slice_vals m s1) (slice_vals m s2)) (go_intersect m dst s1 s2).
Proof.
  intros W1 W2 Wd C. unfold go_intersect, spec_intersect.
  destruct (Nat.eqb_spec (len s1) 0) as [H1|H1]; cbn [orb].
  - exists m, (reslice0 dst). split; [reflexivity|]. split; [|lia]. rewrite (vals_nil_of_len0 m s1 H1). reflexivity.
  - destruct (Nat.eqb_spec (len s2) 0) as [H2|H2].
    + exists m, (reslice0 dst). split; [reflexivity|]. split; [|lia]. rewrite (vals_nil_of_len0 m s2 H2). symmetry. apply filter_none. reflexivity.
    + rewrite (slice_vals_chk_wf _ _ W2).
      destruct (sel_spec unit (pstep (fun v => memz v (slice_vals m s2))) s1 tt m dst W1 Wd C) as (m' & r & E & V & _ & L & _).
      exists m', r. split; [exact E|]. split; [|exact L]. rewrite V. apply kept_pstep.
Qed.

Theorem go_unique_by_key_spec key m dst s : wfs m s -> wfs m dst -> claimed dst s ->
  sel_post m (spec_unique_by key (slice_vals m s)) (go_unique_by_key key m dst s).
Proof.
  intros Ws Wd C. unfold go_unique_by_key, spec_unique_by. destruct (Nat.eqb_spec (len s) 0) as [H1|H1].
  - exists m, (reslice0 dst). split; [reflexivity|]. split; [|lia]. rewrite (vals_nil_of_len0 m s H1). reflexivity.
  - destruct (sel_spec ustate (ustep key) s ([], 0) m dst Ws Wd C) as (m' & r & E & V & _ & L & _).
    exists m', r. split; [exact E|]. split; [|exact L]. rewrite V. apply (unique_kept key (slice_vals m s) []).
Qed.

(* the aliased call dst = s[:0] (or any dst starting at s's first element with room for s): the result is still
   s's own memory, no longer than s, nothing was allocated: the write cursor stayed behind the read cursor *)
Theorem sel_alias_in_place St step st m dst s : wfs m s -> wfs m dst ->
  arr dst = arr s -> off dst = off s -> len s <= cap dst ->
  exists m' r, sel_loop St step (len s) st m s (reslice0 dst) 0 = Some (m', r) /\
    arr r = arr s /\ off r = off s /\ len r <= len s /\ length m' = length m /\
    slice_vals m' r = kept St step st (slice_vals m s).
Proof.
  intros Ws Wd A O Cp. destruct (sel_spec St step s st m dst Ws Wd (or_intror O)) as (m' & r & E & V & _ & _ & Al).
  destruct (Al A Cp) as (B1 & B2 & B3 & B4 & B5). exists m', r. repeat split; auto.
Qed.

(* ---------------------------------------------------------------- the InPlace functions *)
Lemma ip_post_of_in_place St step st0 m s : wfs m s ->
  ip_post m s (kept St step st0 (slice_vals m s)) (in_place St step st0 m s).
Proof.
  intros W. destruct (in_place_spec St step st0 m s W) as (m' & r & E & R & V & P & _ & L & _).
  exists m', r. split; [exact E|]. subst r. cbn [arr off len]. repeat split; auto.
  rewrite <- (slice_vals_length m s W). apply kept_length_le.
Qed.
Lemma ip_post_id m s expect : slice_vals m s = expect -> ip_post m s expect (Some (m, s)).
Proof. intros H. exists m, s. repeat split; auto. Qed.
Lemma ip_post_empty m s expect : expect = [] -> ip_post m s expect (Some (m, reslice0 s)).
Proof. intros ->. exists m, (reslice0 s). cbn [reslice0 arr off len]. repeat split; auto; lia. Qed.

Theorem go_filter_in_place_spec p m s : wfs m s ->
  ip_post m s (filter p (slice_vals m s)) (go_filter_in_place p m s).
Proof. intros W. unfold go_filter_in_place. rewrite <- kept_pstep. apply ip_post_of_in_place. exact W. Qed.

Theorem go_diff_in_place_spec m s1 s2 : wfs m s1 -> wfs m s2 ->
  ip_post m s1 (spec_diff (slice_vals m s1) (slice_vals m s2)) (go_diff_in_place m s1 s2).
Proof.
  intros W1 W2. unfold go_diff_in_place, spec_diff.
  destruct (Nat.eqb_spec (len s1) 0) as [H1|H1]; cbn [orb].
  - apply ip_post_id. rewrite (vals_nil_of_len0 m s1 H1). reflexivity.
  - destruct (Nat.eqb_spec (len s2) 0) as [H2|H2].
    + apply ip_post_id. rewrite (vals_nil_of_len0 m s2 H2). symmetry. apply filter_all. reflexivity.
    + rewrite (slice_vals_chk_wf _ _ W2). rewrite <- kept_pstep. apply ip_post_of_in_place. exact W1.
Qed.

Theorem go_intersect_in_place_spec m s1 s2 : wfs m s1 -> wfs m s2 ->
  ip_post m s1 (spec_intersect (slice_vals m s1) (slice_vals m s2)) (go_intersect_in_place m s1 s2).
Proof.
  intros W1 W2. unfold go_intersect_in_place, spec_intersect.
  destruct (Nat.eqb_spec (len s1) 0) as [H1|H1]; cbn [orb].
  - apply ip_post_empty. rewrite (vals_nil_of_len0 m s1 H1). reflexivity.
  - destruct (Nat.eqb_spec (len s2) 0) as [H2|H2].
    + apply ip_post_empty. rewrite (vals_nil_of_len0 m s2 H2). apply filter_none. reflexivity.
    + rewrite (slice_vals_chk_wf _ _ W2). rewrite <- kept_pstep. apply ip_post_of_in_place. exact W1.
Qed.

Theorem go_unique_by_key_in_place_spec key m s : wfs m s ->
  ip_post m s (spec_unique_by key (slice_vals m s)) (go_unique_by_key_in_place key m s).
Proof.
  intros W. unfold go_unique_by_key_in_place, spec_unique_by. destruct (Nat.eqb_spec (len s) 0) as [H1|H1].
  - apply ip_post_id. rewrite (vals_nil_of_len0 m s H1). reflexivity.
  - rewrite <- (unique_kept key (slice_vals m s) []). apply (ip_post_of_in_place ustate (ustep key) ([], 0)). exact W.
Qed.
