(* C19: Wait(timeout) as events on top of the event model (Model/Limiter.v: evt / step_t / accepts_t).
   The timeout events never change the state, so every theorem about [accepts] applies to the base events of an [accepts_t] trace;
   the quit branch implies what Wait() implies; the timer branch is enabled in every state and implies nothing. *)
From Coq Require Import List Arith ZArith Lia Bool.
From V Require Import Lib.Enc Gen.ConstsGoz Model.Limiter Proofs.Limiter.
Import ListNotations.

Lemma step_t_timeout s ok s' : step_t s (WaitTimeoutReturn ok) = Some s' -> s' = s.
Proof. destruct ok; cbn [step_t]; [destruct (wg s =? 0)|]; intros H; inversion H; reflexivity. Qed.

Lemma accepts_t_base : forall tr s s', accepts_t s tr = Some s' -> accepts s (base_events tr) = Some s'.
Proof.
  induction tr as [|e t IH]; intros s s' H; cbn [accepts_t base_events flat_map] in *; [exact H|].
  destruct (step_t s e) as [s1|] eqn:E; [|discriminate]. destruct e as [e|ok].
  - cbn [app accepts]. cbn [step_t] in E. rewrite E. apply IH. exact H.
  - cbn [app]. apply step_t_timeout in E. subst s1. apply IH. exact H.
Qed.
Lemma accepts_t_conservative : forall tr s, accepts_t s (map Ev tr) = accepts s tr.
Proof. induction tr as [|e t IH]; intros s; cbn [map accepts_t accepts step_t]; [reflexivity|]. destruct (step s e); auto. Qed.
Lemma accepts_t_app : forall tr1 s tr2 s2, accepts_t s (tr1 ++ tr2) = Some s2 ->
  exists s1, accepts_t s tr1 = Some s1 /\ accepts_t s1 tr2 = Some s2.
Proof.
  induction tr1 as [|e t IH]; intros s tr2 s2 H; cbn [app accepts_t] in *; [eauto|].
  destruct (step_t s e) as [s'|]; [|discriminate]. apply IH; auto.
Qed.
Lemma base_events_submit i tr : In (Submit i) (base_events tr) <-> In (Ev (Submit i)) tr.
Proof.
  unfold base_events. rewrite in_flat_map. split.
  - intros ([e|ok] & Hin & He); cbn in He; [destruct He as [->|[]]; exact Hin|contradiction].
  - intros H. exists (Ev (Submit i)). split; [exact H|left; reflexivity].
Qed.

(* both Wait() and the quit branch of Wait(d) return only after every function submitted before has finished *)
Theorem wait_timeout_after_all ids n tr1 e tr2 s :
  NoDup ids -> (forall i, In (Ev (Submit i)) tr1 -> In i ids) ->
  e = Ev WaitReturn \/ e = WaitTimeoutReturn true ->
  accepts_t (new_limiter n) (tr1 ++ e :: tr2) = Some s ->
  exists s1, accepts_t (new_limiter n) tr1 = Some s1 /\ forall i, In (Ev (Submit i)) tr1 -> tasks s1 i = Finished.
Proof.
  intros Hnd Hsub He Ha. destruct (accepts_t_app _ _ _ _ Ha) as (s1 & H1 & H2). exists s1. split; auto.
  assert (Hz : wg s1 = 0).
  { cbn [accepts_t] in H2. destruct (step_t s1 e) as [s1'|] eqn:E; [|discriminate].
    destruct He as [->| ->]; cbn [step_t step] in E; destruct (Nat.eqb_spec (wg s1) 0); auto; discriminate. }
  pose proof (accepts_t_base _ _ _ H1) as Hb.
  destruct (wait_after_all ids n (base_events tr1) [] s1 Hnd) as (s1' & E1 & Hfin).
  - intros i Hi. apply Hsub. apply base_events_submit. exact Hi.
  - rewrite (accepts_app_intro _ _ _ _ Hb). cbn [accepts step]. rewrite Hz. reflexivity.
  - rewrite Hb in E1. inversion E1; subst s1'. intros i Hi. apply Hfin. apply base_events_submit. exact Hi.
Qed.

(* the timer branch is enabled in every state, e.g. while a task is running: it implies nothing *)
Theorem wait_timeout_may_expire :
  (forall s, step_t s (WaitTimeoutReturn false) = Some s) /\
  (exists s, accepts_t (new_limiter 1) [Ev (Submit 0); Ev (Start 0); WaitTimeoutReturn false] = Some s /\ tasks s 0 = Running) /\
  accepts_t (new_limiter 1) [Ev (Submit 0); Ev (Start 0); WaitTimeoutReturn true] = None /\
  accepts_t (new_limiter 1) [Ev (Submit 0); Ev (Start 0); Ev WaitReturn] = None.
Proof. split; [reflexivity|]. split; [eexists; split; reflexivity|]. split; reflexivity. Qed.

(* the timeout events are transparent: the base events of an accepted trace are accepted by the event model with the same final
   state (so the bound, exactly-once, panic theorems hold of them), and a trace without timeout events is accepted exactly as before *)
Theorem wait_timeout_transparent :
  (forall tr s s', accepts_t s tr = Some s' -> accepts s (base_events tr) = Some s') /\
  (forall tr s, accepts_t s (map Ev tr) = accepts s tr).
Proof. split; [exact accepts_t_base|exact accepts_t_conservative]. Qed.
