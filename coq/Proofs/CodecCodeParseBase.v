(* C07, generated code = hand model (continued from Proofs/CodecCodeBase.v): what the four parser proofs share — the
   destination buffer as `fill out dst`, the model's loop one iteration at a time, the loop lemma, the evaluation tactics. *)
From Coq Require Import List ZArith Lia Bool Arith.
From V Require Import Lib.Enc Lib.GoSem Lib.GoSemStd Proofs.GoSemFacts Gen.Codec Gen.CodecCode Model.Codec Proofs.CodecBase Proofs.CodecFormat Proofs.CodecCodeBase.
Import ListNotations.
Local Open Scope Z_scope.
Arguments Z.mul : simpl never.
Arguments Z.add : simpl never.
Arguments Z.sub : simpl never.
Arguments Z.div : simpl never.
Arguments Z.modulo : simpl never.
Arguments Z.pow : simpl never.
Arguments Z.quot : simpl never.
Arguments Z.rem : simpl never.
Arguments Z.of_nat : simpl never.
Arguments Z.to_nat : simpl never.
Ltac Zify.zify_post_hook ::= idtac.
(* ================================================================== OctalParse, HexParse (enc.go) *)
(* the hand model returns dst[:n]; the generated function returns the whole dst and n *)
Definition fill (out d0 : list Z) : list Z := out ++ skipn (length out) d0.
Definition parse_res (d0 out : list Z) : list Z * Z := (fill out d0, zlen out).

Lemma fill_length out d0 : (length out <= length d0)%nat -> length (fill out d0) = length d0.
Proof. intros H. unfold fill. rewrite app_length, skipn_length. lia. Qed.
Lemma fill_nil d0 : fill [] d0 = d0.
Proof. reflexivity. Qed.
(* n := copy(dst[e:], lit) *)
Lemma m_copy_fill out d0 e z lit : e = Z.of_nat (length out) -> z = Z.of_nat (length d0) -> (length out <= length d0)%nat ->
  m_copy (fill out d0) e z lit =
  Ret (fill (out ++ firstn (length d0 - length out) lit) d0, Z.of_nat (length (firstn (length d0 - length out) lit))).
Proof.
  intros -> -> H. rewrite m_copy_in by (unfold zlen; rewrite ?fill_length by lia; lia). rewrite !Nat2Z.id.
  unfold fill at 1 2 3. rewrite firstn_app, firstn_all, Nat.sub_diag. cbn [firstn]. rewrite app_nil_r.
  rewrite (skipn_all2 (n := length d0)) by (rewrite app_length, skipn_length; lia).
  rewrite skipn_app, skipn_all, Nat.sub_diag. cbn [skipn app]. rewrite app_nil_r.
  rewrite (firstn_all2 (n := (length d0 - length out)%nat)) by (rewrite skipn_length; lia).
  set (T := skipn (length out) d0). assert (HT : length T = (length d0 - length out)%nat) by (unfold T; rewrite skipn_length; lia).
  f_equal. f_equal.
  - unfold fill, gocopy. rewrite HT, <- app_assoc. f_equal. f_equal. unfold T. rewrite skipn_skipn, app_length, firstn_length.
    destruct (Nat.le_gt_cases (length lit) (length d0 - length out)); [f_equal; lia|].
    rewrite !skipn_all2 by lia. reflexivity.
  - rewrite !firstn_length, skipn_length, fill_length by lia. f_equal. lia.
Qed.
(* dst[e] = v *)
Lemma m_set_fill out d0 e v : e = Z.of_nat (length out) -> (length out < length d0)%nat -> m_set (fill out d0) e v = Ret (fill (out ++ [v]) d0).
Proof.
  intros -> H. unfold fill. rewrite (skipn_cons_nth d0 (length out) H). unfold m_set, set_at. rewrite app_length. cbn [length].
  destruct (Z.leb_spec 0 (Z.of_nat (length out))); [|lia].
  destruct (Z.ltb_spec (Z.of_nat (length out)) (Z.of_nat (length out + S (length (skipn (S (length out)) d0))))); [|lia].
  cbn [andb lift]. rewrite Nat2Z.id, upd_mid, <- app_assoc, app_length. cbn [length app]. rewrite Nat.add_1_r. reflexivity.
Qed.
Lemma m_set_fill_out out d0 e v : e = Z.of_nat (length out) -> (length d0 <= length out)%nat -> m_set (fill out d0) e v = Panic.
Proof.
  intros -> H. unfold fill. rewrite skipn_all2 by lia. rewrite app_nil_r. unfold m_set, set_at.
  destruct (Z.ltb_spec (Z.of_nat (length out)) (Z.of_nat (length out))); [lia|]. rewrite andb_false_r. reflexivity.
Qed.
(* utf8.EncodeRune(dst[e:], r): the slice behind the written part, the encoder, the write-back *)
Lemma m_slice_fill_tail (out d0 : list Z) e z : e = Z.of_nat (length out) -> z = Z.of_nat (length d0) -> (length out <= length d0)%nat ->
  m_slice (fill out d0) e z = Ret (skipn (length out) d0).
Proof.
  intros -> -> H. rewrite m_slice_in by (unfold zlen; rewrite ?fill_length by lia; lia). rewrite !Nat2Z.id. unfold fill.
  rewrite skipn_app, skipn_all, Nat.sub_diag. cbn [skipn app]. rewrite firstn_all2 by (rewrite skipn_length; lia). reflexivity.
Qed.
Lemma encode_fill_ok (out d0 : list Z) (r : Z) : (length out + length (Utf8.encode_rune r) <= length d0)%nat ->
  std_utf8_EncodeRune (skipn (length out) d0) r =
  Ret (Utf8.encode_rune r ++ skipn (length (Utf8.encode_rune r)) (skipn (length out) d0), zlen (Utf8.encode_rune r)).
Proof.
  intros H. unfold std_utf8_EncodeRune. cbv zeta. unfold zlen. rewrite skipn_length.
  destruct (Z.leb_spec (Z.of_nat (length (Utf8.encode_rune r))) (Z.of_nat (length d0 - length out))); [reflexivity|lia].
Qed.
Lemma encode_fill_panic (out d0 : list Z) (r : Z) : (length out <= length d0)%nat -> (length d0 < length out + length (Utf8.encode_rune r))%nat ->
  std_utf8_EncodeRune (skipn (length out) d0) r = Panic.
Proof.
  intros Ho H. unfold std_utf8_EncodeRune. cbv zeta. unfold zlen. rewrite skipn_length.
  destruct (Z.leb_spec (Z.of_nat (length (Utf8.encode_rune r))) (Z.of_nat (length d0 - length out))); [lia|reflexivity].
Qed.
Lemma splice_fill (out d0 : list Z) e z (bs : list Z) : e = Z.of_nat (length out) -> z = Z.of_nat (length d0) -> (length out + length bs <= length d0)%nat ->
  splice (fill out d0) e z (bs ++ skipn (length bs) (skipn (length out) d0)) = fill (out ++ bs) d0.
Proof.
  intros -> -> H. unfold splice, fill. rewrite !Nat2Z.id. rewrite firstn_app, firstn_all, Nat.sub_diag. cbn [firstn]. rewrite app_nil_r.
  rewrite (skipn_all2 (n := length d0)) by (rewrite app_length, skipn_length; lia). rewrite app_nil_r.
  rewrite skipn_skipn, app_length, <- !app_assoc. reflexivity.
Qed.
(* the same facts in exactly the shape the generated code and the model's own checks have (cheap side conditions) *)
Lemma zlen_fill (out d0 : list Z) : (length out <= length d0)%nat -> zlen (fill out d0) = Z.of_nat (length d0).
Proof. intros H. unfold zlen. rewrite fill_length by exact H. reflexivity. Qed.
Lemma m_copy_fill' (out d0 lit : list Z) : (length out <= length d0)%nat ->
  m_copy (fill out d0) (Z.of_nat (length out)) (zlen (fill out d0)) lit =
  Ret (fill (out ++ firstn (length d0 - length out) lit) d0, Z.of_nat (length (firstn (length d0 - length out) lit))).
Proof. intros H. apply m_copy_fill; [reflexivity|apply zlen_fill, H|exact H]. Qed.
Lemma m_set_fill' (out d0 : list Z) v : (length out + length [v] <= length d0)%nat ->
  m_set (fill out d0) (Z.of_nat (length out)) v = Ret (fill (out ++ [v]) d0).
Proof. intros H. cbn [length] in H. apply m_set_fill; [reflexivity|lia]. Qed.
Lemma m_set_fill_out' (out d0 : list Z) v : (length d0 < length out + length [v])%nat ->
  m_set (fill out d0) (Z.of_nat (length out)) v = Panic.
Proof. intros H. cbn [length] in H. apply m_set_fill_out; [reflexivity|lia]. Qed.
Lemma m_slice_fill_tail' (out d0 : list Z) : (length out <= length d0)%nat ->
  m_slice (fill out d0) (Z.of_nat (length out)) (zlen (fill out d0)) = Ret (skipn (length out) d0).
Proof. intros H. apply m_slice_fill_tail; [reflexivity|apply zlen_fill, H|exact H]. Qed.
Lemma splice_fill' (out d0 bs : list Z) : (length out + length bs <= length d0)%nat ->
  splice (fill out d0) (Z.of_nat (length out)) (zlen (fill out d0)) (bs ++ skipn (length bs) (skipn (length out) d0)) = fill (out ++ bs) d0.
Proof. intros H. apply splice_fill; [reflexivity|apply zlen_fill; lia|exact H]. Qed.
Lemma swrap32_rune v : 0 <= v <= 1114111 -> swrap 32 v = v.
Proof. intros H. unfold swrap. change (2 ^ (32 - 1)) with 2147483648. change (2 ^ 32) with 4294967296. rewrite Z.mod_small by lia. lia. Qed.
Lemma pu_step_nonneg base maxv n c n1 : pu_step base maxv n c = inl n1 -> 0 <= n1.
Proof.
  unfold pu_step. destruct (digit c); [|discriminate]. destruct (base <=? z); [discriminate|]. destruct (cutoff base <=? n); [discriminate|].
  cbv zeta. destruct (_ || _); [discriminate|]. intros H. injection H as <-. apply Z.mod_pos_bound. reflexivity.
Qed.
Lemma pu_nonneg base maxv : 0 <= maxv -> forall ds n j v j' ok, 0 <= n -> pu base maxv n j ds = (v, j', ok) -> 0 <= v.
Proof.
  intros Hm. induction ds as [|c t IH]; intros n j v j' ok Hn H.
  - cbn [pu] in H. injection H as <- _ _. exact Hn.
  - rewrite pu_cons in H. destruct (pu_step base maxv n c) as [n1|w] eqn:E.
    + apply (IH n1 (S j) v j' ok); [eapply pu_step_nonneg; exact E|exact H].
    + injection H as <- _ _. unfold pu_step in E. destruct (digit c); [|injection E as <-; lia].
      destruct (base <=? z); [injection E as <-; lia|]. destruct (cutoff base <=? n); [injection E as <-; exact Hm|].
      cbv zeta in E. destruct (_ || _); [injection E as <-; exact Hm|discriminate].
Qed.
Lemma pu_le base maxv : 0 <= maxv -> forall ds n j v j' ok, n <= maxv -> pu base maxv n j ds = (v, j', ok) -> v <= maxv.
Proof.
  intros Hm. induction ds as [|c t IH]; intros n j v j' ok Hn H.
  - cbn [pu] in H. injection H as <- _ _. exact Hn.
  - rewrite pu_cons in H. destruct (pu_step base maxv n c) as [n1|w] eqn:E.
    + apply (IH n1 (S j) v j' ok); [|exact H]. unfold pu_step in E. destruct (digit c); [|discriminate].
      destruct (base <=? z); [discriminate|]. destruct (cutoff base <=? n); [discriminate|]. cbv zeta in E.
      destruct (((n * base) mod two64 + z) mod two64 <? (n * base) mod two64); cbn [orb] in E; [discriminate|].
      destruct (Z.ltb_spec maxv (((n * base) mod two64 + z) mod two64)); [discriminate|]. injection E as <-. assumption.
    + injection H as <- _ _. unfold pu_step in E. destruct (digit c); [|injection E as <-; lia].
      destruct (base <=? z); [injection E as <-; lia|]. destruct (cutoff base <=? n); [injection E as <-; lia|].
      cbv zeta in E. destruct (_ || _); [injection E as <-; lia|discriminate].
Qed.
(* the model's loop, one iteration at a time: it ends ([finish]) when fewer than W bytes are left, otherwise it moves on *)
Section ParseStep.
Variables (W P : nat) (prefix : list Z) (base maxv : Z) (emit : Z -> option (list Z)) (dl : nat).
Definition gstep (src : list Z) (i f : nat) (out : list Z) : option (nat * nat * list Z) :=
  match pfx_ok P prefix src i with
  | None => None
  | Some false => Some (S i, f, out)
  | Some true =>
      match Codec.slice src (i + P) (i + W) with
      | None => None
      | Some ds =>
          let '(v, j, ok) := pu base maxv 0 0%nat ds in
          if negb ok then Some ((i + P + j)%nat, f, out)
          else match emit v with
               | None => Some ((i + W)%nat, f, out)
               | Some bs =>
                   match flush dl src f i out with
                   | None => None
                   | Some out1 => match write dl out1 bs with None => None | Some out2 => Some ((i + W)%nat, (i + W)%nat, out2) end
                   end
               end
      end
  end.
Lemma gparse_S fu src i f out :
  gparse W P prefix base maxv emit dl (S fu) src i f out =
  if (length src <=? i)%nat || (length src - i <? W)%nat then finish dl src f out
  else match gstep src i f out with None => None | Some (i', f', out') => gparse W P prefix base maxv emit dl fu src i' f' out' end.
Proof.
  cbn [gparse]. cbv zeta. destruct (length src <=? i)%nat; cbn [orb]; [reflexivity|]. destruct (length src - i <? W)%nat; [reflexivity|].
  unfold gstep. destruct (pfx_ok P prefix src i) as [[|]|]; try reflexivity.
  destruct (Codec.slice src (i + P) (i + W)) as [ds|]; [|reflexivity].
  destruct (pu base maxv 0 0%nat ds) as [[v j] ok]. destruct ok; cbn [negb]; [|reflexivity].
  destruct (emit v) as [bs|]; [|reflexivity]. destruct (flush dl src f i out) as [out1|]; [|reflexivity].
  destruct (write dl out1 bs); reflexivity.
Qed.
Lemma gstep_inv src i f out i' f' out' : (1 <= P)%nat -> (1 <= W)%nat -> (length out <= dl)%nat ->
  gstep src i f out = Some (i', f', out') -> (i < i')%nat /\ (length out' <= dl)%nat.
Proof.
  intros HP HW Ho H. unfold gstep in H. destruct (pfx_ok P prefix src i) as [[|]|]; try discriminate.
  2:{ injection H as <- <- <-. lia. }
  destruct (Codec.slice src (i + P) (i + W)) as [ds|]; [|discriminate].
  destruct (pu base maxv 0 0%nat ds) as [[v j] ok]. destruct ok; cbn [negb] in H.
  2:{ injection H as <- <- <-. lia. }
  destruct (emit v) as [bs|].
  2:{ injection H as <- <- <-. lia. }
  destruct (flush dl src f i out) as [out1|] eqn:Ef; [|discriminate].
  destruct (write dl out1 bs) as [out2|] eqn:Ew; [|discriminate]. injection H as <- <- <-. split; [lia|].
  unfold write in Ew. destruct (Nat.leb_spec (length out1 + length bs) dl); [|discriminate]. injection Ew as <-. rewrite app_length. lia.
Qed.
End ParseStep.

(* the loop and what follows it (K: the code behind the loop, a function of the loop's result), for any packing pk of
   (dst, e, f, i), given what one iteration does (ending / moving on) and what the code behind the loop does *)
Lemma parse_while {St} (pk : list Z -> Z -> Z -> Z -> St) (c : St -> M bool) (b : St -> M (ctl St (list Z * Z))) (p : St -> M St)
    (K : St + (list Z * Z) -> M (list Z * Z))
    (W P : nat) (prefix : list Z) (base maxv : Z) (emit : Z -> option (list Z)) (src d0 : list Z) :
  let ST := fun (out : list Z) (f i : nat) => pk (fill out d0) (Z.of_nat (length out)) (Z.of_nat f) (Z.of_nat i) in
  (1 <= P)%nat -> (1 <= W)%nat ->
  (forall out f i, (length out <= length d0)%nat -> (length src <= i \/ length src - i < W)%nat ->
     iter1 c b p (ST out f i) = Ret (inr (inl (ST out f i)))) ->
  (forall out f i, (length out <= length d0)%nat -> (i < length src)%nat -> (W <= length src - i)%nat ->
     iter1 c b p (ST out f i) =
     match gstep W P prefix base maxv emit (length d0) src i f out with None => Panic | Some (i', f', out') => Ret (inl (ST out' f' i')) end) ->
  (forall out f i, (length out <= length d0)%nat ->
     K (inl (ST out f i)) = mmap (parse_res d0) (lift (finish (length d0) src f out))) ->
  forall fuel i f out, (length out <= length d0)%nat -> (length src - i < fuel)%nat ->
    bind (while fuel c b p (ST out f i)) K = mmap (parse_res d0) (lift (gparse W P prefix base maxv emit (length d0) fuel src i f out)).
Proof.
  intros ST HP HW Hexit Hstep Hafter. induction fuel as [|fuel IH]; intros i f out Ho Hf; [lia|].
  rewrite while_iter, gparse_S.
  destruct (Nat.leb_spec (length src) i) as [Hge|Hlt]; cbn [orb].
  { rewrite Hexit by (auto; lia). cbn [bind]. apply Hafter, Ho. }
  destruct (Nat.ltb_spec (length src - i) W) as [Hshort|Hroom].
  { rewrite Hexit by (auto; lia). cbn [bind]. apply Hafter, Ho. }
  rewrite Hstep by lia.
  destruct (gstep W P prefix base maxv emit (length d0) src i f out) as [[[i' f'] out']|] eqn:Eg; [|reflexivity].
  destruct (gstep_inv W P prefix base maxv emit (length d0) src i f out i' f' out' HP HW Ho Eg) as [Hi Ho'].
  cbn [bind]. apply IH; [exact Ho'|lia].
Qed.

(* the prefix test of the model, for the two prefix lengths in use *)
Lemma firstn1_skipn (l : list Z) i : (i < length l)%nat -> firstn 1 (skipn i l) = [nth i l 0].
Proof. intros H. rewrite (skipn_cons_nth l i H). reflexivity. Qed.
Lemma firstn2_skipn (l : list Z) i : (i + 1 < length l)%nat -> firstn 2 (skipn i l) = [nth i l 0; nth (i + 1) l 0].
Proof. intros H. rewrite (skipn_cons_nth l i) by lia. rewrite (skipn_cons_nth l (S i)) by lia. rewrite Nat.add_1_r. reflexivity. Qed.
Lemma pfx_ok_1 c0 src i : (i < length src)%nat -> pfx_ok 1 [c0] src i = Some (nth i src 0 =? c0).
Proof.
  intros H. unfold pfx_ok. rewrite slice_some by lia. replace (i + 1 - i)%nat with 1%nat by lia. rewrite firstn1_skipn by exact H.
  destruct (list_eq_dec Z.eq_dec [nth i src 0] [c0]) as [E|E]; destruct (Z.eqb_spec (nth i src 0) c0); congruence.
Qed.
Lemma pfx_ok_2 c0 c1 src i : (i + 1 < length src)%nat -> pfx_ok 2 [c0; c1] src i = Some ((nth i src 0 =? c0) && (nth (i + 1) src 0 =? c1)).
Proof.
  intros H. unfold pfx_ok. rewrite slice_some by lia. replace (i + 2 - i)%nat with 2%nat by lia. rewrite firstn2_skipn by exact H.
  destruct (list_eq_dec Z.eq_dec [nth i src 0; nth (i + 1) src 0] [c0; c1]) as [E|E];
    destruct (Z.eqb_spec (nth i src 0) c0); destruct (Z.eqb_spec (nth (i + 1) src 0) c1); cbn [andb]; congruence.
Qed.

Section ParseFuel.
Variables (W P : nat) (prefix : list Z) (base maxv : Z) (emit : Z -> option (list Z)) (dl : nat).
Lemma gstep_adv src i f out i' f' out' : (1 <= P)%nat -> (1 <= W)%nat ->
  gstep W P prefix base maxv emit dl src i f out = Some (i', f', out') -> (i < i')%nat.
Proof.
  intros HP HW H. unfold gstep in H. destruct (pfx_ok P prefix src i) as [[|]|]; try discriminate.
  2:{ injection H as <- <- <-. lia. }
  destruct (Codec.slice src (i + P) (i + W)) as [ds|]; [|discriminate].
  destruct (pu base maxv 0 0%nat ds) as [[v j] ok]. destruct ok; cbn [negb] in H.
  2:{ injection H as <- <- <-. lia. }
  destruct (emit v) as [bs|].
  2:{ injection H as <- <- <-. lia. }
  destruct (flush dl src f i out) as [out1|]; [|discriminate].
  destruct (write dl out1 bs) as [out2|]; [|discriminate]. injection H as <- <- <-. lia.
Qed.
(* any two sufficient amounts of fuel give the same result *)
Lemma gparse_fuel src : (1 <= P)%nat -> (1 <= W)%nat -> forall f1 f2 i f out, (length src - i < f1)%nat -> (length src - i < f2)%nat ->
  gparse W P prefix base maxv emit dl f1 src i f out = gparse W P prefix base maxv emit dl f2 src i f out.
Proof.
  intros HP HW. induction f1 as [|f1 IH]; intros f2 i f out H1 H2; [lia|]. destruct f2 as [|f2]; [lia|].
  rewrite !gparse_S. destruct ((length src <=? i)%nat || (length src - i <? W)%nat) eqn:E; [reflexivity|].
  destruct (gstep W P prefix base maxv emit dl src i f out) as [[[i' f'] out']|] eqn:Eg; [|reflexivity].
  pose proof (gstep_adv src i f out i' f' out' HP HW Eg). apply orb_false_iff in E. destruct E as [E1 E2].
  apply Nat.leb_gt in E1. apply IH; lia.
Qed.
End ParseFuel.

#[export] Hint Rewrite app_length firstn_length skipn_length repeat_length map_length : lens.
Ltac fill_side :=
  first [ reflexivity | lia | (cbn [length] in *; lia)
        | (unfold zlen; rewrite ?fill_length by (autorewrite with lens; cbn [length]; lia); autorewrite with lens; cbn [length] in *; lia)
        | (unfold zlen in *; rewrite ?fill_length in * by (autorewrite with lens; cbn [length]; lia); autorewrite with lens in *; cbn [length] in *; lia) ].
(* after the literal run has been copied: what was written so far becomes a variable (only its length matters from here on) *)
Ltac abstract_out :=
  match goal with |- context [fill (?o ++ firstn ?n ?l) ?d] =>
    let o1 := fresh "out1" in let Ho1 := fresh "Ho1" in
    set (o1 := o ++ firstn n l) in *;
    assert (Ho1 : (length o1 <= length d)%nat) by (subst o1; autorewrite with lens; lia);
    replace (Z.of_nat (length o) + Z.of_nat (length (firstn n l))) with (Z.of_nat (length o1)) by (subst o1; autorewrite with lens; lia);
    clearbody o1
  end.
(* evaluation of straight-line generated code: the checked operations are rewritten into their values (or into Panic) as
   soon as the hypotheses decide them; otherwise the next comparison (of either side) is split *)
(* the conditions of the model side first: afterwards every operation of the code is decided by the hypotheses *)
Ltac break_rhs :=
  match goal with |- _ = ?rhs =>
    match rhs with
    | context [?a =? ?b] => destruct (a =? b) eqn:?
    | context [?a <? ?b] => destruct (a <? b) eqn:?
    | context [?a <=? ?b] => destruct (a <=? b) eqn:?
    | context [(?a <=? ?b)%nat] => destruct (a <=? b)%nat eqn:?
    | context [(?a <? ?b)%nat] => destruct (a <? b)%nat eqn:?
    | context [if ?c then _ else _] => destruct c eqn:?
    end
  end; cbn [negb andb orb].
(* a comparison of the code that the hypotheses decide *)
Ltac decide_cmp :=
  match goal with
  | |- context [?a <? ?b] => first [ rewrite (proj2 (Z.ltb_lt a b)) by lia | rewrite (proj2 (Z.ltb_ge a b)) by lia ]
  | |- context [?a <=? ?b] => first [ rewrite (proj2 (Z.leb_le a b)) by lia | rewrite (proj2 (Z.leb_gt a b)) by lia ]
  | |- context [?a =? ?b] => first [ rewrite (proj2 (Z.eqb_eq a b)) by lia | rewrite (proj2 (Z.eqb_neq a b)) by lia ]
  end; cbn [negb andb orb].
Ltac parse_eval src :=
  repeat first
    [ progress step_code
    | rewrite (slice_some src) by lia
    | (break_rhs; zb; try solve [exfalso; lia])
    | decide_cmp
    | rewrite wrap8_mod
    | rewrite swrap32_rune by lia
    | match goal with
      | |- context [m_slice src (Z.of_nat ?na) (Z.of_nat ?nb)] =>
          rewrite (m_slice_nat src (Z.of_nat na) (Z.of_nat nb) na nb eq_refl eq_refl) by lia
      | |- context [m_slice src (Z.of_nat ?na) (zlen src)] =>
          rewrite (m_slice_nat src (Z.of_nat na) (zlen src) na (length src) eq_refl eq_refl) by lia
      end
    | (rewrite m_copy_fill' by (first [assumption | lia]); try abstract_out)
    | rewrite m_set_fill' by (first [assumption | lia])
    | rewrite m_set_fill_out' by (first [assumption | lia])
    | rewrite m_slice_fill_tail' by (first [assumption | lia])
    | rewrite encode_fill_ok by (first [assumption | lia])
    | rewrite encode_fill_panic by (first [assumption | lia])
    | rewrite splice_fill' by (first [assumption | lia])
    | (erewrite m_copy_fill by fill_side; try abstract_out)
    | erewrite m_set_fill by fill_side
    | erewrite m_set_fill_out by fill_side
    | erewrite m_slice_fill_tail by fill_side
    | rewrite encode_fill_ok by fill_side
    | rewrite encode_fill_panic by fill_side
    | erewrite splice_fill by fill_side
    | (break_if; zb; try solve [exfalso; lia]) ].
Ltac parse_leaf := first [ reflexivity | (exfalso; fill_side) | (repeat f_equal; fill_side) ].

Ltac parse_shape pk c b p K fuel W P prefix base bits maxv emit pfx_tac :=
  lazymatch goal with Hfuel : (length ?src < fuel)%nat |- _ = mmap (parse_res ?d0) _ =>
    let Hexit := fresh "Hexit" in let Hstep := fresh "Hstep" in let Hafter := fresh "Hafter" in
    assert (Hexit : forall out f i, (length out <= length d0)%nat -> (length src <= i \/ length src - i < W)%nat ->
       iter1 c b p (pk (fill out d0) (Z.of_nat (length out)) (Z.of_nat f) (Z.of_nat i)) =
       Ret (inr (inl (pk (fill out d0) (Z.of_nat (length out)) (Z.of_nat f) (Z.of_nat i)))));
    [ intros; iter_open; unfold zlen; repeat break_if; zb; try reflexivity; exfalso; lia | ];
    assert (Hstep : forall out f i, (length out <= length d0)%nat -> (i < length src)%nat -> (W <= length src - i)%nat ->
       iter1 c b p (pk (fill out d0) (Z.of_nat (length out)) (Z.of_nat f) (Z.of_nat i)) =
       match gstep W P prefix base maxv emit (length d0) src i f out with
       | None => Panic
       | Some (i', f', out') => Ret (inl (pk (fill out' d0) (Z.of_nat (length out')) (Z.of_nat f') (Z.of_nat i')))
       end);
    [ let out := fresh "out" in let f := fresh "f" in let i := fresh "i" in
      let Ho := fresh "Ho" in let Hi := fresh "Hi" in let Hroom := fresh "Hroom" in
      intros out f i Ho Hi Hroom; iter_open;
      assert (Hc1 : (Z.of_nat i <? zlen src) = true) by (apply Z.ltb_lt; unfold zlen; lia);
      assert (Hc2 : (zlen src - Z.of_nat i <? Z.of_nat W) = false) by (apply Z.ltb_ge; unfold zlen; lia);
      cbn [Z.of_nat Pos.of_succ_nat Pos.succ] in Hc2; rewrite ?Hc1, ?Hc2;
      unfold gstep; pfx_tac;
      rewrite ?(m_get_nat src _ i) by lia; rewrite ?(m_get_nat src _ (i + 1)%nat) by lia;
      rewrite (slice_some src (i + P) (i + W)) by lia;
      erewrite (m_slice_nat src _ _ (i + P)%nat (i + W)%nat) by lia;
      rewrite code_parseUint by (rewrite ?firstn_length; lia);
      unfold parse_uint; change (maxval bits) with maxv;
      let v := fresh "v" in let j := fresh "j" in let ok := fresh "ok" in
      let Epu := fresh "Epu" in
      destruct (pu base maxv 0 0%nat (firstn (i + W - (i + P)) (skipn (i + P) src))) as [[v j] ok] eqn:Epu;
      pose proof (pu_nonneg base maxv ltac:(lia) _ 0 0%nat _ _ _ ltac:(lia) Epu) as Hvnn; clear Epu;
      cbn [pu_res]; unfold emit, flush, write, copy_into, MaxRune, RuneSelf; destruct ok; parse_eval src; parse_leaf
    | ];
    assert (Hafter : forall out f i, (length out <= length d0)%nat ->
       K (inl (pk (fill out d0) (Z.of_nat (length out)) (Z.of_nat f) (Z.of_nat i))) = mmap (parse_res d0) (lift (finish (length d0) src f out)));
    [ let out := fresh "out" in let f := fresh "f" in let i := fresh "i" in let Ho := fresh "Ho" in
      intros out f i Ho; cbv beta iota zeta delta [bind]; unfold finish, copy_into; parse_eval src;
      cbn [mmap lift]; unfold parse_res; parse_leaf
    | ];
    exact (parse_while pk c b p K W P prefix base maxv emit src d0 ltac:(lia) ltac:(lia) Hexit Hstep Hafter fuel 0%nat 0%nat []
             ltac:(cbn [length]; lia) ltac:(lia))
  end.

