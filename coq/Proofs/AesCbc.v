(* C08, functional level: CBC round trip, totality and soundness of AESCBCDecrypt, GCM round trip.
   The block cipher and the AEAD are Section variables with explicit hypotheses (they become premises). *)
From Coq Require Import List ZArith Lia Bool Arith.
From V Require Import Lib.Enc Gen.Cryptz Model.Aes Proofs.AesPkcs7.
Import ListNotations.

(* ---- lists, chunks *)
Lemma xor_len a b : length (xor a b) = Nat.min (length a) (length b).
Proof. unfold xor. rewrite map_length, combine_length. reflexivity. Qed.
Lemma xor_cancel a b : length a = length b -> xor (xor a b) b = a.
Proof.
  revert b; induction a as [|x a IH]; intros [|y b] H; cbn in *; try lia; auto.
  f_equal; [|apply IH; lia]. rewrite Z.lxor_assoc, Z.lxor_nilpotent, Z.lxor_0_r. reflexivity.
Qed.

Lemma copy_into_length dst src : length (copy_into dst src) = length dst.
Proof. unfold copy_into. rewrite app_length, firstn_length, skipn_length. lia. Qed.
Lemma copy_into_same dst src : length src = length dst -> copy_into dst src = src.
Proof. intros H. unfold copy_into. rewrite <- H, firstn_all, H, skipn_all. apply app_nil_r. Qed.
Lemma copy_into_prefix dst src : length src <= length dst -> copy_into dst src = src ++ skipn (length src) dst.
Proof. intros H. unfold copy_into. rewrite firstn_all2 by lia. reflexivity. Qed.

Lemma chunks_concat n : 0 < n -> forall fuel l, length l <= fuel -> concat (chunks n l fuel) = l.
Proof.
  intros Hn. induction fuel as [|f IH]; intros l Hl.
  - destruct l; [reflexivity|cbn in Hl; lia].
  - cbn [chunks]. destruct l as [|x t] eqn:El; [reflexivity|]. rewrite <- El in *. cbn [concat].
    rewrite IH; [apply firstn_skipn|]. rewrite skipn_length. subst l. cbn [length] in *. lia.
Qed.
Lemma chunks_forall n : 0 < n -> forall fuel l, length l <= fuel -> length l mod n = 0 ->
  Forall (fun b => length b = n) (chunks n l fuel).
Proof.
  intros Hn. induction fuel as [|f IH]; intros l Hl Hm; [constructor|].
  cbn [chunks]. destruct l as [|x t] eqn:El; [constructor|]. rewrite <- El in *.
  assert (Hge : n <= length l).
  { apply Nat.mod_divides in Hm; [|lia]. destruct Hm as [c Hc]. destruct c; [subst l; cbn in Hc; lia|]. nia. }
  constructor.
  - rewrite firstn_length. lia.
  - apply IH.
    + rewrite skipn_length. subst l. cbn [length] in *. lia.
    + rewrite skipn_length. apply Nat.mod_divides in Hm; [|lia]. destruct Hm as [c Hc]. rewrite Hc.
      destruct c; [lia|]. replace (n * S c - n) with (c * n) by nia. apply Nat.mod_mul. lia.
Qed.
Lemma chunks_of_concat n : 0 < n -> forall bs fuel, Forall (fun b => length b = n) bs -> length (concat bs) <= fuel ->
  chunks n (concat bs) fuel = bs.
Proof.
  intros Hn. induction bs as [|b t IH]; intros fuel Hf Hl.
  - destruct fuel; reflexivity.
  - inversion Hf as [|? ? Hb Ht]; subst. cbn [concat] in *. rewrite app_length in Hl.
    destruct fuel as [|f]; [lia|]. cbn [chunks].
    destruct (b ++ concat t) as [|x r] eqn:E; [destruct b; cbn in *; [lia|discriminate]|]. rewrite <- E.
    rewrite firstn_app, Nat.sub_diag, firstn_all. cbn [firstn]. rewrite app_nil_r.
    rewrite skipn_app, Nat.sub_diag, skipn_all. cbn [skipn app]. rewrite IH by (auto; lia). reflexivity.
Qed.

Lemma blocks_concat d : concat (blocks d) = d.
Proof. apply chunks_concat; [rewrite BS_eq; lia|lia]. Qed.
Lemma blocks_forall d : length d mod 16 = 0 -> Forall (fun b => length b = 16) (blocks d).
Proof. intros H. apply (chunks_forall 16); [lia|lia|exact H]. Qed.
Lemma blocks_of_concat bs : Forall (fun b => length b = 16) bs -> blocks (concat bs) = bs.
Proof. intros H. apply (chunks_of_concat 16); [lia|exact H|lia]. Qed.
Lemma concat_length16 (bs : list bytes) : Forall (fun b => length b = 16) bs -> length (concat bs) = 16 * length bs.
Proof. induction 1 as [|b t Hb Ht IH]; [reflexivity|]. cbn [concat length]. rewrite app_length, IH, Hb. lia. Qed.

Lemma pad_len_facts n : let k := 16 - n mod 16 in 1 <= k <= 16 /\ (n + k) mod 16 = 0 /\ 16 <= n + k.
Proof.
  cbv zeta. pose proof (mod16_lt n). pose proof (Nat.div_mod n 16 ltac:(lia)) as Edm. split; [lia|]. split; [|lia].
  replace (n + (16 - n mod 16)) with ((n / 16 + 1) * 16) by lia. apply Nat.mod_mul. lia.
Qed.

Section Cipher.
Variable E D : bytes -> bytes -> bytes.
Hypothesis D_E : forall k b, good_key k = true -> length b = 16 -> D k (E k b) = b.
Hypothesis E_len : forall k b, good_key k = true -> length b = 16 -> length (E k b) = 16.

Local Notation cbc_enc := (cbc_enc E).
Local Notation cbc_dec := (cbc_dec D).
Local Notation cbc_enc_bytes := (cbc_enc_bytes E).
Local Notation cbc_dec_bytes := (cbc_dec_bytes D).
Local Notation cbc_encrypt := (cbc_encrypt E).
Local Notation cbc_decrypt := (cbc_decrypt D).

Lemma cbc_enc_forall k : good_key k = true -> forall bs iv, length iv = 16 -> Forall (fun b => length b = 16) bs ->
  Forall (fun b => length b = 16) (cbc_enc k iv bs) /\ length (cbc_enc k iv bs) = length bs.
Proof.
  intros Hk. induction bs as [|b t IH]; intros iv Hiv Hbs; cbn [Aes.cbc_enc]; [split; [constructor|reflexivity]|].
  inversion Hbs as [|? ? Hb Ht]; subst.
  assert (Hc : length (E k (xor b iv)) = 16) by (apply E_len; [exact Hk|rewrite xor_len; lia]).
  destruct (IH _ Hc Ht) as [F L]. split; [constructor; assumption|cbn [length]; lia].
Qed.

(* NIST CBC decryption inverts CBC encryption block for block *)
Lemma cbc_blocks_roundtrip k : good_key k = true -> forall bs iv, length iv = 16 -> Forall (fun b => length b = 16) bs ->
  cbc_dec k iv (cbc_enc k iv bs) = bs.
Proof.
  intros Hk. induction bs as [|b t IH]; intros iv Hiv Hbs; cbn [Aes.cbc_enc Aes.cbc_dec]; [reflexivity|].
  inversion Hbs as [|? ? Hb Ht]; subst. f_equal.
  - rewrite D_E by (auto; rewrite xor_len; lia). apply xor_cancel. lia.
  - apply IH; auto. apply E_len; [exact Hk|]. rewrite xor_len. lia.
Qed.

Lemma cbc_bytes_roundtrip k iv d : good_key k = true -> length iv = 16 -> length d mod 16 = 0 ->
  cbc_dec_bytes k iv (cbc_enc_bytes k iv d) = d /\ length (cbc_enc_bytes k iv d) = length d.
Proof.
  intros Hk Hiv Hd. unfold Aes.cbc_dec_bytes, Aes.cbc_enc_bytes.
  destruct (cbc_enc_forall k Hk (blocks d) iv Hiv (blocks_forall d Hd)) as [F L].
  rewrite blocks_of_concat by exact F. rewrite cbc_blocks_roundtrip by (auto using blocks_forall).
  split; [apply blocks_concat|]. rewrite concat_length16 by exact F. rewrite L.
  pose proof (concat_length16 (blocks d) (blocks_forall d Hd)) as C. rewrite blocks_concat in C. symmetry. exact C.
Qed.

(* AESCBCEncrypt into a destination of exactly AESCBCEncryptLen bytes: the CBC chain over plaintext ++ k bytes of value k *)
Theorem cbc_encrypt_spec dst plain key iv : good_key key = true -> length iv = 16 ->
  Z.of_nat (length dst) = cbc_encrypt_len (length plain) ->
  let k := 16 - length plain mod 16 in
  cbc_encrypt dst plain key iv = Ok (cbc_enc_bytes key iv (pkcs7_padded plain k)) /\
  length (cbc_enc_bytes key iv (pkcs7_padded plain k)) = length dst.
Proof.
  intros Hk Hiv Hlen. cbv zeta. destruct (cbc_encrypt_len_exact (length plain)) as [_ EL]. rewrite EL in Hlen.
  apply Nat2Z.inj in Hlen. destruct (pad_len_facts (length plain)) as (K1 & K2 & K3). set (k := 16 - length plain mod 16) in *.
  assert (Hpl : length (pkcs7_padded plain k) = length plain + k)
    by (unfold pkcs7_padded; rewrite app_length, repeat_length; reflexivity).
  split.
  - unfold Aes.cbc_encrypt, cbc_encrypt_prep. rewrite Hk. cbn [negb]. rewrite masked_mod, BS_eq. fold k.
    destruct (Nat.ltb_spec (length dst) (length plain)); [lia|].
    rewrite pad_table_spec by lia.
    rewrite (copy_into_prefix dst plain) by lia.
    rewrite firstn_app, Nat.sub_diag, firstn_all. cbn [firstn]. rewrite app_nil_r.
    rewrite skipn_app, Nat.sub_diag, skipn_all. cbn [skipn app].
    rewrite copy_into_same by (rewrite repeat_length, skipn_length; lia).
    rewrite Hiv. cbn [Nat.eqb negb]. fold (pkcs7_padded plain k). rewrite Hpl, K2. cbn [Nat.eqb negb]. reflexivity.
  - destruct (cbc_bytes_roundtrip key iv (pkcs7_padded plain k) Hk Hiv) as [_ L]; [rewrite Hpl; exact K2|]. lia.
Qed.

(* round trip, every plaintext length (0 and multiples of 16 included: a full block of padding) *)
Theorem cbc_roundtrip dst dst2 plain key iv : good_key key = true -> length iv = 16 ->
  Z.of_nat (length dst) = cbc_encrypt_len (length plain) -> length dst2 = length dst ->
  exists c, cbc_encrypt dst plain key iv = Ok c /\ length c = length dst /\
  exists d, cbc_decrypt dst2 c key iv = Ok (length plain, d) /\ firstn (length plain) d = plain.
Proof.
  intros Hk Hiv Hlen H2. destruct (cbc_encrypt_spec dst plain key iv Hk Hiv Hlen) as [Eenc Lc]. cbv zeta in *.
  destruct (pad_len_facts (length plain)) as (K1 & K2 & K3). set (k := 16 - length plain mod 16) in *.
  assert (Hpl : length (pkcs7_padded plain k) = length plain + k)
    by (unfold pkcs7_padded; rewrite app_length, repeat_length; reflexivity).
  destruct (cbc_bytes_roundtrip key iv (pkcs7_padded plain k) Hk Hiv) as [RT L]; [rewrite Hpl; exact K2|].
  eexists. split; [exact Eenc|]. split; [exact Lc|].
  exists (pkcs7_padded plain k). split.
  - unfold Aes.cbc_decrypt. rewrite masked_mod, BS_eq, L, Hpl, K2, Hk, Hiv.
    destruct (Nat.ltb_spec (length plain + k) 16); [lia|]. cbn [Nat.eqb negb orb].
    destruct (Nat.ltb_spec (length dst2) (length plain + k)); [lia|].
    rewrite RT. rewrite copy_into_same by lia.
    assert (U : unpad_tbl (pkcs7_padded plain k) = Ok (length plain)).
    { apply unpad_tbl_sound_complete; [lia|]. exists k. split; [lia|]. split; [lia|].
      unfold pkcs7_padded. rewrite skipn_app, skipn_all, Nat.sub_diag. reflexivity. }
    rewrite U. reflexivity.
  - unfold pkcs7_padded. rewrite firstn_app, Nat.sub_diag, firstn_all. cbn [firstn]. apply app_nil_r.
Qed.

(* AESCBCDecrypt with a 16-byte IV and a destination at least as long as the ciphertext never panics, whatever the
   ciphertext, key and destination content *)
Theorem cbc_decrypt_total dst ct key iv : length iv = 16 -> length ct <= length dst -> cbc_decrypt dst ct key iv <> Panic.
Proof.
  intros Hiv Hd. unfold Aes.cbc_decrypt. rewrite masked_mod, BS_eq.
  destruct (Nat.ltb_spec (length ct) 16); cbn [orb]; [discriminate|].
  destruct (Nat.eqb_spec (length ct mod 16) 0) as [Hm|]; cbn [negb]; [|discriminate].
  destruct (good_key key); cbn [negb]; [|discriminate]. rewrite Hiv. cbn [Nat.eqb negb].
  destruct (Nat.ltb_spec (length dst) (length ct)); [lia|].
  destruct (unpad_tbl _) eqn:U; try discriminate.
  exfalso. revert U. apply unpad_tbl_never_panics. rewrite copy_into_length. lia.
Qed.

(* a returned length is never wrong: the destination ends with k bytes of value k, 1 <= k <= 16, after position n;
   illegal ciphertext lengths and key sizes are errors *)
Theorem cbc_decrypt_sound dst ct key iv n d : cbc_decrypt dst ct key iv = Ok (n, d) ->
  good_key key = true /\ 16 <= length ct /\ length ct mod 16 = 0 /\ length d = length dst /\
  exists k, 1 <= k <= 16 /\ n + k = length d /\ skipn n d = repeat (Z.of_nat k) k.
Proof.
  unfold Aes.cbc_decrypt. rewrite masked_mod, BS_eq.
  destruct (Nat.ltb_spec (length ct) 16); cbn [orb]; [discriminate|].
  destruct (Nat.eqb_spec (length ct mod 16) 0) as [Hm|]; cbn [negb]; [|discriminate].
  destruct (good_key key); cbn [negb]; [|discriminate].
  destruct (negb (length iv =? 16)); [discriminate|].
  destruct (Nat.ltb_spec (length dst) (length ct)); [discriminate|].
  destruct (unpad_tbl _) eqn:U; try discriminate. intros Eq. inversion Eq; subst.
  repeat split; auto; [apply copy_into_length|].
  apply unpad_tbl_sound_complete in U; [exact U|]. rewrite copy_into_length. lia.
Qed.

Theorem cbc_key_size_errors dst x key iv : good_key key = false ->
  cbc_encrypt dst x key iv = Err E_NEWCIPHER /\ exists e, cbc_decrypt dst x key iv = Err e.
Proof.
  intros Hk. unfold Aes.cbc_encrypt, cbc_encrypt_prep, Aes.cbc_decrypt. rewrite Hk. cbn [negb]. split; [reflexivity|].
  destruct (_ || _); eauto.
Qed.
Theorem cbc_ct_length_errors dst ct key iv : length ct < 16 \/ length ct mod 16 <> 0 -> cbc_decrypt dst ct key iv = Err E_CTLEN.
Proof.
  intros H. unfold Aes.cbc_decrypt. rewrite masked_mod, BS_eq.
  destruct (Nat.ltb_spec (length ct) 16); cbn [orb]; [reflexivity|].
  destruct (Nat.eqb_spec (length ct mod 16) 0); cbn [negb]; [lia|reflexivity].
Qed.
End Cipher.

(* ---- GCM *)
Section Aead.
Variable seal : bytes -> bytes -> bytes -> bytes -> bytes.
Variable open : bytes -> bytes -> bytes -> bytes -> option bytes.
Hypothesis open_seal : forall k n p a, good_key k = true -> n <> [] -> open k n (seal k n p a) a = Some p.
Hypothesis seal_len : forall k n p a, length (seal k n p a) = length p + 16.

Local Notation gcm_encrypt := (gcm_encrypt seal).
Local Notation gcm_decrypt := (gcm_decrypt open).

Theorem gcm_roundtrip dst dst2 plain key nonce ad : good_key key = true -> nonce <> [] ->
  Z.of_nat (length dst) = gcm_encrypt_len (length plain) ->
  Z.of_nat (length dst2) = gcm_decrypt_len (length dst) ->
  gcm_encrypt dst plain key nonce ad = Ok (seal key nonce plain ad) /\
  gcm_decrypt dst2 (seal key nonce plain ad) key nonce ad = Ok plain.
Proof.
  intros Hk Hn Hl1 Hl2. unfold gcm_encrypt_len, gcm_decrypt_len in *. change gcm_tag_size with 16%Z in *.
  assert (L1 : length dst = length plain + 16) by lia. assert (L2 : length dst2 = length plain) by lia.
  assert (Hn0 : (length nonce =? 0) = false) by (destruct nonce; [congruence|reflexivity]).
  unfold Aes.gcm_encrypt, Aes.gcm_decrypt. rewrite Hk, Hn0, TAG_eq. cbn [negb]. split.
  - destruct (Nat.leb_spec (length plain + 16) (length dst)); [|lia]. rewrite copy_into_same by (rewrite seal_len; lia). reflexivity.
  - rewrite open_seal by assumption. rewrite seal_len.
    destruct (Nat.leb_spec (length plain + 16 - 16) (length dst2)); [|lia]. rewrite copy_into_same by lia. reflexivity.
Qed.

(* AESGCMDecrypt adds no acceptance path of its own: it succeeds only where the library's Open succeeds *)
Theorem gcm_decrypt_only_if_open dst ct key nonce ad r : gcm_decrypt dst ct key nonce ad = Ok r ->
  good_key key = true /\ nonce <> [] /\ exists p, open key nonce ct ad = Some p.
Proof.
  unfold Aes.gcm_decrypt. destruct (good_key key); cbn [negb]; [|discriminate].
  destruct nonce as [|x t]; cbn [length Nat.eqb]; [discriminate|].
  destruct (open key (x :: t) ct ad) as [p|]; [|discriminate]. intros _. repeat split; [discriminate|eauto].
Qed.

(* tamper evidence relative to an explicit ideal-AEAD premise: if the only (nonce, message, ad) triple the library
   accepts under this key is the sealed one, every change to ciphertext, tag, nonce or additional data is an error *)
Theorem gcm_tamper_relative dst key nonce plain ad nonce' ct' ad' :
  (forall n c a p, open key n c a = Some p -> (n, c, a) = (nonce, seal key nonce plain ad, ad)) ->
  (nonce', ct', ad') <> (nonce, seal key nonce plain ad, ad) ->
  exists e, gcm_decrypt dst ct' key nonce' ad' = Err e.
Proof.
  intros Hideal Hne. destruct (gcm_decrypt dst ct' key nonce' ad') as [r|e|] eqn:G; [|eauto|].
  - apply gcm_decrypt_only_if_open in G. destruct G as (_ & _ & p & Hp). apply Hideal in Hp. congruence.
  - exfalso. revert G. unfold Aes.gcm_decrypt. destruct (negb _); [discriminate|]. destruct (_ =? _); [discriminate|].
    destruct (open _ _ _ _); [|discriminate]. destruct (_ <=? _); discriminate.
Qed.

Theorem gcm_never_panics dst x key nonce ad : gcm_encrypt dst x key nonce ad <> Panic /\ gcm_decrypt dst x key nonce ad <> Panic.
Proof.
  unfold Aes.gcm_encrypt, Aes.gcm_decrypt. split.
  - destruct (negb _); [discriminate|]. destruct (_ =? _); [discriminate|]. destruct (_ <=? _); discriminate.
  - destruct (negb _); [discriminate|]. destruct (_ =? _); [discriminate|].
    destruct (open _ _ _ _); [|discriminate]. destruct (_ <=? _); discriminate.
Qed.
Theorem gcm_key_size_errors dst x key nonce ad : good_key key = false ->
  gcm_encrypt dst x key nonce ad = Err E_NEWCIPHER /\ gcm_decrypt dst x key nonce ad = Err E_NEWCIPHER.
Proof. intros Hk. unfold Aes.gcm_encrypt, Aes.gcm_decrypt. rewrite Hk. split; reflexivity. Qed.
End Aead.

(* the hypotheses are satisfiable: a toy block cipher and a toy AEAD *)
Definition toyE (_ : bytes) (b : bytes) : bytes := map (fun x => Z.lxor x 90) b.
Example toy_cipher_ok : forall k b, good_key k = true -> length b = 16 -> toyE k (toyE k b) = b /\ length (toyE k b) = 16.
Proof.
  intros k b _ Hb. unfold toyE. split; [|rewrite map_length; exact Hb]. rewrite map_map. rewrite <- (map_id b) at 2. apply map_ext. intros x.
  rewrite Z.lxor_assoc, Z.lxor_nilpotent, Z.lxor_0_r. reflexivity.
Qed.
Definition toy_seal (k n p a : bytes) : bytes := p ++ repeat 0%Z 16.
Definition toy_open (k n c a : bytes) : option bytes := Some (firstn (length c - 16) c).
Example toy_aead_ok : forall k n p a, toy_open k n (toy_seal k n p a) a = Some p /\ length (toy_seal k n p a) = length p + 16.
Proof.
  intros. unfold toy_open, toy_seal. rewrite app_length, repeat_length. split; [|reflexivity].
  replace (length p + 16 - 16) with (length p) by lia. rewrite firstn_app, Nat.sub_diag, firstn_all. cbn [firstn]. rewrite app_nil_r. reflexivity.
Qed.
