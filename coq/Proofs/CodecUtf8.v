(* C07 — facts about the UTF-8 model of Lib/Utf8.v that the codec theorems need (kept here, not in Proofs/Utf8Facts.v,
   which other properties share): what the decoder returns is a scalar value and re-encodes to the bytes it read;
   a valid string is the concatenation of the encodings of its runes. *)
From Coq Require Import List ZArith Lia Bool Arith ZifyBool.
From V Require Import Lib.Utf8 Proofs.Utf8Facts Model.Codec.
Import ListNotations.
Local Open Scope Z_scope.
Arguments Z.mul : simpl never.
Arguments Z.add : simpl never.
Arguments Z.sub : simpl never.
Arguments Z.div : simpl never.
Arguments Z.modulo : simpl never.
Ltac Zify.zify_post_hook ::= Z.div_mod_to_equations.

Ltac brk := repeat match goal with
  | |- context [if ?c then _ else _] => destruct c eqn:?
  | H : context [if ?c then _ else _] |- _ => destruct c eqn:?
  end.

(* a decoding step other than "invalid byte" yields a scalar value whose encoding is exactly the bytes consumed *)
Lemma decode_inv s c w : bytes s -> decode s = (c, w) -> (c, w) <> (RuneError, 1%nat) -> s <> [] ->
  valid_scalar c /\ encode c = firstn w s.
Proof.
  intros Hb Hd Hne Hs. destruct s as [|b0 t]; [congruence|]. clear Hs.
  inversion Hb as [|? ? Hb0 Hbt]; subst. unfold is_byte in Hb0.
  unfold decode in Hd. unfold inr, cont in Hd.
  destruct (Z.ltb_spec b0 128) as [H0|H0].
  { inversion Hd; subst. split; [left; lia|]. unfold encode. destruct (Z.ltb_spec c 128); [reflexivity|lia]. }
  destruct ((194 <=? b0) && (b0 <=? 223)) eqn:E2.
  { destruct t as [|b1 t]; [inversion Hd; subst; congruence|].
    destruct ((128 <=? b1) && (b1 <=? 191)) eqn:C1; [|inversion Hd; subst; congruence].
    inversion Hd; subst. clear Hd Hne.
    assert (R : 128 <= b0 mod 32 * 64 + b1 mod 64 < 2048) by lia.
    split; [left; lia|]. unfold encode.
    destruct (Z.ltb_spec (b0 mod 32 * 64 + b1 mod 64) 128); [lia|]. destruct (Z.ltb_spec (b0 mod 32 * 64 + b1 mod 64) 2048); [|lia].
    cbn [firstn]. f_equal; [lia|]. f_equal. lia. }
  destruct ((224 <=? b0) && (b0 <=? 239)) eqn:E3.
  { destruct t as [|b1 [|b2 t]]; try (inversion Hd; subst; congruence).
    destruct (_ && _) eqn:C in Hd; [|inversion Hd; subst; congruence].
    inversion Hd; subst. clear Hd Hne.
    assert (B1 : (if b0 =? 224 then 160 else 128) <= b1 <= (if b0 =? 237 then 159 else 191)) by lia.
    assert (B2 : 128 <= b2 <= 191) by lia. clear C.
    set (c := b0 mod 16 * 4096 + b1 mod 64 * 64 + b2 mod 64).
    assert (R : 2048 <= c < 65536 /\ ~ (55296 <= c <= 57343) /\ c / 4096 = b0 - 224 /\ (c / 64) mod 64 = b1 - 128 /\ c mod 64 = b2 - 128).
    { unfold c. destruct (Z.eqb_spec b0 224); destruct (Z.eqb_spec b0 237); lia. }
    destruct R as (R1 & R2 & R3 & R4 & R5).
    split; [unfold valid_scalar; lia|]. unfold encode.
    destruct (Z.ltb_spec c 128); [lia|]. destruct (Z.ltb_spec c 2048); [lia|]. destruct (Z.ltb_spec c 65536); [|lia].
    cbn [firstn]. rewrite R3, R4, R5. f_equal; [lia|]. f_equal; [lia|]. f_equal. lia. }
  destruct ((240 <=? b0) && (b0 <=? 244)) eqn:E4; [|inversion Hd; subst; congruence].
  destruct t as [|b1 [|b2 [|b3 t]]]; try (inversion Hd; subst; congruence).
  destruct (_ && _) eqn:C in Hd; [|inversion Hd; subst; congruence].
  inversion Hd; subst. clear Hd Hne.
  assert (B1 : (if b0 =? 240 then 144 else 128) <= b1 <= (if b0 =? 244 then 143 else 191)) by lia.
  assert (B2 : 128 <= b2 <= 191) by lia. assert (B3 : 128 <= b3 <= 191) by lia. clear C.
  set (c := b0 mod 8 * 262144 + b1 mod 64 * 4096 + b2 mod 64 * 64 + b3 mod 64).
  assert (R : 65536 <= c <= 1114111 /\ c / 262144 = b0 - 240 /\ (c / 4096) mod 64 = b1 - 128 /\ (c / 64) mod 64 = b2 - 128 /\ c mod 64 = b3 - 128).
  { unfold c. destruct (Z.eqb_spec b0 240); destruct (Z.eqb_spec b0 244); lia. }
  destruct R as (R1 & R3 & R4 & R5 & R6).
  split; [unfold valid_scalar; lia|]. unfold encode.
  destruct (Z.ltb_spec c 128); [lia|]. destruct (Z.ltb_spec c 2048); [lia|]. destruct (Z.ltb_spec c 65536); [lia|].
  cbn [firstn]. rewrite R3, R4, R5, R6. f_equal; [lia|]. f_equal; [lia|]. f_equal; [lia|]. f_equal. lia.
Qed.

(* whatever the decoder returns is a scalar value (U+FFFD for an invalid byte) *)
Lemma decode_valid s : bytes s -> s <> [] -> valid_scalar (fst (decode s)).
Proof.
  intros Hb Hs. destruct (decode s) as [c w] eqn:Ed. cbn [fst].
  destruct (Z.eq_dec c RuneError) as [->|Hc]; [unfold valid_scalar, RuneError; lia|].
  apply (decode_inv s c w Hb Ed); [|exact Hs]. intros E. inversion E. contradiction.
Qed.

Lemma encode_rune_scalar r : valid_scalar r -> encode_rune r = encode r.
Proof.
  intros H. unfold encode_rune, valid_scalar in *.
  destruct (Z.ltb_spec r 0); [lia|]. destruct (Z.ltb_spec 1114111 r); [lia|]. cbn [orb].
  destruct (Z.leb_spec 55296 r); [|reflexivity]. destruct (Z.leb_spec r 57343); [lia|reflexivity].
Qed.

Lemma bytes_skipn k s : bytes s -> bytes (skipn k s).
Proof.
  unfold bytes. revert s. induction k as [|k IH]; intros s H; [exact H|]. destruct s; [constructor|]. inversion H; subst. cbn [skipn]. apply IH. assumption.
Qed.

(* all runes of a byte string are scalar values *)
Lemma decode_all_valid : forall fu s, bytes s -> Forall valid_scalar (map fst (decode_all_fuel fu s)).
Proof.
  induction fu as [|fu IH]; intros s Hb; [constructor|]. cbn [decode_all_fuel]. destruct s as [|b0 t] eqn:Es; [constructor|].
  rewrite <- Es in *. destruct (decode s) as [r w] eqn:Ed. cbn [map fst]. constructor.
  - replace r with (fst (decode s)) by (rewrite Ed; reflexivity). apply decode_valid; [exact Hb|subst; discriminate].
  - apply IH. apply bytes_skipn. exact Hb.
Qed.
Lemma runes_valid s : bytes s -> Forall valid_scalar (runes s).
Proof. intros H. unfold runes, decode_all. apply decode_all_valid. exact H. Qed.

(* a valid UTF-8 string is the concatenation of the encodings of its runes *)
Lemma sanitize_valid_go : forall fu s, bytes s -> (length s <= fu)%nat ->
  forallb (fun p => negb ((fst p =? RuneError) && (Nat.eqb (snd p) 1))) (decode_all_fuel fu s) = true ->
  concat (map encode_rune (map fst (decode_all_fuel fu s))) = s.
Proof.
  induction fu as [|fu IH]; intros s Hb Hl Hv.
  - destruct s; [reflexivity|cbn [length] in Hl; lia].
  - cbn [decode_all_fuel] in *. destruct s as [|b0 t] eqn:Es; [reflexivity|]. rewrite <- Es in *.
    assert (Hne : s <> []) by (subst; discriminate).
    destruct (decode s) as [r w] eqn:Ed. cbn [forallb map fst snd concat] in *.
    apply andb_prop in Hv. destruct Hv as [Hv1 Hv2].
    assert (Hn : (r, w) <> (RuneError, 1%nat)).
    { intros E. inversion E; subst. rewrite Z.eqb_refl in Hv1. cbn in Hv1. discriminate. }
    destruct (decode_inv s r w Hb Ed Hn Hne) as [Hr He].
    pose proof (decode_width s Hne) as Hw. rewrite Ed in Hw. cbn [snd] in Hw.
    rewrite Nat.max_l in * by lia.
    rewrite encode_rune_scalar by exact Hr. rewrite He.
    rewrite IH; [apply firstn_skipn|apply bytes_skipn; exact Hb|rewrite skipn_length; lia|exact Hv2].
Qed.
Theorem sanitize_valid s : bytes s -> valid_utf8 s = true -> sanitize s = s.
Proof.
  intros Hb Hv. unfold sanitize, runes, decode_all, valid_utf8 in *. apply sanitize_valid_go; auto.
Qed.

(* one decoding step: either one invalid byte reported as U+FFFD, or a scalar value whose encoding is exactly the bytes consumed *)
Theorem rune_step s c w : bytes s -> s <> [] -> decode s = (c, w) ->
  (c = RuneError /\ w = 1%nat) \/ (valid_scalar c /\ encode c = firstn w s).
Proof.
  intros Hb Hs Hd. destruct (Z.eq_dec c RuneError) as [Ec|Ec]; [destruct (Nat.eq_dec w 1) as [Ew|Ew]|].
  - left. split; assumption.
  - right. apply (decode_inv s c w Hb Hd); [|exact Hs]. intros E. inversion E. contradiction.
  - right. apply (decode_inv s c w Hb Hd); [|exact Hs]. intros E. inversion E. contradiction.
Qed.
