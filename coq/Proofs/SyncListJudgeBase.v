(* C11, refinement of the history judge: bookkeeping lemmas (encodings, the token walk as a walk over items,
   the run as a forward token list, monotonicity of the judge's records under "excuse"). *)
From Coq Require Import List ZArith Lia Bool Arith.
Import ListNotations.
From V Require Import Lib.Enc Model.SyncListConc Proofs.SyncListConc Proofs.SyncListTop Run.C11.
Local Open Scope Z_scope.
Arguments Z.add : simpl never.
Arguments Z.sub : simpl never.
Arguments Z.of_nat : simpl never.

(* ---- length-prefixed lists ---- *)
Lemma firstn_length_app {A} (l r : list A) : firstn (length l) (l ++ r) = l.
Proof. induction l as [|a l IH]; cbn [length firstn app]; [destruct r; reflexivity|]. rewrite IH. reflexivity. Qed.
Lemma skipn_length_app {A} (l r : list A) : skipn (length l) (l ++ r) = r.
Proof. induction l as [|a l IH]; cbn [length skipn app]; auto. Qed.
Lemma get_list_put_list l r : get_list (put_list l ++ r) = (l, r).
Proof.
  unfold put_list, get_list. cbn [app]. rewrite Nat2Z.id, firstn_length_app, skipn_length_app. reflexivity.
Qed.
Lemma get_list_put_list_nil l : get_list (put_list l) = (l, []).
Proof. rewrite <- (app_nil_r (put_list l)). apply get_list_put_list. Qed.
Lemma list_eqb_refl l : list_eqb l l = true.
Proof. induction l as [|a l IH]; cbn [list_eqb]; [reflexivity|]. rewrite Z.eqb_refl, IH; reflexivity. Qed.

(* ---- upd / updl ---- *)
Lemma updl_upd {A} (l : list A) i x : updl l i x = upd l i x.
Proof. revert i; induction l as [|a l IH]; intros [|i]; cbn [updl upd]; try rewrite IH; reflexivity. Qed.
Lemma upd_same_id {A} (l : list A) i x : nth_error l i = Some x -> upd l i x = l.
Proof.
  revert i; induction l as [|a l IH]; intros [|i] H; cbn [upd nth_error] in *; try discriminate; auto.
  - inversion H; reflexivity.
  - rewrite (IH _ H). reflexivity.
Qed.
Lemma nth_error_upd_ne {A} (l : list A) i j x : j <> i -> nth_error (upd l i x) j = nth_error l j.
Proof. revert i j; induction l as [|a l IH]; intros [|i] [|j] H; cbn [upd nth_error]; auto; try lia; try (apply IH; lia). Qed.
Lemma nth_error_upd_eq {A} (l : list A) i x : (i < length l)%nat -> nth_error (upd l i x) i = Some x.
Proof. revert i; induction l as [|a l IH]; intros [|i] H; cbn [upd nth_error length] in *; auto; try lia; try (apply IH; lia). Qed.
Lemma nth_error_some_lt {A} (l : list A) i x : nth_error l i = Some x -> (i < length l)%nat.
Proof. intros H. apply nth_error_Some. congruence. Qed.

(* ---- the run with a forward token list ---- *)
Fixpoint gos (c : config) (rts : list rthread) (sched : list Z) : config * list rthread * list Z :=
  match sched with
  | [] => (c, rts, [])
  | t :: rest => let '(c', rts', toks) := go1 c rts t in
                 let '(c'', rts'', toks') := gos c' rts' rest in (c'', rts'', toks ++ toks')
  end.
Lemma go_gos sched : forall c rts acc,
  go c rts sched acc = let '(c', rts', toks) := gos c rts sched in (c', rts', rev toks ++ acc).
Proof.
  induction sched as [|t rest IH]; intros c rts acc; cbn [go gos]; [reflexivity|].
  destruct (go1 c rts t) as [[c1 rts1] toks]. rewrite IH.
  destruct (gos c1 rts1 rest) as [[c2 rts2] toks']. rewrite rev_append_rev, rev_app_distr, app_assoc. reflexivity.
Qed.

(* ---- the judge's token walk as a walk over items ---- *)
Inductive item := IStart (x : Z) | IPlain (x : Z) | IEv (x ek loc a b res : Z).
Definition enc_item (it : item) : list Z :=
  match it with IStart x => [x; 0] | IPlain x => [x; 2] | IEv x ek loc a b res => [x; 1; ek; loc; a; b; res] end.
Definition item_tid (it : item) : Z := match it with IStart x | IPlain x | IEv x _ _ _ _ _ => x end.
Definition starts_ok (s : jstate) (i : nat) : bool :=
  match nth_error (j_ths s) i with
  | Some t => match t_cur t with
              | Some rc => negb ((o_kind rc =? 1) && negb (o_lp rc))
              | None => true end
  | None => true end.
Definition j_item (progs : list (list Z)) (s : jstate) (it : item) : jstate :=
  match it with
  | IStart x => if starts_ok s (Z.to_nat x) then j_start progs s (Z.to_nat x) else s
  | IPlain _ => s
  | IEv x ek loc a b res => j_event s (Z.to_nat x) ek loc a b res
  end.
Lemma judge_steps_item f progs s it l : item_tid it <> -1 ->
  judge_steps (S f) progs s (enc_item it ++ l) = judge_steps f progs (j_item progs s it) l.
Proof.
  intros H. destruct it as [x|x|x ek loc a b res]; cbn [item_tid] in H; cbn [enc_item app judge_steps j_item];
    (destruct (Z.eqb_spec x (-1)) as [E|_]; [lia|]); reflexivity.
Qed.
Lemma judge_steps_end f progs s l : judge_steps (S f) progs s (-1 :: l) = (s, l).
Proof. reflexivity. Qed.
Lemma enc_item_length it : (2 <= length (enc_item it))%nat.
Proof. destruct it; cbn; lia. Qed.

(* ---- check_results: one record at a time ---- *)
Definition chk1 (r : oprec) (e : list Z) : bool := check_results [r] e.
Lemma check_results_app l1 : forall r1 l2 r2, check_results l1 r1 = true ->
  check_results (l1 ++ l2) (r1 ++ r2) = check_results l2 r2.
Proof.
  induction l1 as [|r l1 IH]; intros r1 l2 r2 H.
  - destruct r1; [reflexivity|]. cbn [check_results] in H. discriminate.
  - destruct r1 as [|k r1]; [cbn in H; discriminate|].
    destruct k as [|[[p|p|]|[p|p|]|]|]; try (cbn in H; discriminate).
    + (* 3 = xI xH *) destruct r1 as [|z r1]; [cbn in H; discriminate|].
      cbn [check_results app] in *. apply andb_true_iff in H as [H1 H2]. rewrite H1, (IH _ _ _ H2). reflexivity.
    + (* 2 = xO xH *) destruct r1 as [|ok [|v r1]]; try (cbn in H; discriminate).
      cbn [check_results app] in *. apply andb_true_iff in H as [H1 H2]. rewrite H1, (IH _ _ _ H2). reflexivity.
    + (* 1 *) cbn [check_results app] in *. apply andb_true_iff in H as [H1 H2]. rewrite H1, (IH _ _ _ H2). reflexivity.
Qed.
Lemma check_results_snoc l r rs e : check_results l rs = true -> chk1 r e = true -> check_results (l ++ [r]) (rs ++ e) = true.
Proof. intros H1 H2. rewrite (check_results_app _ _ _ _ H1). exact H2. Qed.

(* ---- records ordered by "excuse" ---- *)
Definition rec_le (r r' : oprec) : Prop :=
  o_kind r' = o_kind r /\ o_val r' = o_val r /\ o_lp r' = o_lp r /\ o_got r' = o_got r /\ o_lenmin r' = o_lenmin r /\
  o_wait r' = o_wait r /\ o_left r' = o_left r /\ (o_excuse r = true -> o_excuse r' = true).
Definition t_le (t t' : tstate) : Prop :=
  t_next t' = t_next t /\ t_done t' = t_done t /\
  match t_cur t, t_cur t' with
  | None, None => True
  | Some r, Some r' => rec_le r r'
  | _, _ => False
  end.
Definition exc_only (f : tstate -> tstate) : Prop := forall t, t_le t (f t).
Lemma rec_le_refl r : rec_le r r.
Proof. unfold rec_le; tauto. Qed.
Lemma rec_le_excuse r : rec_le r (excuse r).
Proof. unfold rec_le, excuse; cbn; tauto. Qed.
Lemma rec_le_trans a b c : rec_le a b -> rec_le b c -> rec_le a c.
Proof. unfold rec_le. intros (A1&A2&A3&A4&A5&A6&A7&A8) (B1&B2&B3&B4&B5&B6&B7&B8). repeat split; try congruence. auto. Qed.
Lemma t_le_refl t : t_le t t.
Proof. unfold t_le. destruct (t_cur t); auto using rec_le_refl. Qed.
Lemma t_le_trans a b c : t_le a b -> t_le b c -> t_le a c.
Proof.
  unfold t_le. intros (A1&A2&A3) (B1&B2&B3). repeat split; try congruence.
  destruct (t_cur a), (t_cur b), (t_cur c); try tauto. eapply rec_le_trans; eauto.
Qed.
Lemma exc_only_id : exc_only (fun t => t).
Proof. intros t. apply t_le_refl. Qed.
Lemma exc_only_look q0 : exc_only (look q0).
Proof.
  intros t. unfold look. destruct (t_cur t) as [r|] eqn:E; [|apply t_le_refl].
  destruct q0; [|apply t_le_refl]. destruct (o_kind r =? 2); [|apply t_le_refl].
  unfold t_le, with_cur; cbn. rewrite E. auto using rec_le_excuse.
Qed.
Lemma exc_only_excuse_all : exc_only excuse_all.
Proof.
  intros t. unfold excuse_all. destruct (t_cur t) as [r|] eqn:E; [|apply t_le_refl].
  unfold t_le, with_cur; cbn. rewrite E. auto using rec_le_excuse.
Qed.
Lemma exc_only_comp f g : exc_only f -> exc_only g -> exc_only (fun t => g (f t)).
Proof. intros Hf Hg t. eapply t_le_trans; [apply Hf|apply Hg]. Qed.
Lemma t_le_in_flight t t' : t_le t t' -> in_flight t' = in_flight t.
Proof. unfold t_le, in_flight. intros (_&_&H). destruct (t_cur t), (t_cur t'); tauto. Qed.

Lemma chk1_le r r' e : rec_le r r' -> chk1 r e = true -> chk1 r' e = true.
Proof.
  unfold rec_le, chk1. intros (A1&A2&A3&A4&A5&A6&A7&A8).
  destruct e as [|k e]; [cbn; auto|].
  destruct k as [|[[p|p|]|[p|p|]|]|]; try (cbn; discriminate); try (destruct p; cbn; discriminate).
  - destruct e as [|z e]; [cbn; discriminate|]. cbn [check_results]. rewrite A1, A4, A5. auto.
  - destruct e as [|ok [|v e]]; try (cbn; discriminate). cbn [check_results]. rewrite A1, A3, A4, A6.
    destruct (o_lp r); auto. destruct (o_excuse r); [rewrite A8; auto|].
    intros H. destruct (o_wait r); [rewrite orb_true_r; exact H|]. rewrite orb_false_r in H.
    rewrite !andb_false_r in H. cbn in H. discriminate.
  - cbn [check_results]. rewrite A1, A3. auto.
Qed.
