(* C07 — refinement for Utf16Parse: the index-level loop computes the list-level scan [s_utf16_parse]
   (surrogate pairing included) for every input and every destination at least as long as the input. *)
From Coq Require Import List ZArith Lia Bool Arith.
From V Require Import Lib.Utf8 Gen.Codec Model.Codec Proofs.CodecBase Proofs.CodecParse Proofs.CodecSpec.
Import ListNotations.
Local Open Scope Z_scope.
Arguments Z.mul : simpl never.
Arguments Z.add : simpl never.
Arguments Z.sub : simpl never.
Arguments Z.modulo : simpl never.
Arguments Z.div : simpl never.
Arguments Z.of_nat : simpl never.
Arguments Z.pow : simpl never.

Local Notation nbs := (fun c : Z => c <> 92).

(* ---- the scan on lists ---- *)
Lemma u_at_len l n : u_at l = Some n -> (6 <= length l)%nat.
Proof. unfold u_at. destruct (Nat.leb_spec 6 (length l)); [auto|discriminate]. Qed.
Lemma u_at_short l : (length l < 6)%nat -> u_at l = None.
Proof. intros H. unfold u_at. destruct (Nat.leb_spec 6 (length l)); [lia|reflexivity]. Qed.
Lemma u_at_nbs c t : c <> 92 -> u_at (c :: t) = None.
Proof.
  intros H. unfold u_at. destruct t as [|c1 t]; [reflexivity|]. cbn [firstn list_eqb].
  destruct (Z.eqb_spec c 92); [contradiction|]. cbn [andb]. rewrite andb_false_r. reflexivity.
Qed.
Lemma u_at_cons6 c0 c1 d0 d1 d2 d3 l :
  u_at (c0 :: c1 :: d0 :: d1 :: d2 :: d3 :: l) = if (c0 =? 92) && (c1 =? 117) then pus 16 65535 0 [d0; d1; d2; d3] else None.
Proof. unfold u_at. cbn [length Nat.leb firstn skipn list_eqb andb]. rewrite andb_true_r. reflexivity. Qed.

Lemma u16_fuel : forall fu fu' l, (length l <= fu)%nat -> (length l <= fu')%nat -> s_utf16_scan fu l = s_utf16_scan fu' l.
Proof.
  induction fu as [|fu IH]; intros fu' l H H'.
  - destruct l; [|cbn [length] in H; lia]. destruct fu'; reflexivity.
  - destruct fu' as [|fu']; [destruct l; [reflexivity|cbn [length] in H'; lia]|].
    destruct l as [|c t]; [reflexivity|]. cbn [s_utf16_scan]. cbn [length] in H, H'.
    assert (R : forall k, s_utf16_scan fu (skipn (S k) (c :: t)) = s_utf16_scan fu' (skipn (S k) (c :: t))).
    { intros k. apply IH; cbn [skipn]; rewrite skipn_length; lia. }
    destruct (u_at (c :: t)) as [n1|]; [|f_equal; apply IH; lia].
    destruct (is_hi n1).
    + destruct (u_at (skipn 6 (c :: t))) as [n2|]; [destruct (is_lo n2)|]; f_equal; apply R.
    + destruct (is_lo n1); f_equal; apply R.
Qed.

(* the unfolding equation of the specification, without fuel *)
Lemma s_utf16_parse_eq l : s_utf16_parse l =
  match l with
  | [] => []
  | c :: t =>
      match u_at l with
      | None => c :: s_utf16_parse t
      | Some n1 =>
          if is_hi n1 then
            match u_at (skipn 6 l) with
            | Some n2 => if is_lo n2 then encode_rune (65536 + (n1 - 55296) * 1024 + (n2 - 56320)) ++ s_utf16_parse (skipn 12 l)
                         else firstn 12 l ++ s_utf16_parse (skipn 12 l)
            | None => firstn 6 l ++ s_utf16_parse (skipn 6 l)
            end
          else if is_lo n1 then firstn 6 l ++ s_utf16_parse (skipn 6 l)
          else encode_rune n1 ++ s_utf16_parse (skipn 6 l)
      end
  end.
Proof.
  unfold s_utf16_parse. destruct l as [|c t]; [reflexivity|]. cbn [length s_utf16_scan].
  assert (R : forall k, s_utf16_scan (length t) (skipn (S k) (c :: t)) = s_utf16_scan (length (skipn (S k) (c :: t))) (skipn (S k) (c :: t))).
  { intros k. apply u16_fuel; [cbn [skipn]; rewrite skipn_length; lia|lia]. }
  destruct (u_at (c :: t)) as [n1|]; [|reflexivity].
  destruct (is_hi n1).
  - destruct (u_at (skipn 6 (c :: t))) as [n2|]; [destruct (is_lo n2)|]; f_equal; apply R.
  - destruct (is_lo n1); f_equal; apply R.
Qed.

Lemma s16_none c t : u_at (c :: t) = None -> s_utf16_parse (c :: t) = c :: s_utf16_parse t.
Proof. intros H. rewrite s_utf16_parse_eq, H. reflexivity. Qed.
Lemma s16_nbs : forall cs l, Forall nbs cs -> s_utf16_parse (cs ++ l) = cs ++ s_utf16_parse l.
Proof.
  induction cs as [|c cs IH]; intros l H; [reflexivity|]. inversion H as [|? ? Hc Hcs]. cbn [app].
  rewrite s16_none by (apply u_at_nbs; exact Hc). f_equal. apply IH. exact Hcs.
Qed.
Lemma s16_verbatim l m : Forall nbs (firstn m l) -> s_utf16_parse l = firstn m l ++ s_utf16_parse (skipn m l).
Proof. intros H. rewrite <- (firstn_skipn m l) at 1. apply s16_nbs. exact H. Qed.
Lemma s16_short : forall l, (length l < 6)%nat -> s_utf16_parse l = l.
Proof.
  induction l as [|c t IH]; intros H; [reflexivity|]. rewrite s16_none by (apply u_at_short; exact H).
  f_equal. apply IH. cbn [length] in H. lia.
Qed.
(* head not an escape: it and the m non-backslash bytes behind it are copied *)
Lemma s16_reject c t m : u_at (c :: t) = None -> Forall nbs (firstn m t) ->
  s_utf16_parse (c :: t) = firstn (S m) (c :: t) ++ s_utf16_parse (skipn (S m) (c :: t)).
Proof. intros Hn Hf. rewrite s16_none by exact Hn. cbn [firstn skipn app]. f_equal. apply s16_verbatim. exact Hf. Qed.

(* ---- reading the source through its suffix at the cursor ---- *)
Lemma nth_error_skipn {A} : forall i k (l : list A), nth_error (skipn i l) k = nth_error l (i + k).
Proof.
  induction i as [|i IH]; intros k l; [reflexivity|]. destruct l; [destruct k; reflexivity|]. cbn [skipn Nat.add nth_error]. apply IH.
Qed.
Lemma is_u_skipn src i : is_u src i =
  match skipn i src with c0 :: c1 :: _ => Some ((c0 =? 92) && (c1 =? 117)) | _ => None end.
Proof.
  unfold is_u. rewrite <- (Nat.add_0_r i) at 1. rewrite <- !nth_error_skipn.
  destruct (skipn i src) as [|c0 [|c1 r]]; reflexivity.
Qed.
Lemma slice_digits4 src i k c0 c1 d0 d1 d2 d3 r : skipn i src = c0 :: c1 :: d0 :: d1 :: d2 :: d3 :: r -> k = (i + 2)%nat ->
  slice src k (k + 4) = Some [d0; d1; d2; d3].
Proof.
  intros E ->. assert (Hl : (i + 6 <= length src)%nat).
  { pose proof (skipn_length i src) as L. rewrite E in L. cbn [length] in L. lia. }
  rewrite slice_some by lia. replace (i + 2 + 4 - (i + 2))%nat with 4%nat by lia.
  rewrite <- (skipn_skipn 2 i src), E. reflexivity.
Qed.
Lemma pu16 ds : pu 16 (maxval 16) 0 0%nat ds = pui 16 65535 0 0%nat ds.
Proof. change (maxval 16) with 65535. apply pu_pui; lia. Qed.

Lemma uparse_spec dl src : (length src <= dl)%nat -> forall fuel i f out,
  (f <= i <= length src)%nat -> (length out <= f)%nat -> (length src - i < fuel)%nat ->
  uparse dl fuel src i f out = Some (out ++ firstn (i - f) (skipn f src) ++ s_utf16_parse (skipn i src)).
Proof.
  intros Hd. induction fuel as [|fu IH]; intros i f out Hi Ho Hf; [lia|]. cbn [uparse].
  change u16_surr1 with 55296. change u16_surr2 with 56320. change u16_surr3 with 57344.
  set (mid := firstn (i - f) (skipn f src)).
  assert (Hmid : (length mid <= i - f)%nat) by (unfold mid; rewrite firstn_length; lia).
  (* stepping over k bytes that the scan copies verbatim: before the flush, and after it *)
  assert (ADV1 : forall k, (1 <= k)%nat -> (i + k <= length src)%nat ->
            s_utf16_parse (skipn i src) = firstn k (skipn i src) ++ s_utf16_parse (skipn (i + k) src) ->
            uparse dl fu src (i + k) f out = Some (out ++ mid ++ s_utf16_parse (skipn i src))).
  { intros k Hk1 Hk2 Hs. rewrite IH by lia. rewrite Hs, mid_app by lia. fold mid. rewrite <- !app_assoc. reflexivity. }
  assert (ADV2 : forall k, (1 <= k)%nat -> (i + k <= length src)%nat ->
            s_utf16_parse (skipn i src) = firstn k (skipn i src) ++ s_utf16_parse (skipn (i + k) src) ->
            uparse dl fu src (i + k) i (out ++ mid) = Some (out ++ mid ++ s_utf16_parse (skipn i src))).
  { intros k Hk1 Hk2 Hs. rewrite IH; [|lia|rewrite app_length; lia|lia]. rewrite Hs. replace (i + k - i)%nat with k by lia.
    rewrite <- !app_assoc. reflexivity. }
  destruct (Nat.leb_spec (length src) i).
  { rewrite finish_exact by lia. assert (i = length src) by lia. subst i. rewrite skipn_all. rewrite s_utf16_parse_eq.
    rewrite app_nil_r. unfold mid. rewrite firstn_all2 by (rewrite skipn_length; lia). reflexivity. }
  destruct (Nat.ltb_spec (length src - i) 6).
  { rewrite finish_exact by lia. rewrite s16_short by (rewrite skipn_length; lia).
    rewrite <- (firstn_skipn (i - f) (skipn f src)) at 1. rewrite skipn_skipn. replace (f + (i - f))%nat with i by lia. reflexivity. }
  remember (skipn i src) as R eqn:ER.
  assert (HR : (6 <= length R)%nat) by (rewrite ER, skipn_length; lia).
  destruct R as [|c0 [|c1 [|d0 [|d1 [|d2 [|d3 R6]]]]]]; try (cbn [length] in HR; lia). symmetry in ER.
  assert (ER6 : skipn (i + 6) src = R6) by (rewrite <- (skipn_skipn 6 i src), ER; reflexivity).
  rewrite is_u_skipn, ER.
  pose proof (u_at_cons6 c0 c1 d0 d1 d2 d3 R6) as Eat.
  destruct ((c0 =? 92) && (c1 =? 117)) eqn:Eu.
  2:{ replace (S i) with (i + 1)%nat by lia. apply ADV1; [lia|lia|].
      rewrite <- (skipn_skipn 1 i src), ER. cbn [skipn firstn app]. apply s16_none. exact Eat. }
  apply andb_prop in Eu. destruct Eu as [Ec0 Ec1]. apply Z.eqb_eq in Ec0, Ec1. subst c0 c1.
  replace (i + 6)%nat with (i + 2 + 4)%nat at 1 by lia. rewrite (slice_digits4 src i (i + 2) _ _ _ _ _ _ _ ER eq_refl).
  rewrite pu16. destruct (pui 16 65535 0 0%nat [d0; d1; d2; d3]) as [[n1 j] ok] eqn:Ep.
  destruct ok; cbn [negb].
  2:{ (* a bad digit in the first escape *)
      pose proof (pui_index _ _ _ _ _ _ _ _ Ep) as Hj. cbn [length] in Hj. apply pui_fail in Ep. destruct Ep as [Epus Hnb].
      rewrite Epus in Eat. rewrite Nat.sub_0_r in Hnb. rewrite <- Nat.add_assoc. apply ADV1; [lia|lia|].
      rewrite <- (skipn_skipn (2 + j) i src), ER. cbn [Nat.add]. apply s16_reject; [exact Eat|].
      cbn [firstn]. constructor; [lia|].
      replace (firstn j (d0 :: d1 :: d2 :: d3 :: R6)) with (firstn j [d0; d1; d2; d3]); [exact Hnb|].
      change (d0 :: d1 :: d2 :: d3 :: R6) with ([d0; d1; d2; d3] ++ R6). rewrite firstn_app.
      replace (j - length [d0; d1; d2; d3])%nat with 0%nat by (cbn [length]; lia). cbn [firstn]. rewrite app_nil_r. reflexivity. }
  apply pui_ok in Ep. destruct Ep as [Epus _]. rewrite Epus in Eat.
  pose proof (pus_bound 16 65535 _ 0 n1 ltac:(lia) ltac:(lia) Epus) as Hn1.
  rewrite flush_exact by lia. fold mid.
  assert (Ef1 : (if (f <? i)%nat then i else f) = i) by (destruct (Nat.ltb_spec f i); lia). rewrite Ef1.
  (* the three classes of the first code unit *)
  destruct ((n1 <? 55296) || (57344 <=? n1)) eqn:Ens.
  { (* not a surrogate: encode it *)
    assert (Eh : is_hi n1 = false) by (unfold is_hi; apply orb_prop in Ens; destruct Ens as [E|E]; [apply Z.ltb_lt in E|apply Z.leb_le in E];
      destruct (Z.leb_spec 55296 n1); destruct (Z.ltb_spec n1 56320); try reflexivity; lia).
    assert (El : is_lo n1 = false) by (unfold is_lo; apply orb_prop in Ens; destruct Ens as [E|E]; [apply Z.ltb_lt in E|apply Z.leb_le in E];
      destruct (Z.leb_spec 56320 n1); destruct (Z.ltb_spec n1 57344); try reflexivity; lia).
    pose proof (encode_rune_bmp_len n1 ltac:(lia)) as Hlen.
    unfold write. rewrite app_length. destruct (Nat.leb_spec (length out + length mid + length (encode_rune n1)) dl); [|lia].
    rewrite IH; [|lia|rewrite !app_length; lia|lia]. rewrite Nat.sub_diag. cbn [firstn app].
    rewrite (s_utf16_parse_eq (92 :: _)), Eat, Eh, El. cbn [skipn]. rewrite ER6. rewrite <- !app_assoc. reflexivity. }
  apply orb_false_elim in Ens. destruct Ens as [Ens1 Ens2]. apply Z.ltb_ge in Ens1. apply Z.leb_gt in Ens2.
  destruct ((55296 <=? n1) && (n1 <? 56320)) eqn:Ehi.
  2:{ (* a lone low surrogate: stepped over *)
      assert (Eh : is_hi n1 = false) by exact Ehi.
      assert (El : is_lo n1 = true) by (unfold is_lo; unfold is_hi in Eh; destruct (Z.leb_spec 55296 n1); [|lia]; destruct (Z.ltb_spec n1 56320); [discriminate|];
        destruct (Z.leb_spec 56320 n1); [|lia]; destruct (Z.ltb_spec n1 57344); [reflexivity|lia]).
      apply ADV2; [lia|lia|]. rewrite ER6. rewrite (s_utf16_parse_eq (92 :: _)), Eat, Eh, El. reflexivity. }
  assert (Eh : is_hi n1 = true) by exact Ehi.
  apply andb_prop in Ehi. destruct Ehi as [Eh1 Eh2]. apply Z.leb_le in Eh1. apply Z.ltb_lt in Eh2.
  (* a high surrogate: look at what follows *)
  assert (Espec : s_utf16_parse (92 :: 117 :: d0 :: d1 :: d2 :: d3 :: R6) =
                  match u_at R6 with
                  | Some n2 => if is_lo n2 then encode_rune (65536 + (n1 - 55296) * 1024 + (n2 - 56320)) ++ s_utf16_parse (skipn 6 R6)
                               else [92; 117; d0; d1; d2; d3] ++ firstn 6 R6 ++ s_utf16_parse (skipn 6 R6)
                  | None => [92; 117; d0; d1; d2; d3] ++ s_utf16_parse R6
                  end).
  { rewrite (s_utf16_parse_eq (92 :: _)), Eat, Eh. cbn [skipn firstn]. destruct (u_at R6) as [n2|]; [|reflexivity].
    destruct (is_lo n2); reflexivity. }
  destruct (Nat.ltb_spec (length src - (i + 6)) 6) as [Hs|Hs].
  { (* break: the rest is the tail *)
    rewrite finish_exact; [|lia|lia|rewrite app_length; lia]. rewrite ER, Espec.
    rewrite u_at_short by (rewrite <- ER6, skipn_length; lia). rewrite s16_short by (rewrite <- ER6, skipn_length; lia).
    rewrite <- !app_assoc. reflexivity. }
  assert (HR6 : (6 <= length R6)%nat) by (rewrite <- ER6, skipn_length; lia).
  destruct R6 as [|c0 [|c1 [|e0 [|e1 [|e2 [|e3 R12]]]]]]; try (cbn [length] in HR6; lia).
  assert (ER12 : skipn (i + 12) src = R12) by (rewrite <- (skipn_skipn 12 i src), ER; reflexivity).
  rewrite is_u_skipn, ER6.
  pose proof (u_at_cons6 c0 c1 e0 e1 e2 e3 R12) as Eat2.
  destruct ((c0 =? 92) && (c1 =? 117)) eqn:Eu2.
  2:{ (* no second escape here: one byte further *)
      replace (S (i + 6)) with (i + 7)%nat by lia. apply ADV2; [lia|lia|].
      rewrite <- (skipn_skipn 7 i src), ER, Espec, Eat2. cbn [skipn firstn app]. rewrite s16_none by exact Eat2. reflexivity. }
  apply andb_prop in Eu2. destruct Eu2 as [Ec0 Ec1]. apply Z.eqb_eq in Ec0, Ec1. subst c0 c1.
  replace (i + 6 + 6)%nat with (i + 6 + 2 + 4)%nat at 1 by lia. rewrite (slice_digits4 src (i + 6) (i + 6 + 2) _ _ _ _ _ _ _ ER6 eq_refl).
  rewrite pu16. destruct (pui 16 65535 0 0%nat [e0; e1; e2; e3]) as [[n2 j2] ok2] eqn:Ep2.
  destruct ok2; cbn [negb].
  2:{ (* a bad digit in the second escape *)
      pose proof (pui_index _ _ _ _ _ _ _ _ Ep2) as Hj. cbn [length] in Hj. apply pui_fail in Ep2. destruct Ep2 as [Epus2 Hnb].
      rewrite Epus2 in Eat2. rewrite Nat.sub_0_r in Hnb.
      replace (i + 6 + 2 + j2)%nat with (i + (8 + j2))%nat by lia. apply ADV2; [lia|lia|].
      rewrite <- (skipn_skipn (8 + j2) i src), ER, Espec, Eat2. cbn [Nat.add skipn firstn app]. do 6 f_equal.
      rewrite (s16_reject 92 _ (S j2) Eat2).
      - reflexivity.
      - cbn [firstn]. constructor; [lia|].
        replace (firstn j2 (e0 :: e1 :: e2 :: e3 :: R12)) with (firstn j2 [e0; e1; e2; e3]); [exact Hnb|].
        change (e0 :: e1 :: e2 :: e3 :: R12) with ([e0; e1; e2; e3] ++ R12). rewrite firstn_app.
        replace (j2 - length [e0; e1; e2; e3])%nat with 0%nat by (cbn [length]; lia). cbn [firstn]. rewrite app_nil_r. reflexivity. }
  apply pui_ok in Ep2. destruct Ep2 as [Epus2 _]. rewrite Epus2 in Eat2.
  replace (i + 6 + 6)%nat with (i + 12)%nat by lia.
  destruct ((56320 <=? n2) && (n2 <? 57344)) eqn:Elo.
  2:{ (* the second unit is not a low surrogate: both escapes are stepped over *)
      apply ADV2; [lia|lia|]. rewrite ER12, Espec, Eat2. change (is_lo n2) with ((56320 <=? n2) && (n2 <? 57344)). rewrite Elo. reflexivity. }
  (* a pair *)
  assert (El2 : is_lo n2 = true) by exact Elo.
  apply andb_prop in Elo. destruct Elo as [El1 El2']. apply Z.leb_le in El1. apply Z.ltb_lt in El2'.
  destruct (utf16_decode_range n1 n2 ltac:(lia) ltac:(lia)) as [Edec Hr]. rewrite Edec in *.
  unfold write. rewrite (encode_supp_len _ Hr), app_length. destruct (Nat.leb_spec (length out + length mid + 4) dl); [|lia].
  rewrite IH; [|lia|rewrite !app_length, (encode_supp_len _ Hr); lia|lia]. rewrite Nat.sub_diag. cbn [firstn app].
  rewrite ER12, Espec, Eat2, El2. cbn [skipn]. rewrite <- !app_assoc. reflexivity.
Qed.

Theorem utf16_parse_spec dl src : (length src <= dl)%nat -> utf16_parse dl src = Some (s_utf16_parse src).
Proof. intros Hd. unfold utf16_parse. rewrite uparse_spec by (cbn [length]; lia). reflexivity. Qed.
