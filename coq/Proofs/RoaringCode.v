(* C03 — the code GENERATED from setz/roaring_bitmap.go (both container kinds, their iterators, search, setZero) and the parts of
   setz/bits.go they run on (Bitmap.Add / Remove / Contains / add, Bits.Add / Remove / Len, BitmapIter.Next / Value)
   — coq/Gen/RoaringCode.v, written by gen/trans*.go on every run — is equal to the hand-written model of Model/Roaring.v and
   Model/Bits.v, function by function.
   The generated code computes on Z, the model on N: every statement quantifies over MODEL values and applies the generated
   function to their images (zl = map Z.of_N on slices, of_arr / of_bm / of_bits / of_cont / of_aiter / of_iter on records).
   Proof style: unfold the generated definitions (hint database go2v: a helper extracted later is unfolded too), rewrite the
   GoSem primitives on converted lists (Proofs/RoaringCodeFacts.v), case analysis on every condition, lia.  Loops are taken
   out of the generated definitions, never restated; loop lemmas are stated for an arbitrary packing of the state tuple. *)
From Coq Require Import List ZArith NArith Lia Bool Arith ZifyN ZifyNat ZifyBool.
From V Require Import Gen.Roaring Model.Bits Model.Roaring Proofs.BitsBasic Proofs.RoaringArr.
From V Require Import Lib.GoSem Proofs.GoSemFacts Proofs.RoaringCodeFacts Gen.RoaringCode.
Import ListNotations.
Local Open Scope Z_scope.
Arguments Z.add : simpl never.
Arguments Z.sub : simpl never.
Arguments Z.mul : simpl never.
Arguments Z.pow : simpl never.
Arguments Z.modulo : simpl never.
Arguments Z.shiftl : simpl never.
Arguments Z.shiftr : simpl never.
Arguments Z.land : simpl never.
Arguments Z.lor : simpl never.
Arguments Z.lnot : simpl never.
Arguments N.shiftl : simpl never.
Arguments N.shiftr : simpl never.
Arguments N.land : simpl never.
Arguments N.lor : simpl never.
Arguments N.ldiff : simpl never.

(* ------------------------------------------------------------------ conversions model -> generated Records (total, injective) *)
Definition of_arr (v : list N) : arrayContainer := mkarrayContainer (zl v).
Definition of_bm (set : list N) : Bitmap := mkBitmap (zl set).
Definition of_bits (b : bits) : Bits := mkBits (cached b) (of_bm (words b)).
Definition of_cont (c : Roaring.container) : RoaringCode.container :=
  match c with Arr v => container_arrayContainer (of_arr v) | Bmp b => container_bitmapContainer (of_bits b) end.
(* arrayContainerIter{c, i}: the model keeps n = i + 1 *)
Definition of_aiter (v : list N) (n : N) : arrayContainerIter := mkarrayContainerIter (of_arr v) (Z.of_N n - 1).
(* BitmapIter{bm, i, j, read} *)
Definition of_iter (set : list N) (it : iter) : BitmapIter :=
  mkBitmapIter (of_bm set) (Z.of_nat (wi it)) (Z.of_N (bj it)) (rd it).

(* the words are uint64: w & ^(1 << bit) clears the bit only below 2^64 *)
Definition words_ok (set : list N) : Prop := Forall (fun w => (w < 2 ^ 64)%N) set.
Lemma words_ok_nth set i : words_ok set -> (i < length set)%nat -> (nth i set 0 < 2 ^ 64)%N.
Proof. unfold words_ok. rewrite Forall_forall. intros H Hi. apply H, nth_In, Hi. Qed.


(* ------------------------------------------------------------------ tactics *)
Ltac zb :=
  repeat match goal with
  | H : (_ =? _) = true |- _ => apply Z.eqb_eq in H
  | H : (_ =? _) = false |- _ => apply Z.eqb_neq in H
  | H : (_ <=? _) = true |- _ => apply Z.leb_le in H
  | H : (_ <=? _) = false |- _ => apply Z.leb_gt in H
  | H : (_ <? _) = true |- _ => apply Z.ltb_lt in H
  | H : (_ <? _) = false |- _ => apply Z.ltb_ge in H
  | H : (_ =? _)%N = true |- _ => apply N.eqb_eq in H
  | H : (_ =? _)%N = false |- _ => apply N.eqb_neq in H
  | H : (_ <=? _)%N = true |- _ => apply N.leb_le in H
  | H : (_ <=? _)%N = false |- _ => apply N.leb_gt in H
  | H : (_ <? _)%N = true |- _ => apply N.ltb_lt in H
  | H : (_ <? _)%N = false |- _ => apply N.ltb_ge in H
  | H : (_ <=? _)%nat = true |- _ => apply Nat.leb_le in H
  | H : (_ <=? _)%nat = false |- _ => apply Nat.leb_gt in H
  | H : (_ <? _)%nat = true |- _ => apply Nat.ltb_lt in H
  | H : (_ <? _)%nat = false |- _ => apply Nat.ltb_ge in H
  | H : negb _ = true |- _ => apply negb_true_iff in H
  | H : negb _ = false |- _ => apply negb_false_iff in H
  | H : andb _ _ = true |- _ => apply andb_true_iff in H; destruct H
  | H : andb _ _ = false |- _ => apply andb_false_iff in H
  | H : orb _ _ = false |- _ => apply orb_false_iff in H; destruct H
  | H : orb _ _ = true |- _ => apply orb_true_iff in H
  end.
(* unfold the generated functions (all of them are in the hint database, also helpers that appear later), the Records, the
   conversions and the monad; the GoSem primitives stay folded: they are rewritten by the lemmas of RoaringCodeFacts *)
Ltac open_code :=
  repeat autounfold with go2v;
  cbv beta iota zeta delta [bind of_arr of_bm of_bits of_aiter of_iter words cached wi bj rd
    Bitmap_set Bits_length Bits_Bitmap set_Bitmap_set set_Bits_length set_Bits_Bitmap
    arrayContainer_values set_arrayContainer_values arrayContainerIter_c arrayContainerIter_i
    set_arrayContainerIter_c set_arrayContainerIter_i
    BitmapIter_bm BitmapIter_i BitmapIter_j BitmapIter_read set_BitmapIter_bm set_BitmapIter_i set_BitmapIter_j set_BitmapIter_read].
(* index arithmetic and bit masks of a uint on the N side; reads / writes / lengths of converted lists *)
Ltac norm :=
  repeat first
  [ rewrite shr6_Z | rewrite quot64_Z | rewrite mask_bidx_Z | rewrite land63_Z | rewrite rem64_Z | rewrite mask_bidx_Z' | rewrite zlen_zl
  | rewrite m_get_zl_nat | rewrite m_get_zl_N | rewrite <- of_N_land | rewrite <- of_N_lor | rewrite <- of_N_ldiff
  | rewrite m_set_zl_nat | rewrite eqb0_of_N | rewrite eqb_of_N | rewrite ltb_of_N | rewrite leb_of_N
  | rewrite ltb_of_nat | rewrite leb_of_nat | rewrite <- zl_app | rewrite <- zl_repeat0 ];
  cbv beta iota zeta delta [bind].
Ltac break1 :=
  match goal with
  | |- context [if ?c then _ else _] => destruct c eqn:?
  | |- context [match ?x with Ret _ => _ | Panic => _ | NoFuel => _ end] => destruct x eqn:?
  | |- context [match ?x with (_, _) => _ end] => destruct x eqn:?
  end.
(* a comparison of naturals / of N that lia decides *)
Ltac decide_cmp :=
  repeat match goal with
  | |- context [(?a <? ?b)%nat] =>
      first [ replace (a <? b)%nat with true by (symmetry; apply Nat.ltb_lt; lia)
            | replace (a <? b)%nat with false by (symmetry; apply Nat.ltb_ge; lia) ]
  | |- context [(?a <=? ?b)%nat] =>
      first [ replace (a <=? b)%nat with true by (symmetry; apply Nat.leb_le; lia)
            | replace (a <=? b)%nat with false by (symmetry; apply Nat.leb_gt; lia) ]
  | |- context [(?a <? ?b)%N] =>
      first [ replace (a <? b)%N with true by (symmetry; apply N.ltb_lt; lia)
            | replace (a <? b)%N with false by (symmetry; apply N.ltb_ge; lia) ]
  end; cbv beta iota zeta delta [bind].
(* congruence down to the numbers, which are left to lia *)
Ltac feq := repeat match goal with |- _ = _ => first [ reflexivity | lia | progress f_equal ] end.
Ltac finish := try reflexivity; try congruence; zb; try lia; try (exfalso; lia); try (solve [feq]).
Ltac go := repeat (zb; norm; rewrite ?app_length, ?repeat_length, ?m_make_Z by lia;
  rewrite ?ldiff_Z by (first [apply bidx_lt | apply words_ok_nth; [assumption|lia]]); decide_cmp).
(* the model's functions, unfolded down to list operations *)
Ltac open_model :=
  cbv beta iota zeta delta [contains add remove set_bit b_add b_remove c_add c_remove c_contains c_len of_cont
    a_contains a_remove a_found words cached fst snd].
Ltac crush := intros; open_code; open_model; open_code; go; repeat (break1; cbn [andb orb negb fst snd]; go); finish.

(* ================================================================== setz.Bitmap on 64-bit words (bits.go) *)
Theorem code_Bitmap_Contains : forall set num,
  g_Bitmap_Contains (of_bm set) (Z.of_N num) = Ret (contains set num).
Proof. crush. Qed.

Theorem code_Bitmap_Add : forall set num,
  g_Bitmap_Add (of_bm set) (Z.of_N num) = Ret (of_bm (fst (add set num)), snd (add set num)).
Proof. crush. Qed.

Theorem code_Bitmap_Remove : forall set num, words_ok set ->
  g_Bitmap_Remove (of_bm set) (Z.of_N num) = Ret (of_bm (fst (remove set num)), snd (remove set num)).
Proof.
  intros set num Hw. crush.
Qed.

(* the private Bitmap.add indexes without growing: it panics beyond the last word *)
Theorem code_Bitmap_add : forall set num,
  g_Bitmap_add (of_bm set) (Z.of_N num) = if (widx num <? length set)%nat then Ret (of_bm (set_bit set num)) else Panic.
Proof. crush. Qed.

(* ================================================================== setz.Bits: the bitmap with its cached cardinality *)
Theorem code_Bits_Add : forall b num,
  g_Bits_Add (of_bits b) (Z.of_N num) = Ret (of_bits (fst (b_add b num)), snd (b_add b num)).
Proof. intros [w c] num. crush. Qed.
Theorem code_Bits_Remove : forall b num, words_ok (words b) ->
  g_Bits_Remove (of_bits b) (Z.of_N num) = Ret (of_bits (fst (b_remove b num)), snd (b_remove b num)).
Proof.
  intros [w c] num Hw. cbn [words] in Hw. crush.
Qed.
Theorem code_Bits_Len : forall b, g_Bits_Len (of_bits b) = Ret (cached b).
Proof. intros [w c]. reflexivity. Qed.

(* ================================================================== bitmapContainer = Bits (roaring_bitmap.go) *)
(* container.Add on a bitmap container: (receiver after the call, (the container value returned, changed?)); buf is not used *)
Theorem code_bitmapContainer_Add : forall b x buf,
  g_bitmapContainer_Add (of_bits b) (Z.of_N x) (zl buf) =
  Ret (let '(c', ok, _) := c_add (Bmp b) x buf in (of_bits (fst (b_add b x)), (of_cont c', ok))).
Proof. intros [w c] x buf. crush. Qed.
Theorem code_bitmapContainer_Remove : forall b x, words_ok (words b) ->
  g_bitmapContainer_Remove (of_bits b) (Z.of_N x) =
  Ret (let (c', ok) := c_remove (Bmp b) x in (of_bits (fst (b_remove b x)), ok)).
Proof. intros [w c] x Hw. cbn [words] in Hw. crush. Qed.
Theorem code_bitmapContainer_Contains : forall b x,
  g_bitmapContainer_Contains (of_bits b) (Z.of_N x) = Ret (c_contains (Bmp b) x).
Proof. intros [w c] x. crush. Qed.
Theorem code_bitmapContainer_Len : forall b, g_bitmapContainer_Len (of_bits b) = Ret (c_len (Bmp b)).
Proof. intros [w c]. reflexivity. Qed.
Theorem code_bitmapContainer_Type : forall b, g_bitmapContainer_Type b = Ret 2.
Proof. reflexivity. Qed.

(* ================================================================== arrayContainer: the parts without a loop *)
Theorem code_arrayContainer_Len : forall v, g_arrayContainer_Len (of_arr v) = Ret (c_len (Arr v)).
Proof. intros. open_code. rewrite zlen_zl. reflexivity. Qed.
Theorem code_arrayContainer_Type : forall ac, g_arrayContainer_Type ac = Ret 1.
Proof. reflexivity. Qed.

(* arrayContainerIter: the model's cursor n is i + 1 (the iterator starts at i = -1) *)
Theorem code_arrayContainerIter_Next : forall v n,
  g_arrayContainerIter_Next (of_aiter v n) =
  Ret (match inner_next (Arr v) (IArr n) with Some (IArr n') => (of_aiter v n', true) | _ => (of_aiter v n, false) end).
Proof.
  intros. open_code. cbn [inner_next]. rewrite ?zlen_zl, lenN_length.
  destruct (N.ltb_spec n (N.of_nat (length v))); repeat break1; zb; try lia; try reflexivity; feq.
Qed.
(* Value indexes values[i]: out of range (before the first Next, or on an emptied container) the code panics *)
Theorem code_arrayContainerIter_Value : forall v n,
  g_arrayContainerIter_Value (of_aiter v n) =
  if ((1 <=? n) && (n <=? lenN v))%N then Ret (Z.of_N (inner_value (Arr v) (IArr n))) else Panic.
Proof.
  intros. open_code. cbn [inner_value]. rewrite m_get_zl, lenN_length, nthN_nth. cbv beta iota zeta delta [bind].
  destruct (N.leb_spec 1 n), (N.leb_spec n (N.of_nat (length v))); cbn [andb]; repeat break1; zb; try lia; try reflexivity; feq.
Qed.

(* BitmapIter.Value: uint(i<<6 + j) *)
Theorem code_BitmapIter_Value : forall set it,
  g_BitmapIter_Value (of_iter set it) = Ret (wrap 64 (Z.of_N (value it))).
Proof.
  intros set [i j r]. open_code. unfold value. cbn [wi bj]. rewrite Z.shiftl_mul_pow2 by lia. do 2 f_equal. lia.
Qed.
(* bitmapContainerIter.Value: uint16(uint(i<<6 + j)) *)
Theorem code_bitmapContainerIter_Value : forall b it,
  g_bitmapContainerIter_Value (of_iter (words b) it) = Ret (Z.of_N (inner_value (Bmp b) (IBmp it))).
Proof.
  intros b [i j r]. open_code. cbn [inner_value]. unfold value. cbn [wi bj].
  rewrite land_ones16_Z, wrap_wrap by lia. rewrite Z.shiftl_mul_pow2 by lia. do 2 f_equal. lia.
Qed.

(* ================================================================== search (roaring_bitmap.go): the bisection loop *)
Ltac Zify.zify_post_hook ::= Z.div_mod_to_equations.

(* slices are shorter than 2^63 elements (Go's int): uint(low+high) does not wrap *)
Definition len_ok (v : list N) : Prop := (lenN v < 2 ^ 63)%N.

(* one iteration of the generated loop, for a given order of (low, high) in the state tuple *)
Ltac search_iter :=
  let low := fresh "low" in let high := fresh "high" in let Hl := fresh in let Hh := fresh in
  intros low high Hl Hh; cbv beta iota zeta delta [iter1 bind];
  rewrite ?mid_Z by (unfold len_ok in *; lia);
  assert ((N.shiftr (low + high) 1 < high \/ high <= low) /\ low <= N.shiftr (low + high) 1)%N
    by (rewrite N.shiftr_div_pow2; change (2 ^ 1)%N with 2%N; lia);
  go; repeat (break1; go); finish.
Ltac search_shape pk v x :=
  match goal with |- context [while ?f ?c ?b ?p ?s] =>
    let E := fresh "E" in
    assert (E : while f c b p s =
                Ret (inl (pk (search_loop f (skipN v 0%N) x 0%N (lenN v)) (search_loop f (skipN v 0%N) x 0%N (lenN v)))));
    [ refine (search_while pk c b p v x _ f 0%N (lenN v) _ _ _); [ search_iter | lia | lia | rewrite lenN_length; lia ]
    | rewrite E ]
  end.

(* for EVERY fuel above the length: the generated search is the model's loop run with that fuel ... *)
Theorem code_search_fuel : forall fuel v x, len_ok v -> (length v < fuel)%nat ->
  g_search fuel (zl v) (Z.of_N x) = Ret (Z.of_N (search_loop fuel v x 0 (lenN v))).
Proof.
  intros fuel v x Hv Hf. cbv beta zeta delta [g_search]. rewrite zlen_zl.
  replace (Z.of_nat (length v)) with (Z.of_N (lenN v)) by (rewrite lenN_length; lia).
  first [ search_shape (fun l h : N => (Z.of_N l, Z.of_N h)) v x | search_shape (fun l h : N => (Z.of_N h, Z.of_N l)) v x ];
  cbv beta iota zeta delta [bind]; rewrite skipN_0; reflexivity.
Qed.
(* ... which is the model's search (its own fuel is length + 1) *)
Theorem code_search : forall fuel v x, len_ok v -> (length v < fuel)%nat ->
  g_search fuel (zl v) (Z.of_N x) = Ret (Z.of_N (search v (lenN v) x)).
Proof.
  intros fuel v x Hv Hf. rewrite code_search_fuel by assumption. unfold search.
  rewrite (search_loop_fuel x fuel (S (length v))) by (rewrite lenN_length; lia). reflexivity.
Qed.

(* from here on the generated search stays folded: it is rewritten by code_search *)
Local Opaque g_search.

(* ================================================================== arrayContainer: Contains, Remove *)
Ltac array_go := rewrite ?zlen_zl_N; repeat first [ rewrite m_slice_zl_to | rewrite m_slice_zl_from | progress go ].
Ltac array_crush :=
  intros; open_code; rewrite ?code_search by assumption; cbv beta iota zeta delta [bind]; open_model; open_code;
  rewrite ?delete_at_eq; array_go; repeat (break1; cbn [andb orb negb fst snd]; array_go); finish.

Theorem code_arrayContainer_Contains : forall fuel v x, len_ok v -> (length v < fuel)%nat ->
  g_arrayContainer_Contains fuel (of_arr v) (Z.of_N x) = Ret (a_contains v x).
Proof. array_crush. Qed.

Theorem code_arrayContainer_Remove : forall fuel v x, len_ok v -> (length v < fuel)%nat ->
  g_arrayContainer_Remove fuel (of_arr v) (Z.of_N x) = Ret (of_arr (fst (a_remove v x)), snd (a_remove v x)).
Proof. array_crush. Qed.

(* ================================================================== bitmapContainer.setZero: every word of the container is cleared *)
Ltac dec_Z :=
  repeat match goal with
  | |- context [(?a <=? ?b)] =>
      first [ replace (a <=? b) with true by (symmetry; apply Z.leb_le; lia)
            | replace (a <=? b) with false by (symmetry; apply Z.leb_gt; lia) ]
  | |- context [(?a <? ?b)] =>
      first [ replace (a <? b) with true by (symmetry; apply Z.ltb_lt; lia)
            | replace (a <? b) with false by (symmetry; apply Z.ltb_ge; lia) ]
  end; cbn [andb orb negb].
Ltac open_iter := cbv beta iota zeta delta [iter1]; open_code.

(* one round of the generated loop clears the next [step] words (whatever the order of the state tuple: pk) *)
Ltac setzero_round step :=
  let ws := fresh "ws" in let i := fresh "i" in let H1 := fresh in let H2 := fresh in
  intros ws i H1 H2; open_iter; dec_Z; cbv beta iota zeta delta [bind];
  pose proof (cleared_refl i ws);
  repeat match goal with Hc : cleared ?a ?k ws ?cur |- context [m_set (zl ?cur) ?z 0] =>
    let cur' := fresh "cur" in let E := fresh "E" in let Hc' := fresh "Hc" in
    destruct (clear_one ws a k cur z Hc ltac:(lia) ltac:(lia)) as (cur' & E & Hc'); rewrite E; clear E Hc;
    cbv beta iota zeta delta [bind]
  end;
  match goal with |- context [Z.of_nat i + ?k] => replace (Z.of_nat i + k) with (Z.of_nat (i + step)) by lia end;
  eexists; split; [reflexivity|];
  match goal with Hc : cleared _ ?k _ _ |- cleared _ ?k' _ _ => replace k' with k by lia; exact Hc end.
Ltac setzero_end :=
  let ws := fresh "ws" in let i := fresh "i" in let H1 := fresh in
  intros ws i H1; open_iter; dec_Z; reflexivity.
Ltac setzero_shape pk rounds step w :=
  match goal with |- context [while ?f ?c ?b ?p ?s] =>
    let Hgo := fresh "Hgo" in let Hend := fresh "Hend" in let E := fresh "E" in let C := fresh "C" in let ws' := fresh "ws'" in
    assert (Hgo : forall ws i, (i < rounds * step)%nat -> (i + step <= length ws)%nat ->
              exists ws1, iter1 c b p (pk ws i) = Ret (inl (pk ws1 (i + step)%nat)) /\ cleared i (i + step) ws ws1)
      by (setzero_round step);
    assert (Hend : forall ws i, (rounds * step <= i)%nat -> iter1 c b p (pk ws i) = Ret (inr (inl (pk ws i))))
      by setzero_end;
    destruct (zero_while pk c b p rounds step ltac:(lia) Hgo Hend rounds 0%nat f w ltac:(lia) ltac:(lia) ltac:(lia)) as (ws' & E & C);
    match type of E with _ = ?rhs => replace (while f c b p s) with rhs by (symmetry; exact E) end; clear Hgo Hend E
  end.

(* setZero clears all bmp_words words in 32 rounds of 32 writes: fuel 33 is enough *)
Theorem code_setZero : forall fuel b, length (words b) = N.to_nat bmp_words -> (32 < fuel)%nat ->
  g_bitmapContainer_setZero fuel (of_bits b) = Ret (of_bits {| words := repeat 0%N (N.to_nat bmp_words); cached := cached b |}).
Proof.
  intros fuel [w c] Hlen Hf. cbn [words cached] in *. change (N.to_nat bmp_words) with 1024%nat in *.
  open_code.   (* one call-by-value pass: unfolding the 32 shadowing lets without the Record projections would double the term 32 times *)
  first [ setzero_shape (fun (ws : list N) (i : nat) => (mkBits c (mkBitmap (zl ws)), Z.of_nat i)) 32%nat 32%nat w
        | setzero_shape (fun (ws : list N) (i : nat) => (Z.of_nat i, mkBits c (mkBitmap (zl ws)))) 32%nat 32%nat w ].
  cbv beta iota zeta delta [bind]. change (32 * 32)%nat with 1024%nat in C. rewrite <- Hlen in C. change (0 * 32)%nat with 0%nat in C.
  apply cleared_all in C. rewrite C, Hlen. reflexivity.
Qed.

(* ================================================================== arrayContainer.Add: found / insertion / conversion to a bitmap *)
Local Opaque g_bitmapContainer_setZero g_Bitmap_add.

(* the elements are uint16 (the conversion indexes a 1024-word bitmap with them) *)
Definition u16 (x : N) : Prop := (x < 65536)%N.
Lemma u16_widx x : u16 x -> (widx x < 1024)%nat.
Proof. unfold u16. rewrite widx_div. intros H. assert (x / 64 < 1024)%N by (apply N.div_lt_upper_bound; lia). lia. Qed.

(* one iteration of  for _, v := range buf { newContainer.add(uint(v)) }  over the list l, for a packing pk of (counter, words) *)
Ltac addall_iter l :=
  let i := fresh "i" in let ws := fresh "ws" in let H := fresh in
  intros i ws H; open_iter; fold (of_bm ws); go;
  destruct (Nat.ltb_spec i (length l)); cbv beta iota zeta delta [bind]; [|reflexivity];
  go; rewrite ?code_Bitmap_add; repeat (break1; go); finish.
Ltac addall_shape pk l ws0 :=
  match goal with |- context [while ?f ?c ?b ?p ?s] =>
    let Hit := fresh "Hit" in let E := fresh "E" in
    assert (Hit : forall i ws, (i <= length l)%nat ->
              iter1 c b p (pk i ws) =
              if (i <? length l)%nat
              then (if (widx (nth i l 0%N) <? length ws)%nat then Ret (inl (pk (S i) (set_bit ws (nth i l 0%N)))) else Panic)
              else Ret (inr (inl (pk i ws)))) by (addall_iter l);
    assert (E := addall_while pk c b p l Hit (length l) 0%nat f ws0);
    cbn [skipn] in E;
    match type of E with _ -> _ -> _ -> _ = ?rhs => replace (while f c b p s) with rhs by (symmetry; apply E; [lia | lia | assumption]) end;
    clear Hit E
  end.

Theorem code_arrayContainer_Add : forall fuel v x buf mem,
  len_ok v -> (length v < fuel)%nat -> (32 < fuel)%nat -> (length buf < fuel)%nat ->
  Forall u16 v -> Forall u16 buf -> u16 x -> length mem = N.to_nat bmp_words ->
  g_arrayContainer_Add fuel (of_arr v) (Z.of_N x) (zl buf) (zl mem) =
  Ret (let '(c', ok, buf') := c_add (Arr v) x buf in
       (of_arr (match c' with Arr v' => v' | Bmp _ => v end), (zl buf', (of_cont c', ok)))).
Proof.
  intros fuel v x buf mem Hv Hf1 Hf2 Hf3 Uv Ub Ux Hmem.
  open_code. rewrite code_search by assumption. cbv beta iota zeta delta [bind].
  cbv beta iota zeta delta [c_add a_found]. pose proof (search_le v x) as Hp. set (p := search v (lenN v) x) in *.
  array_go.
  (* pos < len(values) && values[pos] == x *)
  destruct (N.ltb_spec p (lenN v)) as [Hlt|Hge]; cbn [andb]; cbv beta iota; rewrite ?eqb_of_N;
    [destruct (N.eqb_spec (nthN v p) x) as [Heq|Hne]; cbv beta iota; [reflexivity|] | ].
  all: match goal with |- context [Z.of_N (lenN ?vv) <? ?k] => change k with (Z.of_N arr_max) end;
       rewrite ltb_of_N; match goal with |- context [(lenN ?vv <? arr_max)%N] => destruct (N.ltb_spec (lenN vv) arr_max) as [Hmax|Hmax] end.
  (* append(values, 0); copy(values[pos+1:], values[pos:]); values[pos] = x *)
  1,3: set (q := N.to_nat p); replace (Z.of_N p) with (Z.of_nat q) by lia; replace (Z.of_nat q + 1) with (Z.of_nat (S q)) by lia;
       assert (Hq : (q <= length v)%nat) by (rewrite lenN_length in *; lia);
       assert (Hl : length (zl v ++ [0]) = S (length v)) by (rewrite app_length, zl_length; cbn [length]; lia);
       rewrite m_slice_from by lia; unfold zlen; rewrite m_copy_tail by lia;
       rewrite m_set_nat by (rewrite app_length, firstn_length, gocopy_length, skipn_length; lia);
       rewrite insert_by_copy by (rewrite zl_length; lia);
       rewrite insert_at_eq; fold q; unfold of_cont, of_arr; rewrite zl_app, zl_cons, zl_firstn, zl_skipn; reflexivity.
  (* the conversion: copy(buf, values); t := the array's memory; setZero; add every buf value, then x; length = 4097 *)
  all: rewrite copy_all_zl; cbv beta iota zeta; set (buf' := firstn (length buf) v ++ skipn (length v) buf);
       assert (Hlv : (0 < length v)%nat) by (rewrite lenN_length in Hmax; unfold arr_max in Hmax; lia);
       rewrite m_get_zl; dec_Z; cbv beta iota;
       rewrite N.leb_refl; dec_Z; cbv beta iota; rewrite firstn_all2 by (rewrite lenN_length; lia);
       match goal with |- context [g_bitmapContainer_setZero ?f ?b] => change b with (of_bits {| words := mem; cached := 0 |}) end;
       rewrite code_setZero by assumption; cbv beta iota; open_code;
       assert (Hb' : Forall (fun y => (widx y < length (repeat 0%N (N.to_nat bmp_words)))%nat) buf')
         by (rewrite repeat_length; apply Forall_impl with (P := u16); [intros a Ha; apply u16_widx, Ha|];
             apply Forall_app; split; [apply Forall_firstn_N, Uv | apply Forall_skipn_N, Ub]);
       assert (Hlb : (length buf' < fuel)%nat)
         by (unfold buf'; rewrite app_length, firstn_length, skipn_length; lia).
  all: first [ addall_shape (fun (i : nat) (ws : list N) => (Z.of_nat i, mkBits 0 (mkBitmap (zl ws)))) buf' (repeat 0%N (N.to_nat bmp_words))
             | addall_shape (fun (i : nat) (ws : list N) => (mkBits 0 (mkBitmap (zl ws)), Z.of_nat i)) buf' (repeat 0%N (N.to_nat bmp_words)) ];
       cbv beta iota;
       match goal with |- context [g_Bitmap_add ?b _] => change b with (of_bm (fold_left set_bit buf' (repeat 0%N (N.to_nat bmp_words)))) end;
       rewrite code_Bitmap_add, fold_set_bit_len, repeat_length;
       pose proof (u16_widx x Ux); change (N.to_nat bmp_words) with 1024%nat; decide_cmp;
       unfold convert; fold buf'; cbv beta iota zeta; rewrite fold_left_app; reflexivity.
Qed.

(* ================================================================== BitmapIter.Next (bits.go): the nested scan loops *)
(* where an exhausted iterator stops: i = len(set) (or where it was, beyond), j = 0 (or the advanced j), read = false *)
Definition end_iter (set : list N) (it : iter) : iter :=
  {| wi := Nat.max (wi it) (length set);
     bj := if (wi it <? length set)%nat then 0%N else (if rd it then (bj it + 1)%N else bj it);
     rd := false |}.

Ltac inner_iter :=
  let j := fresh "j" in
  intros j; open_iter; change 64 with (Z.of_N 64); rewrite ltb_of_N;
  destruct (N.ltb_spec j 64); cbv beta iota zeta delta [bind]; [|reflexivity];
  go; unfold m_shl; dec_Z; cbv beta iota zeta delta [bind]; rewrite mask_Z by lia; go; unfold mask;
  repeat (break1; go); finish.
(* one round of the outer loop: the inner loop over the word set[i] (= scan_bits), then i++, j = 0 *)
Ltac outer_iter set :=
  let i := fresh "i" in let j := fresh "j" in let Hi := fresh "Hi" in
  intros i j; open_iter; go;
  destruct (Nat.ltb_spec i (length set)) as [Hi|Hi]; cbv beta iota zeta delta [bind]; [|reflexivity];
  match goal with |- context [while ?f ?c ?b ?p ?s] =>
    let Hit := fresh "Hit" in let E := fresh "E" in let mki := fresh "mki" in let hiti := fresh "hiti" in
    pose (mki := fun jj : N => mkBitmapIter (mkBitmap (zl set)) (Z.of_nat i) (Z.of_N jj) false);
    pose (hiti := fun jj : N => (mkBitmapIter (mkBitmap (zl set)) (Z.of_nat i) (Z.of_N jj) true, true));
    assert (Hit : forall jj, iter1 c b p (mki jj) =
              if (jj <? 64)%N
              then (if negb (N.land (nth i set 0%N) (N.shiftl 1 jj) =? 0)%N then Ret (inr (inr (hiti jj))) else Ret (inl (mki (jj + 1)%N)))
              else Ret (inr (inl (mki jj)))) by (subst mki hiti; inner_iter);
    assert (E := inner_while mki hiti c b p (nth i set 0%N) Hit 64%nat j f ltac:(lia) ltac:(lia));
    match type of E with _ = ?rhs => replace (while f c b p s) with rhs by (symmetry; exact E) end;
    subst mki hiti; clear Hit E
  end;
  change (scan_bits 65) with (scan_bits (S 64));
  destruct (scan_bits (S 64) (nth i set 0%N) j); cbv beta iota; [reflexivity|];
  replace (Z.of_nat i + 1) with (Z.of_nat (S i)) by lia; reflexivity.
Ltac outer_shape set i0 j0 :=
  match goal with |- context [while ?f ?c ?b ?p ?s] =>
    let Hit := fresh "Hit" in let E := fresh "E" in let mko := fresh "mko" in let hito := fresh "hito" in
    pose (mko := fun (ii : nat) (jj : N) => mkBitmapIter (mkBitmap (zl set)) (Z.of_nat ii) (Z.of_N jj) false);
    pose (hito := fun (ii : nat) (jj : N) => (mkBitmapIter (mkBitmap (zl set)) (Z.of_nat ii) (Z.of_N jj) true, true));
    assert (Hit : forall ii jj, iter1 c b p (mko ii jj) =
              if (ii <? length set)%nat
              then match scan_bits 65 (nth ii set 0%N) jj with
                   | Some j' => Ret (inr (inr (hito ii j'))) | None => Ret (inl (mko (S ii) 0%N)) end
              else Ret (inr (inl (mko ii jj)))) by (subst mko hito; outer_iter set);
    assert (E := outer_while mko hito c b p set Hit (length set - i0)%nat i0 j0 f ltac:(lia) ltac:(lia));
    match type of E with _ = ?rhs => replace (while f c b p s) with rhs by (symmetry; exact E) end;
    subst mko hito; clear Hit E
  end.

Theorem code_BitmapIter_Next : forall fuel set it, (65 < fuel)%nat -> (length set - wi it < fuel)%nat ->
  g_BitmapIter_Next fuel (of_iter set it) =
  Ret (match bnext set it with Some it' => (of_iter set it', true) | None => (of_iter set (end_iter set it), false) end).
Proof.
  intros fuel set [i j r] Hf1 Hf2. cbn [wi] in Hf2. open_code. unfold bnext, end_iter. cbn [wi bj rd].
  destruct r; cbv beta iota; [replace (Z.of_N j + 1) with (Z.of_N (j + 1)) by lia|].
  all: match goal with |- context [scan_w (skipn ?ii ?ss) ?ii ?j0] => outer_shape ss ii j0; destruct (scan_w (skipn ii ss) ii j0) as [[i' j']|] end;
       cbv beta iota; cbn [wi bj rd]; try reflexivity.
Qed.

(* bitmapContainerIter.Next = BitmapIter.Next on the container's words: the model's inner_next on a bitmap container *)
Theorem code_bitmapContainerIter_Next : forall fuel b it, (65 < fuel)%nat -> (length (words b) - wi it < fuel)%nat ->
  g_bitmapContainerIter_Next fuel (of_iter (words b) it) =
  Ret (match inner_next (Bmp b) (IBmp it) with
       | Some (IBmp it') => (of_iter (words b) it', true)
       | _ => (of_iter (words b) (end_iter (words b) it), false)
       end).
Proof.
  intros fuel b it H1 H2. cbv beta iota zeta delta [g_bitmapContainerIter_Next]. rewrite code_BitmapIter_Next by assumption.
  cbn [inner_next]. destruct (bnext (words b) it); reflexivity.
Qed.

(* ================================================================== RoaringBitmap.Add / Remove / Contains: the high / low split *)
(* only the leading declarations  high := uint16(num >> 16); low := uint16(num)  are translated (TransSpec.Heads): the rest of the
   three functions goes through listz.SkipList and the container interface *)
Ltac head_crush :=
  intros; open_code; unfold hi, lo; rewrite !land_ones16_Z, of_N_shiftr; reflexivity.
Theorem code_Add_head : forall num, g_RoaringBitmap_Add_head (Z.of_N num) = Ret (Z.of_N (hi num), Z.of_N (lo num)).
Proof. head_crush. Qed.
Theorem code_Remove_head : forall num, g_RoaringBitmap_Remove_head (Z.of_N num) = Ret (Z.of_N (hi num), Z.of_N (lo num)).
Proof. head_crush. Qed.
Theorem code_Contains_head : forall num, g_RoaringBitmap_Contains_head (Z.of_N num) = Ret (Z.of_N (hi num), Z.of_N (lo num)).
Proof. head_crush. Qed.
