(* C02 — the comparators the correspondence run instantiates the model with are total orders
   (so the premises of the Props/C02.v theorems are satisfiable, and hold for exactly those instances). *)
From Coq Require Import List ZArith Lia Bool Arith.
From V Require Import Model.Skip Run.C02.
Import ListNotations.
Local Open Scope Z_scope.

Lemma total_order_Z : total_order Z Z.compare.
Proof.
  repeat split.
  - intros a b. apply Z.compare_eq.
  - intros a b. apply Z.compare_antisym.
  - intros a b c. rewrite !Z.compare_lt_iff. lia.
Qed.

(* any total order reversed *)
Lemma total_order_flip K cmp : total_order K cmp -> total_order K (fun a b => cmp b a).
Proof.
  intros (A & B & C). repeat split.
  - intros a b H. symmetry. apply A; auto.
  - intros a b. apply B.
  - intros a b c H1 H2. apply (C c b a); auto.
Qed.

Lemma cmp_of_0 : total_order Z (cmp_of 0).
Proof. exact total_order_Z. Qed.
Lemma cmp_of_1 : total_order Z (cmp_of 1).
Proof. exact (total_order_flip Z Z.compare total_order_Z). Qed.

Lemma cmp_of_2_unfold a b : cmp_of 2 a b = match Z.rem a 4 ?= Z.rem b 4 with Eq => a ?= b | c => c end.
Proof. reflexivity. Qed.
Lemma composite_lt a b : cmp_of 2 a b = Lt <-> (Z.rem a 4 < Z.rem b 4 \/ (Z.rem a 4 = Z.rem b 4 /\ a < b)).
Proof.
  rewrite cmp_of_2_unfold. destruct (Z.compare_spec (Z.rem a 4) (Z.rem b 4)).
  - rewrite Z.compare_lt_iff. lia.
  - split; [lia|reflexivity].
  - split; [discriminate|lia].
Qed.
Lemma cmp_of_2 : total_order Z (cmp_of 2).
Proof.
  repeat split.
  - intros a b. rewrite cmp_of_2_unfold. destruct (Z.rem a 4 ?= Z.rem b 4); try discriminate. apply Z.compare_eq.
  - intros a b. rewrite !cmp_of_2_unfold. rewrite (Z.compare_antisym (Z.rem a 4) (Z.rem b 4)).
    destruct (Z.rem a 4 ?= Z.rem b 4); cbn [CompOpp]; auto. apply Z.compare_antisym.
  - intros a b c. rewrite !composite_lt. lia.
Qed.

(* byte-wise string order on byte lists *)
Lemma lexcmp_eq : forall a b, lexcmp a b = Eq -> a = b.
Proof.
  induction a as [|x a IH]; destruct b as [|y b]; cbn [lexcmp]; intros H; try discriminate; auto.
  destruct (Z.compare_spec x y); try discriminate. subst. f_equal. apply IH; auto.
Qed.
Lemma lexcmp_antisym : forall a b, lexcmp b a = CompOpp (lexcmp a b).
Proof.
  induction a as [|x a IH]; destruct b as [|y b]; cbn [lexcmp CompOpp]; auto.
  rewrite (Z.compare_antisym x y). destruct (x ?= y); cbn [CompOpp]; auto.
Qed.
Lemma lexcmp_trans : forall a b c, lexcmp a b = Lt -> lexcmp b c = Lt -> lexcmp a c = Lt.
Proof.
  induction a as [|x a IH]; destruct b as [|y b]; destruct c as [|z c]; cbn [lexcmp]; intros H1 H2; try discriminate; auto.
  destruct (Z.compare_spec x y); destruct (Z.compare_spec y z); try discriminate; subst.
  - rewrite Z.compare_refl. eapply IH; eauto.
  - replace (y ?= z) with Lt by (symmetry; apply Z.compare_lt_iff; auto). reflexivity.
  - replace (x ?= z) with Lt by (symmetry; apply Z.compare_lt_iff; auto). reflexivity.
  - replace (x ?= z) with Lt by (symmetry; apply Z.compare_lt_iff; lia). reflexivity.
Qed.
Lemma total_order_lex : total_order (list Z) lexcmp.
Proof. repeat split; [apply lexcmp_eq|apply lexcmp_antisym|apply lexcmp_trans]. Qed.

(* every comparator the run uses *)
Theorem run_instances_total :
  total_order Z (cmp_of 0) /\ total_order Z (cmp_of 1) /\ total_order Z (cmp_of 2) /\ total_order (list Z) lexcmp.
Proof. split; [apply cmp_of_0|split; [apply cmp_of_1|split; [apply cmp_of_2|apply total_order_lex]]]. Qed.

(* the key-token coding of string keys round-trips on the tokens the harness uses *)
Example str_roundtrip : forallb (fun z => str_back (str_of z) =? z) (map Z.of_nat (seq 0 200)) = true.
Proof. vm_compute. reflexivity. Qed.
