(* C06 — the executable judge of Replace (Model/Trie.v: regions, segments, replace_ok_go) accepts the splice.
   Byte level, independent of the automaton: for ANY disjoint increasing non-empty intervals mn inside the text that cover
   exactly the positions the occurrence list oc covers, with at most (occurrences inside r) intervals inside every region r,
   the text with one copy of repl per interval parses as  u0 repl^k1 u1 ... repl^kn un  over the maximal covered regions
   with 1 <= ki <= occs_in oc (region i): replace_ok_go answers true.
     regions_go_runs   the byte scan `regions` yields the maximal runs of covered positions ([isruns])
     chain             inside one maximal run the intervals touch each other: the splice there is repl^k
     judge_replace_n   the whole parse, by induction over the runs
   Then the bridge from the Z scopes of Proofs/TrieReplace.v (goodz, splicez, covered, inR) to these nat notions. *)
From Coq Require Import List ZArith Lia Bool Arith.
From V Require Import Lib.Utf8 Model.Trie Proofs.TrieMerge Proofs.TrieReplace Proofs.TrieMask.
Import ListNotations.

(* ---- small facts about the judge's primitives ---- *)
Lemma strip_app u o : strip u (u ++ o) = Some o.
Proof. induction u as [|x u IH]; cbn [strip app]; [reflexivity|]. rewrite Z.eqb_refl. exact IH. Qed.
Lemma beqb_refl a : beqb a a = true.
Proof. induction a as [|x a IH]; cbn [beqb]; [reflexivity|]. rewrite Z.eqb_refl. exact IH. Qed.

(* k copies of the replacement *)
Fixpoint rep (repl : list Z) (k : nat) : list Z := match k with O => [] | S j => repl ++ rep repl j end.

Lemma copies_ok_complete repl K o : K o = true -> forall n k, 1 <= k <= n -> copies_ok repl n (rep repl k ++ o) K = true.
Proof.
  intros HK. induction n as [|n IH]; intros k Hk; [lia|]. destruct k as [|k]; [lia|].
  cbn [rep copies_ok]. rewrite <- app_assoc, strip_app. destruct k as [|k].
  - cbn [rep app]. rewrite HK. reflexivity.
  - rewrite IH by lia. apply orb_true_r.
Qed.

(* ---- the byte scan yields the maximal runs of covered positions ---- *)
(* R lists, in order, the maximal runs of [cov] inside [from, len), given that no run is open at from *)
Fixpoint isruns (cov : nat -> bool) (from len : nat) (R : list (nat * nat)) : Prop :=
  match R with
  | [] => forall j, from <= j < len -> cov j = false
  | (a, b) :: t => from <= a /\ a < b /\ b <= len /\ (forall j, from <= j < a -> cov j = false) /\
                   (forall j, a <= j < b -> cov j = true) /\ (b < len -> cov b = false) /\ isruns cov b len t
  end.

Lemma isruns_extend cov i len R : isruns cov (S i) len R -> cov i = false -> isruns cov i len R.
Proof.
  intros H E. destruct R as [|[a b] t]; cbn [isruns] in *.
  - intros j Hj. destruct (Nat.eq_dec j i) as [->|N]; [exact E|apply H; lia].
  - destruct H as (H1 & H2 & H3 & H4 & H5 & H6 & H7). repeat split; try lia; auto.
    intros j Hj. destruct (Nat.eq_dec j i) as [->|N]; [exact E|apply H4; lia].
Qed.

Lemma regions_go_runs oc len : forall n i, i + n = len ->
  isruns (covered_b oc) i len (regions_go oc n i None) /\
  (forall a from, from <= a -> a < i -> (forall j, from <= j < a -> covered_b oc j = false) ->
     (forall j, a <= j < i -> covered_b oc j = true) -> isruns (covered_b oc) from len (regions_go oc n i (Some a))).
Proof.
  induction n as [|n IH]; intros i Hi.
  - split.
    + cbn [regions_go isruns]. intros j Hj. lia.
    + intros a from H1 H2 H3 H4. cbn [regions_go isruns]. repeat split; try lia; auto; try (intros j Hj; lia).
  - destruct (IH (S i) ltac:(lia)) as [IH1 IH2]. cbn [regions_go]. destruct (covered_b oc i) eqn:E.
    + split.
      * apply IH2; try lia. intros j Hj. replace j with i by lia. exact E.
      * intros a from H1 H2 H3 H4. apply IH2; try lia; auto.
        intros j Hj. destruct (Nat.eq_dec j i) as [->|N]; [exact E|apply H4; lia].
    + split.
      * apply isruns_extend; assumption.
      * intros a from H1 H2 H3 H4. cbn [isruns]. repeat split; try lia; auto.
        apply isruns_extend; assumption.
Qed.

Lemma regions_runs oc len : isruns (covered_b oc) 0 len (regions oc len).
Proof. unfold regions. apply (regions_go_runs oc len len 0). reflexivity. Qed.

(* ---- the parse ---- *)
Definition inRn (r x : nat * nat) : bool := (fst r <=? fst x)%nat && (snd x <=? snd r)%nat.

Lemma occs_in_filter oc r : occs_in oc r = length (filter (inRn r) oc).
Proof. reflexivity. Qed.

Section Parse.
Variable text repl : list Z.
Variable oc : list (nat * nat).
Variable cov : nat -> bool.
Let len := length text.

(* the text from offset from on, one copy of repl per interval (nat offsets) *)
Fixpoint splicen (from : nat) (m : list (nat * nat)) : list Z :=
  match m with
  | [] => skipn from text
  | (a, b) :: t => firstn (a - from) (skipn from text) ++ repl ++ splicen b t
  end.

Lemma ncov_cons a b m i : ncov ((a, b) :: m) i = ((a <=? i)%nat && (i <? b)%nat) || ncov m i.
Proof. reflexivity. Qed.

(* inside one maximal run [a, b), from a boundary y of the intervals on: the following intervals touch each other up to b *)
Lemma chain a b : forall m1 y, a <= y <= b -> b <= len -> ngood y len m1 ->
  (forall i, y <= i < len -> cov i = ncov m1 i) -> (forall i, y <= i < b -> cov i = true) -> (b < len -> cov b = false) ->
  exists g m', m1 = g ++ m' /\ ngood b len m' /\ Forall (fun x => inRn (a, b) x = true) g /\
     (forall i, b <= i -> ncov m1 i = ncov m' i) /\ splicen y m1 = rep repl (length g) ++ splicen b m'.
Proof.
  induction m1 as [|[x2 y2] m2 IH]; intros y Hy Hb Hg Hc Hin Hend.
  - assert (y = b).
    { destruct (Nat.eq_dec y b) as [E|N]; [exact E|]. exfalso. assert (Hyb : y < b) by lia.
      pose proof (Hin y ltac:(lia)) as H1. rewrite (Hc y ltac:(lia)) in H1. discriminate. }
    subst y. exists [], []. split; [reflexivity|]. split; [exact Hg|]. split; [constructor|]. split; [reflexivity|reflexivity].
  - destruct (Nat.eq_dec y b) as [E|N].
    + subst y. exists [], ((x2, y2) :: m2). split; [reflexivity|]. split; [exact Hg|]. split; [constructor|]. split; [reflexivity|reflexivity].
    + assert (Hyb : y < b) by lia. cbn [ngood] in Hg. destruct Hg as (G1 & G2 & G3).
      pose proof (ngood_bound _ _ _ G3) as G4.
      assert (Ex : x2 = y).
      { pose proof (Hin y ltac:(lia)) as H1. rewrite (Hc y ltac:(lia)), ncov_cons in H1.
        rewrite (ngood_not_before _ _ _ G3 y ltac:(lia)), orb_false_r in H1.
        apply andb_prop in H1. destruct H1 as [H1 _]. apply Nat.leb_le in H1. lia. }
      subst x2.
      assert (Hy2 : y2 <= b).
      { destruct (Nat.le_gt_cases y2 b) as [H|H]; [exact H|]. exfalso.
        pose proof (Hend ltac:(lia)) as H1. rewrite (Hc b ltac:(lia)), ncov_cons in H1.
        destruct (Nat.leb_spec y b); [|lia]. destruct (Nat.ltb_spec b y2); [|lia]. discriminate. }
      assert (Hc2 : forall i, y2 <= i -> ncov ((y, y2) :: m2) i = ncov m2 i).
      { intros i Hi. rewrite ncov_cons. destruct (Nat.ltb_spec i y2); [lia|]. rewrite andb_false_r. reflexivity. }
      destruct (IH y2 ltac:(lia) Hb G3) as (g & m' & Eg & Hg' & Hf & Hcv & Es).
      { intros i Hi. rewrite (Hc i ltac:(lia)). apply Hc2. lia. }
      { intros i Hi. apply Hin. lia. }
      { exact Hend. }
      exists ((y, y2) :: g), m'. split; [rewrite Eg; reflexivity|]. split; [exact Hg'|]. split.
      * constructor; [|exact Hf]. unfold inRn. cbn [fst snd]. apply andb_true_intro. split; apply Nat.leb_le; lia.
      * split.
        -- intros i Hi. rewrite Hc2 by lia. apply Hcv. exact Hi.
        -- cbn [splicen length rep]. rewrite Nat.sub_diag. cbn [firstn app]. rewrite Es, app_assoc. reflexivity.
Qed.

Lemma filter_all {X} (f : X -> bool) l : Forall (fun x => f x = true) l -> filter f l = l.
Proof. induction 1 as [|x l H _ IH]; cbn [filter]; [reflexivity|]. rewrite H, IH. reflexivity. Qed.

Theorem judge_replace_n : forall R mn from, ngood from len mn -> isruns cov from len R ->
  (forall i, from <= i < len -> cov i = ncov mn i) ->
  (forall r, length (filter (inRn r) mn) <= occs_in oc r) ->
  replace_ok_go repl (fst (segments text oc from R)) (snd (segments text oc from R)) (splicen from mn) = true.
Proof.
  induction R as [|[a b] t IH]; intros mn from Hg Hr Hc Hn.
  - cbn [segments fst snd replace_ok_go]. destruct mn as [|[x y] m1]; [apply beqb_refl|]. exfalso.
    cbn [ngood] in Hg. destruct Hg as (G1 & G2 & G3). pose proof (ngood_bound _ _ _ G3) as G4.
    cbn [isruns] in Hr. pose proof (Hr x ltac:(lia)) as H1. rewrite (Hc x ltac:(lia)), ncov_cons in H1.
    destruct (Nat.leb_spec x x); [|lia]. destruct (Nat.ltb_spec x y); [|lia]. discriminate.
  - cbn [isruns] in Hr. destruct Hr as (R1 & R2 & R3 & R4 & R5 & R6 & R7).
    cbn [segments snd]. specialize (IH) . destruct (segments text oc b t) as [sg tl] eqn:Es. cbn [fst snd replace_ok_go].
    destruct mn as [|[x y] m1].
    { exfalso. pose proof (R5 a ltac:(lia)) as H1. rewrite (Hc a ltac:(lia)) in H1. discriminate. }
    cbn [ngood] in Hg. destruct Hg as (G1 & G2 & G3). pose proof (ngood_bound _ _ _ G3) as G4.
    assert (Ex : x = a).
    { assert (a <= x).
      { destruct (Nat.le_gt_cases a x) as [H|H]; [exact H|]. exfalso.
        pose proof (R4 x ltac:(lia)) as H1. rewrite (Hc x ltac:(lia)), ncov_cons in H1.
        destruct (Nat.leb_spec x x); [|lia]. destruct (Nat.ltb_spec x y); [|lia]. discriminate. }
      assert (x <= a); [|lia].
      pose proof (R5 a ltac:(lia)) as H1. rewrite (Hc a ltac:(lia)), ncov_cons in H1.
      destruct (Nat.leb_spec x a) as [L|L]; [exact L|]. cbn [andb orb] in H1.
      rewrite (ngood_not_before _ _ _ G3 a ltac:(lia)) in H1. discriminate. }
    subst x.
    assert (Hy : y <= b).
    { destruct (Nat.le_gt_cases y b) as [H|H]; [exact H|]. exfalso.
      pose proof (R6 ltac:(lia)) as H1. rewrite (Hc b ltac:(lia)), ncov_cons in H1.
      destruct (Nat.leb_spec a b); [|lia]. destruct (Nat.ltb_spec b y); [|lia]. discriminate. }
    assert (Hc2 : forall i, y <= i -> ncov ((a, y) :: m1) i = ncov m1 i).
    { intros i Hi. rewrite ncov_cons. destruct (Nat.ltb_spec i y); [lia|]. rewrite andb_false_r. reflexivity. }
    destruct (chain a b m1 y ltac:(lia) R3 G3) as (g & m' & Eg & Hg' & Hf & Hcv & Esp).
    { intros i Hi. rewrite (Hc i ltac:(lia)). apply Hc2. lia. }
    { intros i Hi. apply R5. lia. }
    { exact R6. }
    unfold sub. cbn [fst snd splicen]. rewrite strip_app, Esp, app_assoc.
    change (repl ++ rep repl (length g)) with (rep repl (S (length g))).
    apply copies_ok_complete.
    + specialize (IH m' b Hg' R7). rewrite Es in IH. cbn [fst snd] in IH. apply IH.
      * intros i Hi. rewrite (Hc i ltac:(lia)), Hc2 by lia. apply Hcv. lia.
      * intros r. eapply Nat.le_trans; [|apply (Hn r)]. rewrite Eg.
        change ((a, y) :: g ++ m') with (((a, y) :: g) ++ m'). rewrite filter_app, app_length. lia.
    + split; [lia|]. eapply Nat.le_trans; [|apply (Hn (a, b))]. rewrite Eg. cbn [filter].
      replace (inRn (a, b) (a, y)) with true.
      2:{ symmetry. unfold inRn. cbn [fst snd]. apply andb_true_intro. split; apply Nat.leb_le; lia. }
      cbn [length]. rewrite filter_app, app_length, (filter_all _ g Hf). lia.
Qed.
End Parse.

(* ---- from the Z scopes of Proofs/TrieReplace.v to nat intervals ---- *)
Local Open Scope Z_scope.

Lemma goodz_nat len : forall m from, goodz (Z.of_nat from) (Z.of_nat len) m -> exists mn, m = map zz mn /\ ngood from len mn.
Proof.
  induction m as [|[a b] t IH]; intros from H.
  - exists []. split; [reflexivity|]. cbn [goodz ngood] in *. lia.
  - cbn [goodz] in H. destruct H as (H1 & H2 & H3). destruct (IH (Z.to_nat b)) as (mn & -> & Hg); [rewrite Z2Nat.id by lia; exact H3|]. exists ((Z.to_nat a, Z.to_nat b) :: mn). split.
    + cbn [map]. f_equal. unfold zz. cbn [fst snd]. rewrite !Z2Nat.id by lia. reflexivity.
    + cbn [ngood]. repeat split; [lia|lia|exact Hg].
Qed.

Lemma splicez_nat text repl : forall mn from, splicez text repl (Z.of_nat from) (map zz mn) = splicen text repl from mn.
Proof.
  induction mn as [|[a b] t IH]; intros from; cbn [map splicez splicen zz fst snd].
  - rewrite Nat2Z.id. reflexivity.
  - rewrite Nat2Z.id, IH. replace (Z.to_nat (Z.of_nat a - Z.of_nat from)) with (a - from)%nat by lia. reflexivity.
Qed.

Lemma covered_ncov mn i : covered (map zz mn) (Z.of_nat i) <-> ncov mn i = true.
Proof.
  unfold covered, ncov. rewrite existsb_exists. split.
  - intros (x & Hx & Hr). apply in_map_iff in Hx. destruct Hx as ([a b] & <- & Hin). unfold zz in Hr. cbn [fst snd] in Hr.
    exists (a, b). split; [exact Hin|]. apply andb_true_intro. split; [apply Nat.leb_le|apply Nat.ltb_lt]; lia.
  - intros ([a b] & Hin & Hr). apply andb_prop in Hr. destruct Hr as [H1 H2]. apply Nat.leb_le in H1. apply Nat.ltb_lt in H2.
    exists (zz (a, b)). split; [apply in_map; exact Hin|]. unfold zz. cbn [fst snd]. lia.
Qed.

Lemma covered_b_iff oc i : covered_b oc i = true <-> covered (map zz oc) (Z.of_nat i).
Proof.
  unfold covered, covered_b. rewrite existsb_exists. split.
  - intros ([a b] & Hin & Hr). cbn [fst snd] in Hr. apply andb_prop in Hr. destruct Hr as [H1 H2]. apply Nat.leb_le in H1. apply Nat.ltb_lt in H2.
    exists (zz (a, b)). split; [apply in_map; exact Hin|]. unfold zz. cbn [fst snd]. lia.
  - intros (x & Hx & Hr). apply in_map_iff in Hx. destruct Hx as ([a b] & <- & Hin). unfold zz in Hr. cbn [fst snd] in Hr.
    exists (a, b). split; [exact Hin|]. cbn [fst snd]. apply andb_true_intro. split; [apply Nat.leb_le|apply Nat.ltb_lt]; lia.
Qed.

Lemma goodz_disj_wf len : forall m from, goodz from len m -> disj m /\ wf m.
Proof.
  induction m as [|[a b] t IH]; intros from H; [split; [exact I|constructor]|].
  cbn [goodz] in H. destruct H as (H1 & H2 & H3). destruct (IH b H3) as [Hd Hw]. split.
  - destruct t as [|[c d] t']; [exact I|]. cbn [disj fst snd]. cbn [goodz] in H3. split; [lia|exact Hd].
  - constructor; [cbn [fst snd]; lia|exact Hw].
Qed.

Lemma filter_zz a b l : length (filter (inR (Z.of_nat a) (Z.of_nat b)) (map zz l)) = length (filter (inRn (a, b)) l).
Proof.
  induction l as [|[s e] l IH]; cbn [map filter]; [reflexivity|].
  assert (E : inR (Z.of_nat a) (Z.of_nat b) (zz (s, e)) = inRn (a, b) (s, e)).
  { unfold inR, inRn, zz. cbn [fst snd].
    destruct (Z.leb_spec (Z.of_nat a) (Z.of_nat s)); destruct (Nat.leb_spec a s); try lia;
    destruct (Z.leb_spec (Z.of_nat e) (Z.of_nat b)); destruct (Nat.leb_spec e b); try lia; reflexivity. }
  rewrite E. destruct (inRn (a, b) (s, e)); cbn [length]; rewrite IH; reflexivity.
Qed.

(* the judge of Replace accepts the splice over any good intervals that cover what the occurrences cover, each containing an
   occurrence *)
Theorem judge_replace_splice text repl oc m :
  goodz 0 (Z.of_nat (length text)) m ->
  (forall i, covered m i <-> covered (map zz oc) i) ->
  wf (map zz oc) ->
  (forall x, In x m -> exists o, In o (map zz oc) /\ inside o x) ->
  replace_ok_go repl (fst (segments text oc 0 (regions oc (length text)))) (snd (segments text oc 0 (regions oc (length text))))
    (splicez text repl 0 m) = true.
Proof.
  intros Hg Hc Hw Hh. destruct (goodz_nat (length text) m 0%nat Hg) as (mn & -> & Hgn).
  change 0 with (Z.of_nat 0). rewrite splicez_nat.
  apply (judge_replace_n text repl oc (covered_b oc)); [exact Hgn|apply regions_runs| |].
  - intros i _. apply eq_true_iff_eq. rewrite covered_b_iff, <- Hc. apply covered_ncov.
  - intros [a b]. rewrite occs_in_filter, <- !filter_zz.
    destruct (goodz_disj_wf _ _ _ Hg) as [Hd Hwm]. apply copies_at_most; assumption.
Qed.
