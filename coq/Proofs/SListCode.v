(* C13 — the code GENERATED from listz/singly_list.go (coq/Gen/SListCode.v, by gen/trans_ext13.go on every run: SNode in a
   heap, *SNode = node id, SList the receiver Record, state-passing over (Heap, SList)) is equal to the hand-written
   heap-level model coq/Model/SList.v, function by function, for all heaps, list headers and arguments — well-formed or
   not.  Loops: the index walks need fuel above the number of steps (premise, explicit); Swap is stated for every fuel
   on which the model's own search does not run out.
   Proof style: the loops are taken out of the goal and characterised by what ONE evaluation of condition / body / post
   does (lemmas walk2_bind, walk3_bind, swap_bind: induction on the step count / fuel); everything else is unfolding
   both sides + case analysis on every condition / option. *)
From Coq Require Import List ZArith Lia Bool Arith.
From V Require Import Model.DList Model.SList Lib.GoSem Lib.GoSemHeap Proofs.GoSemFacts Gen.SListCode.
Import GoNotations.
Local Open Scope Z_scope.

(* ---- the explicit, total conversions between the generated Records and the model's record *)
Definition to_model (h : Heap) (l : SList) : sl :=
  {| nx := SNode_next h; sv := SNode_Value h; hd := SList_head l; tl := SList_tail l; ln := SList_len l; fr := h_fresh h |}.
Definition heap_of (s : sl) : Heap := mkHeap (sv s) (nx s) (fr s).
Definition list_of (s : sl) : SList := mkSList (hd s) (tl s) (ln s).
Lemma of_to h l : heap_of (to_model h l) = h /\ list_of (to_model h l) = l. Proof. destruct h, l; split; reflexivity. Qed.
Lemma to_of s : to_model (heap_of s) (list_of s) = s. Proof. destruct s; reflexivity. Qed.

(* results: the generated functions return (heap, (list header, result)) *)
Definition st_res {A} (p : sl * A) : Heap * (SList * A) := (heap_of (fst p), (list_of (fst p), snd p)).
Definition st_unit (s : sl) : Heap * (SList * unit) := (heap_of s, (list_of s, tt)).
Definition sres_m (r : sres) : M (Heap * (SList * unit)) :=
  match r with SPanic => Panic | SNoFuel => NoFuel | SBad => Panic | SOk s _ => Ret (st_unit s) end.

(* Swap of Model/SList.v with the fuel of its search loop as a parameter (swap = swap_with (S (S (fr s)))) *)
Definition swap_with (f : nat) (s : sl) (i j : Z) : sres :=
  if within s i && within s j && negb (i =? j) then
    match swap_find f (nx s) 0 i j (hd s) None None with
    | None => SNoFuel
    | Some None => SPanic
    | Some (Some (a, b)) => SOk (set_sv (set_sv s a (sv s b)) b (sv s a)) RUnit
    end
  else SOk s RUnit.
Lemma swap_is_swap_with s i j : swap s i j = swap_with (S (S (fr s))) s i j. Proof. reflexivity. Qed.

(* ---- loops, characterised by one evaluation of their components *)
Section Loops.
Context {R : Type} (nxf : nat -> ptr).

(* for index := ..; index < bound; index++ { e = e.next }     state (e, index) *)
Lemma walk2_bind {B} (bound : Z) (c : ptr * Z -> M bool) (b : ptr * Z -> M (ctl (ptr * Z) R)) (p : ptr * Z -> M (ptr * Z))
  (K : (ptr * Z) + R -> M B) :
  (forall e x, c (e, x) = Ret (x <? bound)) ->
  (forall e x, b (e, x) = bind (h_get nxf e) (fun v => Ret (Next (v, x)))) ->
  (forall e x, p (e, x) = Ret (e, x + 1)) ->
  (forall e x y, K (inl (e, x)) = K (inl (e, y))) ->
  forall n fuel e x b0, n = Z.to_nat (bound - x) -> (n < fuel)%nat ->
  bind (while fuel c b p (e, x)) K = match walkn nxf n b0 e with Some (_, e') => K (inl (e', 0)) | None => Panic end.
Proof.
  intros HC HB HP HK. induction n; intros fuel e x b0 Hn Hf; (destruct fuel; [lia|]); rewrite while_step, HC.
  - replace (x <? bound) with false by (symmetry; apply Z.ltb_ge; lia). cbn [bind walkn]. apply HK.
  - replace (x <? bound) with true by (symmetry; apply Z.ltb_lt; lia). cbn [bind]. rewrite HB.
    destruct e as [a|]; cbn [bind h_get walkn]; [|reflexivity].
    rewrite HP. cbn [bind]. apply IHn; lia.
Qed.

(* for index := ..; index < bound; index++ { before = e; e = e.next }     state (before, e, index) *)
Lemma walk3_bind {B} (bound : Z) (c : ptr * ptr * Z -> M bool) (b : ptr * ptr * Z -> M (ctl (ptr * ptr * Z) R))
  (p : ptr * ptr * Z -> M (ptr * ptr * Z)) (K : (ptr * ptr * Z) + R -> M B) :
  (forall b0 e x, c (b0, e, x) = Ret (x <? bound)) ->
  (forall b0 e x, b (b0, e, x) = bind (h_get nxf e) (fun v => Ret (Next (e, v, x)))) ->
  (forall b0 e x, p (b0, e, x) = Ret (b0, e, x + 1)) ->
  (forall b0 e x y, K (inl (b0, e, x)) = K (inl (b0, e, y))) ->
  forall n fuel b0 e x, n = Z.to_nat (bound - x) -> (n < fuel)%nat ->
  bind (while fuel c b p (b0, e, x)) K = match walkn nxf n b0 e with Some (b', e') => K (inl (b', e', 0)) | None => Panic end.
Proof.
  intros HC HB HP HK. induction n; intros fuel b0 e x Hn Hf; (destruct fuel; [lia|]); rewrite while_step, HC.
  - replace (x <? bound) with false by (symmetry; apply Z.ltb_ge; lia). cbn [bind walkn]. apply HK.
  - replace (x <? bound) with true by (symmetry; apply Z.ltb_lt; lia). cbn [bind]. rewrite HB.
    destruct e as [a|]; cbn [bind h_get walkn]; [|reflexivity].
    rewrite HP. cbn [bind]. apply IHn; lia.
Qed.

(* the search loop of Swap     state (e1, e2, index, ce) *)
Lemma swap_bind {B} (i j : Z) (c : ptr * ptr * Z * ptr -> M bool) (b : ptr * ptr * Z * ptr -> M (ctl (ptr * ptr * Z * ptr) R))
  (p : ptr * ptr * Z * ptr -> M (ptr * ptr * Z * ptr)) (K : (ptr * ptr * Z * ptr) + R -> M B) :
  (forall e1 e2 x ce, c (e1, e2, x, ce) = Ret (orb (ptr_eqb e1 None) (ptr_eqb e2 None))) ->
  (forall e1 e2 x ce, b (e1, e2, x, ce) =
     Ret (Next (if x =? i then ce else e1, if x =? i then e2 else if x =? j then ce else e2, x, ce))) ->
  (forall e1 e2 x ce, p (e1, e2, x, ce) = bind (h_get nxf ce) (fun v => Ret (e1, e2, x + 1, v))) ->
  (forall e1 e2 x ce y ce', K (inl (e1, e2, x, ce)) = K (inl (e1, e2, y, ce'))) ->
  forall f e1 e2 x ce, swap_find f nxf x i j ce e1 e2 <> None ->
  bind (while (S f) c b p (e1, e2, x, ce)) K =
  match swap_find f nxf x i j ce e1 e2 with
  | Some (Some (a, b')) => K (inl (Some a, Some b', 0, None))
  | Some None => Panic
  | None => NoFuel
  end.
Proof.
  intros HC HB HP HK. induction f; intros e1 e2 x ce Hne; rewrite while_step, HC.
  - destruct e1 as [a|], e2 as [b'|]; cbn [swap_find] in *; try congruence. cbn [ptr_eqb orb bind]. apply HK.
  - destruct e1 as [a|], e2 as [b'|]; cbn [ptr_eqb orb bind]; [cbn [swap_find]; apply HK| | |];
      rewrite HB; cbn [bind]; rewrite HP; cbn [swap_find] in *;
      (destruct ce as [cc|]; cbn [bind h_get]; [|reflexivity]); apply IHf; exact Hne.
Qed.
End Loops.

(* ---- unfolding and case analysis *)
Ltac unfold_all :=
  repeat autounfold with go2v;
  cbv beta iota zeta delta [bind mmap lift h_get h_set hupd fupd ptr_eqb oeq fst snd
    to_model heap_of list_of st_res st_unit sres_m
    set_nx set_sv set_hd set_tl set_ln nx sv hd tl ln fr salloc1 within
    get remove_at remove_front push_front_node push_back_node insert_node_at swap_with sok_unit];
  repeat autounfold with go2v; cbv beta iota zeta.
Ltac break1 :=
  match goal with
  | |- context [if ?c then _ else _] => destruct c eqn:?
  | |- context [match ?x with Some _ => _ | None => _ end] => destruct x eqn:?
  | |- context [match ?x with (_, _) => _ end] => destruct x eqn:?
  end.
Ltac zb :=
  repeat match goal with
  | H : (_ =? _) = true |- _ => apply Z.eqb_eq in H
  | H : (_ =? _) = false |- _ => apply Z.eqb_neq in H
  | H : (_ <=? _) = true |- _ => apply Z.leb_le in H
  | H : (_ <=? _) = false |- _ => apply Z.leb_gt in H
  | H : (_ <? _) = true |- _ => apply Z.ltb_lt in H
  | H : (_ <? _) = false |- _ => apply Z.ltb_ge in H
  | H : andb _ _ = true |- _ => apply andb_true_iff in H; destruct H
  | H : andb _ _ = false |- _ => apply andb_false_iff in H; destruct H
  | H : negb _ = true |- _ => apply negb_true_iff in H
  | H : negb _ = false |- _ => apply negb_false_iff in H
  end.
Ltac finish := try reflexivity; try congruence; zb; try lia; try congruence; try (exfalso; lia).
Ltac crush := intros; unfold_all; repeat break1; finish.
(* open the two Records (fresh names: the field names would shadow the projections) *)
Ltac dhl := match goal with h : Heap, l : SList |- _ => destruct h as [hv hn hf], l as [lh lt ll] end.

(* open the generated function up to its loop: unfold the generated definitions, run the monad on known values *)
Ltac open_code := cbv beta iota zeta delta [to_model nx sv hd tl ln fr within]; repeat autounfold with go2v; cbv beta iota zeta; cbn [bind negb].
(* the goal is  bind (while fuel c b p s) K = ...  : apply a loop lemma, its one-iteration obligations by computation *)
Ltac one_iter := intros; try reflexivity; cbv beta iota zeta; repeat break1; reflexivity.

(* ---- the functions without loops *)
Theorem code_Next : forall h e, g_SNode_Next h e = mmap (fun v => (h, v)) (h_get (SNode_next h) e).
Proof. crush. Qed.
Theorem code_Len : forall h l, g_SList_Len h l = Ret (h, (l, ln (to_model h l))).
Proof. crush. Qed.
Theorem code_Front : forall h l, g_SList_Front h l = Ret (h, (l, hd (to_model h l))).
Proof. crush. Qed.
Theorem code_Back : forall h l, g_SList_Back h l = Ret (h, (l, tl (to_model h l))).
Proof. crush. Qed.
Theorem code_withinRange : forall h l i, g_SList_withinRange h l i = Ret (h, (l, within (to_model h l) i)).
Proof. crush. Qed.
Theorem code_RemoveFront : forall h l, g_SList_RemoveFront h l = mmap st_res (lift (remove_front (to_model h l))).
Proof. intros h l; dhl; crush. Qed.
Theorem code_PushFrontNode : forall h l e,
  g_SList_PushFrontNode h l (Some e) = Ret (st_unit (push_front_node (to_model h l) e)).
Proof. intros h l; dhl; crush. Qed.
Theorem code_PushFrontNode_nil : forall h l, g_SList_PushFrontNode h l None = Panic.
Proof. crush. Qed.
Theorem code_PushBackNode : forall h l e,
  g_SList_PushBackNode h l (Some e) = mmap st_unit (lift (push_back_node (to_model h l) e)).
Proof. intros h l; dhl; crush. Qed.
Theorem code_PushFront : forall h l v,
  g_SList_PushFront h l v = Ret (st_unit (let (s1, e) := salloc1 (to_model h l) v in push_front_node s1 e)).
Proof. intros h l; dhl; crush. Qed.
Theorem code_PushBack : forall h l v,
  g_SList_PushBack h l v = mmap st_unit (lift (let (s1, e) := salloc1 (to_model h l) v in push_back_node s1 e)).
Proof. intros h l; dhl; crush. Qed.

(* ---- Get *)
Theorem code_Get : forall fuel h l i, (Z.to_nat i < fuel)%nat ->
  g_SList_Get fuel h l i = mmap (fun e => (h, (l, e))) (lift (get (to_model h l) i)).
Proof.
  intros fuel h l i Hf. dhl. unfold get. open_code.
  destruct ((0 <=? i) && (i <? ll)) eqn:W; cbn [negb]; [|reflexivity].
  match goal with |- bind (while _ ?c ?b ?p (?e, ?x)) ?K = _ =>
    etransitivity; [exact (walk2_bind hn i c b p K ltac:(one_iter) ltac:(one_iter) ltac:(one_iter) ltac:(one_iter)
               (Z.to_nat i) fuel e x None ltac:(f_equal; lia) Hf)|] end.
  destruct (walkn hn (Z.to_nat i) None lh) as [[b' e']|]; reflexivity.
Qed.

(* ---- Remove *)
Theorem code_Remove : forall fuel h l i, (Z.to_nat i < fuel)%nat ->
  g_SList_Remove fuel h l i = mmap st_res (lift (remove_at (to_model h l) i)).
Proof.
  intros fuel h l i Hf. dhl. unfold remove_at. open_code.
  destruct ((0 <=? i) && (i <? ll)) eqn:W; cbn [negb]; [|reflexivity].
  match goal with |- bind (while _ ?c ?b ?p (?b0, ?e, ?x)) ?K = _ =>
    etransitivity; [exact (walk3_bind hn i c b p K ltac:(one_iter) ltac:(one_iter) ltac:(one_iter) ltac:(one_iter)
               (Z.to_nat i) fuel b0 e x ltac:(f_equal; lia) Hf)|] end.
  destruct (walkn hn (Z.to_nat i) None lh) as [[b' [e'|]]|]; unfold_all; repeat break1; finish.
Qed.

(* ---- InsertNodeAt / InsertAt *)
Theorem code_InsertNodeAt : forall fuel h l i e, (Z.to_nat (i - 1) < fuel)%nat ->
  g_SList_InsertNodeAt fuel h l i (Some e) = mmap st_unit (lift (insert_node_at (to_model h l) i e)).
Proof.
  intros fuel h l i e Hf. dhl. unfold insert_node_at. open_code.
  destruct (i <=? 0) eqn:I0; [unfold_all; repeat break1; finish|].
  destruct (ll <=? i) eqn:I1; [unfold_all; repeat break1; finish|].
  match goal with |- bind (while _ ?c ?b ?p (?e0, ?x)) ?K = _ =>
    etransitivity; [exact (walk2_bind hn (i - 1) c b p K ltac:(one_iter) ltac:(one_iter) ltac:(one_iter) ltac:(one_iter)
               (Z.to_nat (i - 1)) fuel e0 x None ltac:(f_equal; lia) Hf)|] end.
  destruct (walkn hn (Z.to_nat (i - 1)) None lh) as [[b' [e'|]]|]; unfold_all; repeat break1; finish.
Qed.

Theorem code_InsertAt : forall fuel h l i v, (Z.to_nat (i - 1) < fuel)%nat ->
  g_SList_InsertAt fuel h l i v = mmap st_unit (lift (let (s1, e) := salloc1 (to_model h l) v in insert_node_at s1 i e)).
Proof.
  intros fuel h l i v Hf. unfold g_SList_InsertAt, new_SNode.
  rewrite code_InsertNodeAt by exact Hf. dhl.
  cbv beta iota zeta delta [salloc1 hupd fupd to_model fr nx sv hd tl ln SNode_Value SNode_next h_fresh SList_head SList_tail SList_len].
  match goal with |- bind (mmap _ (lift ?o)) _ = mmap _ (lift ?o') => change o' with o; destruct o end; reflexivity.
Qed.

(* ---- Swap *)
Theorem code_Swap : forall f h l i j, swap_with f (to_model h l) i j <> SNoFuel ->
  g_SList_Swap (S f) h l i j = sres_m (swap_with f (to_model h l) i j).
Proof.
  intros f h l i j. dhl. unfold swap_with. open_code.
  destruct ((0 <=? i) && (i <? ll)) eqn:Wi; cbn [bind andb]; [|intros _; reflexivity].
  destruct ((0 <=? j) && (j <? ll)) eqn:Wj; cbn [bind andb]; [|intros _; reflexivity].
  destruct (negb (i =? j)) eqn:Nij; [|intros _; reflexivity].
  intros Hne.
  match goal with |- bind (while _ ?c ?b ?p (?e1, ?e2, ?x, ?ce)) ?K = _ =>
    etransitivity; [refine (swap_bind hn i j c b p K ltac:(one_iter) ltac:(one_iter) ltac:(one_iter) ltac:(one_iter)
               f e1 e2 x ce _)|] end.
  - intro E. apply Hne. rewrite E. reflexivity.
  - destruct (swap_find f hn 0 i j lh None None) as [[[a b']|]|]; unfold_all; reflexivity.
Qed.

Theorem code_Swap_model : forall h l i j, swap (to_model h l) i j <> SNoFuel ->
  g_SList_Swap (S (S (S (h_fresh h)))) h l i j = sres_m (swap (to_model h l) i j).
Proof. intros h l i j H. rewrite swap_is_swap_with in *. apply code_Swap. exact H. Qed.
