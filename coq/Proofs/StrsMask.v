(* C17: Mask.  Ported from design-notes/proto/MaskStr_proto.v to Z bytes and Go-int arguments. *)
From Coq Require Import List ZArith Lia Bool Arith.
From V Require Import Lib.Utf8 Proofs.Utf8Facts Model.Strs Proofs.StrsBasic.
Import ListNotations.
Local Open Scope Z_scope.
Arguments Z.mul : simpl never.
Arguments Z.add : simpl never.
Arguments Z.sub : simpl never.
Arguments Z.of_nat : simpl never.
Arguments Z.to_nat : simpl never.

Lemma off_pos cs k : Forall (fun c => c <> []) cs -> (1 <= k)%nat -> cs <> [] -> (0 < off cs k)%nat.
Proof.
  intros Hne Hk Hcs. destruct cs as [|c cs']; [congruence|]. destruct k as [|k']; [lia|]. unfold off. cbn [firstn concat].
  rewrite app_length. inversion Hne; subst. destruct c; [congruence|cbn [length]; lia].
Qed.

Lemma idx_go_spec s start end_ : 0 <= start < end_ -> forall rs ps fuel,
  s = concat ps ++ concat rs -> chunks (concat rs) = rs -> (length (concat rs) < fuel)%nat ->
  idx_go s start end_ fuel (length (concat ps)) (Z.of_nat (length ps))
         (if start <? Z.of_nat (length ps) then off ps (Z.to_nat start) else 0%nat)
         (if end_ <? Z.of_nat (length ps) then off ps (Z.to_nat end_) else 0%nat)
  = Some (if start <? Z.of_nat (length (ps ++ rs)) then off (ps ++ rs) (Z.to_nat start) else 0%nat,
          if end_ <? Z.of_nat (length (ps ++ rs)) then off (ps ++ rs) (Z.to_nat end_) else 0%nat).
Proof.
  intros Hse.
  induction rs as [|r rs' IH]; intros ps fuel Hs Hr Hf; (destruct fuel as [|f]; [lia|]); cbn [idx_go].
  - cbn [concat] in Hs. rewrite app_nil_r in Hs. rewrite app_nil_r. rewrite Hs, Nat.ltb_irrefl. reflexivity.
  - set (R := concat (r :: rs')) in *.
    destruct (chunks_head r rs' R eq_refl Hr) as (HRne & Hlr & Hcr & Ers).
    pose proof (adv_pos R HRne) as Hsz.
    assert (Hi : (length (concat ps) < length s)%nat) by (rewrite Hs, app_length; destruct R; [congruence|cbn [length]; lia]).
    destruct (Nat.ltb_spec (length (concat ps)) (length s)); [|lia].
    assert (Hsk : skipn (length (concat ps)) s = R) by (rewrite Hs; apply skipn_len_app).
    rewrite Hsk, <- Hlr.
    replace (ps ++ r :: rs') with ((ps ++ [r]) ++ rs') by (rewrite <- app_assoc; reflexivity).
    replace (length (concat ps) + length r)%nat with (length (concat (ps ++ [r]))) by (rewrite concat_snoc, app_length; reflexivity).
    assert (El : Z.of_nat (length ps) + 1 = Z.of_nat (length (ps ++ [r]))) by (rewrite app_length; cbn [length]; lia).
    rewrite El.
    assert (Hoff : forall k, (k <= length ps)%nat -> off (ps ++ [r]) k = off ps k)
      by (intros k Hk; unfold off; rewrite firstn_app; replace (k - length ps)%nat with 0%nat by lia; cbn [firstn]; rewrite app_nil_r; reflexivity).
    assert (Hoffn : off ps (length ps) = length (concat ps)) by (unfold off; rewrite firstn_all; reflexivity).
    rewrite <- (IH (ps ++ [r]) f).
    + f_equal.
      * rewrite <- El. destruct (Z.eqb_spec (Z.of_nat (length ps)) start) as [E|E].
        -- destruct (Z.ltb_spec start (Z.of_nat (length ps) + 1)); [|lia]. rewrite Hoff by lia.
           rewrite <- E, Nat2Z.id. symmetry. exact Hoffn.
        -- destruct (Z.ltb_spec start (Z.of_nat (length ps))), (Z.ltb_spec start (Z.of_nat (length ps) + 1)); try lia; try reflexivity.
           symmetry. apply Hoff. lia.
      * rewrite <- El. destruct (Z.eqb_spec (Z.of_nat (length ps)) start) as [E|E].
        -- destruct (Z.ltb_spec end_ (Z.of_nat (length ps))); [lia|]. destruct (Z.ltb_spec end_ (Z.of_nat (length ps) + 1)); [lia|]. reflexivity.
        -- destruct (Z.eqb_spec (Z.of_nat (length ps)) end_) as [E2|E2].
           ++ destruct (Z.ltb_spec end_ (Z.of_nat (length ps) + 1)); [|lia]. rewrite Hoff by lia.
              rewrite <- E2, Nat2Z.id. symmetry. exact Hoffn.
           ++ destruct (Z.ltb_spec end_ (Z.of_nat (length ps))), (Z.ltb_spec end_ (Z.of_nat (length ps) + 1)); try lia; try reflexivity.
              symmetry. apply Hoff. lia.
    + rewrite concat_snoc, <- app_assoc. exact Hs.
    + exact Ers.
    + unfold R in Hf. cbn [concat] in Hf. rewrite app_length in Hf. lia.
Qed.

Lemma rune_count_one_nonempty m : rune_count_z m = 1 -> m <> [].
Proof. intros H E. subst m. discriminate H. Qed.

(* Mask on every byte string and mask, all non-negative start/end (int range): first `start` runes, the mask (once per
   replaced rune when it is one rune), last `end` runes; unchanged when nothing is left to replace.
   No slice is out of range, the fuel suffices, strings.Repeat is called with a count <= rune count. *)
Theorem mask_spec str msk start end_ :
  zlen str <= maxint -> zlen msk * zlen str <= alloc_limit ->
  0 <= start <= maxint -> 0 <= end_ <= maxint ->
  mask str msk start end_ = Ret (spec_mask str msk start end_).
Proof.
  intros Hsmall Halloc Hst Hen. unfold mask, spec_mask.
  set (cs := chunks str). rewrite (rune_count_chunks str). fold cs. set (l := Z.of_nat (length cs)).
  assert (Hc : concat cs = str) by apply chunks_concat.
  assert (Hl : 0 <= l <= zlen str) by (unfold l, cs, zlen; pose proof (chunks_length str); lia).
  destruct (Z.ltb_spec l start) as [H1|H1]; cbn [orb].
  { destruct (Z.leb_spec l (start + end_)); [reflexivity|lia]. }
  destruct (Z.ltb_spec l end_) as [H2|H2].
  { destruct (Z.leb_spec l (start + end_)); [reflexivity|lia]. }
  assert (Hw1 : wrap64 (l - start) = l - start) by (apply wrap64_id; unfold two63, maxint in *; lia).
  rewrite Hw1. assert (Hw2 : wrap64 (l - start - end_) = l - start - end_) by (apply wrap64_id; unfold two63, maxint in *; lia).
  rewrite Hw2. assert (Hw3 : wrap64 (l - end_) = l - end_) by (apply wrap64_id; unfold two63, maxint in *; lia).
  rewrite Hw3.
  destruct (Z.leb_spec (l - start - end_) 0) as [Hle|Hgt]; destruct (Z.leb_spec l (start + end_)); try lia; [reflexivity|].
  set (ml := l - start - end_) in *.
  set (msk' := if (length (chunks msk) =? 1)%nat then concat (repeat msk (Z.to_nat ml)) else msk).
  assert (Hm : (if rune_count_z msk =? 1 then repeat_str msk ml else Ret msk) = Ret msk').
  { unfold msk'. rewrite (rune_count_chunks msk).
    destruct (Z.eqb_spec (Z.of_nat (length (chunks msk))) 1) as [E|E].
    - destruct (Nat.eqb_spec (length (chunks msk)) 1); [|lia]. unfold repeat_str.
      destruct (Z.eqb_spec ml 1) as [E1|E1].
      + rewrite E1. change (Z.to_nat 1) with 1%nat. cbn [repeat concat]. rewrite app_nil_r. reflexivity.
      + assert (Hb : zlen msk * ml <= alloc_limit).
        { assert (0 <= zlen msk) by (unfold zlen; lia). assert (ml <= zlen str) by lia. nia. }
        destruct (Z.ltb_spec maxint (zlen msk * ml)); [unfold alloc_limit, maxint in *; lia|].
        destruct msk as [|b m']; [discriminate e|].
        destruct (Z.ltb_spec alloc_limit (zlen (b :: m') * ml)); [lia|]. reflexivity.
    - destruct (Nat.eqb_spec (length (chunks msk)) 1); [lia|]. reflexivity. }
  rewrite Hm. cbn [bind].
  destruct (Z.eqb_spec ml l) as [E|E].
  - assert (start = 0 /\ end_ = 0) as [-> ->] by lia. unfold firstz, skipz. rewrite clampn_small by lia.
    rewrite clampn_big by lia. change (Z.to_nat 0) with 0%nat. cbn [firstn concat app]. rewrite skipn_all. cbn [concat].
    rewrite app_nil_r. reflexivity.
  - pose proof (idx_go_spec str start (l - end_) ltac:(lia) cs [] (S (length str))) as G. cbn [concat app length] in G.
    change (Z.of_nat 0) with 0 in G.
    destruct (Z.ltb_spec start 0); [lia|]. destruct (Z.ltb_spec (l - end_) 0); [lia|].
    rewrite G; [| symmetry; exact Hc | rewrite Hc; reflexivity | rewrite Hc; lia ]. fold l.
    destruct (Z.ltb_spec start l); [|lia].
    assert (Hdec : forall k, str = concat (firstn k cs) ++ concat (skipn k cs))
      by (intros k; rewrite <- concat_app, firstn_skipn; symmetry; exact Hc).
    assert (Hfz : forall z, 0 <= z <= l -> firstz z cs = firstn (Z.to_nat z) cs)
      by (intros z Hz; unfold firstz; rewrite clampn_small by (fold l; lia); reflexivity).
    assert (Hsz : forall z, 0 <= z <= l -> skipz z cs = skipn (Z.to_nat z) cs)
      by (intros z Hz; unfold skipz; rewrite clampn_small by (fold l; lia); reflexivity).
    rewrite Hfz by lia. rewrite Hsz by lia.
    assert (Hpre : forall k, sl str 0 (off cs k) = Ret (concat (firstn k cs))).
    { intros k. unfold off. rewrite (Hdec k) at 1. apply sl_prefix. }
    assert (Hsuf : forall k, sl str (off cs k) (length str) = Ret (concat (skipn k cs))).
    { intros k. unfold off. rewrite (Hdec k) at 1 2. apply sl_suffix. }
    destruct (Z.ltb_spec (l - end_) l) as [Hel|Hel].
    + (* end > 0: the second index was recorded in the loop and is positive *)
      assert (Hpos : (0 < off cs (Z.to_nat (l - end_)))%nat).
      { apply off_pos; [apply chunks_nonempty|lia|]. intros Ecs. unfold l in *. rewrite Ecs in *. cbn [length] in *. lia. }
      destruct (Nat.eqb_spec (off cs (Z.to_nat (l - end_))) 0); [lia|].
      rewrite Hpre. cbn [bind]. rewrite Hsuf. cbn [bind]. reflexivity.
    + (* end = 0: endIndex stayed 0 and becomes len(str) *)
      rewrite Nat.eqb_refl. rewrite Hpre. cbn [bind].
      assert (end_ = 0) by lia. subst end_. replace (l - 0) with l by lia.
      rewrite sl_ok by lia. rewrite skipn_all, Nat.sub_diag. cbn [firstn bind].
      unfold l. rewrite Nat2Z.id, skipn_all. reflexivity.
Qed.

(* for arbitrary int arguments (negative ones included) the only panic is an impossible allocation in strings.Repeat *)
Theorem mask_no_panic str msk start end_ :
  zlen str <= maxint -> - two63 <= start <= maxint -> - two63 <= end_ <= maxint ->
  (let ml := wrap64 (wrap64 (rune_count_z str - start) - end_) in
   rune_count_z msk = 1 -> 1 < ml -> zlen msk * ml <= alloc_limit) ->
  exists b, mask str msk start end_ = Ret b.
Proof.
  intros Hsmall Hst Hen Hrep. unfold mask. cbv zeta in Hrep.
  set (l := rune_count_z str) in *.
  destruct ((l <? start) || (l <? end_)); [eauto|].
  set (ml := wrap64 (wrap64 (l - start) - end_)) in *.
  destruct (Z.leb_spec ml 0); [eauto|].
  assert (Hm : exists m', (if rune_count_z msk =? 1 then repeat_str msk ml else Ret msk) = Ret m').
  { destruct (Z.eqb_spec (rune_count_z msk) 1) as [E|E]; [|eauto]. unfold repeat_str.
    destruct (Z.eqb_spec ml 1); [eauto|]. specialize (Hrep E ltac:(lia)).
    destruct (Z.ltb_spec maxint (zlen msk * ml)); [unfold alloc_limit, maxint in *; lia|].
    destruct msk; [eauto|]. destruct (Z.ltb_spec alloc_limit (zlen (z :: msk) * ml)); [lia|]. eauto. }
  destruct Hm as [m' ->]. cbn [bind].
  destruct (ml =? l); [eauto|].
  (* the index loop: whatever the two targets are, both indices stay within the string *)
  assert (G : forall st en fuel i c si ei, (i <= length str)%nat -> (si <= length str)%nat -> (ei <= length str)%nat ->
              (length str - i < fuel)%nat ->
              exists si' ei', idx_go str st en fuel i c si ei = Some (si', ei') /\ (si' <= length str)%nat /\ (ei' <= length str)%nat).
  { intros st en. induction fuel as [|f IH]; intros i c si ei Hi Hsi Hei Hf; [lia|]. cbn [idx_go].
    destruct (Nat.ltb_spec i (length str)); [|eauto].
    assert (Hne : skipn i str <> []) by (intros E; apply (f_equal (@length Z)) in E; rewrite skipn_length in E; cbn [length] in E; lia).
    pose proof (adv_pos _ Hne) as Ha. rewrite skipn_length in Ha.
    apply IH; try lia; destruct (c =? st); try lia; destruct (c =? en); lia. }
  destruct (G start (wrap64 (l - end_)) (S (length str)) 0%nat 0 0%nat 0%nat) as (si & ei & -> & Hsi & Hei); try lia.
  rewrite sl_ok by lia. cbn [bind].
  destruct (Nat.eqb_spec ei 0); (rewrite sl_ok by lia); cbn [bind]; eauto.
Qed.
