(* C14: list and heap lemmas shared by the slicez proofs (upd, window, splice, arrays of the heap). *)
From Coq Require Import List ZArith Bool Arith Lia Permutation.
From V Require Import Model.Slices.
Import ListNotations.

Lemma upd_length {A} (l : list A) i x : length (upd l i x) = length l.
Proof. revert i; induction l as [|h t IH]; intros [|i]; cbn [upd length]; auto. Qed.
Lemma upd_app_r {A} (a b : list A) i x : upd (a ++ b) (length a + i) x = a ++ upd b i x.
Proof. induction a as [|h a IH]; cbn [app length upd Nat.add]; [reflexivity|]. f_equal. apply IH. Qed.
Lemma upd_app_r0 {A} (a b : list A) x : upd (a ++ b) (length a) x = a ++ upd b 0 x.
Proof. rewrite <- (Nat.add_0_r (length a)). apply upd_app_r. Qed.
Lemma upd_app_l {A} (a b : list A) i x : i < length a -> upd (a ++ b) i x = upd a i x ++ b.
Proof.
  revert i; induction a as [|h a IH]; intros i H; cbn [length] in H; [lia|].
  destruct i; cbn [app upd]; [reflexivity|]. f_equal. apply IH. lia.
Qed.
Lemma upd_beyond {A} (l : list A) i x : length l <= i -> upd l i x = l.
Proof.
  revert i; induction l as [|h t IH]; intros i H; [destruct i; reflexivity|].
  cbn [length] in H. destruct i; [lia|]. cbn [upd]. f_equal. apply IH. lia.
Qed.
Lemma nth_upd_same {A} (l : list A) i x d : i < length l -> nth i (upd l i x) d = x.
Proof. revert i; induction l as [|h t IH]; intros [|i] H; cbn [length] in H; try lia; cbn [upd nth]; auto. apply IH. lia. Qed.
Lemma nth_upd_other {A} (l : list A) i j x d : i <> j -> nth j (upd l i x) d = nth j l d.
Proof.
  revert i j; induction l as [|h t IH]; intros [|i] [|j] H; cbn [upd nth]; auto; try congruence.
Qed.
Lemma nth_error_app_r {A} (a b : list A) i : nth_error (a ++ b) (length a + i) = nth_error b i.
Proof. rewrite nth_error_app2 by lia. f_equal. lia. Qed.
Lemma nth_error_app_r0 {A} (a b : list A) : nth_error (a ++ b) (length a) = nth_error b 0.
Proof. rewrite <- (Nat.add_0_r (length a)). apply nth_error_app_r. Qed.

Lemma skipn_skipn {A} (l : list A) a b : skipn a (skipn b l) = skipn (b + a) l.
Proof.
  revert l; induction b as [|b IH]; intros l; [reflexivity|].
  destruct l; [rewrite !skipn_nil; reflexivity|]. cbn [skipn Nat.add]. apply IH.
Qed.

(* ---- window *)
Lemma window_length l o n : o + n <= length l -> length (window l o n) = n.
Proof. intros H. unfold window. rewrite firstn_length, skipn_length. lia. Qed.
Lemma window_0 l o : window l o 0 = [].
Proof. reflexivity. Qed.
Lemma window_all (l : list Z) : window l 0 (length l) = l.
Proof. unfold window. cbn [skipn]. apply firstn_all. Qed.
Lemma window_app_mid (a b c : list Z) : window (a ++ b ++ c) (length a) (length b) = b.
Proof.
  unfold window. rewrite skipn_app, Nat.sub_diag, skipn_all. cbn [skipn app].
  rewrite firstn_app, Nat.sub_diag, firstn_all. cbn [firstn]. apply app_nil_r.
Qed.
(* a window splits the list *)
Lemma window_split l o n : o + n <= length l -> l = firstn o l ++ window l o n ++ skipn (o + n) l.
Proof.
  intros H. unfold window. rewrite <- (firstn_skipn o l) at 1. f_equal.
  rewrite <- (firstn_skipn n (skipn o l)) at 1. f_equal. rewrite skipn_skipn. reflexivity.
Qed.
Lemma window_cons l o n x : nth_error l o = Some x -> window l o (S n) = x :: window l (S o) n.
Proof.
  unfold window. revert l; induction o as [|o IH]; intros l H.
  - destruct l; [discriminate|]. cbn in H. injection H as ->. reflexivity.
  - destruct l; [discriminate|]. cbn [nth_error] in H. cbn [skipn]. apply IH. exact H.
Qed.
Lemma window_snoc l o n x : nth_error l (o + n) = Some x -> window l o (S n) = window l o n ++ [x].
Proof.
  revert o; induction n as [|n IH]; intros o H.
  - rewrite Nat.add_0_r in H. rewrite (window_cons _ _ _ _ H). reflexivity.
  - destruct (nth_error l o) as [y|] eqn:E.
    + rewrite (window_cons _ _ _ _ E). rewrite (window_cons l o n y E). cbn [app]. f_equal. apply IH.
      replace (S o + n) with (o + S n) by lia. exact H.
    + apply nth_error_None in E. assert (nth_error l (o + S n) = None) by (apply nth_error_None; lia). congruence.
Qed.
Lemma nth_error_firstn_lt {A} (l : list A) n i : i < n -> nth_error (firstn n l) i = nth_error l i.
Proof.
  revert n i; induction l as [|h t IH]; intros n i H; [rewrite firstn_nil; reflexivity|].
  destruct n; [lia|]. destruct i; cbn [firstn nth_error]; [reflexivity|]. apply IH. lia.
Qed.
Lemma nth_error_skipn {A} (l : list A) o i : nth_error (skipn o l) i = nth_error l (o + i).
Proof.
  revert l; induction o as [|o IH]; intros l; [reflexivity|].
  destruct l; [rewrite skipn_nil; destruct i; reflexivity|]. cbn [skipn Nat.add nth_error]. apply IH.
Qed.
Lemma window_nth_error l o n i : i < n -> nth_error (window l o n) i = nth_error l (o + i).
Proof. intros H. unfold window. rewrite nth_error_firstn_lt by exact H. apply nth_error_skipn. Qed.
Lemma window_upd_before l o n p x : p < o -> window (upd l p x) o n = window l o n.
Proof.
  intros H. unfold window. f_equal. revert l p H; induction o as [|o IH]; intros l p H; [lia|].
  destruct l; [reflexivity|]. destruct p; cbn [upd skipn]; [reflexivity|]. apply IH. lia.
Qed.
Lemma window_upd_after l o n p x : o + n <= p -> window (upd l p x) o n = window l o n.
Proof.
  intros H. unfold window. revert l p n H; induction o as [|o IH]; intros l p n H.
  - cbn [skipn]. revert l p H; induction n as [|n IHn]; intros l p H; [reflexivity|].
    destruct l; [reflexivity|]. destruct p; [lia|]. cbn [upd firstn]. f_equal. apply IHn. lia.
  - destruct l; [reflexivity|]. destruct p; [lia|]. cbn [upd skipn]. apply IH. lia.
Qed.
Lemma nth_error_upd_same {A} (l : list A) i x : i < length l -> nth_error (upd l i x) i = Some x.
Proof. revert i; induction l as [|h t IH]; intros [|i] H; cbn [length] in H; try lia; cbn [upd nth_error]; auto. apply IH. lia. Qed.
Lemma nth_error_upd_other {A} (l : list A) i j x : i <> j -> nth_error (upd l i x) j = nth_error l j.
Proof. revert i j; induction l as [|h t IH]; intros [|i] [|j] H; cbn [upd nth_error]; auto; try congruence. Qed.
(* writing right behind a window extends it *)
Lemma window_upd_snoc l o n x : o + n < length l -> window (upd l (o + n) x) o (S n) = window l o n ++ [x].
Proof.
  intros H. rewrite (window_snoc _ _ _ x) by (apply nth_error_upd_same; exact H).
  f_equal. apply window_upd_after. lia.
Qed.
Lemma window_firstn l o n k : k <= n -> firstn k (window l o n) = window l o k.
Proof. intros H. unfold window. rewrite firstn_firstn. f_equal. lia. Qed.
Lemma window_window l o n o2 n2 : o2 + n2 <= n -> window (window l o n) o2 n2 = window l (o + o2) n2.
Proof.
  intros H. unfold window. rewrite skipn_firstn_comm. rewrite firstn_firstn. rewrite skipn_skipn. f_equal. lia.
Qed.
Lemma window_skipn l a o n : window (skipn a l) o n = window l (a + o) n.
Proof. unfold window. rewrite skipn_skipn. reflexivity. Qed.
Lemma window_firstn_in l k o n : o + n <= k -> window (firstn k l) o n = window l o n.
Proof.
  intros H. unfold window. rewrite skipn_firstn_comm. rewrite firstn_firstn. f_equal. lia.
Qed.
Lemma window_app_l (a b : list Z) o n : o + n <= length a -> window (a ++ b) o n = window a o n.
Proof.
  intros H. unfold window. rewrite skipn_app. rewrite firstn_app. rewrite skipn_length.
  replace (n - (length a - o)) with 0 by lia. cbn [firstn]. apply app_nil_r.
Qed.
Lemma window_app2 l o n1 n2 : window l o (n1 + n2) = window l o n1 ++ window l (o + n1) n2.
Proof.
  unfold window. rewrite <- skipn_skipn. generalize (skipn o l) as r. intros r.
  revert r; induction n1 as [|n1 IH]; intros r; [reflexivity|].
  destruct r; [cbn [Nat.add firstn skipn app]; rewrite firstn_nil; reflexivity|].
  cbn [Nat.add firstn skipn app]. f_equal. apply IH.
Qed.

(* ---- splice *)
Lemma splice_length l o v : o + length v <= length l -> length (splice l o v) = length l.
Proof. intros H. unfold splice. rewrite !app_length, firstn_length, skipn_length. lia. Qed.
Lemma splice_window l o v : o <= length l -> window (splice l o v) o (length v) = v.
Proof.
  intros H. unfold splice. assert (E : length (firstn o l) = o) by (rewrite firstn_length; lia).
  set (a := firstn o l) in *. set (c := skipn _ l). rewrite <- E. apply window_app_mid.
Qed.
Lemma splice_window_self l o n : o + n <= length l -> splice l o (window l o n) = l.
Proof.
  intros H. unfold splice. rewrite window_length by exact H. symmetry. apply window_split. exact H.
Qed.
Lemma splice_firstn l o v : o <= length l -> firstn o (splice l o v) = firstn o l.
Proof.
  intros H. unfold splice. rewrite firstn_app, firstn_length. replace (o - Nat.min o (length l)) with 0 by lia.
  cbn [firstn]. rewrite app_nil_r. rewrite firstn_firstn. f_equal. lia.
Qed.
Lemma splice_skipn l o v : o <= length l -> skipn (o + length v) (splice l o v) = skipn (o + length v) l.
Proof.
  intros H. unfold splice. rewrite app_assoc. rewrite skipn_app.
  rewrite skipn_all2 by (rewrite app_length, firstn_length; lia). cbn [app].
  rewrite app_length, firstn_length. replace (o + length v - (Nat.min o (length l) + length v)) with 0 by lia. reflexivity.
Qed.
Lemma splice_window_before l o v o2 n2 : o2 + n2 <= o -> o <= length l -> window (splice l o v) o2 n2 = window l o2 n2.
Proof.
  intros H H1. unfold splice. rewrite window_app_l by (rewrite firstn_length; lia). apply window_firstn_in. exact H.
Qed.
Lemma splice_window_after l o v o2 n2 : o + length v <= o2 -> o + length v <= length l -> window (splice l o v) o2 n2 = window l o2 n2.
Proof.
  intros H H1. unfold window. f_equal.
  replace o2 with ((o + length v) + (o2 - (o + length v))) by lia.
  rewrite <- (skipn_skipn (splice l o v) (o2 - (o + length v)) (o + length v)).
  rewrite <- (skipn_skipn l (o2 - (o + length v)) (o + length v)). f_equal.
  apply splice_skipn. lia.
Qed.

(* ---- arrays of the heap *)
Lemma arr_of_set_same m a l : a < length m -> arr_of (set_arr m a l) a = l.
Proof. intros H. unfold arr_of, set_arr. apply nth_upd_same. exact H. Qed.
Lemma arr_of_set_other m a b l : a <> b -> arr_of (set_arr m a l) b = arr_of m b.
Proof. intros H. unfold arr_of, set_arr. apply nth_upd_other. exact H. Qed.
Lemma set_arr_length m a l : length (set_arr m a l) = length m.
Proof. apply upd_length. Qed.
Lemma arr_of_app_l m x a : a < length m -> arr_of (m ++ x) a = arr_of m a.
Proof. intros H. unfold arr_of. apply app_nth1. exact H. Qed.
Lemma arr_of_app_new m x : arr_of (m ++ [x]) (length m) = x.
Proof. unfold arr_of. rewrite app_nth2 by lia. rewrite Nat.sub_diag. reflexivity. Qed.
Lemma arr_of_beyond m a : length m <= a -> arr_of m a = [].
Proof. intros H. unfold arr_of. apply nth_overflow. exact H. Qed.
Lemma set_arr_same m a : set_arr m a (arr_of m a) = m.
Proof.
  unfold set_arr, arr_of. revert a; induction m as [|h t IH]; intros [|a]; cbn [upd nth]; auto. f_equal. apply IH.
Qed.

(* ---- well-formed slices *)
Definition wfs (m : mem) (s : slice) : Prop :=
  arr s < length m /\ len s <= cap s /\ off s + cap s <= length (arr_of m (arr s)).
Lemma wf_slice_iff m s : wf_slice m s = true <-> wfs m s.
Proof.
  unfold wf_slice, wfs. rewrite !andb_true_iff, Nat.ltb_lt, !Nat.leb_le. tauto.
Qed.
Lemma slice_vals_chk_wf m s : wfs m s -> slice_vals_chk m s = Some (slice_vals m s).
Proof.
  intros (H1 & H2 & H3). unfold slice_vals_chk. destruct (Nat.leb_spec (off s + len s) (length (arr_of m (arr s)))); [reflexivity|lia].
Qed.
Lemma slice_vals_length m s : wfs m s -> length (slice_vals m s) = len s.
Proof. intros (H1 & H2 & H3). unfold slice_vals. apply window_length. lia. Qed.
Lemma sread_wf m s i : wfs m s -> i < len s -> sread m s i = nth_error (slice_vals m s) i.
Proof.
  intros (H1 & H2 & H3) Hi. unfold sread, slice_vals. destruct (Nat.ltb_spec i (len s)); [|lia].
  symmetry. apply window_nth_error. exact Hi.
Qed.
Lemma nth_error_some_nth {A} (l : list A) i d : i < length l -> nth_error l i = Some (nth i l d).
Proof. intros H. apply nth_error_nth'. exact H. Qed.

(* ---- counting and permutations (the judge's multiset test) *)
Lemma perm_b_of_perm a b : Permutation a b -> perm_b a b = true.
Proof.
  intros P. unfold perm_b. apply forallb_forall. intros x _. apply Nat.eqb_eq. unfold count.
  apply (proj1 (Permutation_count_occ Z.eq_dec a b) P).
Qed.
Lemma perm_of_perm_b a b : perm_b a b = true -> Permutation a b.
Proof.
  intros H. unfold perm_b in H. rewrite forallb_forall in H.
  apply (proj2 (Permutation_count_occ Z.eq_dec a b)). intros x.
  destruct (in_dec Z.eq_dec x (a ++ b)) as [Hin|Hn].
  - apply Nat.eqb_eq. apply H. exact Hin.
  - assert (~ In x a /\ ~ In x b) as [Ha Hb] by (split; intros Hx; apply Hn; apply in_or_app; auto).
    rewrite (proj1 (count_occ_not_In Z.eq_dec a x) Ha), (proj1 (count_occ_not_In Z.eq_dec b x) Hb). reflexivity.
Qed.

Lemma eqb_list_refl l : eqb_list l l = true.
Proof. induction l as [|x l IH]; cbn [eqb_list]; auto. rewrite Z.eqb_refl. exact IH. Qed.
Lemma eqb_list_eq a b : eqb_list a b = true <-> a = b.
Proof.
  split; [|intros ->; apply eqb_list_refl].
  revert b; induction a as [|x a IH]; intros [|y b] H; cbn [eqb_list] in H; try discriminate; auto.
  apply andb_true_iff in H. destruct H as [H1 H2]. apply Z.eqb_eq in H1. f_equal; auto.
Qed.
Lemma eqb_lists_refl l : eqb_lists l l = true.
Proof. induction l as [|x l IH]; cbn [eqb_lists]; auto. rewrite eqb_list_refl. exact IH. Qed.
Lemma eqb_lists_eq a b : eqb_lists a b = true <-> a = b.
Proof.
  split; [|intros ->; apply eqb_lists_refl].
  revert b; induction a as [|x a IH]; intros [|y b] H; cbn [eqb_lists] in H; try discriminate; auto.
  apply andb_true_iff in H. destruct H as [H1 H2]. apply eqb_list_eq in H1. f_equal; auto.
Qed.
