(* C16 — the code GENERATED from setz/bits.go, type Bitmap (coq/Gen/BitsCode.v, by gen/trans.go on every run) is equal to
   the hand-written word-array model of Model/Bits.v, function by function.

   Conversion, stated precisely.  The generated code works on Z words (uint64 -> Z kept in [0, 2^64) by [wrap 64]), the
   hand model on unbounded N words with N.land / N.lor / N.ldiff / N.shiftl / N.shiftr.
     to_model b = map Z.to_N (Bitmap_set b)          of_model l = mkBitmap (map Z.of_N l)
     wf b       = every word of b is in [0, 2^64)     (the range of Go's []uint64: the invariant of the generated state)
   of_model / to_model are inverse to each other on wf states (of_to, to_of); every generated function maps wf states
   to wf states (the model functions preserve words_ok, and wf (of_model l) <-> words_ok l).
   Arguments of Go type uint are Z with the premise 0 <= num (no upper bound is needed: the model's N is unbounded).

   Proof style: unfold both sides, move every Z operation onto N through the of_N_* bridge lemmas (autorewrite),
   case analysis on every condition, lia.  Loops: Hoare-style rules for the loop combinator (Proofs/GoSemFacts.v:
   while_rule, while_exit), one obligation = one symbolic iteration; the bulk functions keep ONE invariant through all
   their loops (bulk_facts) and the tactic searches what depends on the way the source is written — the shape of the
   state tuple (index loop (b, i) / range loop (i', b)), the cursor bound, whether the loop keeps the receiver's length —
   so that changing the loop form, hoisting a bound, or splitting a loop into "common prefix, then tail" does not
   invalidate the script.  The statements are fixed; only the search for their proof adapts. *)
From Coq Require Import List ZArith NArith Lia Bool Arith.
From V Require Import Lib.GoSem Proofs.GoSemFacts Gen.BitsCode Model.Bits.
Import ListNotations.
Local Open Scope Z_scope.

(* ------------------------------------------------------------------ conversions *)
Definition zs (l : list N) : list Z := map Z.of_N l.
Definition ns (l : list Z) : list N := map Z.to_N l.
Definition to_model (b : Bitmap) : list N := ns (Bitmap_set b).
Definition of_model (l : list N) : Bitmap := mkBitmap (zs l).

Definition word_ok (w : Z) : Prop := 0 <= w < 2 ^ 64.
Definition wf (b : Bitmap) : Prop := Forall word_ok (Bitmap_set b).
Definition words_ok (l : list N) : Prop := Forall (fun w => (w < 2 ^ 64)%N) l.

Lemma ns_zs l : ns (zs l) = l.
Proof. unfold ns, zs. rewrite map_map. rewrite <- (map_id l) at 2. apply map_ext. intros; apply N2Z.id. Qed.
Lemma to_of l : to_model (of_model l) = l.
Proof. apply ns_zs. Qed.
Lemma zs_ns l : Forall word_ok l -> zs (ns l) = l.
Proof.
  unfold ns, zs. induction 1 as [|w l Hw _ IH]; [reflexivity|]. cbn [map]. rewrite IH, Z2N.id; [reflexivity|apply Hw].
Qed.
Lemma of_to b : wf b -> of_model (to_model b) = b.
Proof. destruct b as [l]. unfold wf, of_model, to_model. cbn [Bitmap_set]. intros H. rewrite zs_ns; trivial. Qed.
Lemma wf_of_model l : wf (of_model l) <-> words_ok l.
Proof.
  unfold wf, of_model, words_ok, zs, word_ok. cbn [Bitmap_set]. rewrite Forall_map. split; intros H.
  - eapply Forall_impl; [|exact H]. cbv beta. intros a Ha. lia.
  - eapply Forall_impl; [|exact H]. cbv beta. intros a Ha. lia.
Qed.
Lemma wf_to_model b : wf b -> words_ok (to_model b).
Proof. intros H. apply wf_of_model. rewrite of_to; trivial. Qed.

(* ------------------------------------------------------------------ Z operations on images of N *)
Lemma of_N_land a b : Z.land (Z.of_N a) (Z.of_N b) = Z.of_N (N.land a b). Proof. destruct a, b; reflexivity. Qed.
Lemma of_N_lor a b : Z.lor (Z.of_N a) (Z.of_N b) = Z.of_N (N.lor a b). Proof. destruct a, b; reflexivity. Qed.
Lemma of_N_ldiff a b : Z.ldiff (Z.of_N a) (Z.of_N b) = Z.of_N (N.ldiff a b). Proof. destruct a, b; reflexivity. Qed.
Lemma of_N_lxor a b : Z.lxor (Z.of_N a) (Z.of_N b) = Z.of_N (N.lxor a b). Proof. destruct a, b; reflexivity. Qed.
Lemma of_N_shiftl a b : Z.shiftl (Z.of_N a) (Z.of_N b) = Z.of_N (N.shiftl a b).
Proof. rewrite Z.shiftl_mul_pow2 by lia. rewrite N.shiftl_mul_pow2, N2Z.inj_mul, N2Z.inj_pow. reflexivity. Qed.
Lemma of_N_shiftr a b : Z.shiftr (Z.of_N a) (Z.of_N b) = Z.of_N (N.shiftr a b).
Proof. rewrite Z.shiftr_div_pow2 by lia. rewrite N.shiftr_div_pow2, N2Z.inj_div, N2Z.inj_pow. reflexivity. Qed.
(* ... with a positive literal as the second operand (what the translator emits for 6, 63, 1) *)
Lemma of_N_land_pos a p : Z.land (Z.of_N a) (Zpos p) = Z.of_N (N.land a (Npos p)). Proof. apply (of_N_land a (Npos p)). Qed.
Lemma of_N_pos_land a p : Z.land (Zpos p) (Z.of_N a) = Z.of_N (N.land (Npos p) a). Proof. apply (of_N_land (Npos p) a). Qed.
Lemma of_N_shiftr_pos a p : Z.shiftr (Z.of_N a) (Zpos p) = Z.of_N (N.shiftr a (Npos p)). Proof. apply (of_N_shiftr a (Npos p)). Qed.
Lemma of_N_shiftl_pos a p : Z.shiftl (Z.of_N a) (Zpos p) = Z.of_N (N.shiftl a (Npos p)). Proof. apply (of_N_shiftl a (Npos p)). Qed.
Lemma of_N_pos_shiftl p b : Z.shiftl (Zpos p) (Z.of_N b) = Z.of_N (N.shiftl (Npos p) b). Proof. apply (of_N_shiftl (Npos p) b). Qed.
Lemma of_N_rem_pos a p : Z.rem (Z.of_N a) (Zpos p) = Z.of_N (a mod Npos p).
Proof. rewrite Z.rem_mod_nonneg by lia. rewrite N2Z.inj_mod. reflexivity. Qed.
Lemma of_N_quot_pos a p : Z.quot (Z.of_N a) (Zpos p) = Z.of_N (a / Npos p).
Proof. rewrite Z.quot_div_nonneg by lia. rewrite N2Z.inj_div. reflexivity. Qed.
Lemma of_N_eqb a b : (Z.of_N a =? Z.of_N b) = (a =? b)%N.
Proof. destruct (N.eqb_spec a b), (Z.eqb_spec (Z.of_N a) (Z.of_N b)); try reflexivity; lia. Qed.
Lemma of_N_eqb0 a : (Z.of_N a =? 0) = (a =? 0)%N. Proof. apply (of_N_eqb a 0). Qed.
Lemma of_nat_shiftl_pos k p : Z.shiftl (Z.of_nat k) (Zpos p) = Z.of_N (N.shiftl (N.of_nat k) (Npos p)).
Proof. rewrite <- nat_N_Z. apply of_N_shiftl_pos. Qed.
Lemma of_nat_mul_pos k p : Z.of_nat k * Zpos p = Z.of_N (N.of_nat k * Npos p).
Proof. rewrite N2Z.inj_mul, nat_N_Z. reflexivity. Qed.
Lemma N_shiftl_mul a p : N.shiftl a (Npos p) = (a * 2 ^ Npos p)%N. Proof. apply N.shiftl_mul_pow2. Qed.
(* source-level variants of the word index and the bit index: num / 64, num % 64 *)
Lemma N_div64 a : (a / 64 = N.shiftr a 6)%N. Proof. rewrite N.shiftr_div_pow2. reflexivity. Qed.
Lemma N_mod64 a : (a mod 64 = N.land a 63)%N. Proof. change 63%N with (N.ones 6). rewrite N.land_ones. reflexivity. Qed.

(* the two ways of testing bit b of a word: w & (1 << b) != 0 and (w >> b) & 1 != 0 *)
Lemma land_shiftl_testbit w b : (N.land w (N.shiftl 1 b) =? 0)%N = negb (N.testbit w b).
Proof.
  destruct (N.testbit w b) eqn:E; cbn [negb].
  - apply N.eqb_neq. intros H. apply (f_equal (fun x => N.testbit x b)) in H.
    rewrite N.land_spec, E, N.shiftl_spec_high', N.sub_diag, N.bits_0 in H by lia. discriminate.
  - apply N.eqb_eq. apply N.bits_inj. intros k. rewrite N.land_spec, N.bits_0.
    destruct (N.lt_ge_cases k b) as [Hk|Hk]; [rewrite N.shiftl_spec_low by assumption; apply andb_false_r|].
    rewrite N.shiftl_spec_high' by assumption. destruct (N.eq_dec k b) as [->|Hne]; [rewrite E; reflexivity|].
    replace (k - b)%N with (N.succ (N.pred (k - b))) by lia. rewrite N.bit0_odd || idtac.
    change 1%N with (N.b2n true). rewrite N.testbit_succ_r_div2, N.div2_spec by lia. cbn [N.b2n N.shiftr]. 
    rewrite N.bits_0. apply andb_false_r.
Qed.
Lemma land_shiftr_testbit w b : (N.land (N.shiftr w b) 1 =? 0)%N = negb (N.testbit w b).
Proof.
  replace (N.testbit w b) with (N.testbit (N.shiftr w b) 0) by (rewrite N.shiftr_spec'; f_equal; lia).
  change 1%N with (N.ones 1). rewrite N.land_ones. change (2 ^ 1)%N with 2%N.
  rewrite <- N.bit0_mod. destruct (N.testbit (N.shiftr w b) 0); reflexivity.
Qed.
(* uint64 wrap-around is the identity on words below 2^64 *)
Lemma wrap64_small x : (x < 2 ^ 64)%N -> wrap 64 (Z.of_N x) = Z.of_N x.
Proof. intros H. unfold wrap. apply Z.mod_small. lia. Qed.
Lemma mask_small n : (mask (bidx n) < 2 ^ 64)%N.
Proof.
  unfold mask, bidx. rewrite N.shiftl_1_l. apply N.pow_lt_mono_r; [lia|].
  change 63%N with (N.ones 6). rewrite N.land_ones. change (2 ^ 6)%N with 64%N. pose proof (N.mod_upper_bound n 64). lia.
Qed.
(* x & ^m on uint64 (the complement wraps to 2^64 - 1 - m) is x &^ m when x is a 64-bit word *)
Lemma land_wrap_lnot x m : (x < 2 ^ 64)%N -> Z.land (Z.of_N x) (wrap 64 (Z.lnot (Z.of_N m))) = Z.of_N (N.ldiff x m).
Proof.
  intros H. unfold wrap. rewrite <- Z.land_ones by lia. rewrite (Z.land_comm (Z.lnot _)), Z.land_assoc.
  rewrite Z.land_ones by lia. rewrite Z.mod_small by lia. rewrite <- Z.ldiff_land. apply of_N_ldiff.
Qed.
Lemma small_bits x : (x < 2 ^ 64)%N <-> (forall i, (64 <= i)%N -> N.testbit x i = false).
Proof.
  split.
  - intros H i Hi. destruct (N.eq_dec x 0) as [->|Hx]; [apply N.bits_0|]. apply N.bits_above_log2.
    apply N.log2_lt_pow2 in H; lia.
  - intros H. destruct (N.lt_ge_cases x (2 ^ 64)) as [|Hge]; [assumption|exfalso].
    assert (Hx : x <> 0%N) by (intros ->; cbv in Hge; congruence).
    assert (Hl : (64 <= N.log2 x)%N) by (apply N.log2_le_pow2; lia).
    pose proof (N.bit_log2 x Hx) as Hb. rewrite (H _ Hl) in Hb. discriminate.
Qed.
Lemma land_small x y : (x < 2 ^ 64)%N -> (N.land x y < 2 ^ 64)%N.
Proof. rewrite !small_bits. intros H i Hi. rewrite N.land_spec, (H i Hi). reflexivity. Qed.
Lemma lor_small x y : (x < 2 ^ 64)%N -> (y < 2 ^ 64)%N -> (N.lor x y < 2 ^ 64)%N.
Proof. rewrite !small_bits. intros Hx Hy i Hi. rewrite N.lor_spec, (Hx i Hi), (Hy i Hi). reflexivity. Qed.
Lemma ldiff_small x y : (x < 2 ^ 64)%N -> (N.ldiff x y < 2 ^ 64)%N.
Proof. rewrite !small_bits. intros H i Hi. rewrite N.ldiff_spec, (H i Hi). reflexivity. Qed.

(* ------------------------------------------------------------------ lists of words *)
Lemma zlen_zs l : zlen (zs l) = Z.of_nat (length l).
Proof. unfold zlen, zs. rewrite map_length. reflexivity. Qed.
Lemma zs_app a b : zs a ++ zs b = zs (a ++ b).
Proof. unfold zs. rewrite map_app. reflexivity. Qed.
Lemma repeat0_zs k : repeat 0 k = zs (repeat 0%N k).
Proof. unfold zs. induction k as [|k IH]; [reflexivity|]. cbn [repeat map]. rewrite IH. reflexivity. Qed.
Lemma single_zs x : [Z.of_N x] = zs [x].
Proof. reflexivity. Qed.
Lemma nth_error_zs l i : nth_error (zs l) i = if (i <? length l)%nat then Some (Z.of_N (nth i l 0%N)) else None.
Proof.
  unfold zs. revert i. induction l as [|x l IH]; intros [|i]; try reflexivity. cbn [nth_error map nth length].
  rewrite IH. reflexivity.
Qed.
Lemma get_at_zs l i :
  get_at (zs l) (Z.of_N i) = if (N.to_nat i <? length l)%nat then Some (Z.of_N (nth (N.to_nat i) l 0%N)) else None.
Proof.
  unfold get_at. destruct (Z.leb_spec 0 (Z.of_N i)); [|lia]. replace (Z.to_nat (Z.of_N i)) with (N.to_nat i) by lia. apply nth_error_zs.
Qed.
Lemma upd_zs l i x : GoSem.upd (zs l) i (Z.of_N x) = zs (Bits.upd l i x).
Proof.
  unfold zs. revert i. induction l as [|y l IH]; intros [|i]; try reflexivity. cbn [GoSem.upd Bits.upd map]. rewrite IH. reflexivity.
Qed.
Lemma set_at_zs l i x :
  set_at (zs l) (Z.of_N i) (Z.of_N x) = if (N.to_nat i <? length l)%nat then Some (zs (Bits.upd l (N.to_nat i) x)) else None.
Proof.
  unfold set_at. destruct (Z.leb_spec 0 (Z.of_N i)); [|lia]. cbn [andb]. unfold zs at 1. rewrite map_length.
  replace (Z.to_nat (Z.of_N i)) with (N.to_nat i) by lia. rewrite upd_zs.
  destruct (Z.ltb_spec (Z.of_N i) (Z.of_nat (length l))), (Nat.ltb_spec (N.to_nat i) (length l)); try reflexivity; lia.
Qed.
(* a word beyond the old length of a grown set is zero (Add written as "grow, then one common test-and-set") *)
Lemma nth_grown_zero (set : list N) k i : (length set <= i)%nat -> nth i (set ++ repeat 0%N k) 0%N = 0%N.
Proof.
  intros H. rewrite app_nth2 by lia. destruct (Nat.lt_ge_cases (i - length set) k) as [Hk|Hk].
  - apply nth_repeat.
  - apply nth_overflow. rewrite repeat_length. lia.
Qed.
Lemma nth_small l i : words_ok l -> (nth i l 0 < 2 ^ 64)%N.
Proof.
  intros H. destruct (Nat.lt_ge_cases i (length l)) as [Hi|Hi].
  - unfold words_ok in H. rewrite Forall_forall in H. apply H, nth_In, Hi.
  - rewrite nth_overflow by lia. reflexivity.
Qed.


(* ------------------------------------------------------------------ tactics *)
Ltac small :=
  solve [ repeat first [ assumption | apply mask_small | apply nth_small | apply land_small | apply ldiff_small | apply lor_small
                       | reflexivity ] ].
#[export] Hint Rewrite of_N_land of_N_lor of_N_ldiff of_N_lxor of_N_shiftl of_N_shiftr of_N_land_pos of_N_pos_land of_N_shiftr_pos
  of_N_shiftl_pos of_N_pos_shiftl of_N_rem_pos of_N_quot_pos of_N_eqb of_N_eqb0 of_nat_shiftl_pos land_shiftl_testbit land_shiftr_testbit N_div64 N_mod64 zlen_zs repeat0_zs zs_app get_at_zs set_at_zs : bz.
#[export] Hint Rewrite wrap64_small land_wrap_lnot using small : bz.

Ltac break1 :=
  match goal with
  | |- context [if ?c then _ else _] => destruct c eqn:?
  | |- context [match ?x with Some _ => _ | None => _ end] => destruct x eqn:?
  | |- context [match ?x with (_, _) => _ end] => destruct x eqn:?
  end.
Ltac reflect :=
  repeat match goal with
  | H : (_ =? _) = true |- _ => apply Z.eqb_eq in H
  | H : (_ =? _) = false |- _ => apply Z.eqb_neq in H
  | H : (_ <=? _) = true |- _ => apply Z.leb_le in H
  | H : (_ <=? _) = false |- _ => apply Z.leb_gt in H
  | H : (_ <? _) = true |- _ => apply Z.ltb_lt in H
  | H : (_ <? _) = false |- _ => apply Z.ltb_ge in H
  | H : (_ =? _)%N = true |- _ => apply N.eqb_eq in H
  | H : (_ =? _)%N = false |- _ => apply N.eqb_neq in H
  | H : (_ =? _)%nat = true |- _ => apply Nat.eqb_eq in H
  | H : (_ =? _)%nat = false |- _ => apply Nat.eqb_neq in H
  | H : (_ <=? _)%nat = true |- _ => apply Nat.leb_le in H
  | H : (_ <=? _)%nat = false |- _ => apply Nat.leb_gt in H
  | H : (_ <? _)%nat = true |- _ => apply Nat.ltb_lt in H
  | H : (_ <? _)%nat = false |- _ => apply Nat.ltb_ge in H
  | H : negb _ = true |- _ => apply negb_true_iff in H
  | H : negb _ = false |- _ => apply negb_false_iff in H
  | H : orb _ _ = true |- _ => apply orb_true_iff in H
  | H : orb _ _ = false |- _ => apply orb_false_iff in H; destruct H
  | H : andb _ _ = true |- _ => apply andb_true_iff in H; destruct H
  | H : andb _ _ = false |- _ => apply andb_false_iff in H; destruct H
  | H : true = false |- _ => discriminate H
  | H : false = true |- _ => discriminate H
  end.
Ltac unfold_code :=
  repeat autounfold with go2v;
  cbv beta iota zeta delta [of_model bind mmap lift m_get m_set m_make fst snd
    add remove contains grow cap widx bidx mask].
Ltac step := first [ progress (autorewrite with bz) | progress (rewrite ?app_length, ?repeat_length) | break1 | progress (cbv beta iota) ].
Ltac bool1 :=
  match goal with
  | |- context [(?a <? ?b)%nat] => destruct (a <? b)%nat eqn:?
  | |- context [(?a <=? ?b)%nat] => destruct (a <=? b)%nat eqn:?
  | |- context [(?a =? ?b)%N] => destruct (a =? b)%N eqn:?
  | |- context [?a <? ?b] => destruct (a <? b) eqn:?
  | |- context [?a <=? ?b] => destruct (a <=? b) eqn:?
  | |- context [?a =? ?b] => destruct (a =? b) eqn:?
  end.
Ltac grown_zero :=
  repeat match goal with H : context [nth ?i (?s ++ repeat 0%N ?k) 0%N] |- _ =>
    rewrite (nth_grown_zero s k i) in H by lia; rewrite ?N.land_0_l, ?N.lor_0_l, ?N.bits_0 in H end.
Ltac finish0 := try reflexivity; reflect; try lia; try (grown_zero; exfalso; congruence); try (exfalso; intuition lia); try (repeat f_equal; lia).
(* last resort for arithmetic leaves: shifts by literals as multiplications (len << 6 written as len * 64) *)
Ltac arith := repeat f_equal; rewrite ?N_shiftl_mul, ?N2Z.inj_mul, ?nat_N_Z; cbn [N.pow Pos.pow Pos.iter Pos.mul]; lia.
Ltac finish := finish0; repeat bool1; cbn [andb orb negb]; finish0; try arith.
Ltac crush := intros; unfold_code; repeat step; finish.


(* ------------------------------------------------------------------ the functions without loops, on images of model states *)
Lemma code_Grow_N set n : g_Bitmap_Grow (of_model set) (Z.of_N n) = Ret (of_model (grow set n)).
Proof. crush. Qed.
Lemma code_Add_N set n : g_Bitmap_Add (of_model set) (Z.of_N n) = Ret (of_model (fst (add set n)), snd (add set n)).
Proof. crush. Qed.
Lemma code_Remove_N set n : words_ok set ->
  g_Bitmap_Remove (of_model set) (Z.of_N n) = Ret (of_model (fst (remove set n)), snd (remove set n)).
Proof. crush. Qed.
Lemma code_Contains_N set n : g_Bitmap_Contains (of_model set) (Z.of_N n) = Ret (contains set n).
Proof. crush. Qed.
Lemma code_Cap_N set : g_Bitmap_Cap (of_model set) = Ret (Z.of_N (cap set)).
Proof. crush. Qed.

(* Clone: make + copy of the whole word list gives the word list back (no premise at all) *)
Lemma gocopy_fresh l : gocopy (repeat 0 (length l)) l = l.
Proof.
  unfold gocopy. rewrite repeat_length, firstn_all, skipn_all2 by (rewrite repeat_length; lia). apply app_nil_r.
Qed.
Theorem code_Clone : forall b, g_Bitmap_Clone b = Ret b.
Proof.
  intros [l]. repeat autounfold with go2v. cbv beta iota zeta delta [bind m_make copy_all zlen].
  destruct (Z.ltb_spec (Z.of_nat (length l)) 0); [lia|]. rewrite Nat2Z.id, gocopy_fresh. reflexivity.
Qed.

(* ------------------------------------------------------------------ loops *)
(* bits.OnesCount64 by its specification is the model's popcount *)
Lemma ones_count_popcount w : ones_count 64 (Z.of_N w) = Z.of_nat (popcount w).
Proof.
  unfold ones_count, popcount, bits64. f_equal. generalize (seq 0 64). intros l. induction l as [|k l IH]; [reflexivity|].
  cbn [map filter]. rewrite <- nat_N_Z, Z.testbit_of_N. destruct (N.testbit w (N.of_nat k)); cbn [length]; rewrite IH; reflexivity.
Qed.

(* the words at and after a position *)
Lemma get_at_mid done x rest i : i = Z.of_nat (length done) -> get_at (zs (done ++ x :: rest)) i = Some (Z.of_N x).
Proof.
  intros ->. unfold get_at. destruct (Z.leb_spec 0 (Z.of_nat (length done))); [|lia]. rewrite Nat2Z.id. unfold zs.
  rewrite map_app, nth_error_app2 by (rewrite map_length; lia). rewrite map_length, Nat.sub_diag. reflexivity.
Qed.
Lemma get_at_end done i : i = Z.of_nat (length done) -> get_at (zs done) i = None.
Proof.
  intros ->. unfold get_at. destruct (Z.leb_spec 0 (Z.of_nat (length done))); [|lia]. rewrite Nat2Z.id.
  apply nth_error_None. unfold zs. rewrite map_length. lia.
Qed.
Lemma set_at_mid done x rest i y :
  i = Z.of_nat (length done) -> set_at (zs (done ++ x :: rest)) i (Z.of_N y) = Some (zs ((done ++ [y]) ++ rest)).
Proof.
  intros ->. unfold set_at. destruct (Z.leb_spec 0 (Z.of_nat (length done))); [|lia]. cbn [andb]. unfold zs at 1.
  rewrite map_length, app_length. cbn [length].
  destruct (Z.ltb_spec (Z.of_nat (length done)) (Z.of_nat (length done + S (length rest)))); [|lia].
  rewrite Nat2Z.id. f_equal. unfold zs. rewrite <- app_assoc. cbn [app]. clear. induction done as [|d done IH]; [reflexivity|].
  cbn [app map length GoSem.upd]. rewrite IH. reflexivity.
Qed.
Lemma set_at_mid0 done x rest i :
  i = Z.of_nat (length done) -> set_at (zs (done ++ x :: rest)) i 0 = Some (zs ((done ++ [0%N]) ++ rest)).
Proof. apply (set_at_mid done x rest i 0%N). Qed.
(* the other operand seen from position (length done): what is left of it *)
Lemma skipn_cons_get ol k y os : skipn k ol = y :: os -> forall i, i = Z.of_nat k -> get_at (zs ol) i = Some (Z.of_N y).
Proof.
  intros H i ->. unfold get_at. destruct (Z.leb_spec 0 (Z.of_nat k)); [|lia]. rewrite Nat2Z.id. unfold zs.
  rewrite nth_error_map. rewrite <- (firstn_skipn k ol) at 1. rewrite H.
  assert (Hk : length (firstn k ol) = k).
  { apply firstn_length_le. destruct (Nat.le_gt_cases k (length ol)); [assumption|]. rewrite skipn_all2 in H by lia. discriminate. }
  rewrite nth_error_app2 by lia. rewrite Hk, Nat.sub_diag. reflexivity.
Qed.
Lemma skipn_cons_lt (ol : list N) k y os : skipn k ol = y :: os -> (k < length ol)%nat.
Proof. intros H. destruct (Nat.le_gt_cases (length ol) k); [|assumption]. rewrite skipn_all2 in H by lia. discriminate. Qed.
Lemma skipn_cons_next (ol : list N) k y os : skipn k ol = y :: os -> skipn (S k) ol = os.
Proof.
  revert ol. induction k as [|k IH]; intros ol H.
  - cbn [skipn] in H. subst ol. reflexivity.
  - destruct ol as [|a ol]; [discriminate|]. cbn [skipn] in H. change (skipn (S (S k)) (a :: ol)) with (skipn (S k) ol). apply IH, H.
Qed.
Lemma skipn_nil_ge (ol : list N) (k : nat) : skipn k ol = [] -> (length ol <= k)%nat.
Proof. intros H. pose proof (skipn_length k ol) as L. rewrite H in L. cbn [length] in L. lia. Qed.

(* b.set = append(b.set, y) at the cursor *)
Lemma append_mid done y : zs done ++ [Z.of_N y] = zs ((done ++ [y]) ++ []).
Proof. rewrite app_nil_r. unfold zs. rewrite map_app. reflexivity. Qed.
(* other.set[k:] *)
Lemma slice_zs_tail ol k a h : a = Z.of_nat k -> h = Z.of_nat (length ol) -> (k <= length ol)%nat ->
  slice (zs ol) a h = Some (zs (skipn k ol)).
Proof.
  intros -> -> Hk. unfold slice. unfold zs at 1. rewrite map_length.
  destruct (Z.leb_spec 0 (Z.of_nat k)); [|lia]. destruct (Z.leb_spec (Z.of_nat k) (Z.of_nat (length ol))); [|lia].
  rewrite Z.leb_refl. cbn [andb]. rewrite !Nat2Z.id. rewrite firstn_all2 by (rewrite skipn_length; unfold zs; rewrite map_length; lia).
  unfold zs. rewrite skipn_map. reflexivity.
Qed.

(* The invariant of the word-wise bulk loops, for a model function f (diff / inter / merge), at cursor i = length done:
   the receiver's words are done ++ bs (done: already final), what is left of the operand is os = skipn i ol, and
   done ++ f bs os is the model's result.  meas bs os = the iterations still to run.  mk = the shape of the loop state
   (index loop: (b, i); range loop: (i', b)).  fixed_len: the receiver keeps its length (every loop that does not
   append; a range loop over b.set evaluates len(b.set) once).  hi: an upper bound of the cursor (with the negated
   loop condition it pins the cursor at the exit, for the code that follows the loop).
   The same invariant serves every loop of a function written as several passes (common prefix, then the tail). *)
Definition bulk_facts (f : list N -> list N -> list N) (fixed_len : bool) (lo hi : Z) (B ol : list N)
    (S : Type) (mk : Bitmap -> Z -> S) (s : S) (done bs : list N) (i : Z) : Prop :=
  s = mk (of_model (done ++ bs)) i /\ i = Z.of_nat (length done) /\
  (fixed_len = true -> length (done ++ bs) = length B) /\ words_ok bs /\
  done ++ f bs (skipn (length done) ol) = f B ol /\ i <= Z.max 0 hi /\ lo <= i.
Definition bulk_inv f (meas : list N -> list N -> nat) fixed_len lo hi B ol S mk (m : nat) (s : S) : Prop :=
  exists done bs i, bulk_facts f fixed_len lo hi B ol S mk s done bs i /\ m = meas bs (skipn (length done) ol).
Definition bulk_brk f fixed_len lo hi B ol S mk (s : S) : Prop :=
  exists done bs i, bulk_facts f fixed_len lo hi B ol S mk s done bs i /\ skipn (length done) ol = [] /\ f bs [] = bs.
Definition no_ret {R : Type} (r : R) : Prop := False.

Definition meas_recv (bs os : list N) : nat := length bs.
Definition meas_oper (bs os : list N) : nat := length os.

(* one iteration of a generated loop, symbolically: rewrite the reads / writes at the cursor, split every condition *)
Ltac lrw :=
  first [ rewrite get_at_mid by (assumption || lia)
        | rewrite set_at_mid by (assumption || lia)
        | rewrite set_at_mid0 by (assumption || lia)
        | rewrite get_at_end by (assumption || lia)
        | rewrite append_mid
        | match goal with Hs : skipn ?k ?ol = _ :: _ |- context [get_at (zs ?ol) ?i] =>
            rewrite (skipn_cons_get ol k _ _ Hs i) by (assumption || lia) end
        | progress (rewrite ?app_nil_r, ?zlen_zs, ?app_length)
        | progress (cbn [length]) ].
Ltac lstep := first [ lrw | progress (autorewrite with bz) | break1 | progress (cbv beta iota) ].
Ltac lunfold := unfold of_model; cbv beta iota zeta delta [bind lift m_get m_set m_make m_slice].
Ltac lnorm := unfold meas_recv, meas_oper in *; reflect; rewrite ?zlen_zs, ?app_length, ?skipn_length in *; cbn [length] in *.

(* the facts of the next state, after reflexivity has read done ++ [z] / bs off the new state *)
Ltac facts_side :=
  match goal with
  | |- ?m = length _ => reflexivity
  | |- words_ok _ => assumption || constructor
  | |- _ = Z.of_nat _ => lnorm; lia
  | |- _ <= Z.max _ _ => lnorm; lia
  | |- (_ <= _)%Z => lnorm; lia
  | |- _ -> length _ = length _ => let H := fresh in intros H; repeat match goal with Hl : _ = true -> _ |- _ => specialize (Hl H) end; lnorm; lia
  | Hr : _ = ?f ?B ?ol, Hs : skipn _ ?ol = _ :: _ |- _ = ?f ?B ?ol =>
      rewrite <- Hr, <- ?app_assoc; cbn [app diff inter merge]; rewrite ?app_length; cbn [length];
      rewrite ?Nat.add_1_r, ?(skipn_cons_next _ _ _ _ Hs); reflexivity
  | Hr : _ = ?f ?B ?ol, Hs : skipn _ ?ol = [] |- _ = ?f ?B ?ol =>
      rewrite <- Hr, <- ?app_assoc; cbn [app diff inter merge]; rewrite ?app_length; cbn [length];
      rewrite ?(skipn_all2 ol) by lia; cbn [diff inter merge]; rewrite ?app_nil_r; reflexivity
  end.
Ltac facts_split := unfold bulk_facts; split; [ reflexivity | split; [ | split; [ | split; [ | split; [ | split ] ] ] ] ].
Ltac facts_tac := facts_split; facts_side.
Ltac inv_tac :=
  try match goal with |- context [{| Bitmap_set := zs (?d ++ [?y]) |}] => rewrite <- (app_nil_r (d ++ [y])) end;
  eexists; split;
  [ | unfold bulk_inv; eexists _, _, _; split; [ facts_tac | reflexivity ] ];
  lnorm; rewrite ?Nat.add_1_r;
  repeat match goal with Hs : skipn _ _ = _ :: _ |- _ => rewrite ?(skipn_cons_next _ _ _ _ Hs) end; cbn [length]; lia.
(* break: the facts are those of the current state, and the operand is exhausted *)
Ltac brk_tac :=
  unfold bulk_brk; eexists _, _, _; split;
  [ facts_split; try match goal with |- _ = true -> _ => intros _ end;
    repeat match goal with Hs : skipn ?k ?l = _ |- context [skipn ?k ?l] => rewrite Hs end;
    first [ assumption | lnorm; lia ]
  | split; [ assumption | reflexivity ] ].

(* one iteration: from the facts (destructed) and both lists split into head / tail *)
Ltac bulk_step ol :=
  let m := fresh "m" in let s := fresh "s" in let done := fresh "done" in let bs := fresh "bs" in
  let i := fresh "i" in let Hi := fresh "Hi" in let Hm := fresh "Hm" in let Hl := fresh "Hl" in let Hr := fresh "Hr" in
  let x := fresh "x" in let y := fresh "y" in let os := fresh "os" in let Hs := fresh "Hs" in let Hx := fresh "Hx" in
  let Hw := fresh "Hw" in let Hw' := fresh "Hw'" in let Hhi := fresh "Hhi" in let Hlo := fresh "Hlo" in
  intros m s (done & bs & i & (-> & Hi & Hl & Hw & Hr & Hhi & Hlo) & Hm); try specialize (Hl eq_refl);
  destruct bs as [|x bs]; [|pose proof (Forall_inv Hw) as Hx; pose proof (Forall_inv_tail Hw) as Hw'; cbv beta in Hx];
  (destruct (skipn (length done) ol) as [|y os] eqn:Hs; [pose proof (skipn_nil_ge _ _ Hs)|pose proof (skipn_cons_lt _ _ _ _ Hs)]);
  (let HsL := fresh "HsL" in pose proof (f_equal (@length N) Hs) as HsL; rewrite skipn_length in HsL; cbn [length] in HsL);
  lunfold; repeat lstep; try (exfalso; lnorm; lia); first [ exact I | brk_tac | inv_tac ].

(* the invariant at the entry of a loop: done / bs are read off the state, the facts come from the context *)
Ltac inv_init :=
  unfold bulk_inv;
  match goal with |- context [zs (?d ++ ?b)] => exists d, b end;
  eexists; split;
  [ facts_split; try match goal with |- _ = true -> _ => intros _ end;
    repeat match goal with Hs : skipn ?k ?l = _ |- context [skipn ?k ?l] => rewrite Hs end;
    first [ assumption | reflexivity | (lnorm; lia) ]
  | reflexivity ].

(* the code after the last loop: the exit facts pin the cursor; both lists are split once more and the model function computes *)
Ltac slice_tail :=
  match goal with Hi : _ = Z.of_nat (length ?d) |- context [slice (zs ?ol) _ _] =>
    rewrite (slice_zs_tail ol (length d)) by (lnorm; lia) end.
Ltac final_leaf :=
  autorewrite with bz;
  repeat match goal with Hfb : ?f ?b [] = ?b, Hr : context [?f ?b []] |- _ => rewrite Hfb in Hr end;
  first
  [ solve [exfalso; lnorm; lia]                                          (* an unreachable combination of exits *)
  | match goal with
    | Hr : _ = ?f ?B ?ol |- _ => rewrite <- Hr; reflexivity               (* after a break: the state is the result *)
    | Hr : ?d ++ ?f ?b ?o = ?f ?B ?ol |- _ =>
      rewrite <- Hr;
      let Hs := fresh "Hs" in
      destruct b as [|? ?];
      try (lazymatch o with skipn ?k ?l =>
             destruct (skipn k l) as [|? ?] eqn:Hs; [pose proof (skipn_nil_ge _ _ Hs)|pose proof (skipn_cons_lt _ _ _ _ Hs)];
             (let HsL := fresh "HsL" in pose proof (f_equal (@length N) Hs) as HsL; rewrite skipn_length in HsL; cbn [length] in HsL) end);
      cbn [diff inter merge]; rewrite ?app_nil_r; try reflexivity; try congruence; exfalso; lnorm; lia
    end ].
Ltac final_tac := lunfold; repeat first [ slice_tail | lstep ]; final_leaf.

(* run the loops of a function one after the other.  Per loop the state shape mk ((b, i) or (i', b)) and the cursor bound
   hi (|b|, |other| or their minimum) are searched: an attempt counts only if the whole rest of the proof goes through. *)
Ltac bulk_loop1 f meas fl B ol fuel mk hi k :=
  lazymatch goal with
  | |- context [while fuel ?c0 ?b0 ?p0 ?s0] =>
      let Hx := fresh "Hx" in let out := fresh "out" in let E := fresh "E" in let X := fresh "X" in
      let lo := lazymatch s0 with (?x, ?y) => lazymatch type of x with Z => x | _ => y end end in
      eassert (Hx : _);
      [ eapply (while_exit c0 b0 p0 (bulk_inv f meas fl lo hi B ol _ mk) (bulk_brk f fl lo hi B ol _ mk) no_ret) with (fuel := fuel) (s := s0);
        [ bulk_step ol | inv_init | lnorm; lia ]
      | destruct Hx as (out & E & X); destruct out as [?s|?r]; [|contradiction];
        let done := fresh "done" in let bs := fresh "bs" in let i := fresh "i" in let Hi := fresh "Hi" in let Hl := fresh "Hl" in
        let Hw := fresh "Hw" in let Hr := fresh "Hr" in let Hhi := fresh "Hhi" in let Hlo := fresh "Hlo" in let Hc := fresh "Hc" in let Hos := fresh "Hos" in let Hfb := fresh "Hfb" in
        (destruct X as [(?m & (done & bs & i & (-> & Hi & Hl & Hw & Hr & Hhi & Hlo) & _) & Hc) | (done & bs & i & (-> & Hi & Hl & Hw & Hr & Hhi & Hlo) & Hos & Hfb)];
         [ cbv beta iota in Hc; injection Hc as Hc | pose proof (skipn_nil_ge _ _ Hos); rewrite Hos in * ]);
        try specialize (Hl eq_refl); rewrite E; clear E; unfold of_model in *; cbv beta iota delta [bind]; k ]
  end.
Ltac split_ifs := repeat match goal with |- (if ?c then _ else _) = _ => destruct c eqn:? end.
Ltac bulk_go f meas fl B ol fuel :=
  split_ifs;
  lazymatch goal with
  | |- context [while fuel _ _ _ _] =>
      let mk1 := constr:(fun (b : Bitmap) (i : Z) => (b, i)) in
      let mk2 := constr:(fun (b : Bitmap) (i : Z) => (i, b)) in
      let h1 := constr:(Z.of_nat (length B)) in
      let h2 := constr:(Z.of_nat (length ol)) in
      let h3 := constr:(Z.min (Z.of_nat (length B)) (Z.of_nat (length ol))) in
      let fl' := eval cbv in (negb fl) in
      let k := (bulk_go f meas fl B ol fuel) in
      first [ solve [bulk_loop1 f meas fl B ol fuel mk1 h1 k] | solve [bulk_loop1 f meas fl B ol fuel mk1 h2 k]
            | solve [bulk_loop1 f meas fl B ol fuel mk1 h3 k]
            | solve [bulk_loop1 f meas fl B ol fuel mk2 h1 k] | solve [bulk_loop1 f meas fl B ol fuel mk2 h2 k]
            | solve [bulk_loop1 f meas fl B ol fuel mk2 h3 k]
            | solve [bulk_loop1 f meas fl' B ol fuel mk1 h1 k] | solve [bulk_loop1 f meas fl' B ol fuel mk1 h2 k]
            | solve [bulk_loop1 f meas fl' B ol fuel mk1 h3 k]
            | solve [bulk_loop1 f meas fl' B ol fuel mk2 h1 k] | solve [bulk_loop1 f meas fl' B ol fuel mk2 h2 k]
            | solve [bulk_loop1 f meas fl' B ol fuel mk2 h3 k] ]
  | |- _ => solve [final_tac]
  end.
Ltac bulk_loop f meas fl B ol fuel :=
  repeat autounfold with go2v; cbv beta zeta; unfold of_model; autorewrite with bz;
  change (zs B) with (zs ([] ++ B));
  bulk_go f meas fl B ol fuel.

Lemma code_Diff_N B ol fuel : words_ok B -> (length B < fuel)%nat ->
  g_Bitmap_Diff fuel (of_model B) (of_model ol) = Ret (of_model (diff B ol)).
Proof. intros HB Hf. bulk_loop diff meas_recv true B ol fuel. Qed.
Lemma code_Intersect_N B ol fuel : words_ok B -> (length B < fuel)%nat ->
  g_Bitmap_Intersect fuel (of_model B) (of_model ol) = Ret (of_model (inter B ol)).
Proof. intros HB Hf. bulk_loop inter meas_recv true B ol fuel. Qed.
Lemma code_Merge_N B ol fuel : words_ok B -> (length ol < fuel)%nat ->
  g_Bitmap_Merge fuel (of_model B) (of_model ol) = Ret (of_model (merge B ol)).
Proof. intros HB Hf. bulk_loop merge meas_oper false B ol fuel. Qed.

(* Len: the loop over the words; state = cursor and running count, in either order.
   popcount / ones_count are sums over 64 stuck conditionals: never let a conversion test (lia comparing atoms, the
   kernel re-checking it at Qed) unfold them — their normal form on a variable is exponential. *)
#[local] Strategy 1000 [popcount ones_count].
Definition len_inv (L : list N) (S : Type) (mk : Z -> Z -> S) (m : nat) (s : S) : Prop :=
  exists done rest i c, s = mk i c /\ i = Z.of_nat (length done) /\ done ++ rest = L /\ m = length rest /\
     c + Z.of_nat (len rest) = Z.of_nat (len L).
Definition len_post (L : list N) (S R : Type) (mk : Z -> Z -> S) (out : S + R) : Prop :=
  exists i, out = inl (mk i (Z.of_nat (len L))).
Ltac len_proof L fuel mk :=
  repeat autounfold with go2v; cbv beta zeta;
  let out := fresh "out" in let E := fresh "E" in let i' := fresh "i'" in
  match goal with |- context [while fuel ?c0 ?b0 ?p0 ?s0] =>
    destruct (while_rule c0 b0 p0 (len_inv L _ mk) (len_post L _ _ mk)) with (fuel := fuel) (m := length L) (s := s0)
       as (out & E & (i' & ->)) end;
  [ let m := fresh "m" in let s := fresh "s" in let done := fresh "done" in let rest := fresh "rest" in
    let i := fresh "i" in let c := fresh "c" in let Hi := fresh "Hi" in let HL := fresh "HL" in let Hm := fresh "Hm" in
    let Hc := fresh "Hc" in let x := fresh "x" in
    intros m s (done & rest & i & c & -> & Hi & HL & Hm & Hc); subst L;
    destruct rest as [|x rest]; lunfold; repeat lstep; try (exfalso; clear Hc; reflect; cbn [length] in *; lia);
    [ unfold len_post; eexists; f_equal; f_equal; cbn [len] in Hc; rewrite ?app_nil_r in *; lia
    | rewrite ?ones_count_popcount; eexists; split;
      [ | unfold len_inv; exists (done ++ [x]), rest; eexists _, _; split; [ reflexivity | repeat split ] ];
      rewrite <- ?app_assoc, ?app_length; cbn [length len app] in *; try reflexivity; lia ]
  | exists [], L, 0, 0; cbn [app length]; repeat split; trivial
  | assumption
  | rewrite E; reflexivity ].
(* ... and counting from the last word down: rp = the words still to count, reversed *)
Definition len_inv_desc (L : list N) (S : Type) (mk : Z -> Z -> S) (m : nat) (s : S) : Prop :=
  exists rp suf i c, s = mk i c /\ i = Z.of_nat (length rp) - 1 /\ rev rp ++ suf = L /\ m = length rp /\ c = Z.of_nat (len suf).
Ltac len_proof_desc L fuel mk :=
  repeat autounfold with go2v; cbv beta zeta;
  let out := fresh "out" in let E := fresh "E" in let i' := fresh "i'" in
  match goal with |- context [while fuel ?c0 ?b0 ?p0 ?s0] =>
    destruct (while_rule c0 b0 p0 (len_inv_desc L _ mk) (len_post L _ _ mk)) with (fuel := fuel) (m := length L) (s := s0)
       as (out & E & (i' & ->)) end;
  [ let m := fresh "m" in let s := fresh "s" in let rp := fresh "rp" in let suf := fresh "suf" in
    let i := fresh "i" in let c := fresh "c" in let Hi := fresh "Hi" in let HL := fresh "HL" in let Hm := fresh "Hm" in
    let Hc := fresh "Hc" in let x := fresh "x" in
    intros m s (rp & suf & i & c & -> & Hi & HL & Hm & Hc); subst L;
    destruct rp as [|x rp]; cbn [rev app length] in *; rewrite <- ?app_assoc in *; cbn [app] in *;
    lunfold; repeat first [ rewrite get_at_mid by (rewrite ?rev_length; lia) | lstep ];
    try (exfalso; subst c; reflect; rewrite ?app_length, ?rev_length in *; cbn [length] in *; lia);
    [ unfold len_post; eexists; subst c; reflexivity
    | rewrite ?ones_count_popcount; eexists; split;
      [ | unfold len_inv_desc; exists rp, (x :: suf); eexists _, _; split; [ reflexivity | repeat split ] ];
      subst c; cbn [length len] in *; try reflexivity; lia ]
  | exists (rev L), [], (Z.of_nat (length L) - 1), 0; rewrite rev_involutive, app_nil_r, rev_length; unfold of_model; cbn [Bitmap_set];
    rewrite ?zlen_zs; repeat split; trivial
  | assumption
  | rewrite E; reflexivity ].
Ltac len_loop L fuel :=
  first [ solve [len_proof L fuel (fun (i c : Z) => (i, c))] | solve [len_proof L fuel (fun (i c : Z) => (c, i))]
        | solve [len_proof_desc L fuel (fun (i c : Z) => (i, c))] | solve [len_proof_desc L fuel (fun (i c : Z) => (c, i))] ].

Lemma code_Len_N L fuel : (length L < fuel)%nat -> g_Bitmap_Len fuel (of_model L) = Ret (Z.of_nat (len L)).
Proof. intros Hf. len_loop L fuel. Qed.

(* ------------------------------------------------------------------ the model functions keep every word below 2^64 *)
Lemma words_ok_app a b : words_ok a -> words_ok b -> words_ok (a ++ b).
Proof. unfold words_ok. rewrite Forall_app. auto. Qed.
Lemma words_ok_repeat0 k : words_ok (repeat 0%N k).
Proof. unfold words_ok. apply Forall_forall. intros x Hx. apply repeat_spec in Hx. subst x. reflexivity. Qed.
Lemma words_ok_upd l i x : words_ok l -> (x < 2 ^ 64)%N -> words_ok (Bits.upd l i x).
Proof.
  unfold words_ok. intros Hl Hx. revert i. induction Hl as [|y l Hy Hl IH]; intros [|i]; cbn [Bits.upd]; constructor; auto.
Qed.
Lemma grow_ok set n : words_ok set -> words_ok (grow set n).
Proof. intros H. unfold grow. destruct (_ <=? _)%nat; [apply words_ok_app; [assumption|apply words_ok_repeat0]|assumption]. Qed.
Lemma add_ok set n : words_ok set -> words_ok (fst (add set n)).
Proof.
  intros H. unfold add. destruct (_ <=? _)%nat; cbn [fst].
  - apply words_ok_upd; [apply words_ok_app; [assumption|apply words_ok_repeat0]|].
    apply lor_small; [apply nth_small, words_ok_app; [assumption|apply words_ok_repeat0]|apply mask_small].
  - destruct (_ =? _)%N; cbn [fst]; [|assumption]. apply words_ok_upd; [assumption|]. apply lor_small; [apply nth_small, H|apply mask_small].
Qed.
Lemma remove_ok set n : words_ok set -> words_ok (fst (remove set n)).
Proof.
  intros H. unfold remove. destruct (_ && _); cbn [fst]; [|assumption]. apply words_ok_upd; [assumption|]. apply ldiff_small, nth_small, H.
Qed.
Lemma diff_ok : forall b o, words_ok b -> words_ok (diff b o).
Proof.
  induction b as [|x b IH]; intros [|y o] H; cbn [diff]; try assumption. constructor; [apply ldiff_small, (Forall_inv H)|apply IH, (Forall_inv_tail H)].
Qed.
Lemma inter_ok : forall b o, words_ok b -> words_ok (inter b o).
Proof.
  induction b as [|x b IH]; intros o H; cbn [inter]; [constructor|]. destruct o as [|y o].
  - constructor; [reflexivity|apply IH, (Forall_inv_tail H)].
  - constructor; [apply land_small, (Forall_inv H)|apply IH, (Forall_inv_tail H)].
Qed.
Lemma merge_ok : forall b o, words_ok b -> words_ok o -> words_ok (merge b o).
Proof.
  induction b as [|x b IH]; intros [|y o] Hb Ho; cbn [merge]; try assumption.
  constructor; [apply lor_small; [apply (Forall_inv Hb)|apply (Forall_inv Ho)]|apply IH; [apply (Forall_inv_tail Hb)|apply (Forall_inv_tail Ho)]].
Qed.

(* ------------------------------------------------------------------ the theorems, for every well-formed generated state *)
Ltac to_N b n Hb Hn := rewrite <- (of_to b Hb) at 1; try rewrite <- (Z2N.id n Hn) at 1.

Theorem code_Grow : forall b n, wf b -> 0 <= n -> g_Bitmap_Grow b n = Ret (of_model (grow (to_model b) (Z.to_N n))).
Proof. intros b n Hb Hn. to_N b n Hb Hn. apply code_Grow_N. Qed.
Theorem code_Add : forall b n, wf b -> 0 <= n ->
  g_Bitmap_Add b n = Ret (of_model (fst (add (to_model b) (Z.to_N n))), snd (add (to_model b) (Z.to_N n))).
Proof. intros b n Hb Hn. to_N b n Hb Hn. apply code_Add_N. Qed.
Theorem code_Remove : forall b n, wf b -> 0 <= n ->
  g_Bitmap_Remove b n = Ret (of_model (fst (remove (to_model b) (Z.to_N n))), snd (remove (to_model b) (Z.to_N n))).
Proof. intros b n Hb Hn. to_N b n Hb Hn. apply code_Remove_N, wf_to_model, Hb. Qed.
Theorem code_Contains : forall b n, wf b -> 0 <= n -> g_Bitmap_Contains b n = Ret (contains (to_model b) (Z.to_N n)).
Proof. intros b n Hb Hn. to_N b n Hb Hn. apply code_Contains_N. Qed.
Theorem code_Cap : forall b, wf b -> g_Bitmap_Cap b = Ret (Z.of_N (cap (to_model b))).
Proof. intros b Hb. rewrite <- (of_to b Hb) at 1. apply code_Cap_N. Qed.
Theorem code_Len : forall fuel b, wf b -> (length (Bitmap_set b) < fuel)%nat ->
  g_Bitmap_Len fuel b = Ret (Z.of_nat (len (to_model b))).
Proof.
  intros fuel b Hb Hf. rewrite <- (of_to b Hb) at 1. apply code_Len_N. unfold to_model, ns. rewrite map_length. exact Hf.
Qed.
Theorem code_Diff : forall fuel b o, wf b -> wf o -> (length (Bitmap_set b) < fuel)%nat ->
  g_Bitmap_Diff fuel b o = Ret (of_model (diff (to_model b) (to_model o))).
Proof.
  intros fuel b o Hb Ho Hf. rewrite <- (of_to b Hb), <- (of_to o Ho) at 1. apply code_Diff_N; [apply wf_to_model, Hb|].
  unfold to_model, ns. rewrite map_length. exact Hf.
Qed.
Theorem code_Intersect : forall fuel b o, wf b -> wf o -> (length (Bitmap_set b) < fuel)%nat ->
  g_Bitmap_Intersect fuel b o = Ret (of_model (inter (to_model b) (to_model o))).
Proof.
  intros fuel b o Hb Ho Hf. rewrite <- (of_to b Hb), <- (of_to o Ho) at 1. apply code_Intersect_N; [apply wf_to_model, Hb|].
  unfold to_model, ns. rewrite map_length. exact Hf.
Qed.
Theorem code_Merge : forall fuel b o, wf b -> wf o -> (length (Bitmap_set o) < fuel)%nat ->
  g_Bitmap_Merge fuel b o = Ret (of_model (merge (to_model b) (to_model o))).
Proof.
  intros fuel b o Hb Ho Hf. rewrite <- (of_to b Hb), <- (of_to o Ho) at 1. apply code_Merge_N; [apply wf_to_model, Hb|].
  unfold to_model, ns. rewrite map_length. exact Hf.
Qed.

(* every generated function returns a well-formed state: wf is an invariant of the generated state *)
Theorem code_wf : forall b o n, wf b -> wf o ->
  wf (of_model (grow (to_model b) n)) /\ wf (of_model (fst (add (to_model b) n))) /\ wf (of_model (fst (remove (to_model b) n))) /\
  wf (of_model (diff (to_model b) (to_model o))) /\ wf (of_model (inter (to_model b) (to_model o))) /\
  wf (of_model (merge (to_model b) (to_model o))).
Proof.
  intros b o n Hb Ho. apply wf_to_model in Hb. apply wf_to_model in Ho. rewrite !wf_of_model.
  repeat split; [apply grow_ok|apply add_ok|apply remove_ok|apply diff_ok|apply inter_ok|apply merge_ok]; assumption.
Qed.

(* the premises are satisfiable: the empty set and one Add *)
Example wf_zero : wf zero_Bitmap. Proof. constructor. Qed.
Example code_example : g_Bitmap_Add zero_Bitmap 70 = Ret (mkBitmap [0; 64], true). Proof. vm_compute. reflexivity. Qed.
