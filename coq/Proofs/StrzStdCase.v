(* C15, part 3: for every case the model's output equals the specification's output (what Run/C15.v computes for
   sub 0 and sub 1), so the equality test the check applies to the implementation is a test against the specification. *)
From Coq Require Import List ZArith Lia Bool.
From V Require Import Lib.Enc Gen.StrzStd Model.Strconv Model.Hex Run.C15 Model.StrconvGrammar Proofs.StrconvLoop Proofs.StrconvGrammarLit Proofs.HexCodec Proofs.HexInPlace.
Import ListNotations.
Local Open Scope Z_scope.

Theorem model_equals_spec k a b l1 l2 tbl :
  (k = 10 -> 0 <= a < 2 ^ 32) -> run false k a b l1 l2 tbl = run true k a b l1 l2 tbl.
Proof.
  intros H10. unfold run.
  destruct (Z.eqb_spec k 0); [cbn [andb]; rewrite parse_uint_is_grammar; reflexivity|].
  destruct (Z.eqb_spec k 1); [unfold spec_hex_encode; rewrite hex_encode_is_spec; reflexivity|].
  destruct (Z.eqb_spec k 2); [rewrite hex_decode_is_spec; reflexivity|].
  destruct (Z.eqb_spec k 3); [rewrite inplace_spec; destruct (hex_spec l1); reflexivity|].
  destruct (Z.eqb_spec k 4); [reflexivity|]. destruct (Z.eqb_spec k 5); [reflexivity|].
  destruct (Z.eqb_spec k 6); [reflexivity|]. destruct (Z.eqb_spec k 7); [reflexivity|].
  destruct (Z.eqb_spec k 8); [reflexivity|]. destruct (Z.eqb_spec k 9); [reflexivity|].
  destruct (Z.eqb_spec k 10); [rewrite ipv4_roundtrip by auto; reflexivity|reflexivity].
Qed.
