(* C04 — the code GENERATED from heapz/adjustment.go (swap, up, down, fix, build) and heapz/slice.go (type Slice: Push, Pop,
   Peek, Len, Remove, Fix) by gen/trans*.go on every run (coq/Gen/HeapCode.v) is equal to the hand-written model of
   Model/Heap.v, layer 2 ("the loops as the Go code runs them") and layer 3 (the Slice operations), function by function,
   for EVERY comparison function [cmp : Z -> Z -> bool] (no order axioms), every slice, every index and every fuel.
   Elements are Z; the swap hook of adjustment.go is instantiated with the generated g_swap, as slice.go does (swap[T]).
   Proof style: the generated primitives are rewritten into the model's ([m_get] -> [nthZ], ...), then case analysis on
   every condition and every access; loops by induction on the fuel through [while_unfold]. *)
From Coq Require Import List ZArith Lia Bool Arith.
From V Require Import Lib.Enc Model.Heap Proofs.HeapSift Proofs.HeapTop Run.C04.
From V Require Import Lib.GoSem Proofs.GoSemFacts Gen.HeapCode Run.C04Code.
Import ListNotations.
Local Open Scope Z_scope.
(* lia also reasons about Go's truncated division (Z.quot: the parent index (j - 1) / 2) *)
Ltac Zify.zify_post_hook ::= Z.to_euclidean_division_equations.

(* ---- the explicit, total conversion between the model's results and the results of generated code *)
Definition cv {X Y : Type} (f : X -> Y) (r : Heap.res X) : M Y :=
  match r with Ok x => Ret (f x) | Heap.Panic => Panic | Heap.NoFuel => NoFuel end.

(* Go returns (value, ok); the model an option *)
Definition opt_res (o : option Z) : Z * bool := match o with Some x => (x, true) | None => (0, false) end.
(* a Slice with new Values (the comparison function never changes) *)
Definition with_values (s : Slice) (v : list Z) : Slice := mkSlice v (Slice_cmp s).
Definition st_opt (s : Slice) (p : list Z * option Z) : Slice * (Z * bool) := (with_values s (fst p), opt_res (snd p)).

(* ---------------------------------------------------------------- primitives: GoSem vs Model/Heap.v *)
Lemma upd_eq : forall (l : list Z) i x, GoSem.upd l i x = Heap.upd l i x.
Proof. induction l as [|h t IH]; intros [|i] x; cbn; try reflexivity. rewrite IH. reflexivity. Qed.

Lemma zlen_Zlen (l : list Z) : zlen l = Zlen l. Proof. reflexivity. Qed.

Lemma m_get_nthZ (l : list Z) i : m_get l i = cv id (nthZ l i).
Proof.
  unfold m_get, get_at, nthZ, lift. destruct (Z.ltb_spec i 0), (Z.leb_spec 0 i); try lia; [reflexivity|].
  destruct (nth_error l (Z.to_nat i)); reflexivity.
Qed.

(* an access either is in range and yields a value, or is out of range and panics; never anything else *)
Lemma nthZ_cases (l : list Z) i :
  (0 <= i < Zlen l /\ exists x, nthZ l i = Ok x) \/ ((i < 0 \/ Zlen l <= i) /\ nthZ l i = Heap.Panic).
Proof.
  unfold nthZ, Zlen. destruct (Z.ltb_spec i 0); [right; split; [lia|reflexivity]|].
  destruct (nth_error l (Z.to_nat i)) eqn:E.
  - left. split; [|eauto]. assert (Z.to_nat i < length l)%nat by (apply nth_error_Some; congruence). lia.
  - right. split; [|reflexivity]. apply nth_error_None in E. lia.
Qed.

Lemma Zlen_nonneg (l : list Z) : 0 <= Zlen l. Proof. unfold Zlen. lia. Qed.

Lemma Zlen_upd (l : list Z) i x : Zlen (Heap.upd l i x) = Zlen l.
Proof. unfold Zlen. rewrite upd_length. reflexivity. Qed.

Lemma m_set_in (l : list Z) i x : 0 <= i < Zlen l -> m_set l i x = Ret (Heap.upd l (Z.to_nat i) x).
Proof.
  unfold m_set, set_at, lift, Zlen. intros H.
  destruct (Z.leb_spec 0 i); [|lia]. destruct (Z.ltb_spec i (Z.of_nat (length l))); [|lia]. cbn [andb]. rewrite upd_eq. reflexivity.
Qed.

Lemma m_slice_prefix (l : list Z) n : 0 <= n <= Zlen l -> m_slice l 0 n = Ret (firstn (Z.to_nat n) l).
Proof.
  unfold m_slice, slice, lift, Zlen. intros H. cbn [Z.leb Z.compare].
  destruct (Z.leb_spec 0 n); [|lia]. destruct (Z.leb_spec n (Z.of_nat (length l))); [|lia]. cbn [andb].
  cbn [Z.to_nat skipn]. rewrite Nat.sub_0_r. reflexivity.
Qed.

Lemma firstn_upd_ge : forall (l : list Z) n i x, (n <= i)%nat -> firstn n (Heap.upd l i x) = firstn n l.
Proof.
  induction l as [|h t IH]; intros [|n] [|i] x H; cbn; try reflexivity; try lia. rewrite IH by lia. reflexivity.
Qed.

(* the loop combinator, one step, for a loop that has been given a name (the recursive occurrence stays folded) *)
Lemma while_unfold {S R : Type} (W : nat -> S -> M (S + R)) c b p :
  (forall f s, W f s = while f c b p s) ->
  forall f s, W (Datatypes.S f) s =
    bind (c s) (fun x => if x then bind (b s) (fun y => match y with
      | Next s1 => bind (p s1) (fun s2 => W f s2) | Break s1 => Ret (inl s1) | Return r => Ret (inr r) end)
    else Ret (inl s)).
Proof.
  intros H f s. rewrite H, while_step. destruct (c s) as [x| |]; try reflexivity. cbn [bind]. destruct x; [|reflexivity].
  destruct (b s) as [[s1|s1|r]| |]; try reflexivity. cbn [bind]. destruct (p s1) as [s2| |]; try reflexivity. cbn [bind]. rewrite H. reflexivity.
Qed.

(* ---------------------------------------------------------------- symbolic execution of both sides *)
Ltac case_nth l i :=
  let H := fresh "Hr" in let x := fresh "x" in let E := fresh "E" in
  destruct (nthZ_cases l i) as [[H [x E]]|[H E]]; rewrite E.

Ltac simp1 := cbn [bind Heap.bind cv fst snd negb andb orb opt_res Slice_Values Slice_cmp set_Slice_Values set_Slice_cmp].
Ltac simp := simp1; unfold id, st_opt, with_values; simp1.

Ltac zb :=
  repeat match goal with
  | H : (_ =? _) = true |- _ => apply Z.eqb_eq in H
  | H : (_ =? _) = false |- _ => apply Z.eqb_neq in H
  | H : (_ <=? _) = true |- _ => apply Z.leb_le in H
  | H : (_ <=? _) = false |- _ => apply Z.leb_gt in H
  | H : (_ <? _) = true |- _ => apply Z.ltb_lt in H
  | H : (_ <? _) = false |- _ => apply Z.ltb_ge in H
  | H : negb _ = true |- _ => apply negb_true_iff in H
  | H : negb _ = false |- _ => apply negb_false_iff in H
  | H : orb _ _ = true |- _ => apply orb_true_iff in H
  | H : orb _ _ = false |- _ => apply orb_false_iff in H; destruct H
  | H : andb _ _ = true |- _ => apply andb_true_iff in H; destruct H
  | H : andb _ _ = false |- _ => apply andb_false_iff in H
  end.

(* lengths are not negative (lia does not look inside Zlen) *)
Ltac zlen_facts :=
  repeat match goal with
  | |- context [Zlen ?l] => lazymatch goal with H : 0 <= Zlen l |- _ => fail | _ => pose proof (Zlen_nonneg l) end
  | H0 : context [Zlen ?l] |- _ => lazymatch goal with H : 0 <= Zlen l |- _ => fail | _ => pose proof (Zlen_nonneg l) end
  end.
(* one step: rewrite a generated primitive into the model's, or split on the next access / condition *)
Ltac prim1 :=
  match goal with
  | |- context [m_get ?l ?i] => rewrite (m_get_nthZ l i)
  | |- context [zlen ?l] => rewrite (zlen_Zlen l)
  | |- context [Z.geb ?a ?b] => rewrite (Z.geb_leb a b)
  | |- context [Z.gtb ?a ?b] => rewrite (Z.gtb_ltb a b)
  | |- context [if negb ?c then _ else _] => rewrite (if_negb _ c)
  | |- context [if ?c then _ else _] => destruct c eqn:?
  | H : nthZ ?l ?i = _ |- context [nthZ ?l ?i] => rewrite H
  | H : nthZ ?l ?i = _ |- context [nthZ ?l ?j] =>      (* the same access, its index written differently *)
      tryif constr_eq i j then fail else (replace (nthZ l j) with (nthZ l i) by (f_equal; zb; zlen_facts; lia)); rewrite H
  | |- context [nthZ ?l ?i] => case_nth l i
  | |- context [m_set ?l ?i ?x] => rewrite (m_set_in l i x) by (rewrite ?Zlen_upd; zb; zlen_facts; lia)
  | |- context [m_slice ?l 0 ?n] => rewrite (m_slice_prefix l n) by (rewrite ?Zlen_upd; zb; zlen_facts; lia)
  end; simp.
Ltac done := try reflexivity; try congruence; zb; try lia; zlen_facts; try lia; try (exfalso; intuition lia).

(* hooks, extended below (Ltac ... ::=) as the theorems they use become available *)
Ltac calls := fail.      (* a call of generated code -> the model's function (the code_... theorems) *)
Ltac reuse := fail.      (* a model computation whose result is already known *)
Ltac results := fail.    (* split on the result of a model computation *)
Ltac step := first [ calls; simp | reuse; simp | prim1 | results; simp ].
Ltac steps := cbv beta iota zeta; simp; repeat step.

(* ---------------------------------------------------------------- adjustment.go: swap *)
Theorem code_swap : forall s i j, g_swap s i j = cv id (swapL Z s i j).
Proof. intros. unfold g_swap, swapL. steps; done. Qed.

Lemma swapL_eq s a b : swapL Z s a b =
  Heap.bind (nthZ s a) (fun x => Heap.bind (nthZ s b) (fun y => Ok (Heap.upd (Heap.upd s (Z.to_nat a) y) (Z.to_nat b) x))).
Proof. reflexivity. Qed.

Lemma swapL_Zlen s i j s' : swapL Z s i j = Ok s' -> Zlen s' = Zlen s.
Proof. unfold swapL. case_nth s i; simp; [|discriminate]. case_nth s j; simp; [|discriminate]. intros [= <-]. rewrite !Zlen_upd. reflexivity. Qed.

Lemma upd_comm : forall (l : list Z) i j a b, i <> j -> Heap.upd (Heap.upd l i a) j b = Heap.upd (Heap.upd l j b) i a.
Proof.
  induction l as [|h t IH]; intros [|i] [|j] a b H; cbn; try reflexivity; try congruence. rewrite IH by congruence. reflexivity.
Qed.
Lemma upd_twice : forall (l : list Z) i a b, Heap.upd (Heap.upd l i a) i b = Heap.upd l i b.
Proof. induction l as [|h t IH]; intros [|i] a b; cbn; try reflexivity. rewrite IH. reflexivity. Qed.

(* swap(s, i, j) = swap(s, j, i) *)
Lemma swapL_sym s i j : swapL Z s i j = swapL Z s j i.
Proof.
  unfold swapL. case_nth s i; simp; case_nth s j; simp; try reflexivity.
  destruct (Z.eq_dec i j) as [->|Hne]; [congruence|]. rewrite upd_comm; [reflexivity|]. intros H. apply Hne. lia.
Qed.

(* a call of the generated swap is the model's swapL; then split on its result *)
Ltac calls ::= match goal with |- context [g_swap ?s ?i ?j] => rewrite (code_swap s i j) end.
Ltac reuse ::=
  match goal with
  | H : swapL Z ?s ?i ?j = _ |- context [swapL Z ?s ?i ?j] => rewrite H
  | H : swapL Z ?s ?i ?j = _ |- context [swapL Z ?s ?j ?i] => rewrite (swapL_sym s j i), H
  end.
Ltac results ::=
  match goal with |- context [swapL Z ?s ?i ?j] => let E := fresh "Esw" in destruct (swapL Z s i j) eqn:E end.

(* ---------------------------------------------------------------- adjustment.go: the sift loops, for every comparison *)
Opaque g_swap.      (* stays folded under autounfold: it has its own theorem *)
Section Loops.
Variable cmp : Z -> Z -> bool.
Local Notation lessM := (lessL Z cmp).
Local Notation swapM := (swapL Z).

(* the generated loops, taken out of the generated definitions themselves *)
Definition down_while (n : Z) (fuel : nat) :=
  ltac:(let t := eval cbv beta zeta delta [g_down] in (g_down fuel [] cmp g_swap 0 n) in
        match t with context [while fuel ?c ?b ?p _] => exact (while fuel c b p) end).
Definition down_after (i0 : Z) :=
  ltac:(let t := eval cbv beta zeta delta [g_down] in (g_down 0%nat [] cmp g_swap i0 0) in
        match t with bind _ ?k => exact k end).
Definition up_while (fuel : nat) :=
  ltac:(let t := eval cbv beta zeta delta [g_up] in (g_up fuel [] cmp g_swap 0) in
        match t with context [while fuel ?c ?b ?p _] => exact (while fuel c b p) end).
Definition up_after :=
  ltac:(let t := eval cbv beta zeta delta [g_up] in (g_up 0%nat [] cmp g_swap 0) in
        match t with bind _ ?k => exact k end).

(* down's loop is the model's gdown_go, fuel for fuel, from every state *)
Lemma down_while_go : forall n fuel s i,
  down_while n fuel (s, i) = cv (fun r => inl r) (gdown_go (list Z) lessM swapM fuel s i n).
Proof.
  intros n. induction fuel as [|f IH]; intros s i; [reflexivity|].
  rewrite (while_unfold (down_while n) _ _ _ (fun _ _ => eq_refl)). cbn [gdown_go]. unfold lessL. autounfold with go2v.
  steps; try apply IH; done.
Qed.

Theorem code_down : forall fuel s i0 n,
  g_down fuel s cmp g_swap i0 n = cv id (gdown (list Z) lessM swapM fuel s i0 n).
Proof.
  intros. change (g_down fuel s cmp g_swap i0 n) with (bind (down_while n fuel (s, i0)) (down_after i0)).
  rewrite down_while_go. unfold gdown. destruct (gdown_go (list Z) lessM swapM fuel s i0 n) as [[s' i]| |]; try reflexivity.
  cbv beta iota zeta delta [down_after]. steps; done.
Qed.

(* up's loop is the model's gup_go.  Premise 0 <= j: every caller passes an index (Push: len - 1 of a non-empty slice; fix:
   an index its callers have checked), and two independent behaviour-preserving refactorings (harmless/C04-h2, C04-h3) write
   the loop as `for j > 0 {...}` instead of `if i == j { break }`, which is the same function exactly on 0 <= j (for
   j <= -2 the present code panics on s[j]).  TRANSLATOR.md, Limits: "restate the theorem with the range premise". *)
Lemma up_while_go : forall fuel s j, 0 <= j ->
  bind (up_while fuel (s, j)) up_after = cv id (gup_go (list Z) lessM swapM fuel s j).
Proof.
  induction fuel as [|f IH]; intros s j Hj; [reflexivity|].
  rewrite (while_unfold up_while _ _ _ (fun _ _ => eq_refl)). cbn [gup_go]. unfold lessL. autounfold with go2v.
  steps; try (apply IH; lia); done.
Qed.

Theorem code_up : forall fuel s j, 0 <= j -> g_up fuel s cmp g_swap j = cv id (gup_go (list Z) lessM swapM fuel s j).
Proof. intros. apply up_while_go. assumption. Qed.
End Loops.

Lemma Zlen_app1 (l : list Z) x : Zlen (l ++ [x]) = Zlen l + 1.
Proof. unfold Zlen. rewrite app_length. cbn [length]. lia. Qed.

(* the loops keep the length *)
Section Lengths.
Variable cmp : Z -> Z -> bool.
Local Notation lessM := (lessL Z cmp).
Local Notation swapM := (swapL Z).
Lemma gdown_go_Zlen : forall f s i n r, gdown_go (list Z) lessM swapM f s i n = Ok r -> Zlen (fst r) = Zlen s.
Proof.
  induction f as [|f IH]; intros s i n r; [discriminate|]. cbn [gdown_go]. cbv zeta.
  destruct ((2 * i + 1 >=? n) || (2 * i + 1 <? 0)); [intros [= <-]; reflexivity|].
  destruct (if 2 * i + 1 + 1 <? n then lessM s (2 * i + 1 + 1) (2 * i + 1) else Ok false) as [b| |]; cbn [Heap.bind]; try discriminate.
  destruct (lessM s (if b then 2 * i + 1 + 1 else 2 * i + 1) i) as [c| |]; cbn [Heap.bind]; try discriminate.
  destruct c; [|intros [= <-]; reflexivity].
  destruct (swapM s i (if b then 2 * i + 1 + 1 else 2 * i + 1)) as [s'| |] eqn:E; cbn [Heap.bind]; try discriminate.
  intros H. apply IH in H. apply swapL_Zlen in E. lia.
Qed.
Lemma gdown_Zlen f s i n r : gdown (list Z) lessM swapM f s i n = Ok r -> Zlen (fst r) = Zlen s.
Proof.
  unfold gdown. destruct (gdown_go (list Z) lessM swapM f s i n) as [q| |] eqn:E; cbn [Heap.bind]; try discriminate.
  intros [= <-]. exact (gdown_go_Zlen _ _ _ _ _ E).
Qed.
Lemma gup_go_Zlen : forall f s j r, gup_go (list Z) lessM swapM f s j = Ok r -> Zlen r = Zlen s.
Proof.
  induction f as [|f IH]; intros s j r; [discriminate|]. cbn [gup_go]. cbv zeta.
  destruct (Z.quot (j - 1) 2 =? j); [intros [= <-]; reflexivity|].
  destruct (lessM s j (Z.quot (j - 1) 2)) as [c| |]; cbn [Heap.bind]; try discriminate.
  destruct c; [|intros [= <-]; reflexivity].
  destruct (swapM s (Z.quot (j - 1) 2) j) as [s'| |] eqn:E; cbn [Heap.bind]; try discriminate.
  intros H. apply IH in H. apply swapL_Zlen in E. lia.
Qed.
Lemma gfix_Zlen f s i n r : gfix (list Z) lessM swapM f s i n = Ok r -> Zlen r = Zlen s.
Proof.
  unfold gfix. destruct (gdown (list Z) lessM swapM f s i n) as [q| |] eqn:E; cbn [Heap.bind]; try discriminate.
  apply gdown_Zlen in E. destruct (snd q); [intros [= <-]; exact E|]. intros H. apply gup_go_Zlen in H. lia.
Qed.
End Lengths.

(* two occurrences of a model loop that differ only in how an index is written: make them one *)
Ltac same_args :=
  match goal with
  | |- context [gup_go (list Z) ?l ?w ?f ?s ?j1] =>
      match goal with |- context [gup_go (list Z) l w f s ?j2] =>
        tryif constr_eq j1 j2 then fail else
        replace (gup_go (list Z) l w f s j2) with (gup_go (list Z) l w f s j1) by (f_equal; rewrite ?Zlen_app1; zb; zlen_facts; lia) end
  | |- context [gdown (list Z) ?l ?w ?f ?s ?i1 ?n1] =>
      match goal with |- context [gdown (list Z) l w f s ?i2 ?n2] =>
        tryif (constr_eq i1 i2; constr_eq n1 n2) then fail else
        replace (gdown (list Z) l w f s i2 n2) with (gdown (list Z) l w f s i1 n1) by (f_equal; rewrite ?Zlen_app1; zb; zlen_facts; lia) end
  | |- context [gfix (list Z) ?l ?w ?f ?s ?i1 ?n1] =>
      match goal with |- context [gfix (list Z) l w f s ?i2 ?n2] =>
        tryif (constr_eq i1 i2; constr_eq n1 n2) then fail else
        replace (gfix (list Z) l w f s i2 n2) with (gfix (list Z) l w f s i1 n1) by (f_equal; rewrite ?Zlen_app1; zb; zlen_facts; lia) end
  end.

(* calls of the generated loops are the model's loops; then split on their results *)
Ltac calls ::=
  match goal with
  | |- context [g_swap ?s ?i ?j] => rewrite (code_swap s i j)
  | |- context [g_down ?f ?s ?c g_swap ?i ?n] => rewrite (code_down c f s i n)
  | |- context [g_up ?f ?s ?c g_swap ?j] => rewrite (code_up c f s j) by (rewrite ?Zlen_app1; zb; zlen_facts; lia)
  end.
Ltac results ::=
  first [ same_args
        | match goal with
          | |- context [swapL Z ?s ?i ?j] => let E := fresh "Esw" in destruct (swapL Z s i j) eqn:E
          | |- context [gdown (list Z) ?l ?w ?f ?s ?i ?n] =>
              let E := fresh "Eg" in destruct (gdown (list Z) l w f s i n) as [[? ?]| |] eqn:E;
              [try (apply gdown_Zlen in E; cbn [fst] in E; rewrite ?Zlen_upd in E)|..]
          | |- context [gup_go (list Z) ?l ?w ?f ?s ?j] =>
              let E := fresh "Eg" in destruct (gup_go (list Z) l w f s j) eqn:E; [try (apply gup_go_Zlen in E; rewrite ?Zlen_upd in E)|..]
          | |- context [gfix (list Z) ?l ?w ?f ?s ?i ?n] =>
              let E := fresh "Eg" in destruct (gfix (list Z) l w f s i n) eqn:E; [try (apply gfix_Zlen in E; rewrite ?Zlen_upd in E)|..]
          end ].

(* ---------------------------------------------------------------- adjustment.go: fix, build *)
Opaque g_down g_up.
Section Fix.
Variable cmp : Z -> Z -> bool.
Local Notation lessM := (lessL Z cmp).
Local Notation swapM := (swapL Z).

Theorem code_fix : forall fuel s i n, 0 <= i ->       (* fix calls up(s, ..., i): see code_up *)
  g_fix fuel s cmp g_swap i n = cv id (gfix (list Z) lessM swapM fuel s i n).
Proof.
  intros. unfold g_fix, gfix. autounfold with go2v. steps; done.
Qed.

(* build: the outer loop (i := n/2 - 1; i >= 0; i--) is the model's structural recursion over the rounds; the fuel of the
   outer loop (fo) and the fuel handed to down (fi) are the same variable in the generated code, two here *)
Definition build_while (n : Z) (fi fo : nat) :=
  ltac:(let t := eval cbv beta zeta delta [g_build] in (g_build fi [] cmp g_swap) in
        match t with context [while fi ?c ?b ?p _] =>
          let c' := eval pattern (zlen (@nil Z)) in c in
          let b' := eval pattern (zlen (@nil Z)) in b in
          match c' with ?cf _ => match b' with ?bf _ => exact (while fo (cf n) (bf n) p) end end
        end).
Definition build_after :=
  ltac:(let t := eval cbv beta zeta delta [g_build] in (g_build 0%nat [] cmp g_swap) in
        match t with bind _ ?k => exact k end).

Lemma build_while_from : forall n fi k fo s, (k < fo)%nat ->
  bind (build_while n fi fo (s, Z.of_nat k - 1)) build_after = cv id (gbuild_from (list Z) lessM swapM fi k s n).
Proof.
  intros n fi. induction k as [|k IH]; intros fo s Hk; (destruct fo as [|fo]; [lia|]);
    rewrite (while_unfold (build_while n fi) _ _ _ (fun _ _ => eq_refl)); cbn [gbuild_from].
  - steps; done.
  - cbv beta zeta; simp. destruct (Z.leb_spec 0 (Z.of_nat (Datatypes.S k) - 1)); [|lia]. simp.
    replace (Z.of_nat (Datatypes.S k) - 1) with (Z.of_nat k) by lia. rewrite code_down.
    destruct (gdown (list Z) lessM swapM fi s (Z.of_nat k) n) as [[s' b]| |]; simp; try reflexivity.
    apply IH. lia.
Qed.

Theorem code_build : forall fuel s, (Z.to_nat (Zlen s / 2) < fuel)%nat ->
  g_build fuel s cmp g_swap = cv id (gbuild (list Z) lessM swapM fuel s (Zlen s)).
Proof.
  intros fuel s H. unfold gbuild. rewrite <- (build_while_from (Zlen s) fuel _ fuel s H).
  change (g_build fuel s cmp g_swap) with (bind (build_while (zlen s) fuel fuel (s, Z.quot (zlen s) 2 - 1)) build_after).
  rewrite zlen_Zlen. rewrite Z.quot_div_nonneg by (unfold Zlen; lia). rewrite Z2Nat.id by (apply Z.div_pos; unfold Zlen; lia).
  reflexivity.
Qed.
End Fix.

(* ---------------------------------------------------------------- more fuel never changes a result (generic loops) *)
Section Mono.
Variable S : Type.
Variable less : S -> Z -> Z -> Heap.res bool.
Variable swp : S -> Z -> Z -> Heap.res S.

Lemma gdown_go_mono : forall f f' s i n r, (f <= f')%nat ->
  gdown_go S less swp f s i n = Ok r -> gdown_go S less swp f' s i n = Ok r.
Proof.
  induction f as [|f IH]; intros f' s i n r Hle; [discriminate|]. destruct f' as [|f']; [lia|]. cbn [gdown_go]. cbv zeta.
  destruct ((2 * i + 1 >=? n) || (2 * i + 1 <? 0)); [trivial|].
  destruct (if 2 * i + 1 + 1 <? n then less s (2 * i + 1 + 1) (2 * i + 1) else Ok false) as [b| |]; cbn [Heap.bind]; try discriminate.
  destruct (less s (if b then 2 * i + 1 + 1 else 2 * i + 1) i) as [c| |]; cbn [Heap.bind]; try discriminate.
  destruct c; [|trivial]. destruct (swp s i (if b then 2 * i + 1 + 1 else 2 * i + 1)) as [s'| |]; cbn [Heap.bind]; try discriminate.
  apply IH. lia.
Qed.
Lemma gdown_mono f f' s i n r : (f <= f')%nat -> gdown S less swp f s i n = Ok r -> gdown S less swp f' s i n = Ok r.
Proof.
  unfold gdown. intros Hle. destruct (gdown_go S less swp f s i n) as [q| |] eqn:E; cbn [Heap.bind]; try discriminate.
  rewrite (gdown_go_mono f f' s i n q Hle E). trivial.
Qed.
Lemma gup_go_mono : forall f f' s j r, (f <= f')%nat -> gup_go S less swp f s j = Ok r -> gup_go S less swp f' s j = Ok r.
Proof.
  induction f as [|f IH]; intros f' s j r Hle; [discriminate|]. destruct f' as [|f']; [lia|]. cbn [gup_go]. cbv zeta.
  destruct (Z.quot (j - 1) 2 =? j); [trivial|].
  destruct (less s j (Z.quot (j - 1) 2)) as [c| |]; cbn [Heap.bind]; try discriminate.
  destruct c; [|trivial]. destruct (swp s (Z.quot (j - 1) 2) j) as [s'| |]; cbn [Heap.bind]; try discriminate.
  apply IH. lia.
Qed.
Lemma gfix_mono f f' s i n r : (f <= f')%nat -> gfix S less swp f s i n = Ok r -> gfix S less swp f' s i n = Ok r.
Proof.
  unfold gfix. intros Hle. destruct (gdown S less swp f s i n) as [q| |] eqn:E; cbn [Heap.bind]; try discriminate.
  rewrite (gdown_mono f f' s i n q Hle E). cbn [Heap.bind]. destruct (snd q); [trivial|]. apply gup_go_mono. exact Hle.
Qed.
Lemma gbuild_from_mono f f' : (f <= f')%nat -> forall k s n r,
  gbuild_from S less swp f k s n = Ok r -> gbuild_from S less swp f' k s n = Ok r.
Proof.
  intros Hle. induction k as [|k IH]; intros s n r; cbn [gbuild_from]; [trivial|].
  destruct (gdown S less swp f s (Z.of_nat k) n) as [q| |] eqn:E; cbn [Heap.bind]; try discriminate.
  rewrite (gdown_mono f f' s _ n q Hle E). cbn [Heap.bind]. apply IH.
Qed.
End Mono.

(* ---------------------------------------------------------------- slice.go: type Slice *)
Section SliceOps.
Variable cmp : Z -> Z -> bool.
Local Notation lessM := (lessL Z cmp).
Local Notation swapM := (swapL Z).

(* the model's Slice operations with the fuel of their loops made a parameter (the model itself runs them with
   fuelL s = S (length s)); equal to the model's as soon as the fuel is at least the model's *)
Definition sl_push_f (fuel : nat) (s : list Z) (x : Z) : Heap.res (list Z) :=
  let s' := s ++ [x] in gup_go (list Z) lessM swapM fuel s' (Zlen s' - 1).
Definition sl_pop_f (fuel : nat) (s : list Z) : Heap.res (list Z * option Z) :=
  let n := Zlen s in
  if n =? 0 then Ok (s, None) else
  if n =? 1 then Heap.bind (nthZ s 0) (fun x => Ok ([], Some x)) else
  let n := n - 1 in
  Heap.bind (swapM s 0 n) (fun s1 => Heap.bind (gdown (list Z) lessM swapM fuel s1 0 n) (fun r => cut_last Z (fst r) n)).
Definition sl_remove_f (fuel : nat) (s : list Z) (i : Z) : Heap.res (list Z * option Z) :=
  if (i <? 0) || (i >=? Zlen s) then Ok (s, None) else
  let n := Zlen s - 1 in
  Heap.bind (if negb (n =? i) then Heap.bind (swapM s i n) (fun s1 => gfix (list Z) lessM swapM fuel s1 i n) else Ok s)
            (fun s2 => cut_last Z s2 n).
Definition sl_fix_f (fuel : nat) (s : list Z) (i : Z) : Heap.res (list Z) :=
  if (i <? 0) || (i >=? Zlen s) then Ok s else gfix (list Z) lessM swapM fuel s i (Zlen s).
Definition build_f (fuel : nat) (s : list Z) : Heap.res (list Z) := gbuild (list Z) lessM swapM fuel s (Zlen s).
End SliceOps.

(* the Slice methods: generated helper functions are unfolded through the hint database go2v (so that an extracted or inlined
   helper needs no change here); the functions that have their own theorem stay folded; an applied swapL is unfolded, the
   methods write the exchange out themselves *)
Ltac calls ::=
  match goal with
  | |- context [g_swap ?s ?i ?j] => rewrite (code_swap s i j)
  | |- context [g_down ?f ?s ?c g_swap ?i ?n] => rewrite (code_down c f s i n)
  | |- context [g_up ?f ?s ?c g_swap ?j] => rewrite (code_up c f s j) by (rewrite ?Zlen_app1; zb; zlen_facts; lia)
  | |- context [g_fix ?f ?s ?c g_swap ?i ?n] => rewrite (code_fix c f s i n) by (zb; zlen_facts; lia)
  | |- context [swapL Z ?s ?i ?j] => rewrite (swapL_eq s i j)
  end.
Ltac done2 :=
  repeat match goal with
  | |- context [Z.to_nat ?e] =>
      lazymatch e with 0 => fail | _ => replace (Z.to_nat e) with (Z.to_nat 0) by (f_equal; zb; zlen_facts; lia) end
  end;
  cbn [Z.to_nat firstn]; rewrite ?firstn_upd_ge by lia; done; try (repeat f_equal; zb; zlen_facts; lia).
Ltac slice_method :=
  intros; match goal with s : Slice |- _ => destruct s as [vals c] end;
  autounfold with go2v; unfold sl_push_f, sl_pop_f, sl_remove_f, sl_fix_f, sl_peek, cut_last; steps; done2.
Opaque g_fix g_build.

(* for EVERY fuel: the generated methods are the model's operations run with that fuel *)
Theorem code_Push_fuel : forall fuel s x,
  g_Slice_Push fuel s x = cv (with_values s) (sl_push_f (Slice_cmp s) fuel (Slice_Values s) x).
Proof. slice_method. Qed.

Theorem code_Pop_fuel : forall fuel s,
  g_Slice_Pop fuel s = cv (st_opt s) (sl_pop_f (Slice_cmp s) fuel (Slice_Values s)).
Proof. slice_method. Qed.

Theorem code_Peek : forall s, g_Slice_Peek s = cv opt_res (sl_peek Z (Slice_Values s)).
Proof. slice_method. Qed.

Theorem code_Len : forall s, g_Slice_Len s = Ret (Zlen (Slice_Values s)).
Proof. slice_method. Qed.

Theorem code_Remove_fuel : forall fuel s i,
  g_Slice_Remove fuel s i = cv (st_opt s) (sl_remove_f (Slice_cmp s) fuel (Slice_Values s) i).
Proof. slice_method. Qed.

Theorem code_Fix_fuel : forall fuel s i,
  g_Slice_Fix fuel s i = cv (with_values s) (sl_fix_f (Slice_cmp s) fuel (Slice_Values s) i).
Proof. slice_method. Qed.
Transparent g_swap g_up g_down g_fix g_build.

(* ---------------------------------------------------------------- the model's own fuel (fuelL s = S (length s)) suffices *)
Section Suffices.
Variable cmp : Z -> Z -> bool.
Local Notation lessM := (lessL Z cmp).
Local Notation swapM := (swapL Z).

(* on the model's domain (where the code calls them) the model's loops end with a value: Props/C04.v c04_loops_refine *)
Lemma downL_total s i n : (n <= length s)%nat -> exists r, downL Z cmp s (Z.of_nat i) (Z.of_nat n) = Ok r.
Proof. intros H. destruct (t_loops_refine Z 0 cmp s) as (D & _). eexists. apply D. exact H. Qed.
Lemma upL_total s j : (j < length s)%nat -> exists r, upL Z cmp s (Z.of_nat j) = Ok r.
Proof. intros H. destruct (t_loops_refine Z 0 cmp s) as (_ & U & _). eexists. apply U. exact H. Qed.
Lemma fixL_total s i n : (n <= length s)%nat -> (i < n)%nat -> exists r, fixL Z cmp s (Z.of_nat i) (Z.of_nat n) = Ok r.
Proof. intros H H'. destruct (t_loops_refine Z 0 cmp s) as (_ & _ & F & _). eexists. apply F; assumption. Qed.
Lemma buildL_total s : exists r, buildL Z cmp s = Ok r.
Proof. destruct (t_loops_refine Z 0 cmp s) as (_ & _ & _ & B). eexists. exact B. Qed.

(* the loops: with any fuel >= the model's, the generated function is the model's downL / upL / fixL / buildL *)
Theorem code_down_model : forall fuel s i n, (n <= length s)%nat -> (fuelL Z s <= fuel)%nat ->
  g_down fuel s cmp g_swap (Z.of_nat i) (Z.of_nat n) = cv id (downL Z cmp s (Z.of_nat i) (Z.of_nat n)).
Proof.
  intros fuel s i n Hn Hf. rewrite code_down. destruct (downL_total s i n Hn) as [r E]. rewrite E.
  rewrite (gdown_mono _ _ _ _ _ _ _ _ _ Hf E). reflexivity.
Qed.
Theorem code_up_model : forall fuel s j, (j < length s)%nat -> (fuelL Z s <= fuel)%nat ->
  g_up fuel s cmp g_swap (Z.of_nat j) = cv id (upL Z cmp s (Z.of_nat j)).
Proof.
  intros fuel s j Hj Hf. rewrite code_up by lia. destruct (upL_total s j Hj) as [r E]. rewrite E.
  rewrite (gup_go_mono _ _ _ _ _ _ _ _ Hf E). reflexivity.
Qed.
Theorem code_fix_model : forall fuel s i n, (n <= length s)%nat -> (i < n)%nat -> (fuelL Z s <= fuel)%nat ->
  g_fix fuel s cmp g_swap (Z.of_nat i) (Z.of_nat n) = cv id (fixL Z cmp s (Z.of_nat i) (Z.of_nat n)).
Proof.
  intros fuel s i n Hn Hi Hf. rewrite code_fix by lia. destruct (fixL_total s i n Hn Hi) as [r E]. rewrite E.
  rewrite (gfix_mono _ _ _ _ _ _ _ _ _ Hf E). reflexivity.
Qed.
Theorem code_build_model : forall fuel s, (fuelL Z s <= fuel)%nat -> g_build fuel s cmp g_swap = cv id (buildL Z cmp s).
Proof.
  intros fuel s Hf. unfold fuelL in Hf.
  assert (Z.to_nat (Zlen s / 2) < fuel)%nat.
  { assert (Zlen s / 2 <= Zlen s) by (unfold Zlen; apply Z.div_le_upper_bound; lia). unfold Zlen in *. lia. }
  rewrite code_build by assumption. destruct (buildL_total s) as [r E]. rewrite E. unfold buildL, gbuild in *.
  rewrite (gbuild_from_mono _ _ _ _ _ Hf _ _ _ _ E). reflexivity.
Qed.

(* the Slice operations with fuel >= the model's are the model's *)
Lemma nat_of_Zlen (s : list Z) : Zlen s = Z.of_nat (length s). Proof. reflexivity. Qed.

Lemma sl_push_f_model fuel s x : (fuelL Z (s ++ [x]) <= fuel)%nat -> sl_push_f cmp fuel s x = sl_push Z cmp s x.
Proof.
  intros Hf. unfold sl_push_f, sl_push. cbv zeta.
  assert (L : (length (s ++ [x]) - 1 < length (s ++ [x]))%nat) by (rewrite app_length; cbn; lia).
  destruct (upL_total (s ++ [x]) _ L) as [r E].
  replace (Z.of_nat (length (s ++ [x]) - 1)) with (Zlen (s ++ [x]) - 1) in E by (unfold Zlen; rewrite app_length; cbn; lia).
  rewrite E. exact (gup_go_mono _ _ _ _ _ _ _ _ Hf E).
Qed.

Lemma sl_pop_f_model fuel s : (fuelL Z s <= fuel)%nat -> sl_pop_f cmp fuel s = sl_pop Z cmp s.
Proof.
  intros Hf. unfold sl_pop_f, sl_pop. cbv zeta. destruct (Zlen s =? 0) eqn:E0; [reflexivity|]. destruct (Zlen s =? 1); [reflexivity|].
  destruct (swapM s 0 (Zlen s - 1)) as [s1| |] eqn:Es; try reflexivity. cbn [Heap.bind].
  apply swapL_Zlen in Es. apply Z.eqb_neq in E0. unfold Zlen in *.
  destruct (downL_total s1 0 (length s - 1)) as [r E]; [lia|].
  replace (Z.of_nat (length s - 1)) with (Z.of_nat (length s) - 1) in E by lia. change (Z.of_nat 0) with 0 in E.
  rewrite E. assert (Hf' : (fuelL Z s1 <= fuel)%nat) by (unfold fuelL in *; lia).
  rewrite (gdown_mono _ _ _ _ _ _ _ _ _ Hf' E). reflexivity.
Qed.

Lemma sl_remove_f_model fuel s i : (fuelL Z s <= fuel)%nat -> sl_remove_f cmp fuel s i = sl_remove Z cmp s i.
Proof.
  intros Hf. unfold sl_remove_f, sl_remove. cbv zeta. destruct ((i <? 0) || (i >=? Zlen s)) eqn:Eb; [reflexivity|].
  destruct (negb (Zlen s - 1 =? i)) eqn:En; [|reflexivity].
  destruct (swapM s i (Zlen s - 1)) as [s1| |] eqn:Es; try reflexivity. cbn [Heap.bind].
  apply swapL_Zlen in Es. apply orb_false_iff in Eb. destruct Eb as [E1 E2]. rewrite Z.geb_leb in E2.
  apply Z.ltb_ge in E1. apply Z.leb_gt in E2. apply negb_true_iff, Z.eqb_neq in En. unfold Zlen in *.
  destruct (fixL_total s1 (Z.to_nat i) (length s - 1)) as [r E]; [lia|lia|].
  replace (Z.of_nat (length s - 1)) with (Z.of_nat (length s) - 1) in E by lia. rewrite Z2Nat.id in E by lia.
  rewrite E. assert (Hf' : (fuelL Z s1 <= fuel)%nat) by (unfold fuelL in *; lia).
  rewrite (gfix_mono _ _ _ _ _ _ _ _ _ Hf' E). reflexivity.
Qed.

Lemma sl_fix_f_model fuel s i : (fuelL Z s <= fuel)%nat -> sl_fix_f cmp fuel s i = sl_fix Z cmp s i.
Proof.
  intros Hf. unfold sl_fix_f, sl_fix. destruct ((i <? 0) || (i >=? Zlen s)) eqn:Eb; [reflexivity|].
  apply orb_false_iff in Eb. destruct Eb as [E1 E2]. rewrite Z.geb_leb in E2. apply Z.ltb_ge in E1. apply Z.leb_gt in E2.
  unfold Zlen in *. destruct (fixL_total s (Z.to_nat i) (length s)) as [r E]; [lia|lia|]. rewrite Z2Nat.id in E by lia.
  rewrite E. exact (gfix_mono _ _ _ _ _ _ _ _ _ Hf E).
Qed.
End Suffices.

Theorem code_Push : forall fuel s x, (fuelL Z (Slice_Values s ++ [x]) <= fuel)%nat ->
  g_Slice_Push fuel s x = cv (with_values s) (sl_push Z (Slice_cmp s) (Slice_Values s) x).
Proof. intros. rewrite code_Push_fuel, sl_push_f_model by assumption. reflexivity. Qed.
Theorem code_Pop : forall fuel s, (fuelL Z (Slice_Values s) <= fuel)%nat ->
  g_Slice_Pop fuel s = cv (st_opt s) (sl_pop Z (Slice_cmp s) (Slice_Values s)).
Proof. intros. rewrite code_Pop_fuel, sl_pop_f_model by assumption. reflexivity. Qed.
Theorem code_Remove : forall fuel s i, (fuelL Z (Slice_Values s) <= fuel)%nat ->
  g_Slice_Remove fuel s i = cv (st_opt s) (sl_remove Z (Slice_cmp s) (Slice_Values s) i).
Proof. intros. rewrite code_Remove_fuel, sl_remove_f_model by assumption. reflexivity. Qed.
Theorem code_Fix : forall fuel s i, (fuelL Z (Slice_Values s) <= fuel)%nat ->
  g_Slice_Fix fuel s i = cv (with_values s) (sl_fix Z (Slice_cmp s) (Slice_Values s) i).
Proof. intros. rewrite code_Fix_fuel, sl_fix_f_model by assumption. reflexivity. Qed.

(* ---------------------------------------------------------------- the case interpreter through the generated code *)
Lemma opt_of_res o : opt_of (opt_res o) = o. Proof. destruct o; reflexivity. Qed.
Definition st_obs (r : list Z * lobs Z) : Slice * lobs Z := (gslice (fst r), snd r).

Lemma gpopall_popall : forall fuel vals k acc,
  gpopall fuel (gslice vals) k acc = cv (fun r => (gslice (fst r), snd r)) (popall Z fuel (sl_pop Z ltv) vals k acc).
Proof.
  induction fuel as [|f IH]; intros vals k acc; [reflexivity|]. cbn [gpopall popall].
  rewrite code_Pop by apply le_n. cbn [gslice Slice_Values Slice_cmp].
  destruct (sl_pop Z ltv vals) as [[v' o]| |]; cbn [cv bind Heap.bind st_opt with_values fst snd Slice_cmp]; try reflexivity.
  rewrite opt_of_res. destruct o as [x|]; [|reflexivity]. destruct (k =? 1); [reflexivity|apply IH].
Qed.

Lemma gstep_lstep : forall vals o, gstep (gslice vals) o = cv st_obs (lstep Z ltv false vals o).
Proof.
  intros vals o. unfold st_obs.
  destruct o; cbn [gstep lstep gslice Slice_Values];
    rewrite ?code_Push, ?code_Pop, ?code_Remove, ?code_Fix, ?code_build_model, ?code_Peek, ?code_Len, ?gpopall_popall by apply le_n;
    cbn [gslice Slice_Values Slice_cmp];
    repeat (match goal with
            | |- context [cv _ ?x] =>
                lazymatch x with Ok _ => fail | Heap.Panic => fail | Heap.NoFuel => fail | _ => destruct x as [?| |] end
            end; cbn [cv bind Heap.bind]);
    repeat match goal with p : (_ * _)%type |- _ => destruct p end;
    cbn [cv bind Heap.bind st_opt with_values opt_res fst snd Slice_cmp]; rewrite ?opt_of_res; try reflexivity.
  all: repeat match goal with o : option Z |- _ => destruct o end; reflexivity.
Qed.

Lemma grun_lrun : forall ops vals, grun (gslice vals) ops = cv id (lrun Z ltv false vals ops).
Proof.
  induction ops as [|o t IH]; intros vals; cbn [grun lrun]; [reflexivity|].
  rewrite gstep_lstep. destruct (lstep Z ltv false vals o) as [[v' r]| |]; cbn [cv bind Heap.bind st_obs fst snd]; try reflexivity.
  rewrite IH. destruct (lrun Z ltv false v' t); reflexivity.
Qed.

Lemma gcase_lcase : forall init ops, gcase init ops = cv id (lcase Z ltv false init ops).
Proof.
  intros. unfold gcase, lcase. rewrite code_build_model by apply le_n.
  destruct (buildL Z ltv init) as [v| |]; cbn [cv bind Heap.bind]; unfold id; try reflexivity.
  rewrite grun_lrun. destruct (lrun Z ltv false v ops); reflexivity.
Qed.

(* what the check executes as `entry 0` on a Slice case IS the generated code *)
Theorem entry_code_is_entry : forall sub args, entry_code sub args = entry sub args.
Proof.
  intros sub args. unfold entry_code. destruct (sub =? 0) eqn:Es; [|reflexivity].
  destruct (dec_case args) as [[[|] init ops|ops]|] eqn:Ed; try reflexivity.
  unfold entry. rewrite Ed, Es. apply Z.eqb_eq in Es. subst sub. cbn [Z.eqb]. unfold model.
  rewrite gcase_lcase. destruct (lcase Z ltv false init ops); reflexivity.
Qed.

(* in-kernel anchor: the generated code computes (same case as Run/C04.v anchor_slice) *)
Example anchor_slice_code :
  entry_code 0 [0; 3; 2001; 1002; 3; 0;4;0; 1;0;0; 4;0;0; 8;0;0] =
  [3; 3; 1002; 2001; 4; 3; 4; 2001; 1002; 1; 3; 3; 4; 1002; 2001; 1; 4; 2; 1002; 2001; 2; 1002; 2001; 0].
Proof. vm_compute. reflexivity. Qed.
