(* C20 — the code GENERATED from randz/id.go (ID.Base32, ParseBase32, the init() that builds the decode table),
   randz/count.go (getRand) and the bit-count loop of NewStrGenerator (coq/Gen/RandzCode.v, written by gen/trans.go +
   gen/trans_ext20.go on every run) is equal to the hand-written model of Model/Randz.v, function by function.
   Proof style: the loops are taken out of the generated definitions (never restated), one unfolding step per
   iteration, case analysis on every condition, lia.  The order of the variables in a loop's state tuple depends on
   the form of the loop in the source (index loop / range loop, declaration order), so each loop lemma is stated for a
   packing function pk and the proof tries the possible orders. *)
From Coq Require Import List ZArith Lia Bool Arith.
From V Require Import Lib.Enc Lib.GoSem Proofs.GoSemFacts Gen.Randz Gen.RandzCode Model.Randz Proofs.RandzBase32 Run.C20 Run.C20Code.
Import ListNotations.
Local Open Scope Z_scope.
Arguments Z.mul : simpl never.
Arguments Z.add : simpl never.
Arguments Z.sub : simpl never.
Arguments Z.div : simpl never.
Arguments Z.modulo : simpl never.
Arguments Z.pow : simpl never.
Arguments Z.quot : simpl never.
Arguments Z.rem : simpl never.

(* ------------------------------------------------------------------ generic helpers *)
Ltac zb :=
  repeat match goal with
  | H : (_ =? _) = true |- _ => apply Z.eqb_eq in H
  | H : (_ =? _) = false |- _ => apply Z.eqb_neq in H
  | H : (_ <=? _) = true |- _ => apply Z.leb_le in H
  | H : (_ <=? _) = false |- _ => apply Z.leb_gt in H
  | H : (_ <? _) = true |- _ => apply Z.ltb_lt in H
  | H : (_ <? _) = false |- _ => apply Z.ltb_ge in H
  | H : negb _ = true |- _ => apply negb_true_iff in H
  | H : negb _ = false |- _ => apply negb_false_iff in H
  end.
(* unfold the generated helper functions (a helper extracted in the source later is in the hint database) and the monad *)
Ltac open_code := repeat autounfold with go2v; cbv beta iota zeta delta [bind].
Ltac step_code := cbv beta iota zeta delta [bind].
(* case analysis on the atomic comparisons first (so that a condition and its negation are decided together) *)
Ltac break_if :=
  match goal with
  | |- context [?a =? ?b] => destruct (a =? b) eqn:?
  | |- context [?a <? ?b] => destruct (a <? b) eqn:?
  | |- context [?a <=? ?b] => destruct (a <=? b) eqn:?
  | |- context [if ?c then _ else _] => destruct c eqn:?
  end; cbn [negb andb orb].

(* more fuel never changes a result *)
Lemma while_more {S R} (c : S -> M bool) (b : S -> M (ctl S R)) (p : S -> M S) : forall k f s r,
  while f c b p s = Ret r -> while (f + k) c b p s = Ret r.
Proof.
  induction f as [|f IH]; intros s r; [discriminate|].
  cbn [Nat.add]. rewrite !while_step. destruct (c s) as [x| |]; cbn [bind]; try discriminate.
  destruct x; [|trivial]. destruct (b s) as [y| |]; cbn [bind]; try discriminate.
  destruct y as [s1|s1|r1]; [|trivial|trivial]. destruct (p s1) as [s2| |]; cbn [bind]; try discriminate. apply IH.
Qed.
Lemma while_ge {S R} (c : S -> M bool) (b : S -> M (ctl S R)) (p : S -> M S) f f' s r :
  (f <= f')%nat -> while f c b p s = Ret r -> while f' c b p s = Ret r.
Proof. intros Hle H. replace f' with (f + (f' - f))%nat by lia. apply while_more, H. Qed.

(* one iteration of a loop: inl s' = go on in state s'; inr r = the loop's result *)
Definition iter1 {S R} (c : S -> M bool) (b : S -> M (ctl S R)) (p : S -> M S) (s : S) : M (S + (S + R)) :=
  bind (c s) (fun x =>
    if x then bind (b s) (fun y => match y with
      | Next s1 => bind (p s1) (fun s2 => Ret (inl s2)) | Break s1 => Ret (inr (inl s1)) | Return r => Ret (inr (inr r)) end)
    else Ret (inr (inl s))).
Lemma while_iter {S R} f (c : S -> M bool) (b : S -> M (ctl S R)) (p : S -> M S) s :
  while (Datatypes.S f) c b p s = bind (iter1 c b p s) (fun x => match x with inl s' => while f c b p s' | inr r => Ret r end).
Proof.
  rewrite while_step. unfold iter1. destruct (c s) as [x| |]; cbn [bind]; try reflexivity.
  destruct x; [|reflexivity]. destruct (b s) as [y| |]; cbn [bind]; try reflexivity.
  destruct y as [s1|s1|r1]; try reflexivity. destruct (p s1); reflexivity.
Qed.
(* discharging a one-iteration obligation on concrete generated code *)
Ltac iter_open := cbv beta iota zeta delta [iter1 bind].

Lemma get_at_nth (l : list Z) (k : nat) : (k < length l)%nat -> get_at l (Z.of_nat k) = Some (nth k l 0).
Proof.
  intros H. unfold get_at. destruct (Z.leb_spec 0 (Z.of_nat k)); [|lia]. rewrite Nat2Z.id. apply nth_error_nth'. exact H.
Qed.
Lemma get_at_Z (l : list Z) (i : Z) : 0 <= i < Z.of_nat (length l) -> get_at l i = Some (nth (Z.to_nat i) l 0).
Proof. intros H. rewrite <- (Z2Nat.id i) at 1 by lia. apply get_at_nth. lia. Qed.
Lemma skipn_cons_nth (l : list Z) : forall k, (k < length l)%nat -> skipn k l = nth k l 0 :: skipn (S k) l.
Proof.
  induction l as [|x t IH]; intros k Hk; [cbn in Hk; lia|]. destruct k as [|k]; [reflexivity|].
  cbn [length] in Hk. cbn [skipn nth]. apply IH. lia.
Qed.
Lemma get_at_mid (p r : list Z) a : get_at (p ++ a :: r) (Z.of_nat (length p)) = Some a.
Proof. rewrite get_at_nth by (rewrite app_length; cbn [length]; lia). rewrite app_nth2, Nat.sub_diag by lia. reflexivity. Qed.
Lemma upd_mid (p r : list Z) a v : upd (p ++ a :: r) (length p) v = p ++ v :: r.
Proof. induction p as [|x p IH]; cbn [app length upd]; [reflexivity|]. rewrite IH. reflexivity. Qed.
Lemma set_at_mid (p r : list Z) a v : set_at (p ++ a :: r) (Z.of_nat (length p)) v = Some (p ++ v :: r).
Proof.
  unfold set_at. rewrite app_length. cbn [length].
  destruct (Z.leb_spec 0 (Z.of_nat (length p))); [|lia].
  destruct (Z.ltb_spec (Z.of_nat (length p)) (Z.of_nat (length p + S (length r)))); [|lia].
  cbn [andb]. rewrite Nat2Z.id, upd_mid. reflexivity.
Qed.

(* ------------------------------------------------------------------ constants of the generated file vs Gen/Randz.v *)
Lemma alphabet_same : c_encodeBase32Map = g_base32_alphabet.
Proof. reflexivity. Qed.
Lemma swrap64 x : swrap 64 x = wrap64 x.
Proof. reflexivity. Qed.
Lemma wrap64_add_l a b : wrap64 (wrap64 a + b) = wrap64 (a + b).
Proof.
  unfold wrap64. f_equal.
  set (q := (a + 2 ^ 63) / 2 ^ 64).
  assert (E : (a + 2 ^ 63) mod 2 ^ 64 = a + 2 ^ 63 - 2 ^ 64 * q) by (unfold q; rewrite Z.mod_eq by (vm_compute; discriminate); reflexivity).
  rewrite E. replace (a + 2 ^ 63 - 2 ^ 64 * q - 2 ^ 63 + b + 2 ^ 63) with (a + b + 2 ^ 63 + (- q) * 2 ^ 64) by ring.
  apply Z_mod_plus_full.
Qed.

(* ================================================================== CountGenerator.getRand (randz/count.go) *)
(* n is a uint32 in the code; on negative Z the truncated remainder of the translation and the model's mod differ *)
Theorem code_getRand : forall n mx, 0 <= n -> g_CountGenerator_getRand n mx = lift (get_rand n mx).
Proof.
  intros n mx Hn. open_code. unfold get_rand, m_rem, gorem, lift, wrap, u32.
  destruct (mx =? 0); [reflexivity|].
  destruct (Z.eqb_spec (mx mod 2 ^ 32) 0) as [E|E]; [reflexivity|].
  assert (0 < mx mod 2 ^ 32) by (pose proof (Z.mod_pos_bound mx (2 ^ 32) ltac:(reflexivity)); lia).
  rewrite Z.rem_mod_nonneg by lia. reflexivity.
Qed.

(* ================================================================== init(): the decode table *)
(* the generated init(), run on the zero value of `var decodeBase32Map [256]byte`, yields the model's table
   (no argument besides the fuel: evaluated in the kernel; 256 + 1 and 32 + 1 loop tests are needed) *)
Theorem code_init : g_init_decodeBase32Map 300 g0_decodeBase32Map = Ret decode_table.
Proof. vm_compute. reflexivity. Qed.

(* ================================================================== the bit-count loop of NewStrGenerator (randz/str.go) *)
(* the loop, for any order pk of its two state variables, given what one iteration does *)
Lemma bits_while {St R} (pk : Z -> Z -> St) (c : St -> M bool) (b : St -> M (ctl St R)) (p : St -> M St) :
  (forall bits l, iter1 c b p (pk bits l) = Ret (if l =? 0 then inr (inl (pk bits l)) else inl (pk (bits + 1) (Z.shiftr l 1)))) ->
  forall f l bits, 0 <= l < 2 ^ Z.of_nat f -> while (S f) c b p (pk bits l) = Ret (inl (pk (bits_loop (S f) l bits) 0)).
Proof.
  intros H1. induction f as [|f IH]; intros l bits Hl; rewrite while_iter, H1; cbn [bits_loop].
  - change (2 ^ Z.of_nat 0) with 1 in Hl. assert (l = 0) by lia. subst l. reflexivity.
  - destruct (Z.eqb_spec l 0) as [->|Hne]; cbn [bind]; [reflexivity|].
    apply IH. rewrite Z.shiftr_div_pow2, Z.pow_1_r by lia.
    rewrite Nat2Z.inj_succ, Z.pow_succ_r in Hl by lia.
    split; [apply Z.div_pos; lia | apply Z.div_lt_upper_bound; lia].
Qed.

Ltac bits_shape pk c b p f :=
  lazymatch goal with |- _ = Ret (bits_loop _ ?l ?bits) =>
    let H1 := fresh "H1" in
    assert (H1 : forall bb ll, iter1 c b p (pk bb ll) = Ret (if ll =? 0 then inr (inl (pk bb ll)) else inl (pk (bb + 1) (Z.shiftr ll 1))));
    [ intros; iter_open; repeat break_if; reflexivity
    | let E := fresh "E" in
      pose proof (bits_while pk c b p H1 f l bits ltac:(unfold zlen in *; lia)) as E;
      cbv beta in E; rewrite E; clear E H1; reflexivity ]
  end.

(* the fragment: `var bits int` and the loop (NewStrGenerator itself is not translatable: []rune(charSet), a rand.Source).
   The model's bits_loop returns the count reached when its fuel ends; the generated loop says NoFuel there.  Where the
   fuel suffices (len < 2^f for fuel f + 1: one test per bit of the length plus the final one) they agree. *)
Theorem code_bits_loop : forall f r, zlen r < 2 ^ Z.of_nat f ->
  g_NewStrGenerator_loop1 (S f) r = Ret (bits_loop (S f) (zlen r) 0).
Proof.
  intros f r Hr. open_code.
  match goal with |- match while _ ?c ?b ?p ?s with _ => _ end = _ =>
    first [ solve [bits_shape (fun x y : Z => (x, y)) c b p f] | solve [bits_shape (fun x y : Z => (y, x)) c b p f] ]
  end.
Qed.

(* as new_sgen runs it: the model's loop with fuel 64 *)
Corollary code_bits_loop64 : forall r, zlen r < 2 ^ 63 ->
  g_NewStrGenerator_loop1 64 r = Ret (bits_loop 64 (Z.of_nat (length r)) 0).
Proof. intros r H. apply (code_bits_loop 63). exact H. Qed.

(* ================================================================== ParseBase32 (randz/id.go) *)
(* result conversion: Go returns (id, nil) or (-1, ErrInvalidBase32); the model Some id / None *)
Definition parse_res (r : option Z) : Z * Z := match r with Some v => (v, 0) | None => (-1, err_ErrInvalidBase32) end.

Lemma decode_table_length : length decode_table = 256%nat.
Proof. vm_compute. reflexivity. Qed.
Lemma decode_get c : is_byte c -> m_get decode_table c = Ret (dec_byte c).
Proof. intros H. unfold m_get, dec_byte. rewrite get_at_Z by (rewrite decode_table_length; unfold is_byte in H; lia). reflexivity. Qed.

(* the loop, for any order pk of (index, id), given what one iteration does on an index inside / at the end of bs *)
Lemma parse_while {St} (pk : Z -> Z -> St) (c : St -> M bool) (b : St -> M (ctl St (Z * Z))) (p : St -> M St) (bs : list Z) :
  (forall k id, (k < length bs)%nat ->
     iter1 c b p (pk (Z.of_nat k) id) =
     Ret (match parse_step (Some id) (nth k bs 0) with Some v => inl (pk (Z.of_nat k + 1) v) | None => inr (inr (parse_res None)) end)) ->
  (forall id, iter1 c b p (pk (zlen bs) id) = Ret (inr (inl (pk (zlen bs) id)))) ->
  forall f k id, (k <= length bs)%nat -> (length bs - k < f)%nat ->
    while f c b p (pk (Z.of_nat k) id) =
    Ret (match fold_left parse_step (skipn k bs) (Some id) with Some v => inl (pk (zlen bs) v) | None => inr (parse_res None) end).
Proof.
  intros Hin Hend. induction f as [|f IH]; intros k id Hk Hf; [lia|]. rewrite while_iter.
  destruct (Nat.eq_dec k (length bs)) as [->|Hne].
  - fold (zlen bs). rewrite Hend, skipn_all. reflexivity.
  - assert (Hlt : (k < length bs)%nat) by lia. rewrite (Hin k id Hlt), (skipn_cons_nth bs k Hlt). cbn [fold_left].
    destruct (parse_step (Some id) (nth k bs 0)) as [v|] eqn:Ep; cbn [bind].
    + replace (Z.of_nat k + 1) with (Z.of_nat (S k)) by lia. rewrite IH by lia. reflexivity.
    + rewrite parse_none. reflexivity.
Qed.

Ltac parse_shape pk c b p fuel :=
  lazymatch goal with Hb : Forall is_byte ?bs |- _ =>
    let H1 := fresh "H1" in let H2 := fresh "H2" in
    assert (H1 : forall k id, (k < length bs)%nat ->
              iter1 c b p (pk (Z.of_nat k) id) =
              Ret (match parse_step (Some id) (nth k bs 0) with Some v => inl (pk (Z.of_nat k + 1) v) | None => inr (inr (parse_res None)) end));
    [ let k := fresh "k" in let id := fresh "id" in let Hk := fresh "Hk" in
      intros k id Hk; iter_open;
      assert (Hc : is_byte (nth k bs 0)) by (rewrite Forall_forall in Hb; apply Hb, nth_In, Hk);
      assert (Hg : m_get bs (Z.of_nat k) = Ret (nth k bs 0)) by (unfold m_get; rewrite get_at_nth by exact Hk; reflexivity);
      assert (Hl : (Z.of_nat k <? zlen bs) = true) by (apply Z.ltb_lt; unfold zlen; lia);
      repeat first [ rewrite Hl | rewrite Hg | rewrite (decode_get _ Hc) | progress step_code ];
      unfold parse_step, g_parse_invalid, g_parse_radix; rewrite ?swrap64, ?wrap64_add_l;
      repeat break_if; try reflexivity; zb; try lia; try congruence
    | assert (H2 : forall id, iter1 c b p (pk (zlen bs) id) = Ret (inr (inl (pk (zlen bs) id))));
      [ let id := fresh "id" in intros id; iter_open; rewrite Z.ltb_irrefl; reflexivity
      | let E := fresh "E" in
        pose proof (parse_while pk c b p bs H1 H2 fuel 0%nat 0 ltac:(lia) ltac:(lia)) as E;
        cbv beta in E; change (Z.of_nat 0) with 0 in E; rewrite E; clear E H1 H2;
        cbn [skipn]; unfold parse_base32; destruct (fold_left parse_step bs (Some 0)); reflexivity ] ]
  end.

(* for every fuel above the length of the input: the generated function, run on the table the generated init() builds,
   is the model's parse_base32 (bytes, as in every theorem about the model) *)
Theorem code_ParseBase32 : forall fuel bs, Forall is_byte bs -> (length bs < fuel)%nat ->
  g_ParseBase32 fuel decode_table bs = Ret (parse_res (parse_base32 bs)).
Proof.
  intros fuel bs Hb Hf. open_code.
  match goal with |- match while _ ?c ?b ?p ?s with _ => _ end = _ =>
    first [ solve [parse_shape (fun i id : Z => (i, id)) c b p fuel] | solve [parse_shape (fun i id : Z => (id, i)) c b p fuel] ]
  end.
Qed.

(* ================================================================== ID.Base32 (randz/id.go) *)
Lemma alphabet_length : length c_encodeBase32Map = 32%nat.
Proof. reflexivity. Qed.
Lemma alpha_get d : 0 <= d < 32 -> m_get c_encodeBase32Map d = Ret (alpha d).
Proof. intros H. unfold m_get, alpha. rewrite get_at_Z by (rewrite alphabet_length; lia). reflexivity. Qed.
Lemma alpha_ascii d : 0 <= d < 32 -> str_of_byte (alpha d) = [alpha d].
Proof.
  intros H. assert (A : forallb (fun c => c <? 128) g_base32_alphabet = true) by (vm_compute; reflexivity).
  rewrite forallb_forall in A. unfold str_of_byte, alpha. rewrite A; [reflexivity|]. apply nth_In. change (length g_base32_alphabet) with 32%nat. lia.
Qed.

(* first loop: the digits, least significant first, appended to acc; for any order pk of (f, b) *)
Lemma digits_while {St R} (pk : Z -> list Z -> St) (c : St -> M bool) (b : St -> M (ctl St R)) (p : St -> M St) :
  (forall f acc, 0 <= f ->
     iter1 c b p (pk f acc) = Ret (if f <? 32 then inr (inl (pk f acc)) else inl (pk (f / 32) (acc ++ [alpha (f mod 32)])))) ->
  forall n f acc, 0 <= f < 32 ^ Z.of_nat (S n) ->
    while (S n) c b p (pk f acc) =
    Ret (inl (pk (last (digits_le n 32 f) 0) (acc ++ map alpha (removelast (digits_le n 32 f))))).
Proof.
  intros H1. induction n as [|n IH]; intros f acc Hf; rewrite while_iter, H1 by lia; cbn [digits_le].
  - change (32 ^ Z.of_nat 1) with 32 in Hf. destruct (Z.ltb_spec f 32); [|lia]. cbn [bind last removelast map]. rewrite app_nil_r. reflexivity.
  - destruct (Z.ltb_spec f 32); cbn [bind].
    + cbn [last removelast map]. rewrite app_nil_r. reflexivity.
    + assert (Hq : 0 <= f / 32 < 32 ^ Z.of_nat (S n)).
      { rewrite (Nat2Z.inj_succ (S n)), Z.pow_succ_r in Hf by lia. split; [apply Z.div_pos; lia|apply Z.div_lt_upper_bound; lia]. }
      rewrite (IH _ _ Hq).
      assert (Hne : digits_le n 32 (f / 32) <> []) by (destruct n; cbn [digits_le]; [|destruct (f / 32 <? 32)]; discriminate).
      destruct (digits_le n 32 (f / 32)) as [|d ds] eqn:Ed; [congruence|].
      cbn [last removelast map]. rewrite <- app_assoc. reflexivity.
Qed.

Lemma list_ends {A} (m : list A) : m = [] \/ (exists a, m = [a]) \/ exists a m' z, m = a :: m' ++ [z].
Proof.
  destruct m as [|a m]; [left; reflexivity|right].
  destruct (exists_last (l := a :: m)) as (m0 & z & E); [discriminate|].
  destruct m0 as [|a0 m0]; cbn [app] in E.
  - left. exists z. exact E.
  - right. injection E as -> ->. exists a0, m0, z. reflexivity.
Qed.

(* second loop: reversal in place of the part m between x and y; for any order pk of (b, x, y) *)
Lemma swap_while {St R} (pk : list Z -> Z -> Z -> St) (c : St -> M bool) (b : St -> M (ctl St R)) (p : St -> M St) :
  (forall pre a m z q,
     iter1 c b p (pk (pre ++ a :: m ++ z :: q) (Z.of_nat (length pre)) (Z.of_nat (length pre + S (length m)))) =
     Ret (inl (pk (pre ++ z :: m ++ a :: q) (Z.of_nat (length pre) + 1) (Z.of_nat (length pre + S (length m)) - 1)))) ->
  (forall l x y, y <= x -> iter1 c b p (pk l x y) = Ret (inr (inl (pk l x y)))) ->
  forall f pre m q, (length m < 2 * f)%nat ->
    exists x y, while f c b p (pk (pre ++ m ++ q) (Z.of_nat (length pre)) (Z.of_nat (length pre + length m) - 1)) =
                Ret (inl (pk (pre ++ rev m ++ q) x y)).
Proof.
  intros Hs He. induction f as [|f IH]; intros pre m q Hf; [lia|]. rewrite while_iter.
  destruct (list_ends m) as [->|[[a ->]|(a & m' & z & ->)]].
  - rewrite He by (cbn [length]; lia). cbn [bind rev]. eauto.
  - rewrite He by (cbn [length]; lia). cbn [bind rev app]. eauto.
  - cbn [length] in Hf. rewrite app_length in Hf. cbn [length] in Hf.
    replace (Z.of_nat (length pre + length (a :: m' ++ [z])) - 1) with (Z.of_nat (length pre + S (length m')))
      by (cbn [length]; rewrite app_length; cbn [length]; lia).
    replace (pre ++ (a :: m' ++ [z]) ++ q) with (pre ++ a :: m' ++ z :: q) by (cbn [app]; rewrite <- app_assoc; reflexivity).
    rewrite Hs. cbn [bind].
    destruct (IH (pre ++ [z]) m' (a :: q) ltac:(lia)) as (x & y & E).
    exists x, y.
    replace (pre ++ z :: m' ++ a :: q) with ((pre ++ [z]) ++ m' ++ a :: q) by (rewrite <- app_assoc; reflexivity).
    replace (Z.of_nat (length pre) + 1) with (Z.of_nat (length (pre ++ [z]))) by (rewrite app_length; cbn [length]; lia).
    replace (Z.of_nat (length pre + S (length m')) - 1) with (Z.of_nat (length (pre ++ [z]) + length m') - 1)
      by (rewrite app_length; cbn [length]; lia).
    rewrite E. do 3 f_equal.
    cbn [rev]. rewrite rev_app_distr. cbn [rev app]. rewrite <- !app_assoc. reflexivity.
Qed.

Lemma get1 pre a (m q : list Z) : m_get (pre ++ a :: m ++ q) (Z.of_nat (length pre)) = Ret a.
Proof. unfold m_get. rewrite get_at_mid. reflexivity. Qed.
Lemma set1 pre a (m q : list Z) v : m_set (pre ++ a :: m ++ q) (Z.of_nat (length pre)) v = Ret (pre ++ v :: m ++ q).
Proof. unfold m_set. rewrite set_at_mid. reflexivity. Qed.
Lemma get2 pre a (m : list Z) z q : m_get (pre ++ a :: m ++ z :: q) (Z.of_nat (length pre + S (length m))) = Ret z.
Proof.
  replace (pre ++ a :: m ++ z :: q) with ((pre ++ a :: m) ++ z :: q) by (rewrite <- app_assoc; reflexivity).
  replace (length pre + S (length m))%nat with (length (pre ++ a :: m)) by (rewrite app_length; reflexivity).
  unfold m_get. rewrite get_at_mid. reflexivity.
Qed.
Lemma set2 pre a (m : list Z) z q v :
  m_set (pre ++ a :: m ++ z :: q) (Z.of_nat (length pre + S (length m))) v = Ret (pre ++ a :: m ++ v :: q).
Proof.
  replace (pre ++ a :: m ++ z :: q) with ((pre ++ a :: m) ++ z :: q) by (rewrite <- app_assoc; reflexivity).
  replace (length pre + S (length m))%nat with (length (pre ++ a :: m)) by (rewrite app_length; reflexivity).
  unfold m_set. rewrite set_at_mid, <- app_assoc. reflexivity.
Qed.
Lemma m_make_cap_0 c : 0 <= c -> m_make_cap 0 c = Ret [].
Proof. intros H. unfold m_make_cap. destruct (Z.ltb_spec c 0); [lia|]. reflexivity. Qed.
Lemma m_make_0 : m_make 0 = Ret [].
Proof. reflexivity. Qed.
Lemma digits_le_length base : forall n f, (1 <= length (digits_le n base f) <= S n)%nat.
Proof. induction n as [|n IH]; intros f; cbn [digits_le]; [cbn; lia|]. destruct (f <? base); cbn [length]; [lia|]. specialize (IH (f / base)). lia. Qed.
Lemma map_alpha_ends ds : ds <> [] -> map alpha (removelast ds) ++ [alpha (last ds 0)] = map alpha ds.
Proof. intros H. rewrite (app_removelast_last 0 H) at 3. rewrite map_app. reflexivity. Qed.

(* the first loop of the generated function, with the fuel of the caller *)
Ltac digits_shape pk c b p s f fuel :=
  let Hi := fresh "Hi" in
  assert (Hi : forall f acc, 0 <= f ->
     iter1 c b p (pk f acc) = Ret (if f <? 32 then inr (inl (pk f acc)) else inl (pk (f / 32) (acc ++ [alpha (f mod 32)]))));
  [ intros; iter_open;
    repeat first [ rewrite Z.rem_mod_nonneg by lia | rewrite Z.quot_div_nonneg by lia
                 | rewrite alpha_get by (apply Z.mod_pos_bound; lia) | progress step_code ];
    repeat break_if; try reflexivity; zb; lia
  | let E := fresh "E" in
    pose proof (while_ge c b p 14 fuel (pk f []) _ ltac:(lia) (digits_while pk c b p Hi 13 f [] ltac:(change (32 ^ Z.of_nat 14) with (2 ^ 70); lia))) as E;
    cbv beta in E; rewrite E; clear E Hi ].

Ltac swap_shape pk c b p s fuel :=
  lazymatch goal with |- context [while fuel c b p (?B0, _, _)] =>
  let Hs := fresh "Hs" in let He := fresh "He" in
  assert (Hs : forall pre a m z q,
     iter1 c b p (pk (pre ++ a :: m ++ z :: q) (Z.of_nat (length pre)) (Z.of_nat (length pre + S (length m)))) =
     Ret (inl (pk (pre ++ z :: m ++ a :: q) (Z.of_nat (length pre) + 1) (Z.of_nat (length pre + S (length m)) - 1))));
  [ let pre := fresh "pre" in let a := fresh "a" in let m := fresh "m" in let z := fresh "z" in let q := fresh "q" in
    intros pre a m z q; iter_open;
    let Hlt := fresh "Hlt" in
    assert (Hlt : (Z.of_nat (length pre) <? Z.of_nat (length pre + S (length m))) = true) by (apply Z.ltb_lt; lia);
    rewrite Hlt;
    repeat first [ rewrite get2 | rewrite get1 | rewrite set2 | rewrite set1 | progress step_code ]; reflexivity
  | assert (He : forall l x y, y <= x -> iter1 c b p (pk l x y) = Ret (inr (inl (pk l x y))));
    [ let l := fresh "l" in let x := fresh "x" in let y := fresh "y" in let H := fresh "H" in
      intros l x y H; iter_open; destruct (Z.ltb_spec x y); [lia|reflexivity]
    | let x := fresh "x" in let y := fresh "y" in let E := fresh "E" in
      destruct (swap_while pk c b p Hs He fuel [] B0 []) as (x & y & E);
      [ | cbn [app length Nat.add] in E; rewrite !app_nil_r in E;
          change (Z.of_nat 0) with 0 in E; fold (zlen B0) in E; cbv beta in E; rewrite E; clear E Hs He ] ] ]
  end.

(* for every fuel from 14 on and every id below 2^63 (negative ones included: both sides panic); the model itself runs its
   digit loop with fuel 13, which covers exactly the ids below 32^14 *)
Theorem code_Base32 : forall fuel f, f < 2 ^ 63 -> (14 <= fuel)%nat -> g_ID_Base32 fuel f = lift (base32 f).
Proof.
  intros fuel f Hf Hfuel. open_code. unfold base32, g_format_radix.
  rewrite ?m_make_cap_0 by lia. rewrite ?m_make_0. step_code.
  destruct (Z.ltb_spec f 0) as [Hneg|Hpos].
  { repeat break_if; zb; try lia. unfold m_get, get_at. destruct (Z.leb_spec 0 f); [lia|]. reflexivity. }
  destruct (Z.ltb_spec f 32) as [Hs|Hb]; cbn [negb].
  { rewrite alpha_get by lia. step_code. rewrite alpha_ascii by lia.
    cbn [digits_le]. destruct (Z.ltb_spec f 32); [|lia]. reflexivity. }
  (* 32 <= f: the two loops *)
  pose proof (digits_value 32 ltac:(lia) 13 f ltac:(change (32 ^ Z.of_nat 14) with (2 ^ 70); lia)) as (_ & Hd & _ & _ & Hlen).
  pose proof (digits_le_length 32 13 f) as Hl13.
  set (ds := digits_le 13 32 f) in *.
  assert (Hne : ds <> []) by (intros E; rewrite E in Hl13; cbn in Hl13; lia).
  assert (Hlast : 0 <= last ds 0 < 32).
  { rewrite Forall_forall in Hd. apply Hd. rewrite (app_removelast_last 0 Hne) at 2. apply in_or_app. right. left. reflexivity. }
  match goal with |- context [while fuel ?c ?b ?p ?s] =>
    first [ digits_shape (fun (x : Z) (y : list Z) => (x, y)) c b p s f fuel
          | digits_shape (fun (x : Z) (y : list Z) => (y, x)) c b p s f fuel ]
  end.
  fold ds. cbv beta iota. rewrite alpha_get by exact Hlast. step_code.
  cbn [app]. rewrite (map_alpha_ends ds Hne).
  match goal with |- context [while fuel ?c ?b ?p ?s] =>
    first [ swap_shape (fun (l : list Z) (x y : Z) => (l, x, y)) c b p s fuel
          | swap_shape (fun (l : list Z) (x y : Z) => (l, y, x)) c b p s fuel ]
  end.
  { rewrite map_length. lia. }
  cbv beta iota. rewrite map_rev. reflexivity.
Qed.

(* ================================================================== the case interpreter through the generated code *)
Lemma is_byteb_Forall s : forallb is_byteb s = true -> Forall is_byte s.
Proof.
  intros H. rewrite forallb_forall in H. apply Forall_forall. intros c Hc. specialize (H c Hc).
  unfold is_byteb in H. apply andb_true_iff in H. destruct H as [H1 H2]. zb. unfold is_byte. lia.
Qed.
Lemma g_parse_tokens_model s : forallb is_byteb s = true -> g_parse_tokens s = Ret (parse_out (parse_base32 s)).
Proof.
  intros H. unfold g_parse_tokens, g_table. rewrite code_init. cbn [bind].
  rewrite code_ParseBase32 by (auto using is_byteb_Forall). cbn [bind].
  destruct (parse_base32 s); reflexivity.
Qed.

(* what the check executes as `entry 0` IS the generated code (kinds 0 and 1) *)
Theorem entry_code_is_entry : forall sub args, entry_code sub args = entry sub args.
Proof.
  intros sub args. unfold entry_code. destruct (sub =? 0) eqn:Es; [|reflexivity].
  unfold entry. rewrite Es. unfold model. destruct (decode args) as [s|id| | | |]; try reflexivity.
  - destruct (forallb is_byteb s) eqn:Eb; [|reflexivity].
    rewrite g_parse_tokens_model by exact Eb. reflexivity.
  - destruct (Z.ltb_spec id (2 ^ 63)) as [Hid|Hid]; [|reflexivity].
    unfold g_format_tokens. rewrite code_Base32 by (auto; lia). cbn [run_case]. unfold m_format.
    destruct (base32 id) as [b|]; [|reflexivity]. cbn [lift bind].
    destruct (forallb is_byteb b) eqn:Eb; [rewrite g_parse_tokens_model by exact Eb|]; reflexivity.
Qed.

(* in-kernel anchors: the generated code computes (same cases as the anchors of Run/C20.v) *)
Example anchor_parse_code : entry_code 0 [0; 122; 122] = [0; 0; 1023].
Proof. vm_compute. reflexivity. Qed.
Example anchor_parse_bad_code : entry_code 0 [0; 33] = [1; -1; 4294967295].
Proof. vm_compute. reflexivity. Qed.
Example anchor_format_code : entry_code 0 [1; 0; 1023] =
  [2; 122; 122; 0; 0; 1023; 10; 49;49;49;49;49;49;49;49;49;49; 2; 115; 102; 4; 49; 48; 50; 51].
Proof. vm_compute. reflexivity. Qed.
