(* C01: poppers' progress — the mirror image of pushers_progress. Starting from a quiescent ring that is not
   empty, in any run of poppers only in which some Pop has returned and everybody is done, some Pop succeeded. *)
From Coq Require Import List ZArith Lia Bool Arith.
Import ListNotations.
From V Require Import Model.SyncRingConc Proofs.SyncRingConc.
Local Open Scope Z_scope.

Definition phaseA_pop (c0 c : config) : Prop :=
  sh c = sh c0 /\ hist c = hist c0 /\
  Forall (fun p => p = Idle \/ p = PoLoadHead \/ p = PoLoadSeq (u32 (hd (sh c0))) (hd (sh c0)) \/
                   p = PoCas (u32 (hd (sh c0))) (u32 (hd (sh c0) + 1)) (hd (sh c0))) (ths c).
Definition phaseB_pop (c : config) : Prop :=
  (exists j pos seq H0 gv val, nth_error (ths c) j = Some (PoRead pos seq H0 gv) \/
                               nth_error (ths c) j = Some (PoClear pos seq H0 gv val) \/
                               nth_error (ths c) j = Some (PoRelease pos seq H0 gv val)) \/
  (exists j v g, In (j, RPop v (Some g)) (hist c)).

Lemma pop_progress_step k c0 c e c' :
  Inv k c0 -> Forall (fun p => p = Idle) (ths c0) -> q (sh c0) <> [] ->
  snd e = OpPop -> step c e = Some c' ->
  (phaseA_pop c0 c -> phaseA_pop c0 c' \/ phaseB_pop c') /\ (phaseB_pop c -> phaseB_pop c').
Proof.
  intros HI0 Hidle Hne Hop Hs. destruct e as [i o]. cbn [snd] in Hop. subst o. unfold step in Hs.
  destruct (nth_error (ths c) i) as [p|] eqn:Hi; [|inversion Hs; subst; tauto].
  destruct (tstep (sh c) p OpPop) as [[[s' p'] r]|] eqn:Et; [|discriminate]. inversion Hs; subst c'; clear Hs.
  split.
  - intros (Hsh & Hh & Hall). pose proof HI0 as [HG0 _ _ _ _].
    assert (Hp : p = Idle \/ p = PoLoadHead \/ p = PoLoadSeq (u32 (hd (sh c0))) (hd (sh c0)) \/
                 p = PoCas (u32 (hd (sh c0))) (u32 (hd (sh c0) + 1)) (hd (sh c0)))
      by (rewrite Forall_forall in Hall; apply Hall; eapply nth_error_In; eauto).
    destruct Hp as [->|[->|[->| ->]]]; cbn [tstep] in Et.
    + inversion Et; subst. left. repeat split; cbn [sh hist ths]; auto. apply Forall_upd; auto.
    + inversion Et; subst. left. repeat split; cbn [sh hist ths]; auto. apply Forall_upd; auto. rewrite Hsh. auto.
    + rewrite Hsh in Et. destruct (slot_exists k (sh c0) (u32 (hd (sh c0))) HG0) as [[xv xs] Hx]. rewrite Hx in Et.
      assert (Hxs : xs = u32 (hd (sh c0) + 1)).
      { apply (proj2 (solo_pop_check k (sh c0) HG0 (quiescent_unowned k c0 HI0 Hidle) (xv, xs)
                       ltac:(unfold slot_at; rewrite <- (sidx_u32 k _ _ HG0); exact Hx)) Hne). }
      subst xs. rewrite u32_succ, Z.eqb_refl in Et. inversion Et; subst. left. repeat split; cbn [sh hist ths]; auto.
      apply Forall_upd; auto.
    + rewrite Hsh, Z.eqb_refl in Et. inversion Et; subst. right. left. exists i. do 4 eexists. exists None. left.
      cbn [ths]. apply nth_error_upd_eq. apply nth_error_Some. congruence.
  - intros [(j & pos & seq & H0 & gv & val & Hj)|(j & v & g & Hj)].
    + destruct (Nat.eq_dec j i) as [->|Hneq].
      * rewrite Hi in Hj. destruct Hj as [Hj|[Hj|Hj]]; inversion Hj; subst p; cbn [tstep] in Et.
        -- destruct (nth_error (slots (sh c)) (sidx (sh c) pos)) as [[? ?]|]; [|discriminate]. inversion Et; subst.
           left. exists i. do 5 eexists. right. left. cbn [ths]. apply nth_error_upd_eq. apply nth_error_Some. congruence.
        -- destruct (nth_error (slots (sh c)) (sidx (sh c) pos)) as [[? ?]|]; [|discriminate]. inversion Et; subst.
           left. exists i. do 5 eexists. right. right. cbn [ths]. apply nth_error_upd_eq. apply nth_error_Some. congruence.
        -- destruct (nth_error (slots (sh c)) (sidx (sh c) pos)) as [[? ?]|]; [|discriminate]. inversion Et; subst.
           right. exists i. do 2 eexists. cbn [hist]. apply in_app_iff. right. left. reflexivity.
      * left. exists j, pos, seq, H0, gv, val. cbn [ths]. rewrite !nth_error_upd_ne by auto. exact Hj.
    + right. exists j, v, g. cbn [hist]. destruct r; [apply in_app_iff; left; exact Hj|exact Hj].
Qed.

Theorem poppers_progress k c0 : Inv k c0 -> Forall (fun p => p = Idle) (ths c0) -> q (sh c0) <> [] ->
  forall sched c, only_pop sched -> run c0 sched = Some c ->
  hist c <> hist c0 -> Forall (fun p => p = Idle) (ths c) ->
  exists j v g, In (j, RPop v (Some g)) (hist c).
Proof.
  intros HI0 Hidle Hne sched c Honly Hrun Hdone Hquiet.
  assert (G : forall sched c1 c2, only_pop sched -> run c1 sched = Some c2 ->
              (phaseA_pop c0 c1 -> phaseA_pop c0 c2 \/ phaseB_pop c2) /\ (phaseB_pop c1 -> phaseB_pop c2)).
  { induction sched0 as [|e t IH]; intros c1 c2 Ho Hr; cbn [run] in Hr.
    - inversion Hr; subst. tauto.
    - inversion Ho as [|? ? He Ht]; subst. destruct (step c1 e) as [cm|] eqn:Es; [|discriminate].
      destruct (pop_progress_step k c0 c1 e cm HI0 Hidle Hne He Es) as [SA SB].
      destruct (IH cm c2 Ht Hr) as [IA IB]. split.
      + intros HA. destruct (SA HA) as [HA'|HB']; [apply IA; auto|right; apply IB; auto].
      + intros HB. apply IB, SB, HB. }
  destruct (G sched c0 c Honly Hrun) as [GA _].
  assert (HA0 : phaseA_pop c0 c0).
  { repeat split; auto. eapply Forall_impl; [|exact Hidle]. cbn beta. intros p ->. left; reflexivity. }
  destruct (GA HA0) as [(Hsh & Hh & _)|HB]; [congruence|].
  destruct HB as [(j & pos & seq & H0 & gv & val & Hj)|HB]; [|exact HB].
  exfalso. rewrite Forall_forall in Hquiet.
  destruct Hj as [Hj|[Hj|Hj]]; apply nth_error_In in Hj; apply Hquiet in Hj; discriminate.
Qed.
