(* C17: the case interpreter run through the generated code (Run/C17Code.v) gives the output of Run/C17.v `entry`. *)
From Coq Require Import List ZArith Lia Bool.
From V Require Import Lib.Enc Lib.Utf8 Model.Strs Run.C17 Proofs.StrsBasic.
From V Require Import Lib.GoSem Gen.StrsCode Run.C17Code Proofs.StrsCode.
Import ListNotations.
Local Open Scope Z_scope.

Lemma enc_m_to_M r : enc_m (to_M r) = enc_res r.
Proof. destruct r; reflexivity. Qed.

Lemma sub_no_wrapb_ok st ln : sub_no_wrapb st ln = true -> sub_no_wrap st ln.
Proof. unfold sub_no_wrapb, sub_no_wrap. apply Z.eqb_eq. Qed.

Lemma mask_no_wrapb_ok s st en : mask_no_wrapb s st en = true -> mask_no_wrap s st en.
Proof.
  unfold mask_no_wrapb, mask_no_wrap. cbv zeta. intros H H1 H2.
  apply orb_true_iff in H. destruct H as [H|H].
  - apply orb_true_iff in H. destruct H as [H|H]; apply Z.ltb_lt in H; lia.
  - apply andb_true_iff in H. destruct H as [H H3]. apply andb_true_iff in H. destruct H as [H4 H5].
    apply Z.eqb_eq in H3, H4, H5. auto.
Qed.

Theorem run_code_is_run_model op r : run_code op r = run_model op r.
Proof.
  unfold run_code, run_model. destruct (get_list r) as [s r1] eqn:Eg.
  destruct (Z.eqb_spec op 0) as [->|N0].
  { destruct (get_list r1) as [m r2]. destruct (get_int r2) as [st r3]. destruct (get_int r3) as [en r4].
    destruct (mask_no_wrapb s st en) eqn:E.
    - rewrite code_Mask by (apply mask_no_wrapb_ok; exact E). apply enc_m_to_M.
    - reflexivity. }
  destruct (Z.eqb_spec op 1) as [->|N1].
  { destruct (get_int r1) as [st r2]. destruct (get_int r2) as [ln r3].
    destruct (sub_no_wrapb st ln) eqn:E.
    - rewrite code_Sub by (apply sub_no_wrapb_ok; exact E). apply enc_m_to_M.
    - reflexivity. }
  destruct (Z.eqb_spec op 2) as [->|N2]. { destruct (get_int r1) as [lim r2]. rewrite code_SubByDisplay. apply enc_m_to_M. }
  destruct (Z.eqb_spec op 3) as [->|N3]. { rewrite code_Rev. reflexivity. }
  destruct (Z.eqb_spec op 4) as [->|N4]. { rewrite code_Len. reflexivity. }
  destruct (Z.eqb_spec op 8) as [->|N8]. { rewrite code_UcFirst. reflexivity. }
  destruct (Z.eqb_spec op 9) as [->|N9]. { rewrite code_LcFirst. reflexivity. }
  replace (op =? 0) with false by (symmetry; apply Z.eqb_neq; exact N0).
  replace (op =? 1) with false by (symmetry; apply Z.eqb_neq; exact N1).
  replace (op =? 2) with false by (symmetry; apply Z.eqb_neq; exact N2).
  replace (op =? 3) with false by (symmetry; apply Z.eqb_neq; exact N3).
  replace (op =? 4) with false by (symmetry; apply Z.eqb_neq; exact N4).
  replace (op =? 8) with false by (symmetry; apply Z.eqb_neq; exact N8).
  replace (op =? 9) with false by (symmetry; apply Z.eqb_neq; exact N9).
  reflexivity.
Qed.

Theorem entry_code_is_entry sub args : entry_code sub args = entry sub args.
Proof.
  unfold entry_code. destruct (sub =? 0) eqn:E0; [|reflexivity]. apply Z.eqb_eq in E0. subst sub.
  destruct args as [|op r]; [reflexivity|]. unfold entry. cbn [Z.eqb]. apply run_code_is_run_model.
Qed.
