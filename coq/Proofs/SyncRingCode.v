(* C10 — the code GENERATED from ringz/sync.go (coq/Gen/SyncRingCode.v, by gen/trans*.go on every run, sequential
   reading of sync/atomic) is equal to the hand-written sequential model of Model/SyncRingSeq.v, function by function. *)
From Coq Require Import List ZArith Lia Bool Arith.
From V Require Import Lib.GoSem Lib.GoSemRec Proofs.GoSemFacts Proofs.GoSemRecFacts Gen.Ringz Gen.RingCode Gen.SyncRingCode
  Model.RingSeq Model.SyncRingSeq Proofs.SyncRingCap Proofs.RingCode Run.C10SyncCode.
Import ListNotations.
Local Open Scope Z_scope.

(* ---- the explicit, total conversions between the generated Records and the model's types: to_slot / of_slot, to_sring /
   of_sring (defined in Run/C10SyncCode.v, which needs them for the counter injection and the Dump) are bijections *)
Lemma of_to_slot e : of_slot (to_slot e) = e. Proof. destruct e; reflexivity. Qed.
Lemma to_of_slot p : to_slot (of_slot p) = p. Proof. destruct p; reflexivity. Qed.
Lemma map_of_to l : map of_slot (map to_slot l) = l.
Proof. rewrite map_map. rewrite <- (map_id l) at 2. apply map_ext. exact of_to_slot. Qed.
Lemma map_to_of l : map to_slot (map of_slot l) = l.
Proof. rewrite map_map. rewrite <- (map_id l) at 2. apply map_ext. exact to_of_slot. Qed.
Lemma of_to_sring r : of_sring (to_sring r) = r.
Proof. destruct r; unfold of_sring, to_sring; cbn. now rewrite map_of_to. Qed.
Lemma to_of_sring r : to_sring (of_sring r) = r.
Proof. destruct r; unfold of_sring, to_sring; cbn. now rewrite map_to_of. Qed.

Lemma supd_updA l i x : supd l i x = updA l i x.
Proof. revert i; induction l as [|h t IH]; intros [|i]; cbn [supd updA]; try reflexivity. now rewrite IH. Qed.
Lemma of_supd_to l i x : map of_slot (supd (map to_slot l) i x) = updA l i (of_slot x).
Proof. rewrite supd_updA, map_updA, map_of_to. reflexivity. Qed.

(* result conversions: the state goes back through of_sring; Go returns (value, ok), the model (ok, value) *)
Definition sst_res {A} (p : sring * A) : SyncRing * A := (of_sring (fst p), snd p).
Definition sst_swap_res (p : sring * (bool * Z)) : SyncRing * (Z * bool) := (of_sring (fst p), (snd (snd p), fst (snd p))).

Ltac unfold_sync :=
  repeat autounfold with go2v;
  cbv beta iota zeta delta [g_SyncRing_IsEmpty g_SyncRing_IsFull g_SyncRing_Len g_SyncRing_Cap g_SyncRing_Push g_SyncRing_Pop
    set_SyncRing_values set_SyncRing_cap set_SyncRing_mask set_SyncRing_head set_SyncRing_tail
    SyncRing_values SyncRing_cap SyncRing_mask SyncRing_head SyncRing_tail zero_SyncRing
    set_item_value set_item_pos item_value item_pos zero_item
    to_sring of_sring sst_res sst_swap_res fst snd slots shead stail scap smask
    bind mmap lift m_getA m_setA get_atA set_atA zlenA wrap
    spush spop slot_at sis_empty sis_full slen u32 M32].

(* list bookkeeping after unfolding: reads of a slot that was just written, lengths, the model's list under the conversion *)
Ltac slot_facts :=
  repeat match goal with
  | H : nth_error ?l ?i = Some _ |- _ =>
      lazymatch goal with
      | _ : (i < length l)%nat |- _ => fail
      | _ => pose proof (nth_error_lt _ _ _ H)
      end
  | H : nth_error ?l ?i = None |- _ =>
      lazymatch goal with
      | _ : (length l <= i)%nat |- _ => fail
      | _ => pose proof (nth_error_ge _ _ H)
      end
  end.
Ltac sync_rw :=
  repeat first
  [ rewrite nth_error_map
  | rewrite updA_length
  | rewrite updA_updA
  | rewrite of_supd_to
  | rewrite map_of_to
  | rewrite nth_error_updA_eq by (slot_facts; lia)
  | progress cbn [option_map to_slot of_slot item_value item_pos fst snd] ].
(* one case split: a slot read (the element is split into its fields), or a condition *)
Ltac sync_break :=
  match goal with
  | |- context [nth_error ?l ?i] =>
      lazymatch l with updA _ _ _ => fail | map _ _ => fail | _ => idtac end;
      let e := fresh "e" in destruct (nth_error l i) as [e|] eqn:?; [destruct e|]
  | |- context [if ?c then _ else _] => destruct c eqn:?
  | |- context [match ?x with (_, _) => _ end] => destruct x eqn:?
  end.
Ltac inj_some := repeat match goal with H : Some _ = Some _ |- _ => inversion H; subst; clear H end.
Ltac sync_finish := sync_rw; inj_some; finish; try (slot_facts; exfalso; lia); try (repeat f_equal; lia).
Ltac sync_crush := intros; unfold_sync; sync_rw; repeat (sync_break; cbv beta iota; sync_rw); sync_finish.

Theorem code_SyncIsEmpty : forall r, g_SyncRing_IsEmpty r = Ret (sis_empty (to_sring r)).
Proof. destruct r; sync_crush. Qed.
Theorem code_SyncIsFull : forall r, g_SyncRing_IsFull r = Ret (sis_full (to_sring r)).
Proof. destruct r; sync_crush. Qed.
Theorem code_SyncLen : forall r, g_SyncRing_Len r = Ret (slen (to_sring r)).
Proof. destruct r; sync_crush. Qed.
Theorem code_SyncCap : forall r, g_SyncRing_Cap r = Ret (scap (to_sring r)).
Proof. destruct r; sync_crush. Qed.

Theorem code_SyncPush : forall r v, 0 <= SyncRing_mask r ->
  g_SyncRing_Push r v = mmap sst_res (lift (spush (to_sring r) v)).
Proof.
  destruct r as [vals cp mask hd tl]; intros v Hm; cbn [SyncRing_mask] in Hm.
  assert (Hi : 0 <= Z.land tl mask) by (apply Z.land_nonneg; auto).
  sync_crush.
Qed.

Theorem code_SyncPop : forall r, 0 <= SyncRing_mask r ->
  g_SyncRing_Pop r = mmap sst_swap_res (lift (spop (to_sring r))).
Proof.
  destruct r as [vals cp mask hd tl]; intros Hm; cbn [SyncRing_mask] in Hm.
  assert (Hi : 0 <= Z.land hd mask) by (apply Z.land_nonneg; auto).
  sync_crush.
Qed.

(* ---------------------------------------------------------------- PushWait / PopWait up to their ticker loops *)
(* a loop whose body fails and leaves the state as it was never ends: from ONE goroutine, PushWait(v, -1) on a full ring
   and PopWait(-1) on an empty ring spin for ever; in the translation that is NoFuel for every fuel *)
Lemma while_stuck {S R} (c : S -> M bool) (b : S -> M (ctl S R)) (p : S -> M S) (s : S) :
  c s = Ret true -> b s = Ret (Next s) -> p s = Ret s -> forall fuel, while fuel c b p s = NoFuel.
Proof.
  intros Hc Hb Hp. induction fuel as [|f IH]; [reflexivity|].
  rewrite while_step, Hc. cbn [bind]. rewrite Hb. cbn [bind]. rewrite Hp. cbn [bind]. exact IH.
Qed.

Lemma spush_false_same r v r' : spush r v = Some (r', false) -> r' = r.
Proof.
  unfold spush. destruct (slot_at r (stail r)) as [[i [x s]]|]; [|discriminate].
  destruct (negb (stail r =? s)); intros [= <-]; reflexivity.
Qed.
Lemma spop_false_same r r' v : spop r = Some (r', (false, v)) -> r' = r /\ v = 0.
Proof.
  unfold spop. destruct (slot_at r (shead r)) as [[i [x s]]|]; [|discriminate].
  destruct (negb (u32 (shead r + 1) =? s)); intros [= <- <-]; split; reflexivity.
Qed.

(* what PushWait(v, w) does from one goroutine, for every w, every fuel and every remainder `rest` (the code from
   time.NewTicker on, which is not translated):
     w < 0 : Push; a failed Push is repeated for ever (state unchanged)           -> NoFuel
     w = 0 : one Push
     w > 0 : one Push, and after a failed one the remainder                       -> rest r v w *)
Definition push_wait_model (fuel : nat) (r : sring) (v w : Z) (rest : SyncRing -> Z -> Z -> M (SyncRing * bool))
  : M (SyncRing * bool) :=
  match spush r v with
  | None => if w <? 0 then match fuel with O => NoFuel | S _ => Panic end else Panic
  | Some (r', true) => if w <? 0 then match fuel with O => NoFuel | S _ => Ret (of_sring r', true) end else Ret (of_sring r', true)
  | Some (r', false) =>
      if w <? 0 then NoFuel else if w =? 0 then Ret (of_sring r', false) else rest (of_sring r') v w
  end.
Definition pop_wait_model (fuel : nat) (r : sring) (w : Z) (rest : SyncRing -> Z -> Z -> M (SyncRing * (Z * bool)))
  : M (SyncRing * (Z * bool)) :=
  match spop r with
  | None => if w <? 0 then match fuel with O => NoFuel | S _ => Panic end else Panic
  | Some (r', (true, x)) => if w <? 0 then match fuel with O => NoFuel | S _ => Ret (of_sring r', (x, true)) end else Ret (of_sring r', (x, true))
  | Some (r', (false, _)) =>
      if w <? 0 then NoFuel else if w =? 0 then Ret (of_sring r', (0, false)) else rest (of_sring r') w 0
  end.

(* proof scheme for the waits, independent of how the function arranges its tests: split on the outcome of the model's
   first attempt, turn the equality for Push / Pop into a rewrite rule HP for the generated call, then case analysis on
   every condition of both sides with one unrolling of the retry loop; a failed attempt leaves the state as it was, so
   the loop is stuck (while_stuck); combinations of conditions that cannot occur are closed by lia *)
Ltac wait_cases HP :=
  repeat first
  [ rewrite HP
  | rewrite while_step
  | rewrite while_stuck by (first [reflexivity | cbv beta iota zeta; rewrite ?HP; reflexivity])
  | progress cbn [while bind]
  | progress cbv beta iota zeta
  | match goal with |- context [if ?b then _ else _] => destruct b eqn:? end ];
  zb; try reflexivity; try (exfalso; lia).

Theorem code_SyncPushWait : forall fuel r v w rest, 0 <= SyncRing_mask r ->
  g_SyncRing_PushWait fuel r v w rest = push_wait_model fuel (to_sring r) v w rest.
Proof.
  intros fuel r v w rest Hm. unfold push_wait_model.
  pose proof (code_SyncPush r v Hm) as HP.
  repeat autounfold with go2v in HP |- *. cbv beta zeta delta [g_SyncRing_PushWait].
  destruct (spush (to_sring r) v) as [[r' b]|] eqn:E; cbv beta iota delta [mmap lift sst_res fst snd] in HP.
  - destruct b.
    + destruct fuel; wait_cases HP.
    + apply spush_false_same in E. subst r'. rewrite of_to_sring in *. destruct fuel; wait_cases HP.
  - destruct fuel; wait_cases HP.
Qed.

Theorem code_SyncPopWait : forall fuel r w rest, 0 <= SyncRing_mask r ->
  g_SyncRing_PopWait fuel r w rest = pop_wait_model fuel (to_sring r) w rest.
Proof.
  intros fuel r w rest Hm. unfold pop_wait_model.
  pose proof (code_SyncPop r Hm) as HP.
  repeat autounfold with go2v in HP |- *. cbv beta zeta delta [g_SyncRing_PopWait].
  destruct (spop (to_sring r)) as [[r' [b x]]|] eqn:E; cbv beta iota delta [mmap lift sst_swap_res fst snd] in HP.
  - destruct b.
    + destruct fuel; wait_cases HP.
    + apply spop_false_same in E. destruct E as [-> ->]. rewrite of_to_sring in *. destruct fuel; wait_cases HP.
  - destruct fuel; wait_cases HP.
Qed.

(* ---------------------------------------------------------------- Init / NewSync: the capacity switch and the numbering loop *)
(* Init with the fuel of its two loops explicit (roundupPowOfTwo gets the same fuel as the numbering loop): *)
Definition init_cap_fuel (fuel : nat) (c : Z) : M Z :=
  if c <=? sync_panic_bound then Panic
  else if sync_small_request =? c then Ret sync_min_cap
  else let c0 := u32 c in
       if 0 <? Z.land c0 (u32 (c0 - 1))
       then lift_fuel (option_map (fun pos => u32 (Z.shiftl roundup_base pos)) (bits_loop fuel c0 0))
       else Ret c0.
Definition init_fuel (fuel : nat) (h t c : Z) : M SyncRing :=
  bind (init_cap_fuel fuel c) (fun c32 =>
    if (Z.to_nat c32 <? fuel)%nat
    then Ret (of_sring {| slots := fresh_slots c32; shead := h; stail := t; scap := c32; smask := u32 (c32 - 1) |})
    else NoFuel).

Definition ires_m (x : ires) : M SyncRing :=
  match x with IPanic => Panic | INoFuel => NoFuel | IOk r => Ret (of_sring r) end.

Lemma zseq_snoc : forall n a, zseq (S n) a = zseq n a ++ [a + Z.of_nat n].
Proof.
  induction n as [|n IH]; intros a; [cbn; rewrite Z.add_0_r; reflexivity|].
  change (zseq (S (S n)) a) with (a :: zseq (S n) (a + 1)). rewrite IH. cbn [zseq app].
  replace (a + Z.of_nat (S n)) with (a + 1 + Z.of_nat n) by lia. reflexivity.
Qed.
Lemma zseq_len n a : length (zseq n a) = n.
Proof. revert a; induction n; intros; cbn [zseq length]; auto. Qed.

(* the slots after k rounds of  for i := range r.values { r.values[i].pos = uint32(i) }  on n fresh slots *)
Definition numbered (n k : nat) : list item :=
  map (fun i => mkitem 0 (wrap 32 i)) (zseq k 0) ++ repeat zero_item (n - k).
Lemma numbered_0 n : numbered n 0 = repeat zero_item n.
Proof. unfold numbered. rewrite Nat.sub_0_r. reflexivity. Qed.
Lemma numbered_split n k : (k < n)%nat ->
  numbered n k = map (fun i => mkitem 0 (wrap 32 i)) (zseq k 0) ++ zero_item :: repeat zero_item (n - S k).
Proof. intros H. unfold numbered. replace (n - k)%nat with (S (n - S k)) by lia. reflexivity. Qed.
Lemma numbered_S n k x : x = mkitem 0 (wrap 32 (Z.of_nat k)) ->
  map (fun i => mkitem 0 (wrap 32 i)) (zseq k 0) ++ x :: repeat zero_item (n - S k) = numbered n (S k).
Proof. intros ->. unfold numbered. rewrite zseq_snoc, map_app, <- app_assoc. reflexivity. Qed.
Lemma numbered_len_pre k : length (map (fun i => mkitem 0 (wrap 32 i)) (zseq k 0)) = k.
Proof. rewrite map_length. apply zseq_len. Qed.
Lemma numbered_full n : numbered n n = map of_slot (fresh_slots (Z.of_nat n)).
Proof.
  unfold numbered, fresh_slots. rewrite Nat.sub_diag, app_nil_r, Nat2Z.id, map_map. reflexivity.
Qed.

Lemma numbered_length n k : (k <= n)%nat -> length (numbered n k) = n.
Proof. intros H. unfold numbered. rewrite app_length, numbered_len_pre, repeat_length. lia. Qed.

(* everything that follows the capacity switch (r.cap = c; r.mask = c - 1; make; the numbering loop), once the goal has
   the form  bind (m_makeA zero_item C) (fun v => ... while fuel ... ) = ...  with 0 <= C.  The loop is characterised by
   its trajectory (Proofs/GoSemRecFacts.v: while_count): after k rounds the state is (k, ring with `numbered n k`) — or
   (ring, k): a range loop keeps its hidden counter first, a three-clause loop has the variables in declaration order;
   the hypotheses of while_count are proved about the condition / body / post AS GENERATED, whatever their form. *)
Ltac init_loop_facts Hk :=
  cbv beta iota zeta delta [SyncRing_values set_SyncRing_values SyncRing_cap SyncRing_mask SyncRing_head SyncRing_tail];
  rewrite ?(numbered_split _ _ Hk);
  repeat (rewrite ?m_getA_mid, ?m_setA_mid by (rewrite numbered_len_pre; reflexivity); cbv beta iota zeta delta [bind]).
Ltac init_tail_with c b p s0 C st :=
  rewrite (while_count c b p st (Z.to_nat C) s0);
  [ lazymatch goal with |- context [Nat.ltb (Z.to_nat C) ?fuel] => destruct (Nat.ltb (Z.to_nat C) fuel); [|reflexivity] end;
    cbv beta iota delta [bind of_sring slots shead stail scap smask u32 M32 wrap];
    rewrite numbered_full, Z2Nat.id by lia; reflexivity
  | cbv beta; rewrite numbered_0; reflexivity
  | let k := fresh "k" in let Hk := fresh "Hk" in
    intros k Hk; cbv beta iota zeta; split;
    [ cbv beta iota zeta delta [SyncRing_values]; unfold zlenA; rewrite ?repeat_length, ?numbered_length by lia;
      f_equal; apply Z.ltb_lt; lia
    | eexists; split;
      [ init_loop_facts Hk; reflexivity
      | cbv beta iota zeta; rewrite numbered_S by reflexivity; rewrite Nat2Z.inj_succ; reflexivity ] ]
  | cbv beta iota zeta delta [SyncRing_values]; unfold zlenA; rewrite ?repeat_length, ?numbered_length by lia;
    rewrite Z.ltb_irrefl; reflexivity ].
Ltac init_tail :=
  lazymatch goal with
  | |- context [m_makeA _ ?C] =>
      assert (0 <= C) by (first [lia | apply Z.mod_pos_bound; lia]);
      unfold m_makeA; destruct (Z.ltb_spec C 0) as [?|_]; [exfalso; lia|]; cbv beta iota zeta delta [bind];
      lazymatch goal with
      | |- context [while ?fuel ?c ?b ?p ?s0] =>
          lazymatch s0 with
          | (_, mkSyncRing _ ?cp ?mk ?hd ?tl) =>
              init_tail_with c b p s0 C (fun k : nat => (Z.of_nat k, mkSyncRing (numbered (Z.to_nat C) k) cp mk hd tl))
          | (mkSyncRing _ ?cp ?mk ?hd ?tl, _) =>
              init_tail_with c b p s0 C (fun k : nat => (mkSyncRing (numbered (Z.to_nat C) k) cp mk hd tl, Z.of_nat k))
          end
      end
  end.

(* the capacity switch: case analysis on every condition of both sides (the code's and the model's need not be written
   the same way: `1 == cap` / `cap == 1`, `c&(c-1) > 0` / `!= 0`); combinations that cannot occur are closed by lia *)
Ltac init_cases :=
  repeat match goal with
  | |- context [if ?b then _ else _] =>
      lazymatch b with Nat.ltb _ _ => fail | _ => idtac end;
      destruct b eqn:?; cbv beta iota zeta delta [bind option_map lift_fuel]
  | |- context [match bits_loop ?f ?x ?q with _ => _ end] =>
      destruct (bits_loop f x q); cbv beta iota zeta delta [bind option_map lift_fuel]
  end.

(* for EVERY fuel, every receiver state and every requested capacity *)
Theorem code_SyncInit_fuel : forall fuel r c,
  g_SyncRing_Init fuel r c = init_fuel fuel (SyncRing_head r) (SyncRing_tail r) c.
Proof.
  intros fuel [vals cp mask hd tl] c. unfold init_fuel, init_cap_fuel.
  cbv beta iota zeta delta [g_SyncRing_Init]. rewrite ?code_roundup_fuel.
  repeat autounfold with go2v.
  cbv beta iota zeta delta [set_SyncRing_values set_SyncRing_cap set_SyncRing_mask set_SyncRing_head set_SyncRing_tail
    SyncRing_values SyncRing_cap SyncRing_mask SyncRing_head SyncRing_tail
    sync_panic_bound sync_small_request sync_min_cap roundup_base u32 M32 wrap].
  assert (Hl : 0 <= Z.land (c mod 2 ^ 32) ((c mod 2 ^ 32 - 1) mod 2 ^ 32))
    by (apply Z.land_nonneg; left; apply Z.mod_pos_bound; lia).
  init_cases; zb; try (exfalso; lia); try reflexivity; init_tail.
Qed.

(* with enough fuel (64 rounds for roundupPowOfTwo, one more than the capacity for the numbering loop) Init is the model's
   init_on; the capacity premise is about the MODEL's init_cap, which never exceeds 2^32 - 1 *)
Lemma init_cap_fuel_enough fuel c : (64 <= fuel)%nat ->
  init_cap_fuel fuel c = match init_cap c with None => Panic | Some None => NoFuel | Some (Some c32) => Ret c32 end.
Proof.
  intros Hf. unfold init_cap_fuel, init_cap, roundup.
  destruct (c <=? sync_panic_bound); [reflexivity|]. destruct (sync_small_request =? c); [reflexivity|].
  cbv zeta. destruct (0 <? Z.land (u32 c) (u32 (u32 c - 1))); [|reflexivity].
  assert (Hr : 0 <= u32 c < 2 ^ (Z.of_nat 40 - 1)).
  { unfold u32, M32. pose proof (Z.mod_pos_bound c (2 ^ 32) ltac:(lia)). change (Z.of_nat 40 - 1) with 39.
    assert (2 ^ 32 < 2 ^ 39) by (apply Z.pow_lt_mono_r; lia). lia. }
  destruct (bits_loop_spec 40 (u32 c) 0 Hr) as (n & E & _). rewrite E.
  replace fuel with (40 + (fuel - 40))%nat by lia. rewrite (bits_loop_more (fuel - 40) 40 _ 0 _ E). reflexivity.
Qed.

Lemma init_cap_range c c32 : init_cap c = Some (Some c32) -> 0 <= c32 < 2 ^ 32.
Proof.
  unfold init_cap, roundup, sync_min_cap. destruct (c <=? sync_panic_bound); [discriminate|].
  destruct (sync_small_request =? c); [intros [= <-]; lia|]. cbv zeta.
  destruct (0 <? Z.land (u32 c) (u32 (u32 c - 1))).
  - destruct (bits_loop 40 (u32 c) 0); [|discriminate]. intros [= <-]. unfold u32, M32. apply Z.mod_pos_bound. lia.
  - intros [= <-]. unfold u32, M32. apply Z.mod_pos_bound. lia.
Qed.

Theorem code_SyncInit : forall fuel r c, (64 <= fuel)%nat ->
  (forall c32, init_cap c = Some (Some c32) -> c32 < Z.of_nat fuel) ->
  g_SyncRing_Init fuel r c = ires_m (init_on (SyncRing_head r) (SyncRing_tail r) c).
Proof.
  intros fuel r c Hf Hc. rewrite code_SyncInit_fuel. unfold init_fuel, init_on. rewrite (init_cap_fuel_enough fuel c Hf).
  destruct (init_cap c) as [[c32|]|] eqn:E; try reflexivity.
  cbv beta iota delta [bind ires_m]. pose proof (init_cap_range c c32 E). specialize (Hc c32 eq_refl).
  destruct (Nat.ltb_spec (Z.to_nat c32) fuel); [reflexivity|lia].
Qed.

(* fuel 2^32 + 1 suffices for EVERY request and state *)
Theorem code_SyncInit_any : forall fuel r c, 2 ^ 32 <= Z.of_nat fuel ->
  g_SyncRing_Init fuel r c = ires_m (init_on (SyncRing_head r) (SyncRing_tail r) c).
Proof.
  intros fuel r c Hf. apply code_SyncInit; [lia|]. intros c32 E. apply init_cap_range in E. lia.
Qed.

Theorem code_NewSync_fuel : forall fuel c, g_NewSync fuel c = init_fuel fuel 0 0 c.
Proof.
  intros. cbv beta zeta delta [g_NewSync]. rewrite code_SyncInit_fuel.
  cbv beta iota delta [zero_SyncRing SyncRing_head SyncRing_tail].
  destruct (init_fuel fuel 0 0 c); reflexivity.
Qed.
Theorem code_NewSync : forall fuel c, (64 <= fuel)%nat ->
  (forall c32, init_cap c = Some (Some c32) -> c32 < Z.of_nat fuel) ->
  g_NewSync fuel c = ires_m (sinit c).
Proof.
  intros fuel c Hf Hc. cbv beta zeta delta [g_NewSync]. rewrite (code_SyncInit fuel zero_SyncRing c Hf Hc).
  unfold sinit. cbv beta iota delta [zero_SyncRing SyncRing_head SyncRing_tail].
  destruct (init_on 0 0 c); reflexivity.
Qed.
