(* C12: the history of Model/SafeKVHist.v records what the machine itself logs: the (call, result) pairs of the history are,
   as a multiset, the (call, result) pairs of the threads' ghost logs [clog] — the log c12_calls_atomic speaks about. *)
From Coq Require Import List Arith Lia Bool ZArith Permutation.
From V Require Import Lib.Enc Gen.SafeKVSkel Model.SafeKV Model.SafeKVCalls Model.SafeKVHist
  Proofs.SafeKVInv Proofs.SafeKVConc Proofs.SafeKVSkelOk Proofs.SafeKVExec Proofs.SafeKVCalls
  Proofs.SafeKVLinearizeStep Proofs.SafeKVLinearize.
Import ListNotations.

Definition cr_hop (h : hop) : call * list Z := (h_call h, h_res h).
Definition cr_log (en : call * map_ * map_ * list Z) : call * list Z := let '(cl, _, _, r) := en in (cl, r).
Definition all_logged (c : cconfig) : list (call * list Z) := flat_map (fun t => map cr_log (clog t)) (cths c).

Lemma flat_map_split {A B} (f : A -> list B) : forall l i t, nth_error l i = Some t ->
  flat_map f l = flat_map f (firstn i l) ++ f t ++ flat_map f (skipn (S i) l).
Proof.
  induction l as [|a l IH]; intros [|i] t H; cbn [nth_error] in H; try discriminate.
  - inversion H; subst. reflexivity.
  - cbn [flat_map firstn skipn]. rewrite (IH i t H), <- app_assoc. reflexivity.
Qed.
Lemma flat_map_upd {A B} (f : A -> list B) : forall l i t x, nth_error l i = Some t ->
  flat_map f (upd l i x) = flat_map f (firstn i l) ++ f x ++ flat_map f (skipn (S i) l).
Proof.
  induction l as [|a l IH]; intros [|i] t x H; cbn [nth_error] in H; try discriminate.
  - reflexivity.
  - cbn [upd flat_map firstn skipn]. rewrite (IH i t x H), <- app_assoc. reflexivity.
Qed.

Lemma hstep_logged h sc : CInv (hc h) -> Permutation (map cr_hop (hhist h)) (all_logged (hc h)) ->
  Permutation (map cr_hop (hhist (hstep h sc))) (all_logged (hc (hstep h sc))).
Proof.
  intros HC HP. destruct sc as [i nc]. rewrite hstep_hc. unfold hstep. cbn [fst].
  destruct (nth_error (cths (hc h)) i) as [t|] eqn:Hi.
  2: { assert (E0 : cstep (hc h) (i, nc) = hc h) by (unfold cstep; rewrite Hi; reflexivity). rewrite E0. exact HP. }
  destruct (cstep_kind (hc h) i nc t HC Hi) as (l' & m' & t' & Hstep & Hk). rewrite Hstep.
  set (f := fun t : cthread => map cr_log (clog t)) in *.
  assert (Hsame : clog t' = clog t -> all_logged {| clk := l'; cmp := m'; cths := upd (cths (hc h)) i t' |} = all_logged (hc h)).
  { intros E0. unfold all_logged. cbn [cths]. fold f. rewrite (flat_map_upd f _ i t t' Hi), (flat_map_split f _ i t Hi). unfold f. rewrite E0. reflexivity. }
  destruct Hk as [Ec ? ? ? ? ? ? Elg | cl Ec Hret ? ? ? ? Elog | cl Ec Hret ? ? ? ? ? ? Elg | cl md Ec Hret ? ? ? ? ? ? ? ? Elg | cl md Ec Hret ? ? ? ? ? ? ? ? Elg].
  - rewrite Ec, (Hsame Elg). exact HP.
  - rewrite Ec, Hret. cbn [hhist]. rewrite map_app. cbn [map cr_hop h_call h_res].
    unfold all_logged in *. cbn [cths]. fold f in HP |- *. rewrite (flat_map_upd f _ i t t' Hi). rewrite (flat_map_split f _ i t Hi) in HP.
    unfold f at 2. rewrite Elog, map_app. cbn [map cr_log].
    eapply perm_trans; [apply Permutation_app_tail, HP|]. rewrite <- !app_assoc. apply Permutation_app_head, Permutation_app_head.
    apply Permutation_app_comm.
  - rewrite Ec, Hret, (Hsame Elg). exact HP.
  - rewrite Ec, Hret, (Hsame Elg). exact HP.
  - rewrite Ec, Hret, (Hsame Elg). exact HP.
Qed.

Lemma hfold_logged sched : forall h, CInv (hc h) -> Permutation (map cr_hop (hhist h)) (all_logged (hc h)) ->
  Permutation (map cr_hop (hhist (fold_left hstep sched h))) (all_logged (hc (fold_left hstep sched h))).
Proof.
  induction sched as [|sc s IH]; intros h HC HP; cbn [fold_left]; auto. apply IH.
  - rewrite hstep_hc. apply cstep_cinv, HC.
  - apply hstep_logged; auto.
Qed.

(* the completed calls of the history, with their results, are exactly the entries of the machine's own logs *)
Theorem history_is_the_log n m0 sched :
  Permutation (map cr_hop (chistory n m0 sched)) (all_logged (crun (cinit n m0) sched)).
Proof.
  rewrite <- hrun_crun. apply hfold_logged; [apply cinit_cinv|]. cbn [hinit hhist hc map]. unfold all_logged, cinit. cbn [cths].
  induction n; cbn [repeat flat_map cidle clog map app]; auto.
Qed.
