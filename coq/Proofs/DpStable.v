(* C18: what the differential run compares with the model does not depend on Go's map order.
   For a tie-breaker that is a function of its two arguments, the cell of every key <= maxValue, and the cell of the
   least attainable total above maxValue, are the same for any two families of iteration orders. *)
From Coq Require Import List ZArith Lia Bool Arith Permutation Sorted.
From V Require Import Model.Dp Proofs.DpSolvers.
Import ListNotations.
Local Open Scope Z_scope.
Arguments Z.add : simpl never.
Arguments Z.sub : simpl never.

Lemma lookup_In_iff k s (a : list dcell) : NoDup (map fst a) -> (lookup k a = Some s <-> In (k, s) a).
Proof.
  induction a as [|[k' s'] t IH]; intros Hn; cbn [lookup]; [split; [discriminate|intros []]|].
  cbn [map fst] in Hn. inversion Hn as [|? ? Hk Hn']; subst. destruct (Z.eqb_spec k' k) as [->|Hne].
  - split.
    + intros E. inversion E; subst. left; reflexivity.
    + intros [E|Hin]; [inversion E; reflexivity|]. exfalso. apply Hk. apply in_map_iff. exists (k, s). auto.
  - rewrite (IH Hn'). split; [intros H; right; exact H|]. intros [E|H]; [inversion E; congruence|exact H].
Qed.
Lemma lookup_perm k (a b : list dcell) : NoDup (map fst a) -> Permutation a b -> lookup k a = lookup k b.
Proof.
  intros Hn Hp. assert (Hnb : NoDup (map fst b)) by (eapply Permutation_NoDup; [apply Permutation_map; exact Hp|exact Hn]).
  destruct (lookup k a) as [s|] eqn:Ea.
  - symmetry. apply (lookup_In_iff k s b Hnb). apply (Permutation_in _ Hp). apply (lookup_In_iff k s a Hn). exact Ea.
  - destruct (lookup k b) as [s|] eqn:Eb; [|reflexivity]. apply (lookup_In_iff k s b Hnb) in Eb.
    apply (Permutation_in _ (Permutation_sym Hp)) in Eb. apply (lookup_In_iff k s a Hn) in Eb. congruence.
Qed.
Lemma lookup_notin k (a : list dcell) : ~ In k (map fst a) -> lookup k a = None.
Proof. intros H. apply lookup_none. destruct (has k a) eqn:E; [|reflexivity]. apply has_keys in E. contradiction. Qed.
Lemma lookup_app k (l1 l2 : list dcell) : lookup k (l1 ++ l2) = match lookup k l1 with Some c => Some c | None => lookup k l2 end.
Proof. induction l1 as [|[a b] l1 IH]; [reflexivity|]. cbn [app lookup]. destruct (a =? k); [reflexivity|apply IH]. Qed.
Lemma lookup_filter_keep k (p : dcell -> bool) (dp : list dcell) : (forall s, p (k, s) = true) -> lookup k (filter p dp) = lookup k dp.
Proof.
  intros Hp. induction dp as [|[k2 s2] d IH]; [reflexivity|]. cbn [filter lookup]. destruct (Z.eqb_spec k2 k) as [->|Hne].
  - rewrite Hp. cbn [lookup]. rewrite Z.eqb_refl. reflexivity.
  - destruct (p (k2, s2)); [cbn [lookup]; replace (k2 =? k) with false by (symmetry; apply Z.eqb_neq; exact Hne)|]; exact IH.
Qed.
Lemma lookup_merge k dp tmp : lookup k (merge dp tmp) = match lookup k tmp with Some c => Some c | None => lookup k dp end.
Proof.
  unfold merge. rewrite lookup_app. destruct (lookup k tmp) eqn:E; [reflexivity|]. apply lookup_filter_keep.
  intros s. cbn [fst]. apply lookup_none in E. rewrite E. reflexivity.
Qed.

Lemma rgo_step' brk maxV v idx allow dp cur s t tmp ovf :
  exists tmp' ovf', round_go brk maxV v idx allow dp (@cons dcell (cur, s) t) tmp ovf = round_go brk maxV v idx allow dp t tmp' ovf' /\
    (tmp' = tmp \/ tmp' = @cons dcell (cur + v, s ++ [idx]) tmp) /\
    (ovf' = ovf \/ (ovf' = cur + v /\ maxV < cur + v)).
Proof.
  cbn [round_go]. destruct ((maxV <? cur + v) && (negb allow || ((0 <? ovf) && (ovf <? cur + v)))) eqn:Eskip.
  - exists tmp, ovf. split; [reflexivity|]. split; left; reflexivity.
  - set (ovf' := if maxV <? cur + v then cur + v else ovf).
    assert (Hovf : ovf' = ovf \/ (ovf' = cur + v /\ maxV < cur + v)).
    { unfold ovf'. destruct (Z.ltb_spec maxV (cur + v)); [right; split; [reflexivity|assumption]|left; reflexivity]. }
    destruct (lookup (cur + v) dp) as [old|].
    + destruct brk as [f|].
      * destruct (f old (s ++ [idx])).
        -- exists ((cur + v, s ++ [idx]) :: tmp), ovf'. split; [reflexivity|]. split; [right; reflexivity|exact Hovf].
        -- exists tmp, ovf'. split; [reflexivity|]. split; [left; reflexivity|exact Hovf].
      * exists tmp, ovf'. split; [reflexivity|]. split; [left; reflexivity|exact Hovf].
    + exists ((cur + v, s ++ [idx]) :: tmp), ovf'. split; [reflexivity|]. split; [right; reflexivity|exact Hovf].
Qed.

Section Round.
Variable brk : breaker.
Variables (maxV v : Z) (idx : nat) (allow : bool) (dp : list dcell).
Local Notation rgo := (round_go brk maxV v idx allow dp).
Variable nv : Z.
(* the candidate nv is never skipped: it is within the limit, or overflow is allowed and nothing smaller overshoots *)
Hypothesis Hns : nv <= maxV \/ allow = true.

Definition decide (old : option (list nat)) (s : list nat) (prev : option (list nat)) : option (list nat) :=
  match old, brk with
  | Some o, None => prev
  | Some o, Some f => if f o (s ++ [idx]) then Some (s ++ [idx]) else prev
  | None, _ => Some (s ++ [idx])
  end.

Lemma rgo_lookup : forall (entries : list dcell) tmp ovf, NoDup (map fst entries) ->
  (forall cur (s : list nat), In (cur, s) entries -> maxV < cur + v -> nv <= cur + v) ->
  (nv <= maxV \/ ovf = 0 \/ nv <= ovf) ->
  lookup nv (fst (rgo entries tmp ovf)) =
    match lookup (nv - v) entries with
    | Some s => decide (lookup nv dp) s (lookup nv tmp)
    | None => lookup nv tmp
    end.
Proof.
  induction entries as [|[c s0] t IH]; intros tmp ovf Hnd Hmin Hovf; [reflexivity|].
  cbn [map fst] in Hnd. inversion Hnd as [|? ? Hc Hnd']; subst.
  assert (Hmin' : forall cur (s : list nat), In (cur, s) t -> maxV < cur + v -> nv <= cur + v) by (intros cur s Hin; apply (Hmin cur s); right; exact Hin).
  cbn [lookup]. destruct (Z.eqb_spec c (nv - v)) as [Ec|Ec].
  - (* this is the entry that produces nv *)
    assert (Et : lookup (nv - v) t = None) by (apply lookup_notin; rewrite <- Ec; exact Hc).
    cbn [round_go]. replace (c + v) with nv by lia.
    assert (Eskip : (maxV <? nv) && (negb allow || ((0 <? ovf) && (ovf <? nv))) = false).
    { destruct (Z.ltb_spec maxV nv) as [Hgt|Hle]; [|reflexivity]. cbn [andb].
      destruct Hns as [H|Ha]; [lia|]. rewrite Ha. cbn [negb orb]. destruct Hovf as [H|[Ho|H]]; [lia|rewrite Ho; reflexivity|].
      destruct (Z.ltb_spec 0 ovf); [|reflexivity]. destruct (Z.ltb_spec ovf nv); [lia|reflexivity]. }
    rewrite Eskip. set (ovf' := if maxV <? nv then nv else ovf).
    assert (Hovf' : nv <= maxV \/ ovf' = 0 \/ nv <= ovf').
    { unfold ovf'. destruct (Z.ltb_spec maxV nv); [right; right; lia|left; lia]. }
    unfold decide. destruct (lookup nv dp) as [old|]; [destruct brk as [f|]; [destruct (f old (s0 ++ [idx]))|]|];
      rewrite (IH _ _ Hnd' Hmin' Hovf'), Et; cbn [lookup]; rewrite ?Z.eqb_refl; reflexivity.
  - (* another entry: whatever it does, it does not touch key nv *)
    destruct (rgo_step' brk maxV v idx allow dp c s0 t tmp ovf) as (tmp' & ovf' & E & Ht & Hov).
    rewrite E. rewrite (IH tmp' ovf' Hnd' Hmin').
    + assert (El : lookup nv tmp' = lookup nv tmp).
      { destruct Ht as [->| ->]; [reflexivity|]. cbn [lookup]. replace (c + v =? nv) with false by (symmetry; apply Z.eqb_neq; lia). reflexivity. }
      rewrite El. reflexivity.
    + destruct Hov as [->|(-> & Hgt)]; [exact Hovf|]. right; right. apply (Hmin c s0); [left; reflexivity|exact Hgt].
Qed.
End Round.

Section Stable.
Variable vals : list Z.
Hypothesis vals_pos : Forall (fun v => 0 < v) vals.
Variable brk : breaker.
Variable maxV : Z.
Variable allow : bool.
Hypothesis HM : 0 <= maxV.
Variables ord1 ord2 : nat -> list dcell -> list dcell.
Hypothesis perm1 : forall k dp, Permutation (ord1 k dp) dp.
Hypothesis perm2 : forall k dp, Permutation (ord2 k dp) dp.
Local Notation s1 := (solve brk maxV allow ord1 vals).
Local Notation s2 := (solve brk maxV allow ord2 vals).
Local Notation N := (length vals).

(* one round, for a key that is never skipped, seen through lookups only *)
Lemma solve_lookup_S ord (Hperm : forall k dp, Permutation (ord k dp) dp) k nv : (k < N)%nat ->
  (nv <= maxV \/ (allow = true /\ least_over vals N maxV nv)) ->
  let dp := fst (solve brk maxV allow ord vals k) in
  lookup nv (fst (solve brk maxV allow ord vals (S k))) =
    match (match lookup (nv - dvl vals k) dp with Some s => decide brk k (lookup nv dp) s None | None => None end) with
    | Some c => Some c
    | None => lookup nv dp
    end.
Proof.
  intros Hk Hnv. cbv zeta. rewrite (solve_S vals brk maxV allow ord). cbn [fst]. rewrite lookup_merge.
  destruct (solvers_sound_complete vals vals_pos brk maxV allow ord Hperm k ltac:(lia)) as (Hok & Hnd & _).
  set (dp := fst (solve brk maxV allow ord vals k)) in *.
  rewrite (rgo_lookup brk maxV (dvl vals k) k allow dp nv).
  - rewrite (lookup_perm _ (ord k dp) dp); [reflexivity| |apply Hperm].
    eapply Permutation_NoDup; [apply Permutation_sym, Permutation_map, Hperm|exact Hnd].
  - destruct Hnv as [H|[H _]]; [left; exact H|right; exact H].
  - eapply Permutation_NoDup; [apply Permutation_sym, Permutation_map, Hperm|exact Hnd].
  - intros cur s Hin Hgt. destruct Hnv as [H|[_ (_ & _ & Hleast)]]; [lia|]. apply Hleast; [|exact Hgt].
    apply (Permutation_in _ (Hperm k dp)) in Hin. unfold cells_ok in Hok. rewrite Forall_forall in Hok.
    destruct (Hok _ Hin) as [Hv Et]. cbn [fst snd] in *. exists (s ++ [k]). split.
    + apply (dvalid_le (S k)); [lia|]. apply dvalid_snoc. exact Hv.
    + rewrite (total_snoc vals). lia.
  - destruct Hnv as [H|[_ (_ & _ & Hleast)]]; [left; exact H|]. right.
    destruct (solve_ovf vals vals_pos brk maxV allow ord Hperm k ltac:(lia)) as [->|[Ho Hat]]; [left; reflexivity|]. right. apply Hleast; auto.
Qed.

Theorem solve_stable : forall n, (n <= N)%nat ->
  (forall k, k <= maxV -> lookup k (fst (s1 n)) = lookup k (fst (s2 n))) /\
  (allow = true -> forall t, least_over vals N maxV t -> lookup t (fst (s1 n)) = lookup t (fst (s2 n))).
Proof.
  induction n as [|k IH]; intros Hn; [split; intros; reflexivity|]. destruct (IH ltac:(lia)) as [Ia Ib].
  assert (Hvk : 0 < dvl vals k) by (apply (vl_pos vals vals_pos); lia).
  split.
  - intros key Hkey. rewrite (solve_lookup_S ord1 perm1 k key) by (auto; lia). rewrite (solve_lookup_S ord2 perm2 k key) by (auto; lia). cbv zeta.
    rewrite (Ia key Hkey). rewrite (Ia (key - dvl vals k)) by lia. reflexivity.
  - intros Ha t Ht. rewrite (solve_lookup_S ord1 perm1 k t) by (auto; lia). rewrite (solve_lookup_S ord2 perm2 k t) by (auto; lia). cbv zeta.
    rewrite (Ib Ha t Ht).
    assert (Epre : lookup (t - dvl vals k) (fst (s1 k)) = lookup (t - dvl vals k) (fst (s2 k))).
    { destruct (Z.le_gt_cases (t - dvl vals k) maxV) as [Hle|Hgt]; [apply Ia; exact Hle|].
      (* a key above maxV and below the least attainable overshoot cannot exist *)
      assert (Hno : forall ord, (forall k dp, Permutation (ord k dp) dp) -> lookup (t - dvl vals k) (fst (solve brk maxV allow ord vals k)) = None).
      { intros ord Hperm. destruct (lookup (t - dvl vals k) (fst (solve brk maxV allow ord vals k))) as [s|] eqn:E; [|reflexivity]. exfalso.
        destruct (solvers_sound_complete vals vals_pos brk maxV allow ord Hperm k ltac:(lia)) as (Hok & _ & _).
        apply lookup_In in E. unfold cells_ok in Hok. rewrite Forall_forall in Hok. destruct (Hok _ E) as [Hv Et]. cbn [fst snd] in *.
        destruct Ht as (_ & _ & Hleast). assert (t <= t - dvl vals k); [|lia]. apply Hleast; [|exact Hgt].
        exists s. split; [apply (dvalid_le k); [lia|exact Hv]|exact Et]. }
      rewrite (Hno ord1 perm1), (Hno ord2 perm2). reflexivity. }
    rewrite Epre. reflexivity.
Qed.
End Stable.
