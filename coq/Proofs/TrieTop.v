(* C05 — end-to-end statements about the executable model: insert any byte-string patterns, build the failure links,
   then Match / find / FindAll on any byte-string text. *)
From Coq Require Import List ZArith Lia Bool Arith.
From V Require Import Lib.Utf8 Model.Trie Proofs.TrieTable Proofs.TrieInsert Proofs.TrieRunes Proofs.TrieBuild Proofs.TrieFind Proofs.TrieOcc.
Import ListNotations.

Module M := V.Model.Trie.

(* the trie after Insert(p) for every p of ps and BuildFailureLinks *)
Definition built (ps : list (list Z)) (T : trie) : Prop := M.build (inserts ps) = Some T.

Lemma built_exists ps : exists T, built ps T.
Proof. destruct (build_correct (inserts ps) (ins_wf _ _ (INS_inserts ps)) (ins_fail _ _ (INS_inserts ps))) as (T & E & _). exists T. exact E. Qed.
Lemma built_facts ps T : built ps T -> SE (inserts ps) T /\ FailOK (inserts ps) T.
Proof.
  intros E. destruct (build_correct (inserts ps) (ins_wf _ _ (INS_inserts ps)) (ins_fail _ _ (INS_inserts ps))) as (T' & E' & S' & F' & _).
  unfold built in E. rewrite E in E'. inversion E'; subst. auto.
Qed.

(* an occurrence: bytes [s, e) of the text are a non-empty inserted pattern, and s, e are rune boundaries of the text *)
Definition occurrence (ps : list (list Z)) (text : list Z) (s e : Z) : Prop := OccB ps text s e.

Theorem find_correct ps text T : Forall is_bytes ps -> is_bytes text -> built ps T ->
  exists sc, M.find T text = Ok sc /\ NoDup sc /\ (forall s e, In (s, e) sc <-> occurrence ps text s e).
Proof.
  intros Hps Hb E. destruct (built_facts ps T E) as [HS HF].
  pose proof (INS_inserts ps) as HI.
  exists (afind (inserts ps) [] 0 (tokens text)). split; [|split].
  - apply (find_sim (inserts ps) T (ins_wf _ _ HI) HS HF (INS_end_nonroot ps _ HI)).
  - apply (afind_nodup ps Hps). apply tokens_width_pos.
  - intros s e. apply (afind_bytes ps Hps text Hb).
Qed.

Theorem match_iff_occurs ps text T : Forall is_bytes ps -> is_bytes text -> built ps T ->
  exists b, M.match_ T text = Ok b /\ (b = true <-> exists s e, occurrence ps text s e).
Proof.
  intros Hps Hb E. destruct (built_facts ps T E) as [HS HF].
  pose proof (INS_inserts ps) as HI.
  exists (amatch (inserts ps) [] (tokens text)). split.
  - apply (match_sim (inserts ps) T (ins_wf _ _ HI) HS HF (INS_end_nonroot ps _ HI)).
  - rewrite (amatch_afind (inserts ps) (tokens text) [] 0). split.
    + intros H. destruct (afind (inserts ps) [] 0 (tokens text)) as [|[s e] l] eqn:Ea; [discriminate|].
      exists s, e. apply (afind_bytes ps Hps text Hb). rewrite Ea. left. reflexivity.
    + intros (s & e & H). apply (afind_bytes ps Hps text Hb) in H.
      destruct (afind (inserts ps) [] 0 (tokens text)); [destruct H|reflexivity].
Qed.

(* FindAll: the slice of every scope is in range and is the pattern itself *)
Lemma occurrence_slice ps text s e : occurrence ps text s e ->
  exists p, In p ps /\ p <> [] /\ slice text s e = Some p.
Proof.
  intros (p & Hp & Hne & Hs & He & Hocc). exists p. split; [exact Hp|]. split; [exact Hne|].
  unfold M.occ_at in Hocc. apply andb_prop in Hocc. destruct Hocc as [Hpre _]. apply is_prefix_app in Hpre. destruct Hpre as (c & Ec).
  assert (Hl : (Z.to_nat s + length p <= length text)%nat).
  { rewrite <- (firstn_skipn (Z.to_nat s) text), app_length, Ec, app_length.
    assert (length (firstn (Z.to_nat s) text) = Z.to_nat s); [|lia].
    rewrite firstn_length. destruct (Nat.le_gt_cases (Z.to_nat s) (length text)); [lia|].
    rewrite skipn_all2 in Ec by lia. destruct p; [congruence|discriminate]. }
  unfold slice. destruct (Z.leb_spec 0 s); [|lia]. destruct (Z.leb_spec s e); [|lia].
  destruct (Z.leb_spec e (Z.of_nat (length text))); [|lia]. cbn [andb]. f_equal.
  replace (Z.to_nat (e - s)) with (length p) by lia. rewrite Ec. rewrite firstn_app, Nat.sub_diag, firstn_all. cbn [firstn]. apply app_nil_r.
Qed.

Theorem find_all_correct ps text T : Forall is_bytes ps -> is_bytes text -> built ps T ->
  exists sc l, M.find T text = Ok sc /\ NoDup sc /\ (forall s e, In (s, e) sc <-> occurrence ps text s e) /\
    M.find_all T text = Ok l /\ Forall2 (fun se x => slice text (fst se) (snd se) = Some x /\ In x ps /\ x <> []) sc l.
Proof.
  intros Hps Hb E. destruct (find_correct ps text T Hps Hb E) as (sc & Ef & Hn & Hi).
  assert (G : forall l0, (forall s e, In (s, e) l0 -> occurrence ps text s e) ->
              exists l, slices text l0 = Ok l /\ Forall2 (fun se x => slice text (fst se) (snd se) = Some x /\ In x ps /\ x <> []) l0 l).
  { induction l0 as [|[s e] l0 IH]; intros H.
    - exists []. split; [reflexivity|constructor].
    - destruct (IH (fun s' e' H' => H s' e' (or_intror H'))) as (l & El & Fl).
      destruct (occurrence_slice ps text s e (H s e (or_introl eq_refl))) as (p & Hp & Hne & Es).
      exists (p :: l). cbn [slices]. rewrite Es, El. split; [reflexivity|]. constructor; auto. }
  destruct (G sc (fun s e H => proj1 (Hi s e) H)) as (l & El & Fl).
  exists sc, l. split; [exact Ef|]. split; [exact Hn|]. split; [exact Hi|]. split; [|exact Fl].
  unfold M.find_all. rewrite Ef. exact El.
Qed.

(* ---- the executable specification of Model/Trie.v (what Run/C05.v's judge evaluates in the rune-aligned reading) ---- *)
Lemma beqb_eq a b : beqb a b = true <-> a = b.
Proof.
  revert b; induction a as [|x a IH]; intros [|y b]; cbn [beqb]; split; intros H; try reflexivity; try discriminate.
  - apply andb_prop in H. destruct H as [H1 H2]. apply Z.eqb_eq in H1. apply IH in H2. subst. reflexivity.
  - inversion H; subst. rewrite Z.eqb_refl. cbn [andb]. apply IH. reflexivity.
Qed.
Lemma memb_iff x l : memb x l = true <-> In x l.
Proof.
  unfold memb. rewrite existsb_exists. split.
  - intros (y & Hy & E). apply beqb_eq in E. subst. exact Hy.
  - intros H. exists x. split; [exact H|apply beqb_eq; reflexivity].
Qed.
Lemma dedup_in x l : In x (dedup l) <-> In x l.
Proof.
  induction l as [|y l IH]; cbn [dedup]; [tauto|]. destruct (memb y l) eqn:E.
  - rewrite IH. apply memb_iff in E. cbn [In]. split; [auto|]. intros [<-|H]; auto.
  - cbn [In]. rewrite IH. tauto.
Qed.
Lemma patterns_in p ps : In p (patterns ps) <-> In p ps /\ p <> [].
Proof.
  unfold patterns. rewrite dedup_in, filter_In. split; intros [H1 H2]; split; auto; destruct p; try discriminate; congruence.
Qed.

Lemma occs_spec al ps t s e : In (s, e) (occs al ps t) <->
  (1 <= e <= length t) /\ s < e /\ exists p, In p ps /\ p <> [] /\ s + length p = e /\ M.occ_at al p t s = true.
Proof.
  unfold occs. rewrite in_flat_map. split.
  - intros (e' & He & Hin). apply in_seq in He. unfold occs_ending in Hin. apply in_flat_map in Hin.
    destruct Hin as (s' & Hs & Hin). apply in_seq in Hs.
    destruct (existsb _ (patterns ps)) eqn:Ex; [|destruct Hin]. destruct Hin as [Hin|[]]. inversion Hin; subst.
    apply existsb_exists in Ex. destruct Ex as (p & Hp & Hc). apply andb_prop in Hc. destruct Hc as [H1 H2]. apply Nat.eqb_eq in H1.
    apply patterns_in in Hp. split; [lia|]. split; [lia|]. exists p. tauto.
  - intros (He & Hs & p & Hp & Hne & El & Hocc). exists e. split; [apply in_seq; lia|].
    unfold occs_ending. apply in_flat_map. exists s. split; [apply in_seq; lia|].
    replace (existsb _ (patterns ps)) with true; [left; reflexivity|]. symmetry. apply existsb_exists.
    exists p. split; [apply patterns_in; auto|]. rewrite Hocc, andb_true_r. apply Nat.eqb_eq. exact El.
Qed.

(* the scopes find emits are the occurrences the executable specification lists (aligned reading) *)
Theorem occurrence_occs ps text s e : occurrence ps text s e <->
  (0 <= s)%Z /\ (0 <= e)%Z /\ In (Z.to_nat s, Z.to_nat e) (occs true ps text).
Proof.
  rewrite occs_spec. unfold occurrence, OccB. split.
  - intros (p & Hp & Hne & Hs & He & Hocc). split; [lia|]. split; [lia|].
    assert (Hl : (Z.to_nat s + length p <= length text)%nat).
    { unfold M.occ_at in Hocc. apply andb_prop in Hocc. destruct Hocc as [_ Hb]. cbn [negb orb] in Hb. apply andb_prop in Hb. destruct Hb as [_ Hb].
      apply is_bound_iff in Hb. apply bounds_le in Hb. exact Hb. }
    assert (Hp1 : (1 <= length p)%nat) by (destruct p; [congruence|cbn; lia]).
    split; [lia|]. split; [lia|]. exists p. repeat split; auto. lia.
  - intros (Hs & He & Hr & Hlt & p & Hp & Hne & El & Hocc). exists p. repeat split; auto. lia.
Qed.

Lemma occurrence_meaning ps text s e : occurrence ps text s e <->
  exists p, In p ps /\ p <> [] /\ (0 <= s)%Z /\ e = (s + Z.of_nat (length p))%Z /\
            is_prefix p (skipn (Z.to_nat s) text) && (is_bound text (Z.to_nat s) && is_bound text (Z.to_nat s + length p)) = true.
Proof. reflexivity. Qed.

(* ------------------------------------------------------------------ PrefixSearch *)
From V Require Import Proofs.TriePrefix.

Lemma built_length ps T : built ps T -> length T = length (inserts ps).
Proof.
  intros E. destruct (build_correct (inserts ps) (ins_wf _ _ (INS_inserts ps)) (ins_fail _ _ (INS_inserts ps))) as (T' & E' & _ & _ & L').
  unfold built in E. rewrite E in E'. inversion E'; subst. exact L'.
Qed.

Lemma canon_nodes ps : Forall is_bytes ps -> forall x, inT (inserts ps) x = true -> runes_of (wbytes x) = x.
Proof.
  intros Hps x Hx. destruct (inserts_nodes ps x Hx) as [->|(p & ext & Hp & E)]; [reflexivity|].
  rewrite Forall_forall in Hps. apply (runes_prefix_canon p x ext (Hps p Hp) E).
Qed.

Theorem prefix_search_correct ps key T : Forall is_bytes ps -> is_bytes key -> built ps T ->
  exists l, M.prefix_search T key = Ok l /\ NoDup l /\
    (forall y, In y l <-> In y ps /\ y <> [] /\ is_prefix key y = true /\ is_bound y (length key) = true).
Proof.
  intros Hps Hb E. destruct (built_facts ps T E) as [HS _]. pose proof (INS_inserts ps) as HI.
  destruct (prefix_search_nodes (inserts ps) T (ins_wf _ _ HI) HS (built_length ps T E) (canon_nodes ps Hps) key (wbytes_runes_of key Hb))
    as (l & El & Hn & Hl).
  exists l. split; [exact El|]. split; [exact Hn|]. intros y. rewrite Hl. split.
  - intros (x & (e & Ex) & Hx & He & ->). apply (ins_end _ _ HI) in He. destruct He as (p & Hp & Hne & Er).
    assert (Hpb : is_bytes p) by (rewrite Forall_forall in Hps; apply Hps; exact Hp).
    assert (Ep : wbytes x = p) by (rewrite <- Er; apply wbytes_runes_of; exact Hpb).
    rewrite Ep. split; [exact Hp|]. split; [exact Hne|]. split.
    + apply is_prefix_app. exists (wbytes e). rewrite <- Ep, Ex, wbytes_app, (wbytes_runes_of key Hb). reflexivity.
    + apply is_bound_iff. rewrite <- (wbytes_runes_of key Hb). apply (bounds_prefix_runes (runes_of key) p e Hpb (eq_trans Er Ex)).
  - intros (Hp & Hne & Hpre & Hbd). apply is_prefix_app in Hpre. destruct Hpre as (c & Ec). apply is_bound_iff in Hbd.
    assert (Hpb : is_bytes y) by (rewrite Forall_forall in Hps; apply Hps; exact Hp).
    rewrite Ec in Hbd. pose proof (tokens_app key c Hbd) as Ht.
    exists (runes_of y). split; [|split; [|split]].
    + exists (runes_of c). unfold runes_of. rewrite Ec, Ht, map_app. reflexivity.
    + assert (He : is_end (inserts ps) (runes_of y) = true) by (apply (ins_end _ _ HI); exists y; auto).
      unfold is_end in He. unfold TrieBuild.inT0, inT. destruct (get (inserts ps) (runes_of y)); [reflexivity|discriminate].
    + apply (ins_end _ _ HI). exists y. auto.
    + symmetry. apply wbytes_runes_of. exact Hpb.
Qed.

(* the executable specification of the run (rune-aligned reading) lists the same strings *)
Theorem prefix_search_spec ps key T : Forall is_bytes ps -> is_bytes key -> built ps T ->
  exists l, M.prefix_search T key = Ok l /\ NoDup l /\ (forall y, In y l <-> In y (spec_prefix true ps key)).
Proof.
  intros Hps Hb E. destruct (prefix_search_correct ps key T Hps Hb E) as (l & El & Hn & Hl).
  exists l. split; [exact El|]. split; [exact Hn|]. intros y. rewrite Hl. unfold spec_prefix. rewrite filter_In, patterns_in.
  cbn [negb orb]. rewrite andb_true_iff. tauto.
Qed.
