(* C01: the refinement theorem in its final form.
     judge_accepts_model : forall args, wf_case args = true -> judge (put_list args ++ put_list (run_case args)) = [1]
   wf_case = wf_syntax && (all_bounded || finishes)  (Run/C01.v).  For cases without the unbounded wait loops
   (and at most 4 timed retries per call) termination within the schedule is proved here, so the premise is purely
   syntactic; for the unbounded loops the premise [finishes] is evaluated on the model's run. *)
From Coq Require Import List ZArith Lia Bool Arith.
Import ListNotations.
From V Require Import Lib.Enc Model.SyncRingConc Model.SyncRingJudge Proofs.SyncRingConc Run.C01
  Proofs.SyncRingJudgeTop Proofs.SyncRingJudgeTerm.
Local Open Scope Z_scope.

Theorem bounded_cases_finish : forall args, wf_syntax args = true -> all_bounded args = true -> finishes args = true.
Proof.
  intros args Hwf Hb.
  destruct args as [|k [|bh [|bl [|fill [|nt r]]]]]; try discriminate Hwf.
  unfold finishes. unfold all_bounded in Hb.
  destruct (get_lists (Z.to_nat nt) r) as [progs r1] eqn:Egl.
  destruct (get_list r1) as [sched r2] eqn:Egs.
  destruct (wf_go _ _ _ _ _ _ _ _ _ _ Egl Egs Hwf) as (Hlen & Hnn & c' & rts' & evs & Hgo & _ & _).
  rewrite Hgo. eapply go_finishes; eauto.
  - reflexivity.
  - apply Forall_forall. intros pr Hpr. apply Forall_forall. intros x Hx.
    rewrite forallb_forall in Hb. specialize (Hb pr Hpr). rewrite forallb_forall in Hb. auto.
Qed.

Theorem judge_accepts_model : forall args, wf_case args = true -> judge (put_list args ++ put_list (run_case args)) = [1].
Proof.
  intros args H. unfold wf_case in H. apply andb_true_iff in H. destruct H as [Hwf H].
  apply judge_accepts_finished; auto. apply orb_true_iff in H. destruct H as [H|H]; auto.
  apply bounded_cases_finish; auto.
Qed.

(* the syntactic corollary: no premise that refers to the run *)
Theorem judge_accepts_model_bounded : forall args,
  wf_syntax args = true -> all_bounded args = true -> judge (put_list args ++ put_list (run_case args)) = [1].
Proof. intros args H1 H2. apply judge_accepts_model. unfold wf_case. rewrite H1, H2. reflexivity. Qed.

(* the premises are satisfiable: the anchor case of Run/C01.v, and a case with the unbounded loops *)
Example wf_case_anchor : wf_case [1; 0; 0; 0; 2;  1; 7;  1; 0;  12; 0;0;0;0; 1;1;1; 0;0; 1;1;1] = true.
Proof. vm_compute. reflexivity. Qed.
Example wf_case_waitloops : wf_case [1; 0; 0; 1; 2;  1; 1000005;  1; -10; 5; 0;0;0;0;1] = true.
Proof. vm_compute. reflexivity. Qed.
Print Assumptions judge_accepts_model.
