(* C02 — randomLevel: for every raw 64-bit word (indeed every integer) the drawn height is in 1..maxLevel,
   with the constants read from listz/skip.go (Gen/SkipConsts.v). *)
From Coq Require Import List ZArith Lia Bool Arith.
From V Require Import Gen.SkipConsts Model.Skip.
Import ListNotations.
Local Open Scope Z_scope.

Lemma maxL_val : maxL = Z.to_nat skip_maxLevel.
Proof. reflexivity. Qed.
Lemma maxL_pos : (1 <= maxL)%nat.
Proof. vm_compute. lia. Qed.

(* levelMask = maxLevel - 1 = 2^5 - 1: x & levelMask = x mod maxLevel *)
Lemma levelMask_ones : skip_levelMask = Z.ones 5 /\ skip_maxLevel = 2 ^ 5.
Proof. split; reflexivity. Qed.

Theorem random_level_range w : (1 <= random_level w <= maxL)%nat.
Proof.
  unfold random_level. destruct levelMask_ones as [E1 E2].
  set (x := skip_maxLevel - bitlen (Z.land w skip_zoneMask)).
  rewrite E1, Z.land_ones by lia.
  assert (0 <= x mod 2 ^ 5 < 2 ^ 5) by (apply Z.mod_pos_bound; lia).
  rewrite maxL_val, E2. split.
  - change 1%nat with (Z.to_nat 1). apply Z2Nat.inj_le; lia.
  - apply Z2Nat.inj_le; lia.
Qed.

(* the raw heights of the scripted words used by the harness: 2^(32-h) gives h, 0 gives 1 *)
Example random_level_examples :
  map random_level [0; 1; 2; 4294967295; 1099511627776; 7; 2147483648; 1073741824; 4294967296 * 12345 + 536870912] =
  [1; 32; 31; 1; 1; 30; 1; 2; 3]%nat.
Proof. vm_compute. reflexivity. Qed.
