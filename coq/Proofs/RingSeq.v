(* C10 — ringz.Ring: the checked model of Model/RingSeq.v refines the bounded FIFO for every operation sequence.
   Under Pure.Inv every check of the model passes (no panic) and Go's `%` is the mathematical `mod`, so the model
   takes the pure steps of Proofs/RingPure.v; their queue-level lemmas give the refinement. *)
From Coq Require Import List ZArith Lia Bool Arith.
From V Require Import Gen.Ringz Model.RingSeq Proofs.RingPure.
Import ListNotations.
Local Open Scope Z_scope.
Arguments Z.add : simpl never.
Arguments Z.sub : simpl never.
Arguments Z.mul : simpl never.
Arguments Z.modulo : simpl never.
Arguments Z.rem : simpl never.
Arguments Z.of_nat : simpl never.
Arguments Z.to_nat : simpl never.

Import Pure.
Local Notation Inv := Pure.Inv.

(* ---- shape facts that follow from the invariant *)
Lemma inv_shape r q : Inv r q ->
  0 < cap r /\ Z.of_nat (length (vals r)) = cap r /\ -1 <= tail r < cap r /\ -1 <= head r < cap r /\
  (q <> [] -> 0 <= head r /\ 0 <= tail r) /\ (q = [] -> head r = -1 /\ tail r = -1).
Proof.
  intros (Hc & Hl & Hq & Hm). destruct q as [|x q].
  - destruct Hm as [Hh Ht]. rewrite Hh, Ht. repeat split; try lia; congruence.
  - destruct Hm as (Hh & Ht & _). pose proof (Z.mod_pos_bound (head r + Z.of_nat (length (x :: q)) - 1) (cap r) Hc).
    repeat split; try lia; try discriminate.
Qed.

Lemma gorem_mod a c : 0 <= a -> 0 < c -> gorem a c = Some (a mod c).
Proof.
  intros Ha Hc. unfold gorem. destruct (Z.eqb_spec c 0); [lia|]. rewrite Z.rem_mod_nonneg by lia. reflexivity.
Qed.

Lemma is_empty_eq r : RingSeq.is_empty r = Pure.is_empty r.
Proof. reflexivity. Qed.

Lemma is_full_bridge r q : Inv r q -> RingSeq.is_full r = Some (Pure.is_full r).
Proof.
  intros HI. destruct (inv_shape r q HI) as (Hc & _ & Ht & _). unfold RingSeq.is_full, Pure.is_full.
  rewrite gorem_mod by lia. reflexivity.
Qed.

Lemma set_at_ok l i x : 0 <= i < Z.of_nat (length l) -> set_at l i x = Some (upd l (Z.to_nat i) x).
Proof.
  intros H. unfold set_at. destruct (Z.leb_spec 0 i); [|lia]. destruct (Z.ltb_spec i (Z.of_nat (length l))); [|lia]. reflexivity.
Qed.
Lemma get_at_ok l i : 0 <= i < Z.of_nat (length l) -> get_at l i = Some (nth (Z.to_nat i) l 0).
Proof.
  intros H. unfold get_at. destruct (Z.leb_spec 0 i); [|lia]. apply nth_error_nth'. lia.
Qed.

Lemma push_bridge r q v : Inv r q -> RingSeq.push r v = Some (Pure.push r v).
Proof.
  intros HI. destruct (inv_shape r q HI) as (Hc & Hl & Ht & _). unfold RingSeq.push, Pure.push.
  rewrite (is_full_bridge r q HI). destruct (Pure.is_full r); [reflexivity|].
  rewrite gorem_mod by lia. pose proof (Z.mod_pos_bound (tail r + 1) (cap r) Hc).
  rewrite set_at_ok by lia. reflexivity.
Qed.

Definition pop_res (o : option Z) : bool * Z := match o with None => (false, 0) | Some v => (true, v) end.
Lemma pop_bridge r q : Inv r q -> RingSeq.pop r = Some (fst (Pure.pop r), pop_res (snd (Pure.pop r))).
Proof.
  intros HI. destruct (inv_shape r q HI) as (Hc & Hl & Ht & Hh & Hne & He). unfold RingSeq.pop, Pure.pop.
  rewrite is_empty_eq. destruct (Pure.is_empty r) eqn:Ee; [reflexivity|].
  unfold Pure.is_empty in Ee. apply Z.eqb_neq in Ee.
  assert (Hh0 : 0 <= head r) by lia.
  rewrite get_at_ok, set_at_ok by lia.
  destruct (head r =? tail r); [reflexivity|]. rewrite gorem_mod by lia. reflexivity.
Qed.

Lemma peek_spec r q : Inv r q ->
  RingSeq.peek r = Some (match q with [] => (false, 0) | x :: _ => (true, x) end).
Proof.
  intros HI. destruct (inv_shape r q HI) as (Hc & Hl & Ht & Hh & Hne & He). unfold RingSeq.peek.
  destruct q as [|x q].
  - destruct (He eq_refl) as [E _]. unfold RingSeq.is_empty. rewrite E. reflexivity.
  - destruct (Hne ltac:(discriminate)) as [Hh0 _]. unfold RingSeq.is_empty.
    destruct (Z.eqb_spec (head r) ring_empty) as [E|_]; [unfold ring_empty in E; lia|].
    rewrite get_at_ok by lia. destruct HI as (_ & _ & _ & (_ & _ & Hv)).
    specialize (Hv 0%nat ltac:(cbn [length]; lia)). cbn [nth] in Hv.
    replace ((head r + Z.of_nat 0) mod cap r) with (head r) in Hv by (rewrite Z.mod_small; lia).
    rewrite Hv. reflexivity.
Qed.

Lemma len_eq r : RingSeq.len r = Pure.len r.
Proof. reflexivity. Qed.

Lemma slice_ok l a b : 0 <= a -> a <= b -> b <= Z.of_nat (length l) ->
  slice l a b = Some (firstn (Z.to_nat b - Z.to_nat a) (skipn (Z.to_nat a) l)).
Proof.
  intros H1 H2 H3. unfold slice. destruct (Z.leb_spec 0 a); [|lia]. destruct (Z.leb_spec a b); [|lia].
  destruct (Z.leb_spec b (Z.of_nat (length l))); [|lia]. reflexivity.
Qed.

Lemma recap_bridge r q c : Inv r q -> RingSeq.recap r c = Some (Pure.recap r c).
Proof.
  intros HI. destruct (inv_shape r q HI) as (Hc & Hl & Ht & Hh & Hne & He). unfold RingSeq.recap, Pure.recap.
  destruct ((c <=? 0) || (c =? cap r)); [reflexivity|]. rewrite len_eq. destruct (c <? Pure.len r); [reflexivity|].
  rewrite is_empty_eq. destruct (Pure.is_empty r) eqn:Ee; [reflexivity|].
  unfold Pure.is_empty in Ee. apply Z.eqb_neq in Ee.
  assert (Hq : q <> []) by (intros E; destruct (He E); lia). destruct (Hne Hq) as [Hh0 Ht0].
  destruct (Z.leb_spec (head r) (tail r)) as [Hle|Hgt].
  - rewrite slice_ok by lia. replace (Z.to_nat (tail r + 1)) with (S (Z.to_nat (tail r))) by lia. reflexivity.
  - rewrite !slice_ok by lia. replace (Z.to_nat (tail r + 1)) with (S (Z.to_nat (tail r))) by lia.
    replace (Z.to_nat (Z.of_nat (length (vals r))) - Z.to_nat (head r))%nat with (length (skipn (Z.to_nat (head r)) (vals r)))
      by (rewrite skipn_length; lia).
    rewrite firstn_all. change (Z.to_nat 0) with 0%nat. rewrite Nat.sub_0_r. cbn [skipn]. reflexivity.
Qed.

Lemma push_expand_bridge r q v : Inv r q -> RingSeq.push_expand r v = Some (Pure.push_expand r v).
Proof.
  intros HI. unfold RingSeq.push_expand, Pure.push_expand. rewrite (is_full_bridge r q HI).
  destruct (Pure.is_full r) eqn:Ef.
  - rewrite (recap_bridge r q _ HI). change ring_expand_factor with 2.
    destruct (Pure.recap_spec r q (cap r * 2) HI) as (_ & HI2 & _).
    destruct (Pure.recap r (cap r * 2)) as [r1 b1] eqn:Er. cbn [fst] in *.
    rewrite (push_bridge r1 q v HI2). destruct (Pure.push r1 v). reflexivity.
  - rewrite (push_bridge r q v HI). destruct (Pure.push r v). reflexivity.
Qed.

Ltac done4 := split; [reflexivity | split; [try reflexivity | cbn [fq fcap]; split; [try assumption | try assumption; try reflexivity]]].

(* ---- one step of the model against one step of the specification *)
Lemma step_refines r q o : Inv r q ->
  match fstep {| fcap := cap r; fq := q |} o with
  | None => step r o = None
  | Some (f', x) => exists r' y, step r o = Some (r', y) /\ hide y = x /\ Inv r' (fq f') /\ cap r' = fcap f'
  end.
Proof.
  intros HI. pose proof (inv_shape r q HI) as (Hc & Hl & Ht & Hh & Hne & He).
  pose proof (Pure.len_spec r q HI) as Hlen. pose proof (Pure.full_iff r q HI) as Hfull.
  destruct o as [v| | | | | | |c|v|c|]; cbn [fstep step]; unfold flen; cbn [fcap fq].
  - (* Push *)
    rewrite (push_bridge r q v HI). destruct (Pure.push_spec r q v HI) as [Hb HI'].
    destruct (Pure.push r v) as [r' b] eqn:Ep. cbn [fst snd] in *.
    assert (Hcap : cap r' = cap r).
    { unfold Pure.push in Ep. destruct (Pure.is_full r); inversion Ep; reflexivity. }
    destruct (Z.ltb_spec (Z.of_nat (length q)) (cap r)) as [Hlt|Hge].
    + destruct (Z.eqb_spec (Z.of_nat (length q)) (cap r)); [lia|]. cbn [negb] in Hb. subst b. lazy beta iota.
      exists r', (RBool true). done4.
    + destruct HI as (_ & _ & Hq & _). destruct (Z.eqb_spec (Z.of_nat (length q)) (cap r)); [|lia]. cbn [negb] in Hb. subst b. lazy beta iota.
      exists r', (RBool false). done4.
  - (* Pop *)
    rewrite (pop_bridge r q HI). pose proof (Pure.pop_spec r q HI) as Hp. destruct q as [|x q'].
    + rewrite Hp. cbn [fst snd pop_res]. exists r, (RVal false 0). done4.
    + destruct Hp as [Hs HI']. destruct (Pure.pop r) as [r' o'] eqn:Ep. cbn [fst snd] in *. subst o'. cbn [pop_res].
      exists r', (RVal true x). done4.
      unfold Pure.pop in Ep. destruct (Pure.is_empty r); [inversion Ep; reflexivity|].
      destruct (head r =? tail r); inversion Ep; reflexivity.
  - (* Peek *)
    rewrite (peek_spec r q HI). destruct q as [|x q']; eexists _, _; done4.
  - (* Len *)
    exists r, (RInt (RingSeq.len r)). rewrite len_eq, Hlen. done4.
  - (* IsEmpty *)
    exists r, (RBool (RingSeq.is_empty r)). done4. cbn [hide]. f_equal.
    destruct q as [|x q'].
    + destruct (He eq_refl) as [E _]. unfold RingSeq.is_empty. rewrite E. reflexivity.
    + destruct (Hne ltac:(discriminate)) as [Hh0 _]. unfold RingSeq.is_empty.
      destruct (Z.eqb_spec (head r) ring_empty) as [E|_]; [unfold ring_empty in E; lia|].
      cbn [length]. destruct (Z.eqb_spec (Z.of_nat (S (length q'))) 0); [lia|reflexivity].
  - (* IsFull *)
    rewrite (is_full_bridge r q HI). exists r, (RBool (Pure.is_full r)). done4. cbn [hide]. f_equal.
    destruct (Pure.is_full r) eqn:Ef.
    + destruct (Z.eqb_spec (Z.of_nat (length q)) (cap r)); [reflexivity|]. exfalso. apply n, Hfull. reflexivity.
    + destruct (Z.eqb_spec (Z.of_nat (length q)) (cap r)) as [E|]; [|reflexivity]. apply Hfull in E. congruence.
  - (* Cap *)
    exists r, (RInt (cap r)). done4.
  - (* Recap *)
    rewrite (recap_bridge r q c HI). destruct (Pure.recap_spec r q c HI) as (Hs & HI' & Hcap).
    destruct (Pure.recap r c) as [r' b] eqn:Er. cbn [fst snd] in *.
    destruct ((0 <? c) && negb (c =? cap r) && (Z.of_nat (length q) <=? c)); subst b;
      eexists _, _; done4.
  - (* PushWithExpand *)
    rewrite (push_expand_bridge r q v HI). pose proof (Pure.push_expand_spec r q v HI) as HI'.
    exists (Pure.push_expand r v), RUnit. done4.
    unfold Pure.push_expand. destruct (Pure.is_full r) eqn:Ef.
    + assert (E : Z.of_nat (length q) = cap r) by (apply Hfull; reflexivity). rewrite E, Z.eqb_refl.
      destruct (Pure.recap_spec r q (cap r * 2) HI) as (_ & HI2 & Hcap).
      replace ((0 <? cap r * 2) && negb (cap r * 2 =? cap r) && (Z.of_nat (length q) <=? cap r * 2)) with true in Hcap.
      2:{ symmetry. destruct (Z.ltb_spec 0 (cap r * 2)); [|lia]. destruct (Z.eqb_spec (cap r * 2) (cap r)); [lia|].
          destruct (Z.leb_spec (Z.of_nat (length q)) (cap r * 2)); [reflexivity|lia]. }
      unfold Pure.push. destruct (Pure.is_full (fst (Pure.recap r (cap r * 2)))); cbn [fst cap]; rewrite Hcap; lia.
    + destruct (Z.eqb_spec (Z.of_nat (length q)) (cap r)) as [E|_]; [apply Hfull in E; congruence|].
      unfold Pure.push. rewrite Ef. reflexivity.
  - (* Init *)
    unfold fnew, init. destruct (c <=? 0) eqn:Ec; [reflexivity|]. apply Z.leb_gt in Ec.
    eexists _, RUnit. done4.
    repeat split; cbn [vals head tail cap length]; auto; try lia. rewrite repeat_length. lia.
  - (* Dump *)
    exists r, (RDump (dump r)). done4. cbn [hide]. f_equal. f_equal. unfold dump. cbn [length]. lia.
Qed.

Lemma run_refines : forall ops r q acc, Inv r q ->
  option_map (map hide) (run_acc r ops acc) = frun_acc {| fcap := cap r; fq := q |} ops (map hide acc).
Proof.
  induction ops as [|o ops IH]; intros r q acc HI; cbn [run_acc frun_acc].
  - cbn [option_map]. rewrite map_rev. reflexivity.
  - pose proof (step_refines r q o HI) as Hs. destruct (fstep {| fcap := cap r; fq := q |} o) as [[f' x]|].
    + destruct Hs as (r' & y & Es & Hy & HI' & Hc). rewrite Es. rewrite (IH r' (fq f') (y :: acc) HI').
      cbn [map]. rewrite Hy, Hc. destruct f'; reflexivity.
    + rewrite Hs. reflexivity.
Qed.

Lemma init_inv c : 0 < c -> exists r, init c = Some r /\ Inv r [] /\ cap r = c.
Proof.
  intros Hc. unfold init. destruct (Z.leb_spec c 0); [lia|]. eexists. split; [reflexivity|]. split; [|reflexivity].
  repeat split; cbn [vals head tail cap length]; try lia. rewrite repeat_length. lia.
Qed.

(* the Ring model refines the bounded FIFO: every capacity (non-positive ones panic on both sides), every
   operation sequence; only the content of a Dump is hidden *)
Theorem ring_refines_fifo : forall c ops, option_map (map hide) (ring_case c ops) = fifo_case c ops.
Proof.
  intros c ops. unfold ring_case, fifo_case, fnew. destruct (Z.leb_spec c 0) as [Hc|Hc].
  - unfold init. destruct (Z.leb_spec c 0); [reflexivity|lia].
  - destruct (init_inv c Hc) as (r & E & HI & Hcap). rewrite E. unfold run, frun.
    rewrite (run_refines ops r [] [] HI). rewrite Hcap. reflexivity.
Qed.

(* ---- reachable states *)
Lemma exec_inv : forall ops r q, Inv r q -> forall r', exec r ops = Some r' -> exists q', Inv r' q'.
Proof.
  induction ops as [|o ops IH]; intros r q HI r' E; cbn [exec] in E.
  - inversion E; subst. eauto.
  - pose proof (step_refines r q o HI) as Hs. destruct (fstep {| fcap := cap r; fq := q |} o) as [[f' x]|].
    + destruct Hs as (r1 & y & Es & _ & HI' & _). rewrite Es in E. eapply IH; eauto.
    + rewrite Hs in E. discriminate.
Qed.

Theorem reachable_inv : forall c ops r, match init c with None => None | Some r0 => exec r0 ops end = Some r ->
  exists q, Inv r q.
Proof.
  intros c ops r E. destruct (Z.leb_spec c 0) as [Hc|Hc].
  - unfold init in E. destruct (Z.leb_spec c 0); [discriminate|lia].
  - destruct (init_inv c Hc) as (r0 & E0 & HI & _). rewrite E0 in E. eapply exec_inv; eauto.
Qed.

(* Recap succeeds exactly for positive capacities different from the current one and not below Len; content, order
   and the invariant are preserved whatever head/tail are *)
Theorem recap_succeeds_iff : forall r q c, Inv r q ->
  exists r' b, RingSeq.recap r c = Some (r', b) /\
    (b = true <-> 0 < c /\ c <> cap r /\ RingSeq.len r <= c) /\
    RingSeq.len r = Z.of_nat (length q) /\ Inv r' q /\ cap r' = (if b then c else cap r).
Proof.
  intros r q c HI. rewrite (recap_bridge r q c HI). destruct (Pure.recap_spec r q c HI) as (Hs & HI' & Hcap).
  pose proof (Pure.len_spec r q HI) as Hlen. rewrite len_eq.
  destruct (Pure.recap r c) as [r' b] eqn:Er. cbn [fst snd] in *. exists r', b. split; [reflexivity|].
  split; [|split; [exact Hlen|split; [exact HI'|]]].
  - rewrite Hs, Hlen. destruct (Z.ltb_spec 0 c); destruct (Z.eqb_spec c (cap r)); destruct (Z.leb_spec (Z.of_nat (length q)) c);
      cbn [negb andb]; split; try discriminate; try lia; auto.
  - rewrite Hs in *. exact Hcap.
Qed.

(* PushWithExpand never fails and appends *)
Theorem push_expand_appends : forall r q v, Inv r q ->
  exists r', RingSeq.push_expand r v = Some r' /\ Inv r' (q ++ [v]).
Proof.
  intros r q v HI. rewrite (push_expand_bridge r q v HI). eexists. split; [reflexivity|]. apply Pure.push_expand_spec; auto.
Qed.

(* the premises are satisfiable in a wrapped rotation: capacity 3, head = 2, tail = 0 holds [3; 4]; Recap(5) there
   uses the two-part copy and keeps the order *)
Example wrapped_state_inv :
  exists r, exec {| vals := [0; 0; 0]; head := -1; tail := -1; cap := 3 |} [OPush 1; OPush 2; OPush 3; OPop; OPop; OPush 4] = Some r /\
            head r = 2 /\ tail r = 0 /\ Inv r [3; 4].
Proof.
  eexists. split; [vm_compute; reflexivity|]. split; [reflexivity|]. split; [reflexivity|].
  unfold Pure.Inv. cbn [cap vals head tail length]. repeat split; try lia.
  intros j Hj. destruct j as [|[|j]]; [reflexivity|reflexivity|cbn [length] in Hj; lia].
Qed.
Example wrapped_recap :
  ring_case 3 [OPush 1; OPush 2; OPush 3; OPop; OPop; OPush 4; ODump; ORecap 5; ODump; OPop; OPop; OPop]
  = Some [RBool true; RBool true; RBool true; RVal true 1; RVal true 2; RBool true; RDump [2; 0; 4; 0; 3];
          RBool true; RDump [0; 1; 3; 4; 0; 0; 0]; RVal true 3; RVal true 4; RVal false 0].
Proof. vm_compute. reflexivity. Qed.
