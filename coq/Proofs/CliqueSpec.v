(* C18: the brute-force specification of Run/C18.v (sub 1 / the judge of GetMaximalCliques) lists exactly the maximal
   cliques, each as its ascending vertex list. *)
From Coq Require Import List Lia Bool Arith Permutation Sorted.
From V Require Import Model.Dp Model.Clique Proofs.DpJudge Proofs.CliqueBK.
Import ListNotations.

Lemma memn_iff x l : memn x l = true <-> In x l.
Proof.
  unfold memn. rewrite existsb_exists. split.
  - intros (y & Hy & E). apply Nat.eqb_eq in E. subst. exact Hy.
  - intros H. exists x. split; [exact H|apply Nat.eqb_refl].
Qed.
Lemma is_clique_iff g c : is_clique g c = true <-> cliqueP g c.
Proof.
  unfold is_clique, cliqueP. rewrite forallb_forall. split.
  - intros H u w Hu Hw Hne. specialize (H u Hu). rewrite forallb_forall in H. specialize (H w Hw). apply orb_true_iff in H.
    destruct H as [H|H]; [apply Nat.eqb_eq in H; contradiction|exact H].
  - intros H u Hu. apply forallb_forall. intros w Hw. destruct (Nat.eqb_spec u w); [reflexivity|]. cbn [orb]. apply H; auto.
Qed.
Lemma maximal_iff g n c : maximal g n c = true <-> forall v, v < n -> ~ In v c -> exists u, In u c /\ nbr g v u = false.
Proof.
  unfold maximal. rewrite forallb_forall. split.
  - intros H v Hv Hnin. specialize (H v ltac:(apply in_seq; lia)). apply orb_true_iff in H. destruct H as [H|H].
    + apply memn_iff in H. contradiction.
    + apply negb_true_iff in H.
      assert (Hex : existsb (fun u => negb (nbr g v u)) c = true).
      { clear -H. induction c as [|r c IH]; [discriminate H|]. cbn [forallb existsb] in *. destruct (nbr g v r); cbn [negb andb orb] in *; auto. }
      apply existsb_exists in Hex. destruct Hex as (u & Hu & Hn). exists u. split; [exact Hu|]. apply negb_true_iff in Hn. exact Hn.
  - intros H v Hv. apply in_seq in Hv. destruct (memn v c) eqn:E; [reflexivity|]. cbn [orb]. apply negb_true_iff.
    assert (Hnin : ~ In v c) by (intros Hin; apply memn_iff in Hin; congruence).
    destruct (H v ltac:(lia) Hnin) as (u & Hu & Hn).
    destruct (forallb (fun u0 => nbr g v u0) c) eqn:F; [|reflexivity]. rewrite forallb_forall in F. rewrite (F u Hu) in Hn. discriminate.
Qed.

(* the specification list = the ascending vertex lists of the maximal cliques *)
Theorem spec_cliques_meaning g n C : In C (spec_cliques g n) <-> StronglySorted lt C /\ maxcliqueP g n C.
Proof.
  unfold spec_cliques, maxcliqueP. rewrite filter_In, subseqs_seq_iff, andb_true_iff, is_clique_iff, maximal_iff. split.
  - intros ((Hs & Hb) & Hc & Hm). split; [exact Hs|]. split; [exact Hc|]. split; [|exact Hm].
    intros u Hu. rewrite Forall_forall in Hb. specialize (Hb u Hu). lia.
  - intros (Hs & Hc & Hb & Hm). split; [split; [exact Hs|apply Forall_forall; intros u Hu; specialize (Hb u Hu); lia]|]. split; assumption.
Qed.

(* ---- insertion sort with a total order, generically ---- *)
Section ISort.
Variable A : Type.
Variable leb : A -> A -> bool.
Hypothesis leb_total : forall a b, leb a b = true \/ leb b a = true.
Hypothesis leb_trans : forall a b c, leb a b = true -> leb b c = true -> leb a c = true.
Hypothesis leb_antisym : forall a b, leb a b = true -> leb b a = true -> a = b.
Fixpoint gins (x : A) (l : list A) : list A :=
  match l with [] => [x] | y :: t => if leb x y then x :: l else y :: gins x t end.
Definition gsort (l : list A) : list A := fold_right gins [] l.
Local Notation R := (fun a b => leb a b = true).

Lemma gins_perm x l : Permutation (gins x l) (x :: l).
Proof.
  induction l as [|y t IH]; cbn [gins]; [apply Permutation_refl|]. destruct (leb x y); [apply Permutation_refl|].
  etransitivity; [apply perm_skip; exact IH|apply perm_swap].
Qed.
Lemma gsort_perm l : Permutation (gsort l) l.
Proof. induction l as [|x t IH]; cbn [gsort fold_right]; [constructor|]. etransitivity; [apply gins_perm|]. constructor. exact IH. Qed.
Lemma gins_sorted x l : StronglySorted R l -> StronglySorted R (gins x l).
Proof.
  induction l as [|y t IH]; intros Hs; cbn [gins]; [repeat constructor|]. inversion Hs as [|? ? Hs' Hall]; subst.
  destruct (leb x y) eqn:E.
  - constructor; [exact Hs|]. constructor; [exact E|]. eapply Forall_impl; [|exact Hall]. cbn beta. intros z Hz. eapply leb_trans; eauto.
  - constructor; [apply IH; exact Hs'|]. assert (Hyx : leb y x = true) by (destruct (leb_total x y); congruence).
    eapply Permutation_Forall; [apply Permutation_sym, gins_perm|]. constructor; assumption.
Qed.
Lemma gsort_sorted l : StronglySorted R (gsort l).
Proof. induction l as [|x t IH]; cbn [gsort fold_right]; [constructor|]. apply gins_sorted. exact IH. Qed.
Lemma sorted_perm_unique a : forall b, StronglySorted R a -> StronglySorted R b -> Permutation a b -> a = b.
Proof.
  induction a as [|x a IH]; intros b Ha Hb Hp.
  - apply Permutation_nil in Hp. subst. reflexivity.
  - destruct b as [|y b]; [apply Permutation_sym, Permutation_nil in Hp; discriminate|].
    inversion Ha as [|? ? Ha' Hxa]; subst. inversion Hb as [|? ? Hb' Hyb]; subst.
    assert (Exy : x = y).
    { assert (Hx : In x (y :: b)) by (apply (Permutation_in _ Hp); left; reflexivity).
      assert (Hy : In y (x :: a)) by (apply (Permutation_in _ (Permutation_sym Hp)); left; reflexivity).
      destruct Hx as [->|Hx]; [reflexivity|]. destruct Hy as [->|Hy]; [reflexivity|].
      rewrite Forall_forall in Hxa, Hyb. apply leb_antisym; [apply Hxa; exact Hy|apply Hyb; exact Hx]. }
    subst y. f_equal. apply IH; auto. apply Permutation_cons_inv in Hp. exact Hp.
Qed.
Theorem gsort_perm_eq l1 l2 : Permutation l1 l2 -> gsort l1 = gsort l2.
Proof.
  intros Hp. apply sorted_perm_unique; try apply gsort_sorted.
  etransitivity; [apply gsort_perm|]. etransitivity; [exact Hp|]. apply Permutation_sym, gsort_perm.
Qed.
Lemma gsort_id l : StronglySorted R l -> gsort l = l.
Proof.
  intros Hs. apply sorted_perm_unique; [apply gsort_sorted|exact Hs|apply gsort_perm].
Qed.
End ISort.

(* the two concrete sorts of Model/Clique.v *)
Lemma ins_gins x l : ins x l = gins nat Nat.leb x l.
Proof. induction l as [|y t IH]; cbn [ins gins]; [reflexivity|]. rewrite IH. reflexivity. Qed.
Lemma sortn_gsort l : sortn l = gsort nat Nat.leb l.
Proof. unfold sortn, gsort. induction l as [|x t IH]; cbn [fold_right]; [reflexivity|]. rewrite IH. apply ins_gins. Qed.
Lemma insl_gins x l : insl x l = gins (list nat) lex_le x l.
Proof. induction l as [|y t IH]; cbn [insl gins]; [reflexivity|]. rewrite IH. reflexivity. Qed.
Lemma canon_gsort cs : canon cs = gsort (list nat) lex_le (map sortn cs).
Proof. unfold canon, gsort. induction (map sortn cs) as [|x t IH]; cbn [fold_right]; [reflexivity|]. rewrite IH. apply insl_gins. Qed.

Lemma leb_total' a b : (a <=? b) = true \/ (b <=? a) = true.
Proof. destruct (Nat.leb_spec a b); [left; reflexivity|right; apply Nat.leb_le; lia]. Qed.
Lemma leb_trans' a b c : (a <=? b) = true -> (b <=? c) = true -> (a <=? c) = true.
Proof. rewrite !Nat.leb_le. lia. Qed.
Lemma leb_antisym' a b : (a <=? b) = true -> (b <=? a) = true -> a = b.
Proof. rewrite !Nat.leb_le. lia. Qed.

Lemma lex_total : forall a b, lex_le a b = true \/ lex_le b a = true.
Proof.
  induction a as [|x a IH]; intros b; [left; reflexivity|]. destruct b as [|y b]; [right; reflexivity|]. cbn [lex_le].
  destruct (Nat.ltb_spec x y); [left; reflexivity|]. destruct (Nat.ltb_spec y x); [right; reflexivity|]. apply IH.
Qed.
Lemma lex_trans : forall a b c, lex_le a b = true -> lex_le b c = true -> lex_le a c = true.
Proof.
  induction a as [|x a IH]; intros b c H1 H2; [reflexivity|]. destruct b as [|y b]; [discriminate H1|]. destruct c as [|z c]; [discriminate H2|].
  cbn [lex_le] in *. destruct (Nat.ltb_spec x y); destruct (Nat.ltb_spec y z); destruct (Nat.ltb_spec x z); try reflexivity; try lia;
    destruct (Nat.ltb_spec y x); destruct (Nat.ltb_spec z y); destruct (Nat.ltb_spec z x); try discriminate; try lia.
  eapply IH; eauto.
Qed.
Lemma lex_antisym : forall a b, lex_le a b = true -> lex_le b a = true -> a = b.
Proof.
  induction a as [|x a IH]; intros b H1 H2; destruct b as [|y b]; try reflexivity; try discriminate.
  cbn [lex_le] in *. destruct (Nat.ltb_spec x y); destruct (Nat.ltb_spec y x); try discriminate; try lia.
  assert (x = y) by lia. subst. f_equal. apply IH; auto.
Qed.

(* sorting a duplicate-free list gives the strictly ascending list with the same elements *)
Lemma sortn_perm l : Permutation (sortn l) l.
Proof. rewrite sortn_gsort. apply gsort_perm. Qed.
Lemma sorted_le_lt l : StronglySorted (fun a b => (a <=? b) = true) l -> NoDup l -> StronglySorted lt l.
Proof.
  induction l as [|x t IH]; intros Hs Hn; [constructor|]. inversion Hs as [|? ? Hs' Hall]; subst. inversion Hn as [|? ? Hx Hn']; subst.
  constructor; [apply IH; auto|]. rewrite Forall_forall in *. intros y Hy. specialize (Hall y Hy). apply Nat.leb_le in Hall.
  assert (x <> y) by (intros ->; contradiction). lia.
Qed.
Lemma sortn_sorted l : NoDup l -> StronglySorted lt (sortn l).
Proof.
  intros Hn. apply sorted_le_lt.
  - rewrite sortn_gsort. apply gsort_sorted; [apply leb_total'|apply leb_trans'].
  - eapply Permutation_NoDup; [apply Permutation_sym, sortn_perm|exact Hn].
Qed.
Lemma sorted_lt_le l : StronglySorted lt l -> StronglySorted (fun a b => (a <=? b) = true) l.
Proof.
  induction l as [|x t IH]; intros Hs; [constructor|]. inversion Hs; subst. constructor; [apply IH; auto|].
  eapply Forall_impl; [|eassumption]. cbn beta. intros y Hy. apply Nat.leb_le. lia.
Qed.
Lemma sortn_id l : StronglySorted lt l -> sortn l = l.
Proof. intros Hs. rewrite sortn_gsort. apply gsort_id; [apply leb_total'|apply leb_trans'|apply leb_antisym'|apply sorted_lt_le; exact Hs]. Qed.
Lemma sorted_lt_nodup l : StronglySorted lt l -> NoDup l.
Proof.
  induction l as [|x t IH]; intros Hs; [constructor|]. inversion Hs as [|? ? Hs' Hall]; subst. constructor; [|apply IH; exact Hs'].
  intros Hin. rewrite Forall_forall in Hall. specialize (Hall x Hin). lia.
Qed.
Lemma same_sorted_eq a b : StronglySorted lt a -> StronglySorted lt b -> same a b -> a = b.
Proof.
  intros Ha Hb Hs. apply (sorted_perm_unique nat Nat.leb leb_antisym'); try (apply sorted_lt_le; assumption).
  apply NoDup_Permutation; [apply sorted_lt_nodup; exact Ha|apply sorted_lt_nodup; exact Hb|exact Hs].
Qed.

Lemma nodup_app' {A} (a b : list A) : NoDup a -> NoDup b -> (forall x, In x a -> ~ In x b) -> NoDup (a ++ b).
Proof.
  induction a as [|x a IH]; intros Ha Hb Hd; cbn [app]; [exact Hb|]. inversion Ha; subst. constructor.
  - intros Hin. apply in_app_or in Hin. destruct Hin as [Hin|Hin]; [contradiction|]. apply (Hd x); [left; reflexivity|exact Hin].
  - apply IH; auto. intros y Hy. apply Hd. right; exact Hy.
Qed.
(* sub-sequences of a duplicate-free list are pairwise different *)
Lemma subseqs_incl {A} (l : list A) s : In s (subseqs l) -> incl s l.
Proof.
  revert s. induction l as [|x t IH]; intros s Hs; cbn [subseqs] in Hs.
  - destruct Hs as [<-|[]]. intros y [].
  - apply in_app_or in Hs. destruct Hs as [Hs|Hs].
    + apply in_map_iff in Hs. destruct Hs as (s' & <- & Hs'). intros y [<-|Hy]; [left; reflexivity|right; apply (IH s' Hs'); exact Hy].
    + intros y Hy. right. apply (IH s Hs). exact Hy.
Qed.
Lemma subseqs_nodup {A} (l : list A) : NoDup l -> NoDup (subseqs l).
Proof.
  induction l as [|x t IH]; intros Hn; cbn [subseqs]; [constructor; [intros []|constructor]|]. inversion Hn as [|? ? Hx Hn']; subst.
  apply nodup_app'.
  - apply FinFun.Injective_map_NoDup; [intros a b E; inversion E; reflexivity|apply IH; exact Hn'].
  - apply IH; exact Hn'.
  - intros s Hs Hs'. apply in_map_iff in Hs. destruct Hs as (s' & <- & _). apply Hx. apply (subseqs_incl t _ Hs'). left; reflexivity.
Qed.

Lemma same_sortn c : same (sortn c) c.
Proof. intros x. split; apply Permutation_in; [apply sortn_perm|apply Permutation_sym, sortn_perm]. Qed.
Lemma maxclique_same g n a b : same a b -> maxcliqueP g n a -> maxcliqueP g n b.
Proof.
  intros Hs (Hc & Hn & Hm). split; [|split].
  - intros u w Hu Hw. apply Hc; apply Hs; assumption.
  - intros u Hu. apply Hn. apply Hs. exact Hu.
  - intros v Hv Hnin. destruct (Hm v Hv) as (u & Hu & Hnb); [intros H; apply Hnin; apply Hs; exact H|]. exists u. split; [apply Hs; exact Hu|exact Hnb].
Qed.

(* the model's answer, brought to canonical form, is the canonical form of the brute-force specification: this is
   "the judge of Run/C18.v accepts the model" for GetMaximalCliques, for every vertex order *)
Theorem cliques_model_eq_spec g n : sym g -> irrefl g -> forall order, Permutation order (seq 0 n) ->
  exists cs, max_cliques g order = Some cs /\ canon cs = canon (spec_cliques g n).
Proof.
  intros Hsym Hirr order Hperm. destruct (bron_kerbosch_exact g n Hsym Hirr order Hperm) as (cs & E & Snd & Cpl & Nd).
  exists cs. split; [exact E|]. rewrite !canon_gsort.
  assert (Hid : map sortn (spec_cliques g n) = spec_cliques g n).
  { rewrite <- (map_id (spec_cliques g n)) at 2. apply map_ext_in. intros c Hc. apply spec_cliques_meaning in Hc. apply sortn_id. tauto. }
  rewrite Hid. apply gsort_perm_eq; [apply lex_total|apply lex_trans|apply lex_antisym|].
  apply NoDup_Permutation.
  - clear -Nd. induction cs as [|c t IH]; cbn [map]; [constructor|]. destruct Nd as [Hc Ht]. constructor; [|apply IH; exact Ht].
    intros Hin. apply in_map_iff in Hin. destruct Hin as (c' & Ec & Hc'). apply (Hc c' Hc'). intros x.
    rewrite <- (same_sortn c x), <- (same_sortn c' x), Ec. tauto.
  - unfold spec_cliques. apply NoDup_filter. apply subseqs_nodup. apply seq_NoDup.
  - intros x. split.
    + intros Hin. apply in_map_iff in Hin. destruct Hin as (c & <- & Hc). destruct (Snd c Hc) as [Hn Hm].
      apply spec_cliques_meaning. split; [apply sortn_sorted; exact Hn|]. apply (maxclique_same g n c); [|exact Hm].
      intros y. symmetry. apply same_sortn.
    + intros Hin. apply spec_cliques_meaning in Hin. destruct Hin as [Hs Hm]. destruct (Cpl x Hm) as (c & Hc & Hsame).
      apply in_map_iff. exists c. split; [|exact Hc]. destruct (Snd c Hc) as [Hn _]. apply same_sorted_eq; [apply sortn_sorted; exact Hn|exact Hs|].
      intros y. rewrite (same_sortn c y). apply Hsame.
Qed.
