(* C06 — mergeScopes: the repaired pass (Model.Trie.merge_scopes) yields disjoint increasing intervals with the same
   covered set, including termination; the pass as found is refuted on the scopes of a, c, abcde in abcde.
   From design-notes/proto/MergeScopes_proto.v. *)
From Coq Require Import List ZArith Lia Bool.
From V Require Import Model.Trie.
Import ListNotations.
Local Open Scope Z_scope.

(* ---- the pass as found in algz/trie.go:312-328 (index i only moves forward) ---- *)
Fixpoint merge_old_go (fuel : nat) (done : list iv) (cur : iv) (rest : list iv) : list iv :=
  match fuel with
  | O => rev done ++ cur :: rest
  | S f =>
    match rest with
    | [] => rev done ++ [cur]
    | n :: rest' =>
        if snd cur >? fst n
        then merge_old_go f done (Z.min (fst cur) (fst n), Z.max (snd cur) (snd n)) rest'
        else merge_old_go f (cur :: done) n rest'
    end
  end.
Definition merge_old (l : list iv) : list iv :=
  match l with [] => [] | c :: r => merge_old_go (length l) [] c r end.

(* ---- specification vocabulary ---- *)
Definition covered (l : list iv) (i : Z) : Prop := exists x, In x l /\ fst x <= i < snd x.
Definition inside (o x : iv) : Prop := fst x <= fst o /\ snd o <= snd x.
Definition wf (l : list iv) : Prop := Forall (fun x => fst x < snd x) l.
Fixpoint disj (l : list iv) : Prop :=            (* disjoint and increasing; touching allowed *)
  match l with
  | a :: (b :: _) as t => snd a <= fst b /\ disj t
  | _ => True
  end.
Fixpoint stop_sorted (l : list iv) : Prop :=
  match l with
  | a :: (b :: _) as t => snd a <= snd b /\ stop_sorted t
  | _ => True
  end.

(* the defect: occurrences of a, c, abcde in "abcde" *)
Example merge_old_refuted :
  let sc := [(0, 1); (2, 3); (0, 5)] in
  stop_sorted sc /\ wf sc /\ merge_old sc = [(0, 1); (0, 5)] /\ ~ disj (merge_old sc).
Proof.
  cbv zeta. split; [|split; [|split]].
  - cbn; lia.
  - repeat constructor; cbn; lia.
  - reflexivity.
  - cbn. intros [H _]. lia.
Qed.
Example merge_fixed_on_witness : merge_scopes [(0, 1); (2, 3); (0, 5)] = Some [(0, 5)].
Proof. reflexivity. Qed.

(* ---- stack-form disjointness (top first) ---- *)
Fixpoint ddisj (l : list iv) : Prop :=
  match l with
  | a :: (b :: _) as t => snd b <= fst a /\ ddisj t
  | _ => True
  end.

Lemma disj_snoc l a b : disj (l ++ [a]) -> snd a <= fst b -> disj ((l ++ [a]) ++ [b]).
Proof.
  induction l as [|x l IH]; cbn [app disj]; intros H Hab; [auto|].
  destruct l as [|y l]; cbn [app disj] in *; [tauto|]. destruct H as [H1 H2]. split; [exact H1|]. apply IH; auto.
Qed.
Lemma ddisj_rev l : ddisj l -> disj (rev l).
Proof.
  induction l as [|a l IH]; cbn [rev ddisj]; intros H; [exact I|].
  destruct l as [|b l]; [exact I|]. destruct H as [Hab Ht]. specialize (IH Ht). cbn [rev] in *.
  apply disj_snoc; auto.
Qed.

(* ---- invariant of the repaired pass ---- *)
Section Spec.
Variable input : list iv.

Definition all (done : list iv) (cur : iv) (rest : list iv) : list iv := cur :: done ++ rest.

Record MI (done : list iv) (cur : iv) (rest : list iv) : Prop := {
  i_wf : wf (all done cur rest);
  i_dd : ddisj (cur :: done);
  i_le : Forall (fun y => snd cur <= snd y) rest;
  i_ss : stop_sorted rest;
  i_cov : forall i, covered (all done cur rest) i <-> covered input i;
  i_in : forall o, In o input -> exists x, In x (all done cur rest) /\ inside o x;
  i_has : forall x, In x (all done cur rest) -> exists o, In o input /\ inside o x
}.

Record Post (m : list iv) : Prop := {
  p_disj : disj m;
  p_wf : wf m;
  p_cov : forall i, covered m i <-> covered input i;
  p_in : forall o, In o input -> exists x, In x m /\ inside o x;
  p_has : forall x, In x m -> exists o, In o input /\ inside o x
}.

Lemma in_all_rev done cur : forall x, In x (rev done ++ [cur]) <-> In x (all done cur []).
Proof. intros x. unfold all. rewrite app_nil_r, in_app_iff, <- in_rev. cbn [In]. tauto. Qed.

Lemma finish done cur : MI done cur [] -> Post (rev done ++ [cur]).
Proof.
  intros [Hwf Hdd _ _ Hcov Hin Hhas]. constructor.
  - change (rev done ++ [cur]) with (rev (cur :: done)). apply ddisj_rev, Hdd.
  - unfold wf in *. rewrite Forall_forall in *. intros x Hx. apply Hwf, in_all_rev, Hx.
  - intros i. rewrite <- Hcov. unfold covered. split; intros (x & Hx & Hi); exists x; split; auto; apply in_all_rev; auto.
  - intros o Ho. destruct (Hin o Ho) as (x & Hx & Hi). exists x. split; auto. apply in_all_rev; auto.
  - intros x Hx. apply Hhas, in_all_rev, Hx.
Qed.

(* the three set-level clauses depend only on membership *)
Definition Same (L : list iv) : Prop :=
  (forall i, covered L i <-> covered input i) /\
  (forall o, In o input -> exists x, In x L /\ inside o x) /\
  (forall x, In x L -> exists o, In o input /\ inside o x).

Lemma Same_ext L L' : (forall x, In x L' <-> In x L) -> Same L -> Same L'.
Proof.
  intros E (Hc & Hi & Hh). repeat split.
  - intros (x & Hx & Hr). apply Hc. exists x. split; auto. apply E; auto.
  - intros H. apply Hc in H. destruct H as (x & Hx & Hr). exists x. split; auto. apply E; auto.
  - intros o Ho. destruct (Hi o Ho) as (x & Hx & Hr). exists x. split; auto. apply E; auto.
  - intros x Hx. apply Hh, E, Hx.
Qed.

Lemma Same_hull L L' R cur n :
  (forall x, In x L <-> x = cur \/ x = n \/ In x R) ->
  let m := (Z.min (fst cur) (fst n), Z.max (snd cur) (snd n)) in
  (forall x, In x L' <-> x = m \/ In x R) ->
  snd cur > fst n -> snd cur <= snd n -> fst cur < snd cur -> fst n < snd n ->
  Same L -> Same L'.
Proof.
  intros EL m EL' Hov Hss Hwc Hwn (Hc & Hi & Hh).
  assert (Hm : forall i, fst m <= i < snd m <-> (fst cur <= i < snd cur \/ fst n <= i < snd n))
    by (intros i; unfold m; cbn [fst snd]; lia).
  assert (Hic : inside cur m) by (unfold inside, m; cbn [fst snd]; lia).
  assert (Hin : inside n m) by (unfold inside, m; cbn [fst snd]; lia).
  repeat split.
  - intros (x & Hx & Hr). apply Hc. apply EL' in Hx. destruct Hx as [->|Hx].
    + apply Hm in Hr. destruct Hr; [exists cur|exists n]; split; auto; apply EL; auto.
    + exists x. split; auto. apply EL; auto.
  - intros H. apply Hc in H. destruct H as (x & Hx & Hr). apply EL in Hx. destruct Hx as [->|[->|Hx]].
    + exists m. split; [apply EL'; auto|]. apply Hm; auto.
    + exists m. split; [apply EL'; auto|]. apply Hm; auto.
    + exists x. split; auto. apply EL'; auto.
  - intros o Ho. destruct (Hi o Ho) as (x & Hx & Hr). apply EL in Hx. destruct Hx as [->|[->|Hx]].
    + exists m. split; [apply EL'; auto|]. unfold inside in *; lia.
    + exists m. split; [apply EL'; auto|]. unfold inside in *; lia.
    + exists x. split; auto. apply EL'; auto.
  - intros x Hx. apply EL' in Hx. destruct Hx as [->|Hx].
    + destruct (Hh cur) as (o & Ho & Hio); [apply EL; auto|]. exists o. split; auto. unfold inside in *; lia.
    + apply Hh, EL; auto.
Qed.

Lemma I_Same done cur rest : MI done cur rest -> Same (all done cur rest).
Proof. intros [? ? ? ? ? ? ?]. repeat split; auto; apply i_cov0. Qed.

Lemma stop_sorted_all n rest : stop_sorted (n :: rest) -> Forall (fun y => snd n <= snd y) rest.
Proof.
  revert n; induction rest as [|a rest IH]; intros n H; constructor.
  - cbn [stop_sorted] in H; tauto.
  - cbn [stop_sorted] in H. destruct H as [Hna Ht]. specialize (IH a Ht).
    eapply Forall_impl; [|exact IH]. cbn beta. intros; lia.
Qed.
Lemma stop_sorted_tail n rest : stop_sorted (n :: rest) -> stop_sorted rest.
Proof. destruct rest; cbn [stop_sorted]; tauto. Qed.

Lemma mkI done cur rest :
  wf (all done cur rest) -> ddisj (cur :: done) -> Forall (fun y => snd cur <= snd y) rest -> stop_sorted rest ->
  Same (all done cur rest) -> MI done cur rest.
Proof. intros ? ? ? ? (? & ? & ?). constructor; auto. Qed.

(* step A: no overlap, move forward *)
Lemma step_forward done cur n rest : MI done cur (n :: rest) -> snd cur <= fst n -> MI (cur :: done) n rest.
Proof.
  intros HI Hle. pose proof (I_Same _ _ _ HI) as HS. destruct HI as [Hwf Hdd Hl Hss _ _ _].
  apply mkI.
  - unfold wf, all in *. rewrite Forall_forall in *. intros x Hx. apply Hwf.
    cbn [In app] in *. rewrite in_app_iff in *. cbn [In] in *. tauto.
  - cbn [ddisj]. split; auto.
  - apply stop_sorted_all; auto.
  - eapply stop_sorted_tail; eauto.
  - eapply Same_ext; [|exact HS]. intros x. unfold all. cbn [In app]. rewrite !in_app_iff. cbn [In]. tauto.
Qed.

(* steps B and C: overlap, replace cur and n by their hull; step back if there is a predecessor *)
Lemma step_merge_empty cur n rest : MI [] cur (n :: rest) -> snd cur > fst n ->
  MI [] (Z.min (fst cur) (fst n), Z.max (snd cur) (snd n)) rest.
Proof.
  intros HI Hov. pose proof (I_Same _ _ _ HI) as HS. destruct HI as [Hwf Hdd Hl Hss _ _ _].
  assert (Hcn : snd cur <= snd n) by (inversion Hl; auto).
  unfold wf, all in Hwf. cbn [app] in Hwf. inversion Hwf as [|? ? Hwc Hw1]; subst. inversion Hw1 as [|? ? Hwn Hw2]; subst.
  apply mkI.
  - unfold wf, all. cbn [app]. constructor; auto. cbn [fst snd]. lia.
  - exact I.
  - cbn [fst snd]. eapply Forall_impl; [|apply (stop_sorted_all n rest Hss)]. cbn beta. intros; lia.
  - eapply stop_sorted_tail; eauto.
  - eapply (Same_hull _ _ rest cur n); try eassumption; unfold all; cbn [app In]; intros x; intuition (subst; auto).
Qed.

Lemma step_merge_back d done cur n rest : MI (d :: done) cur (n :: rest) -> snd cur > fst n ->
  MI done d ((Z.min (fst cur) (fst n), Z.max (snd cur) (snd n)) :: rest).
Proof.
  intros HI Hov. pose proof (I_Same _ _ _ HI) as HS. destruct HI as [Hwf Hdd Hl Hss _ _ _].
  assert (Hcn : snd cur <= snd n) by (inversion Hl; auto).
  unfold wf, all in Hwf. rewrite Forall_forall in Hwf.
  assert (Hwc : fst cur < snd cur) by (apply Hwf; cbn [In]; auto).
  assert (Hwn : fst n < snd n) by (apply Hwf; cbn [In app]; rewrite in_app_iff; cbn [In]; auto).
  cbn [ddisj] in Hdd. destruct Hdd as [Hdc Hdd].
  apply mkI.
  - unfold wf, all. rewrite Forall_forall. intros x Hx. cbn [In app] in Hx. rewrite in_app_iff in Hx. cbn [In] in Hx.
    destruct Hx as [<-|[Hx|[<-|Hx]]].
    + apply Hwf; cbn [In app]; auto.
    + apply Hwf; cbn [In app]; rewrite in_app_iff; auto.
    + cbn [fst snd]; lia.
    + apply Hwf; cbn [In app]; rewrite in_app_iff; cbn [In]; auto.
  - exact Hdd.
  - constructor.
    + cbn [fst snd]. lia.
    + inversion Hl as [|? ? _ Hl']; subst. eapply Forall_impl; [|exact Hl']. cbn beta. intros; lia.
  - destruct rest as [|a rest]; cbn [stop_sorted]; auto. cbn [stop_sorted] in Hss. cbn [fst snd]. split; [lia|tauto].
  - eapply (Same_hull _ _ (d :: done ++ rest) cur n); try eassumption; unfold all; intros x;
      cbn [In app]; rewrite ?in_app_iff; cbn [In]; intuition (subst; auto).
Qed.

Lemma merge_go_post : forall fuel done cur rest,
  MI done cur rest -> (2 * length rest + length done < fuel)%nat ->
  exists m, merge_go fuel done cur rest = Some m /\ Post m.
Proof.
  induction fuel as [|f IH]; intros done cur rest HI Hf; [lia|].
  cbn [merge_go]. destruct rest as [|n rest].
  - eexists. split; [reflexivity|]. apply finish; auto.
  - destruct (snd cur >? fst n) eqn:E.
    + apply Z.gtb_lt in E. destruct done as [|d done].
      * apply IH; [apply step_merge_empty; auto; lia|cbn [length] in *; lia].
      * apply IH; [apply step_merge_back; auto; lia|cbn [length] in *; lia].
    + assert (snd cur <= fst n) by (destruct (Z.gtb_spec (snd cur) (fst n)); [discriminate|lia]).
      apply IH; [apply step_forward; auto|cbn [length] in *; lia].
Qed.
End Spec.

(* C06, interval half: for every stop-sorted list of non-empty occurrences *)
Theorem merge_spec sc : stop_sorted sc -> wf sc ->
  exists m, merge_scopes sc = Some m /\
    disj m /\ wf m /\
    (forall i, covered m i <-> covered sc i) /\
    (forall o, In o sc -> exists x, In x m /\ inside o x) /\
    (forall x, In x m -> exists o, In o sc /\ inside o x).
Proof.
  intros Hss Hwf. destruct sc as [|c r].
  - exists []. cbn [merge_scopes]. split; [reflexivity|]. split; [exact Logic.I|]. split; [constructor|].
    split; [|split].
    + intros i; split; intros (x & [] & _).
    + intros o [].
    + intros x [].
  - cbn [merge_scopes]. destruct (merge_go_post (c :: r) (2 * length (c :: r) + 1) [] c r) as (m & E & [P1 P2 P3 P4 P5]).
    + apply mkI; auto.
      * exact I.
      * apply stop_sorted_all; auto.
      * eapply stop_sorted_tail; eauto.
      * unfold all, Same. cbn [app]. repeat split; auto; try tauto.
        -- intros o Ho. exists o. split; auto. unfold inside; lia.
        -- intros x Hx. exists x. split; auto. unfold inside; lia.
    + cbn [length]. lia.
    + exists m. repeat (split; [assumption|]). assumption.
Qed.

