(* C15, part 4: HexDecodeInPlace = hex.Decode(b, b) on ONE buffer: the write cursor i never overtakes the read cursor
   2i, so the loop returns what the two-buffer decoder returns and leaves the bytes behind the decoded prefix untouched. *)
From Coq Require Import List ZArith Lia Bool Arith.
From V Require Import Lib.Enc Gen.StrzStd Model.Strconv Model.Hex Proofs.HexCodec.
Import ListNotations.
Local Open Scope Z_scope.

Lemma nth_skipn {A} (l : list A) : forall m k d, nth k (skipn m l) d = nth (m + k) l d.
Proof. induction l as [|x t IH]; intros m k d; destruct m; cbn [skipn Nat.add nth]; auto; destruct k; reflexivity. Qed.
Lemma skipn_cons_nth (l : list Z) m : (m < length l)%nat -> skipn m l = nth m l 0 :: skipn (S m) l.
Proof. revert m. induction l as [|x t IH]; intros m H; [cbn in H; lia|]. destruct m; [reflexivity|]. cbn [skipn nth]. apply IH. cbn in H. lia. Qed.
Lemma setnth_app (acc : list Z) x v t : setnth (acc ++ x :: t) (length acc) v = (acc ++ [v]) ++ t.
Proof. induction acc as [|a acc IH]; cbn [app length setnth]; [reflexivity|]. rewrite IH. reflexivity. Qed.

Lemma inplace_go_spec orig : forall fuel i acc,
  length acc = i -> (2 * i <= length orig)%nat -> (length orig < 2 * (i + fuel))%nat ->
  inplace_go fuel (acc ++ skipn i orig) i (2 * i + 1) =
  let (p, e) := hex_decode (skipn (2 * i) orig) acc in (p ++ skipn (length p) orig, length p, e).
Proof.
  induction fuel as [|f IH]; intros i acc La Hi Hf; [lia|].
  assert (Lb : length (acc ++ skipn i orig) = length orig) by (rewrite app_length, skipn_length; lia).
  cbn [inplace_go]. rewrite Lb.
  assert (Rd : forall k, (i <= k)%nat -> nth k (acc ++ skipn i orig) 0 = nth k orig 0).
  { intros k Hk. rewrite app_nth2 by lia. rewrite nth_skipn. f_equal. lia. }
  replace (2 * i + 1 - 1)%nat with (2 * i)%nat by lia. rewrite !Rd by lia.
  destruct (Nat.ltb_spec (2 * i + 1) (length orig)) as [Hlt|Hge].
  - rewrite (skipn_cons_nth orig (2 * i)) by lia. rewrite (skipn_cons_nth orig (S (2 * i))) by lia.
    cbn [hex_decode]. replace (S (2 * i)) with (2 * i + 1)%nat by lia.
    destruct (from_hex (nth (2 * i) orig 0)) as [x|]; [|rewrite La; reflexivity].
    destruct (from_hex (nth (2 * i + 1) orig 0)) as [y|]; [|rewrite La; reflexivity].
    rewrite (skipn_cons_nth orig i) by lia. rewrite <- La at 3. rewrite setnth_app.
    replace (S (S (2 * i + 1))) with (2 * (S i) + 1)%nat by lia.
    replace (S (2 * i + 1)) with (2 * S i)%nat by lia.
    apply IH; [rewrite app_length; cbn [length]; lia|lia|lia].
  - destruct (Nat.eq_dec (length orig) (2 * i + 1)) as [Eo|Eo].
    + rewrite Eo. replace (2 * i + 1)%nat with (S (2 * i)) by lia. rewrite Nat.odd_succ, Nat.even_mul. cbn [Nat.even orb].
      rewrite (skipn_cons_nth orig (2 * i)) by lia. rewrite (@skipn_all2 _ (S (2 * i)) orig) by lia. cbn [hex_decode].
      destruct (from_hex (nth (2 * i) orig 0)); rewrite La; reflexivity.
    + assert (El : length orig = (2 * i)%nat) by lia. rewrite El, Nat.odd_mul. cbn [Nat.odd Nat.even negb andb].
      rewrite (@skipn_all2 _ (2 * i)%nat orig) by lia. cbn [hex_decode]. rewrite La. reflexivity.
Qed.

(* in place = two buffers: decoded prefix, error and offending byte as specified; everything behind the prefix unchanged *)
Theorem inplace_spec buf :
  hex_decode_inplace buf = (fst (hex_spec buf) ++ skipn (length (fst (hex_spec buf))) buf, length (fst (hex_spec buf)), snd (hex_spec buf)).
Proof.
  unfold hex_decode_inplace. pose proof (inplace_go_spec buf (S (length buf)) 0 [] eq_refl ltac:(lia) ltac:(lia)) as H.
  cbn [app skipn Nat.mul Nat.add] in H. rewrite H. rewrite hex_decode_is_spec. destruct (hex_spec buf). reflexivity.
Qed.
