(* C04 — the integer encoding of Run/C04.v loses nothing: decoding the encoded trace of the model gives the trace
   back, so what [entry 1] computes is the judge applied to the model's trace, which the theorems accept. *)
From Coq Require Import List Arith ZArith Lia Bool PeanoNat Permutation.
From V Require Import Lib.Enc Model.Heap Run.C04 Proofs.HeapJudge Proofs.HeapHJudge Proofs.HeapTop.
Import ListNotations.
Local Open Scope Z_scope.

Lemma get_list_put (l r : list Z) : get_list (put_list l ++ r) = (l, r).
Proof.
  unfold put_list, get_list. cbn [app]. rewrite Nat2Z.id.
  rewrite firstn_app, Nat.sub_diag, firstn_all. cbn [firstn]. rewrite app_nil_r.
  rewrite skipn_app, Nat.sub_diag, skipn_all. reflexivity.
Qed.
Lemma dec_vals_put (l r : list Z) : dec_vals (put_list l ++ r) = Some (l, r).
Proof.
  unfold dec_vals. pose proof (get_list_put l r) as E. unfold put_list in *. cbn [app] in *. rewrite E.
  destruct (Z.leb_spec 0 (Z.of_nat (length l))); [|lia]. rewrite Z.eqb_refl. reflexivity.
Qed.

(* ---- list flavours ---- *)
Definition lshape_ok (std : bool) (o : lop Z) (r : lobs Z) : Prop :=
  match r with
  | ONone _ => lshape std o = 0
  | OOpt _ _ => lshape std o = 1
  | OInt _ _ => lshape std o = 2
  | OList _ _ => lshape std o = 3
  end.
Lemma dec_lobs_enc std o r rest : lshape_ok std o r -> dec_lobs (lshape std o) (enc_lobs r ++ rest) = Some (r, rest).
Proof.
  destruct r as [|[x|]|n|l]; cbn [lshape_ok enc_lobs enc_opt]; intros ->; unfold dec_lobs; cbn [Z.eqb app].
  - reflexivity.
  - reflexivity.
  - reflexivity.
  - reflexivity.
  - rewrite dec_vals_put. reflexivity.
Qed.
Lemma lstep_shape std s o s' r : lstep Z ltv std s o = Ok (s', r) -> lshape_ok std o r.
Proof.
  destruct o; cbn [lstep lshape]; intros H.
  - destruct (if std then std_push Z ltv s x else sl_push Z ltv s x); cbn [bind] in H; inversion H. reflexivity.
  - destruct (if std then std_pop Z ltv s else sl_pop Z ltv s); cbn [bind] in H; inversion H. reflexivity.
  - destruct std; [inversion H; reflexivity|]. destruct (sl_peek Z s); cbn [bind] in H; inversion H. reflexivity.
  - inversion H. reflexivity.
  - destruct (if std then std_remove Z ltv s i else sl_remove Z ltv s i); cbn [bind] in H; inversion H. reflexivity.
  - destruct (if std then std_fix Z ltv s i else sl_fix Z ltv s i); cbn [bind] in H; inversion H. reflexivity.
  - destruct (if std then std_fix Z ltv (set_at Z s i x) i else sl_fix Z ltv (set_at Z s i x) i); cbn [bind] in H; inversion H. reflexivity.
  - destruct (buildL Z ltv (set_at Z s i x)); cbn [bind] in H; inversion H. reflexivity.
  - destruct std; [inversion H; reflexivity|].
    destruct (popall Z (S (length s)) (sl_pop Z ltv) s k []); cbn [bind] in H; inversion H. reflexivity.
Qed.
Lemma dec_ltrace_enc std : forall ops s tr, lrun Z ltv std s ops = Ok tr -> dec_ltrace std ops (enc_ltrace tr) = Some tr.
Proof.
  induction ops as [|o t IH]; intros s tr H; cbn [lrun] in H.
  - inversion H. reflexivity.
  - destruct (lstep Z ltv std s o) as [[s' r]| |] eqn:E; cbn [bind fst snd] in H; try discriminate.
    destruct (lrun Z ltv std s' t) as [tr'| |] eqn:E2; cbn [bind] in H; try discriminate. inversion H. subst tr.
    cbn [enc_ltrace dec_ltrace]. rewrite (dec_lobs_enc std o r _ (lstep_shape std s o s' r E)).
    rewrite dec_vals_put. rewrite (IH s' tr' E2). reflexivity.
Qed.
Lemma not_panic_nat (n : nat) (r : list Z) : is_panic (Z.of_nat n :: r) = false.
Proof. destruct r; [|reflexivity]. cbn [is_panic]. apply Z.eqb_neq. unfold PANIC. lia. Qed.
Lemma dec_lout_enc std init ops : lcase Z ltv std init ops <> NoFuel ->
  dec_lout std ops (enc_res enc_ltrace (lcase Z ltv std init ops)) = Some (lcase Z ltv std init ops).
Proof.
  intros Hnf. unfold lcase in *. destruct (buildL Z ltv init) as [s0| |]; cbn [bind enc_res] in *; [|reflexivity|exfalso; apply Hnf; reflexivity].
  destruct (lrun Z ltv std s0 ops) as [tr| |] eqn:E; cbn [bind enc_res] in *; [|reflexivity|exfalso; apply Hnf; reflexivity].
  unfold dec_lout. cbn [enc_ltrace enc_lobs app]. unfold put_list at 1. cbn [app]. rewrite not_panic_nat.
  change (Z.of_nat (length s0) :: s0 ++ enc_ltrace tr) with (put_list s0 ++ enc_ltrace tr).
  rewrite dec_vals_put. rewrite (dec_ltrace_enc std ops s0 tr E). reflexivity.
Qed.

(* ---- Heap ---- *)
Definition hshape_ok (o : hop Z) (r : hobs Z) : Prop :=
  match r with
  | HNone _ => hshape o = 0
  | HHandle _ _ => hshape o = 1
  | HInt _ _ => hshape o = 2
  | HList _ _ => hshape o = 3
  end.
Lemma dec_hobs_enc o r rest : hshape_ok o r -> dec_hobs (hshape o) (enc_hobs r ++ rest) = Some (r, rest).
Proof.
  destruct r as [|z|n|l]; cbn [hshape_ok enc_hobs]; intros ->; unfold dec_hobs; cbn [Z.eqb app]; try reflexivity.
  rewrite dec_vals_put. reflexivity.
Qed.
Lemma hstep_shape w o w' r : hstep Z 0 ltv w o = Ok (w', r) -> hshape_ok o r.
Proof.
  destruct o; cbn [hstep hshape]; intros H;
    repeat match type of H with
    | (if ?c then _ else _) = _ => destruct c
    | bind ?x _ = _ => destruct x; cbn [bind] in H
    end; try discriminate; inversion H; reflexivity.
Qed.
Lemma dec_htrace_enc : forall ops w tr, hrun Z 0 ltv w ops = Ok tr -> dec_htrace ops (enc_htrace tr) = Some tr.
Proof.
  induction ops as [|o t IH]; intros w tr H; cbn [hrun] in H.
  - inversion H. reflexivity.
  - destruct (hstep Z 0 ltv w o) as [[w' r]| |] eqn:E; cbn [bind fst snd] in H; try discriminate.
    destruct (hrun Z 0 ltv w' t) as [tr'| |] eqn:E2; cbn [bind] in H; try discriminate. inversion H. subst tr.
    cbn [enc_htrace dec_htrace]. rewrite (dec_hobs_enc o r _ (hstep_shape w o w' r E)).
    rewrite dec_vals_put. rewrite (IH w' tr' E2). reflexivity.
Qed.
Lemma enc_htrace_not_panic tr : is_panic (enc_htrace tr) = false.
Proof.
  destruct tr as [|[r ix] t]; [reflexivity|]. cbn [enc_htrace].
  destruct r as [|z|n|l]; cbn [enc_hobs app]; unfold put_list; cbn [app]; try apply not_panic_nat; reflexivity.
Qed.
Lemma dec_hout_enc ops : hcase Z 0 ltv ops <> NoFuel ->
  dec_hout ops (enc_res enc_htrace (hcase Z 0 ltv ops)) = Some (hcase Z 0 ltv ops).
Proof.
  intros Hnf. unfold hcase in *. destruct (hrun Z 0 ltv (mkW Z [] [] []) ops) as [tr| |] eqn:E; cbn [enc_res]; [|reflexivity|exfalso; apply Hnf; reflexivity].
  unfold dec_hout. rewrite enc_htrace_not_panic. rewrite (dec_htrace_enc ops _ tr E). reflexivity.
Qed.

(* ---- the decoder only produces API operations on heaps 0 / 1, apart from the harness-only HCorrupt ---- *)
Lemma hz_01 a : is01 (hz a) = true.
Proof. unfold hz. destruct (a =? 0); reflexivity. Qed.
Lemma dec_hop_wf next c a b o next' : dec_hop next c a b = Some (o, next') -> c <> 10 -> hop_wf Z o = true.
Proof.
  unfold dec_hop. intros H Hc.
  repeat match type of H with (if ?x =? ?y then _ else _) = _ => destruct (Z.eqb_spec x y) end;
    try discriminate; try lia; inversion H; cbn [hop_wf]; try apply hz_01.
  unfold is01. pose proof (Z.mod_pos_bound b 2 ltac:(lia)) as B.
  destruct (Z.eqb_spec (b mod 2) 0); [reflexivity|]. destruct (Z.eqb_spec (b mod 2) 1); [reflexivity|lia].
Qed.
Fixpoint no_corrupt (l : list Z) : bool :=        (* no op code 10 in a flat list of [code; a; b] triples *)
  match l with
  | c :: _ :: _ :: r => negb (c =? 10) && no_corrupt r
  | _ => true
  end.
Lemma dec_hops_wf : forall fuel next l ops, dec_hops fuel next l = Some ops -> no_corrupt l = true -> forallb (hop_wf Z) ops = true.
Proof.
  induction fuel as [|f IH]; intros next l ops H Hn.
  - destruct l; cbn [dec_hops] in H; [inversion H; reflexivity|discriminate].
  - destruct l as [|c [|a [|b r]]]; cbn [dec_hops] in H; try discriminate; [inversion H; reflexivity|].
    destruct (dec_hop next c a b) as [[o next']|] eqn:E; [|discriminate].
    destruct (dec_hops f next' r) as [os|] eqn:E2; [|discriminate]. inversion H. subst ops.
    cbn [no_corrupt] in Hn. apply andb_true_iff in Hn. destruct Hn as [Hc Hr].
    cbn [forallb]. rewrite (dec_hop_wf next c a b o next' E) by (intros ->; discriminate). cbn [andb]. exact (IH next' r os E2 Hr).
Qed.

(* ---- what Run/C04.v sub 1 evaluates, for every case that decodes ---- *)
Theorem run_model_judged : forall args c, dec_case args = Some c ->
  match c with CList _ _ _ => True | CHeap ops => forallb (hop_wf Z) ops = true end ->
  entry 1 args = [1].
Proof.
  intros args c E Hwf. unfold entry. cbn [Z.eqb]. rewrite E. cbn [Z.eqb]. f_equal. unfold zb.
  assert (judge c (model c) = true) as ->; [|reflexivity].
  destruct c as [std init ops|ops]; cbn [judge model].
  - pose proof (t_lcase_judged Z 0 keylt Z.eqb keylt_swo zeqb_spec std init ops) as T. change keylt with ltv in T.
    rewrite dec_lout_enc; [exact T|]. intros Hn. rewrite Hn in T. discriminate.
  - destruct (t_hcase_judged Z 0 keylt Z.eqb keylt_swo zeqb_spec ops Hwf) as [(tr & Etr) T]. change keylt with ltv in *.
    rewrite dec_hout_enc; [exact T|]. rewrite Etr. discriminate.
Qed.
