(* C15 — the code GENERATED from strz/std_strconv.go (ParseUint, lower, underscoreOK), strz/std_hex.go (hexEncode, hexDecode,
   fromHexChar) and the wrappers HexEncode / HexDecode of strz/enc.go (coq/Gen/StrconvCode.v, written by gen/trans.go +
   gen/trans_ext15.go on every run) is equal to the hand-written model of Model/Strconv.v / Model/Hex.v, function by function.

   Proof style.  Nothing of the generated text is restated here.  Loops are taken out of the goal ([while _ ?c ?b ?p ?s]) and
   handled by lemmas that constrain the loop components only by WHAT ONE ITERATION DOES ([iter1]), for an arbitrary packing
   [pk] of the state tuple (the order of the variables in the tuple depends on the form of the loop in the source: the
   theorems try the possible orders).  Straight-line code is evaluated symbolically from the outside in ([mev]: monad
   laws, index reads on known lists, conditions decided by lia from the case the model is in), so that the form of a
   condition (inverted if/else, else-if chains, && split into nested ifs, a helper extracted or inlined) does not matter. *)
From Coq Require Import List ZArith Lia Bool Arith ZifyBool.
From V Require Import Lib.Enc Lib.GoSem Proofs.GoSemFacts Gen.StrzStd Gen.StrconvCode Model.Strconv Model.Hex Proofs.StrconvLoop Proofs.HexCodec Run.C15 Run.C15Code.
Import ListNotations.
Local Open Scope Z_scope.
Arguments Z.mul : simpl never.
Arguments Z.add : simpl never.
Arguments Z.sub : simpl never.
Arguments Z.div : simpl never.
Arguments Z.modulo : simpl never.
Arguments Z.pow : simpl never.
Arguments Z.quot : simpl never.
Arguments Z.rem : simpl never.
Arguments Z.lor : simpl never.
Arguments Z.land : simpl never.
Arguments Z.shiftl : simpl never.
Arguments Z.shiftr : simpl never.
Ltac Zify.zify_post_hook ::= Z.div_mod_to_equations.

(* ================================================================== generic: the loop combinator *)
Lemma while_more {S R} (c : S -> M bool) (b : S -> M (ctl S R)) (p : S -> M S) : forall k f s r,
  while f c b p s = Ret r -> while (f + k) c b p s = Ret r.
Proof.
  induction f as [|f IH]; intros s r; [discriminate|].
  cbn [Nat.add]. rewrite !while_step. destruct (c s) as [x| |]; cbn [bind]; try discriminate.
  destruct x; [|trivial]. destruct (b s) as [y| |]; cbn [bind]; try discriminate.
  destruct y as [s1|s1|r1]; [|trivial|trivial]. destruct (p s1) as [s2| |]; cbn [bind]; try discriminate. apply IH.
Qed.

(* one iteration of a loop: inl s' = go on in state s'; inr (inl s) = the loop ended in state s; inr (inr r) = return r *)
Definition iter1 {S R} (c : S -> M bool) (b : S -> M (ctl S R)) (p : S -> M S) (s : S) : M (S + (S + R)) :=
  bind (c s) (fun x =>
    if x then bind (b s) (fun y => match y with
      | Next s1 => bind (p s1) (fun s2 => Ret (inl s2)) | Break s1 => Ret (inr (inl s1)) | Return r => Ret (inr (inr r)) end)
    else Ret (inr (inl s))).
Lemma while_iter {S R} f (c : S -> M bool) (b : S -> M (ctl S R)) (p : S -> M S) s :
  while (Datatypes.S f) c b p s = bind (iter1 c b p s) (fun x => match x with inl s' => while f c b p s' | inr r => Ret r end).
Proof.
  rewrite while_step. unfold iter1. destruct (c s) as [x| |]; cbn [bind]; try reflexivity.
  destruct x; [|reflexivity]. destruct (b s) as [y| |]; cbn [bind]; try reflexivity.
  destruct y as [s1|s1|r1]; try reflexivity. destruct (p s1); reflexivity.
Qed.

(* ================================================================== generic: lists, indices, wrap *)
Lemma get_at_nth (l : list Z) (k : nat) : (k < length l)%nat -> get_at l (Z.of_nat k) = Some (nth k l 0).
Proof.
  intros H. unfold get_at. destruct (Z.leb_spec 0 (Z.of_nat k)); [|lia]. rewrite Nat2Z.id. apply nth_error_nth'. exact H.
Qed.
Lemma m_get_nth (l : list Z) (k : nat) : (k < length l)%nat -> m_get l (Z.of_nat k) = Ret (nth k l 0).
Proof. intros H. unfold m_get. rewrite get_at_nth by exact H. reflexivity. Qed.
Lemma m_get_Z (l : list Z) (i : Z) : 0 <= i < zlen l -> m_get l i = Ret (nth (Z.to_nat i) l 0).
Proof. unfold zlen. intros H. rewrite <- (Z2Nat.id i) at 1 by lia. apply m_get_nth. lia. Qed.
Lemma m_get_out (l : list Z) (i : Z) : i < 0 \/ zlen l <= i -> m_get l i = Panic.
Proof.
  unfold zlen, m_get, get_at. intros H. destruct (Z.leb_spec 0 i); [|reflexivity].
  destruct (nth_error l (Z.to_nat i)) eqn:E; [|reflexivity].
  assert (Z.to_nat i < length l)%nat by (apply nth_error_Some; congruence). lia.
Qed.
Lemma m_get_0 a (l : list Z) : m_get (a :: l) 0 = Ret a.
Proof. reflexivity. Qed.
Lemma m_get_1 a b (l : list Z) : m_get (a :: b :: l) 1 = Ret b.
Proof. reflexivity. Qed.
Lemma m_slice_from (l : list Z) (k : nat) : (k <= length l)%nat -> m_slice l (Z.of_nat k) (zlen l) = Ret (skipn k l).
Proof.
  intros H. unfold m_slice, slice, zlen.
  destruct (Z.leb_spec 0 (Z.of_nat k)); [|lia]. destruct (Z.leb_spec (Z.of_nat k) (Z.of_nat (length l))); [|lia].
  rewrite Z.leb_refl. cbn [andb lift]. rewrite !Nat2Z.id. rewrite firstn_all2 by (rewrite skipn_length; lia). reflexivity.
Qed.
Lemma m_slice_1 a (l : list Z) : m_slice (a :: l) 1 (zlen (a :: l)) = Ret l.
Proof. exact (m_slice_from (a :: l) 1 ltac:(cbn [length]; lia)). Qed.
Lemma m_slice_2 a b (l : list Z) : m_slice (a :: b :: l) 2 (zlen (a :: b :: l)) = Ret l.
Proof. exact (m_slice_from (a :: b :: l) 2 ltac:(cbn [length]; lia)). Qed.
Lemma m_slice_to (l : list Z) (k : nat) : (k <= length l)%nat -> m_slice l 0 (Z.of_nat k) = Ret (firstn k l).
Proof.
  intros H. unfold m_slice, slice.
  destruct (Z.leb_spec 0 (Z.of_nat k)); [|lia]. destruct (Z.leb_spec (Z.of_nat k) (Z.of_nat (length l))); [|lia].
  cbn [Z.leb Z.compare andb lift Z.to_nat skipn]. rewrite Nat2Z.id, Nat.sub_0_r. reflexivity.
Qed.
Lemma skipn_cons_nth (l : list Z) : forall k, (k < length l)%nat -> skipn k l = nth k l 0 :: skipn (S k) l.
Proof.
  induction l as [|x t IH]; intros k Hk; [cbn in Hk; lia|]. destruct k as [|k]; [reflexivity|].
  cbn [length] in Hk. cbn [skipn nth]. apply IH. lia.
Qed.
Lemma upd_mid (p r : list Z) a v : upd (p ++ a :: r) (length p) v = p ++ v :: r.
Proof. induction p as [|x p IH]; cbn [app length upd]; [reflexivity|]. rewrite IH. reflexivity. Qed.
Lemma m_set_mid (p r : list Z) a v : m_set (p ++ a :: r) (Z.of_nat (length p)) v = Ret (p ++ v :: r).
Proof.
  unfold m_set, set_at. rewrite app_length. cbn [length].
  destruct (Z.leb_spec 0 (Z.of_nat (length p))); [|lia].
  destruct (Z.ltb_spec (Z.of_nat (length p)) (Z.of_nat (length p + S (length r)))); [|lia].
  cbn [andb lift]. rewrite Nat2Z.id, upd_mid. reflexivity.
Qed.
Lemma m_set_out (l : list Z) i v : i < 0 \/ zlen l <= i -> m_set l i v = Panic.
Proof.
  unfold zlen, m_set, set_at. intros H. destruct (Z.leb_spec 0 i); destruct (Z.ltb_spec i (Z.of_nat (length l))); cbn [andb lift]; try reflexivity. lia.
Qed.

Lemma wrap8_small x : 0 <= x < 256 -> wrap 8 x = x.
Proof. intros H. unfold wrap. change (2 ^ 8) with 256. apply Z.mod_small. exact H. Qed.
Lemma wrap64_small x : 0 <= x < 18446744073709551616 -> wrap 64 x = x.
Proof. intros H. unfold wrap. change (2 ^ 64) with 18446744073709551616. apply Z.mod_small. exact H. Qed.
Lemma wrap64_w64 x : wrap 64 x = w64 x.
Proof. reflexivity. Qed.

(* ================================================================== symbolic evaluation of straight-line generated code *)
Lemma bind_Ret {A B} (a : A) (k : A -> M B) : bind (Ret a) k = k a.
Proof. reflexivity. Qed.
Lemma bind_Panic {A B} (k : A -> M B) : bind Panic k = Panic.
Proof. reflexivity. Qed.
Lemma bind_assoc {A B C} (m : M A) (f : A -> M B) (g : B -> M C) : bind (bind m f) g = bind m (fun x => bind (f x) g).
Proof. destruct m; reflexivity. Qed.

(* b = true / b = false for a condition built from integer comparisons and boolean connectives, from the hypotheses *)
Ltac solve_bool := first [ reflexivity | assumption | unfold zlen in *; cbn [length] in *; lia ].
Ltac decide_if :=
  match goal with
  | |- context [if ?c then _ else _] =>
      first [ let H := fresh in assert (H : c = true) by solve_bool; rewrite H; clear H
            | let H := fresh in assert (H : c = false) by solve_bool; rewrite H; clear H ]
  end.
(* substitute the let at the head of the left-hand side (a join point is copied to its call sites, its own lets stay) *)
Ltac head_let :=
  lazymatch goal with
  | |- (let x := ?v in @?b x) = ?r =>
      lazymatch type of v with
      | forall _, _ => fail "a join point"
      | _ => let t := eval cbv beta in (b v) in change (t = r)
      end
  end.
Ltac small_wrap :=
  match goal with
  | |- context [wrap 8 ?x] => rewrite (wrap8_small x) by lia
  | |- context [wrap 64 ?x] => rewrite (wrap64_small x) by lia
  end.
Ltac decide_cmp :=
  match goal with
  | |- context [?x =? ?y] =>
      first [ let H := fresh in assert (H : (x =? y) = true) by solve_bool; rewrite H; clear H
            | let H := fresh in assert (H : (x =? y) = false) by solve_bool; rewrite H; clear H ]
  end.
Ltac mev_step :=
  first [ rewrite bind_Ret
        | rewrite m_get_0 | rewrite m_get_1 | rewrite m_slice_1 | rewrite m_slice_2
        | decide_if
        | head_let
        | small_wrap ];
  cbv beta iota.
Ltac mev := cbv beta iota; repeat mev_step.

(* unfold the generated helpers (everything in the hint database except the functions that have their own theorem) *)
Ltac open_code := repeat autounfold with go2v; cbv beta iota.

(* ================================================================== lower, fromHexChar *)
Theorem code_lower : forall c, g_lower c = Ret (lower c).
Proof. intros. open_code. reflexivity. Qed.

Definition hexchar_res (c : Z) : Z * bool := match from_hex c with Some v => (v, true) | None => (0, false) end.
Theorem code_fromHexChar : forall c, g_fromHexChar c = Ret (hexchar_res c).
Proof.
  intros c. open_code. unfold hexchar_res, from_hex.
  repeat match goal with |- context [if ?b then _ else _] => destruct b eqn:? end; try reflexivity;
    repeat small_wrap; try reflexivity; exfalso; lia.
Qed.

(* ================================================================== hexEncode (strz/std_hex.go) *)
Definition is_byte (b : Z) : Prop := 0 <= b < 256.
Lemma nth_byte (l : list Z) k : Forall is_byte l -> (k < length l)%nat -> is_byte (nth k l 0).
Proof. intros H Hk. rewrite Forall_forall in H. apply H, nth_In, Hk. Qed.
Lemma shiftr4_range v : is_byte v -> 0 <= Z.shiftr v 4 < 16.
Proof. unfold is_byte. intros H. rewrite Z.shiftr_div_pow2 by lia. change (2 ^ 4) with 16. split; [apply Z.div_pos; lia|apply Z.div_lt_upper_bound; lia]. Qed.
Lemma land15_range v : is_byte v -> 0 <= Z.land v 15 < 16.
Proof. unfold is_byte. intros H. change 15 with (Z.ones 4). rewrite Z.land_ones by lia. apply Z.mod_pos_bound. reflexivity. Qed.
Lemma hextable_same : c_hextable = g_hextable.
Proof. reflexivity. Qed.
Lemma hextable_get n : 0 <= n < 16 -> m_get c_hextable n = Ret (hexchar n).
Proof. intros H. rewrite m_get_Z by (unfold zlen; cbn [c_hextable length]; lia). reflexivity. Qed.

Lemma m_get_eq (l : list Z) i k : i = Z.of_nat k -> (k < length l)%nat -> m_get l i = Ret (nth k l 0).
Proof. intros -> H. apply m_get_nth, H. Qed.
Lemma m_set_at0 (p r : list Z) a i v : i = Z.of_nat (length p) -> m_set (p ++ a :: r) i v = Ret (p ++ v :: r).
Proof. intros ->. apply m_set_mid. Qed.
Lemma m_set_at1 (p r : list Z) a b i v : i = Z.of_nat (length p) + 1 -> m_set (p ++ a :: b :: r) i v = Ret (p ++ a :: v :: r).
Proof.
  intros ->. replace (p ++ a :: b :: r) with ((p ++ [a]) ++ b :: r) by (rewrite <- app_assoc; reflexivity).
  replace (Z.of_nat (length p) + 1) with (Z.of_nat (length (p ++ [a]))) by (rewrite app_length; cbn [length]; lia).
  rewrite m_set_mid, <- app_assoc. reflexivity.
Qed.

Lemma hex_encode_cons b t : hex_encode (b :: t) = hexchar (Z.shiftr b 4) :: hexchar (Z.land b 15) :: hex_encode t.
Proof. reflexivity. Qed.

(* the loop, for any order pk of (dst, j, i), given what one iteration does *)
Lemma enc_while {St R} (pk : list Z -> Z -> Z -> St) (c : St -> M bool) (b : St -> M (ctl St R)) (p : St -> M St) (src : list Z) :
  (forall k pre x y r, (k < length src)%nat -> length pre = (2 * k)%nat ->
     iter1 c b p (pk (pre ++ x :: y :: r) (Z.of_nat (length pre)) (Z.of_nat k)) =
     Ret (inl (pk (pre ++ hexchar (Z.shiftr (nth k src 0) 4) :: hexchar (Z.land (nth k src 0) 15) :: r)
                  (Z.of_nat (length pre) + 2) (Z.of_nat k + 1)))) ->
  (forall d j, iter1 c b p (pk d j (zlen src)) = Ret (inr (inl (pk d j (zlen src))))) ->
  forall f k pre rest, (k <= length src)%nat -> (length src - k < f)%nat -> (2 * (length src - k) <= length rest)%nat ->
    length pre = (2 * k)%nat ->
    while f c b p (pk (pre ++ rest) (Z.of_nat (length pre)) (Z.of_nat k)) =
    Ret (inl (pk (pre ++ hex_encode (skipn k src) ++ skipn (2 * (length src - k)) rest)
                 (Z.of_nat (length pre + 2 * (length src - k))) (zlen src))).
Proof.
  intros Hstep Hend. induction f as [|f IH]; intros k pre rest Hk Hf Hr Hpre; [lia|]. rewrite while_iter.
  destruct (Nat.eq_dec k (length src)) as [->|Hne].
  - fold (zlen src). rewrite Hend, skipn_all, Nat.sub_diag. change (2 * 0)%nat with 0%nat. cbn [bind hex_encode flat_map app skipn]. rewrite Nat.add_0_r. reflexivity.
  - assert (Hlt : (k < length src)%nat) by lia.
    destruct rest as [|x [|y r]]; cbn [length] in Hr; try lia.
    rewrite (Hstep k pre x y r Hlt Hpre). cbn [bind].
    replace (pre ++ hexchar (Z.shiftr (nth k src 0) 4) :: hexchar (Z.land (nth k src 0) 15) :: r)
      with ((pre ++ [hexchar (Z.shiftr (nth k src 0) 4); hexchar (Z.land (nth k src 0) 15)]) ++ r) by (rewrite <- app_assoc; reflexivity).
    replace (Z.of_nat (length pre) + 2) with (Z.of_nat (length (pre ++ [hexchar (Z.shiftr (nth k src 0) 4); hexchar (Z.land (nth k src 0) 15)])))
      by (rewrite app_length; cbn [length]; lia).
    replace (Z.of_nat k + 1) with (Z.of_nat (S k)) by lia.
    rewrite IH by (rewrite ?app_length; cbn [length] in *; lia).
    rewrite (skipn_cons_nth src k Hlt), hex_encode_cons.
    replace (2 * (length src - k))%nat with (S (S (2 * (length src - S k)))) by lia. cbn [skipn].
    rewrite <- !app_assoc. cbn [app]. rewrite app_length. cbn [length].
    replace (length pre + 2 + 2 * (length src - S k))%nat with (length pre + S (S (2 * (length src - S k))))%nat by lia. reflexivity.
Qed.

Ltac finish_state := try reflexivity; repeat f_equal; try lia.
Ltac iter_open := unfold iter1; cbv beta iota.

Ltac enc_shape pk c b p fuel dst :=
  lazymatch goal with Hb : Forall is_byte ?src |- _ =>
    let H1 := fresh "H1" in let H2 := fresh "H2" in
    assert (H1 : forall k pre x y r, (k < length src)%nat -> length pre = (2 * k)%nat ->
       iter1 c b p (pk (pre ++ x :: y :: r) (Z.of_nat (length pre)) (Z.of_nat k)) =
       Ret (inl (pk (pre ++ hexchar (Z.shiftr (nth k src 0) 4) :: hexchar (Z.land (nth k src 0) 15) :: r)
                    (Z.of_nat (length pre) + 2) (Z.of_nat k + 1))));
    [ let k := fresh "k" in let Hk := fresh "Hk" in intros k ? ? ? ? Hk ?; iter_open;
      pose proof (shiftr4_range _ (nth_byte src k Hb Hk)); pose proof (land15_range _ (nth_byte src k Hb Hk));
      repeat first [ rewrite bind_Ret | decide_if | rewrite (m_get_eq src _ k) by lia | rewrite hextable_get by lia
                   | rewrite m_set_at1 by lia | rewrite m_set_at0 by lia | progress cbv beta iota ];
      finish_state
    | assert (H2 : forall d j, iter1 c b p (pk d j (zlen src)) = Ret (inr (inl (pk d j (zlen src)))));
      [ intros; iter_open; repeat first [ rewrite bind_Ret | decide_if | progress cbv beta iota ]; reflexivity
      | let E := fresh "E" in
        pose proof (enc_while pk c b p src H1 H2 fuel 0%nat [] dst ltac:(lia) ltac:(lia) ltac:(lia) eq_refl) as E;
        cbn [app length skipn] in E; rewrite Nat.sub_0_r in E; change (Z.of_nat 0) with 0 in E; cbv beta in E; rewrite E; clear E H1 H2 ] ]
  end.

(* dst long enough (2 * len(src) <= len(dst)), src bytes: the first 2 * len(src) bytes of dst become the hex text, the rest
   of dst is untouched, the result is len(src) * 2; any fuel above len(src).  (Go's int: len(src) * 2 does not overflow for
   len(src) < 2^62; the translation has unbounded integers.) *)
Theorem code_hexEncode : forall fuel dst src, Forall is_byte src -> (length src < fuel)%nat -> (2 * length src <= length dst)%nat ->
  g_hexEncode fuel dst src = Ret (hex_encode src ++ skipn (2 * length src) dst, zlen src * 2).
Proof.
  intros fuel dst src Hb Hf Hd. open_code.
  match goal with |- context [while fuel ?c ?b ?p ?s] =>
    first [ enc_shape (fun (d : list Z) (j i : Z) => (d, j, i)) c b p fuel dst | enc_shape (fun (d : list Z) (j i : Z) => (d, i, j)) c b p fuel dst
          | enc_shape (fun (d : list Z) (j i : Z) => (j, d, i)) c b p fuel dst | enc_shape (fun (d : list Z) (j i : Z) => (i, d, j)) c b p fuel dst
          | enc_shape (fun (d : list Z) (j i : Z) => (j, i, d)) c b p fuel dst | enc_shape (fun (d : list Z) (j i : Z) => (i, j, d)) c b p fuel dst
          (* no write cursor in the state: dst[2*i], dst[2*i+1] *)
          | enc_shape (fun (d : list Z) (j i : Z) => (d, i)) c b p fuel dst | enc_shape (fun (d : list Z) (j i : Z) => (i, d)) c b p fuel dst ]
  end.
  mev. finish_state.
Qed.

(* ================================================================== HexEncode (strz/enc.go): make + hexEncode *)
(* open everything except the function f, which has its own theorem *)
Ltac open_code_keep top f := unfold top; let F := fresh "F" in set (F := f); open_code; subst F.

Lemma m_make_nat n : m_make (Z.of_nat n) = Ret (repeat 0 n).
Proof. unfold m_make. destruct (Z.ltb_spec (Z.of_nat n) 0); [lia|]. rewrite Nat2Z.id. reflexivity. Qed.
Lemma m_make_eq z n : z = Z.of_nat n -> m_make z = Ret (repeat 0 n).
Proof. intros ->. apply m_make_nat. Qed.

Theorem code_HexEncode : forall fuel s, Forall is_byte s -> (length s < fuel)%nat -> g_HexEncode fuel s = Ret (hex_encode s).
Proof.
  intros fuel s Hb Hf. open_code_keep g_HexEncode g_hexEncode.
  rewrite (m_make_eq _ (2 * length s)) by (unfold zlen; lia). mev.
  rewrite code_hexEncode by (rewrite ?repeat_length; auto; lia). mev.
  rewrite skipn_all2 by (rewrite repeat_length; lia). rewrite app_nil_r. reflexivity.
Qed.

(* ================================================================== hexDecode (strz/std_hex.go) *)
(* herr_code (Run/C15Code.v): the error value of the generated code for the model's error *)

Lemma hex_decode_acc src acc : hex_decode src acc = (acc ++ fst (hex_decode src []), snd (hex_decode src [])).
Proof. rewrite (decode_spec src acc), (decode_spec src []). reflexivity. Qed.
Lemma hex_decode_pair a b t x y : from_hex a = Some x -> from_hex b = Some y ->
  hex_decode (a :: b :: t) [] = (Z.lor (Z.shiftl x 4) y :: fst (hex_decode t []), snd (hex_decode t [])).
Proof. intros Ha Hb. cbn [hex_decode]. rewrite Ha, Hb. cbn [app]. rewrite hex_decode_acc. reflexivity. Qed.

Lemma from_hex_some c x : from_hex c = Some x ->
  (48 <= c <= 57 /\ x = c - 48) \/ (97 <= c <= 102 /\ x = c - 97 + 10) \/ (65 <= c <= 70 /\ x = c - 65 + 10).
Proof.
  unfold from_hex.
  destruct (Z.leb_spec 48 c); destruct (Z.leb_spec c 57); cbn [andb]; try (intros E; inversion E; lia).
  all: destruct (Z.leb_spec 97 c); destruct (Z.leb_spec c 102); cbn [andb]; try (intros E; inversion E; lia).
  all: destruct (Z.leb_spec 65 c); destruct (Z.leb_spec c 70); cbn [andb]; try (intros E; inversion E; lia); discriminate.
Qed.
Lemma from_hex_none c : from_hex c = None -> ~ 48 <= c <= 57 /\ ~ 97 <= c <= 102 /\ ~ 65 <= c <= 70.
Proof.
  unfold from_hex.
  destruct (Z.leb_spec 48 c); destruct (Z.leb_spec c 57); cbn [andb]; try discriminate.
  all: destruct (Z.leb_spec 97 c); destruct (Z.leb_spec c 102); cbn [andb]; try discriminate.
  all: destruct (Z.leb_spec 65 c); destruct (Z.leb_spec c 70); cbn [andb]; try discriminate; lia.
Qed.

(* the loop and the code behind it ([after]), for any order pk of (dst, i, j), given what one iteration does *)
Lemma dec_while {St} (pk : list Z -> Z -> Z -> St) (c : St -> M bool) (b : St -> M (ctl St (list Z * (Z * Z)))) (p : St -> M St)
    (after : St + list Z * (Z * Z) -> M (list Z * (Z * Z))) (src : list Z) :
  (forall k d, (2 * k + 1 < length src)%nat ->
     iter1 c b p (pk d (Z.of_nat k) (Z.of_nat (2 * k + 1))) =
     match from_hex (nth (2 * k) src 0) with
     | None => Ret (inr (inr (d, (Z.of_nat k, errk_InvalidByte (nth (2 * k) src 0)))))
     | Some x =>
         match from_hex (nth (2 * k + 1) src 0) with
         | None => Ret (inr (inr (d, (Z.of_nat k, errk_InvalidByte (nth (2 * k + 1) src 0)))))
         | Some y => bind (m_set d (Z.of_nat k) (Z.lor (Z.shiftl x 4) y))
                          (fun d' => Ret (inl (pk d' (Z.of_nat k + 1) (Z.of_nat (2 * k + 1) + 2))))
         end
     end) ->
  (forall k d, (length src <= 2 * k + 1)%nat ->
     iter1 c b p (pk d (Z.of_nat k) (Z.of_nat (2 * k + 1))) = Ret (inr (inl (pk d (Z.of_nat k) (Z.of_nat (2 * k + 1)))))) ->
  (forall k d, length src = (2 * k)%nat -> after (inl (pk d (Z.of_nat k) (Z.of_nat (2 * k + 1)))) = Ret (d, (Z.of_nat k, 0))) ->
  (forall k d, length src = (2 * k + 1)%nat ->
     after (inl (pk d (Z.of_nat k) (Z.of_nat (2 * k + 1)))) =
     Ret (d, (Z.of_nat k, match from_hex (nth (2 * k) src 0) with None => errk_InvalidByte (nth (2 * k) src 0) | Some _ => errk_ErrLength end))) ->
  (forall v, after (inr v) = Ret v) ->
  forall f k pre rest, (2 * k <= length src)%nat -> (length src - 2 * k < 2 * f)%nat -> length pre = k ->
    (length (fst (hex_decode (skipn (2 * k) src) [])) <= length rest)%nat ->
    bind (while f c b p (pk (pre ++ rest) (Z.of_nat k) (Z.of_nat (2 * k + 1)))) after =
    Ret (pre ++ fst (hex_decode (skipn (2 * k) src) []) ++ skipn (length (fst (hex_decode (skipn (2 * k) src) []))) rest,
         (Z.of_nat (k + length (fst (hex_decode (skipn (2 * k) src) []))), herr_code (snd (hex_decode (skipn (2 * k) src) [])))).
Proof.
  intros Hstep Hend Heven Hodd Hret. induction f as [|f IH]; intros k pre rest Hk Hf Hp Hfit; [lia|]. rewrite while_iter.
  destruct (Nat.eq_dec (length src) (2 * k)) as [E0|N0]; [|destruct (Nat.eq_dec (length src) (2 * k + 1)) as [E1|N1]].
  - rewrite Hend by lia. cbn [bind]. rewrite Heven by exact E0. rewrite skipn_all2 by lia.
    cbn [hex_decode fst snd app length skipn herr_code]. rewrite Nat.add_0_r. reflexivity.
  - rewrite Hend by lia. cbn [bind]. rewrite Hodd by exact E1.
    rewrite (skipn_cons_nth src (2 * k)) by lia. rewrite skipn_all2 by lia. cbn [hex_decode].
    destruct (from_hex (nth (2 * k) src 0)); cbn [fst snd app length skipn herr_code]; rewrite Nat.add_0_r; reflexivity.
  - assert (Hlt : (2 * k + 1 < length src)%nat) by lia.
    rewrite (Hstep k _ Hlt).
    rewrite (skipn_cons_nth src (2 * k)) in * by lia. rewrite (skipn_cons_nth src (S (2 * k))) in * by lia.
    replace (S (2 * k)) with (2 * k + 1)%nat in * by lia.
    destruct (from_hex (nth (2 * k) src 0)) as [x|] eqn:Ea.
    2:{ cbn [bind]. rewrite Hret. cbn [hex_decode]. rewrite Ea. cbn [fst snd app length skipn herr_code]. rewrite Nat.add_0_r. reflexivity. }
    destruct (from_hex (nth (2 * k + 1) src 0)) as [y|] eqn:Eb.
    2:{ cbn [bind]. rewrite Hret. cbn [hex_decode]. rewrite Ea, Eb. cbn [fst snd app length skipn herr_code]. rewrite Nat.add_0_r. reflexivity. }
    rewrite (hex_decode_pair _ _ _ x y Ea Eb) in *. cbn [fst snd length] in *.
    destruct rest as [|r0 rest]; [cbn [length] in Hfit; lia|].
    rewrite m_set_at0 by lia. cbn [bind].
    replace (pre ++ Z.lor (Z.shiftl x 4) y :: rest) with ((pre ++ [Z.lor (Z.shiftl x 4) y]) ++ rest) by (rewrite <- app_assoc; reflexivity).
    replace (Z.of_nat k + 1) with (Z.of_nat (S k)) by lia.
    replace (Z.of_nat (2 * k + 1) + 2) with (Z.of_nat (2 * S k + 1)) by lia.
    replace (S (2 * k + 1)) with (2 * S k)%nat in * by lia.
    rewrite IH; [| lia | lia | rewrite app_length; cbn [length]; lia | cbn [length] in Hfit; lia ].
    rewrite <- !app_assoc. cbn [app skipn]. rewrite Nat.add_succ_comm. reflexivity.
Qed.

Lemma shiftl4_small x : 0 <= x < 16 -> 0 <= Z.shiftl x 4 < 256.
Proof. intros H. rewrite Z.shiftl_mul_pow2 by lia. change (2 ^ 4) with 16. lia. Qed.

(* model-directed case analysis: which range a character is in *)
Ltac hex_cases c :=
  let E := fresh "E" in
  destruct (from_hex c) as [?x|] eqn:E;
  [ apply from_hex_some in E; destruct E as [[? ?]|[[? ?]|[? ?]]]; subst | apply from_hex_none in E; destruct E as (? & ? & ?) ].
(* the parity test of the length, whatever its form: len % 2, len & 1 *)
Lemma land1 x : Z.land x 1 = x mod 2.
Proof. change 1 with (Z.ones 1). rewrite Z.land_ones by lia. reflexivity. Qed.
Ltac parity_norm := rewrite ?land1; rewrite ?Z.rem_mod_nonneg by (unfold zlen; lia).
(* index reads of src at 2k / 2k+1, whatever the index expression looks like *)
Ltac reads src k :=
  repeat match goal with |- context [m_get src ?e] =>
    first [ rewrite (m_get_eq src e (2 * k)) by (unfold zlen; lia) | rewrite (m_get_eq src e (2 * k + 1)) by (unfold zlen; lia) ] end.
Ltac dec_ev src k :=
  repeat first [ rewrite bind_Ret | rewrite bind_assoc | decide_if | small_wrap | progress reads src k | progress cbv beta iota ].

Ltac dec_shape pk c b p after fuel dst src :=
  let H1 := fresh "H1" in let H2 := fresh "H2" in let H3 := fresh "H3" in let H4 := fresh "H4" in let H5 := fresh "H5" in
  assert (H1 : forall k d, (2 * k + 1 < length src)%nat ->
     iter1 c b p (pk d (Z.of_nat k) (Z.of_nat (2 * k + 1))) =
     match from_hex (nth (2 * k) src 0) with
     | None => Ret (inr (inr (d, (Z.of_nat k, errk_InvalidByte (nth (2 * k) src 0)))))
     | Some x =>
         match from_hex (nth (2 * k + 1) src 0) with
         | None => Ret (inr (inr (d, (Z.of_nat k, errk_InvalidByte (nth (2 * k + 1) src 0)))))
         | Some y => bind (m_set d (Z.of_nat k) (Z.lor (Z.shiftl x 4) y))
                          (fun d' => Ret (inl (pk d' (Z.of_nat k + 1) (Z.of_nat (2 * k + 1) + 2))))
         end
     end);
  [ let k := fresh "k" in intros k d Hk; iter_open; unfold errk_InvalidByte; reads src k;
    hex_cases (nth (2 * k) src 0); dec_ev src k; try reflexivity;
    hex_cases (nth (2 * k + 1) src 0); dec_ev src k; try reflexivity;
    rewrite ?(wrap8_small (Z.shiftl _ 4)) by (apply shiftl4_small; lia);
    match goal with |- bind ?m _ = _ => destruct m; cbn [bind]; finish_state end
  | assert (H2 : forall k d, (length src <= 2 * k + 1)%nat ->
       iter1 c b p (pk d (Z.of_nat k) (Z.of_nat (2 * k + 1))) = Ret (inr (inl (pk d (Z.of_nat k) (Z.of_nat (2 * k + 1))))));
    [ let k := fresh "k" in intros k ? ?; iter_open; dec_ev src k; reflexivity
    | assert (H3 : forall k d, length src = (2 * k)%nat -> after (inl (pk d (Z.of_nat k) (Z.of_nat (2 * k + 1)))) = Ret (d, (Z.of_nat k, 0)));
      [ let k := fresh "k" in intros k ? ?; cbv beta iota; parity_norm; dec_ev src k; reflexivity
      | assert (H4 : forall k d, length src = (2 * k + 1)%nat ->
           after (inl (pk d (Z.of_nat k) (Z.of_nat (2 * k + 1)))) =
           Ret (d, (Z.of_nat k, match from_hex (nth (2 * k) src 0) with None => errk_InvalidByte (nth (2 * k) src 0) | Some _ => errk_ErrLength end)));
        [ let k := fresh "k" in intros k d Hk; cbv beta iota; unfold errk_InvalidByte, errk_ErrLength; parity_norm;
          dec_ev src k; hex_cases (nth (2 * k) src 0); dec_ev src k; reflexivity
        | assert (H5 : forall v, after (inr v) = Ret v) by (intros; reflexivity);
          let E := fresh "E" in
          pose proof (dec_while pk c b p after src H1 H2 H3 H4 H5 fuel 0%nat [] dst ltac:(lia) ltac:(lia) eq_refl) as E;
          cbn [app length skipn Nat.mul Nat.add] in E; change (Z.of_nat 0) with 0 in E; change (Z.of_nat 1) with 1 in E; cbv beta in E;
          rewrite E by assumption; clear E H1 H2 H3 H4 H5 ] ] ] ].

(* dst long enough for the decoded prefix: that prefix is written to the front of dst, the rest of dst is untouched; the
   results are its length and the error (kind and offending byte) of the model; any fuel above len(src) / 2.
   (Go's int: j += 2 stays below 2^63 for every slice length.) *)
Theorem code_hexDecode : forall fuel dst src, (length src < 2 * fuel)%nat ->
  (length (fst (hex_decode src [])) <= length dst)%nat ->
  g_hexDecode fuel dst src =
  Ret (fst (hex_decode src []) ++ skipn (length (fst (hex_decode src []))) dst,
       (zlen (fst (hex_decode src [])), herr_code (snd (hex_decode src [])))).
Proof.
  intros fuel dst src Hf Hd. open_code.
  match goal with |- bind (while fuel ?c ?b ?p ?s) ?after = _ =>
    first [ dec_shape (fun (d : list Z) (i j : Z) => (d, i, j)) c b p after fuel dst src | dec_shape (fun (d : list Z) (i j : Z) => (d, j, i)) c b p after fuel dst src
          | dec_shape (fun (d : list Z) (i j : Z) => (i, d, j)) c b p after fuel dst src | dec_shape (fun (d : list Z) (i j : Z) => (j, d, i)) c b p after fuel dst src
          | dec_shape (fun (d : list Z) (i j : Z) => (i, j, d)) c b p after fuel dst src | dec_shape (fun (d : list Z) (i j : Z) => (j, i, d)) c b p after fuel dst src
          (* no read cursor in the state: src[2*i], src[2*i+1] *)
          | dec_shape (fun (d : list Z) (i j : Z) => (d, i)) c b p after fuel dst src | dec_shape (fun (d : list Z) (i j : Z) => (i, d)) c b p after fuel dst src ]
  end.
  reflexivity.
Qed.

(* ================================================================== HexDecode (strz/enc.go): make + hexDecode + dst[:n] *)
Lemma hex_decode_len : forall n s, (length s <= n)%nat -> (2 * length (fst (hex_decode s [])) <= length s)%nat.
Proof.
  induction n as [|n IH]; intros s Hs.
  - destruct s; [cbn; lia|cbn [length] in Hs; lia].
  - destruct s as [|a [|b t]]; [cbn; lia| cbn [hex_decode]; destruct (from_hex a); cbn; lia |].
    cbn [hex_decode]. destruct (from_hex a) as [x|] eqn:Ea; [|cbn; lia]. destruct (from_hex b) as [y|] eqn:Eb; [|cbn; lia].
    rewrite hex_decode_acc. cbn [fst app length] in *. specialize (IH t ltac:(lia)). lia.
Qed.
Lemma firstn_exact {A} (l r : list A) : firstn (length l) (l ++ r) = l.
Proof. rewrite firstn_app, Nat.sub_diag, firstn_all. cbn [firstn]. apply app_nil_r. Qed.

Theorem code_HexDecode : forall fuel s, (length s < 2 * fuel)%nat ->
  g_HexDecode fuel s = Ret (fst (hex_decode s []), herr_code (snd (hex_decode s []))).
Proof.
  intros fuel s Hf. open_code_keep g_HexDecode g_hexDecode.
  pose proof (hex_decode_len (length s) s (le_n _)) as Hl.
  assert (Hfit : (length (fst (hex_decode s [])) <= length s / 2)%nat) by (apply Nat.div_le_lower_bound; lia).
  rewrite (m_make_eq _ (length s / 2)) by (unfold zlen; rewrite Z.quot_div_nonneg by lia; rewrite Nat2Z.inj_div; reflexivity). mev.
  rewrite code_hexDecode by (rewrite ?repeat_length; lia). mev.
  unfold zlen. rewrite m_slice_to by (rewrite app_length; lia). mev.
  rewrite firstn_exact. reflexivity.
Qed.

(* ================================================================== underscoreOK (strz/std_strconv.go) *)
(* join points: the translator turns "what follows an if whose branches fall through" into a local function that is called
   at the end of both branches.  [name_join K] names the first one of the goal, so that one general fact about it can be
   proved (once) and used at every call. *)
Ltac open_top f := cbv delta [f]; cbv beta.
Ltac name_join K :=
  match goal with |- context [let k := ?F in _] => lazymatch type of F with forall _, _ => set (K := F) end end.
(* the join point at the head of the left-hand side: name it and put the name at its call sites *)
Ltac head_join K :=
  lazymatch goal with
  | |- (let x := ?v in @?b x) = ?r =>
      lazymatch type of v with forall _, _ => set (K := v); let t := eval cbv beta in (b K) in change (t = r) end
  end.

(* the model, with the literal pattern 48 :: c1 :: t spelled as a test *)
Definition us_strip (s : list Z) : list Z := match s with c :: t => if (c =? 45) || (c =? 43) then t else s | [] => s end.
Definition us_body (s1 : list Z) : bool :=
  match s1 with
  | c0 :: c1 :: t => if (c0 =? 48) && is_boxl c1 then us_scan (lower c1 =? 120) t SDigit else us_scan false s1 SBegin
  | _ => us_scan false s1 SBegin
  end.
Lemma underscore_ok_eq s : underscore_ok s = us_body (us_strip s).
Proof.
  unfold underscore_ok, us_body. fold (us_strip s). destruct (us_strip s) as [|c0 [|c1 t]]; try reflexivity.
  - destruct c0 as [|p|p]; try reflexivity. do 7 (try (destruct p as [p|p|]; try reflexivity)).
  - destruct (Z.eqb_spec c0 48) as [->|Hne]; [reflexivity|]. cbn [andb].
    destruct c0 as [|p|p]; try reflexivity. do 7 (try (destruct p as [p|p|]; try reflexivity)). congruence.
Qed.

(* the state variable saw of the code ('^' '0' '_' '!') and the model's states *)
Definition saw_code (st : saw) : Z := match st with SBegin => 94 | SDigit => 48 | SUnder => 95 | SOther => 33 end.
(* one character, on the codes *)
Definition us_stepZ (hex : bool) (c sw : Z) : option Z :=
  if ((48 <=? c) && (c <=? 57)) || (hex && (97 <=? lower c) && (lower c <=? 102)) then Some 48
  else if c =? 95 then (if sw =? 48 then Some 95 else None)
  else if sw =? 95 then None else Some 33.
Definition us_step (hex : bool) (c : Z) (st : saw) : option saw :=
  if ((48 <=? c) && (c <=? 57)) || (hex && (97 <=? lower c) && (lower c <=? 102)) then Some SDigit
  else if c =? 95 then match st with SDigit => Some SUnder | _ => None end
  else match st with SUnder => None | _ => Some SOther end.
Lemma us_step_code hex c st : us_stepZ hex c (saw_code st) = option_map saw_code (us_step hex c st).
Proof.
  unfold us_stepZ, us_step. destruct (((48 <=? c) && (c <=? 57)) || (hex && (97 <=? lower c) && (lower c <=? 102))); [reflexivity|].
  destruct (c =? 95); destruct st; reflexivity.
Qed.
Lemma us_scan_cons hex c t st : us_scan hex (c :: t) st = match us_step hex c st with None => false | Some st' => us_scan hex t st' end.
Proof.
  cbn [us_scan]. unfold us_step. destruct (((48 <=? c) && (c <=? 57)) || (hex && (97 <=? lower c) && (lower c <=? 102))); [reflexivity|].
  destruct (c =? 95); destruct st; reflexivity.
Qed.
Lemma saw_code_inj a b : saw_code a = saw_code b -> a = b.
Proof. destruct a, b; cbn; congruence. Qed.

(* the loop and the code behind it, for any order pk of (saw, i), given what one iteration does *)
Lemma us_while {St} (pk : Z -> Z -> St) (c : St -> M bool) (b : St -> M (ctl St bool)) (p : St -> M St)
    (after : St + bool -> M bool) (hex : bool) (s : list Z) :
  (forall k sw, (k < length s)%nat ->
     iter1 c b p (pk sw (Z.of_nat k)) =
     Ret (match us_stepZ hex (nth k s 0) sw with None => inr (inr false) | Some sw' => inl (pk sw' (Z.of_nat k + 1)) end)) ->
  (forall sw, iter1 c b p (pk sw (zlen s)) = Ret (inr (inl (pk sw (zlen s))))) ->
  (forall sw i, after (inl (pk sw i)) = Ret (negb (sw =? 95))) ->
  (forall v, after (inr v) = Ret v) ->
  forall f k st, (k <= length s)%nat -> (length s - k < f)%nat ->
    bind (while f c b p (pk (saw_code st) (Z.of_nat k))) after = Ret (us_scan hex (skipn k s) st).
Proof.
  intros Hstep Hend Hafter Hret. induction f as [|f IH]; intros k st Hk Hf; [lia|]. rewrite while_iter.
  destruct (Nat.eq_dec k (length s)) as [->|Hne].
  - fold (zlen s). rewrite Hend. cbn [bind]. rewrite Hafter, skipn_all. destruct st; reflexivity.
  - assert (Hlt : (k < length s)%nat) by lia. rewrite (Hstep k _ Hlt), us_step_code, (skipn_cons_nth s k Hlt), us_scan_cons.
    destruct (us_step hex (nth k s 0) st) as [st'|]; cbn [option_map bind].
    + replace (Z.of_nat k + 1) with (Z.of_nat (S k)) by lia. apply IH; lia.
    + apply Hret.
Qed.

(* case analysis on the atomic comparisons of both sides, most shared first *)
Ltac break_atom :=
  match goal with
  | |- context [?a =? ?b] => destruct (a =? b) eqn:?
  | |- context [?a <? ?b] => destruct (a <? b) eqn:?
  | |- context [?a <=? ?b] => destruct (a <=? b) eqn:?
  | |- context [if ?c then _ else _] => destruct c eqn:?
  end; cbn [negb andb orb]; cbv beta iota.
Ltac crush_eq := repeat first [ rewrite bind_Ret | progress cbv beta iota | break_atom ]; first [ reflexivity | exfalso; lia ].

Ltac us_shape pk c b p after fuel hex s1 st k :=
  let H1 := fresh "H1" in let H2 := fresh "H2" in let H3 := fresh "H3" in
  assert (H1 : forall k sw, (k < length s1)%nat ->
     iter1 c b p (pk sw (Z.of_nat k)) =
     Ret (match us_stepZ hex (nth k s1 0) sw with None => inr (inr false) | Some sw' => inl (pk sw' (Z.of_nat k + 1)) end));
  [ let k := fresh "k" in intros k ? ?; iter_open; unfold us_stepZ, lower;
    repeat first [ decide_if | rewrite (m_get_eq s1 _ k) by lia | rewrite bind_Ret | progress cbv beta iota ];
    generalize (nth k s1 0); intro; clear; crush_eq
  | assert (H2 : forall sw, iter1 c b p (pk sw (zlen s1)) = Ret (inr (inl (pk sw (zlen s1)))));
    [ intros; iter_open; repeat first [ decide_if | rewrite bind_Ret | progress cbv beta iota ]; reflexivity
    | assert (H3 : forall sw i, after (inl (pk sw i)) = Ret (negb (sw =? 95)));
      [ intros; cbv beta iota; crush_eq
      | rewrite (us_while pk c b p after hex s1 H1 H2 H3 (fun v => eq_refl) fuel k st) by lia; clear H1 H2 H3 ] ] ].

Theorem code_underscoreOK : forall fuel s, (length s < fuel)%nat -> g_underscoreOK fuel s = Ret (underscore_ok s).
Proof.
  intros fuel s Hf. rewrite underscore_ok_eq. open_top g_underscoreOK. repeat head_let. name_join K.
  (* what follows the optional sign *)
  assert (HK : forall s1, (length s1 < fuel)%nat -> K s1 = Ret (us_body s1)).
  { intros s1 Hf1. subst K. cbv beta. repeat head_let. name_join K18.
    (* the loop from position k in state st, and the final test *)
    assert (H18 : forall hex sw i st k, sw = saw_code st -> i = Z.of_nat k -> (k <= length s1)%nat ->
              K18 sw i hex = Ret (us_scan hex (skipn k s1) st)).
    { intros hex sw i st k -> -> Hk. subst K18. cbv beta. open_code.
      match goal with |- bind (while fuel ?c ?b ?p ?s0) ?after = _ =>
        first [ us_shape (fun sw i : Z => (sw, i)) c b p after fuel hex s1 st k | us_shape (fun sw i : Z => (i, sw)) c b p after fuel hex s1 st k ]
      end. reflexivity. }
    clearbody K18. open_code. unfold us_body, is_boxl, lower.
    destruct s1 as [|a [|b t]].
    - mev. rewrite (H18 _ _ _ SBegin 0%nat) by (reflexivity || (cbn [length]; lia)). reflexivity.
    - mev. rewrite (H18 _ _ _ SBegin 0%nat) by (reflexivity || (cbn [length]; lia)). reflexivity.
    - destruct (Z.eqb_spec a 48); destruct (Z.eqb_spec (Z.lor b 32) 98); destruct (Z.eqb_spec (Z.lor b 32) 111); destruct (Z.eqb_spec (Z.lor b 32) 120);
        try (exfalso; lia); cbn [andb orb]; mev;
        first [ rewrite (H18 _ _ _ SDigit 2%nat) by (reflexivity || (cbn [length]; lia)) | rewrite (H18 _ _ _ SBegin 0%nat) by (reflexivity || (cbn [length]; lia)) ];
        cbn [skipn]; repeat decide_if; repeat decide_cmp; reflexivity. }
  clearbody K. open_code. unfold us_strip.
  destruct s as [|c0 t]; [mev; rewrite HK by exact Hf; reflexivity|].
  destruct (Z.eqb_spec c0 45); [|destruct (Z.eqb_spec c0 43)]; cbn [orb]; mev; rewrite HK by (cbn [length] in Hf; cbn [length]; lia); reflexivity.
Qed.

(* ================================================================== ParseUint (strz/std_strconv.go) *)
(* what the code returns for a model result: (value, error) with the error kinds of gen/strconv_code.go, nil = 0 *)
Definition pres (r : presult) : Z * Z := (presult_val r, presult_kind r).

(* the model's frame, cut where the code has its join point "after the base switch" (definitional) *)
Definition frame_pre (s : list Z) (c0 : Z) (base : Z) : option (Z * list Z) :=
  let base0 := base =? 0 in
  if (g_base_lo <=? base) && (base <=? g_base_hi) then Some (base, s)
  else if base0 then
    if c0 =? 48 then
      match s with
      | _ :: c1 :: ((_ :: _) as t) =>
          if lower c1 =? 98 then Some (2, t)
          else if lower c1 =? 111 then Some (8, t)
          else if lower c1 =? 120 then Some (16, t)
          else Some (8, tl s)
      | _ => Some (8, tl s)
      end
    else Some (10, s)
  else None.
Definition frame_end (ok : bool) (r : presult + (Z * bool)) : presult :=
  match r with inl e => e | inr (n, us) => if us && negb ok then PSyntax else POk n end.
Definition frame_rest (base0 : bool) (s : list Z) (bitSize b : Z) (body : list Z) : presult :=
  let bits := if bitSize =? 0 then word_bits else bitSize in
  if (bitSize <? g_bits_min) || (g_bits_max <? bitSize) then PBitSize
  else frame_end (underscore_ok s) (digit_loop base0 b bits body 0 false).
Lemma parse_uint_eq c0 t base bitSize :
  parse_uint (c0 :: t) base bitSize =
  match frame_pre (c0 :: t) c0 base with None => PBase | Some (b, body) => frame_rest (base =? 0) (c0 :: t) bitSize b body end.
Proof. reflexivity. Qed.

(* one character of the digit loop *)
Definition pstep (base0 : bool) (base bits c n : Z) (us : bool) : presult + (Z * bool) :=
  if (c =? 95) && base0 then inr (n, true)
  else match digit_of c with
       | None => inl PSyntax
       | Some d =>
           if base mod 256 <=? d then inl PSyntax
           else if cutoff base <=? n then inl (PRange (maxval bits))
           else let n' := w64 (n * base) in
                let n1 := w64 (n' + d) in
                if (n1 <? n') || (maxval bits <? n1) then inl (PRange (maxval bits)) else inr (n1, us)
       end.
Lemma digit_loop_cons base0 base bits c t n us :
  digit_loop base0 base bits (c :: t) n us =
  match pstep base0 base bits c n us with inl e => inl e | inr (n', us') => digit_loop base0 base bits t n' us' end.
Proof.
  cbn [digit_loop]. unfold pstep. destruct ((c =? 95) && base0); [reflexivity|].
  destruct (digit_of c) as [d|]; [|reflexivity].
  destruct (base mod 256 <=? d); [reflexivity|]. destruct (cutoff base <=? n); [reflexivity|].
  cbv zeta. destruct ((w64 (w64 (n * base) + d) <? w64 (n * base)) || (maxval bits <? w64 (w64 (n * base) + d))); reflexivity.
Qed.
Lemma digit_of_some c d : digit_of c = Some d ->
  (48 <= c <= 57 /\ d = c - 48) \/ (~ 48 <= c <= 57 /\ 97 <= lower c <= 122 /\ d = lower c - 97 + 10).
Proof.
  unfold digit_of. destruct (Z.leb_spec 48 c); destruct (Z.leb_spec c 57); cbn [andb]; try (intros E; inversion E; lia).
  all: destruct (Z.leb_spec 97 (lower c)); destruct (Z.leb_spec (lower c) 122); cbn [andb]; try (intros E; inversion E; lia); discriminate.
Qed.
Lemma digit_of_none c : digit_of c = None -> ~ 48 <= c <= 57 /\ ~ 97 <= lower c <= 122.
Proof.
  unfold digit_of. destruct (Z.leb_spec 48 c); destruct (Z.leb_spec c 57); cbn [andb]; try discriminate.
  all: destruct (Z.leb_spec 97 (lower c)); destruct (Z.leb_spec (lower c) 122); cbn [andb]; try discriminate; lia.
Qed.

(* maxVal := uint64(1)<<uint(bitSize) - 1 as the code computes it *)
Lemma maxval_code bits : 0 <= bits <= 64 -> wrap 64 (wrap 64 (Z.shiftl 1 (wrap 64 bits)) - 1) = maxval bits.
Proof.
  intros H. rewrite (wrap64_small bits) by lia. rewrite Z.shiftl_1_l. unfold maxval.
  destruct (Z.ltb_spec bits 64); [reflexivity|]. assert (bits = 64) by lia. subst bits. reflexivity.
Qed.
(* cutoff := maxUint64/uint64(base) + 1 as the code computes it in the default case *)
Lemma cutoff_code b : 2 <= b <= 36 -> wrap 64 (Z.quot 18446744073709551615 b + 1) = cutoff b.
Proof.
  intros H. unfold cutoff. change g_max_uint64 with 18446744073709551615. change g_cutoff_add with 1.
  rewrite Z.quot_div_nonneg by lia. apply wrap64_small.
  assert (0 <= 18446744073709551615 / b) by (apply Z.div_pos; lia).
  assert (18446744073709551615 / b < 9223372036854775808) by (apply Z.div_lt_upper_bound; lia). lia.
Qed.
Lemma m_quot_nz a b : b <> 0 -> m_quot a b = Ret (Z.quot a b).
Proof. intros H. unfold m_quot, goquot. destruct (Z.eqb_spec b 0); [contradiction|reflexivity]. Qed.

(* the digit loop and the code behind it, for any order pk of (underscores, n, i), given what one iteration does *)
Lemma pu_while {St} (pk : bool -> Z -> Z -> St) (c : St -> M bool) (b : St -> M (ctl St (Z * Z))) (p : St -> M St)
    (after : St + Z * Z -> M (Z * Z)) (base0 : bool) (base bits : Z) (ok : bool) (body : list Z) :
  (forall k us n, (k < length body)%nat ->
     iter1 c b p (pk us n (Z.of_nat k)) =
     Ret (match pstep base0 base bits (nth k body 0) n us with
          | inl e => inr (inr (pres e)) | inr (n', us') => inl (pk us' n' (Z.of_nat k + 1)) end)) ->
  (forall us n, iter1 c b p (pk us n (zlen body)) = Ret (inr (inl (pk us n (zlen body))))) ->
  (forall us n i, after (inl (pk us n i)) = Ret (pres (frame_end ok (inr (n, us))))) ->
  (forall v, after (inr v) = Ret v) ->
  forall f k n us, (k <= length body)%nat -> (length body - k < f)%nat ->
    bind (while f c b p (pk us n (Z.of_nat k))) after = Ret (pres (frame_end ok (digit_loop base0 base bits (skipn k body) n us))).
Proof.
  intros Hstep Hend Hafter Hret. induction f as [|f IH]; intros k n us Hk Hf; [lia|]. rewrite while_iter.
  destruct (Nat.eq_dec k (length body)) as [->|Hne].
  - fold (zlen body). rewrite Hend. cbn [bind]. rewrite Hafter, skipn_all. reflexivity.
  - assert (Hlt : (k < length body)%nat) by lia. rewrite (Hstep k _ _ Hlt), (skipn_cons_nth body k Hlt), digit_loop_cons.
    destruct (pstep base0 base bits (nth k body 0) n us) as [e|[n' us']]; cbn [bind].
    + apply Hret.
    + replace (Z.of_nat k + 1) with (Z.of_nat (S k)) by lia. apply IH; lia.
Qed.

Ltac pu_shape pk c b p after fuel base0 bv bits ok body :=
  let H1 := fresh "H1" in let H2 := fresh "H2" in let H3 := fresh "H3" in
  assert (H1 : forall k us n, (k < length body)%nat ->
     iter1 c b p (pk us n (Z.of_nat k)) =
     Ret (match pstep base0 bv bits (nth k body 0) n us with
          | inl e => inr (inr (pres e)) | inr (n', us') => inl (pk us' n' (Z.of_nat k + 1)) end));
  [ let k := fresh "k" in let ch := fresh "ch" in
    intros k ? ? ?; iter_open; unfold pstep;
    repeat first [ decide_if | rewrite (m_get_eq body _ k) by lia | rewrite bind_Ret | progress cbv beta iota ];
    generalize (nth k body 0); intros ch;
    destruct ((ch =? 95) && base0) eqn:?; [ mev; reflexivity | ];
    let E := fresh "E" in
    destruct (digit_of ch) as [?d|] eqn:E;
    [ apply digit_of_some in E; destruct E as [[? ?]|[? [? ?]]]; subst | apply digit_of_none in E; destruct E ];
    unfold lower in *; mev; try reflexivity;
    unfold wrap, w64, M64, pres; change (2 ^ 8) with 256; cbn [presult_val presult_kind];
    crush_eq
  | assert (H2 : forall us n, iter1 c b p (pk us n (zlen body)) = Ret (inr (inl (pk us n (zlen body)))));
    [ intros; iter_open; repeat first [ decide_if | rewrite bind_Ret | progress cbv beta iota ]; reflexivity
    | assert (H3 : forall us n i, after (inl (pk us n i)) = Ret (pres (frame_end ok (inr (n, us)))));
      [ let us := fresh "us" in intros us ? ?; cbv beta iota; unfold frame_end; destruct us; mev;
        rewrite ?code_underscoreOK by lia; mev; try reflexivity; destruct ok; reflexivity
      | let E := fresh "E" in
        pose proof (pu_while pk c b p after base0 bv bits ok body H1 H2 H3 (fun v => eq_refl) fuel 0%nat 0 false ltac:(lia) ltac:(lia)) as E;
        change (Z.of_nat 0) with 0 in E; cbn [skipn] in E; cbv beta in E; rewrite E; clear E H1 H2 H3 ] ] ].

(* for EVERY text, base and bit size, and every fuel above the length of the text: value and error kind of the model
   (Go's int is unbounded in the translation; ParseUint's ints are indices <= len(s), nothing can overflow) *)
Theorem code_ParseUint : forall fuel s base bitSize, (length s < fuel)%nat ->
  g_ParseUint fuel s base bitSize = Ret (pres (parse_uint s base bitSize)).
Proof.
  intros fuel s base bitSize Hf. open_top g_ParseUint.
  destruct s as [|c0 t]; [mev; reflexivity|]. decide_if. cbv beta iota. rewrite parse_uint_eq. set (s := c0 :: t) in *.
  repeat head_let. head_join K1.
  (* the rest of the function, behind the base switch: for every text body and base b that the switch hands over *)
  assert (HK1 : forall body b, 2 <= b <= 36 -> (length body <= length s)%nat ->
            K1 body b = Ret (pres (frame_rest (base =? 0) s bitSize b body))).
  { intros body b Hb Hlen. subst K1. cbv beta. repeat head_let. head_join K16.
    (* behind the bit size check *)
    assert (HK16 : forall bits, 1 <= bits <= 64 ->
              K16 bits = Ret (pres (frame_end (underscore_ok s) (digit_loop (base =? 0) b bits body 0 false)))).
    { intros bits Hbits. subst K16. cbv beta. repeat head_let. head_join K17.
      (* behind the cutoff switch: the digit loop and the final underscore check *)
      assert (HK17 : forall cutoffv, cutoffv = cutoff b ->
                K17 cutoffv = Ret (pres (frame_end (underscore_ok s) (digit_loop (base =? 0) b bits body 0 false)))).
      { intros cutoffv ->. subst K17. cbv beta.
        let U := fresh "U" in set (U := g_underscoreOK); open_code; subst U.
        rewrite ?maxval_code by lia.
        match goal with |- bind (while fuel ?c ?lb ?p ?s0) ?after = _ =>
          first [ pu_shape (fun (us : bool) (n i : Z) => (us, n, i)) c lb p after fuel (base =? 0) b bits (underscore_ok s) body
                | pu_shape (fun (us : bool) (n i : Z) => (us, i, n)) c lb p after fuel (base =? 0) b bits (underscore_ok s) body
                | pu_shape (fun (us : bool) (n i : Z) => (n, us, i)) c lb p after fuel (base =? 0) b bits (underscore_ok s) body
                | pu_shape (fun (us : bool) (n i : Z) => (i, us, n)) c lb p after fuel (base =? 0) b bits (underscore_ok s) body
                | pu_shape (fun (us : bool) (n i : Z) => (n, i, us)) c lb p after fuel (base =? 0) b bits (underscore_ok s) body
                | pu_shape (fun (us : bool) (n i : Z) => (i, n, us)) c lb p after fuel (base =? 0) b bits (underscore_ok s) body ]
        end. reflexivity. }
      clearbody K17. open_code.
      destruct (Z.eqb_spec b 10) as [->|]; [|destruct (Z.eqb_spec b 16) as [->|]]; mev;
        rewrite ?m_quot_nz by lia; mev; apply HK17; first [ reflexivity | apply cutoff_code; lia ]. }
    clearbody K16. open_code. unfold frame_rest, g_bits_min, g_bits_max, word_bits.
    destruct (Z.eqb_spec bitSize 0) as [->|]; [mev; apply HK16; lia|].
    destruct ((bitSize <? 0) || (64 <? bitSize)) eqn:Eb; mev; [reflexivity|]. apply HK16; lia. }
  clearbody K1. open_code. unfold frame_pre, g_base_lo, g_base_hi, lower.
  destruct ((2 <=? base) && (base <=? 36)) eqn:Erange; [mev; rewrite HK1 by lia; reflexivity|].
  destruct (Z.eqb_spec base 0) as [->|]; [|mev; reflexivity].
  change (0 =? 0) with true in *. cbv beta iota. subst s.
  destruct (Z.eqb_spec c0 48) as [->|]; [|mev; rewrite HK1 by lia; reflexivity].
  destruct t as [|c1 [|c2 t]]; try (mev; rewrite HK1 by (cbn [length]; lia); reflexivity).
  destruct (Z.eqb_spec (Z.lor c1 32) 98); [|destruct (Z.eqb_spec (Z.lor c1 32) 111); [|destruct (Z.eqb_spec (Z.lor c1 32) 120)]];
    mev; rewrite HK1 by (cbn [length]; lia); reflexivity.
Qed.

(* ================================================================== the case interpreter through the generated code *)
Lemma is_byteb_Forall s : forallb is_byteb s = true -> Forall is_byte s.
Proof.
  intros H. rewrite forallb_forall in H. apply Forall_forall. intros c Hc. specialize (H c Hc).
  unfold is_byteb in H. unfold is_byte. lia.
Qed.
Lemma herr_tokens_code e : herr_tokens_of_code (herr_code e) = herr_tokens e.
Proof.
  destruct e as [|c|]; try reflexivity. unfold herr_tokens_of_code, herr_code, errk_InvalidByte, errk_ErrLength, herr_tokens.
  destruct (Z.eqb_spec (5 + 16 * c) 0); [lia|]. destruct (Z.eqb_spec (5 + 16 * c) 6); [lia|].
  replace (5 + 16 * c - 5) with (c * 16) by lia. rewrite Z.div_mul by lia. reflexivity.
Qed.

(* what the check executes as `entry 0` IS, for ParseUint / HexEncode / HexDecode, the generated code *)
Theorem entry_code_is_entry : forall sub args, entry_code sub args = entry sub args.
Proof.
  intros sub args. unfold entry_code. destruct (sub =? 0) eqn:Es; [|reflexivity].
  unfold entry. rewrite Es. destruct args as [|k [|a [|b r]]]; try reflexivity.
  destruct (get_list r) as [l1 r1]. destruct (get_list r1) as [l2 r2].
  unfold run_code, run.
  destruct (k =? 0).
  { rewrite code_ParseUint by lia. cbn [enc_m]. unfold pres, presult_tokens. reflexivity. }
  destruct (k =? 1).
  { destruct (forallb is_byteb l1) eqn:Eb; [|reflexivity]. rewrite code_HexEncode by (auto using is_byteb_Forall). reflexivity. }
  destruct (k =? 2); [|reflexivity].
  rewrite code_HexDecode by lia. cbn [enc_m]. rewrite herr_tokens_code. destruct (hex_decode l1 []). reflexivity.
Qed.

(* in-kernel anchors: the generated code computes (same cases as the anchors of Run/C15.v) *)
Example anchor_parse_code : entry_code 0 [0; 16; 8; 2; 102; 70; 0; 0] = [0; 0; 255; 1; 1; 1].
Proof. vm_compute. reflexivity. Qed.
Example anchor_range_code : entry_code 0 [0; 10; 8; 3; 50; 53; 54; 0; 0] = [2; 0; 255; 1; 1; 1].
Proof. vm_compute. reflexivity. Qed.
Example anchor_base0_code : entry_code 0 [0; 0; 64; 5; 48; 120; 95; 49; 102; 0; 0] = [0; 0; 31; 1; 1; 1].
Proof. vm_compute. reflexivity. Qed.
Example anchor_hexdec_code : entry_code 0 [2; 0; 0; 5; 52; 49; 103; 52; 50; 0; 0] = [1; 65; 1; 103; 1; 1; 1].
Proof. vm_compute. reflexivity. Qed.
Example anchor_hexenc_code : entry_code 0 [1; 0; 0; 2; 65; 255; 0; 0] = [4; 52; 49; 102; 102; 1; 1; 1].
Proof. vm_compute. reflexivity. Qed.
