(* C05 — trieNodeQueue (Model.Trie.queue): the growable ring of BuildFailureLinks is a FIFO across growth.
   From design-notes/proto/TrieQueue_proto.v with words as elements.  Counters are below 2^32 (one push per node). *)
From Coq Require Import List Arith Lia Bool ZArith.
From V Require Import Gen.Trie Model.Trie.
Import ListNotations.

Definition q_grow2 (s : queue) : queue :=
  let tailPos := ((qtl s - 1) mod qcp s)%nat in
  let headPos := (qhd s mod qcp s)%nat in
  let c2 := (qcp s * 2)%nat in
  let nw := repeat ([] : word) c2 in
  let nw' := if (headPos <? tailPos)%nat then gocopy nw (firstn (S tailPos - headPos) (skipn headPos (qnodes s)))
             else let p1 := skipn headPos (qnodes s) in
                  let n := Nat.min (length nw) (length p1) in
                  let nw1 := gocopy nw p1 in
                  firstn n nw1 ++ gocopy (skipn n nw1) (firstn (S tailPos) (qnodes s)) in
  mkQ nw' 0 (qtl s - qhd s) c2.
(* the growth factor comes from the source (Gen/Trie.v): the proofs below are about doubling *)
Lemma q_grow_eq s : q_grow s = q_grow2 s.
Proof. unfold q_grow, q_grow2. change (Z.to_nat queue_grow_factor) with 2%nat. reflexivity. Qed.

Lemma lupd_length l i x : length (lupd l i x) = length l.
Proof. revert i; induction l as [|a l IH]; intros [|i]; cbn [lupd length]; auto. Qed.
Lemma nth_lupd l i j x : i < length l -> nth j (lupd l i x) [] = if Nat.eqb j i then x else nth j l [].
Proof. revert i j; induction l as [|a l IH]; intros [|i] [|j] H; cbn [lupd nth length Nat.eqb] in *; try lia; auto. apply IH; lia. Qed.

(* the queue is created with Init(10) and only ever doubles: cap >= 2 (with cap = 1 the two-part copy of
   q_grow would duplicate the element into the unused half — harmless, but not the buffer described below) *)
Definition Inv (s : queue) (l : list word) : Prop :=
  2 <= qcp s /\ length (qnodes s) = qcp s /\ qhd s + length l = qtl s /\ length l <= qcp s /\
  forall j, j < length l -> nth ((qhd s + j) mod qcp s) (qnodes s) [] = nth j l [].

Lemma nth_firstn (l : list word) n j : nth j (firstn n l) [] = if j <? n then nth j l [] else [].
Proof.
  revert n j; induction l as [|a l IH]; intros [|n] [|j]; cbn [firstn nth]; auto.
  - destruct (S j <? S n); reflexivity.
  - rewrite IH. reflexivity.
Qed.
Lemma nth_skipn (l : list word) n j : nth j (skipn n l) [] = nth (n + j) l [].
Proof. revert l; induction n as [|n IH]; intros [|a l]; cbn [skipn nth Nat.add]; auto. destruct j; reflexivity. Qed.
Lemma skipn_repeat a b : skipn a (repeat ([] : word) b) = repeat [] (b - a).
Proof. revert a. induction b as [|b IH]; intros [|a]; cbn [repeat skipn Nat.sub]; auto. Qed.
Lemma gocopy_fits dst src : length src <= length dst -> gocopy dst src = src ++ skipn (length src) dst.
Proof. intros H. unfold gocopy. rewrite firstn_all2 by lia. reflexivity. Qed.
Lemma mod_wrap a c : 0 < c -> c <= a < 2 * c -> a mod c = a - c.
Proof. intros Hc Ha. symmetry. apply (Nat.mod_unique a c 1); lia. Qed.

(* a full ring, read from head around to tail-1, is the queue; the grown buffer starts with it *)
Lemma grow_spec s l : Inv s l -> length l = qcp s -> Inv (q_grow s) l /\ qcp (q_grow s) = 2 * qcp s.
Proof.
  intros (Hc & Hn & Ht & Hle & Hnth) Hfull. split; [|rewrite ?q_grow_eq; unfold q_grow2; cbn [qcp]; lia].
  set (c := qcp s) in *. set (h := qhd s mod c).
  assert (Hh : h < c) by (apply Nat.mod_upper_bound; lia).
  assert (Htp : (qtl s - 1) mod c = (h + c - 1) mod c).
  { replace (qtl s - 1) with (qhd s + (c - 1)) by lia. replace (h + c - 1) with (h + (c - 1)) by lia. unfold h. rewrite Nat.add_mod_idemp_l by lia. reflexivity. }
  (* element j of the queue sits at (h + j) mod c *)
  assert (Hq : forall j, j < c -> nth ((h + j) mod c) (qnodes s) [] = nth j l []).
  { intros j Hj. rewrite <- Hnth by lia. unfold h. rewrite Nat.add_mod_idemp_l by lia. reflexivity. }
  assert (Hbuf : qnodes (q_grow s) = l ++ repeat [] c).
  { rewrite ?q_grow_eq; unfold q_grow2. cbn [qnodes]. fold c. fold h. rewrite Htp.
    destruct (Nat.eq_dec h 0) as [Eh|Eh].
    - rewrite Eh. replace ((0 + c - 1) mod c) with (c - 1) by (rewrite Nat.mod_small; lia).
      destruct (Nat.ltb_spec 0 (c - 1)) as [Hlt|Hge].
      + cbn [skipn]. replace (S (c - 1) - 0) with c by lia. rewrite (firstn_all2 (qnodes s)) by lia.
        rewrite gocopy_fits by (rewrite repeat_length; lia). rewrite skipn_repeat, Hn. replace (c * 2 - c) with c by lia. f_equal.
        apply (nth_ext _ _ ([] : word) ([] : word)); [lia|]. intros j Hj. rewrite <- Hq by lia. rewrite Eh. cbn [Nat.add]. rewrite Nat.mod_small by lia. reflexivity.
      + lia.
    - replace ((h + c - 1) mod c) with (h - 1) by (rewrite mod_wrap; lia).
      destruct (Nat.ltb_spec h (h - 1)); [lia|]. cbv zeta.
      set (p1 := skipn h (qnodes s)). set (p2 := firstn (S (h - 1)) (qnodes s)).
      assert (L1 : length p1 = c - h) by (unfold p1; rewrite skipn_length; lia).
      assert (L2 : length p2 = h) by (unfold p2; rewrite firstn_length; lia).
      rewrite repeat_length, Nat.min_r by lia. rewrite gocopy_fits by (rewrite repeat_length; lia).
      rewrite firstn_app, Nat.sub_diag, firstn_all. cbn [firstn]. rewrite app_nil_r.
      rewrite skipn_app, skipn_all, Nat.sub_diag, skipn_O. cbn [app]. rewrite skipn_repeat.
      rewrite gocopy_fits by (rewrite repeat_length; lia). rewrite skipn_repeat, app_assoc. f_equal.
      + apply (nth_ext _ _ ([] : word) ([] : word)); [rewrite app_length; lia|]. intros j Hj. rewrite app_length in Hj.
        destruct (Nat.lt_ge_cases j (c - h)) as [Hj1|Hj1].
        * rewrite app_nth1 by lia. unfold p1. rewrite nth_skipn. rewrite <- Hq by lia. rewrite Nat.mod_small by lia. reflexivity.
        * rewrite app_nth2 by lia. unfold p2. rewrite nth_firstn. destruct (Nat.ltb_spec (j - length p1) (S (h - 1))); [|lia].
          rewrite <- Hq by lia. rewrite mod_wrap by lia. f_equal. lia.
      + f_equal. lia. }
  unfold Inv. rewrite Hbuf. rewrite ?q_grow_eq; unfold q_grow2. cbn [qhd qtl qcp]. fold c.
  split; [lia|]. split; [rewrite app_length, repeat_length; lia|]. split; [lia|]. split; [lia|].
  intros j Hj. cbn [Nat.add]. rewrite Nat.mod_small by lia. apply app_nth1. auto.
Qed.

Theorem push_spec s l x : Inv s l -> Inv (q_push s x) (l ++ [x]).
Proof.
  intros HI. unfold q_push.
  assert (G : exists s1, (if qtl s - qhd s =? qcp s then q_grow s else s) = s1 /\ Inv s1 l /\ length l < qcp s1).
  { pose proof HI as (Hc & Hn & Ht & Hle & Hnth). destruct (Nat.eqb_spec (qtl s - qhd s) (qcp s)) as [E|E].
    - destruct (grow_spec s l HI ltac:(lia)) as [G1 G2]. exists (q_grow s). split; [reflexivity|split; [exact G1|lia]].
    - exists s. split; [reflexivity|split; [exact HI|lia]]. }
  destruct G as (s1 & -> & (Hc & Hn & Ht & Hle & Hnth) & Hlt).
  unfold Inv. cbn [qnodes qhd qtl qcp]. rewrite lupd_length, app_length. cbn [length].
  assert (Hm : qtl s1 mod qcp s1 < qcp s1) by (apply Nat.mod_upper_bound; lia).
  split; [lia|]. split; [lia|]. split; [lia|]. split; [lia|].
  intros j Hj. rewrite nth_lupd by lia. rewrite <- Ht.
  destruct (Nat.eq_dec j (length l)) as [->|Hne].
  - rewrite Nat.eqb_refl. rewrite app_nth2, Nat.sub_diag by lia. reflexivity.
  - rewrite app_nth1 by lia. destruct (Nat.eqb_spec ((qhd s1 + j) mod qcp s1) ((qhd s1 + length l) mod qcp s1)) as [E|_]; [|apply Hnth; lia].
    exfalso. (* two positions less than cap apart cannot collide modulo cap *)
    assert (Hd : (qhd s1 + length l) = (qhd s1 + j) + (length l - j)) by lia.
    pose proof (Nat.div_mod (qhd s1 + j) (qcp s1) ltac:(lia)) as D1. pose proof (Nat.div_mod (qhd s1 + length l) (qcp s1) ltac:(lia)) as D2.
    rewrite <- E in D2. assert (qcp s1 * ((qhd s1 + length l) / qcp s1) = qcp s1 * ((qhd s1 + j) / qcp s1) + (length l - j)) by lia.
    assert ((qhd s1 + length l) / qcp s1 > (qhd s1 + j) / qcp s1 \/ (qhd s1 + length l) / qcp s1 <= (qhd s1 + j) / qcp s1) by lia. nia.
Qed.

Theorem pop_spec s l : Inv s l ->
  match l with
  | [] => q_pop s = (s, None)
  | x :: r => snd (q_pop s) = Some x /\ Inv (fst (q_pop s)) r
  end.
Proof.
  intros (Hc & Hn & Ht & Hle & Hnth). unfold q_pop. destruct l as [|x r]; cbn [length] in *.
  - destruct (Nat.eqb_spec (qhd s) (qtl s)); [reflexivity|lia].
  - destruct (Nat.eqb_spec (qhd s) (qtl s)); [lia|]. cbn [fst snd]. split.
    + f_equal. specialize (Hnth 0 ltac:(lia)). rewrite Nat.add_0_r in Hnth. exact Hnth.
    + unfold Inv. cbn [qnodes qhd qtl qcp]. repeat split; auto; try lia.
      intros j Hj. specialize (Hnth (S j) ltac:(lia)). replace (S (qhd s) + j) with (qhd s + S j) by lia. exact Hnth.
Qed.
Print Assumptions push_spec.
Print Assumptions pop_spec.
