(* C10 — SyncRing.Init: the capacity computed by uint32(cap) / c&(c-1) / roundupPowOfTwo.
   cap_rounding: for 1 <= c <= 2^31 it is the least power of two >= max 2 c (and equals the specification's
   spec_cap); cap_rounding_refuted: for 2^31 < c < 2^32 it is 0 (known finding F11). *)
From Coq Require Import List ZArith Lia Bool.
From V Require Import Gen.Ringz Model.RingSeq Model.SyncRingSeq Proofs.SyncRingSeq.
Import ListNotations.
Local Open Scope Z_scope.
Arguments Z.add : simpl never.
Arguments Z.sub : simpl never.
Arguments Z.mul : simpl never.
Arguments Z.modulo : simpl never.
Arguments Z.pow : simpl never.
Arguments Z.land : simpl never.
Arguments Z.shiftr : simpl never.
Arguments Z.shiftl : simpl never.
Arguments Z.of_nat : simpl never.
Arguments Z.to_nat : simpl never.

(* k is the exponent of the least power of two >= max 2 c *)
Definition least_pow2 (c k : Z) : Prop := 1 <= k /\ Z.max 2 c <= 2 ^ k /\ (k = 1 \/ 2 ^ (k - 1) < c).

Lemma least_pow2_unique c k k' : least_pow2 c k -> least_pow2 c k' -> k = k'.
Proof.
  intros (H1 & H2 & H3) (H1' & H2' & H3').
  assert (A : forall a b, 1 <= a -> 1 <= b -> Z.max 2 c <= 2 ^ a -> (b = 1 \/ 2 ^ (b - 1) < c) -> b <= a).
  { intros a b Ha Hb Hle [->|Hlt]; [lia|].
    assert (2 ^ (b - 1) < 2 ^ a) by lia. apply Z.pow_lt_mono_r_iff in H; lia. }
  pose proof (A k k' H1 H1' H2 H3'). pose proof (A k' k H1' H1 H2' H3). lia.
Qed.

Lemma least_pow2_least c k : least_pow2 c k -> forall j, 0 <= j -> Z.max 2 c <= 2 ^ j -> 2 ^ k <= 2 ^ j.
Proof.
  intros (H1 & H2 & H3) j Hj Hle. apply Z.pow_le_mono_r; [lia|].
  destruct H3 as [->|Hlt].
  - destruct (Z.eq_dec j 0) as [->|]; [change (2 ^ 0) with 1 in Hle; lia|lia].
  - assert (2 ^ (k - 1) < 2 ^ j) by lia. apply Z.pow_lt_mono_r_iff in H; lia.
Qed.

(* ---- the loop of roundupPowOfTwo counts the binary digits *)
Lemma bits_loop_spec : forall fuel i pos, 0 <= i < 2 ^ (Z.of_nat fuel - 1) ->
  exists n, bits_loop fuel i pos = Some (pos + n) /\ 0 <= n /\ (i = 0 -> n = 0) /\ (0 < i -> 2 ^ (n - 1) <= i < 2 ^ n).
Proof.
  induction fuel as [|f IH]; intros i pos Hi.
  - exfalso. change (Z.of_nat 0 - 1) with (-1) in Hi. rewrite Z.pow_neg_r in Hi by lia. lia.
  - cbn [bits_loop]. change roundup_stop with 0. change roundup_shift with 1.
    destruct (Z.eqb_spec i 0) as [->|Hne].
    + exists 0. rewrite Z.add_0_r. repeat split; try lia.
    + assert (Hpos : 0 < i) by lia.
      replace (Z.of_nat (S f) - 1) with (Z.of_nat f) in Hi by lia.
      assert (Hf : (1 <= f)%nat).
      { destruct f; [|lia]. change (2 ^ Z.of_nat 0) with 1 in Hi. lia. }
      rewrite Z.shiftr_div_pow2 by lia. change (2 ^ 1) with 2.
      assert (Hh : 0 <= i / 2 < 2 ^ (Z.of_nat f - 1)).
      { split; [apply Z.div_pos; lia|]. apply Z.div_lt_upper_bound; [lia|].
        replace (2 * 2 ^ (Z.of_nat f - 1)) with (2 ^ Z.of_nat f); [lia|].
        replace (Z.of_nat f) with (1 + (Z.of_nat f - 1)) at 1 by lia. rewrite Z.pow_add_r by lia. reflexivity. }
      destruct (IH (i / 2) (pos + 1) Hh) as (n' & E & Hn' & Hz & Hp). rewrite E.
      exists (n' + 1). split; [f_equal; lia|]. split; [lia|]. split; [lia|]. intros _.
      pose proof (Z.div_mod i 2 ltac:(lia)) as Hdm. pose proof (Z.mod_pos_bound i 2 ltac:(lia)) as Hmb.
      destruct (Z.eq_dec (i / 2) 0) as [E0|E0].
      * rewrite (Hz E0). change (0 + 1 - 1) with 0. change (2 ^ 0) with 1. change (2 ^ (0 + 1)) with 2. lia.
      * destruct (Hp ltac:(lia)) as [Hlo Hhi].
        assert (Hn1 : 1 <= n').
        { destruct (Z_lt_le_dec n' 1); [|lia]. assert (n' = 0) by lia. subst n'. change (2 ^ 0) with 1 in Hhi. lia. }
        replace (n' + 1 - 1) with (1 + (n' - 1)) by lia. replace (n' + 1) with (1 + n') by lia.
        rewrite !Z.pow_add_r by lia. change (2 ^ 1) with 2.
        replace (2 ^ n') with (2 * 2 ^ (n' - 1)) in *.
        2:{ replace n' with (1 + (n' - 1)) at 2 by lia. rewrite Z.pow_add_r by lia. reflexivity. }
        lia.
Qed.

Lemma roundup_spec x : 0 < x < 2 ^ 32 ->
  exists n, roundup x = Some (u32 (2 ^ n)) /\ 1 <= n /\ 2 ^ (n - 1) <= x < 2 ^ n.
Proof.
  intros Hx. unfold roundup.
  destruct (bits_loop_spec 40 x 0) as (n & E & Hn & _ & Hp).
  { change (2 ^ (Z.of_nat 40 - 1)) with 549755813888. change (2 ^ 32) with 4294967296 in Hx. lia. }
  rewrite E. rewrite Z.add_0_l. destruct (Hp ltac:(lia)) as [Hlo Hhi]. exists n.
  change roundup_base with 1. rewrite Z.shiftl_mul_pow2 by lia. rewrite Z.mul_1_l. split; [reflexivity|]. split; [|lia].
  destruct (Z_lt_le_dec n 1); [|lia]. assert (n = 0) by lia. subst n. change (2 ^ 0) with 1 in Hhi. lia.
Qed.

(* ---- c & (c-1) tests for a power of two *)
Lemma land_pred_pow2 k : 0 <= k -> Z.land (2 ^ k) (2 ^ k - 1) = 0.
Proof.
  intros Hk. replace (2 ^ k - 1) with (Z.ones k) by (rewrite Z.ones_equiv; lia).
  rewrite Z.land_ones by lia. apply Z.mod_same. apply Z.pow_nonzero; lia.
Qed.
Lemma land_pred_nonpow2 c k : 0 <= k -> 2 ^ k < c < 2 ^ (k + 1) -> 0 < Z.land c (c - 1).
Proof.
  intros Hk Hc.
  assert (Hp : 0 < 2 ^ k) by (apply Z.pow_pos_nonneg; lia).
  assert (L1 : Z.log2 c = k) by (apply Z.log2_unique; lia).
  assert (L2 : Z.log2 (c - 1) = k) by (apply Z.log2_unique; lia).
  assert (B1 : Z.testbit c k = true) by (rewrite <- L1; apply Z.bit_log2; lia).
  assert (B2 : Z.testbit (c - 1) k = true) by (rewrite <- L2; apply Z.bit_log2; lia).
  assert (B : Z.testbit (Z.land c (c - 1)) k = true) by (rewrite Z.land_spec, B1, B2; reflexivity).
  assert (N : 0 <= Z.land c (c - 1)) by (apply Z.land_nonneg; lia).
  destruct (Z.eq_dec (Z.land c (c - 1)) 0) as [E|E]; [|lia].
  rewrite E, Z.bits_0 in B. discriminate.
Qed.

Theorem cap_rounding : forall c, 1 <= c <= 2 ^ 31 ->
  exists k, 1 <= k <= 31 /\ init_cap c = Some (Some (2 ^ k)) /\ least_pow2 c k.
Proof.
  intros c Hc. change (2 ^ 31) with 2147483648 in Hc. unfold init_cap. change sync_panic_bound with 0.
  change sync_small_request with 1. change sync_min_cap with 2.
  destruct (Z.leb_spec c 0); [lia|]. destruct (Z.eqb_spec 1 c) as [<-|Hne].
  - exists 1. split; [lia|]. split; [reflexivity|]. unfold least_pow2. change (2 ^ 1) with 2. lia.
  - pose proof M32_val as HM. rewrite (u32_small c) by lia. rewrite (u32_small (c - 1)) by lia.
    set (k := Z.log2 c). destruct (Z.log2_spec c ltac:(lia)) as [Hlo Hhi]. fold k in Hlo, Hhi.
    assert (Hk0 : 0 <= k) by apply Z.log2_nonneg.
    assert (Hk1 : 1 <= k).
    { destruct (Z.eq_dec k 0) as [E|]; [|lia]. rewrite E in Hhi. change (2 ^ Z.succ 0) with 2 in Hhi. lia. }
    assert (Hk31 : k <= 31).
    { destruct (Z_lt_le_dec 31 k); [|lia]. assert (2 ^ 32 <= 2 ^ k) by (apply Z.pow_le_mono_r; lia).
      change (2 ^ 32) with 4294967296 in *. lia. }
    destruct (Z.eq_dec c (2 ^ k)) as [E|E].
    + assert (El : Z.land c (c - 1) = 0) by (rewrite E; apply land_pred_pow2; lia). rewrite El. cbn [Z.ltb Z.compare].
      exists k. split; [lia|]. split; [rewrite E; reflexivity|]. unfold least_pow2. split; [lia|]. split; [lia|].
      destruct (Z.eq_dec k 1); [auto|right]. rewrite E. apply Z.pow_lt_mono_r; lia.
    + replace (Z.succ k) with (k + 1) in Hhi by lia.
      pose proof (land_pred_nonpow2 c k Hk0 ltac:(lia)) as Hl. destruct (Z.ltb_spec 0 (Z.land c (c - 1))); [|lia].
      destruct (roundup_spec c ltac:(change (2 ^ 32) with 4294967296; lia)) as (n & En & Hn & Hlo' & Hhi').
      assert (n - 1 = k) by (rewrite <- (Z.log2_unique c (n - 1)); [reflexivity|lia|replace (Z.succ (n - 1)) with n by lia; lia]).
      assert (Hk30 : k <= 30).
      { destruct (Z_lt_le_dec 30 k); [|lia]. assert (2 ^ 31 <= 2 ^ k) by (apply Z.pow_le_mono_r; lia).
        change (2 ^ 31) with 2147483648 in *. lia. }
      replace n with (k + 1) in * by lia. rewrite En.
      assert (Hlt : 2 ^ (k + 1) <= 2 ^ 31) by (apply Z.pow_le_mono_r; lia). change (2 ^ 31) with 2147483648 in Hlt.
      rewrite u32_small by lia.
      exists (k + 1). split; [lia|]. split; [reflexivity|]. unfold least_pow2. split; [lia|]. split; [lia|].
      right. replace (k + 1 - 1) with k by lia. lia.
Qed.

(* the specification's capacity (doubling from 2) is that same power of two *)
Lemma pow2_ge_spec : forall fuel j c, 1 <= j -> (j = 1 \/ 2 ^ (j - 1) < c) -> c <= 2 ^ (j + Z.of_nat fuel) ->
  exists k, pow2_ge fuel (2 ^ j) c = 2 ^ k /\ least_pow2 c k.
Proof.
  induction fuel as [|f IH]; intros j c Hj Hl Hc; cbn [pow2_ge].
  - rewrite Z.add_0_r in Hc. exists j. split; [reflexivity|]. unfold least_pow2. split; [lia|]. split; [|exact Hl].
    assert (2 ^ 1 <= 2 ^ j) by (apply Z.pow_le_mono_r; lia). change (2 ^ 1) with 2 in *. lia.
  - destruct (Z.leb_spec c (2 ^ j)) as [Hle|Hgt].
    + exists j. split; [reflexivity|]. unfold least_pow2. split; [lia|]. split; [|exact Hl].
      assert (2 ^ 1 <= 2 ^ j) by (apply Z.pow_le_mono_r; lia). change (2 ^ 1) with 2 in *. lia.
    + replace (2 * 2 ^ j) with (2 ^ (j + 1)) by (rewrite Z.pow_add_r by lia; change (2 ^ 1) with 2; lia).
      apply IH; [lia| |].
      * right. replace (j + 1 - 1) with j by lia. exact Hgt.
      * replace (j + 1 + Z.of_nat f) with (j + Z.of_nat (S f)) by lia. exact Hc.
Qed.

Theorem spec_cap_is_least : forall c, c <= 2 ^ 60 -> exists k, spec_cap c = 2 ^ k /\ least_pow2 c k.
Proof.
  intros c Hc. unfold spec_cap. change 2 with (2 ^ 1) at 1. apply pow2_ge_spec; [lia|auto|].
  change (2 ^ (1 + Z.of_nat 64)) with 36893488147419103232. change (2 ^ 60) with 1152921504606846976 in Hc. lia.
Qed.

Corollary init_cap_is_spec_cap : forall c, 1 <= c <= 2 ^ 31 ->
  exists k, 1 <= k <= 31 /\ init_cap c = Some (Some (2 ^ k)) /\ spec_cap c = 2 ^ k.
Proof.
  intros c Hc. destruct (cap_rounding c Hc) as (k & Hk & E & L).
  destruct (spec_cap_is_least c) as (k' & E' & L'). { change (2 ^ 31) with 2147483648 in Hc. change (2 ^ 60) with 1152921504606846976. lia. }
  exists k. split; [exact Hk|]. split; [exact E|]. rewrite E'. f_equal. eapply least_pow2_unique; eauto.
Qed.

(* F11: beyond 2^31 the rounded capacity is not a power of two >= c *)
Theorem cap_rounding_refuted : forall c, 2 ^ 31 < c < 2 ^ 32 -> init_cap c = Some (Some 0).
Proof.
  intros c Hc. change (2 ^ 31) with 2147483648 in Hc. change (2 ^ 32) with 4294967296 in Hc.
  unfold init_cap. change sync_panic_bound with 0. change sync_small_request with 1.
  destruct (Z.leb_spec c 0); [lia|]. destruct (Z.eqb_spec 1 c) as [|Hne1]; [lia|].
  pose proof M32_val as HM. rewrite (u32_small c) by lia. rewrite (u32_small (c - 1)) by lia.
  pose proof (land_pred_nonpow2 c 31 ltac:(lia) ltac:(change (2 ^ 31) with 2147483648; change (2 ^ (31 + 1)) with 4294967296; lia)) as Hl.
  destruct (Z.ltb_spec 0 (Z.land c (c - 1))); [|lia].
  destruct (roundup_spec c ltac:(change (2 ^ 32) with 4294967296; lia)) as (n & En & Hn & Hlo' & Hhi').
  assert (n - 1 = 31).
  { rewrite <- (Z.log2_unique c (n - 1)); [|lia|replace (Z.succ (n - 1)) with n by lia; lia].
    apply Z.log2_unique; [lia|]. change (2 ^ 31) with 2147483648. change (2 ^ Z.succ 31) with 4294967296. lia. }
  replace n with 32 in * by lia. rewrite En. reflexivity.
Qed.
Example cap_rounding_refuted_witness : init_cap (2 ^ 31 + 1) = Some (Some 0) /\ spec_cap (2 ^ 31 + 1) = 2 ^ 32
  /\ init_cap (2 ^ 32 + 3) = Some (Some 4) /\ init_cap (2 ^ 32 + 1) = Some (Some 1) /\ init_cap (2 ^ 32) = Some (Some 0).
Proof. vm_compute. repeat split; reflexivity. Qed.

(* cap_rounding with leastness spelled out *)
Theorem cap_rounding_least : forall c, 1 <= c <= 2 ^ 31 ->
  exists k, 1 <= k <= 31 /\ init_cap c = Some (Some (2 ^ k)) /\ Z.max 2 c <= 2 ^ k /\
            forall j, 0 <= j -> Z.max 2 c <= 2 ^ j -> 2 ^ k <= 2 ^ j.
Proof.
  intros c Hc. destruct (cap_rounding c Hc) as (k & Hk & E & L). exists k. split; [exact Hk|]. split; [exact E|].
  split; [apply L|apply least_pow2_least; exact L].
Qed.
