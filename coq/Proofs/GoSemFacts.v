(* Facts about the primitives of Lib/GoSem.v that equality proofs between generated code and hand models need. *)
From Coq Require Import List ZArith Lia Bool Arith.
From V Require Import Lib.GoSem.
Import ListNotations.
Local Open Scope Z_scope.

Lemma gocopy_length dst src : length (gocopy dst src) = length dst.
Proof. unfold gocopy. rewrite app_length, firstn_length, skipn_length. lia. Qed.

(* copy(dst[k:], src) *)
Lemma m_copy_tail dst k src : (k <= length dst)%nat ->
  m_copy dst (Z.of_nat k) (Z.of_nat (length dst)) src =
  Ret (firstn k dst ++ gocopy (skipn k dst) src, Z.of_nat (Nat.min (length dst - k) (length src))).
Proof.
  intros Hk. unfold m_copy, slice.
  destruct (Z.leb_spec 0 (Z.of_nat k)); [|lia].
  destruct (Z.leb_spec (Z.of_nat k) (Z.of_nat (length dst))); [|lia].
  rewrite Z.leb_refl. cbn [andb]. rewrite !Nat2Z.id.
  rewrite (firstn_all2 (n := (length dst - k)%nat)) by (rewrite skipn_length; lia).
  rewrite skipn_all, app_nil_r, skipn_length. reflexivity.
Qed.

(* copy(dst, src) through the general form *)
Lemma m_copy_all dst src : m_copy dst 0 (Z.of_nat (length dst)) src = Ret (copy_all dst src).
Proof.
  change 0 with (Z.of_nat 0). rewrite m_copy_tail by lia. unfold copy_all. cbn [firstn skipn app]. rewrite Nat.sub_0_r. reflexivity.
Qed.

(* the loop combinator, one step *)
Lemma while_step {S R} f (c : S -> M bool) (b : S -> M (ctl S R)) (p : S -> M S) s :
  while (Datatypes.S f) c b p s =
  bind (c s) (fun x => if x then bind (b s) (fun y => match y with
     | Next s1 => bind (p s1) (fun s2 => while f c b p s2) | Break s1 => Ret (inl s1) | Return r => Ret (inr r) end)
   else Ret (inl s)).
Proof. reflexivity. Qed.

(* [BitsCode] a Hoare-style rule for the loop combinator: an invariant indexed by a measure that every full iteration
   decreases.  One obligation per loop (a single iteration, no induction in the client proof): from Inv m s, either the
   condition is false / the body breaks or returns and Post holds of the outcome, or the iteration completes in a state
   satisfying Inv m' with m' < m; nothing panics.  Then fuel > m runs the loop to completion. *)
Lemma while_rule {S R} (c : S -> M bool) (b : S -> M (ctl S R)) (p : S -> M S)
  (Inv : nat -> S -> Prop) (Post : S + R -> Prop) :
  (forall m s, Inv m s ->
     match c s with
     | Ret false => Post (inl s)
     | Ret true =>
         match b s with
         | Ret (Next s1) => match p s1 with Ret s2 => exists m', (m' < m)%nat /\ Inv m' s2 | _ => False end
         | Ret (Break s1) => Post (inl s1)
         | Ret (Return r) => Post (inr r)
         | _ => False
         end
     | _ => False
     end) ->
  forall fuel m s, Inv m s -> (m < fuel)%nat -> exists out, while fuel c b p s = Ret out /\ Post out.
Proof.
  intros Hstep. induction fuel as [|f IH]; intros m s Hi Hm; [lia|].
  rewrite while_step. specialize (Hstep m s Hi). unfold bind.
  destruct (c s) as [[|]| |]; try contradiction.
  - destruct (b s) as [[s1|s1|r]| |]; try contradiction.
    + destruct (p s1) as [s2| |]; try contradiction. destruct Hstep as (m' & Hlt & Hi'). apply (IH m'); [assumption|lia].
    + eexists; split; [reflexivity|assumption].
    + eexists; split; [reflexivity|assumption].
  - eexists; split; [reflexivity|assumption].
Qed.

(* [BitsCode] the same rule, keeping the invariant at the exit: when code follows the loop (a second loop, a tail
   append) the client needs the invariant AND the reason the loop ended — the condition evaluated to false in the exit
   state, or the body broke out (Brk, chosen by the client). *)
Lemma while_exit {S R} (c : S -> M bool) (b : S -> M (ctl S R)) (p : S -> M S)
  (Inv : nat -> S -> Prop) (Brk : S -> Prop) (Rt : R -> Prop) :
  (forall m s, Inv m s ->
     match c s with
     | Ret false => True
     | Ret true =>
         match b s with
         | Ret (Next s1) => match p s1 with Ret s2 => exists m', (m' < m)%nat /\ Inv m' s2 | _ => False end
         | Ret (Break s1) => Brk s1
         | Ret (Return r) => Rt r
         | _ => False
         end
     | _ => False
     end) ->
  forall fuel m s, Inv m s -> (m < fuel)%nat ->
  exists out, while fuel c b p s = Ret out /\
    match out with
    | inl s' => (exists m', Inv m' s' /\ c s' = Ret false) \/ Brk s'
    | inr r => Rt r
    end.
Proof.
  intros Hstep. induction fuel as [|f IH]; intros m s Hi Hm; [lia|].
  rewrite while_step. pose proof (Hstep m s Hi) as Hs. unfold bind.
  destruct (c s) as [[|]| |] eqn:Ec; try contradiction.
  - destruct (b s) as [[s1|s1|r]| |]; try contradiction.
    + destruct (p s1) as [s2| |]; try contradiction. destruct Hs as (m' & Hlt & Hi'). apply (IH m'); [assumption|lia].
    + eexists; split; [reflexivity|]. right. assumption.
    + eexists; split; [reflexivity|assumption].
  - eexists; split; [reflexivity|]. left. exists m. split; assumption.
Qed.
