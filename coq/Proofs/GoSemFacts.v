(* Facts about the primitives of Lib/GoSem.v that equality proofs between generated code and hand models need. *)
From Coq Require Import List ZArith Lia Bool Arith.
From V Require Import Lib.GoSem.
Import ListNotations.
Local Open Scope Z_scope.

Lemma gocopy_length dst src : length (gocopy dst src) = length dst.
Proof. unfold gocopy. rewrite app_length, firstn_length, skipn_length. lia. Qed.

(* copy(dst[k:], src) *)
Lemma m_copy_tail dst k src : (k <= length dst)%nat ->
  m_copy dst (Z.of_nat k) (Z.of_nat (length dst)) src =
  Ret (firstn k dst ++ gocopy (skipn k dst) src, Z.of_nat (Nat.min (length dst - k) (length src))).
Proof.
  intros Hk. unfold m_copy, slice.
  destruct (Z.leb_spec 0 (Z.of_nat k)); [|lia].
  destruct (Z.leb_spec (Z.of_nat k) (Z.of_nat (length dst))); [|lia].
  rewrite Z.leb_refl. cbn [andb]. rewrite !Nat2Z.id.
  rewrite (firstn_all2 (n := (length dst - k)%nat)) by (rewrite skipn_length; lia).
  rewrite skipn_all, app_nil_r, skipn_length. reflexivity.
Qed.

(* copy(dst, src) through the general form *)
Lemma m_copy_all dst src : m_copy dst 0 (Z.of_nat (length dst)) src = Ret (copy_all dst src).
Proof.
  change 0 with (Z.of_nat 0). rewrite m_copy_tail by lia. unfold copy_all. cbn [firstn skipn app]. rewrite Nat.sub_0_r. reflexivity.
Qed.

(* the loop combinator, one step *)
Lemma while_step {S R} f (c : S -> M bool) (b : S -> M (ctl S R)) (p : S -> M S) s :
  while (Datatypes.S f) c b p s =
  bind (c s) (fun x => if x then bind (b s) (fun y => match y with
     | Next s1 => bind (p s1) (fun s2 => while f c b p s2) | Break s1 => Ret (inl s1) | Return r => Ret (inr r) end)
   else Ret (inl s)).
Proof. reflexivity. Qed.
