(* C11, refinement of the history judge: the completion tail of the run (round robin over all threads, 40 * total + 40
   rounds) brings every case without the blocking PopWait(-1) to quiescence.  Potential argument per thread A:
     base (own steps left on the failure-free path) + 4 * (pushes of other threads not linked yet + d),
   d = 1 while a failed attempt of A's current Push may still be caused by a node that is already linked.  Every step of A
   lowers it by one, no step of another thread raises it; "which load comes first" under round robin is a comparison of
   step distances in the cyclic order. *)
From Coq Require Import List ZArith Lia Bool Arith.
Import ListNotations.
From V Require Import Lib.Enc Model.SyncListConc Proofs.SyncListConc Proofs.SyncListTop Run.C11
  Proofs.SyncListJudgeBase Proofs.SyncListJudgeSim Proofs.SyncListJudgeStep.
Local Open Scope Z_scope.
Arguments Z.add : simpl never.
Arguments Z.sub : simpl never.
Arguments Z.mul : simpl never.
Arguments Z.of_nat : simpl never.

(* ---- invariant of the run-level records (no blocking PopWait, at most 3 further tries) ---- *)
Definition busy (p : pc) (rt : rthread) : Z := if pc_idle p && (r_wait rt =? 0) then 0 else 1.
Definition linv (m : Z) (p : pc) (rt : rthread) : Prop :=
  Forall (fun x => op_live x = true) (r_prog rt) /\ r_yield rt = false /\ 0 <= r_left rt <= 3 /\
  (r_wait rt = 0 -> r_left rt = 0) /\ busy p rt + Z.of_nat (length (r_prog rt)) <= m.
Record LI (progs : list (list Z)) (c : config) (rts : list rthread) : Prop := {
  l_inv : Inv c;
  l_len : length rts = length (ths c);
  l_n : length (ths c) = length progs;
  l_t : forall A p rt, nth_error (ths c) A = Some p -> nth_error rts A = Some rt ->
          linv (Z.of_nat (length (nth A progs []))) p rt
}.

Lemma op_live_cases x : op_live x = true -> -1 <= x \/ (-103 <= x <= -100).
Proof. unfold op_live. intros H. apply orb_true_iff in H as [H|H]; [left; apply Z.leb_le; exact H|]. apply andb_true_iff in H as [H1 H2]. apply Z.leb_le in H1, H2. right; lia. Qed.

Lemma linv_return m p rt y : linv m p rt -> pc_idle p = false -> linv m Idle (rt_return rt y).
Proof.
  intros (H1 & H2 & H3 & H4 & H5) Hi. unfold busy in H5. rewrite Hi in H5. cbn [andb] in H5. unfold rt_return.
  destruct ((r_wait rt =? 0) || res_success y || (r_left rt =? 0)) eqn:Ec.
  - unfold linv, busy. cbn [r_prog r_yield r_left r_wait pc_idle andb Z.eqb]. repeat split; auto; lia.
  - apply orb_false_iff in Ec as [Ec Ec3]. apply orb_false_iff in Ec as [Ec1 Ec2]. apply Z.eqb_neq in Ec1, Ec3.
    destruct (Z.ltb_spec (r_left rt) 0) as [Hlt|Hge]; [lia|].
    unfold linv, busy. cbn [r_prog r_yield r_left r_wait pc_idle andb]. repeat split; auto; try lia.
    destruct (r_wait rt =? 0); lia.
Qed.

Lemma li_step progs c rts x : LI progs c rts ->
  let '(c', rts', _) := go1 c rts x in LI progs c' rts'.
Proof.
  intros [HI Hl1 Hn HT].
  destruct (nth_error (ths c) (Z.to_nat x)) as [p|] eqn:Hp; [|rewrite (go1_none c rts x Hp); constructor; auto].
  pose proof (nth_error_some_lt _ _ _ Hp) as Hlt.
  destruct (nth_error rts (Z.to_nat x)) as [rt|] eqn:Hrt; [|apply nth_error_None in Hrt; lia].
  pose proof (HT _ _ _ Hp Hrt) as HL. pose proof HL as (H1 & H2 & H3 & H4 & H5).
  assert (FR : forall s' p' h' rt', Inv {| sh := s'; ths := upd (ths c) (Z.to_nat x) p'; hist := h' |} ->
             linv (Z.of_nat (length (nth (Z.to_nat x) progs []))) p' rt' ->
             LI progs {| sh := s'; ths := upd (ths c) (Z.to_nat x) p'; hist := h' |} (upd rts (Z.to_nat x) rt')).
  { intros s' p' h' rt' HI' HL'. constructor; cbn [sh ths hist]; auto.
    - rewrite !upd_length. exact Hl1.
    - rewrite upd_length. exact Hn.
    - intros A pa rta Ha Hb. apply nth_error_upd_inv in Ha. apply nth_error_upd_inv in Hb.
      destruct Ha as [[-> ->]|[Hne Ha]]; destruct Hb as [[? ->]|[? Hb]]; try lia; auto. }
  destruct (pc_idle p) eqn:Hidle.
  - assert (p = Idle) by (destruct p; try discriminate; reflexivity). subst p.
    destruct (idle_start rt) as [[o rt1]|] eqn:Hs.
    + rewrite (go1_idle_start c rts x rt o rt1 Hp Hrt H2 Hs). apply FR.
      * pose proof (step_inv c (Z.to_nat x, o) HI) as H. rewrite (step_at c _ o Idle Hp) in H. destruct o; exact H.
      * unfold idle_start in Hs. destruct (Z.eqb_spec (r_wait rt) 0) as [Hw|Hw]; cbn [negb] in Hs.
        -- unfold rt_begin in Hs. destruct (r_prog rt) as [|z more] eqn:Hrp; [discriminate|].
           inversion H1 as [|? ? Hz Hmore]; subst. unfold busy in H5. rewrite Hw in H5. cbn [pc_idle andb Z.eqb length] in H5.
           assert (Hb : pc_idle (start_pc o) = false) by (destruct o; reflexivity).
           destruct (is_wait z) eqn:Ew; inversion Hs; subst; unfold linv, busy; rewrite ?Hb; cbn [r_prog r_yield r_left r_wait andb].
           ++ unfold is_wait in Ew. destruct (op_live_cases _ Hz) as [Hc|Hc].
              ** exfalso. apply orb_true_iff in Ew as [E|E]; [apply Z.eqb_eq in E|apply Z.leb_le in E]; lia.
              ** unfold tries_of. replace (z <=? -100) with true by (symmetry; apply Z.leb_le; lia).
                 repeat split; auto; lia.
           ++ repeat split; auto; lia.
        -- inversion Hs; subst. unfold linv, busy in *. cbn [pc_idle andb start_pc] in *. repeat split; auto; try lia.
           destruct (Z.eqb_spec (r_wait rt1) 0); [contradiction|lia].
    + rewrite (go1_idle_none c rts x rt Hp Hrt H2 Hs). constructor; auto.
  - rewrite (go1_busy c rts x p rt Hp Hrt Hidle).
    pose proof (step_inv c (Z.to_nat x, OpPop) HI) as HI'. rewrite (step_at c _ OpPop p Hp) in HI'.
    destruct (tstep (sh c) p OpPop) as [[s' p'] r]. apply FR; [exact HI'|].
    assert (Hkeep : linv (Z.of_nat (length (nth (Z.to_nat x) progs []))) p' rt).
    { unfold linv, busy in *. rewrite Hidle in H5. cbn [andb] in H5. repeat split; auto; try lia. destruct (pc_idle p' && (r_wait rt =? 0)); lia. }
    destruct r as [y|]; [|exact Hkeep]. destruct (pc_idle p') eqn:Hi'; [|exact Hkeep].
    assert (p' = Idle) by (destruct p'; try discriminate; reflexivity). subst p'. apply (linv_return _ p rt y HL Hidle).
Qed.

(* ---- the potential ---- *)
Definition opcost (x : Z) : Z := if 0 <? x then 6 else if x =? 0 then 8 else if x =? -1 then 2 else (tries_of x + 1) * 8.
Fixpoint progcost (l : list Z) : Z := match l with [] => 0 | x :: t => opcost x + progcost t end.
Definition pcrank (p : pc) : Z :=
  match p with
  | Idle => 0
  | PushLoadTail _ => 5 | PushLoadNext _ _ => 4 | PushCas _ _ _ => 3 | PushAdd _ _ => 2 | PushStoreTail _ _ => 1 | PushYield _ => 6
  | PopLoadHead => 7 | PopLoadTail _ => 6 | PopLoadNext _ => 5 | PopCas _ _ => 4 | PopRead _ _ => 3 | PopClear _ _ _ => 2
  | PopDec _ _ _ => 1
  | LenLoad => 1
  end.
Definition base (p : pc) (rt : rthread) : Z :=
  pcrank p + (if pc_idle p && negb (r_wait rt =? 0) then 8 else 0) + r_left rt * 8 + progcost (r_prog rt).
Definition spinning (p : pc) : bool :=
  match p with PushLoadTail _ | PushLoadNext _ _ | PushCas _ _ _ | PushYield _ => true | _ => false end.
Fixpoint npush (l : list Z) : Z := match l with [] => 0 | x :: t => (if 0 <? x then 1 else 0) + npush t end.
Definition U (p : pc) (rt : rthread) : Z := (if spinning p then 1 else 0) + npush (r_prog rt).
Fixpoint Fsum (ps : list pc) (rts : list rthread) : Z :=
  match ps, rts with p :: ps', rt :: rts' => U p rt + Fsum ps' rts' | _, _ => 0 end.

(* cyclic order of the round robin: pos = the thread whose turn it is *)
Definition next (n x : nat) : nat := if Nat.eqb (S x) n then O else S x.
Definition dist (n pos X : nat) : Z := if (pos <=? X)%nat then Z.of_nat X - Z.of_nat pos else Z.of_nat X + Z.of_nat n - Z.of_nat pos.
Lemma dist_self n x : dist n x x = 0.
Proof. unfold dist. rewrite Nat.leb_refl. lia. Qed.
Lemma dist_range n pos X : (pos < n)%nat -> (X < n)%nat -> 0 <= dist n pos X <= Z.of_nat n - 1.
Proof. intros. unfold dist. destruct (Nat.leb_spec pos X); lia. Qed.
Lemma dist_pos n pos X : (pos < n)%nat -> (X < n)%nat -> X <> pos -> 1 <= dist n pos X.
Proof. intros. unfold dist. destruct (Nat.leb_spec pos X); lia. Qed.
Lemma dist_next_other n x X : (x < n)%nat -> (X < n)%nat -> X <> x -> dist n (next n x) X = dist n x X - 1.
Proof.
  intros. unfold dist, next. destruct (Nat.eqb_spec (S x) n); destruct (Nat.leb_spec x X); 
    try destruct (Nat.leb_spec 0 X); try destruct (Nat.leb_spec (S x) X); lia.
Qed.
Lemma dist_next_self n x : (x < n)%nat -> dist n (next n x) x = Z.of_nat n - 1.
Proof.
  intros. unfold dist, next. destruct (Nat.eqb_spec (S x) n); [destruct (Nat.leb_spec 0 x)|destruct (Nat.leb_spec (S x) x)]; lia.
Qed.
Lemma next_lt n x : (x < n)%nat -> (next n x < n)%nat.
Proof. intros. unfold next. destruct (Nat.eqb_spec (S x) n); lia. Qed.

Definition next_is_push (rt : rthread) : bool :=
  (r_wait rt =? 0) && match r_prog rt with x :: _ => 0 <? x | [] => false end.
(* number of steps (of any thread) until A reads the tail, when that is at most two of its own steps away *)
Definition loadtime (n pos A : nat) (p : pc) (rt : rthread) : option Z :=
  match p with
  | PushLoadTail _ => Some (dist n pos A)
  | PushYield _ => Some (dist n pos A + Z.of_nat n)
  | Idle => if next_is_push rt then Some (dist n pos A + Z.of_nat n) else None
  | _ => None
  end.
(* number of steps until B has published the node it linked *)
Definition storetime (n pos B : nat) (p : pc) : option Z :=
  match p with
  | PushAdd _ _ => Some (dist n pos B + Z.of_nat n)
  | PushStoreTail _ _ => Some (dist n pos B)
  | _ => None
  end.
Definition stale_now (s : shared) (p : pc) : bool :=
  match p with
  | PushLoadNext _ t => (S t <? length (vals s))%nat
  | PushCas _ t nx => match nx with Some _ => true | None => false end || (S t <? length (vals s))%nat
  | _ => false
  end.
(* A's current attempt is not doomed, and its next tail load (if near) comes after the store of every linked pusher *)
Definition safe (n pos A : nat) (c : config) (p : pc) (rt : rthread) : Prop :=
  stale_now (sh c) p = false /\
  forall B pB tl ts, B <> A -> nth_error (ths c) B = Some pB -> loadtime n pos A p rt = Some tl ->
    storetime n pos B pB = Some ts -> ts <= tl.
Definition fin (p : pc) (rt : rthread) : Prop := p = Idle /\ r_wait rt = 0 /\ r_prog rt = [].
Definition Pot (n pos A : nat) (c : config) (rts : list rthread) (k : Z) : Prop :=
  forall p rt, nth_error (ths c) A = Some p -> nth_error rts A = Some rt ->
    fin p rt \/ exists d, (d = 0 \/ d = 1) /\ base p rt + 4 * (Fsum (ths c) rts - U p rt + d) <= k /\
                          (d = 0 -> safe n pos A c p rt).

(* ---- sums ---- *)
Lemma npush_nonneg l : 0 <= npush l.
Proof. induction l as [|x l IH]; cbn [npush]; [lia|]. destruct (0 <? x); lia. Qed.
Lemma U_nonneg p rt : 0 <= U p rt.
Proof. unfold U. pose proof (npush_nonneg (r_prog rt)). destruct (spinning p); lia. Qed.
Lemma Fsum_upd : forall ps rts i p rt p' rt', nth_error ps i = Some p -> nth_error rts i = Some rt ->
  Fsum (upd ps i p') (upd rts i rt') = Fsum ps rts - U p rt + U p' rt'.
Proof.
  induction ps as [|a ps IH]; intros [|b rts] [|i] p rt p' rt' H1 H2; cbn [nth_error upd Fsum] in *; try discriminate.
  - inversion H1; inversion H2; subst. lia.
  - rewrite (IH rts i p rt p' rt' H1 H2). lia.
Qed.
Lemma Fsum_ge : forall ps rts i p rt, nth_error ps i = Some p -> nth_error rts i = Some rt -> U p rt <= Fsum ps rts.
Proof.
  induction ps as [|a ps IH]; intros [|b rts] [|i] p rt H1 H2; cbn [nth_error Fsum] in *; try discriminate.
  - inversion H1; inversion H2; subst. assert (0 <= Fsum ps rts); [|lia].
    clear. revert rts; induction ps as [|a ps IH]; intros [|b rts]; cbn [Fsum]; try lia. pose proof (U_nonneg a b). specialize (IH rts). lia.
  - pose proof (IH rts i p rt H1 H2). pose proof (U_nonneg a b). lia.
Qed.
Lemma progcost_nonneg l : Forall (fun x => op_live x = true) l -> 0 <= progcost l <= 32 * Z.of_nat (length l).
Proof.
  induction 1 as [|x l Hx Hl IH]; cbn [progcost length]; [lia|].
  assert (1 <= opcost x <= 32); [|lia]. unfold opcost, tries_of. destruct (op_live_cases _ Hx) as [Hc|Hc].
  - destruct (Z.ltb_spec 0 x); [lia|]. destruct (Z.eqb_spec x 0); [lia|]. destruct (Z.eqb_spec x (-1)); [lia|]. lia.
  - destruct (Z.ltb_spec 0 x); [lia|]. destruct (Z.eqb_spec x 0); [lia|]. destruct (Z.eqb_spec x (-1)); [lia|].
    destruct (Z.leb_spec x (-100)); lia.
Qed.
Lemma pcrank_range p : 0 <= pcrank p <= 7.
Proof. destruct p; cbn; lia. Qed.
Lemma pcrank_zero p : pcrank p = 0 -> p = Idle.
Proof. destruct p; cbn; intros; try lia; reflexivity. Qed.

(* ---- a step of another thread ---- *)
Lemma npush_begin rt o rt1 : idle_start rt = Some (o, rt1) -> U (start_pc o) rt1 <= U Idle rt.
Proof.
  unfold idle_start, U. destruct (Z.eqb_spec (r_wait rt) 0) as [Hw|Hw]; cbn [negb].
  - unfold rt_begin. destruct (r_prog rt) as [|z more]; [discriminate|]. cbn [npush spinning].
    destruct (is_wait z) eqn:Ew; intros H; inversion H; subst; cbn [start_pc spinning r_prog].
    + pose proof (npush_nonneg more). destruct (0 <? z); lia.
    + unfold dec_op. destruct (Z.eqb_spec z 0) as [->|]; [cbn; lia|]. destruct (Z.eqb_spec z (-1)) as [->|]; [cbn; lia|].
      destruct (Z.ltb_spec z 0).
      * replace (0 <? z) with false by (symmetry; apply Z.ltb_ge; lia). cbn [start_pc spinning]. lia.
      * replace (0 <? z) with true by (symmetry; apply Z.ltb_lt; lia). cbn [start_pc spinning]. lia.
  - intros H; inversion H; subst. cbn [start_pc spinning]. lia.
Qed.

Lemma rt_return_prog rt y : r_prog (rt_return rt y) = r_prog rt.
Proof. unfold rt_return. destruct ((r_wait rt =? 0) || res_success y || (r_left rt =? 0)); [reflexivity|]. destruct (r_left rt <? 0); reflexivity. Qed.

Lemma go1_effect progs c rts B : LI progs c rts -> (B < length (ths c))%nat ->
  let n := length (ths c) in
  let '(c', rts', _) := go1 c rts (Z.of_nat B) in
  (forall A, A <> B -> nth_error (ths c') A = nth_error (ths c) A /\ nth_error rts' A = nth_error rts A) /\
  length (ths c') = length (ths c) /\
  (Fsum (ths c') rts' <= Fsum (ths c) rts - 1 \/
   (Fsum (ths c') rts' <= Fsum (ths c) rts /\ length (vals (sh c')) = length (vals (sh c)) /\
    forall pB' ts', nth_error (ths c') B = Some pB' -> storetime n (next n B) B pB' = Some ts' ->
      exists pB ts, nth_error (ths c) B = Some pB /\ storetime n B B pB = Some ts /\ ts' = ts - 1)).
Proof.
  intros HL HB. cbv zeta. pose proof HL as [HI Hl1 Hn HT].
  assert (Hex : exists p, nth_error (ths c) B = Some p).
  { destruct (nth_error (ths c) B) as [p|] eqn:Hp; [eauto|apply nth_error_None in Hp; lia]. }
  destruct Hex as [p Hp].
  assert (Hex : exists rt, nth_error rts B = Some rt).
  { destruct (nth_error rts B) as [rt|] eqn:Hrt; [eauto|apply nth_error_None in Hrt; lia]. }
  destruct Hex as [rt Hrt].
  pose proof (HT _ _ _ Hp Hrt) as (H1 & H2 & H3 & H4 & H5).
  assert (Hp' := Hp). assert (Hrt' := Hrt). rewrite <- (Nat2Z.id B) in Hp', Hrt'.
  assert (FR : forall s' p' h' rt', 
     (U p' rt' <= U p rt - 1 \/
      (U p' rt' <= U p rt /\ length (vals s') = length (vals (sh c)) /\
       forall ts', storetime (length (ths c)) (next (length (ths c)) B) B p' = Some ts' ->
          exists ts, storetime (length (ths c)) B B p = Some ts /\ ts' = ts - 1)) ->
     let c' := {| sh := s'; ths := upd (ths c) B p'; hist := h' |} in let rts' := upd rts B rt' in
     (forall A, A <> B -> nth_error (ths c') A = nth_error (ths c) A /\ nth_error rts' A = nth_error rts A) /\
     length (ths c') = length (ths c) /\
     (Fsum (ths c') rts' <= Fsum (ths c) rts - 1 \/
      (Fsum (ths c') rts' <= Fsum (ths c) rts /\ length (vals (sh c')) = length (vals (sh c)) /\
       forall pB' ts', nth_error (ths c') B = Some pB' -> storetime (length (ths c)) (next (length (ths c)) B) B pB' = Some ts' ->
         exists pB ts, nth_error (ths c) B = Some pB /\ storetime (length (ths c)) B B pB = Some ts /\ ts' = ts - 1))).
  { intros s' p' h' rt' HU. cbv zeta. cbn [sh ths hist]. split; [|split].
    - intros A HA. rewrite !nth_error_upd_ne by exact HA. auto.
    - apply upd_length.
    - rewrite (Fsum_upd _ _ _ _ _ p' rt' Hp Hrt). destruct HU as [HU|(HU1 & HU2 & HU3)]; [left; lia|right].
      split; [lia|]. split; [exact HU2|]. intros pB' ts' Hq Hst. rewrite nth_error_upd_eq in Hq by exact HB. inversion Hq; subst pB'.
      destruct (HU3 _ Hst) as (ts & Hts & ->). exists p, ts. auto. }
  destruct (pc_idle p) eqn:Hidle.
  - assert (p = Idle) by (destruct p; try discriminate; reflexivity). subst p.
    destruct (idle_start rt) as [[o rt1]|] eqn:Hs.
    + rewrite (go1_idle_start c rts _ rt o rt1 Hp' Hrt' H2 Hs), Nat2Z.id. apply FR. right.
      split; [apply npush_begin; exact Hs|]. split; [reflexivity|]. intros ts' Hst. destruct o; discriminate.
    + rewrite (go1_idle_none c rts _ rt Hp' Hrt' H2 Hs). split; [auto|]. split; [auto|]. right. split; [lia|]. split; [reflexivity|].
      intros pB' ts' Hq Hst. rewrite Hp in Hq. inversion Hq; subst. discriminate.
  - rewrite (go1_busy c rts _ p rt Hp' Hrt' Hidle), Nat2Z.id.
    assert (HUr : forall p' r, U p' (match r with Some y => if pc_idle p' then rt_return rt y else rt | None => rt end)
                   = (if spinning p' then 1 else 0) + npush (r_prog rt)).
    { intros p' r. unfold U. destruct r as [y|]; [|reflexivity]. destruct (pc_idle p'); [rewrite rt_return_prog|]; reflexivity. }
    destruct p; try discriminate Hidle; cbn [tstep];
      try (apply FR; unfold U; cbn [spinning storetime pc_idle]; rewrite ?rt_return_prog; right; split; [lia|]; split; [reflexivity|]; intros ts' Hst; discriminate).
    + (* PushCas *) destruct nx as [k|]; [|destruct (next_of (sh c) t) eqn:En].
      * apply FR; unfold U; cbn [spinning storetime pc_idle]; rewrite ?rt_return_prog; right; split; [lia|]; split; [reflexivity|]; intros ts' Hst; discriminate.
      * apply FR; unfold U; cbn [spinning storetime pc_idle]; rewrite ?rt_return_prog; right; split; [lia|]; split; [reflexivity|]; intros ts' Hst; discriminate.
      * apply FR; unfold U; cbn [spinning storetime pc_idle]; rewrite ?rt_return_prog. left. lia.
    + (* PushAdd *) apply FR; unfold U; cbn [spinning storetime pc_idle]; rewrite ?rt_return_prog. right. split; [lia|]. split; [reflexivity|].
      intros ts' Hst. inversion Hst. eexists. split; [reflexivity|]. rewrite dist_self, dist_next_self by exact HB. lia.
    + (* PopLoadTail *) destruct (Nat.eqb h (tail (sh c)));
        apply FR; unfold U; cbn [spinning storetime pc_idle]; rewrite ?rt_return_prog; right; (split; [lia|]); (split; [reflexivity|]); intros ts' Hst; discriminate.
    + (* PopCas *) destruct (Nat.eqb (head (sh c)) h); [destruct nx|];
        apply FR; unfold U; cbn [spinning storetime pc_idle]; rewrite ?rt_return_prog; right; (split; [lia|]); (split; [reflexivity|]); intros ts' Hst; discriminate.
    + (* PopClear *) apply FR; unfold U; cbn [spinning storetime pc_idle vals]; rewrite ?rt_return_prog. right. split; [lia|]. split; [apply upd_length|].
      intros ts' Hst; discriminate.
Qed.

Lemma loadtime_next n B A p rt tl' : (B < n)%nat -> (A < n)%nat -> A <> B ->
  loadtime n (next n B) A p rt = Some tl' -> loadtime n B A p rt = Some (tl' + 1).
Proof.
  intros HB HA Hne. unfold loadtime. rewrite (dist_next_other n B A HB HA Hne).
  destruct p; try discriminate; try (destruct (next_is_push rt); try discriminate); intros H; inversion H; f_equal; lia.
Qed.
Lemma storetime_next n B C p ts' : (B < n)%nat -> (C < n)%nat -> C <> B ->
  storetime n (next n B) C p = Some ts' -> storetime n B C p = Some (ts' + 1).
Proof.
  intros HB HC Hne. unfold storetime. rewrite (dist_next_other n B C HB HC Hne).
  destruct p; try discriminate; intros H; inversion H; f_equal; lia.
Qed.

Lemma pot_other progs c rts B A k : LI progs c rts -> (B < length (ths c))%nat -> (A < length (ths c))%nat -> A <> B ->
  let n := length (ths c) in
  Pot n B A c rts k ->
  let '(c', rts', _) := go1 c rts (Z.of_nat B) in Pot n (next n B) A c' rts' k.
Proof.
  intros HL HB HA Hne n HP. pose proof (go1_effect progs c rts B HL HB) as HE. cbv zeta in HE. fold n in HE.
  destruct (go1 c rts (Z.of_nat B)) as [[c' rts'] toks]. destruct HE as (Hfr & Hlen & HE).
  intros p rt Hp Hrt. destruct (Hfr A Hne) as [F1 F2]. rewrite F1 in Hp. rewrite F2 in Hrt.
  destruct (HP p rt Hp Hrt) as [Hfin|(d & Hd & Hk & Hsafe)]; [left; exact Hfin|right].
  destruct HE as [HE|(HE1 & HE2 & HE3)].
  - exists 1. split; [auto|]. split; [lia|]. intros; lia.
  - exists d. split; [exact Hd|]. split; [lia|]. intros Hd0. destruct (Hsafe Hd0) as [S1 S2]. split.
    + destruct p; cbn [stale_now] in *; rewrite ?HE2; auto.
    + intros C pC tl' ts' HCA HpC Hl Hs.
      assert (HCn : (C < n)%nat) by (apply nth_error_some_lt in HpC; lia).
      apply (loadtime_next n B A p rt tl' HB HA Hne) in Hl.
      destruct (Nat.eq_dec C B) as [->|HCB].
      * destruct (HE3 _ _ HpC Hs) as (pB & ts & HpB & Hts & ->). pose proof (S2 B pB _ _ HCA HpB Hl Hts). lia.
      * destruct (Hfr C HCB) as [G1 _]. rewrite G1 in HpC.
        apply (storetime_next n B C pC ts' HB HCn HCB) in Hs. pose proof (S2 C pC _ _ HCA HpC Hl Hs). lia.
Qed.

(* ---- a step of the thread itself ---- *)
Lemma pot_own_frame n A c rts k p rt s' p' h' rt' d d' :
  nth_error (ths c) A = Some p -> nth_error rts A = Some rt ->
  base p rt + 4 * (Fsum (ths c) rts - U p rt + d) <= k ->
  (d' = 0 \/ d' = 1) -> base p' rt' + 4 * d' <= base p rt + 4 * d - 1 ->
  (d' = 0 -> safe n (next n A) A {| sh := s'; ths := upd (ths c) A p'; hist := h' |} p' rt') ->
  Pot n (next n A) A {| sh := s'; ths := upd (ths c) A p'; hist := h' |} (upd rts A rt') (k - 1).
Proof.
  intros Hp Hrt Hk Hd' Hb Hs q rq Hq Hrq. cbn [ths] in Hq.
  rewrite nth_error_upd_eq in Hq by (eapply nth_error_some_lt; eauto).
  rewrite nth_error_upd_eq in Hrq by (eapply nth_error_some_lt; eauto). inversion Hq; inversion Hrq; subst q rq.
  right. exists d'. split; [exact Hd'|]. split; [|exact Hs]. cbn [ths]. rewrite (Fsum_upd _ _ _ _ _ p' rt' Hp Hrt). lia.
Qed.

Lemma safe_none n pos A c p rt : stale_now (sh c) p = false -> loadtime n pos A p rt = None -> safe n pos A c p rt.
Proof. intros H1 H2. split; [exact H1|]. intros B pB tl ts _ _ Hl. rewrite H2 in Hl. discriminate. Qed.
Lemma safe_far n pos A c p rt : (pos < n)%nat -> length (ths c) = n -> stale_now (sh c) p = false ->
  (forall tl, loadtime n pos A p rt = Some tl -> 2 * Z.of_nat n - 1 <= tl) -> safe n pos A c p rt.
Proof.
  intros Hpos Hn H1 H2. split; [exact H1|]. intros B pB tl ts _ HpB Hl Hs. specialize (H2 _ Hl).
  assert (HB : (B < n)%nat) by (apply nth_error_some_lt in HpB; lia).
  pose proof (dist_range n pos B Hpos HB). unfold storetime in Hs. destruct pB; try discriminate; inversion Hs; lia.
Qed.
(* the load gets one step nearer and so do the stores of the others *)
Lemma safe_shift n A c s' h' p rt p' rt' tl : (A < n)%nat -> length (ths c) = n ->
  safe n A A c p rt -> loadtime n A A p rt = Some tl ->
  stale_now s' p' = false -> (forall tl', loadtime n (next n A) A p' rt' = Some tl' -> tl' = tl - 1) ->
  safe n (next n A) A {| sh := s'; ths := upd (ths c) A p'; hist := h' |} p' rt'.
Proof.
  intros HA Hn [S1 S2] Hl Hst Hl'. split; [exact Hst|]. intros B pB tl' ts' HBA HpB Hlt Hs. cbn [ths] in HpB.
  rewrite nth_error_upd_ne in HpB by exact HBA. rewrite (Hl' _ Hlt).
  assert (HB : (B < n)%nat) by (apply nth_error_some_lt in HpB; lia).
  apply (storetime_next n A B pB ts' HA HB HBA) in Hs. pose proof (S2 B pB _ _ HBA HpB Hl Hs). lia.
Qed.

Lemma base_return rt y : 0 <= r_left rt -> base Idle (rt_return rt y) <= r_left rt * 8 + progcost (r_prog rt).
Proof.
  intros H. unfold rt_return, base.
  destruct ((r_wait rt =? 0) || res_success y || (r_left rt =? 0)) eqn:Ec; cbn [pcrank pc_idle andb r_wait r_left r_prog Z.eqb negb]; [lia|].
  apply orb_false_iff in Ec as [Ec Ec3]. apply orb_false_iff in Ec as [Ec1 Ec2]. apply Z.eqb_neq in Ec3.
  destruct (Z.ltb_spec (r_left rt) 0); [lia|]. cbn [pcrank pc_idle andb r_wait r_left r_prog]. rewrite Ec1. cbn [negb]. lia.
Qed.

Lemma nlinked_pos_ex l : 1 <= nlinked l -> exists B p, nth_error l B = Some p /\ linked p = true.
Proof.
  induction l as [|a l IH]; cbn [nlinked]; [lia|]. intros H. destruct (linked a) eqn:E.
  - exists O, a. split; [reflexivity|exact E].
  - destruct IH as (B & p & H1 & H2); [lia|]. exists (S B), p. auto.
Qed.
Lemma storetime_linked n pos B p : linked p = true -> exists ts, storetime n pos B p = Some ts /\ dist n pos B <= ts.
Proof. destruct p; try discriminate; intros _; cbn [storetime]; eexists; split; try reflexivity; lia. Qed.

Lemma pot_own progs c rts A k : LI progs c rts -> (A < length (ths c))%nat ->
  let n := length (ths c) in
  Pot n A A c rts k ->
  let '(c', rts', _) := go1 c rts (Z.of_nat A) in Pot n (next n A) A c' rts' (k - 1).
Proof.
  intros HL HA n HP. pose proof HL as [HI Hl1 Hn HT].
  assert (Hex : exists p, nth_error (ths c) A = Some p).
  { destruct (nth_error (ths c) A) as [p|] eqn:Hp; [eauto|apply nth_error_None in Hp; lia]. }
  destruct Hex as [p Hp].
  assert (Hex : exists rt, nth_error rts A = Some rt).
  { destruct (nth_error rts A) as [rt|] eqn:Hrt; [eauto|apply nth_error_None in Hrt; lia]. }
  destruct Hex as [rt Hrt].
  pose proof (HT _ _ _ Hp Hrt) as (H1 & H2 & H3 & H4 & H5).
  assert (Hp' := Hp). assert (Hrt' := Hrt). rewrite <- (Nat2Z.id A) in Hp', Hrt'.
  assert (Hnext : (next n A < n)%nat) by (apply next_lt; exact HA).
  pose proof (progcost_nonneg _ H1) as Hpc.
  destruct (HP p rt Hp Hrt) as [(-> & Hw & Hrp)|(d & Hd & Hk & Hsafe)].
  - (* finished: the entry is skipped *)
    assert (Hs : idle_start rt = None).
    { unfold idle_start. rewrite Hw. cbn [Z.eqb negb]. unfold rt_begin. rewrite Hrp. reflexivity. }
    rewrite (go1_idle_none c rts _ rt Hp' Hrt' H2 Hs). intros q rq Hq Hrq. rewrite Hp in Hq. rewrite Hrt in Hrq.
    inversion Hq; inversion Hrq; subst. left. repeat split; auto.
  - destruct (pc_idle p) eqn:Hidle.
    + assert (p = Idle) by (destruct p; try discriminate; reflexivity). subst p.
      destruct (Z.eqb_spec (r_wait rt) 0) as [Hw|Hw].
      * destruct (r_prog rt) as [|z more] eqn:Hrp.
        -- assert (Hs : idle_start rt = None).
           { unfold idle_start. rewrite Hw. cbn [Z.eqb negb]. unfold rt_begin. rewrite Hrp. reflexivity. }
           rewrite (go1_idle_none c rts _ rt Hp' Hrt' H2 Hs). intros q rq Hq Hrq. rewrite Hp in Hq. rewrite Hrt in Hrq.
           inversion Hq; inversion Hrq; subst. left. repeat split; auto.
        -- inversion H1 as [|? ? Hz Hmore]; subst. pose proof (progcost_nonneg _ Hmore) as Hpm.
           assert (Hl0 : r_left rt = 0) by auto.
           assert (Hbeg : exists o rt1, idle_start rt = Some (o, rt1) /\ r_prog rt1 = more /\
                     pcrank (start_pc o) + r_left rt1 * 8 = opcost z - 1 /\ pc_idle (start_pc o) = false /\
                     (forall v, o = OpPush v -> 0 < z)).
           { unfold idle_start. rewrite Hw. cbn [Z.eqb negb]. unfold rt_begin. rewrite Hrp. unfold opcost, tries_of.
             destruct (is_wait z) eqn:Ew.
             - unfold is_wait in Ew. destruct (op_live_cases _ Hz) as [Hc|Hc].
               + exfalso. apply orb_true_iff in Ew as [E|E]; [apply Z.eqb_eq in E|apply Z.leb_le in E]; lia.
               + eexists _, _. split; [reflexivity|]. cbn [r_prog r_left start_pc pcrank pc_idle].
                 replace (0 <? z) with false by (symmetry; apply Z.ltb_ge; lia).
                 replace (z =? 0) with false by (symmetry; apply Z.eqb_neq; lia).
                 replace (z =? -1) with false by (symmetry; apply Z.eqb_neq; lia).
                 replace (z <=? -100) with true by (symmetry; apply Z.leb_le; lia).
                 repeat split; auto; try lia. intros; discriminate.
             - unfold is_wait in Ew. apply orb_false_iff in Ew as [E1 E2]. apply Z.eqb_neq in E1. apply Z.leb_gt in E2.
               destruct (op_live_cases _ Hz) as [Hc|Hc]; [|lia]. unfold dec_op.
               destruct (Z.eqb_spec z 0) as [->|N0]; [|destruct (Z.eqb_spec z (-1)) as [->|N1]].
               + eexists _, _. split; [reflexivity|]. cbn. repeat split; auto. intros; discriminate.
               + eexists _, _. split; [reflexivity|]. cbn. repeat split; auto. intros; discriminate.
               + replace (z <? 0) with false by (symmetry; apply Z.ltb_ge; lia).
                 replace (0 <? z) with true by (symmetry; apply Z.ltb_lt; lia).
                 eexists _, _. split; [reflexivity|]. cbn. repeat split; auto; lia. }
           destruct Hbeg as (o & rt1 & Hs & Hrp1 & Hrank & Hni & Hpush).
           rewrite (go1_idle_start c rts _ rt o rt1 Hp' Hrt' H2 Hs), Nat2Z.id.
           eapply (pot_own_frame n A c rts k Idle rt _ _ _ _ d d Hp Hrt Hk Hd).
           ++ unfold base. rewrite Hni, Hrp, Hrp1, Hw, Hl0. cbn [pc_idle andb Z.eqb negb pcrank progcost]. lia.
           ++ intros Hd0. specialize (Hsafe Hd0).
              destruct o as [v| |]; try (apply safe_none; reflexivity).
              apply (safe_shift n A c _ _ Idle rt _ _ (Z.of_nat n) HA eq_refl Hsafe).
              ** unfold loadtime, next_is_push. rewrite Hw, Hrp. specialize (Hpush v eq_refl).
                 replace (0 <? z) with true by (symmetry; apply Z.ltb_lt; lia). cbn [Z.eqb andb]. rewrite dist_self. f_equal; lia.
              ** reflexivity.
              ** intros tl' Hl. cbn [start_pc loadtime] in Hl. inversion Hl. rewrite dist_next_self by exact HA. lia.
      * (* next attempt of a timed PopWait *)
        assert (Hs : idle_start rt = Some (OpPop, rt)).
        { unfold idle_start. destruct (Z.eqb_spec (r_wait rt) 0); [contradiction|reflexivity]. }
        rewrite (go1_idle_start c rts _ rt OpPop rt Hp' Hrt' H2 Hs), Nat2Z.id.
        eapply (pot_own_frame n A c rts k Idle rt _ _ _ _ d d Hp Hrt Hk Hd).
        -- unfold base. cbn [start_pc pc_idle andb pcrank]. destruct (Z.eqb_spec (r_wait rt) 0); [contradiction|]. cbn [negb]. lia.
        -- intros _. apply safe_none; reflexivity.
    + rewrite (go1_busy c rts _ p rt Hp' Hrt' Hidle), Nat2Z.id.
      assert (Hta : tassert (sh c) p).
      { pose proof (i_t _ HI) as HTa. rewrite Forall_forall in HTa. apply HTa. eapply nth_error_In; eauto. }
      assert (RETURN : forall s' h' y, 
         Pot n (next n A) A {| sh := s'; ths := upd (ths c) A Idle; hist := h' |} (upd rts A (rt_return rt y)) (k - 1)).
      { intros s' h' y. eapply (pot_own_frame n A c rts k p rt _ _ _ _ d 0 Hp Hrt Hk); [auto| |].
        - pose proof (base_return rt y ltac:(lia)). unfold base at 2. rewrite Hidle. cbn [andb].
          pose proof (pcrank_range p). assert (pcrank p <> 0) by (intros E; apply pcrank_zero in E; subst; discriminate). lia.
        - intros _. apply safe_far; [exact Hnext|cbn [ths]; apply upd_length|reflexivity|].
          intros tl Hl. cbn [loadtime] in Hl. destruct (next_is_push (rt_return rt y)); [|discriminate].
          inversion Hl. rewrite dist_next_self by exact HA. lia. }
      assert (SIMPLE : forall s' p' h', pcrank p' = pcrank p - 1 -> pc_idle p' = false -> (d = 0 -> stale_now s' p' = false) ->
                 loadtime n (next n A) A p' rt = None ->
         Pot n (next n A) A {| sh := s'; ths := upd (ths c) A p'; hist := h' |} (upd rts A rt) (k - 1)).
      { intros s' p' h' Hr Hi' Hst Hlt. eapply (pot_own_frame n A c rts k p rt _ _ _ _ d d Hp Hrt Hk Hd).
        - unfold base. rewrite Hidle, Hi', Hr. cbn [andb]. lia.
        - intros Hd0. apply safe_none; auto. }
      destruct p; try discriminate Hidle; cbn [tstep pc_idle push_hist]; try (apply RETURN); try (apply SIMPLE; reflexivity).
      * (* PushLoadTail: the tail it reads is not lagging when d = 0 *)
        apply SIMPLE; try reflexivity. intros Hd0. destruct (Hsafe Hd0) as [_ S2]. cbn [stale_now].
        assert (Hnl : nlinked (ths c) = 0).
        { pose proof (nlinked_nonneg (ths c)) as Hnn. destruct (Z.eq_dec (nlinked (ths c)) 0) as [E|E]; [exact E|exfalso].
          destruct (nlinked_pos_ex (ths c) ltac:(lia)) as (B & pB & HpB & HlB).
          assert (HBA : B <> A) by (intros ->; rewrite Hp in HpB; inversion HpB; subst; discriminate).
          assert (HB : (B < n)%nat) by (apply nth_error_some_lt in HpB; exact HpB).
          destruct (storetime_linked n A B pB HlB) as (ts & Hts & Hge).
          pose proof (S2 B pB _ _ HBA HpB eq_refl Hts) as Hle. rewrite dist_self in Hle.
          pose proof (dist_pos n A B HA HB HBA). lia. }
        pose proof (i_len _ HI) as Hlen. rewrite Hnl in Hlen. cbn [Z.to_nat] in Hlen.
        apply Nat.ltb_ge. lia.
      * (* PushLoadNext *)
        apply SIMPLE; try reflexivity. intros Hd0. destruct (Hsafe Hd0) as [S1 _]. cbn [stale_now] in *.
        unfold next_of. rewrite S1. reflexivity.
      * (* PushCas *)
        assert (YIELD : d = 1 -> Pot n (next n A) A {| sh := sh c; ths := upd (ths c) A (PushYield v); hist := hist c |} (upd rts A rt) (k - 1)).
        { intros ->. eapply (pot_own_frame n A c rts k _ rt _ _ _ _ 1 0 Hp Hrt Hk); [auto| |].
          - unfold base. cbn [pcrank pc_idle andb]. lia.
          - intros _. apply safe_far; [exact Hnext|cbn [ths]; apply upd_length|reflexivity|].
            intros tl Hl. cbn [loadtime] in Hl. inversion Hl. rewrite dist_next_self by exact HA. lia. }
        assert (Hd1 : d = 0 -> nx = None /\ next_of (sh c) t = None).
        { intros Hd0. destruct (Hsafe Hd0) as [S1 _]. cbn [stale_now] in S1. apply orb_false_iff in S1 as [S1 S1'].
          split; [destruct nx; [discriminate|reflexivity]|]. unfold next_of. rewrite S1'. reflexivity. }
        destruct nx as [k0|]; [apply YIELD; destruct Hd as [Hd|Hd]; [destruct (Hd1 Hd); discriminate|exact Hd]|].
        destruct (next_of (sh c) t) eqn:En; [apply YIELD; destruct Hd as [Hd|Hd]; [destruct (Hd1 Hd); discriminate|exact Hd]|].
        cbn [push_hist]. eapply (pot_own_frame n A c rts k _ rt _ _ _ _ d d Hp Hrt Hk Hd).
        -- unfold base. cbn [pcrank pc_idle andb]. lia.
        -- intros _. apply safe_none; reflexivity.
      * (* PushYield *)
        eapply (pot_own_frame n A c rts k _ rt _ _ _ _ d d Hp Hrt Hk Hd).
        -- unfold base. cbn [pcrank pc_idle andb]. lia.
        -- intros Hd0. apply (safe_shift n A c _ _ (PushYield v) rt _ _ (Z.of_nat n) HA eq_refl (Hsafe Hd0)).
           ++ cbn [loadtime]. rewrite dist_self. f_equal; lia.
           ++ reflexivity.
           ++ intros tl' Hl. cbn [loadtime] in Hl. inversion Hl. rewrite dist_next_self by exact HA. lia.
      * (* PopLoadTail *)
        destruct (Nat.eqb h (tail (sh c))); cbn [pc_idle push_hist]; [apply RETURN|apply SIMPLE; reflexivity].
      * (* PopCas *)
        cbn [tassert] in Hta. destruct Hta as [T1 T2].
        destruct (Nat.eqb_spec (head (sh c)) h) as [E|E]; cbn [pc_idle push_hist]; [|apply RETURN].
        symmetry in E. destruct (T2 E) as [_ ->]. apply SIMPLE; reflexivity.
Qed.


(* ---- rounds ---- *)
Lemma gos_app l1 : forall c rts l2, gos c rts (l1 ++ l2) =
  let '(c1, rts1, t1) := gos c rts l1 in let '(c2, rts2, t2) := gos c1 rts1 l2 in (c2, rts2, t1 ++ t2).
Proof.
  induction l1 as [|x l1 IH]; intros c rts l2; cbn [app gos].
  - destruct (gos c rts l2) as [[c2 rts2] t2]. reflexivity.
  - destruct (go1 c rts x) as [[c1 rts1] t1]. rewrite IH. destruct (gos c1 rts1 l1) as [[c2 rts2] t2].
    destruct (gos c2 rts2 l2) as [[c3 rts3] t3]. rewrite app_assoc. reflexivity.
Qed.
Lemma li_run progs sched : forall c rts, LI progs c rts -> let '(c', rts', _) := gos c rts sched in LI progs c' rts'.
Proof.
  induction sched as [|x sched IH]; intros c rts HL; cbn [gos]; [exact HL|].
  pose proof (li_step progs c rts x HL) as H. destruct (go1 c rts x) as [[c1 rts1] t1].
  specialize (IH c1 rts1 H). destruct (gos c1 rts1 sched) as [[c2 rts2] t2]. exact IH.
Qed.

Definition posof (n x : nat) : nat := if Nat.eqb x n then O else x.
Lemma round_inner progs : forall m x c rts (ks : nat -> Z), (x + m = length progs)%nat -> LI progs c rts ->
  (forall A, (A < length progs)%nat -> Pot (length progs) (posof (length progs) x) A c rts (ks A)) ->
  let '(c', rts', _) := gos c rts (map Z.of_nat (seq x m)) in
  LI progs c' rts' /\
  forall A, (A < length progs)%nat -> Pot (length progs) O A c' rts' (if (x <=? A)%nat then ks A - 1 else ks A).
Proof.
  set (n := length progs).
  induction m as [|m IH]; intros x c rts ks Hx HL HP; cbn [seq map gos].
  - split; [exact HL|]. intros A HA. replace (x <=? A)%nat with false by (symmetry; apply Nat.leb_gt; lia).
    specialize (HP A HA). unfold posof in HP. replace (Nat.eqb x n) with true in HP by (symmetry; apply Nat.eqb_eq; lia). exact HP.
  - assert (Hxn : (x < n)%nat) by lia.
    assert (Hlen : length (ths c) = n) by (apply (l_n _ _ _ HL)).
    assert (Hpos : posof n x = x) by (unfold posof; destruct (Nat.eqb_spec x n); [lia|reflexivity]).
    assert (Hnext : next n x = posof n (S x)) by reflexivity.
    pose proof (li_step progs c rts (Z.of_nat x) HL) as HL1.
    assert (HP1 : forall A, (A < n)%nat ->
              let '(c1, rts1, _) := go1 c rts (Z.of_nat x) in Pot n (posof n (S x)) A c1 rts1 (if Nat.eqb A x then ks A - 1 else ks A)).
    { intros A HA. specialize (HP A HA). rewrite Hpos in HP. rewrite <- Hnext. destruct (Nat.eqb_spec A x) as [->|Hne].
      - pose proof (pot_own progs c rts x (ks x) HL ltac:(lia)) as H. cbv zeta in H. rewrite Hlen in H. apply H. exact HP.
      - pose proof (pot_other progs c rts x A (ks A) HL ltac:(lia) ltac:(lia) Hne) as H. cbv zeta in H. rewrite Hlen in H. apply H. exact HP. }
    destruct (go1 c rts (Z.of_nat x)) as [[c1 rts1] t1].
    specialize (IH (S x) c1 rts1 (fun A => if Nat.eqb A x then ks A - 1 else ks A) ltac:(lia) HL1 HP1).
    destruct (gos c1 rts1 (map Z.of_nat (seq (S x) m))) as [[c2 rts2] t2]. destruct IH as [HL2 HP2].
    split; [exact HL2|]. intros A HA. specialize (HP2 A HA). cbv beta in HP2.
    destruct (Nat.eqb_spec A x) as [E|Hne].
    + subst A. replace (S x <=? x)%nat with false in HP2 by (symmetry; apply Nat.leb_gt; lia). rewrite Nat.leb_refl. exact HP2.
    + destruct (Nat.leb_spec (S x) A); destruct (Nat.leb_spec x A); try lia; exact HP2.
Qed.

Lemma rounds progs : forall R c rts (ks : nat -> Z), LI progs c rts ->
  (forall A, (A < length progs)%nat -> Pot (length progs) O A c rts (ks A)) ->
  let '(c', rts', _) := gos c rts (concat (repeat (map Z.of_nat (seq 0 (length progs))) R)) in
  LI progs c' rts' /\ forall A, (A < length progs)%nat -> Pot (length progs) O A c' rts' (ks A - Z.of_nat R).
Proof.
  induction R as [|R IH]; intros c rts ks HL HP; cbn [repeat concat].
  - cbn [gos]. split; [exact HL|]. intros A HA. replace (ks A - Z.of_nat 0) with (ks A) by lia. auto.
  - rewrite gos_app.
    assert (HP0 : forall A, (A < length progs)%nat -> Pot (length progs) (posof (length progs) 0) A c rts (ks A)).
    { intros A HA. unfold posof. destruct (Nat.eqb_spec 0 (length progs)); [lia|]. auto. }
    pose proof (round_inner progs (length progs) 0 c rts ks eq_refl HL HP0) as H1.
    destruct (gos c rts (map Z.of_nat (seq 0 (length progs)))) as [[c1 rts1] t1]. destruct H1 as [HL1 HP1].
    specialize (IH c1 rts1 (fun A => ks A - 1) HL1).
    destruct (gos c1 rts1 (concat (repeat (map Z.of_nat (seq 0 (length progs))) R))) as [[c2 rts2] t2].
    destruct IH as [HL2 HP2].
    { intros A HA. specialize (HP1 A HA). cbn [Nat.leb] in HP1. exact HP1. }
    split; [exact HL2|]. intros A HA. specialize (HP2 A HA). cbv beta in HP2.
    replace (ks A - Z.of_nat (S R)) with (ks A - 1 - Z.of_nat R) by lia. exact HP2.
Qed.

(* ---- bounds ---- *)
Fixpoint tot (progs : list (list Z)) : nat := match progs with [] => O | p :: t => (length p + tot t)%nat end.
Lemma fold_left_tot progs : forall a, fold_left (fun a p => a + length p)%nat progs a = (a + tot progs)%nat.
Proof. induction progs as [|p t IH]; intros a; cbn [fold_left tot]; [lia|]. rewrite IH. lia. Qed.
Lemma nth_le_tot progs : forall A, (length (nth A progs []) <= tot progs)%nat.
Proof. induction progs as [|p t IH]; intros [|A]; cbn [nth tot length]; try lia. specialize (IH A). lia. Qed.
Lemma npush_le l : npush l <= Z.of_nat (length l).
Proof. induction l as [|x l IH]; cbn [npush length]; [lia|]. destruct (0 <? x); lia. Qed.
Lemma base_bound m p rt : linv m p rt -> 0 <= base p rt <= 32 * m.
Proof.
  intros (H1 & H2 & H3 & H4 & H5). pose proof (progcost_nonneg _ H1) as Hpc. pose proof (pcrank_range p) as Hr.
  unfold base. unfold busy in H5. destruct (pc_idle p) eqn:Hi.
  - assert (p = Idle) by (destruct p; try discriminate; reflexivity). subst p. cbn [pcrank andb] in *.
    destruct (Z.eqb_spec (r_wait rt) 0) as [E|E]; cbn [negb].
    + rewrite (H4 E). lia.
    + lia.
  - cbn [andb] in *. lia.
Qed.
Lemma U_bound m p rt : linv m p rt -> U p rt <= m.
Proof.
  intros (H1 & H2 & H3 & H4 & H5). unfold U. pose proof (npush_le (r_prog rt)). unfold busy in H5.
  destruct (spinning p) eqn:Es; [|destruct (pc_idle p && (r_wait rt =? 0)); lia].
  replace (pc_idle p) with false in H5 by (destruct p; try discriminate; reflexivity). cbn [andb] in H5. lia.
Qed.
Lemma Fsum_bound : forall progs ps rts, length ps = length progs ->
  (forall A p rt, nth_error ps A = Some p -> nth_error rts A = Some rt -> U p rt <= Z.of_nat (length (nth A progs []))) ->
  Fsum ps rts <= Z.of_nat (tot progs).
Proof.
  induction progs as [|pr progs IH]; intros [|p ps] [|rt rts] Hlen H; cbn [length] in Hlen; try discriminate; cbn [Fsum tot]; try lia.
  pose proof (H O p rt eq_refl eq_refl) as H0. cbn [nth] in H0.
  assert (Fsum ps rts <= Z.of_nat (tot progs)); [|lia].
  apply IH; [lia|]. intros A p' rt' Ha Hb. apply (H (S A)); assumption.
Qed.

Lemma pot_init progs c rts A : LI progs c rts -> Pot (length progs) O A c rts (36 * Z.of_nat (tot progs) + 4).
Proof.
  intros HL p rt Hp Hrt. right. exists 1. split; [auto|]. split; [|intros; lia].
  pose proof (l_t _ _ _ HL _ _ _ Hp Hrt) as Hli. pose proof (base_bound _ _ _ Hli) as Hb. pose proof (U_nonneg p rt) as Hu.
  pose proof (nth_le_tot progs A) as Hm.
  assert (Fsum (ths c) rts <= Z.of_nat (tot progs)).
  { apply Fsum_bound; [apply (l_n _ _ _ HL)|]. intros B pB rtB HpB HrtB. apply U_bound. apply (l_t _ _ _ HL); assumption. }
  lia.
Qed.

Lemma pot_done progs n pos A c rts k p rt : LI progs c rts -> Pot n pos A c rts k -> k <= 0 ->
  nth_error (ths c) A = Some p -> nth_error rts A = Some rt -> pc_idle p = true /\ (r_wait rt =? 0) = true.
Proof.
  intros HL HP Hk Hp Hrt. destruct (HP p rt Hp Hrt) as [(-> & Hw & _)|(d & Hd & Hb & _)].
  - rewrite Hw. auto.
  - pose proof (l_t _ _ _ HL _ _ _ Hp Hrt) as Hli. pose proof (base_bound _ _ _ Hli) as Hbb.
    pose proof (Fsum_ge _ _ _ _ _ Hp Hrt) as Hf.
    assert (Hz : base p rt = 0) by lia. destruct Hli as (H1 & H2 & H3 & H4 & H5).
    pose proof (progcost_nonneg _ H1) as Hpc. pose proof (pcrank_range p) as Hr. unfold base in Hz.
    assert (Hr0 : pcrank p = 0) by (destruct (pc_idle p && negb (r_wait rt =? 0)); lia).
    apply pcrank_zero in Hr0. subst p. cbn [pc_idle andb pcrank] in *. split; [reflexivity|].
    destruct (r_wait rt =? 0); [reflexivity|cbn [negb] in Hz; lia].
Qed.

Lemma forallb_nth {A} (f : A -> bool) l : (forall i x, nth_error l i = Some x -> f x = true) -> forallb f l = true.
Proof.
  intros H. apply forallb_forall. intros x Hx. apply In_nth_error in Hx as [i Hi]. eapply H; eauto.
Qed.

Lemma li_init progs npre : Forall (Forall (fun x => op_live x = true)) progs ->
  LI progs (seq_state npre (length progs)) (init_rts progs).
Proof.
  intros Hlive. constructor; cbn [seq_state sh ths hist].
  - apply seq_state_inv.
  - unfold init_rts. rewrite map_length, repeat_length. reflexivity.
  - apply repeat_length.
  - intros A p rt Hp Hrt. apply nth_error_In, repeat_spec in Hp. subst p.
    unfold init_rts in Hrt. apply nth_error_map_inv in Hrt as (pr & Hpr & ->).
    unfold linv, busy. cbn [r_prog r_yield r_left r_wait pc_idle andb Z.eqb].
    rewrite (nth_error_nth _ _ [] Hpr). repeat split; auto; try lia.
    rewrite Forall_forall in Hlive. apply Hlive. eapply nth_error_In; eauto.
Qed.

(* the completion tail brings every live case to quiescence *)
Theorem completion_quiescent progs npre sched : Forall (Forall (fun x => op_live x = true)) progs ->
  let '(c, rts', _) := gos (seq_state npre (length progs)) (init_rts progs) (sched ++ completion (length progs) progs) in
  quiescent c rts' = true.
Proof.
  intros Hlive. rewrite gos_app.
  pose proof (li_run progs sched _ _ (li_init progs npre Hlive)) as HL1.
  destruct (gos (seq_state npre (length progs)) (init_rts progs) sched) as [[c1 rts1] t1].
  unfold completion. rewrite fold_left_tot. cbn [Nat.add].
  pose proof (rounds progs (40 * tot progs + 40) c1 rts1 (fun _ => 36 * Z.of_nat (tot progs) + 4) HL1
                (fun A _ => pot_init progs c1 rts1 A HL1)) as HR.
  destruct (gos c1 rts1 (concat (repeat (map Z.of_nat (seq 0 (length progs))) (40 * tot progs + 40)))) as [[c2 rts2] t2].
  destruct HR as [HL2 HP2]. unfold quiescent. apply andb_true_iff. split.
  - apply forallb_nth. intros A p Hp.
    assert (HA : (A < length progs)%nat) by (apply nth_error_some_lt in Hp; rewrite (l_n _ _ _ HL2) in Hp; exact Hp).
    destruct (nth_error rts2 A) as [rt|] eqn:Hrt;
      [|apply nth_error_None in Hrt; rewrite (l_len _ _ _ HL2), (l_n _ _ _ HL2) in Hrt; lia].
    apply (pot_done progs _ _ A c2 rts2 _ p rt HL2 (HP2 A HA)); auto. lia.
  - apply forallb_nth. intros A rt Hrt.
    assert (HA : (A < length progs)%nat) by (apply nth_error_some_lt in Hrt; rewrite (l_len _ _ _ HL2), (l_n _ _ _ HL2) in Hrt; exact Hrt).
    destruct (nth_error (ths c2) A) as [p|] eqn:Hp; [|apply nth_error_None in Hp; rewrite (l_n _ _ _ HL2) in Hp; lia].
    apply (pot_done progs _ _ A c2 rts2 _ p rt HL2 (HP2 A HA)); auto. lia.
Qed.
Print Assumptions completion_quiescent.
