From Coq Require Import List ZArith NArith Lia Bool Arith ZifyN ZifyNat ZifyBool Sorted Permutation.
From V Require Import Lib.Enc Model.Bits.
From V Require Import Proofs.BitsBasic.
Import ListNotations.
Local Open Scope N_scope.     (* uint(bi.i<<6 + bi.j) *)

Lemma bit_set_mem set i j : j < 64 -> bit_set set i j = mem set (N.of_nat i * 64 + j).
Proof.
  intros Hj. unfold bit_set, mem. change (N.shiftl 1 j) with (mask j). rewrite land_mask_zero, negb_involutive.
  replace ((N.of_nat i * 64 + j) / 64) with (N.of_nat i) by (apply N.div_unique with j; lia).
  replace ((N.of_nat i * 64 + j) mod 64) with j by (apply N.mod_unique with (N.of_nat i); lia).
  rewrite Nat2N.id. reflexivity.
Qed.

Lemma mem_beyond set i j p : (length set <= i)%nat -> N.of_nat i * 64 + j <= p -> mem set p = false.
Proof.
  intros Hi Hp. unfold mem. rewrite nth_overflow; [apply N.bits_0|].
  assert (N.of_nat (length set) <= p / 64) by (apply N.div_le_lower_bound; lia). lia.
Qed.

(* scanning from (i, j) finds the least member at or after position 64*i + j, if there is one below 64*len *)
Lemma scan_spec set : forall fuel i j, j <= 64 -> (65 * (length set - i) < fuel + N.to_nat j)%nat ->
  match scan fuel set i j with
  | Some (i', j') => j' < 64 /\ (i' < length set)%nat /\ mem set (N.of_nat i' * 64 + j') = true /\
                     N.of_nat i * 64 + j <= N.of_nat i' * 64 + j' /\
                     (forall p, N.of_nat i * 64 + j <= p -> p < N.of_nat i' * 64 + j' -> mem set p = false)
  | None => forall p, N.of_nat i * 64 + j <= p -> mem set p = false
  end.
Proof.
  induction fuel as [|f IH]; intros i j Hj Hf; [cbn [scan]; intros p Hp; apply (mem_beyond set i j); lia|]. cbn [scan].
  destruct (Nat.ltb_spec i (length set)) as [Hi|Hi].
  - destruct (N.ltb_spec j 64) as [Hj64|Hj64].
    + destruct (bit_set set i j) eqn:Eb.
      * rewrite bit_set_mem in Eb by auto. repeat split; auto; try lia; intros p Hp1 Hp2; lia.
      * specialize (IH i (j + 1) ltac:(lia) ltac:(lia)). rewrite bit_set_mem in Eb by auto.
        destruct (scan f set i (j + 1)) as [[i' j']|].
        -- destruct IH as (H1 & H2 & H3 & H4 & H5). repeat split; auto; try lia.
           intros p Hp1 Hp2. destruct (N.eq_dec p (N.of_nat i * 64 + j)) as [->|Hne]; [exact Eb|]. apply H5; lia.
        -- intros p Hp. destruct (N.eq_dec p (N.of_nat i * 64 + j)) as [->|Hne]; [exact Eb|]. apply IH; lia.
    + assert (j = 64) by lia. subst j.
      specialize (IH (S i) 0 ltac:(lia) ltac:(lia)).
      destruct (scan f set (S i) 0) as [[i' j']|].
      * destruct IH as (H1 & H2 & H3 & H4 & H5). repeat split; auto; try lia. intros p Hp1 Hp2. apply H5; lia.
      * intros p Hp. apply IH. lia.
  - intros p Hp. apply (mem_beyond set i j); auto.
Qed.

(* Next/Value: each call lands on the least member strictly after the previous one (or the least member at all) *)
Theorem next_spec set it : (rd it = true -> bj it < 64) -> (rd it = false -> bj it <= 64) ->
  let lo := if rd it then value it + 1 else value it in
  match next set it with
  | Some it' => rd it' = true /\ bj it' < 64 /\ mem set (value it') = true /\ lo <= value it' /\
                (forall p, lo <= p -> p < value it' -> mem set p = false)
  | None => forall p, lo <= p -> mem set p = false
  end.
Proof.
  intros H1 H2. cbv zeta. unfold next, value.
  set (j0 := if rd it then bj it + 1 else bj it).
  assert (Hj0 : j0 <= 64) by (unfold j0; destruct (rd it); [specialize (H1 eq_refl); lia|apply H2; reflexivity]).
  pose proof (scan_spec set (65 * (length set - wi it) + 1) (wi it) j0 Hj0 ltac:(lia)) as S.
  assert (Elo : (if rd it then N.of_nat (wi it) * 64 + bj it + 1 else N.of_nat (wi it) * 64 + bj it) = N.of_nat (wi it) * 64 + j0)
    by (unfold j0; destruct (rd it); lia).
  rewrite Elo. destruct (scan (65 * (length set - wi it) + 1) set (wi it) j0) as [[i' j']|]; cbn [wi bj rd].
  - destruct S as (A & B & C & D & E). repeat split; auto.
  - exact S.
Qed.

Theorem drain_spec set : forall fuel it, wf it -> (N.to_nat (N.of_nat (length set) * 64 + 1 - lo_of it) <= fuel)%nat ->
  let l := drain fuel set it in
  (forall p, In p l <-> lo_of it <= p /\ mem set p = true) /\ StronglySorted N.lt l /\ Forall (fun p => lo_of it <= p) l.
Proof.
  assert (Hb : forall p, mem set p = true -> p < N.of_nat (length set) * 64).
  { intros p Hp. destruct (N.ltb_spec p (N.of_nat (length set) * 64)); auto.
    rewrite (mem_beyond set (length set) 0 p) in Hp; [discriminate|lia|lia]. }
  induction fuel as [|f IH]; intros it [W1 W2] Hf; cbv zeta; cbn [drain].
  - split; [|split; constructor]. intros p; split; [intros []|]. intros [Hp Hm]. apply Hb in Hm. lia.
  - pose proof (next_spec set it W1 W2) as S. cbv zeta in S. fold (lo_of it) in S.
    destruct (next set it) as [it'|].
    + destruct S as (A & B & C & D & E).
      assert (W' : wf it') by (split; intros H; [auto|congruence]).
      assert (L' : lo_of it' = value it' + 1) by (unfold lo_of; rewrite A; reflexivity).
      pose proof (Hb _ C) as Hv.
      destruct (IH it' W' ltac:(rewrite L'; lia)) as (I1 & I2 & I3). rewrite L' in *.
      split; [|split].
      * intros p. cbn [In]. rewrite I1. split.
        -- intros [<- | [Hp Hm]]; split; auto; lia.
        -- intros [Hp Hm]. destruct (N.eq_dec (value it') p) as [->|Hne]; [left; auto|right].
           split; auto. destruct (N.ltb_spec p (value it')) as [Hlt|]; [|lia]. rewrite (E p Hp Hlt) in Hm. discriminate.
      * constructor; auto. eapply Forall_impl; [|exact I3]. cbv beta. intros; lia.
      * constructor; auto. eapply Forall_impl; [|exact I3]. cbv beta. intros; lia.
    + split; [|split; constructor]. intros p; split; [intros []|]. intros [Hp Hm]. rewrite (S p Hp) in Hm. discriminate.
Qed.

(* from a fresh iterator (i = 0, j = 0, read = false): exactly the members, ascending *)
Corollary iter_enumerates set :
  let l := drain (length set * 64 + 1) set {| wi := 0; bj := 0; rd := false |} in
  (forall p, In p l <-> mem set p = true) /\ StronglySorted N.lt l.
Proof.
  destruct (drain_spec set (length set * 64 + 1) {| wi := 0; bj := 0; rd := false |}) as (A & B & _).
  - split; cbn; intros; [discriminate|lia].
  - unfold lo_of, value; cbn [rd wi bj]. lia.
  - cbv zeta. split; auto. intros p. rewrite A. unfold lo_of, value; cbn [rd wi bj]. split; [tauto|]. intros; split; [lia|auto].
Qed.
Print Assumptions next_spec.
Print Assumptions iter_enumerates.
