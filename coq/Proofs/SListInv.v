(* C13 — listz.SList: the chain invariant and the refinement relation between the model and the sequence
   specification (from design-notes/proto/SList_heap_proto.v, adapted to the executable model). *)
From Coq Require Import List ZArith Arith Lia Bool Permutation.
From V Require Import Model.DList Model.SList Proofs.DListChains Proofs.DListRel.
Import ListNotations.

(* the chain from a through the nodes of l ends at b *)
Fixpoint seg (nxf : nat -> option nat) (a : option nat) (l : list nat) (b : option nat) : Prop :=
  match l with [] => a = b | x :: t => a = Some x /\ seg nxf (nxf x) t b end.

Lemma seg_app nxf a l1 l2 b : seg nxf a (l1 ++ l2) b <-> exists m, seg nxf a l1 m /\ seg nxf m l2 b.
Proof.
  revert a; induction l1 as [|x l1 IH]; intros a; cbn [app seg].
  - split; [intros H; exists a; auto|intros (m & -> & H); auto].
  - rewrite IH. split; [intros (H & m & H1 & H2); exists m; auto|intros (m & (H & H1) & H2); eauto].
Qed.
Lemma seg_frame nxf nxf' a l b : (forall x, In x l -> nxf' x = nxf x) -> seg nxf a l b -> seg nxf' a l b.
Proof.
  revert a; induction l as [|x l IH]; intros a Hf; cbn [seg]; auto. intros [-> H]. split; auto.
  rewrite Hf by (left; auto). apply IH; auto. intros y Hy. apply Hf. right; auto.
Qed.

Lemma walkn_seg nxf : forall pre a bf m, seg nxf a pre m ->
  walkn nxf (length pre) bf a = Some (match pre with [] => bf | _ => Some (last pre 0) end, m).
Proof.
  induction pre as [|x pre IH]; intros a bf m; cbn [seg length walkn].
  - intros ->. reflexivity.
  - intros [-> H]. rewrite (IH _ (Some x) m H). destruct pre; reflexivity.
Qed.

Record Inv (s : sl) (ids : list nat) : Prop := {
  i_seg : seg (nx s) (hd s) ids None;
  i_nodup : NoDup ids;
  i_tl : tl s = last_opt ids;
  i_ln : ln s = Z.of_nat (length ids);
  i_range : forall x, In x ids -> 2 <= x < fr s;
  i_det : forall x, ~ In x ids -> nx s x = None;        (* removed and never-inserted nodes: next = nil *)
  i_fr : 2 <= fr s
}.

Record RS (s : sl) (q : sspec) : Prop := {
  rs_inv : Inv s (sq q);
  rs_val : forall x, sv s x = qval q x;
  rs_fr : fr s = qfresh q
}.

Lemma last_opt_app l x : last_opt (l ++ [x]) = Some x.
Proof. unfold last_opt. rewrite rev_app_distr. reflexivity. Qed.
Lemma last_opt_cons_app (l : list nat) x y : last_opt (l ++ x :: y) = last_opt (x :: y).
Proof.
  unfold last_opt. rewrite rev_app_distr. destruct (rev (x :: y)) eqn:E; [|reflexivity].
  apply (f_equal (@length nat)) in E. rewrite rev_length in E. discriminate.
Qed.
Lemma last_opt_some (l : list nat) : l <> [] -> last_opt l = Some (last l 0).
Proof. intros H. rewrite (last_opt_last l 0). destruct l; [congruence|reflexivity]. Qed.

Lemma seg_next s ids A e B : Inv s ids -> ids = A ++ e :: B -> nx s e = first_opt B.
Proof.
  intros HI ->. pose proof (i_seg _ _ HI) as Hs. apply seg_app in Hs. destruct Hs as (m & _ & H2). cbn [seg] in H2.
  destruct H2 as [_ H2]. destruct B as [|b B']; cbn [seg first_opt] in *; [exact H2|destruct H2; auto].
Qed.

Lemma nx_spec s ids e : Inv s ids -> nx s e = succ_of e ids.
Proof.
  intros HI. destruct (in_dec Nat.eq_dec e ids) as [Hin|Hn].
  - destruct (in_split_first e ids Hin) as (A & B & E & HnA). rewrite (seg_next s ids A e B HI E). rewrite E.
    symmetry. apply succ_of_split. exact HnA.
  - rewrite (i_det _ _ HI e Hn). symmetry. apply succ_of_notin. exact Hn.
Qed.

Lemma hd_spec s ids : Inv s ids -> hd s = first_opt ids.
Proof. intros HI. pose proof (i_seg _ _ HI) as Hs. destruct ids; cbn [seg first_opt] in *; [exact Hs|destruct Hs; auto]. Qed.

Lemma ids_bound s ids : Inv s ids -> length ids <= fr s.
Proof.
  intros HI. rewrite <- (seq_length (fr s) 0). apply NoDup_incl_length; [apply (i_nodup _ _ HI)|].
  intros x Hin. apply in_seq. pose proof (i_range _ _ HI x Hin). lia.
Qed.
