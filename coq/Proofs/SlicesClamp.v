(* C14: SubSlice / Copy / Remove / Index / IndexFunc / Contains / ContainsFunc / Equal / Values on the heap:
   for every integer argument they never panic on a well-formed slice and return what the documented rule says
   (the plain list functions spec_sub, spec_copy, spec_remove, find_index, eqb_list). *)
From Coq Require Import List ZArith Bool Arith Lia.
From V Require Import Model.Slices Proofs.SlicesBase.
Import ListNotations.
Local Open Scope Z_scope.

Lemma skipn_window l o n k : skipn k (window l o n) = window l (o + k) (n - k).
Proof.
  unfold window. rewrite skipn_firstn_comm. rewrite skipn_skipn. reflexivity.
Qed.
Lemma window_beyond l o n : (length l <= o)%nat -> window l o n = [].
Proof. intros H. unfold window. rewrite skipn_all2 by exact H. apply firstn_nil. Qed.
Lemma nil_vals m : slice_vals m nil_slice = [].
Proof. reflexivity. Qed.
Lemma nil_wfs m s : wfs m s -> wfs m nil_slice.
Proof. intros (H1 & _). unfold wfs, nil_slice. cbn [arr off len cap]. repeat split; lia. Qed.

(* s[a:b] inside the capacity *)
Lemma reslice_ok m s a b : wfs m s -> 0 <= a -> a <= b -> b <= Z.of_nat (cap s) ->
  exists r, reslice s a b = Some r /\ wfs m r /\
    r = mkS (arr s) (off s + Z.to_nat a) (Z.to_nat (b - a)) (cap s - Z.to_nat a) /\
    slice_vals m r = window (arr_of m (arr s)) (off s + Z.to_nat a) (Z.to_nat (b - a)).
Proof.
  intros (W1 & W2 & W3) Ha Hab Hb. unfold reslice.
  destruct (Z.leb_spec 0 a); [|lia]. destruct (Z.leb_spec a b); [|lia]. destruct (Z.leb_spec b (Z.of_nat (cap s))); [|lia].
  cbn [andb]. eexists. split; [reflexivity|]. split; [|split; reflexivity].
  unfold wfs. cbn [arr off len cap]. repeat split; lia.
Qed.

(* ---------------------------------------------------------------- SubSlice *)
Theorem go_subslice_spec m s start end_ : wfs m s ->
  exists r, go_subslice s start end_ = Some r /\ wfs m r /\
    slice_vals m r = spec_sub (slice_vals m s) start end_.
Proof.
  intros W. pose proof W as (W1 & W2 & W3). pose proof (slice_vals_length m s W) as Hl.
  unfold go_subslice, sub_bounds, spec_sub. rewrite Hl. set (l := Z.of_nat (len s)).
  destruct (Z.gtb_spec start l) as [H1|H1].
  - exists nil_slice. split; [reflexivity|]. split; [eapply nil_wfs; exact W|]. rewrite nil_vals. symmetry.
    apply window_beyond. rewrite Hl. unfold l in *. lia.
  - set (a := if start <? 0 then 0 else start).
    assert (Ea : Z.min (Z.max start 0) l = a) by (unfold a; destruct (Z.ltb_spec start 0); lia).
    rewrite Ea. set (b := if (end_ <? 0) || (end_ >? l) then l else end_).
    assert (Hb : 0 <= b <= l) by (unfold b; destruct (Z.ltb_spec end_ 0), (Z.gtb_spec end_ l); cbn [orb]; unfold l; lia).
    assert (Ha : 0 <= a <= l) by (unfold a; destruct (Z.ltb_spec start 0); unfold l; lia).
    destruct (Z.geb_spec a b) as [H2|H2].
    + exists nil_slice. split; [reflexivity|]. split; [eapply nil_wfs; exact W|]. rewrite nil_vals.
      replace (Z.to_nat (b - a)) with 0%nat by lia. reflexivity.
    + destruct (reslice_ok m s a b W) as (r & E & Wr & _ & V); try (unfold l in *; lia).
      exists r. split; [exact E|]. split; [exact Wr|]. rewrite V. unfold slice_vals. symmetry.
      apply window_window. unfold l in *. lia.
Qed.

(* ---------------------------------------------------------------- Copy *)
Lemma append_all_nil m vs : vs <> [] ->
  append_all m nil_slice vs = (m ++ [vs], mkS (length m) 0 (length vs) (length vs)).
Proof. intros H. destruct vs as [|v vs]; [congruence|]. reflexivity. Qed.

Theorem go_copy_spec m s start length : wfs m s ->
  exists m' r, go_copy m s start length = Some (m', r) /\
    slice_vals m' r = spec_copy (slice_vals m s) start length /\
    (r = nil_slice \/ arr r = List.length m) /\                             (* nil or a new array *)
    (m' = m \/ exists x, m' = m ++ [x]).                                    (* the argument arrays are untouched *)
Proof.
  intros W. pose proof W as (W1 & W2 & W3). pose proof (slice_vals_length m s W) as Hl.
  unfold go_copy, copy_bounds, spec_copy. rewrite Hl. set (l := Z.of_nat (len s)).
  destruct (Z.eqb_spec l 0) as [H0|H0]; cbn [orb].
  { exists m, nil_slice. split; [reflexivity|]. split; [|split; auto]. rewrite nil_vals. symmetry. apply window_beyond. rewrite Hl. lia. }
  destruct (Z.geb_spec start l) as [H1|H1]; cbn [orb].
  { exists m, nil_slice. split; [reflexivity|]. split; [|split; auto]. rewrite nil_vals. symmetry. apply window_beyond. rewrite Hl. unfold l in *. lia. }
  destruct (Z.eqb_spec length 0) as [H2|H2].
  { exists m, nil_slice. split; [reflexivity|]. split; [|split; auto]. rewrite nil_vals. subst length.
    set (a := Z.min (Z.max start 0) l). assert (0 <= a <= l) by (unfold a, l in *; lia).
    destruct (Z.gtb_spec 0 (l - a)); [lia|]. cbn [Z.ltb orb Z.to_nat]. reflexivity. }
  set (a := if start <? 0 then 0 else start).
  assert (Ea : Z.min (Z.max start 0) l = a) by (unfold a; destruct (Z.ltb_spec start 0); lia).
  rewrite Ea. assert (Ha : 0 <= a < l) by (unfold a; destruct (Z.ltb_spec start 0); unfold l in *; lia).
  set (n := if (length <? 0) || (length >? l - a) then l - a else length).
  assert (Hn : 1 <= n <= l - a) by (unfold n; destruct (Z.ltb_spec length 0), (Z.gtb_spec length (l - a)); cbn [orb]; lia).
  destruct (reslice_ok m s a (a + n) W) as (c & E & Wc & Ec & V); try (unfold l in *; lia).
  rewrite E. rewrite (slice_vals_chk_wf _ _ Wc). rewrite V.
  replace (Z.to_nat (a + n - a)) with (Z.to_nat n) by lia.
  set (vs := window (arr_of m (arr s)) (off s + Z.to_nat a) (Z.to_nat n)).
  assert (Lv : List.length vs = Z.to_nat n) by (apply window_length; unfold l in *; lia).
  assert (Hne : vs <> []) by (intros Hv; rewrite Hv in Lv; cbn in Lv; lia).
  rewrite (append_all_nil m vs Hne). eexists _, _. split; [reflexivity|]. split; [|split].
  - unfold slice_vals at 1. cbn [arr off len]. rewrite arr_of_app_new. rewrite window_all.
    unfold vs, slice_vals. symmetry. apply window_window. unfold l in *. lia.
  - right. reflexivity.
  - right. eexists. reflexivity.
Qed.

(* ---------------------------------------------------------------- Values *)
Theorem go_values_spec fn m ss :
  let '(m', r) := go_values fn m ss in
  slice_vals m' r = map fn (concat (map (slice_vals m) ss)) /\ arr r = List.length m /\
  (exists x, m' = m ++ [x]).                                                (* a new array; the arguments are untouched *)
Proof.
  unfold go_values. split; [|split; [reflexivity|]].
  - unfold slice_vals at 1. cbn [arr off len]. rewrite arr_of_app_new. apply window_all.
  - eexists. reflexivity.
Qed.

(* ---------------------------------------------------------------- Remove *)
Theorem go_remove_spec m s index : wfs m s ->
  exists m' r v ok, go_remove m s index = Some (m', r, v, ok) /\
    (slice_vals m' r, v, ok) = spec_remove (slice_vals m s) index /\ wfs m' r /\
    List.length m' = List.length m /\
    (ok = false -> m' = m /\ r = s) /\
    (ok = true -> r = mkS (arr s) (off s) (Nat.pred (len s)) (cap s) /\
                  slice_vals m' s = slice_vals m' r ++ [0]).                 (* the vacated last slot is zeroed *)
Proof.
  intros W. pose proof W as (W1 & W2 & W3). pose proof (slice_vals_length m s W) as Hl.
  unfold go_remove, spec_remove. rewrite Hl. set (l := Z.of_nat (len s)).
  destruct (Z.ltb_spec index 0) as [H0|H0]; cbn [orb].
  { destruct (Z.leb_spec 0 index); [lia|]. cbn [andb]. exists m, s, 0, false. repeat split; auto; discriminate. }
  destruct (Z.geb_spec index l) as [H1|H1].
  { destruct (Z.ltb_spec index l); [lia|]. rewrite andb_false_r. exists m, s, 0, false. repeat split; auto; discriminate. }
  destruct (Z.leb_spec 0 index); [|lia]. destruct (Z.ltb_spec index l); [|lia]. cbn [andb].
  set (i := Z.to_nat index). assert (Hi : (i < len s)%nat) by (unfold i, l in *; lia).
  rewrite (sread_wf m s i W Hi).
  rewrite (nth_error_some_nth (slice_vals m s) i 0) by (rewrite Hl; exact Hi).
  set (A := arr_of m (arr s)). set (last := Nat.pred (len s)).
  assert (Elast : Z.to_nat (l - 1) = last) by (unfold l, last; lia).
  (* the shifted array *)
  set (A1 := if index <? l - 1 then splice A (off s + i) (window A (off s + S i) (len s - S i)) else A).
  assert (E1 : (if index <? l - 1
                then match reslice s index l, reslice s (index + 1) l with
                     | Some d, Some src => builtin_copy m d src | _, _ => None end
                else Some m) = Some (set_arr m (arr s) A1)).
  { unfold A1. destruct (Z.ltb_spec index (l - 1)) as [Hlt|Hlt].
    - destruct (reslice_ok m s index l W) as (d & Ed & Wd & Rd & _); try (unfold l in *; lia).
      destruct (reslice_ok m s (index + 1) l W) as (src & Es & Ws & Rs & Vs); try (unfold l in *; lia).
      rewrite Ed, Es. unfold builtin_copy. rewrite (slice_vals_chk_wf _ _ Ws). rewrite Vs. subst d src. cbn [arr off len cap].
      f_equal. f_equal. fold A. fold i.
      replace (off s + Z.to_nat (index + 1))%nat with (off s + S i)%nat by (unfold i; lia).
      replace (Z.to_nat (l - (index + 1))) with (len s - S i)%nat by (unfold i, l; lia).
      f_equal. rewrite firstn_all2; [reflexivity|]. rewrite window_length by (fold A in W3; lia). unfold l, i. lia.
    - symmetry. f_equal. apply set_arr_same. }
  rewrite E1.
  assert (LA1 : List.length A1 = List.length A).
  { unfold A1. destruct (index <? l - 1); [|reflexivity]. apply splice_length. rewrite window_length by (fold A in W3; lia). fold A in W3. lia. }
  unfold swrite. rewrite Elast. destruct (Nat.ltb_spec last (len s)) as [_|Hx]; [|unfold last in Hx; lia].
  destruct (reslice_ok (set_arr m (arr s) A1) s 0 (l - 1)) as (r & Er & Wr & Rr & _); try (unfold l in *; lia).
  { unfold wfs. rewrite set_arr_length, arr_of_set_same by exact W1. rewrite LA1. fold A in W3. repeat split; lia. }
  rewrite Er. rewrite arr_of_set_same by exact W1.
  set (A2 := upd A1 (off s + last) 0).
  set (m2 := set_arr (set_arr m (arr s) A1) (arr s) A2).
  assert (Ea2 : arr_of m2 (arr s) = A2) by (unfold m2; apply arr_of_set_same; rewrite set_arr_length; exact W1).
  assert (Er' : r = mkS (arr s) (off s) last (cap s)).
  { rewrite Rr. cbn [Z.to_nat]. rewrite Nat.add_0_r, Nat.sub_0_r. f_equal. lia. }
  (* the values left of the hole, and right of it shifted by one *)
  assert (Vres : window A2 (off s) last = firstn i (slice_vals m s) ++ skipn (S i) (slice_vals m s)).
  { unfold A2. rewrite window_upd_after by lia. unfold slice_vals. fold A.
    rewrite window_firstn by lia. rewrite skipn_window.
    replace last with (i + (last - i))%nat at 1 by (unfold last; lia). rewrite window_app2. unfold A1.
    destruct (Z.ltb_spec index (l - 1)) as [Hlt|Hlt].
    - f_equal.
      + apply splice_window_before; fold A in W3; lia.
      + replace (last - i)%nat with (List.length (window A (off s + S i) (len s - S i)))
          by (rewrite window_length by (fold A in W3; lia); unfold last; lia).
        apply splice_window. fold A in W3. lia.
    - replace (last - i)%nat with 0%nat by (unfold last, i, l in *; lia).
      replace (len s - S i)%nat with 0%nat by (unfold last, i, l in *; lia). rewrite !window_0. reflexivity. }
  exists m2, r, (nth i (slice_vals m s) 0), true. split; [reflexivity|]. repeat split.
  - f_equal. f_equal. unfold slice_vals at 1. rewrite Er'. cbn [arr off len]. rewrite Ea2. exact Vres.
  - destruct Wr as (R1 & R2 & R3). unfold m2. rewrite set_arr_length. exact R1.
  - destruct Wr as (R1 & R2 & R3). exact R2.
  - rewrite Er'. cbn [arr off cap]. rewrite Ea2. unfold A2. rewrite upd_length, LA1. fold A in W3. exact W3.
  - unfold m2. rewrite !set_arr_length. reflexivity.
  - discriminate.
  - discriminate.
  - exact Er'.
  - unfold slice_vals. rewrite Er'. cbn [arr off len]. rewrite Ea2.
    replace (len s) with (S last) by (unfold last; lia). unfold A2.
    rewrite window_upd_snoc by (rewrite LA1; fold A in W3; unfold last; lia).
    f_equal. symmetry. apply window_upd_after. lia.
Qed.

(* ---------------------------------------------------------------- Index / IndexFunc / Contains / ContainsFunc *)
Lemma idx_loop_spec f m s : wfs m s -> forall n i, (i + n = len s)%nat ->
  idx_loop f n m s i = Some (find_index f (skipn i (slice_vals m s)) (Z.of_nat i)).
Proof.
  intros W. pose proof (slice_vals_length m s W) as Hl. induction n as [|n IH]; intros i Hn.
  - cbn [idx_loop]. rewrite skipn_all2 by lia. reflexivity.
  - cbn [idx_loop]. rewrite (sread_wf m s i W) by lia.
    destruct (nth_error (slice_vals m s) i) as [x|] eqn:Ex; [|apply nth_error_None in Ex; lia].
    pose proof (window_cons (slice_vals m s) i n x Ex) as Hc. unfold window in Hc.
    rewrite firstn_all2 in Hc by (rewrite skipn_length; lia).
    rewrite (firstn_all2 (n:=n)) in Hc by (rewrite skipn_length; lia). rewrite Hc. cbn [find_index].
    destruct (f x); [reflexivity|]. rewrite IH by lia. f_equal. f_equal. lia.
Qed.
Theorem go_index_func_spec f m s : wfs m s ->
  go_index_func f m s = Some (find_index f (slice_vals m s) 0).
Proof. intros W. unfold go_index_func. rewrite (idx_loop_spec f m s W (len s) 0%nat) by lia. reflexivity. Qed.
Theorem go_index_spec m s v : wfs m s -> go_index m s v = Some (find_index (Z.eqb v) (slice_vals m s) 0).
Proof. intros W. apply go_index_func_spec. exact W. Qed.

Lemma find_index_range f l i : find_index f l i = -1 \/ i <= find_index f l i < i + Z.of_nat (length l).
Proof.
  revert i; induction l as [|x l IH]; intros i; cbn [find_index length]; [left; reflexivity|].
  destruct (f x); [right; lia|]. destruct (IH (i + 1)) as [H|H]; [left; exact H|right; lia].
Qed.
Lemma find_index_exists f l i : 0 <= i -> (find_index f l i >=? 0) = existsb f l.
Proof.
  revert i; induction l as [|x l IH]; intros i Hi; cbn [find_index existsb]; [reflexivity|].
  destruct (f x); cbn [orb]; [destruct (Z.geb_spec i 0); [reflexivity|lia]|]. apply IH. lia.
Qed.
(* what Index returns: the position of the first element satisfying f, -1 when there is none *)
Lemma find_index_first f l : let r := find_index f l 0 in
  (r = -1 /\ forall x, In x l -> f x = false) \/
  (0 <= r < Z.of_nat (length l) /\ f (nth (Z.to_nat r) l 0) = true /\ forall j, (j < Z.to_nat r)%nat -> f (nth j l 0) = false).
Proof.
  cbv zeta. assert (G : forall l i, 0 <= i ->
    (find_index f l i = -1 /\ forall x, In x l -> f x = false) \/
    (i <= find_index f l i < i + Z.of_nat (length l) /\ f (nth (Z.to_nat (find_index f l i - i)) l 0) = true /\
       forall j, (j < Z.to_nat (find_index f l i - i))%nat -> f (nth j l 0) = false)).
  { clear l. induction l as [|x l IH]; intros i Hi; cbn [find_index]; [left; split; [reflexivity|intros ? []]|].
    destruct (f x) eqn:Ef.
    - right. rewrite Z.sub_diag. cbn [Z.to_nat nth length]. repeat split; auto; lia.
    - destruct (IH (i + 1) ltac:(lia)) as [(E & H)|(R & H1 & H2)].
      + left. split; [exact E|]. intros y [<-|Hy]; auto.
      + right. cbn [length]. split; [lia|].
        replace (Z.to_nat (find_index f l (i + 1) - i)) with (S (Z.to_nat (find_index f l (i + 1) - (i + 1)))) by lia.
        cbn [nth]. split; [exact H1|]. intros [|j] Hj; [exact Ef|]. apply H2. lia. }
  specialize (G l 0 ltac:(lia)). rewrite Z.sub_0_r in G. destruct G as [G|G]; [left; exact G|right].
  destruct G as (R & G). split; [lia|exact G].
Qed.

Theorem go_contains_func_spec f m s : wfs m s -> go_contains_func f m s = Some (existsb f (slice_vals m s)).
Proof.
  intros W. unfold go_contains_func. rewrite (go_index_func_spec f m s W). f_equal. apply find_index_exists. lia.
Qed.
Theorem go_contains_spec m s v : wfs m s -> go_contains m s v = Some (memz v (slice_vals m s)).
Proof. intros W. apply go_contains_func_spec. exact W. Qed.

(* ---------------------------------------------------------------- Equal *)
Lemma eqb_list_length a b : eqb_list a b = true -> length a = length b.
Proof. intros H. apply eqb_list_eq in H. congruence. Qed.
Lemma eq_loop_spec m s1 s2 : wfs m s1 -> wfs m s2 -> len s1 = len s2 -> forall n i, (i + n = len s1)%nat ->
  eq_loop n m s1 s2 i = Some (eqb_list (skipn i (slice_vals m s1)) (skipn i (slice_vals m s2))).
Proof.
  intros W1 W2 He. pose proof (slice_vals_length m s1 W1) as L1. pose proof (slice_vals_length m s2 W2) as L2.
  induction n as [|n IH]; intros i Hn.
  - cbn [eq_loop]. rewrite !skipn_all2 by lia. reflexivity.
  - cbn [eq_loop]. rewrite (sread_wf m s1 i W1), (sread_wf m s2 i W2) by lia.
    destruct (nth_error (slice_vals m s1) i) as [x|] eqn:Ex; [|apply nth_error_None in Ex; lia].
    destruct (nth_error (slice_vals m s2) i) as [y|] eqn:Ey; [|apply nth_error_None in Ey; lia].
    pose proof (window_cons _ i n x Ex) as Hx. pose proof (window_cons _ i n y Ey) as Hy. unfold window in Hx, Hy.
    rewrite firstn_all2 in Hx by (rewrite skipn_length; lia). rewrite (firstn_all2 (n:=n)) in Hx by (rewrite skipn_length; lia).
    rewrite firstn_all2 in Hy by (rewrite skipn_length; lia). rewrite (firstn_all2 (n:=n)) in Hy by (rewrite skipn_length; lia).
    rewrite Hx, Hy. cbn [eqb_list]. destruct (x =? y); cbn [andb]; [apply IH; lia|reflexivity].
Qed.
Theorem go_equal_spec m s1 s2 : wfs m s1 -> wfs m s2 ->
  go_equal m s1 s2 = Some (eqb_list (slice_vals m s1) (slice_vals m s2)).
Proof.
  intros W1 W2. pose proof (slice_vals_length m s1 W1) as L1. pose proof (slice_vals_length m s2 W2) as L2.
  unfold go_equal. destruct (Nat.eqb_spec (len s1) (len s2)) as [He|Hne]; cbn [negb].
  - destruct W2 as (A1 & A2 & A3).
    destruct (reslice_ok m s2 0 (Z.of_nat (len s1)) (conj A1 (conj A2 A3))) as (r & E & Wr & Rr & _); try lia.
    rewrite E. assert (Er : r = s2).
    { rewrite Rr. destruct s2 as [a o n c]. cbn [arr off len cap Z.to_nat] in *. f_equal; lia. }
    clear Rr. subst r. rewrite (eq_loop_spec m s1 s2 W1 (conj A1 (conj A2 A3)) He (len s1) 0%nat) by lia. reflexivity.
  - f_equal. symmetry. apply not_true_is_false. intros H. apply eqb_list_length in H. lia.
Qed.
