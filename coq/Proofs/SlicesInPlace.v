(* C14: the swap-to-front partition of the InPlace variants (DiffInPlaceFirst, IntersectInPlaceFirst, UniqueInPlace,
   UniqueByKeyInPlace, FilterInPlace).  From design-notes/proto/FilterInPlace_proto.v and UniqueInPlace_proto.v, carried
   over to the checked loop [ip_loop] (every s[i] / s[remain] is a nth_error) and to the heap. *)
From Coq Require Import List ZArith Bool Arith Lia Permutation.
From V Require Import Model.Slices Proofs.SlicesBase.
Import ListNotations.

Section InPlace.
Variable St : Type.
Variable step : St -> Z -> St * bool.
Local Notation kept := (Slices.kept St step).
Local Notation rejected := (Slices.rejected St step).
Local Notation ip_loop := (Slices.ip_loop St step).
Local Notation in_place := (Slices.in_place St step).

(* swapping the first of a block of rejected elements with the element right after the block *)
Lemma swap_block (K X R : list Z) (d1 x : Z) :
  upd (upd (K ++ d1 :: X ++ x :: R) (length K) x) (length K + S (length X)) d1 = K ++ x :: X ++ d1 :: R.
Proof.
  rewrite upd_app_r0. cbn [upd]. rewrite upd_app_r. cbn [upd]. f_equal. f_equal.
  rewrite upd_app_r0. reflexivity.
Qed.

(* invariant: window = kept (in original order) ++ rejected-so-far (some order) ++ untouched rest *)
Lemma ip_loop_spec : forall rest st K X, exists X',
  ip_loop (length rest) st (K ++ X ++ rest) (length K + length X) (length K) =
    Some (K ++ kept st rest ++ X', length K + length (kept st rest)) /\
  Permutation X' (X ++ rejected st rest).
Proof.
  induction rest as [|x rest IH]; intros st K X.
  - exists X. cbn [Slices.ip_loop length Slices.kept Slices.rejected app]. rewrite !app_nil_r, Nat.add_0_r. split; [reflexivity|apply Permutation_refl].
  - cbn [length Slices.ip_loop].
    assert (Ex : nth_error (K ++ X ++ x :: rest) (length K + length X) = Some x).
    { rewrite app_assoc. rewrite <- app_length. rewrite nth_error_app_r0. reflexivity. }
    rewrite Ex. cbn [Slices.kept Slices.rejected]. destruct (step st x) as [st' b] eqn:Ep. destruct b.
    + destruct X as [|d1 X0].
      * cbn [app length]. cbn [app length] in Ex. rewrite Nat.add_0_r in *. rewrite Ex.
        replace (upd (upd (K ++ x :: rest) (length K) x) (length K) x) with (K ++ x :: rest)
          by (rewrite !upd_app_r0; reflexivity).
        specialize (IH st' (K ++ [x]) []). destruct IH as (X' & E & P). exists X'.
        rewrite app_length in E. cbn [length app] in E. rewrite Nat.add_0_r in E.
        rewrite <- app_assoc in E. cbn [app] in E. replace (length K + 1) with (S (length K)) in E by lia.
        rewrite E. split; [|exact P]. rewrite <- app_assoc. cbn [app length]. f_equal. f_equal. lia.
      * cbn [length app].
        assert (Ed : nth_error (K ++ d1 :: X0 ++ x :: rest) (length K) = Some d1) by (rewrite nth_error_app_r0; reflexivity).
        rewrite Ed. rewrite swap_block.
        specialize (IH st' (K ++ [x]) (X0 ++ [d1])). destruct IH as (X' & E & P). exists X'.
        rewrite !app_length in E. cbn [length] in E.
        replace (K ++ x :: X0 ++ d1 :: rest) with ((K ++ [x]) ++ (X0 ++ [d1]) ++ rest) by (rewrite <- !app_assoc; reflexivity).
        replace (S (length K + S (length X0))) with (length K + 1 + (length X0 + 1)) by lia.
        replace (S (length K)) with (length K + 1) by lia. rewrite E. split.
        -- rewrite <- app_assoc. cbn [app length]. f_equal. f_equal. lia.
        -- eapply Permutation_trans; [exact P|].
           change (d1 :: X0 ++ rejected st' rest) with ((d1 :: X0) ++ rejected st' rest).
           apply Permutation_app_tail. apply Permutation_sym. apply Permutation_cons_append.
    + specialize (IH st' K (X ++ [x])). destruct IH as (X' & E & P). exists X'.
      rewrite app_length in E. cbn [length] in E.
      replace (K ++ X ++ x :: rest) with (K ++ (X ++ [x]) ++ rest) by (rewrite <- !app_assoc; reflexivity).
      replace (S (length K + length X)) with (length K + (length X + 1)) by lia. rewrite E. split; [reflexivity|].
      eapply Permutation_trans; [exact P|]. rewrite <- app_assoc. reflexivity.
Qed.

Lemma kept_rejected_perm : forall s st, Permutation (kept st s ++ rejected st s) s.
Proof.
  induction s as [|a s IH]; intros st; cbn [Slices.kept Slices.rejected]; [constructor|].
  destruct (step st a) as [st' b]. destruct b; cbn [app].
  - constructor. apply IH.
  - eapply Permutation_trans; [apply Permutation_sym, Permutation_middle|]. constructor. apply IH.
Qed.
Lemma kept_length_le : forall s st, length (kept st s) <= length s.
Proof.
  induction s as [|a s IH]; intros st; cbn [Slices.kept]; [lia|].
  destruct (step st a) as [st' b]. destruct b; cbn [length]; specialize (IH st'); lia.
Qed.

(* the loop on a whole window: never panics; the first [r] elements are what a plain pass keeps, in the original
   order; the window is a permutation of what it was *)
Theorem ip_loop_whole st0 (w : list Z) : exists w',
  ip_loop (length w) st0 w 0 0 = Some (w', length (kept st0 w)) /\
  firstn (length (kept st0 w)) w' = kept st0 w /\ Permutation w' w /\ length w' = length w.
Proof.
  destruct (ip_loop_spec w st0 [] []) as (X' & E & P). cbn [app length Nat.add] in E.
  exists (kept st0 w ++ X'). split; [exact E|]. split; [|split].
  - rewrite firstn_app, firstn_all, Nat.sub_diag. cbn [firstn]. apply app_nil_r.
  - cbn [app] in P. eapply Permutation_trans; [apply Permutation_app_head; exact P|]. apply kept_rejected_perm.
  - cbn [app] in P. rewrite app_length. rewrite (Permutation_length P).
    rewrite <- app_length. apply Permutation_length. apply kept_rejected_perm.
Qed.

(* on the heap: s[:remain] holds the kept elements; s's window is permuted; nothing else moves *)
Theorem in_place_spec st0 m s : wfs m s ->
  exists m' r, in_place st0 m s = Some (m', r) /\
    r = mkS (arr s) (off s) (length (kept st0 (slice_vals m s))) (cap s) /\
    slice_vals m' r = kept st0 (slice_vals m s) /\
    Permutation (slice_vals m' s) (slice_vals m s) /\
    wfs m' r /\ length m' = length m /\
    (forall a, a <> arr s -> arr_of m' a = arr_of m a) /\
    length (arr_of m' (arr s)) = length (arr_of m (arr s)) /\
    (forall o n, o + n <= off s \/ off s + len s <= o -> window (arr_of m' (arr s)) o n = window (arr_of m (arr s)) o n).
Proof.
  intros W. pose proof W as (W1 & W2 & W3). unfold Slices.in_place. rewrite (slice_vals_chk_wf _ _ W).
  pose proof (slice_vals_length m s W) as Hl.
  destruct (ip_loop_whole st0 (slice_vals m s)) as (w' & E & F & P & L). rewrite Hl in E. rewrite E.
  set (r := length (kept st0 (slice_vals m s))) in *.
  assert (Hr : r <= len s) by (unfold r; rewrite <- Hl; apply kept_length_le).
  assert (Ea : arr_of (set_arr m (arr s) (splice (arr_of m (arr s)) (off s) w')) (arr s) = splice (arr_of m (arr s)) (off s) w')
    by (apply arr_of_set_same; exact W1).
  assert (Ew : window (splice (arr_of m (arr s)) (off s) w') (off s) (len s) = w').
  { rewrite <- Hl, <- L. apply splice_window. lia. }
  eexists _, _. split; [reflexivity|]. split; [reflexivity|]. repeat split.
  - unfold slice_vals at 1. cbn [arr off len]. rewrite Ea. rewrite <- (window_firstn _ _ (len s)) by exact Hr. rewrite Ew. exact F.
  - unfold slice_vals at 1. rewrite Ea, Ew. exact P.
  - cbn [arr]. rewrite set_arr_length. exact W1.
  - cbn [len cap]. lia.
  - cbn [arr off cap]. rewrite Ea. rewrite splice_length by lia. exact W3.
  - apply set_arr_length.
  - intros a Ha. apply arr_of_set_other. congruence.
  - rewrite Ea. apply splice_length. lia.
  - intros o n [H|H]; rewrite Ea.
    + apply splice_window_before; lia.
    + apply splice_window_after; lia.
Qed.
End InPlace.
