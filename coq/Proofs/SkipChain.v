(* C02 — one sorted chain and the top-down searches, for an arbitrary total-order comparator.
   Port of design-notes/proto/SkipList_levels_proto.v / SkipListRemove_proto.v from (Z, <) to (K, cmp). *)
From Coq Require Import List ZArith Lia Bool Arith Sorted.
From V Require Import Gen.SkipConsts Model.Skip Proofs.SkipLevel.
Import ListNotations.

Section Chain.
Variable K : Type.
Variable cmp : K -> K -> comparison.
Hypothesis cmp_eq : forall a b, cmp a b = Eq -> a = b.
Hypothesis cmp_antisym : forall a b, cmp b a = CompOpp (cmp a b).
Hypothesis cmp_trans : forall a b c, cmp a b = Lt -> cmp b c = Lt -> cmp a c = Lt.

Local Notation keqb := (keqb K cmp).
Local Notation kltb := (kltb K cmp).
Local Notation after := (after K cmp).
Local Notation through := (through K cmp).
Local Notation nexts := (nexts K cmp).
Local Notation walk := (walk K cmp).
Local Notation search := (search K cmp).
Local Notation rsearch := (rsearch K cmp).
Local Notation ins_after := (ins_after K cmp).
Local Notation splice := (splice K cmp).
Local Notation unsplice := (unsplice K cmp).
Local Notation shrink := (shrink K).

Definition lt (a b : K) : Prop := cmp a b = Lt.
Definition Ksorted (l : list K) : Prop := StronglySorted lt l.

(* ---- the order ---- *)
Lemma cmp_refl a : cmp a a = Eq.
Proof. pose proof (cmp_antisym a a) as H. destruct (cmp a a); cbn in H; congruence. Qed.
Lemma lt_irrefl a : cmp a a = Lt -> False.
Proof. rewrite cmp_refl. discriminate. Qed.
Lemma cmp_gt a b : cmp a b = Gt -> cmp b a = Lt.
Proof. intros H. rewrite (cmp_antisym a b), H. reflexivity. Qed.
Lemma cmp_lt_gt a b : cmp a b = Lt -> cmp b a = Gt.
Proof. intros H. rewrite (cmp_antisym a b), H. reflexivity. Qed.
Lemma kltb_true a b : kltb a b = true -> cmp a b = Lt.
Proof. unfold Skip.kltb. destruct (cmp a b); congruence. Qed.
Lemma kltb_false a b : kltb a b = false -> a = b \/ cmp b a = Lt.
Proof. unfold Skip.kltb. destruct (cmp a b) eqn:E; try congruence; intros _; [left; apply cmp_eq; auto|right; apply cmp_gt; auto]. Qed.
Lemma keqb_true a b : keqb a b = true -> a = b.
Proof. unfold Skip.keqb. destruct (cmp a b) eqn:E; try congruence. intros _. apply cmp_eq; auto. Qed.
Lemma keqb_false a b : keqb a b = false -> cmp a b = Lt \/ cmp b a = Lt.
Proof. unfold Skip.keqb. destruct (cmp a b) eqn:E; try congruence; intros _; [left; auto|right; apply cmp_gt; auto]. Qed.
Lemma keqb_refl a : keqb a a = true.
Proof. unfold Skip.keqb. rewrite cmp_refl. reflexivity. Qed.
Lemma neq_cases a b : a <> b -> cmp a b = Lt \/ cmp b a = Lt.
Proof. intros H. destruct (cmp a b) eqn:E; [exfalso; apply H, cmp_eq; auto|left; auto|right; apply cmp_gt; auto]. Qed.
Lemma nlt_cases a b : cmp a b <> Lt -> a = b \/ cmp b a = Lt.
Proof. intros H. destruct (cmp a b) eqn:E; [left; apply cmp_eq; auto|congruence|right; apply cmp_gt; auto]. Qed.

(* decision procedure for goals that follow from the strict-total-order axioms *)
Ltac ord_prep :=
  repeat match goal with
  | H : Skip.kltb _ _ _ _ = true |- _ => apply kltb_true in H
  | H : Skip.kltb _ _ _ _ = false |- _ => apply kltb_false in H; destruct H
  | H : Skip.keqb _ _ _ _ = true |- _ => apply keqb_true in H
  | H : Skip.keqb _ _ _ _ = false |- _ => apply keqb_false in H; destruct H
  | H : lt _ _ |- _ => unfold lt in H
  | H : cmp _ _ = Eq |- _ => apply cmp_eq in H
  | H : cmp _ _ = Gt |- _ => apply cmp_gt in H
  | H : cmp _ _ <> Lt |- _ => apply nlt_cases in H; destruct H
  | H : ~ lt _ _ |- _ => unfold lt in H
  | H : @eq K _ _ -> False |- _ => apply neq_cases in H; destruct H
  end; subst.
Ltac ord_sat :=
  repeat match goal with
  | H1 : cmp ?a ?b = Lt, H2 : cmp ?b ?c = Lt |- _ =>
      lazymatch goal with
      | _ : cmp a c = Lt |- _ => fail
      | _ => pose proof (cmp_trans a b c H1 H2)
      end
  end.
Ltac ord_false :=
  try discriminate; ord_prep; try discriminate; ord_sat;
  match goal with
  | H : cmp ?a ?a = Lt |- _ => exact (lt_irrefl a H)
  | H : ?a <> ?a |- _ => exact (H eq_refl)
  end.
Ltac ord :=
  unfold lt;
  lazymatch goal with
  | |- False => ord_false
  | |- cmp ?a ?b = Lt => let E := fresh "E" in destruct (cmp a b) eqn:E; [exfalso; ord_false|reflexivity|exfalso; ord_false]
  | |- cmp ?a ?b = Eq => let E := fresh "E" in destruct (cmp a b) eqn:E; [reflexivity|exfalso; ord_false|exfalso; ord_false]
  | |- cmp ?a ?b = Gt => let E := fresh "E" in destruct (cmp a b) eqn:E; [exfalso; ord_false|exfalso; ord_false|reflexivity]
  | |- Skip.kltb _ _ ?a ?b = _ => let E := fresh "E" in unfold Skip.kltb; destruct (cmp a b) eqn:E; try reflexivity; exfalso; ord_false
  | |- Skip.keqb _ _ ?a ?b = _ => let E := fresh "E" in unfold Skip.keqb; destruct (cmp a b) eqn:E; try reflexivity; exfalso; ord_false
  | |- @eq K ?a ?b => let E := fresh "E" in destruct (cmp a b) eqn:E; [apply cmp_eq; exact E|exfalso; ord_false|exfalso; ord_false]
  | |- ~ _ => let H := fresh "H" in intros H; ord_false
  end.

(* ---- facts about one sorted chain ---- *)
Lemma after_notin c l : ~ In c l -> after c l = [].
Proof.
  induction l as [|x t IH]; cbn [Skip.after In]; intros H; auto.
  destruct (keqb x c) eqn:E; [apply keqb_true in E; tauto|]. apply IH. tauto.
Qed.

Lemma through_after c l : In c l -> through c l ++ after c l = l.
Proof.
  induction l as [|x t IH]; cbn [Skip.through Skip.after In]; intros H; [contradiction|].
  destruct (keqb x c) eqn:E; [reflexivity|]. cbn [app]. f_equal. apply IH. destruct H as [->|H]; [rewrite keqb_refl in E; discriminate|auto].
Qed.

Lemma sorted_after c l : Ksorted l -> In c l ->
  Ksorted (after c l) /\ Forall (fun y => lt c y) (after c l) /\ Forall (fun y => y = c \/ lt y c) (through c l) /\ Ksorted (through c l).
Proof.
  induction l as [|x t IH]; intros Hs Hin; [contradiction|]. inversion Hs as [|? ? Hs' Hall]; subst.
  cbn [Skip.after Skip.through]. destruct (keqb x c) eqn:E.
  - apply keqb_true in E. subst. repeat split; auto; repeat constructor; auto.
  - destruct Hin as [->|Hin]; [rewrite keqb_refl in E; discriminate|]. destruct (IH Hs' Hin) as (A & B & C & D). repeat split; auto.
    + constructor; auto. rewrite Forall_forall in Hall. specialize (Hall c Hin). right. exact Hall.
    + constructor; auto. apply Forall_forall. intros y Hy. rewrite Forall_forall in Hall. apply Hall.
      rewrite <- (through_after c t Hin). apply in_app_iff. left; auto.
Qed.

(* ---- functional characterisation of one level of the search ---- *)
Definition last_or (dflt : option K) (l : list K) : option K := fold_left (fun _ x => Some x) l dflt.
Definition lows (key : K) (l : list K) : list K := filter (fun x => kltb x key) l.
Definition highs (key : K) (l : list K) : list K := filter (fun x => kltb key x) l.
Definition pred (key : K) (l : list K) : option K := last_or None (lows key l).   (* what update[i] must be *)
Definition mem (key : K) (l : list K) : bool := existsb (fun x => keqb x key) l.

Lemma last_or_app dflt a b : last_or dflt (a ++ b) = last_or (last_or dflt a) b.
Proof. unfold last_or. apply fold_left_app. Qed.
Lemma last_or_cons dflt x l : last_or dflt (x :: l) = last_or (Some x) l.
Proof. reflexivity. Qed.

Lemma filter_all_false {A} (f : A -> bool) l : (forall x, In x l -> f x = false) -> filter f l = [].
Proof. induction l as [|a l IH]; cbn [filter]; intros Hf; auto. rewrite (Hf a) by (left; auto). apply IH. intros y Hy; apply Hf; right; auto. Qed.
Lemma filter_all_true {A} (f : A -> bool) l : (forall x, In x l -> f x = true) -> filter f l = l.
Proof. induction l as [|a l IH]; cbn [filter]; intros Hf; auto. rewrite (Hf a) by (left; auto). f_equal. apply IH. intros y Hy; apply Hf; right; auto. Qed.

Lemma mem_true key l : mem key l = true <-> In key l.
Proof.
  unfold mem. rewrite existsb_exists. split.
  - intros (x & Hx & E). apply keqb_true in E. subst. auto.
  - intros H. exists key. split; auto. apply keqb_refl.
Qed.
Lemma mem_false key l : mem key l = false <-> ~ In key l.
Proof. rewrite <- mem_true. destruct (mem key l); split; intros; congruence. Qed.

Lemma walk_sorted key : forall rest cur, Ksorted rest ->
  walk key cur rest = (last_or cur (lows key rest), mem key rest).
Proof.
  induction rest as [|n t IH]; intros cur Hs; cbn [Skip.walk]; [reflexivity|].
  inversion Hs as [|? ? Hs' Hall]; subst. rewrite Forall_forall in Hall.
  unfold lows, mem. cbn [filter existsb].
  destruct (cmp n key) eqn:Hk.
  - apply cmp_eq in Hk. subst. replace (kltb key key) with false by (symmetry; ord). rewrite keqb_refl. cbn [orb].
    rewrite filter_all_false by (intros x Hx; specialize (Hall x Hx); ord). reflexivity.
  - replace (kltb n key) with true by (symmetry; ord). replace (keqb n key) with false by (symmetry; ord). cbn [orb].
    rewrite IH by auto. reflexivity.
  - replace (kltb n key) with false by (symmetry; ord). replace (keqb n key) with false by (symmetry; ord). cbn [orb].
    rewrite filter_all_false by (intros x Hx; specialize (Hall x Hx); ord).
    replace (existsb (fun x => keqb x key) t) with false; [reflexivity|].
    symmetry. apply not_true_is_false. intros Hex. apply existsb_exists in Hex. destruct Hex as (x & Hx & E). specialize (Hall x Hx). ord.
Qed.

(* a chain splits at key *)
Lemma sorted_split key l : Ksorted l -> mem key l = false -> l = lows key l ++ highs key l.
Proof.
  induction l as [|x t IH]; intros Hs Hm; [reflexivity|]. inversion Hs as [|? ? Hs' Hall]; subst.
  unfold mem in Hm. cbn [existsb] in Hm. apply orb_false_iff in Hm. destruct Hm as [Hx Hm].
  unfold lows, highs. cbn [filter]. rewrite Forall_forall in Hall.
  destruct (kltb x key) eqn:E1.
  - replace (kltb key x) with false by (symmetry; ord). cbn [app]. f_equal. apply IH; auto.
  - replace (kltb key x) with true by (symmetry; ord).
    rewrite (filter_all_false (fun y => kltb y key) t) by (intros y Hy; specialize (Hall y Hy); ord).
    rewrite (filter_all_true (fun y => kltb key y) t) by (intros y Hy; specialize (Hall y Hy); ord). reflexivity.
Qed.

Lemma filter_sorted (f : K -> bool) l : Ksorted l -> Ksorted (filter f l).
Proof.
  induction l as [|x t IH]; intros Hs; [constructor|]. inversion Hs as [|? ? Hs' Hall]; subst. cbn [filter].
  destruct (f x); [|apply IH; auto]. constructor; [apply IH; auto|].
  apply Forall_forall. intros y Hy. apply filter_In in Hy. rewrite Forall_forall in Hall. apply Hall. tauto.
Qed.
Lemma lows_sorted key l : Ksorted l -> Ksorted (lows key l).
Proof. apply filter_sorted. Qed.
Lemma highs_sorted key l : Ksorted l -> Ksorted (highs key l).
Proof. apply filter_sorted. Qed.
Lemma in_lows key l x : In x (lows key l) <-> In x l /\ lt x key.
Proof. unfold lows. rewrite filter_In. split; intros [A B]; split; auto; [apply kltb_true; auto|unfold lt in B; ord]. Qed.
Lemma in_highs key l x : In x (highs key l) <-> In x l /\ lt key x.
Proof. unfold highs. rewrite filter_In. split; intros [A B]; split; auto; [apply kltb_true; auto|unfold lt in B; ord]. Qed.

Lemma sorted_app a b : Ksorted a -> Ksorted b -> (forall x y, In x a -> In y b -> lt x y) -> Ksorted (a ++ b).
Proof.
  induction a as [|x a IH]; intros Ha Hb H; cbn [app]; auto. inversion Ha; subst. constructor.
  - apply IH; auto. intros; apply H; auto. right; auto.
  - apply Forall_app. split; auto. apply Forall_forall. intros y Hy. apply H; auto. left; auto.
Qed.

Lemma through_last l0 x r : Ksorted (l0 ++ [x]) -> through x (l0 ++ x :: r) = l0 ++ [x].
Proof.
  induction l0 as [|a l0 IH]; intros HL; cbn [app Skip.through]; [rewrite keqb_refl; reflexivity|].
  inversion HL as [|? ? HL' Hall]; subst. rewrite Forall_forall in Hall.
  assert (lt a x) by (apply Hall; apply in_app_iff; right; left; reflexivity).
  replace (keqb a x) with false by (symmetry; ord). f_equal. apply IH; auto.
Qed.
Lemma after_app_notin c a b : ~ In c a -> after c (a ++ c :: b) = b.
Proof.
  induction a as [|x a IH]; intros H; cbn [app Skip.after]; [rewrite keqb_refl; reflexivity|].
  destruct (keqb x c) eqn:E; [apply keqb_true in E; subst; exfalso; apply H; left; reflexivity|]. apply IH. intros H'. apply H. right; auto.
Qed.

(* through/after at the last low element reproduce the split *)
Lemma split_at_pred key l : Ksorted l -> mem key l = false ->
  match pred key l with
  | None => lows key l = []
  | Some c => through c l = lows key l /\ after c l = highs key l /\ In c l /\ lt c key
  end.
Proof.
  intros Hs Hm. unfold pred. pose proof (sorted_split key l Hs Hm) as E.
  pose proof (lows_sorted key l Hs) as HL.
  destruct (lows key l) as [|a0 lo] eqn:El0; [reflexivity|].
  destruct (@exists_last _ (a0 :: lo) ltac:(discriminate)) as (l0 & x & Ex). rewrite Ex in *. clear Ex a0 lo.
  rename El0 into El.
  assert (Hc : In x (lows key l)) by (rewrite El; apply in_app_iff; right; left; reflexivity).
  apply in_lows in Hc. destruct Hc as [Hcl Hck].
  rewrite last_or_app. unfold last_or at 1. cbn [fold_left]. split; [|split; [|split; auto]].
  - rewrite E at 1. rewrite <- app_assoc. cbn [app]. apply through_last; auto.
  - rewrite E at 1. rewrite <- app_assoc. cbn [app]. apply after_app_notin.
    intros Hin. apply StronglySorted_app_inv_l in HL || idtac.
    clear -HL Hin cmp_eq cmp_antisym cmp_trans.
    induction l0 as [|a l0 IH]; [contradiction|]. cbn [app] in HL. inversion HL as [|? ? HL' Hall]; subst.
    destruct Hin as [->|Hin]; [|apply IH; auto].
    rewrite Forall_forall in Hall. specialize (Hall x ltac:(apply in_app_iff; right; left; reflexivity)). ord.
Qed.

(* the splice of `set` at one level is sorted insertion *)
Theorem ins_after_pred key l : Ksorted l -> mem key l = false ->
  ins_after (pred key l) key l = lows key l ++ key :: highs key l /\ Ksorted (ins_after (pred key l) key l).
Proof.
  intros Hs Hm. pose proof (split_at_pred key l Hs Hm) as H. pose proof (sorted_split key l Hs Hm) as E.
  assert (Hres : Ksorted (lows key l ++ key :: highs key l)).
  { apply sorted_app; [apply lows_sorted; auto| |].
    - constructor; [apply highs_sorted; auto|]. apply Forall_forall. intros y Hy. apply in_highs in Hy. tauto.
    - intros x y Hx [<-|Hy].
      + apply in_lows in Hx. tauto.
      + apply in_lows in Hx. apply in_highs in Hy. destruct Hx as [_ Hx]. destruct Hy as [_ Hy]. ord. }
  unfold Skip.ins_after. destruct (pred key l) as [c|].
  - destruct H as (H1 & H2 & _ & _). rewrite H1, H2. split; auto.
  - rewrite H in E, Hres |- *. cbn [app] in E, Hres |- *. rewrite <- E in Hres |- *. split; [reflexivity|exact Hres].
Qed.

(* ---- one level of the search, started from where the level above stopped ---- *)
Lemma last_or_through c l : In c l -> last_or None (through c l) = Some c.
Proof.
  induction l as [|x t IH]; intros H; [contradiction|]. cbn [Skip.through].
  destruct (keqb x c) eqn:E; [apply keqb_true in E; subst; reflexivity|].
  destruct H as [->|H]; [rewrite keqb_refl in E; discriminate|].
  rewrite last_or_cons. specialize (IH H). destruct (through c t) as [|y r] eqn:Et; [cbn in IH; discriminate|].
  rewrite last_or_cons in *. exact IH.
Qed.

Lemma level_step key l cur : Ksorted l ->
  (cur = None \/ exists c, cur = Some c /\ In c l /\ lt c key) ->
  walk key cur (nexts cur l) = (pred key l, mem key l).
Proof.
  intros Hs [->|(c & -> & Hc & Hlt)]; cbn [Skip.nexts].
  - apply walk_sorted; auto.
  - destruct (sorted_after c l Hs Hc) as (Sa & Fa & Ft & St). rewrite walk_sorted by auto.
    pose proof (through_after c l Hc) as E. unfold pred.
    assert (Hl : lows key l = through c l ++ lows key (after c l)).
    { rewrite <- E at 1. unfold lows. rewrite filter_app. f_equal. apply filter_all_true.
      intros x Hx. rewrite Forall_forall in Ft. specialize (Ft x Hx). destruct Ft as [->|Ft]; ord. }
    assert (Hm : mem key l = mem key (after c l)).
    { rewrite <- E at 1. unfold mem. rewrite existsb_app.
      replace (existsb (fun x => keqb x key) (through c l)) with false; [reflexivity|].
      symmetry. apply not_true_is_false. intros Hex. apply existsb_exists in Hex. destruct Hex as (x & Hx & Ex).
      rewrite Forall_forall in Ft. specialize (Ft x Hx). destruct Ft as [->|Ft]; ord. }
    rewrite Hl, Hm, last_or_app, (last_or_through c l Hc). reflexivity.
Qed.

Lemma pred_in key l c : pred key l = Some c -> In c l /\ lt c key.
Proof.
  unfold pred. intros H. assert (Hin : In c (lows key l)).
  { destruct (lows key l) as [|a r] using rev_ind; [cbn in H; discriminate|].
    rewrite last_or_app in H. cbn in H. inversion H; subst. apply in_app_iff. right; left; reflexivity. }
  apply in_lows in Hin. exact Hin.
Qed.

(* ---- the whole top-down search ---- *)
Definition levels_ok (levels : list (list K)) : Prop :=
  (forall j, Ksorted (nth j levels [])) /\ (forall j, incl (nth (S j) levels []) (nth j levels [])).

Lemma search_spec key levels : levels_ok levels -> forall n cur,
  (cur = None \/ exists c, cur = Some c /\ In c (nth n levels []) /\ lt c key) ->
  search key levels n cur =
    if existsb (fun j => mem key (nth j levels [])) (seq 0 n)
    then (true, [])
    else (false, map (fun j => pred key (nth j levels [])) (seq 0 n)).
Proof.
  intros [HS HN]. induction n as [|i IH]; intros cur Hcur; [reflexivity|]. cbn [Skip.search].
  rewrite level_step; auto.
  2:{ destruct Hcur as [->|(c & -> & Hc & Hlt)]; [left; reflexivity|]. right. exists c. repeat split; auto. apply (HN i); auto. }
  rewrite seq_S, existsb_app. cbn [existsb Nat.add]. rewrite orb_false_r.
  destruct (mem key (nth i levels [])) eqn:Em; [rewrite orb_true_r; reflexivity|]. rewrite orb_false_r.
  rewrite IH.
  - destruct (existsb (fun j => mem key (nth j levels [])) (seq 0 i)); [reflexivity|].
    rewrite map_app. reflexivity.
  - destruct (pred key (nth i levels [])) as [c|] eqn:Ep; [|left; reflexivity].
    right. exists c. split; auto. apply pred_in in Ep. exact Ep.
Qed.

Lemma mem_down key levels : levels_ok levels -> forall i j, (j <= i)%nat ->
  mem key (nth i levels []) = true -> mem key (nth j levels []) = true.
Proof.
  intros [HS HN].
  assert (Hdown : forall j, mem key (nth (S j) levels []) = true -> mem key (nth j levels []) = true).
  { intros j H. apply mem_true in H. apply mem_true. apply (HN j); auto. }
  induction i as [|i IHi]; intros j Hj H; [replace j with 0%nat by lia; auto|].
  destruct (Nat.eq_dec j (S i)) as [->|]; auto. apply IHi; [lia|]. apply Hdown; auto.
Qed.

(* with nested levels, a hit anywhere is membership at level 0: Get / SetX / SetNx agree with the map *)
Lemma hit_iff_level0 key levels n : levels_ok levels -> (0 < n)%nat ->
  existsb (fun j => mem key (nth j levels [])) (seq 0 n) = mem key (nth 0 levels []).
Proof.
  intros Hok Hn. destruct (mem key (nth 0 levels [])) eqn:E0.
  - apply existsb_exists. exists 0%nat. split; [apply in_seq; lia|exact E0].
  - apply not_true_is_false. intros H. apply existsb_exists in H. destruct H as (j & _ & Hj).
    rewrite (mem_down key levels Hok j 0 ltac:(lia) Hj) in E0. discriminate.
Qed.

Lemma nth_map_seq {A} (f : nat -> A) n j dflt : (j < n)%nat -> nth j (map f (seq 0 n)) dflt = f j.
Proof.
  intros H. rewrite (nth_indep _ dflt (f 0%nat)) by (rewrite map_length, seq_length; auto).
  rewrite map_nth, seq_nth by auto. reflexivity.
Qed.

(* ---- insertion of a new key with tower height h: splice after update[j] at every level j < h ---- *)
Theorem insert_levels_ok key h levels level :
  levels_ok levels -> (forall j, (level <= j)%nat -> nth j levels [] = []) ->
  (h <= length levels)%nat -> (level <= length levels)%nat ->
  mem key (nth 0 levels []) = false ->
  let us := snd (search key levels level None) ++ repeat None (h - level) in     (* update[i] = head above the old top *)
  let levels' := splice key h us levels in
  levels_ok levels' /\ length levels' = length levels /\
  (forall j, (j < length levels)%nat ->
     nth j levels' [] = if (j <? h)%nat then lows key (nth j levels []) ++ key :: highs key (nth j levels []) else nth j levels []).
Proof.
  intros Hok Hemp Hh Hlv Hm. cbv zeta. pose proof Hok as [HS HN].
  assert (Hnomem : forall j, mem key (nth j levels []) = false).
  { intros j. destruct (mem key (nth j levels [])) eqn:E; auto.
    rewrite (mem_down key levels Hok j 0 ltac:(lia) E) in Hm. discriminate. }
  rewrite search_spec by (auto; left; reflexivity).
  replace (existsb (fun j => mem key (nth j levels [])) (seq 0 level)) with false
    by (symmetry; apply not_true_is_false; intros H; apply existsb_exists in H; destruct H as (j & _ & Hj); rewrite Hnomem in Hj; discriminate).
  cbn [snd].
  set (us := map (fun j => pred key (nth j levels [])) (seq 0 level) ++ repeat None (h - level)).
  assert (Hus : forall j, (j < h)%nat -> nth j us None = pred key (nth j levels [])).
  { intros j Hj. unfold us. destruct (Nat.lt_ge_cases j level) as [Hlt|Hge].
    - rewrite app_nth1 by (rewrite map_length, seq_length; auto). rewrite nth_map_seq by auto. reflexivity.
    - rewrite app_nth2 by (rewrite map_length, seq_length; auto). rewrite nth_repeat.
      rewrite (Hemp j Hge). reflexivity. }
  assert (Hnth : forall j, (j < length levels)%nat ->
            nth j (splice key h us levels) [] = if (j <? h)%nat then lows key (nth j levels []) ++ key :: highs key (nth j levels []) else nth j levels []).
  { intros j Hj. unfold Skip.splice. rewrite nth_map_seq by auto.
    destruct (Nat.ltb_spec j h); [|reflexivity]. rewrite Hus by auto. apply ins_after_pred; auto. }
  assert (Hlen : length (splice key h us levels) = length levels) by (unfold Skip.splice; rewrite map_length, seq_length; reflexivity).
  split; [|split; auto]. split.
  - intros j. destruct (Nat.lt_ge_cases j (length levels)) as [Hj|Hj].
    + rewrite Hnth by auto. destruct (Nat.ltb_spec j h); [|apply HS].
      destruct (ins_after_pred key (nth j levels []) (HS j) (Hnomem j)) as [E Hsd]. rewrite <- E. exact Hsd.
    + rewrite nth_overflow by lia. constructor.
  - intros j x Hx. destruct (Nat.lt_ge_cases (S j) (length levels)) as [Hj|Hj].
    + rewrite Hnth in Hx by auto. rewrite Hnth by lia.
      assert (Hsub : forall l, mem key l = false -> Ksorted l -> forall y, In y (lows key l ++ key :: highs key l) <-> y = key \/ In y l).
      { intros l Hml Hsl y. rewrite (sorted_split key l Hsl Hml) at 3. rewrite !in_app_iff. cbn [In]. intuition. }
      destruct (Nat.ltb_spec (S j) h).
      * destruct (Nat.ltb_spec j h); [|lia]. apply Hsub in Hx; auto. apply Hsub; auto. destruct Hx as [->|Hx]; [left; auto|right; apply (HN j); auto].
      * destruct (Nat.ltb_spec j h); [apply Hsub; auto; right; apply (HN j); auto|apply (HN j); auto].
    + rewrite nth_overflow in Hx by lia. contradiction.
Qed.

(* ================================================================ Remove *)
Lemma sorted_split_mem key l : Ksorted l -> mem key l = true -> l = lows key l ++ key :: highs key l.
Proof.
  induction l as [|x t IH]; intros Hs Hm; [discriminate|]. inversion Hs as [|? ? Hs' Hall]; subst.
  rewrite Forall_forall in Hall. unfold mem in Hm. cbn [existsb] in Hm. unfold lows, highs. cbn [filter].
  destruct (keqb x key) eqn:Ex.
  - apply keqb_true in Ex. subst. replace (kltb key key) with false by (symmetry; ord).
    rewrite (filter_all_false (fun y => kltb y key) t) by (intros y Hy; specialize (Hall y Hy); ord).
    rewrite (filter_all_true (fun y => kltb key y) t) by (intros y Hy; specialize (Hall y Hy); ord). reflexivity.
  - cbn [orb] in Hm. assert (Hk : In key t) by (apply mem_true; exact Hm).
    specialize (Hall key Hk). replace (kltb x key) with true by (symmetry; ord). replace (kltb key x) with false by (symmetry; ord).
    cbn [app]. f_equal. apply IH; auto.
Qed.

Theorem unsplice_pred key l : Ksorted l -> mem key l = true ->
  unsplice (pred key l) key l = lows key l ++ highs key l /\ Ksorted (lows key l ++ highs key l).
Proof.
  intros Hs Hm. pose proof (sorted_split_mem key l Hs Hm) as E. split.
  - unfold Skip.unsplice. f_equal.
    + unfold pred. pose proof (lows_sorted key l Hs) as HL.
      destruct (lows key l) as [|a0 lo] eqn:El0; [reflexivity|].
      destruct (@exists_last _ (a0 :: lo) ltac:(discriminate)) as (l0 & x & Ex). rewrite Ex in *.
      rewrite last_or_app. unfold last_or at 1. cbn [fold_left]. rewrite E at 1. rewrite <- app_assoc. cbn [app].
      apply through_last; auto.
    + rewrite E at 1. apply after_app_notin. intros H. apply in_lows in H. destruct H as [_ H]. ord.
  - apply sorted_app; [apply lows_sorted; auto|apply highs_sorted; auto|].
    intros x y Hx Hy. apply in_lows in Hx. apply in_highs in Hy. destruct Hx as [_ Hx]. destruct Hy as [_ Hy]. ord.
Qed.

Lemma lows_highs_iff key l : forall y, In y (lows key l ++ highs key l) <-> y <> key /\ In y l.
Proof.
  intros y. rewrite in_app_iff, in_lows, in_highs. split.
  - intros [[H1 H2]|[H1 H2]]; split; auto; ord.
  - intros [H1 H2]. destruct (cmp y key) eqn:E; [exfalso; ord|left; split; auto|right; split; auto; ord].
Qed.
Lemma nomem_lows_highs key l : Ksorted l -> mem key l = false -> lows key l ++ highs key l = l.
Proof. intros Hs Hm. symmetry. apply sorted_split; auto. Qed.

(* the search of Remove: update[i] = pred at every level; curLevel = 1 + the top level holding key *)
Lemma rsearch_spec key levels : levels_ok levels -> forall n cur cl,
  (cur = None \/ exists c, cur = Some c /\ In c (nth n levels []) /\ lt c key) ->
  rsearch key levels n cur cl =
    (fold_left (fun acc j => if mem key (nth j levels []) && (acc =? 0)%nat then S j else acc) (rev (seq 0 n)) cl,
     map (fun j => pred key (nth j levels [])) (seq 0 n)).
Proof.
  intros [HS HN]. induction n as [|i IH]; intros cur cl Hcur; [reflexivity|]. cbn [Skip.rsearch].
  rewrite level_step; auto.
  2:{ destruct Hcur as [->|(c & -> & Hc & Hlt)]; [left; reflexivity|]. right. exists c. repeat split; auto. apply (HN i); auto. }
  rewrite IH.
  - rewrite seq_S, rev_app_distr, map_app. cbn [rev app fold_left map Nat.add]. reflexivity.
  - destruct (pred key (nth i levels [])) as [c|] eqn:Ep; [|left; reflexivity].
    right. exists c. split; auto. apply pred_in in Ep. exact Ep.
Qed.

Lemma curLevel_spec key levels : levels_ok levels -> forall n,
  let cl := fold_left (fun acc j => if mem key (nth j levels []) && (acc =? 0)%nat then S j else acc) (rev (seq 0 n)) 0%nat in
  (cl <= n)%nat /\ (forall j, (j < n)%nat -> mem key (nth j levels []) = (j <? cl)%nat).
Proof.
  intros Hok.
  assert (Hdown' := mem_down key levels Hok).
  assert (Hstay : forall l c, (0 < c)%nat -> fold_left (fun acc j => if mem key (nth j levels []) && (acc =? 0)%nat then S j else acc) l c = c).
  { induction l as [|a l IHl]; intros c Hc; cbn [fold_left]; auto. destruct (Nat.eqb_spec c 0); [lia|]. rewrite andb_false_r. auto. }
  induction n as [|i IH]; cbv zeta; [cbn; split; [lia|intros; lia]|].
  rewrite seq_S, rev_app_distr. cbn [rev app fold_left Nat.add Nat.eqb andb].
  destruct (mem key (nth i levels [])) eqn:Ei; cbn [andb].
  - rewrite Hstay by lia. split; [lia|]. intros j Hj. destruct (Nat.ltb_spec j (S i)); [|lia]. apply (Hdown' i); auto; lia.
  - cbv zeta in IH. destruct IH as [I1 I2]. split; [lia|]. intros j Hj.
    destruct (Nat.eq_dec j i) as [->|Hne]; [|apply I2; lia].
    rewrite Ei. symmetry. apply Nat.ltb_ge. exact I1.
Qed.

Definition remove_levels (key : K) (level : nat) (levels : list (list K)) : option (list (list K)) :=
  let '(cl, us) := rsearch key levels level None 0 in
  if (cl =? 0)%nat then None
  else Some (map (fun j => if (j <? cl)%nat then unsplice (nth j us None) key (nth j levels []) else nth j levels [])
                 (seq 0 (length levels))).

Theorem remove_levels_spec key level levels :
  levels_ok levels -> (level <= length levels)%nat -> (forall j, (level <= j)%nat -> nth j levels [] = []) ->
  match remove_levels key level levels with
  | None => mem key (nth 0 levels []) = false \/ level = 0%nat
  | Some levels' =>
      mem key (nth 0 levels []) = true /\ levels_ok levels' /\ length levels' = length levels /\
      (forall j, nth j levels' [] = lows key (nth j levels []) ++ highs key (nth j levels [])) /\
      (forall j, (level <= j)%nat -> nth j levels' [] = [])
  end.
Proof.
  intros Hok Hlv Hemp. pose proof Hok as [HS HN]. unfold remove_levels.
  rewrite rsearch_spec by (auto; left; reflexivity).
  destruct (curLevel_spec key levels Hok level) as [C1 C2]. cbv zeta in C1, C2.
  set (cl := fold_left _ (rev (seq 0 level)) 0%nat) in *.
  destruct (Nat.eqb_spec cl 0) as [E0|Hne].
  - destruct level as [|lv]; [right; reflexivity|left]. rewrite C2 by lia. rewrite E0. reflexivity.
  - assert (Hnth : forall j, nth j (map (fun j0 => if (j0 <? cl)%nat
                  then unsplice (nth j0 (map (fun j1 => pred key (nth j1 levels [])) (seq 0 level)) None) key (nth j0 levels [])
                  else nth j0 levels []) (seq 0 (length levels))) [] = lows key (nth j levels []) ++ highs key (nth j levels [])).
    { intros j. destruct (Nat.lt_ge_cases j (length levels)) as [Hj|Hj].
      - rewrite nth_map_seq by auto. destruct (Nat.ltb_spec j cl) as [Hjc|Hjc].
        + rewrite nth_map_seq by lia. apply unsplice_pred; auto. rewrite C2 by lia. apply Nat.ltb_lt; auto.
        + symmetry. apply nomem_lows_highs; auto.
          destruct (Nat.lt_ge_cases j level); [rewrite C2 by auto; apply Nat.ltb_ge; auto|rewrite Hemp by auto; reflexivity].
      - rewrite nth_overflow by (rewrite map_length, seq_length; auto). rewrite (nth_overflow levels) by auto. reflexivity. }
    split; [rewrite C2 by lia; apply Nat.ltb_lt; lia|]. split; [|split; [rewrite map_length, seq_length; reflexivity|split; auto]].
    + split.
      * intros j. rewrite Hnth. apply sorted_app; [apply lows_sorted; auto|apply highs_sorted; auto|].
        intros x y Hx Hy. apply in_lows in Hx. apply in_highs in Hy. destruct Hx as [_ Hx]. destruct Hy as [_ Hy]. ord.
      * intros j x. rewrite !Hnth. rewrite !lows_highs_iff. intros [H1 H2]. split; auto. apply (HN j); auto.
    + intros j Hj. rewrite Hnth, Hemp by auto. reflexivity.
Qed.

(* the level counter only drops past empty levels, so "levels at or above level are empty" survives *)
Lemma shrink_spec levels : forall fuel level, (forall j, (level <= j)%nat -> nth j levels [] = []) ->
  (shrink fuel levels level <= level)%nat /\ (forall j, (shrink fuel levels level <= j)%nat -> nth j levels [] = []) /\
  ((0 < level)%nat -> (0 < shrink fuel levels level)%nat).
Proof.
  induction fuel as [|f IH]; intros level Hemp; cbn [Skip.shrink]; [auto|].
  destruct (Nat.ltb_spec 1 level) as [H1|H1]; cbn [andb]; [|auto].
  destruct (nth (level - 1) levels []) eqn:E; [|auto].
  destruct (IH (level - 1)%nat) as (A & B & C).
  - intros j Hj. destruct (Nat.eq_dec j (level - 1)) as [->|]; auto. apply Hemp. lia.
  - split; [lia|]. split; auto. intros _. apply C. lia.
Qed.

(* ================================================================ values, pairs and the sorted-map specification *)
Variable V : Type.
Variable v0 : V.
Local Notation vget := (vget K V cmp).
Local Notation vgetd := (vgetd K V cmp v0).
Local Notation vdel := (vdel K V cmp).
Local Notation vset := (vset K V cmp).
Local Notation s_insert := (s_insert K V cmp).
Local Notation s_find := (s_find K V cmp).
Local Notation s_mem := (s_mem K V cmp).
Local Notation s_remove := (s_remove K V cmp).
Local Notation s_from := (s_from K V cmp).
Local Notation s_between := (s_between K V cmp).
Local Notation s_node := (s_node K V cmp).

Definition mkp (g : K -> V) (ks : list K) : list (K * V) := map (fun x => (x, g x)) ks.

Lemma mkp_cons g x t : mkp g (x :: t) = (x, g x) :: mkp g t.
Proof. reflexivity. Qed.
Lemma mkp_ext g g' ks : (forall x, In x ks -> g x = g' x) -> mkp g ks = mkp g' ks.
Proof. intros H. unfold mkp. apply map_ext_in. intros x Hx. rewrite H; auto. Qed.
Lemma mkp_fst g ks : map fst (mkp g ks) = ks.
Proof. unfold mkp. rewrite map_map. cbn [fst]. apply map_id. Qed.
Lemma mkp_snd g ks : map snd (mkp g ks) = map g ks.
Proof. unfold mkp. rewrite map_map. reflexivity. Qed.
Lemma mkp_length g ks : length (mkp g ks) = length ks.
Proof. unfold mkp. apply map_length. Qed.
Lemma mkp_filter g (f : K -> bool) ks : filter (fun p => f (fst p)) (mkp g ks) = mkp g (filter f ks).
Proof.
  induction ks as [|x t IH]; [reflexivity|]. rewrite mkp_cons. cbn [filter fst].
  destruct (f x); [rewrite mkp_cons|]; rewrite IH; reflexivity.
Qed.

(* the value store *)
Lemma vgetd_vset_same k v l : vgetd k (vset k v l) = v.
Proof. unfold Skip.vgetd, Skip.vget, Skip.vset. cbn [find fst]. rewrite keqb_refl. reflexivity. Qed.
Lemma find_vdel_other k x l : x <> k ->
  find (fun p : K * V => keqb (fst p) x) (vdel k l) = find (fun p => keqb (fst p) x) l.
Proof.
  intros Hne. unfold Skip.vdel. induction l as [|[a b] t IH]; [reflexivity|]. cbn [filter find fst].
  destruct (keqb a k) eqn:E1; cbn [negb find fst].
  - apply keqb_true in E1. subst. replace (keqb k x) with false by (symmetry; ord). exact IH.
  - destruct (keqb a x); [reflexivity|exact IH].
Qed.
Lemma vgetd_vset_other k v x l : x <> k -> vgetd x (vset k v l) = vgetd x l.
Proof.
  intros Hne. unfold Skip.vgetd, Skip.vget, Skip.vset. cbn [find fst].
  replace (keqb k x) with false by (symmetry; ord). fold (vdel k l). rewrite find_vdel_other by auto. reflexivity.
Qed.
Lemma vgetd_vdel_other k x l : x <> k -> vgetd x (vdel k l) = vgetd x l.
Proof. intros Hne. unfold Skip.vgetd, Skip.vget. rewrite find_vdel_other by auto. reflexivity. Qed.

(* sorted chains: first element, membership *)
Lemma sorted_head_lt x t y : Ksorted (x :: t) -> In y t -> lt x y.
Proof. intros Hs Hy. inversion Hs as [|? ? _ Hall]; subst. rewrite Forall_forall in Hall. auto. Qed.
Lemma sorted_tail x t : Ksorted (x :: t) -> Ksorted t.
Proof. intros Hs. inversion Hs; auto. Qed.

Lemma find_mem key ks : find (fun x => keqb x key) ks = if mem key ks then Some key else None.
Proof.
  induction ks as [|x t IH]; [reflexivity|]. unfold mem in *. cbn [find existsb].
  destruct (keqb x key) eqn:E; cbn [orb]; [apply keqb_true in E; subst; reflexivity|exact IH].
Qed.

Lemma s_find_mkp g key ks : s_find key (mkp g ks) = if mem key ks then Some (key, g key) else None.
Proof.
  unfold Skip.s_find. induction ks as [|x t IH]; [reflexivity|]. unfold mem in *. rewrite mkp_cons. cbn [find existsb fst].
  destruct (keqb x key) eqn:E; cbn [orb]; [apply keqb_true in E; subst; reflexivity|exact IH].
Qed.
Lemma s_mem_mkp g key ks : s_mem key (mkp g ks) = mem key ks.
Proof. unfold Skip.s_mem. rewrite s_find_mkp. destruct (mem key ks); reflexivity. Qed.

Lemma lows_cons_ge key x t : Ksorted (x :: t) -> kltb x key = false -> lows key (x :: t) = [].
Proof.
  intros Hs E. unfold lows. apply filter_all_false. intros y [<-|Hy]; auto.
  pose proof (sorted_head_lt x t y Hs Hy). ord.
Qed.

Lemma s_insert_absent g g' key v ks : Ksorted ks -> mem key ks = false ->
  g' key = v -> (forall x, In x ks -> g' x = g x) ->
  s_insert key v (mkp g ks) = mkp g' (lows key ks ++ key :: highs key ks).
Proof.
  intros Hs Hm Hk Hg. induction ks as [|x t IH].
  - cbn. rewrite Hk. reflexivity.
  - unfold mem in Hm. cbn [existsb] in Hm. apply orb_false_iff in Hm. destruct Hm as [Hx Hm].
    rewrite mkp_cons. cbn [Skip.s_insert]. destruct (cmp key x) eqn:E.
    + exfalso. ord.
    + rewrite lows_cons_ge by (auto; ord).
      unfold highs. rewrite filter_all_true.
      * cbn [app]. rewrite !mkp_cons. rewrite Hk, Hg by (left; auto). f_equal. f_equal. apply mkp_ext. intros y Hy. symmetry. apply Hg. right; auto.
      * intros y [<-|Hy]; [ord|]. pose proof (sorted_head_lt x t y Hs Hy). ord.
    + unfold lows, highs. cbn [filter]. replace (kltb x key) with true by (symmetry; ord). replace (kltb key x) with false by (symmetry; ord).
      cbn [app]. rewrite mkp_cons. rewrite Hg by (left; auto). f_equal. apply IH; auto.
      * apply sorted_tail in Hs. exact Hs.
      * intros y Hy. apply Hg. right; auto.
Qed.

Lemma s_insert_present g g' key v ks : Ksorted ks -> mem key ks = true ->
  g' key = v -> (forall x, In x ks -> x <> key -> g' x = g x) ->
  s_insert key v (mkp g ks) = mkp g' ks.
Proof.
  intros Hs Hm Hk Hg. induction ks as [|x t IH]; [discriminate|].
  rewrite !mkp_cons. cbn [Skip.s_insert]. apply mem_true in Hm. destruct (cmp key x) eqn:E.
  - apply cmp_eq in E. subst x. rewrite Hk. f_equal. apply mkp_ext. intros y Hy. symmetry. apply Hg; [right; auto|].
    pose proof (sorted_head_lt key t y Hs Hy). ord.
  - exfalso. destruct Hm as [->|Hm]; [ord|]. pose proof (sorted_head_lt x t key Hs Hm). ord.
  - rewrite Hg by (try (left; reflexivity); ord). f_equal. apply IH.
    + apply sorted_tail in Hs. exact Hs.
    + apply mem_true. destruct Hm as [->|Hm]; [exfalso; ord|auto].
    + intros y Hy. apply Hg. right; auto.
Qed.

Lemma filter_neq_sorted key ks : Ksorted ks -> filter (fun x => negb (keqb x key)) ks = lows key ks ++ highs key ks.
Proof.
  intros Hs. induction ks as [|x t IH]; [reflexivity|]. pose proof (sorted_tail _ _ Hs) as Hs'.
  cbn [filter]. unfold lows, highs in *. cbn [filter]. destruct (cmp x key) eqn:E.
  - apply cmp_eq in E. subst x. rewrite keqb_refl. replace (kltb key key) with false by (symmetry; ord). cbn [negb].
    rewrite IH by auto. reflexivity.
  - replace (keqb x key) with false by (symmetry; ord). replace (kltb x key) with true by (symmetry; ord).
    replace (kltb key x) with false by (symmetry; ord). cbn [negb app]. rewrite IH by auto. reflexivity.
  - replace (keqb x key) with false by (symmetry; ord). replace (kltb x key) with false by (symmetry; ord).
    replace (kltb key x) with true by (symmetry; ord). cbn [negb].
    rewrite (filter_all_false (fun y => kltb y key) t) by (intros y Hy; pose proof (sorted_head_lt x t y Hs Hy); ord).
    rewrite (filter_all_true (fun y => kltb key y) t) by (intros y Hy; pose proof (sorted_head_lt x t y Hs Hy); ord).
    cbn [app]. f_equal. apply filter_all_true. intros y Hy. pose proof (sorted_head_lt x t y Hs Hy).
    replace (keqb y key) with false by (symmetry; ord). reflexivity.
Qed.

Lemma s_remove_mkp g g' key ks : Ksorted ks -> (forall x, In x ks -> x <> key -> g' x = g x) ->
  s_remove key (mkp g ks) = mkp g' (lows key ks ++ highs key ks).
Proof.
  intros Hs Hg. unfold Skip.s_remove. rewrite (mkp_filter g (fun x => negb (keqb x key))).
  rewrite filter_neq_sorted by auto. apply mkp_ext. intros x Hx. symmetry. apply lows_highs_iff in Hx. apply Hg; tauto.
Qed.

(* keys >= start *)
Lemma from_eq key l : Ksorted l -> filter (fun x => negb (kltb x key)) l = (if mem key l then [key] else []) ++ highs key l.
Proof.
  intros Hs. destruct (mem key l) eqn:Em.
  - rewrite (sorted_split_mem key l Hs Em) at 1. rewrite filter_app. cbn [filter].
    replace (kltb key key) with false by (symmetry; ord). cbn [negb].
    rewrite filter_all_false by (intros x Hx; apply in_lows in Hx; destruct Hx as [_ Hx]; replace (kltb x key) with true by (symmetry; ord); reflexivity).
    cbn [app]. f_equal. apply filter_all_true. intros x Hx. apply in_highs in Hx. destruct Hx as [_ Hx].
    replace (kltb x key) with false by (symmetry; ord). reflexivity.
  - rewrite (sorted_split key l Hs Em) at 1. rewrite filter_app.
    rewrite filter_all_false by (intros x Hx; apply in_lows in Hx; destruct Hx as [_ Hx]; replace (kltb x key) with true by (symmetry; ord); reflexivity).
    cbn [app]. apply filter_all_true. intros x Hx. apply in_highs in Hx. destruct Hx as [_ Hx].
    replace (kltb x key) with false by (symmetry; ord). reflexivity.
Qed.
Lemma after_mem key l : Ksorted l -> mem key l = true -> after key l = highs key l.
Proof.
  intros Hs Em. rewrite (sorted_split_mem key l Hs Em) at 1. apply after_app_notin.
  intros H. apply in_lows in H. destruct H as [_ H]. ord.
Qed.

(* ================================================================ the structure: invariant and operations *)
Local Notation sk := (sk K V).
Local Notation pairs := (pairs K V cmp v0).
Local Notation inv := (inv K V cmp).
Local Notation set_ := (set_ K V cmp).
Local Notation remove_ := (remove_ K V cmp v0).
Local Notation get_node := (get_node K V cmp v0).
Local Notation range_start := (range_start K V cmp v0).
Local Notation range_range := (range_range K V cmp v0).
Local Notation pairs_after := (pairs_after K V cmp v0).
Local Notation keys0 := (keys0 K V).
Local Notation visit := (visit K V).

Definition gv (s : sk) : K -> V := fun x => vgetd x (vals s).

Lemma pairs_mkp s : pairs s = mkp (gv s) (keys0 s).
Proof. reflexivity. Qed.

Lemma inv_levels_ok s : inv s -> levels_ok (levels s).
Proof. intros (A & B & _). split; auto. Qed.
Lemma inv_sorted0 s : inv s -> Ksorted (keys0 s).
Proof. intros (A & _). apply (A 0%nat). Qed.
Lemma inv_head_ok s : inv s -> head_ok s = true.
Proof. intros (_ & _ & _ & D & _). unfold Skip.head_ok. apply Nat.leb_le. lia. Qed.
Lemma maxL_pos' : (1 <= maxL)%nat.
Proof. vm_compute. lia. Qed.
Lemma inv_not_zero s : inv s -> is_zero s = false.
Proof.
  intros (_ & _ & _ & _ & E & _). unfold Skip.is_zero. destruct (levels s); [|reflexivity].
  cbn in E. pose proof maxL_pos'. lia.
Qed.
Lemma inv_len0 s : inv s -> ((len s =? 0)%Z = true <-> keys0 s = []).
Proof.
  intros (_ & _ & _ & _ & _ & F & _). rewrite F. rewrite Z.eqb_eq. destruct (keys0 s); cbn [length]; split; intros; try reflexivity; try discriminate; lia.
Qed.

Lemma nth_repeat_nil {A} n j : nth j (repeat (@nil A) n) [] = [].
Proof. revert j. induction n; destruct j; cbn; auto. Qed.

Lemma inv_fresh : inv fresh.
Proof.
  unfold Skip.inv, Skip.fresh, Skip.keys0. cbn [levels level len has_rand vals].
  repeat split; intros; rewrite ?nth_repeat_nil, ?repeat_length; first [apply maxL_pos' | apply incl_refl | constructor; auto | auto].
Qed.
Lemma pairs_fresh : pairs fresh = [].
Proof. unfold Skip.pairs, Skip.keys0, Skip.fresh. cbn [levels]. rewrite nth_repeat_nil. reflexivity. Qed.

(* ---- set (Set / SetX / SetNx) ---- *)
Lemma set_refines vr s key val mode rnd : inv s ->
  exists s' b rnd', set_ vr s key val mode rnd = Some (s', b, rnd') /\ inv s' /\
    b = (if mem key (keys0 s) then negb (mode =? 2)%nat else negb (mode =? 1)%nat) /\
    pairs s' = (if (if mem key (keys0 s) then (mode =? 2)%nat else (mode =? 1)%nat) then pairs s else s_insert key val (pairs s)).
Proof.
  intros Hinv. pose proof (inv_levels_ok s Hinv) as Hok. pose proof (inv_sorted0 s Hinv) as Hs0.
  unfold Skip.set_. rewrite (inv_not_zero s Hinv).
  replace (match vr with Plain => s | WithCmp => s end) with s by (destruct vr; reflexivity).
  rewrite (inv_head_ok s Hinv). cbn [negb].
  pose proof Hinv as (A & B & C & D & E & F & G & H).
  rewrite search_spec by (auto; left; reflexivity). rewrite hit_iff_level0 by (auto; lia).
  fold (keys0 s). destruct (mem key (keys0 s)) eqn:Em.
  - destruct (mode =? 2)%nat eqn:E2.
    + exists s, false, rnd. split; [reflexivity|split; [exact Hinv|split; reflexivity]].
    + eexists _, true, rnd. split; [reflexivity|]. split; [|split; [reflexivity|]].
      * exact Hinv.
      * rewrite !pairs_mkp. unfold Skip.keys0. cbn [levels]. fold (keys0 s). symmetry.
        apply s_insert_present; auto.
        -- unfold gv. cbn [vals]. apply vgetd_vset_same.
        -- intros x _ Hne. unfold gv. cbn [vals]. apply vgetd_vset_other; auto.
  - destruct (mode =? 1)%nat eqn:E1.
    + exists s, false, rnd. split; [reflexivity|split; [exact Hinv|split; reflexivity]].
    + rewrite H. cbn [negb].
      pose proof (random_level_range (hd 0%Z rnd)) as Hr. set (rh := random_level (hd 0%Z rnd)) in *.
      set (h := if (level s <? rh)%nat then S (level s) else rh).
      assert (Hh : (1 <= h <= length (levels s))%nat) by (unfold h; destruct (Nat.ltb_spec (level s) rh); lia).
      replace (length (levels s) <? h)%nat with false by (symmetry; apply Nat.ltb_ge; lia).
      eexists _, true, (tl rnd). split; [reflexivity|].
      pose proof (insert_levels_ok key h (levels s) (level s) Hok C ltac:(lia) ltac:(lia) Em) as I. cbv zeta in I.
      rewrite search_spec in I by (auto; left; reflexivity). rewrite hit_iff_level0 in I by (auto; lia).
      fold (keys0 s) in I. rewrite Em in I. cbn [snd] in I.
      set (lv' := splice key h _ (levels s)) in *.
      destruct I as ((I1a & I1b) & I2 & I3).
      assert (K0 : nth 0 lv' [] = lows key (keys0 s) ++ key :: highs key (keys0 s)).
      { rewrite I3 by lia. destruct (Nat.ltb_spec 0 h); [reflexivity|lia]. }
      split; [|split; [reflexivity|]].
      * unfold Skip.inv, Skip.keys0. cbn [levels level len has_rand]. repeat split; auto.
        -- intros j Hj. destruct (Nat.lt_ge_cases j (length (levels s))) as [Hjl|Hjl].
           ++ rewrite I3 by auto. destruct (Nat.ltb_spec j h); [lia|]. apply C. lia.
           ++ apply nth_overflow. lia.
        -- lia.
        -- rewrite I2. lia.
        -- rewrite I2. exact E.
        -- rewrite K0, F. rewrite (sorted_split key _ Hs0 Em) at 1. rewrite !app_length. cbn [length]. lia.
        -- destruct (Nat.le_gt_cases h (level s)) as [Hle|Hgt].
           ++ rewrite Nat.max_l by lia. destruct G as [G|G]; [left; exact G|right].
              rewrite I3 by lia. destruct (Nat.ltb_spec (level s - 1) h); [|exact G].
              intros Hnil. apply app_eq_nil in Hnil. destruct Hnil as [_ Hnil]. discriminate.
           ++ rewrite Nat.max_r by lia. right. rewrite I3 by lia. destruct (Nat.ltb_spec (h - 1) h); [|lia].
              intros Hnil. apply app_eq_nil in Hnil. destruct Hnil as [_ Hnil]. discriminate.
      * rewrite !pairs_mkp. unfold Skip.keys0 at 1. cbn [levels]. rewrite K0. symmetry.
        apply s_insert_absent; auto.
        -- unfold gv. cbn [vals]. apply vgetd_vset_same.
        -- intros x Hx. unfold gv. cbn [vals]. apply vgetd_vset_other. intros ->.
           apply mem_false in Em. contradiction.
Qed.

(* ---- Remove ---- *)
Lemma shrink_top levels : forall fuel level, (level <= S fuel)%nat ->
  (shrink fuel levels level <= 1)%nat \/ nth (shrink fuel levels level - 1) levels [] <> [].
Proof.
  induction fuel as [|f IH]; intros level Hl; cbn [Skip.shrink]; [left; lia|].
  destruct (Nat.ltb_spec 1 level) as [H1|H1]; cbn [andb]; [|left; lia].
  destruct (nth (level - 1) levels []) eqn:E; [apply IH; lia|]. right. rewrite E. discriminate.
Qed.

Lemma remove_refines s key : inv s ->
  exists s' r, remove_ s key = Some (s', r) /\ inv s' /\
    r = (match s_find key (pairs s) with Some p => Some (snd p) | None => None end) /\
    pairs s' = s_remove key (pairs s).
Proof.
  intros Hinv. pose proof (inv_levels_ok s Hinv) as Hok. pose proof (inv_sorted0 s Hinv) as Hs0.
  unfold Skip.remove_. rewrite (inv_head_ok s Hinv). cbn [negb].
  pose proof Hinv as (A & B & C & D & E & F & G & H).
  pose proof (remove_levels_spec key (level s) (levels s) Hok ltac:(lia) C) as R. unfold remove_levels in R.
  destruct (rsearch key (levels s) (level s) None 0) as [cl us]. fold (keys0 s) in R.
  rewrite pairs_mkp, s_find_mkp.
  destruct (Nat.eqb_spec cl 0) as [E0|E0].
  - destruct R as [R|R]; [|lia]. rewrite R. exists s, None. split; [reflexivity|]. split; [exact Hinv|]. split; [reflexivity|].
    rewrite pairs_mkp. rewrite (s_remove_mkp (gv s) (gv s)) by auto. rewrite nomem_lows_highs by auto. reflexivity.
  - destruct R as (R1 & R2 & R3 & R4 & R5). rewrite R1. set (lv' := map _ (seq 0 (length (levels s)))) in *.
    eexists _, _. split; [reflexivity|]. split; [|split; [reflexivity|]].
    + destruct R2 as [R2a R2b]. unfold Skip.inv, Skip.keys0. cbn [levels level len has_rand]. repeat split; auto.
      * destruct (Nat.leb_spec (level s) cl).
        -- destruct (shrink_spec lv' (level s) (level s) R5) as (_ & S2 & _). exact S2.
        -- exact R5.
      * destruct (Nat.leb_spec (level s) cl); [|lia].
        destruct (shrink_spec lv' (level s) (level s) R5) as (S1 & _ & S3). specialize (S3 ltac:(lia)). lia.
      * rewrite R3. destruct (Nat.leb_spec (level s) cl); [|lia].
        destruct (shrink_spec lv' (level s) (level s) R5) as (S1 & _ & S3). lia.
      * rewrite R3. exact E.
      * rewrite R4. fold (keys0 s). rewrite F. rewrite (sorted_split_mem key _ Hs0 R1) at 1. rewrite !app_length. cbn [length]. lia.
      * destruct (Nat.leb_spec (level s) cl) as [Hle|Hgt].
        -- destruct (shrink_top lv' (level s) (level s) ltac:(lia)) as [T|T]; [|right; exact T].
           destruct (shrink_spec lv' (level s) (level s) R5) as (S1 & _ & S3). specialize (S3 ltac:(lia)). left. lia.
        -- right. destruct G as [G|G]; [lia|]. unfold lv'. rewrite nth_map_seq by lia.
           destruct (Nat.ltb_spec (level s - 1) cl); [lia|]. exact G.
    + rewrite pairs_mkp. unfold Skip.keys0 at 1. cbn [levels]. rewrite R4. fold (keys0 s).
      symmetry. apply s_remove_mkp; auto.
      intros x _ Hne. unfold gv. cbn [vals]. apply vgetd_vdel_other; auto.
Qed.

(* ---- GetNode / Get ---- *)
Lemma get_node_refines s key : inv s -> get_node s key = Some (s_node key (pairs s)).
Proof.
  intros Hinv. pose proof (inv_levels_ok s Hinv) as Hok. pose proof (inv_sorted0 s Hinv) as Hs0.
  unfold Skip.get_node, Skip.s_node. rewrite (inv_head_ok s Hinv). cbn [negb].
  pose proof Hinv as (A & B & C & D & E & F & G & H).
  rewrite search_spec by (auto; left; reflexivity). rewrite hit_iff_level0 by (auto; lia).
  fold (keys0 s). rewrite pairs_mkp, s_find_mkp, find_mem.
  destruct (mem key (keys0 s)) eqn:Em; [|reflexivity].
  rewrite (mkp_filter (gv s) (fun x => kltb key x)), mkp_fst. fold (highs key (keys0 s)).
  rewrite after_mem by auto. reflexivity.
Qed.

(* ---- Head / Range / All / Keys / Values: `if s.len == 0 { return }`, then the level-0 chain ---- *)
Lemma guard_refines {A} s (d body : A) : inv s -> (keys0 s = [] -> body = d) -> level0_guard K V s d body = Some body.
Proof.
  intros Hinv Hd. unfold Skip.level0_guard. destruct (len s =? 0)%Z eqn:El.
  - apply (inv_len0 s Hinv) in El. rewrite Hd; auto.
  - rewrite (inv_not_zero s Hinv). reflexivity.
Qed.

(* ---- RangeWithStart ---- *)
Lemma s_from_mkp g st ks : Ksorted ks ->
  s_from st (mkp g ks) = mkp g ((if mem st ks then [st] else []) ++ highs st ks).
Proof. intros Hs. unfold Skip.s_from. rewrite (mkp_filter g (fun x => negb (kltb x st))). rewrite from_eq by auto. reflexivity. Qed.

Lemma range_start_refines vr s st f : inv s ->
  range_start vr s st f = Some (visit f 0 (s_from st (pairs s))).
Proof.
  intros Hinv. pose proof (inv_levels_ok s Hinv) as Hok. pose proof (inv_sorted0 s Hinv) as Hs0.
  unfold Skip.range_start. rewrite pairs_mkp, s_from_mkp by auto.
  destruct (len s =? 0)%Z eqn:El.
  { apply (inv_len0 s Hinv) in El. rewrite El. reflexivity. }
  clear El. rewrite (inv_head_ok s Hinv). cbn [negb].
  pose proof Hinv as (A & B & C & D & E & F & G & H).
  rewrite search_spec by (auto; left; reflexivity). rewrite hit_iff_level0 by (auto; lia).
  fold (keys0 s). rewrite find_mem.
  destruct (mem st (keys0 s)) eqn:Em.
  - cbn [app]. rewrite mkp_cons. cbn [Skip.visit]. fold (gv s st).
    unfold Skip.pairs_after. cbn [Skip.nexts]. rewrite after_mem by auto. fold (mkp (gv s) (highs st (keys0 s))).
    destruct (f 0%nat st (gv s st)); reflexivity.
  - cbn [app]. rewrite nth_map_seq by lia. fold (keys0 s).
    pose proof (split_at_pred st _ Hs0 Em) as Hp. unfold Skip.pairs_after.
    destruct (pred st (keys0 s)) as [c|]; cbn [Skip.nexts].
    + destruct Hp as (_ & Ha & _). rewrite Ha. reflexivity.
    + rewrite (inv_not_zero s Hinv). rewrite (sorted_split st _ Hs0 Em) at 1. rewrite Hp. reflexivity.
Qed.

(* ---- RangeWithRange: the wrapper stops at the first key >= stop; the user's callback sees [start, stop) ---- *)
Lemma filter_andb {A} (a b : A -> bool) l : filter (fun x => a x && b x) l = filter b (filter a l).
Proof.
  induction l as [|x t IH]; [reflexivity|]. cbn [filter]. destruct (a x); cbn [andb filter]; [destruct (b x)|]; rewrite IH; reflexivity.
Qed.

Lemma visit_stop f stop : forall L i, Ksorted (map fst L) ->
  filter (fun p : K * V => kltb (fst p) stop) (visit (fun i k v => if kltb k stop then f i k v else false) i L)
  = visit f i (filter (fun p => kltb (fst p) stop) L).
Proof.
  induction L as [|[x v] t IH]; intros i Hs; [reflexivity|]. cbn [map fst] in Hs.
  cbn [Skip.visit filter fst]. destruct (kltb x stop) eqn:Ex.
  - cbn [Skip.visit]. destruct (f i x v); cbn [filter fst]; rewrite Ex; [f_equal; apply IH; apply sorted_tail in Hs; auto|reflexivity].
  - cbn [filter fst]. rewrite Ex.
    rewrite filter_all_false; [reflexivity|]. intros [y w] Hy. cbn [fst].
    assert (In y (map fst t)) by (apply in_map_iff; exists (y, w); auto).
    pose proof (sorted_head_lt x (map fst t) y Hs H). ord.
Qed.

Lemma range_range_refines vr s st stop f : inv s ->
  range_range vr s st stop f = Some (visit f 0 (s_between st stop (pairs s))).
Proof.
  intros Hinv. unfold Skip.range_range. rewrite range_start_refines by auto. f_equal.
  rewrite visit_stop.
  - unfold Skip.s_between, Skip.s_from. rewrite (filter_andb (fun p : K * V => negb (kltb (fst p) st)) (fun p => kltb (fst p) stop)). reflexivity.
  - rewrite pairs_mkp, s_from_mkp by (apply inv_sorted0; auto). rewrite mkp_fst.
    rewrite <- from_eq by (apply inv_sorted0; auto). apply filter_sorted. apply inv_sorted0; auto.
Qed.

(* ================================================================ refinement: every operation, every sequence *)
Local Notation step := (step K V cmp v0).
Local Notation run := (run K V cmp v0).
Local Notation s_step := (s_step K V cmp).
Local Notation s_run := (s_run K V cmp).
Local Notation erase := (erase K V).
Local Notation op := (op K V).
Local Notation res := (res K V).

Definition R (s : sk) (m : omap K V) : Prop := inv s /\ m = pairs s.

Lemma map_const_length {A B C} (c : C) (a : list A) (b : list B) : length a = length b ->
  map (fun _ => c) a = map (fun _ => c) b.
Proof. revert b. induction a as [|x a IH]; destruct b; cbn; intros H; try discriminate; auto. f_equal. apply IH. lia. Qed.

Lemma vset_pairs s k v : inv s -> mem k (keys0 s) = true ->
  inv (mk (levels s) (vset k v (vals s)) (level s) (len s) (has_rand s)) /\
  pairs (mk (levels s) (vset k v (vals s)) (level s) (len s) (has_rand s)) = s_insert k v (pairs s).
Proof.
  intros Hinv Em. split; [exact Hinv|].
  rewrite !pairs_mkp. unfold Skip.keys0. cbn [levels]. fold (keys0 s). symmetry.
  apply s_insert_present; auto.
  - apply inv_sorted0; auto.
  - unfold gv. cbn [vals]. apply vgetd_vset_same.
  - intros x _ Hne. unfold gv. cbn [vals]. apply vgetd_vset_other; auto.
Qed.

Lemma s_mem_pairs s k : s_mem k (pairs s) = mem k (keys0 s).
Proof. rewrite pairs_mkp. apply s_mem_mkp. Qed.
Lemma s_find_pairs s k : s_find k (pairs s) = if mem k (keys0 s) then Some (k, gv s k) else None.
Proof. rewrite pairs_mkp. apply s_find_mkp. Qed.

Lemma step_refines vr s m o rnd : R s m ->
  exists s' r rnd', step vr s o rnd = Some (s', r, rnd') /\ R s' (fst (s_step m o)) /\ erase r = erase (snd (s_step m o)).
Proof.
  intros [Hinv ->]. pose proof (inv_sorted0 s Hinv) as Hs0.
  destruct o as [ |k v|k v|k v|k|k|k v| | | |k| |f|f| | |st f|st e f| ]; cbn [Skip.step Skip.s_step].
  - (* Init *) exists fresh, RUnit, rnd. split; [reflexivity|]. split; [|reflexivity]. split; [apply inv_fresh|symmetry; apply pairs_fresh].
  - (* Set *) destruct (set_refines vr s k v 0 rnd Hinv) as (s' & b & rnd' & E & I & _ & P). rewrite E.
    exists s', RUnit, rnd'. split; [reflexivity|]. split; [|reflexivity]. split; auto. cbn [fst].
    rewrite P. destruct (mem k (keys0 s)); reflexivity.
  - (* SetNx *) destruct (set_refines vr s k v 2 rnd Hinv) as (s' & b & rnd' & E & I & Hb & P). rewrite E.
    exists s', (RBool b), rnd'. split; [reflexivity|]. rewrite s_mem_pairs.
    destruct (mem k (keys0 s)); cbn [Nat.eqb negb fst snd] in *; subst b; (split; [split; auto|reflexivity]).
  - (* SetX *) destruct (set_refines vr s k v 1 rnd Hinv) as (s' & b & rnd' & E & I & Hb & P). rewrite E.
    exists s', (RBool b), rnd'. split; [reflexivity|]. rewrite s_mem_pairs.
    destruct (mem k (keys0 s)); cbn [Nat.eqb negb fst snd] in *; subst b; (split; [split; auto|reflexivity]).
  - (* Get *) rewrite get_node_refines by auto. unfold Skip.s_node.
    destruct (s_find k (pairs s)) as [[k' v]|]; eexists s, _, rnd; (split; [reflexivity|]); (split; [split; auto|reflexivity]).
  - (* GetNode *) rewrite get_node_refines by auto. eexists s, _, rnd. split; [reflexivity|]. split; [split; auto|reflexivity].
  - (* GetNode(k).SetValue(v) *) rewrite get_node_refines by auto. unfold Skip.s_node, Skip.s_mem.
    rewrite s_find_pairs. destruct (mem k (keys0 s)) eqn:Em.
    + destruct (vset_pairs s k v Hinv Em) as [I P]. eexists _, _, rnd. split; [reflexivity|]. cbn [fst snd]. split; [split; auto|reflexivity].
    + eexists s, _, rnd. split; [reflexivity|]. split; [split; auto|reflexivity].
  - (* Len *) eexists s, _, rnd. split; [reflexivity|]. split; [split; auto|]. cbn [snd]. f_equal. f_equal.
    destruct Hinv as (_ & _ & _ & _ & _ & F & _). rewrite F, pairs_mkp, mkp_length. reflexivity.
  - (* Head *) rewrite guard_refines; auto.
    + eexists s, _, rnd. split; [reflexivity|]. split; [split; auto|]. cbn [snd]. f_equal. f_equal.
      rewrite pairs_mkp. destruct (keys0 s) as [|x t]; [reflexivity|]. rewrite mkp_cons. cbn [tl]. rewrite mkp_fst. reflexivity.
    + intros E. rewrite pairs_mkp, E. reflexivity.
  - (* Head/Next walk *) rewrite guard_refines; auto.
    + eexists s, _, rnd. split; [reflexivity|]. split; [split; auto|reflexivity].
    + intros E. rewrite pairs_mkp, E. reflexivity.
  - (* Remove *) destruct (remove_refines s k Hinv) as (s' & r & E & I & Hr & P). rewrite E.
    exists s', (RVal r), rnd. split; [reflexivity|]. split; [split; auto|]. cbn [snd]. rewrite Hr. reflexivity.
  - (* Clear *) exists fresh, RUnit, rnd. split.
    + unfold Skip.clear_. rewrite (inv_not_zero s Hinv). destruct Hinv as (_ & _ & _ & _ & _ & _ & _ & H).
      rewrite H. destruct vr; reflexivity.
    + split; [|reflexivity]. split; [apply inv_fresh|symmetry; apply pairs_fresh].
  - (* Range *) rewrite guard_refines; auto.
    + eexists s, _, rnd. split; [reflexivity|]. split; [split; auto|reflexivity].
    + intros E. rewrite pairs_mkp, E. reflexivity.
  - (* All *) rewrite guard_refines; auto.
    + eexists s, _, rnd. split; [reflexivity|]. split; [split; auto|reflexivity].
    + intros E. rewrite pairs_mkp, E. reflexivity.
  - (* Keys *) rewrite guard_refines; auto.
    eexists s, _, rnd. split; [reflexivity|]. split; [split; auto|]. cbn [snd]. rewrite pairs_mkp, mkp_fst. reflexivity.
  - (* Values *) rewrite guard_refines; auto.
    + eexists s, _, rnd. split; [reflexivity|]. split; [split; auto|reflexivity].
    + intros E. rewrite pairs_mkp, E. reflexivity.
  - (* RangeWithStart *) rewrite range_start_refines by auto. eexists s, _, rnd. split; [reflexivity|]. split; [split; auto|reflexivity].
  - (* RangeWithRange *) rewrite range_range_refines by auto. eexists s, _, rnd. split; [reflexivity|]. split; [split; auto|reflexivity].
  - (* Shape *) eexists s, _, rnd. split; [reflexivity|]. split; [split; auto|]. cbn [snd Skip.erase]. f_equal.
    apply map_const_length. rewrite !map_length, pairs_mkp, mkp_length. reflexivity.
Qed.

Lemma run_refines vr : forall ops s m rnd, R s m ->
  exists rs, run vr s ops rnd = Some rs /\ map erase rs = map erase (s_run m ops).
Proof.
  induction ops as [|o t IH]; intros s m rnd HR; [exists []; split; reflexivity|].
  destruct (step_refines vr s m o rnd HR) as (s' & r & rnd' & E & HR' & Er).
  cbn [Skip.run Skip.s_run]. rewrite E. destruct (s_step m o) as [m' r'] eqn:Es. cbn [fst snd] in *.
  destruct (IH s' m' rnd' HR') as (rs & E' & Ers). rewrite E'.
  exists (r :: rs). split; [reflexivity|]. cbn [map]. rewrite Er, Ers. reflexivity.
Qed.

(* ================================================================ the zero value *)
Lemma is_zero_fresh : is_zero (@fresh K V) = false.
Proof. apply inv_not_zero. apply inv_fresh. Qed.

(* SkipList: on the zero value every operation either leaves it a zero value and answers as the empty map,
   or (Init, and the set family through lazyInit) behaves exactly as on a freshly initialised list *)
Lemma step_zero_plain o rnd :
  (exists r, step Plain zero o rnd = Some (zero, r, rnd) /\ fst (s_step [] o) = [] /\ erase r = erase (snd (s_step [] o)))
  \/ step Plain zero o rnd = step Plain fresh o rnd.
Proof.
  destruct o; cbn [Skip.step Skip.s_step];
    try (right; unfold Skip.set_; cbn [Skip.is_zero Skip.zero levels]; rewrite is_zero_fresh; reflexivity);
    try (right; reflexivity);
    left; eexists; (split; [reflexivity|]); split; reflexivity.
Qed.

Theorem run_zero_plain : forall ops rnd,
  exists rs, run Plain zero ops rnd = Some rs /\ map erase rs = map erase (s_run [] ops).
Proof.
  induction ops as [|o t IH]; intros rnd; [exists []; split; reflexivity|].
  destruct (step_zero_plain o rnd) as [(r & E & Em & Er)|E].
  - cbn [Skip.run Skip.s_run]. rewrite E. destruct (s_step [] o) as [m' r'] eqn:Es. cbn [fst snd] in *. subst m'.
    destruct (IH rnd) as (rs & E' & Ers). rewrite E'. exists (r :: rs). split; [reflexivity|]. cbn [map]. rewrite Er, Ers. reflexivity.
  - destruct (run_refines Plain (o :: t) fresh [] rnd) as (rs & E' & Ers).
    { split; [apply inv_fresh|symmetry; apply pairs_fresh]. }
    exists rs. split; auto. cbn [Skip.run] in *. rewrite E. exact E'.
Qed.

(* SkipListWithCmp before Init: the zero value, and the state Clear leaves (head tower allocated, no generator) *)
Definition cleared : sk := mk (repeat [] maxL) [] 1 0 false.
Lemma maxL_S : exists n, maxL = S n.
Proof. exists (Nat.pred maxL). pose proof maxL_pos'. lia. Qed.

Lemma step_zero_cmp o rnd : pre_init_ok K V o = true ->
  match o with
  | OInit => True
  | OClear => step WithCmp zero o rnd = Some (cleared, RUnit, rnd)
  | _ => exists r, step WithCmp zero o rnd = Some (zero, r, rnd) /\ fst (s_step [] o) = [] /\ erase r = erase (snd (s_step [] o))
  end.
Proof.
  destruct o; cbn [Skip.pre_init_ok]; intros Hok; try discriminate; auto;
    cbn [Skip.step Skip.s_step]; try reflexivity;
    eexists; (split; [reflexivity|]); split; reflexivity.
Qed.

Lemma step_cleared_cmp o rnd : pre_init_ok K V o = true ->
  match o with
  | OInit => True
  | _ => exists r, step WithCmp cleared o rnd = Some (cleared, r, rnd) /\ fst (s_step [] o) = [] /\ erase r = erase (snd (s_step [] o))
  end.
Proof.
  destruct maxL_S as [n En].
  destruct o; cbn [Skip.pre_init_ok]; intros Hok; try discriminate; auto;
    cbn [Skip.step Skip.s_step]; unfold cleared, Skip.set_, Skip.remove_, Skip.get_node, Skip.range_range, Skip.range_start, Skip.level0_guard,
      Skip.clear_, Skip.head_ok, Skip.is_zero, Skip.keys0, Skip.pairs_after, Skip.pairs, Skip.keys0;
    cbn [levels level len has_rand vals]; rewrite ?repeat_length, ?En; cbn;
    eexists; (split; [reflexivity|]); split; reflexivity.
Qed.

Lemma run_cleared_cmp : forall ops rnd, cmp_scope K V ops = true ->
  exists rs, run WithCmp cleared ops rnd = Some rs /\ map erase rs = map erase (s_run [] ops).
Proof.
  induction ops as [|o t IH]; intros rnd Hsc; [exists []; split; reflexivity|].
  assert (Hinit : o = OInit \/ (pre_init_ok K V o = true /\ cmp_scope K V t = true /\ o <> OInit)).
  { destruct o; cbn [Skip.cmp_scope Skip.pre_init_ok orb andb] in Hsc |- *; auto; try discriminate; right; repeat split; auto; discriminate. }
  destruct Hinit as [->|(Hp & Ht & Hne)].
  - destruct (run_refines WithCmp t fresh [] rnd) as (rs & E' & Ers).
    { split; [apply inv_fresh|symmetry; apply pairs_fresh]. }
    exists (RUnit :: rs). cbn [Skip.run Skip.step Skip.s_run Skip.s_step]. rewrite E'. split; [reflexivity|]. cbn [map]. rewrite Ers. reflexivity.
  - pose proof (step_cleared_cmp o rnd Hp) as Hst.
    assert (Hex : exists r, step WithCmp cleared o rnd = Some (cleared, r, rnd) /\ fst (s_step [] o) = [] /\ erase r = erase (snd (s_step [] o))).
    { destruct o; auto. congruence. }
    destruct Hex as (r & E & Em & Er).
    cbn [Skip.run Skip.s_run]. rewrite E. destruct (s_step [] o) as [m' r'] eqn:Es. cbn [fst snd] in *. subst m'.
    destruct (IH rnd Ht) as (rs & E' & Ers). rewrite E'. exists (r :: rs). split; [reflexivity|]. cbn [map]. rewrite Er, Ers. reflexivity.
Qed.

Theorem run_zero_cmp : forall ops rnd, cmp_scope K V ops = true ->
  exists rs, run WithCmp zero ops rnd = Some rs /\ map erase rs = map erase (s_run [] ops).
Proof.
  induction ops as [|o t IH]; intros rnd Hsc; [exists []; split; reflexivity|].
  destruct o eqn:Eo; try (cbn [Skip.cmp_scope Skip.pre_init_ok andb] in Hsc; discriminate).
  1: { (* Init *)
    destruct (run_refines WithCmp t fresh [] rnd) as (rs & E' & Ers).
    { split; [apply inv_fresh|symmetry; apply pairs_fresh]. }
    exists (RUnit :: rs). cbn [Skip.run Skip.step Skip.s_run Skip.s_step]. rewrite E'. split; [reflexivity|]. cbn [map]. rewrite Ers. reflexivity. }
  all: try (
    cbn [Skip.cmp_scope Skip.pre_init_ok andb orb] in Hsc;
    match goal with
    | |- context [Skip.run _ _ _ _ WithCmp _ (?o :: _) _] =>
        destruct (step_zero_cmp o rnd eq_refl) as (r & E & Em & Er);
        cbn [Skip.run Skip.s_run]; rewrite E; destruct (s_step [] o) as [m' r'] eqn:Es; cbn [fst snd] in *; subst m';
        destruct (IH rnd Hsc) as (rs & E' & Ers); rewrite E'; exists (r :: rs); split; [reflexivity|]; cbn [map]; rewrite Er, Ers; reflexivity
    end).
  (* Clear *)
  cbn [Skip.cmp_scope Skip.pre_init_ok andb orb] in Hsc.
  pose proof (step_zero_cmp OClear rnd eq_refl) as E. cbn beta iota in E.
  cbn [Skip.run Skip.s_run]. rewrite E. cbn [Skip.s_step].
  destruct (run_cleared_cmp t rnd Hsc) as (rs & E' & Ers). rewrite E'. exists (RUnit :: rs). split; [reflexivity|]. cbn [map]. rewrite Ers. reflexivity.
Qed.

(* ================================================================ the invariant along every sequence *)
Local Notation exec := (exec K V cmp v0).

Lemma exec_inv vr : forall ops s m rnd, R s m -> exists s', exec vr s ops rnd = Some s' /\ inv s'.
Proof.
  induction ops as [|o t IH]; intros s m rnd HR; [exists s; split; [reflexivity|apply HR]|].
  destruct (step_refines vr s m o rnd HR) as (s' & r & rnd' & E & HR' & _).
  cbn [Skip.exec]. rewrite E. apply (IH s' _ rnd' HR').
Qed.

Lemma exec_zero_plain : forall ops rnd, exists s', exec Plain zero ops rnd = Some s' /\ (s' = zero \/ inv s').
Proof.
  induction ops as [|o t IH]; intros rnd; [exists zero; split; [reflexivity|left; reflexivity]|].
  destruct (step_zero_plain o rnd) as [(r & E & _)|E].
  - cbn [Skip.exec]. rewrite E. apply IH.
  - destruct (exec_inv Plain (o :: t) fresh [] rnd) as (s' & E' & I).
    { split; [apply inv_fresh|symmetry; apply pairs_fresh]. }
    exists s'. split; [|right; exact I]. cbn [Skip.exec] in *. rewrite E. exact E'.
Qed.

Lemma exec_fresh_cmp : forall ops rnd, exists s', exec WithCmp fresh ops rnd = Some s' /\ inv s'.
Proof. intros ops rnd. apply (exec_inv WithCmp ops fresh [] rnd). split; [apply inv_fresh|symmetry; apply pairs_fresh]. Qed.

(* ================================================================ tower heights (the Shape observation) *)
Local Notation height := (height K V cmp).

Lemma levels_as_map (ls : list (list K)) : ls = map (fun j => nth j ls []) (seq 0 (length ls)).
Proof.
  apply (nth_ext _ _ [] []); [rewrite map_length, seq_length; reflexivity|].
  intros j Hj. rewrite nth_map_seq by auto. reflexivity.
Qed.
Lemma filter_map_length {A B} (f : B -> bool) (g : A -> B) l : length (filter f (map g l)) = length (filter (fun x => f (g x)) l).
Proof. induction l as [|x t IH]; [reflexivity|]. cbn [map filter]. destruct (f (g x)); cbn [length]; rewrite IH; reflexivity. Qed.

Lemma count_downclosed (P : nat -> bool) : forall n,
  (forall i j, (j <= i)%nat -> (i < n)%nat -> P i = true -> P j = true) ->
  (length (filter P (seq 0 n)) <= n)%nat /\ forall j, (j < n)%nat -> P j = (j <? length (filter P (seq 0 n)))%nat.
Proof.
  induction n as [|n IH]; intros Hd; [split; [cbn; lia|intros; lia]|].
  destruct IH as [I1 I2]; [intros i j Hji Hi; apply Hd; auto; lia|].
  rewrite seq_S, filter_app, app_length. cbn [Nat.add filter]. destruct (P n) eqn:En; cbn [length].
  - assert (Hall : forall j, (j <= n)%nat -> P j = true) by (intros j Hj; apply (Hd n j); auto; lia).
    assert (Hc : length (filter P (seq 0 n)) = n).
    { destruct n as [|m]; [reflexivity|]. specialize (I2 m ltac:(lia)). rewrite Hall in I2 by lia.
      symmetry in I2. apply Nat.ltb_lt in I2. lia. }
    rewrite Hc. split; [lia|]. intros j Hj. rewrite Hall by lia. symmetry. apply Nat.ltb_lt. lia.
  - rewrite Nat.add_0_r. split; [lia|]. intros j Hj. destruct (Nat.eq_dec j n) as [->|Hne]; [|apply I2; lia].
    rewrite En. symmetry. apply Nat.ltb_ge. exact I1.
Qed.

Lemma height_spec s k : inv s ->
  (forall j, (j < length (levels s))%nat -> mem k (nth j (levels s) []) = (j <? height s k)%nat) /\
  (height s k <= level s)%nat /\ (In k (keys0 s) -> (1 <= height s k)%nat).
Proof.
  intros Hinv. pose proof (inv_levels_ok s Hinv) as Hok. pose proof Hinv as (A & B & C & D & E & F & G & H).
  assert (Hh : height s k = length (filter (fun j => mem k (nth j (levels s) [])) (seq 0 (length (levels s))))).
  { unfold Skip.height. rewrite (levels_as_map (levels s)) at 1. rewrite filter_map_length. reflexivity. }
  destruct (count_downclosed (fun j => mem k (nth j (levels s) [])) (length (levels s))) as [C1 C2].
  { intros i j Hji Hi Hm. apply (mem_down k (levels s) Hok i j); auto. }
  rewrite <- Hh in C1, C2. split; [exact C2|]. split.
  - destruct (Nat.le_gt_cases (height s k) (level s)) as [|Hgt]; auto. exfalso.
    specialize (C2 (level s) ltac:(lia)). rewrite (C (level s)) in C2 by lia. cbn in C2.
    symmetry in C2. apply Nat.ltb_ge in C2. lia.
  - intros Hin. specialize (C2 0%nat ltac:(lia)). fold (keys0 s) in C2.
    replace (mem k (keys0 s)) with true in C2 by (symmetry; apply mem_true; auto). symmetry in C2. apply Nat.ltb_lt in C2. lia.
Qed.

End Chain.

(* ================================================================ closed statements: the Section hypotheses packed as total_order *)
Theorem skip_refines_omap K V cmp v0 : total_order K cmp -> forall ops rnd,
  exists rs, run K V cmp v0 Plain zero ops rnd = Some rs /\ map (erase K V) rs = map (erase K V) (s_run K V cmp [] ops).
Proof. intros (A & B & C). apply run_zero_plain; auto. Qed.

Theorem skipcmp_refines_omap K V cmp v0 : total_order K cmp -> forall ops rnd, cmp_scope K V ops = true ->
  exists rs, run K V cmp v0 WithCmp zero ops rnd = Some rs /\ map (erase K V) rs = map (erase K V) (s_run K V cmp [] ops).
Proof. intros (A & B & C). apply run_zero_cmp; auto. Qed.

Theorem skip_refines_from_inv K V cmp v0 : total_order K cmp -> forall vr s ops rnd, inv K V cmp s ->
  exists rs, run K V cmp v0 vr s ops rnd = Some rs /\ map (erase K V) rs = map (erase K V) (s_run K V cmp (pairs K V cmp v0 s) ops).
Proof. intros (A & B & C) vr s ops rnd I. apply (run_refines K cmp A B C V v0 vr ops s _ rnd). split; auto. Qed.

Theorem skip_inv_plain K V cmp v0 : total_order K cmp -> forall ops rnd,
  exists s', exec K V cmp v0 Plain zero ops rnd = Some s' /\ (s' = zero \/ inv K V cmp s').
Proof. intros (A & B & C). apply exec_zero_plain; auto. Qed.

Theorem skip_inv_cmp K V cmp v0 : total_order K cmp -> forall ops rnd,
  exists s', exec K V cmp v0 WithCmp fresh ops rnd = Some s' /\ inv K V cmp s'.
Proof. intros (A & B & C). apply exec_fresh_cmp; auto. Qed.

Theorem range_with_start_spec K V cmp v0 : total_order K cmp -> forall vr s start f, inv K V cmp s ->
  range_start K V cmp v0 vr s start f = Some (visit K V f 0 (s_from K V cmp start (pairs K V cmp v0 s))).
Proof. intros (A & B & C) vr s st f I. apply range_start_refines; auto. Qed.

Theorem range_with_range_spec K V cmp v0 : total_order K cmp -> forall vr s start stop f, inv K V cmp s ->
  range_range K V cmp v0 vr s start stop f = Some (visit K V f 0 (s_between K V cmp start stop (pairs K V cmp v0 s))).
Proof. intros (A & B & C) vr s st e f I. apply range_range_refines; auto. Qed.

Theorem get_node_spec K V cmp v0 : total_order K cmp -> forall s key, inv K V cmp s ->
  get_node K V cmp v0 s key = Some (s_node K V cmp key (pairs K V cmp v0 s)).
Proof. intros (A & B & C) s key I. apply get_node_refines; auto. Qed.

Theorem remove_spec K V cmp v0 : total_order K cmp -> forall s key, inv K V cmp s ->
  exists s' r, remove_ K V cmp v0 s key = Some (s', r) /\ inv K V cmp s' /\
    r = (match s_find K V cmp key (pairs K V cmp v0 s) with Some p => Some (snd p) | None => None end) /\
    pairs K V cmp v0 s' = s_remove K V cmp key (pairs K V cmp v0 s).
Proof. intros (A & B & C) s key I. apply remove_refines; auto. Qed.

(* Set / SetX / SetNx, for every raw random word: mode 0 always writes, 1 only when present, 2 only when absent *)
Theorem set_spec K V cmp v0 : total_order K cmp -> forall vr s key val mode rnd, inv K V cmp s ->
  exists s' b rnd', set_ K V cmp vr s key val mode rnd = Some (s', b, rnd') /\ inv K V cmp s' /\
    let present := s_mem K V cmp key (pairs K V cmp v0 s) in
    b = (if present then negb (mode =? 2)%nat else negb (mode =? 1)%nat) /\
    pairs K V cmp v0 s' = (if (if present then (mode =? 2)%nat else (mode =? 1)%nat) then pairs K V cmp v0 s
                           else s_insert K V cmp key val (pairs K V cmp v0 s)).
Proof.
  intros (A & B & C) vr s key val mode rnd I. cbv zeta. rewrite (s_mem_pairs K cmp A V v0).
  apply set_refines; auto.
Qed.

(* a zero-value SkipList answers every single method as the empty map, before and after Clear *)
Theorem zero_value_is_empty K V cmp v0 : total_order K cmp -> forall o rnd,
  (exists r, run K V cmp v0 Plain zero [o] rnd = Some [r] /\ erase K V r = erase K V (snd (s_step K V cmp [] o))) /\
  (exists r, run K V cmp v0 Plain zero [OClear; o] rnd = Some [RUnit; r] /\ erase K V r = erase K V (snd (s_step K V cmp [] o))).
Proof.
  intros T o rnd. split.
  - destruct (skip_refines_omap K V cmp v0 T [o] rnd) as (rs & E & M).
    cbn [s_run] in M. destruct (s_step K V cmp [] o) as [m' r'] eqn:Es. cbn [map snd] in *.
    destruct rs as [|r [|r2 rs]]; try discriminate. exists r. split; auto. inversion M; auto.
  - destruct (skip_refines_omap K V cmp v0 T [OClear; o] rnd) as (rs & E & M).
    cbn [s_run s_step] in M. destruct (s_step K V cmp [] o) as [m' r'] eqn:Es. cbn [map snd] in *.
    destruct rs as [|r1 [|r [|r3 rs]]]; try discriminate. inversion M as [[M1 M2]].
    destruct r1; try discriminate. exists r. split; auto.
Qed.

(* the tower height observed by Shape is the number of levels holding the node: k is in level j iff j < height *)
Theorem height_is_tower K V cmp : total_order K cmp -> forall (s : sk K V) k, inv K V cmp s ->
  (forall j, (j < maxL)%nat -> In k (nth j (levels s) []) <-> (j < height K V cmp s k)%nat) /\
  (height K V cmp s k <= level s)%nat /\ (In k (keys0 K V s) -> (1 <= height K V cmp s k)%nat).
Proof.
  intros (A & B & C) s k I. destruct (height_spec K cmp A B V s k I) as (H1 & H2 & H3).
  split; [|split; auto]. intros j Hj. assert (E : length (levels s) = maxL) by apply I.
  rewrite <- (mem_true K cmp A B). rewrite H1 by lia. apply Nat.ltb_lt.
Qed.
