(* C19: the judge of run family 0 accepts the model's own prediction, and the prediction is never NOFUEL — for every limit and
   every script (any list of integers: unknown op codes and a trailing odd element are ignored by run_script, kinds are taken
   mod 7, GO is skipped at 40 tasks; no well-formedness premise is needed). *)
From Coq Require Import List Arith ZArith Lia Bool Permutation FinFun.
From V Require Import Lib.Enc Gen.ConstsGoz Model.Limiter Run.C19 Proofs.Limiter Proofs.LimiterSim Proofs.LimiterJudgeTrace Proofs.LimiterJudgeSim.
Import ListNotations.

Arguments panic_value : simpl never.

Lemma simulate_final n ops :
  simulate n ops = put_list (enc_trace (rev (s_out (final_sim n ops)))) ++
                   [zi (s_next (final_sim n ops)); zi (s_npanic (final_sim n ops)); zi (s_maxin (final_sim n ops))].
Proof.
  destruct (final_sim_ok n ops) as (_ & Hb & Hw & Hq & _). cbv zeta in *. unfold simulate. cbv zeta.
  change (op_wait (drain (3 * MAXTASKS) (run_script (sim0 n) ops))) with (final_sim n ops).
  rewrite Hb, Hw, Hq. reflexivity.
Qed.

(* (1) the fuel suffices: a third of it already empties the set of running tasks, and the answer is never NOFUEL *)
Theorem simulate_total n ops :
  simulate n ops <> [NOFUEL] /\
  (forall f, MAXTASKS <= f -> s_act (drain f (run_script (sim0 n) ops)) = []).
Proof.
  split.
  - rewrite simulate_final. unfold put_list. cbn [app]. intros E.
    apply (f_equal (fun l => match l with x :: _ => x | [] => 0%Z end)) in E. cbv beta iota in E. unfold NOFUEL in E. lia.
  - intros f Hf. pose proof (SI_run_script n ops _ (SI_sim0 n)) as H0.
    apply (SI_drain n f _ H0). pose proof (mu_bound _ _ H0). lia.
Qed.

(* (2) the judge on the final state of the simulation *)
Lemma judge_final n m o : SI n m -> s_act m = [] -> s_queue m = [] -> s_out m = (E_WAITRET, 0%Z, 0%Z) :: o ->
  spec_script n (put_list (enc_trace (rev (s_out m))) ++ [zi (s_next m); zi (s_npanic m); zi (s_maxin m)]) = true.
Proof.
  intros (HB & _) Ha Hq Ho. pose proof (b_core _ _ HB) as Hc. pose proof (c_tr _ _ _ _ Hc) as Htr.
  set (tr := rev (s_out m)) in *.
  assert (F1 : forall i, In i (ids_of tr) -> exists j, i = zi j /\ phase i 0 tr = Some 5 /\ tasks (s_lim m) j = Finished).
  { intros i Hi. destruct (ids_of_in _ _ Hi) as (c & v & Hin & Ht). unfold tr in Hin. apply in_rev in Hin.
    pose proof (t_ids _ _ _ _ Htr) as Hids. rewrite Forall_forall in Hids. destruct (Hids _ Hin) as [j Ej]. cbn [fst snd] in Ej. subst i.
    exists j. split; auto. pose proof (t_phase _ _ _ _ Htr j) as Hp. cbv beta in Hp. fold tr in Hp. pose proof (ids_of_phase _ _ Hi) as Hn0.
    destruct (c_prf _ _ _ _ Hc j) as [E|[E|E]]; rewrite E in Hp; cbn [ph] in Hp.
    - congruence.
    - apply (c_run _ _ _ _ Hc) in E. rewrite Ha in E. contradiction.
    - auto. }
  assert (F2 : length (ids_of tr) = s_next m).
  { assert (A : incl (ids_of tr) (map zi (seq 0 (s_next m)))).
    { intros i Hi. destruct (F1 i Hi) as (j & -> & _ & Hf). apply in_map. apply in_seq. split; [lia|].
      destruct (Nat.lt_ge_cases j (s_next m)) as [|Hge]; [cbn; lia|]. rewrite (b_hi _ _ HB j Hge) in Hf. discriminate. }
    assert (B : incl (map zi (seq 0 (s_next m))) (ids_of tr)).
    { intros i Hi. apply in_map_iff in Hi as (j & <- & Hj). apply in_seq in Hj. pose proof (t_phase _ _ _ _ Htr j) as Hp. cbv beta in Hp. fold tr in Hp.
      destruct (c_prf _ _ _ _ Hc j) as [E|[E|E]].
      - apply (b_lo _ _ HB) in E; [|lia]. rewrite Hq in E. contradiction.
      - apply (c_run _ _ _ _ Hc) in E. rewrite Ha in E. contradiction.
      - rewrite E in Hp. cbn [ph] in Hp. apply (phase_pos_in _ _ _ Hp). discriminate. }
    assert (N1 : NoDup (ids_of tr)) by apply NoDup_nodup.
    assert (N2 : NoDup (map zi (seq 0 (s_next m)))) by (apply Injective_map_NoDup; [intros a b; apply zi_inj|apply seq_NoDup]).
    pose proof (NoDup_incl_length N1 A) as L1. pose proof (NoDup_incl_length N2 B) as L2.
    rewrite map_length, seq_length in *. lia. }
  assert (F1' : forall i, In i (ids_of tr) -> exists j, i = zi j /\ phase i 0 tr = Some 5).
  { intros i Hi. destruct (F1 i Hi) as (j & A & B & _). eauto. }
  assert (S1 : no_hang tr = true) by apply (t_hang _ _ _ _ Htr).
  assert (S2 : gauge_ok (eff_limit n) 0 tr = true) by (rewrite <- (c_lim _ _ _ _ Hc); apply (t_gok _ _ _ _ Htr)).
  assert (S3 : forallb (task_once tr) (ids_of tr) = true).
  { apply forallb_forall. intros i Hi. destruct (F1 i Hi) as (j & _ & H5 & _). apply phase_task_once. exact H5. }
  assert (S4 : raise_matches tr = true) by apply (t_rm _ _ _ _ Htr).
  assert (S5 : waits_ok tr tr 0 = true).
  { apply waits_ok_all; auto. intros t1 e t2 E He. eapply (G2rev_split _ (t_g2 _ _ _ _ Htr)); eauto. }
  assert (S6 : ends_with_waitret tr = true) by (unfold tr; rewrite Ho; cbn [rev]; apply ends_with_waitret_snoc).
  assert (S7 : accept_obs (new_limiter n) 0 tr = inl (s_lim m)) by apply (c_J _ _ _ _ Hc).
  assert (S8 : forallb (fun i => match tasks (s_lim m) (Z.to_nat i) with Finished => true | _ => false end) (ids_of tr) = true).
  { apply forallb_forall. intros i Hi. destruct (F1 i Hi) as (j & -> & _ & Hf). rewrite zi_id, Hf. reflexivity. }
  unfold spec_script. rewrite get_put_list, dec_enc_trace. fold tr.
  pose proof (b_np _ _ HB) as Hnp. fold tr in Hnp.
  unfold trace_spec. rewrite S1, S2, S3, S4, S5, S6, S7, S8, (c_tok _ _ _ _ Hc), (c_wg _ _ _ _ Hc), Ha, F2, <- Hnp.
  cbn [length Nat.eqb andb]. unfold zi. rewrite !Z.eqb_refl. cbn [andb].
  apply Z.leb_le. apply inj_le. rewrite <- (c_lim _ _ _ _ Hc). apply (b_max _ _ HB).
Qed.

Theorem judge_accepts_model n ops : spec_script n (simulate n ops) = true.
Proof.
  destruct (final_sim_ok n ops) as (HS & _ & _ & Hq & Ha & o & Ho). cbv zeta in *. rewrite simulate_final.
  eapply judge_final; eauto.
Qed.

(* token level: what the run's sub 2 computes on a family-0 case paired with the model's own sub 0 answer *)
Definition wf_case (case : list Z) : bool := match case with 0%Z :: _ :: _ => true | _ => false end.

Lemma entry2_eq args : entry 2 args =
  let (case, rest) := get_list args in
  let (out, _) := get_list rest in
  match case with
  | 0 :: n :: ops => [zb (spec_script n out)]
  | 1 :: n :: s :: m :: seed :: pk :: maxin :: tr => [zb (stress_spec n (s * m) seed pk maxin (dec_trace tr) out)]
  | 2 :: hnil :: fn :: cs => [zb (list_eqb out (recover_spec_out (bz hnil) fn cs))]
  | [3; n; s; m] => [zb (list_eqb out [s * m; 0; 1])]
  | [5; n; rounds; extra] => [zb (list_eqb out [rounds * (2 * Z.of_nat (eff_limit n) + extra); 1; 1])]
  | [4; n; hk; vk; k] => [zb (list_eqb out [1; (if hk mod 4 =? 0 then 0 else k); Z.of_nat (eff_limit n); 1])]
  | _ => [BADCASE]
  end%Z.
Proof. reflexivity. Qed.

Theorem judge_accepts_entry case : wf_case case = true ->
  entry 2 (put_list case ++ put_list (entry 0 case)) = [1%Z] /\ entry 0 case <> [NOFUEL].
Proof.
  destruct case as [|z [|n ops]]; [discriminate|destruct z; discriminate|]. destruct z; try discriminate. intros _.
  change (entry 0 (0%Z :: n :: ops)) with (simulate n ops). split; [|apply (proj1 (simulate_total n ops))].
  rewrite entry2_eq, get_put_list. rewrite <- (app_nil_r (put_list (simulate n ops))), get_put_list.
  rewrite judge_accepts_model. reflexivity.
Qed.

(* c19_simulate_is_model_trace without its NOFUEL alternative *)
Theorem simulate_model_trace_total n ops :
  exists tr fin s, simulate n ops = put_list (enc_trace tr) ++ fin /\
    accept_obs (new_limiter n) 0 tr = inl s /\ wg s = 0 /\ tokens s = 0 /\ ends_with_waitret tr = true.
Proof. destruct (simulate_is_model_trace n ops) as [E|H]; [destruct (proj1 (simulate_total n ops) E)|exact H]. Qed.

(* the premise of the token-level statement is satisfiable, and the statement computes on the run's anchor case *)
Example wf_case_anchor : wf_case [0; 1; 1;0; 1;1; 3;0; 2;0]%Z = true.
Proof. reflexivity. Qed.
