(* C13 — the counted copy loops of listz/doubly_list.go (PushBackDList, PushFrontDList) as GENERATED in coq/Gen/DListCode.v
   equal the hand model's copy_back / copy_front (Model/DList.v), for all heaps and non-nil list ids; fuel above the number
   of copies (other.Len() after lazyInit, read ONCE before the loop — what makes l.PushBackDList(l) terminate).
   The callees stay folded and are rewritten by their theorems of Proofs/DListCode.v. *)
From Coq Require Import List ZArith Lia Bool Arith.
From V Require Import Model.DList Lib.GoSem Lib.GoSemHeap Proofs.GoSemFacts Gen.DListCode Proofs.DListCode.
Import GoNotations.
Local Open Scope Z_scope.

(* ---- PushBackDList / PushFrontDList: counted loops (the count is taken before the first insertion: self-copy ends) *)
Theorem code_insertValue_nil : forall h L v, g_DList_insertValue h (Some L) v None = Panic.
Proof. crush2. Qed.

Section CopyLoops.
Context {R : Type} (L : nat).
Let St : Type := (Heap * Z * ptr)%type.

Lemma copy_back_bind {B} (c : St -> M bool) (b : St -> M (ctl St R)) (p : St -> M St) (K : St + R -> M B) :
  (forall h i e, c (h, i, e) = Ret (0 <? i)) ->
  (forall h i e, b (h, i, e) = bind (h_get (DNode_Value h) e) (fun v => bind (h_get (DNode_prev h) (Some L)) (fun a =>
                   bind (g_DList_insertValue h (Some L) v a) (fun '(h1, _) => Ret (Next (h1, i, e)))))) ->
  (forall h i e, p (h, i, e) = bind (g_DNode_Next h e) (fun '(h1, v) => Ret (h1, i - 1, v))) ->
  (forall h i e i' e', K (inl (h, i, e)) = K (inl (h, i', e'))) ->
  forall n fuel h i e, n = Z.to_nat i -> (n < fuel)%nat ->
  bind (while fuel c b p (h, i, e)) K =
  match copy_back n (tm h) L e with Some m => K (inl (hm m, 0, None)) | None => Panic end.
Proof.
  intros HC HB HP HK. induction n; intros fuel h i e Hn Hf; (destruct fuel; [lia|]); rewrite while_step, HC.
  - replace (0 <? i) with false by (symmetry; apply Z.ltb_ge; lia). cbn [bind copy_back]. rewrite hm_tm. apply HK.
  - replace (0 <? i) with true by (symmetry; apply Z.ltb_lt; lia). cbn [bind]. rewrite HB.
    destruct e as [x|]; cbn [bind h_get copy_back]; [|reflexivity].
    change (prv (tm h) L) with (DNode_prev h L). change (val (tm h) x) with (DNode_Value h x).
    destruct (DNode_prev h L) as [a|]; [|rewrite code_insertValue_nil; reflexivity].
    rewrite code_insertValue. destruct (insert_value (tm h) L (DNode_Value h x) a) as [[m' e']|]; cbn [lift mmap bind]; [|reflexivity].
    unfold st_pe; cbn [fst snd bind]. rewrite HP, code_Next. cbn [bind]. rewrite tm_hm.
    rewrite (IHn fuel (hm m') (i - 1) (node_next m' x)) by lia. rewrite tm_hm. reflexivity.
Qed.

Lemma copy_front_bind {B} (c : St -> M bool) (b : St -> M (ctl St R)) (p : St -> M St) (K : St + R -> M B) :
  (forall h i e, c (h, i, e) = Ret (0 <? i)) ->
  (forall h i e, b (h, i, e) = bind (h_get (DNode_Value h) e) (fun v => bind (h_addr (Some L)) (fun a =>
                   bind (g_DList_insertValue h (Some L) v a) (fun '(h1, _) => Ret (Next (h1, i, e)))))) ->
  (forall h i e, p (h, i, e) = bind (g_DNode_Prev h e) (fun '(h1, v) => Ret (h1, i - 1, v))) ->
  (forall h i e i' e', K (inl (h, i, e)) = K (inl (h, i', e'))) ->
  forall n fuel h i e, n = Z.to_nat i -> (n < fuel)%nat ->
  bind (while fuel c b p (h, i, e)) K =
  match copy_front n (tm h) L e with Some m => K (inl (hm m, 0, None)) | None => Panic end.
Proof.
  intros HC HB HP HK. induction n; intros fuel h i e Hn Hf; (destruct fuel; [lia|]); rewrite while_step, HC.
  - replace (0 <? i) with false by (symmetry; apply Z.ltb_ge; lia). cbn [bind copy_front]. rewrite hm_tm. apply HK.
  - replace (0 <? i) with true by (symmetry; apply Z.ltb_lt; lia). cbn [bind]. rewrite HB.
    destruct e as [x|]; cbn [bind h_get h_addr copy_front]; [|reflexivity].
    change (val (tm h) x) with (DNode_Value h x).
    rewrite code_insertValue. destruct (insert_value (tm h) L (DNode_Value h x) L) as [[m' e']|]; cbn [lift mmap bind]; [|reflexivity].
    unfold st_pe; cbn [fst snd bind]. rewrite HP, code_Prev. cbn [bind]. rewrite tm_hm.
    rewrite (IHn fuel (hm m') (i - 1) (node_prev m' x)) by lia. rewrite tm_hm. reflexivity.
Qed.
End CopyLoops.

Ltac one_iter := intros; reflexivity.

Theorem code_PushBackDList : forall fuel h L L', (Z.to_nat (llen (lazy_init (tm h) L) L') < fuel)%nat ->
  g_DList_PushBackDList fuel h (Some L) (Some L') =
  mmap st_u (lift (let h1 := lazy_init (tm h) L in copy_back (Z.to_nat (llen h1 L')) h1 L (front h1 L'))).
Proof.
  intros fuel h L L' Hf. unfold g_DList_PushBackDList.
  rewrite code_lazyInit. unfold st_u at 1. cbn [bind]. rewrite code_Len. cbn [bind]. rewrite code_Front. cbn [bind].
  rewrite tm_hm. cbv zeta.
  match goal with |- bind (while _ ?c ?b ?p (?h0, ?i0, ?e0)) ?K = _ =>
    etransitivity; [exact (copy_back_bind L c b p K ltac:(one_iter) ltac:(one_iter) ltac:(one_iter) ltac:(one_iter)
                             (Z.to_nat i0) fuel h0 i0 e0 eq_refl Hf)|] end.
  rewrite tm_hm. destruct (copy_back _ _ _ _); reflexivity.
Qed.

Theorem code_PushFrontDList : forall fuel h L L', (Z.to_nat (llen (lazy_init (tm h) L) L') < fuel)%nat ->
  g_DList_PushFrontDList fuel h (Some L) (Some L') =
  mmap st_u (lift (let h1 := lazy_init (tm h) L in copy_front (Z.to_nat (llen h1 L')) h1 L (back h1 L'))).
Proof.
  intros fuel h L L' Hf. unfold g_DList_PushFrontDList.
  rewrite code_lazyInit. unfold st_u at 1. cbn [bind]. rewrite code_Len. cbn [bind]. rewrite code_Back. cbn [bind].
  rewrite tm_hm. cbv zeta.
  match goal with |- bind (while _ ?c ?b ?p (?h0, ?i0, ?e0)) ?K = _ =>
    etransitivity; [exact (copy_front_bind L c b p K ltac:(one_iter) ltac:(one_iter) ltac:(one_iter) ltac:(one_iter)
                             (Z.to_nat i0) fuel h0 i0 e0 eq_refl Hf)|] end.
  rewrite tm_hm. destruct (copy_front _ _ _ _); reflexivity.
Qed.

Definition dlist_copy_code_is_model_stmt : Prop :=
  (forall fuel h L L', (Z.to_nat (llen (lazy_init (tm h) L) L') < fuel)%nat ->
     g_DList_PushBackDList fuel h (Some L) (Some L') =
     mmap st_u (lift (let h1 := lazy_init (tm h) L in copy_back (Z.to_nat (llen h1 L')) h1 L (front h1 L')))) /\
  (forall fuel h L L', (Z.to_nat (llen (lazy_init (tm h) L) L') < fuel)%nat ->
     g_DList_PushFrontDList fuel h (Some L) (Some L') =
     mmap st_u (lift (let h1 := lazy_init (tm h) L in copy_front (Z.to_nat (llen h1 L')) h1 L (back h1 L')))).
Theorem dlist_copy_code_is_model : dlist_copy_code_is_model_stmt.
Proof. exact (conj code_PushBackDList code_PushFrontDList). Qed.
