(* C05 — abstract Aho-Corasick theory (algorithm level; a node is its word; the trie is any prefix-closed [inT] with a
   [kids] function): the failure-link recurrence, the queue-driven BFS with its invariant, the matching walk and the
   output chain.  From design-notes/proto/TrieFailureLinks_proto.v.  Proofs/TrieBuild.v and TrieFind.v tie the
   executable model (Model/Trie.v) to these definitions. *)
From Coq Require Import List ZArith Lia Bool Arith.
From V Require Import Model.Trie.
Import ListNotations.

(* Algorithm-level model of algz.Trie.BuildFailureLinks:
   the trie is a prefix-closed set of words (one word per node), the fail link of a node is a word,
   the queue holds words, the inner loop walks the fail chain exactly as the code does. *)

Lemma word_eq_dec : forall a b : word, {a = b} + {a <> b}.
Proof. apply list_eq_dec, Z.eq_dec. Qed.

Section AC.
Variable inT : word -> bool.
Variable kids : word -> list Z.
Hypothesis inT_nil : inT [] = true.
Hypothesis inT_prefix : forall w c, inT (w ++ [c]) = true -> inT w = true.
Hypothesis kids_spec : forall w c, In c (kids w) <-> inT (w ++ [c]) = true.

(* ---- specification: longest proper suffix that is a trie word ---- *)
Fixpoint suffixes (w : word) : list word :=
  match w with [] => [[]] | _ :: t => w :: suffixes t end.
Definition proper_suffixes (w : word) : list word := match w with [] => [] | _ :: t => suffixes t end.
Definition lps (w : word) : word := hd [] (filter inT (proper_suffixes w)).

Definition is_suffix (u w : word) : Prop := exists p, w = p ++ u.

Lemma suffixes_spec w u : In u (suffixes w) <-> is_suffix u w.
Proof.
  induction w as [|a w IH]; cbn [suffixes In].
  - split.
    + intros [<-|[]]. exists []. reflexivity.
    + intros (p & E). left. symmetry in E. apply app_eq_nil in E. destruct E; auto.
  - split.
    + intros [<-|H]. exists []. reflexivity. apply IH in H. destruct H as (p & ->). exists (a :: p). reflexivity.
    + intros (p & E). destruct p as [|b p]; cbn [app] in E.
      * left. auto.
      * right. inversion E; subst. apply IH. exists p. reflexivity.
Qed.

Lemma suffixes_length_sorted w : forall u, In u (suffixes w) -> length u <= length w.
Proof. intros u H. apply suffixes_spec in H. destruct H as (p & ->). rewrite app_length. lia. Qed.

(* suffixes are listed longest first, so the head of the filtered list is the longest qualifying one *)
Lemma hd_filter_longest (P : word -> bool) w u :
  In u (suffixes w) -> P u = true -> length u <= length (hd [] (filter P (suffixes w))) /\
  In (hd [] (filter P (suffixes w))) (suffixes w) /\ P (hd [] (filter P (suffixes w))) = true.
Proof.
  induction w as [|a w IH]; cbn [suffixes]; intros Hin HP.
  - destruct Hin as [<-|[]]. cbn [filter]. rewrite HP. cbn. auto.
  - cbn [filter]. destruct (P (a :: w)) eqn:E.
    + cbn [hd]. split; [|split; [left; reflexivity|exact E]].
      change ((a :: w) :: suffixes w) with (suffixes (a :: w)) in Hin. apply suffixes_length_sorted in Hin. exact Hin.
    + destruct Hin as [<-|Hin]; [congruence|]. destruct (IH Hin HP) as (H1 & H2 & H3).
      split; [exact H1|split; [right; exact H2|exact H3]].
Qed.

Lemma lps_spec w : w <> [] ->
  inT (lps w) = true /\ is_suffix (lps w) w /\ length (lps w) < length w /\
  (forall u, is_suffix u w -> length u < length w -> inT u = true -> length u <= length (lps w)).
Proof.
  intros Hw. destruct w as [|a t]; [congruence|]. unfold lps, proper_suffixes.
  assert (Hnil : In [] (suffixes t)) by (apply suffixes_spec; exists t; rewrite app_nil_r; reflexivity).
  destruct (hd_filter_longest inT t [] Hnil inT_nil) as (_ & Hin & HP).
  split; [exact HP|]. split.
  - apply suffixes_spec in Hin. destruct Hin as (p & E). exists (a :: p). cbn. rewrite E at 1. reflexivity.
  - split.
    + apply suffixes_length_sorted in Hin. cbn [length]. lia.
    + intros u (p & E) Hl Hu. destruct p as [|b p].
      * cbn in E. subst u. lia.
      * cbn in E. inversion E; subst. apply (hd_filter_longest inT (p ++ u) u); auto.
        apply suffixes_spec. exists p. reflexivity.
Qed.

(* ---- a structural "longest suffix satisfying P" and the facts the algorithm rests on ---- *)
Fixpoint best (P : word -> bool) (w : word) : option word :=
  if P w then Some w else match w with [] => None | _ :: t => best P t end.

Lemma best_restrict (P Q : word -> bool) t v0 :
  (forall x, P x = true -> Q x = true) -> best Q t = Some v0 -> best P t = best P v0.
Proof.
  intros HPQ. induction t as [|a t IH]; intros H.
  - cbn [best] in H. destruct (Q []) eqn:E; [|discriminate]. inversion H; subst. reflexivity.
  - cbn [best] in H. destruct (Q (a :: t)) eqn:E.
    + inversion H; subst. reflexivity.
    + cbn [best]. destruct (P (a :: t)) eqn:EP; [apply HPQ in EP; congruence|]. apply IH, H.
Qed.

Definition lps' (w : word) : word :=
  match w with [] => [] | _ :: t => match best inT t with Some v => v | None => [] end end.

Lemma best_inT_some t : exists v, best inT t = Some v.
Proof. induction t as [|a t IH]; cbn [best]. rewrite inT_nil; eauto. destruct (inT (a :: t)); eauto. Qed.

Lemma best_hd_filter P t : best P t = match filter P (suffixes t) with [] => None | v :: _ => Some v end.
Proof.
  induction t as [|a t IH]; cbn [best suffixes filter].
  - destruct (P []); reflexivity.
  - destruct (P (a :: t)); [reflexivity|exact IH].
Qed.

Lemma lps_lps' w : lps w = lps' w.
Proof.
  destruct w as [|a t]; [reflexivity|]. unfold lps, lps', proper_suffixes. rewrite best_hd_filter.
  destruct (filter inT (suffixes t)); reflexivity.
Qed.

Definition Pc (c : Z) (v : word) : bool := inT (v ++ [c]).

Lemma best_snoc c t :
  best inT (t ++ [c]) = match best (Pc c) t with Some v => Some (v ++ [c]) | None => Some [] end.
Proof.
  induction t as [|a t IH].
  - cbn [app best]. unfold Pc. cbn [app]. destruct (inT [c]); [reflexivity|]. rewrite inT_nil. reflexivity.
  - cbn [app best]. unfold Pc at 1. cbn [app]. destruct (inT (a :: t ++ [c])); [reflexivity|]. exact IH.
Qed.

(* the inner loop of BuildFailureLinks with the true fail function *)
Fixpoint cf (fuel : nat) (u : word) (c : Z) : word :=
  match fuel with
  | O => []
  | S n => if inT (u ++ [c]) then u ++ [c] else match u with [] => [] | _ => cf n (lps u) c end
  end.

Lemma best_length P t v : best P t = Some v -> length v <= length t.
Proof.
  revert v; induction t as [|a t IH]; intros v; cbn [best].
  - destruct (P []); intros H; inversion H; subst; auto.
  - destruct (P (a :: t)); intros H; [inversion H; subst; auto|]. apply IH in H. cbn [length]. lia.
Qed.

Lemma lps_shorter a t : length (lps (a :: t)) <= length t.
Proof. rewrite lps_lps'. cbn [lps']. destruct (best inT t) eqn:E; [eapply best_length; eauto|cbn; lia]. Qed.

Lemma cf_best c : forall fuel u, length u < fuel ->
  cf fuel u c = match best (Pc c) u with Some v => v ++ [c] | None => [] end.
Proof.
  induction fuel as [|n IH]; intros u Hf; [lia|]. cbn [cf].
  destruct u as [|a t].
  - cbn [best]. unfold Pc. destruct (inT ([] ++ [c])); reflexivity.
  - cbn [best]. unfold Pc at 1. destruct (inT ((a :: t) ++ [c])) eqn:E; [reflexivity|].
    rewrite IH by (pose proof (lps_shorter a t); cbn [length] in Hf; lia).
    rewrite lps_lps'. cbn [lps']. destruct (best_inT_some t) as [v0 Hv0]. rewrite Hv0.
    rewrite (best_restrict (Pc c) inT t v0); auto. intros x Hx. unfold Pc in Hx. eapply inT_prefix; eauto.
Qed.

(* the recurrence the construction uses *)
Theorem lps_snoc a t c fuel : length (lps (a :: t)) < fuel ->
  lps ((a :: t) ++ [c]) = cf fuel (lps (a :: t)) c.
Proof.
  intros Hf. rewrite cf_best by auto. rewrite (lps_lps' ((a :: t) ++ [c])). cbn [app lps'].
  rewrite best_snoc. rewrite (lps_lps' (a :: t)). cbn [lps']. destruct (best_inT_some t) as [v0 Hv0]. rewrite Hv0.
  rewrite (best_restrict (Pc c) inT t v0); auto.
  - destruct (best (Pc c) v0); reflexivity.
  - intros x Hx. unfold Pc in Hx. eapply inT_prefix; eauto.
Qed.

(* ---- the construction: queue of words, fail map built in breadth-first order ---- *)
Definition fmap := list (word * word).
Fixpoint getF (F : fmap) (w : word) : option word :=
  match F with [] => None | (k, v) :: t => if word_eq_dec k w then Some v else getF t w end.

(* inner loop: failNode := curr.fail; for failNode != nil { if child c exists: break; failNode = failNode.fail } *)
Fixpoint chain_find (fuel : nat) (F : fmap) (f : option word) (c : Z) : word :=
  match fuel with
  | O => []
  | S n => match f with
           | None => []
           | Some u => if inT (u ++ [c]) then u ++ [c] else chain_find n F (getF F u) c
           end
  end.

Definition assign (curr : word) (F : fmap) (c : Z) : fmap :=
  (curr ++ [c], chain_find (S (length curr)) F (getF F curr) c) :: F.
Definition process (F : fmap) (curr : word) : fmap := fold_left (assign curr) (kids curr) F.
Definition children (w : word) : list word := map (fun c => w ++ [c]) (kids w).

Fixpoint bfs (fuel : nat) (queue : list word) (F : fmap) : option fmap :=
  match fuel with
  | O => None
  | S n => match queue with
           | [] => Some F
           | curr :: rest => bfs n (rest ++ children curr) (process F curr)
           end
  end.
Definition build (fuel : nat) : option fmap := bfs fuel (children []) (map (fun w => (w, [])) (children [])).

(* ---- invariant ---- *)
Fixpoint lsorted (l : list word) : Prop :=
  match l with [] => True | x :: t => (forall y, In y t -> length x <= length y) /\ lsorted t end.
Lemma lsorted_app l1 l2 : lsorted l1 -> lsorted l2 ->
  (forall x y, In x l1 -> In y l2 -> length x <= length y) -> lsorted (l1 ++ l2).
Proof.
  induction l1 as [|a l1 IH]; cbn [app lsorted]; intros H1 H2 H; auto.
  destruct H1 as [Ha H1]. split.
  - intros y Hy. apply in_app_iff in Hy. destruct Hy; [apply Ha; auto|apply H; auto; left; reflexivity].
  - apply IH; auto. intros x y Hx Hy. apply H; auto. right; auto.
Qed.
Lemma lsorted_same l n : (forall x, In x l -> length x = n) -> lsorted l.
Proof.
  induction l as [|a l IH]; cbn [lsorted]; intros H; auto. split.
  - intros y Hy. rewrite (H a), (H y); auto; [right; auto|left; auto].
  - apply IH. intros x Hx. apply H. right; auto.
Qed.

Definition assigned (F : fmap) (w : word) : Prop := getF F w <> None.

Record BInv (done queue : list word) (F : fmap) : Prop := {
  b_root : getF F [] = None;
  b_sorted : lsorted queue;
  b_where : forall v, assigned F v -> In v done \/ In v queue;
  b_kids : forall p c, (p = [] \/ In p done) -> In c (kids p) -> assigned F (p ++ [c]);
  b_ok : forall v u, getF F v = Some u -> u = lps v /\ inT v = true /\ v <> [];
  b_done : forall d x, In d done -> In x queue -> length d <= length x;
  b_close : forall x y, In x queue -> In y queue -> length y <= length x + 1;
  b_queue : forall x, In x queue -> assigned F x
}.

Lemma removelast_snoc (v : word) : v <> [] -> exists p c, v = p ++ [c].
Proof. intros H. destruct (exists_last H) as (p & c & E). eauto. Qed.

(* derived: an unassigned trie word is strictly longer than some queued word *)
Lemma unassigned_behind done queue F : BInv done queue F ->
  forall n v, length v <= n -> inT v = true -> v <> [] -> ~ assigned F v -> exists x, In x queue /\ length x < length v.
Proof.
  intros HB. induction n as [|n IH]; intros v Hn HT Hne Hun.
  - destruct v; [congruence|cbn in Hn; lia].
  - destruct (removelast_snoc v Hne) as (p & c & ->).
    assert (HTp : inT p = true) by (eapply inT_prefix; eauto).
    assert (Hc : In c (kids p)) by (apply kids_spec; auto).
    destruct p as [|a p'].
    + exfalso. apply Hun. apply (b_kids _ _ _ HB [] c); auto.
    + destruct (getF F (a :: p')) eqn:E.
      * destruct (b_where _ _ _ HB (a :: p')) as [Hd|Hq]; [unfold assigned; congruence| |].
        -- exfalso. apply Hun. apply (b_kids _ _ _ HB (a :: p') c); auto.
        -- exists (a :: p'). split; auto. rewrite app_length. cbn [length]. lia.
      * assert (Hun' : ~ assigned F (a :: p')) by (unfold assigned; intros H; apply H; exact E).
        assert (Hlen : length (a :: p') <= n) by (rewrite app_length in Hn; cbn [length] in *; lia).
        destruct (IH (a :: p') Hlen HTp ltac:(discriminate) Hun') as (x & Hx & Hl).
        exists x. split; auto. rewrite app_length. lia.
Qed.

(* ---- the inner loop computes cf when the map is right on shorter words ---- *)
Lemma lps_inT (w : word) : w <> [] -> inT (lps w) = true.
Proof. intros H. apply (lps_spec w H). Qed.

Lemma chain_find_cf F c : getF F [] = None -> forall fuel u,
  (forall x, x <> [] -> inT x = true -> length x <= length u -> getF F x = Some (lps x)) ->
  inT u = true -> chain_find fuel F (Some u) c = cf fuel u c.
Proof.
  intros Hroot. induction fuel as [|n IH]; intros u HF Hu; [reflexivity|].
  cbn [chain_find cf]. destruct (inT (u ++ [c])); [reflexivity|].
  destruct u as [|a t].
  - rewrite Hroot. destruct n; reflexivity.
  - rewrite (HF (a :: t)) by (auto; discriminate). apply IH.
    + intros x Hx HT Hl. apply HF; auto. pose proof (lps_shorter a t). cbn [length]. lia.
    + apply lps_inT. discriminate.
Qed.

Lemma getF_assign curr F c w : w <> curr ++ [c] -> getF (assign curr F c) w = getF F w.
Proof. intros H. unfold assign. cbn [getF]. destruct (word_eq_dec (curr ++ [c]) w); [congruence|reflexivity]. Qed.
Lemma getF_assign_eq curr F c :
  getF (assign curr F c) (curr ++ [c]) = Some (chain_find (S (length curr)) F (getF F curr) c).
Proof. unfold assign. cbn [getF]. destruct (word_eq_dec (curr ++ [c]) (curr ++ [c])); [reflexivity|congruence]. Qed.

Definition Hyp (curr : word) (F : fmap) : Prop :=
  getF F [] = None /\ getF F curr = Some (lps curr) /\
  (forall x, x <> [] -> inT x = true -> length x < length curr -> getF F x = Some (lps x)).

Lemma snoc_ne_short (curr x : word) c : length x <= length curr -> x <> curr ++ [c].
Proof. intros H E. subst. rewrite app_length in H. cbn in H. lia. Qed.

Lemma Hyp_assign curr F c : Hyp curr F -> Hyp curr (assign curr F c).
Proof.
  intros (H1 & H2 & H3). repeat split.
  - rewrite getF_assign; auto. apply snoc_ne_short. cbn; lia.
  - rewrite getF_assign; auto. apply snoc_ne_short. lia.
  - intros x Hx HT Hl. rewrite getF_assign; auto. apply snoc_ne_short. lia.
Qed.

Lemma assign_value a t F c : Hyp (a :: t) F ->
  chain_find (S (length (a :: t))) F (getF F (a :: t)) c = lps ((a :: t) ++ [c]).
Proof.
  intros (H1 & H2 & H3). rewrite H2.
  rewrite (lps_snoc a t c (S (length (a :: t)))) by (pose proof (lps_shorter a t); cbn [length]; lia).
  apply chain_find_cf; auto.
  - intros x Hx HT Hl. apply H3; auto. pose proof (lps_shorter a t). cbn [length]. lia.
  - apply lps_inT. discriminate.
Qed.

Lemma process_spec a t : forall cs F, Hyp (a :: t) F ->
  let F' := fold_left (assign (a :: t)) cs F in
  (forall w, (forall c, In c cs -> w <> (a :: t) ++ [c]) -> getF F' w = getF F w) /\
  (forall c, In c cs -> getF F' ((a :: t) ++ [c]) = Some (lps ((a :: t) ++ [c]))).
Proof.
  induction cs as [|c cs IH]; intros F HF; cbn [fold_left].
  - split; [reflexivity|intros c []].
  - destruct (IH (assign (a :: t) F c) (Hyp_assign _ _ _ HF)) as [I1 I2]. split.
    + intros w Hw. rewrite I1 by (intros c' Hc'; apply Hw; right; exact Hc').
      apply getF_assign. apply Hw. left. reflexivity.
    + intros c' [<-|Hc'].
      * destruct (in_dec Z.eq_dec c cs) as [Hin|Hnin]; [apply I2; exact Hin|].
        rewrite I1.
        -- rewrite getF_assign_eq. f_equal. apply assign_value. exact HF.
        -- intros c' Hc' E. apply app_inj_tail in E. destruct E as [_ ->]. contradiction.
      * apply I2. exact Hc'.
Qed.

(* ---- one iteration of the outer loop preserves the invariant ---- *)
Lemma in_children w v : In v (children w) <-> exists c, In c (kids w) /\ v = w ++ [c].
Proof.
  unfold children. rewrite in_map_iff. split.
  - intros (c & E & Hc). exists c. split; auto.
  - intros (c & Hc & E). exists c. split; auto.
Qed.
Lemma children_length w v : In v (children w) -> length v = S (length w).
Proof. intros H. apply in_children in H. destruct H as (c & _ & ->). rewrite app_length. cbn. lia. Qed.

Lemma BInv_Hyp done curr rest F : BInv done (curr :: rest) F -> Hyp curr F /\ inT curr = true /\ curr <> [].
Proof.
  intros HB.
  assert (Hq : assigned F curr) by (apply (b_queue _ _ _ HB); left; reflexivity).
  unfold assigned in Hq. destruct (getF F curr) as [u|] eqn:E; [|congruence].
  destruct (b_ok _ _ _ HB _ _ E) as (-> & HT & Hne).
  split; [|split; auto]. repeat split; auto.
  - apply (b_root _ _ _ HB).
  - intros x Hx HTx Hl. destruct (getF F x) as [u|] eqn:Ex.
    + destruct (b_ok _ _ _ HB _ _ Ex) as (-> & _ & _). reflexivity.
    + exfalso.
      assert (Hun : ~ assigned F x) by (unfold assigned; intros H; apply H; exact Ex).
      destruct (unassigned_behind _ _ _ HB (length x) x (le_n _) HTx Hx Hun) as (y & Hy & Hly).
      pose proof (b_sorted _ _ _ HB) as Hs. cbn [lsorted] in Hs. destruct Hs as [Hs _].
      destruct Hy as [<-|Hy]; [lia|]. specialize (Hs y Hy). lia.
Qed.

Lemma bfs_step done curr rest F : BInv done (curr :: rest) F ->
  BInv (curr :: done) (rest ++ children curr) (process F curr).
Proof.
  intros HB. destruct (BInv_Hyp _ _ _ _ HB) as (HH & HTc & Hne).
  destruct curr as [|a t]; [congruence|]. clear Hne.
  destruct (process_spec a t (kids (a :: t)) F HH) as [P1 P2]. fold (process F (a :: t)) in P1, P2.
  pose proof (b_sorted _ _ _ HB) as Hs. cbn [lsorted] in Hs. destruct Hs as [Hhead Hrest].
  assert (Hmono : forall v, assigned F v -> assigned (process F (a :: t)) v).
  { intros v Hv. unfold assigned in *. destruct (in_dec word_eq_dec v (children (a :: t))) as [Hin|Hnin].
    - apply in_children in Hin. destruct Hin as (c & Hc & ->). rewrite (P2 c Hc). discriminate.
    - rewrite P1; auto. intros c Hc E. apply Hnin. apply in_children. eauto. }
  assert (Hnew : forall v, In v (children (a :: t)) -> getF (process F (a :: t)) v = Some (lps v)).
  { intros v Hv. apply in_children in Hv. destruct Hv as (c & Hc & ->). apply P2; auto. }
  assert (Hold : forall v, ~ In v (children (a :: t)) -> getF (process F (a :: t)) v = getF F v).
  { intros v Hv. apply P1. intros c Hc E. apply Hv. apply in_children. eauto. }
  assert (Hlen_rest : forall x, In x rest -> length (a :: t) <= length x <= length (a :: t) + 1).
  { intros x Hx. split; [apply Hhead; auto|]. apply (b_close _ _ _ HB (a :: t) x); [left; reflexivity|right; auto]. }
  constructor.
  - rewrite Hold; [apply (b_root _ _ _ HB)|]. intros H. apply children_length in H. cbn in H. lia.
  - apply lsorted_app; auto.
    + apply (lsorted_same _ (S (length (a :: t)))). intros x Hx. apply children_length; auto.
    + intros x y Hx Hy. apply children_length in Hy. pose proof (Hlen_rest x Hx). lia.
  - intros v Hv. destruct (in_dec word_eq_dec v (children (a :: t))) as [Hin|Hnin].
    + right. apply in_app_iff. right; auto.
    + unfold assigned in Hv. rewrite (Hold v Hnin) in Hv. destruct (b_where _ _ _ HB v Hv) as [Hd|[<-|Hq]].
      * left. right; auto.
      * left. left; reflexivity.
      * right. apply in_app_iff. left; auto.
  - intros p c Hp Hc. destruct Hp as [->|[<-|Hp]].
    + apply Hmono. apply (b_kids _ _ _ HB [] c); auto.
    + unfold assigned. rewrite Hnew; [discriminate|]. apply in_children. eauto.
    + apply Hmono. apply (b_kids _ _ _ HB p c); auto.
  - intros v u Hv. destruct (in_dec word_eq_dec v (children (a :: t))) as [Hin|Hnin].
    + rewrite (Hnew v Hin) in Hv. inversion Hv; subst u. split; [reflexivity|].
      apply in_children in Hin. destruct Hin as (c & Hc & ->). split.
      * apply kids_spec; auto.
      * intros E. apply app_eq_nil in E. destruct E; discriminate.
    + rewrite (Hold v Hnin) in Hv. apply (b_ok _ _ _ HB _ _ Hv).
  - intros d x Hd Hx. apply in_app_iff in Hx. destruct Hd as [<-|Hd]; destruct Hx as [Hx|Hx].
    + apply Hhead; auto.
    + apply children_length in Hx. lia.
    + apply (b_done _ _ _ HB d x); auto. right; auto.
    + apply children_length in Hx. pose proof (b_done _ _ _ HB d (a :: t) Hd ltac:(left; reflexivity)). lia.
  - intros x y Hx Hy. apply in_app_iff in Hx. apply in_app_iff in Hy.
    assert (Lx : length (a :: t) <= length x) by (destruct Hx as [Hx|Hx]; [apply Hlen_rest; auto|apply children_length in Hx; lia]).
    assert (Ly : length y <= length (a :: t) + 1) by (destruct Hy as [Hy|Hy]; [apply Hlen_rest; auto|apply children_length in Hy; lia]).
    lia.
  - intros x Hx. apply in_app_iff in Hx. destruct Hx as [Hx|Hx].
    + apply Hmono. apply (b_queue _ _ _ HB). right; auto.
    + unfold assigned. rewrite (Hnew x Hx). discriminate.
Qed.

(* ---- whatever the queue order produced, at the end every node's fail link is the longest proper suffix ---- *)
Theorem bfs_correct : forall fuel done queue F F', BInv done queue F -> bfs fuel queue F = Some F' ->
  forall v, inT v = true -> v <> [] -> getF F' v = Some (lps v).
Proof.
  induction fuel as [|n IH]; intros done queue F F' HB E v HT Hne; [discriminate|].
  cbn [bfs] in E. destruct queue as [|curr rest].
  - inversion E; subst F'. destruct (getF F v) as [u|] eqn:Ev.
    + destruct (b_ok _ _ _ HB _ _ Ev) as (-> & _ & _). reflexivity.
    + exfalso.
      assert (Hun : ~ assigned F v) by (unfold assigned; intros H; apply H; exact Ev).
      destruct (unassigned_behind _ _ _ HB (length v) v (le_n _) HT Hne Hun) as (x & [] & _).
  - eapply (IH (curr :: done) (rest ++ children curr) (process F curr) F'); auto. apply bfs_step; auto.
Qed.

Lemma getF_map0 l v : getF (map (fun w => (w, [])) l) v = if in_dec word_eq_dec v l then Some [] else None.
Proof.
  induction l as [|a l IH]; cbn [map getF]; [reflexivity|].
  destruct (word_eq_dec a v) as [->|Hne].
  - destruct (in_dec word_eq_dec v (v :: l)) as [_|H]; [reflexivity|exfalso; apply H; left; reflexivity].
  - rewrite IH. destruct (in_dec word_eq_dec v l) as [Hi|Hi]; destruct (in_dec word_eq_dec v (a :: l)) as [Hj|Hj]; auto.
    + exfalso. apply Hj. right; auto.
    + exfalso. destruct Hj; [congruence|contradiction].
Qed.

Lemma init_BInv : BInv [] (children []) (map (fun w => (w, [])) (children [])).
Proof.
  assert (Hlen : forall x, In x (children []) -> length x = 1) by (intros x Hx; apply children_length in Hx; exact Hx).
  constructor.
  - rewrite getF_map0. destruct (in_dec word_eq_dec [] (children [])) as [H|_]; [apply Hlen in H; discriminate|reflexivity].
  - apply (lsorted_same _ 1); auto.
  - intros v Hv. unfold assigned in Hv. rewrite getF_map0 in Hv. destruct (in_dec word_eq_dec v (children [])); [right; auto|congruence].
  - intros p c [->|[]] Hc. unfold assigned. rewrite getF_map0.
    destruct (in_dec word_eq_dec ([] ++ [c]) (children [])) as [_|H]; [discriminate|]. exfalso. apply H. apply in_children. eauto.
  - intros v u Hv. rewrite getF_map0 in Hv. destruct (in_dec word_eq_dec v (children [])) as [Hin|]; [|discriminate].
    inversion Hv; subst u. apply in_children in Hin. destruct Hin as (c & Hc & ->). cbn [app]. split; [|split].
    + unfold lps. cbn. rewrite inT_nil. reflexivity.
    + apply kids_spec in Hc. exact Hc.
    + discriminate.
  - intros d x [].
  - intros x y Hx Hy. rewrite (Hlen x Hx), (Hlen y Hy). lia.
  - intros x Hx. unfold assigned. rewrite getF_map0. destruct (in_dec word_eq_dec x (children [])); [discriminate|contradiction].
Qed.

(* C05, construction half: for every trie (every pattern set) *)
Theorem build_failure_links_correct fuel F :
  build fuel = Some F -> forall v, inT v = true -> v <> [] -> getF F v = Some (lps v).
Proof. intros E. eapply bfs_correct; [apply init_BInv|exact E]. Qed.

(* ---- the matching walk (Match / find) with the correct fail function ---- *)
(* transition on rune c from state u:  for node != root && no child c { node = node.fail }; take child if any *)
Definition goto (u : word) (c : Z) : word := cf (S (length u)) u c.

(* state after reading text x: longest suffix of x that is a trie word *)
Definition lsuf (x : word) : word := match best inT x with Some v => v | None => [] end.

Lemma goto_lsuf x c : goto (lsuf x) c = lsuf (x ++ [c]).
Proof.
  unfold goto, lsuf. rewrite cf_best by lia. rewrite best_snoc.
  destruct (best_inT_some x) as [v0 Hv0]. rewrite Hv0.
  rewrite (best_restrict (Pc c) inT x v0); auto.
  - destruct (best (Pc c) v0); reflexivity.
  - intros y Hy. unfold Pc in Hy. eapply inT_prefix; eauto.
Qed.

Fixpoint walk (u : word) (text : word) : list word :=     (* states visited, one per consumed rune *)
  match text with [] => [] | c :: t => let u' := goto u c in u' :: walk u' t end.

Lemma walk_states : forall text x, walk (lsuf x) text = map (fun k => lsuf (x ++ firstn k text)) (seq 1 (length text)).
Proof.
  induction text as [|c t IH]; intros x; cbn [walk length seq map]; [reflexivity|].
  rewrite goto_lsuf. cbn [firstn]. f_equal.
  rewrite IH. rewrite <- (seq_shift (length t) 1), map_map. apply map_ext. intros k. cbn [firstn]. rewrite <- app_assoc. reflexivity.
Qed.

(* the output loop: tempNode := node; for tempNode != root { report if isEnd; tempNode = tempNode.fail } *)
Fixpoint chain (fuel : nat) (u : word) : list word :=
  match fuel with O => [] | S n => match u with [] => [] | _ => u :: chain n (lps u) end end.

Lemma filter_inT_best t v0 : best inT t = Some v0 -> filter inT (suffixes t) = filter inT (suffixes v0).
Proof.
  induction t as [|a t IH]; cbn [best]; intros H.
  - rewrite inT_nil in H. inversion H; subst. reflexivity.
  - destruct (inT (a :: t)) eqn:E.
    + inversion H; subst. reflexivity.
    + cbn [suffixes filter]. rewrite E. apply IH, H.
Qed.

Definition nonempty (w : word) : bool := match w with [] => false | _ => true end.

Lemma chain_spec : forall fuel u, length u < fuel -> inT u = true ->
  chain fuel u = filter nonempty (filter inT (suffixes u)).
Proof.
  induction fuel as [|n IH]; intros u Hf Hu; [lia|]. cbn [chain].
  destruct u as [|a t].
  - cbn. rewrite inT_nil. reflexivity.
  - cbn [suffixes filter]. rewrite Hu. cbn [filter nonempty]. f_equal.
    rewrite lps_lps'. cbn [lps']. destruct (best_inT_some t) as [v0 Hv0]. rewrite Hv0.
    rewrite (filter_inT_best t v0 Hv0). apply IH.
    + apply best_length in Hv0. cbn [length] in Hf. lia.
    + clear -Hv0 inT_nil. revert v0 Hv0. induction t as [|b t IHt]; cbn [best]; intros v0 H.
      * rewrite inT_nil in H. inversion H; subst. exact inT_nil.
      * destruct (inT (b :: t)) eqn:E; [inversion H; subst; exact E|apply IHt, H].
Qed.

(* after reading x, walking the fail chain from the current state visits exactly the non-empty
   trie words that are suffixes of x, longest first: nothing is missed, nothing is invented *)
Theorem outputs_complete x :
  chain (S (length x)) (lsuf x) = filter nonempty (filter inT (suffixes x)).
Proof.
  unfold lsuf. destruct (best_inT_some x) as [v0 Hv0]. rewrite Hv0.
  rewrite (filter_inT_best x v0 Hv0). apply chain_spec.
  - apply best_length in Hv0. lia.
  - clear -Hv0 inT_nil. revert v0 Hv0. induction x as [|b t IHt]; cbn [best]; intros v0 H.
    + rewrite inT_nil in H. inversion H; subst. exact inT_nil.
    + destruct (inT (b :: t)) eqn:E; [inversion H; subst; exact E|apply IHt, H].
Qed.
End AC.
