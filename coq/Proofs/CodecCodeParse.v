(* C07, generated code = hand model: OctalParse, HexParse, UnicodeParse (three instances of one loop). *)
From Coq Require Import List ZArith Lia Bool Arith.
From V Require Import Lib.Enc Lib.GoSem Lib.GoSemStd Proofs.GoSemFacts Gen.Codec Gen.CodecCode Model.Codec Proofs.CodecBase Proofs.CodecFormat Proofs.CodecCodeBase Proofs.CodecCodeParseBase.
Import ListNotations.
Local Open Scope Z_scope.
Arguments Z.mul : simpl never.
Arguments Z.add : simpl never.
Arguments Z.sub : simpl never.
Arguments Z.div : simpl never.
Arguments Z.modulo : simpl never.
Arguments Z.pow : simpl never.
Arguments Z.quot : simpl never.
Arguments Z.rem : simpl never.
Arguments Z.of_nat : simpl never.
Arguments Z.to_nat : simpl never.
Ltac Zify.zify_post_hook ::= idtac.
(* for every destination, every source and every fuel above the length of the source; dst and src do not overlap *)
Theorem code_OctalParse : forall fuel dst src, (length src < fuel)%nat ->
  g_OctalParse fuel dst src = mmap (parse_res dst) (lift (octal_parse (length dst) src)).
Proof.
  intros fuel dst src Hf. unfold g_OctalParse. repeat autounfold with go2v_aux. step_code.
  rewrite octal_parse_eq. unfold esc_parse.
  rewrite <- (gparse_fuel 4 1 [92] 8 255 byte_emit (length dst) src ltac:(lia) ltac:(lia) fuel (S (length src)) 0 0 [] ltac:(lia) ltac:(lia)).
  match goal with |- match while _ ?c ?b ?p ?s0 with Ret a => @?K a | Panic => Panic | NoFuel => NoFuel end = _ =>
    change (bind (while fuel c b p s0) K = mmap (parse_res dst) (lift (gparse 4 1 [92] 8 255 byte_emit (length dst) fuel src 0 0 [])));
    first [ solve [parse_shape (fun (D : list Z) (e f i : Z) => (D, e, f, i)) c b p K fuel 4%nat 1%nat [92] 8 8 255 byte_emit ltac:(rewrite pfx_ok_1 by lia)]
          | solve [parse_shape (fun (D : list Z) (e f i : Z) => (D, f, e, i)) c b p K fuel 4%nat 1%nat [92] 8 8 255 byte_emit ltac:(rewrite pfx_ok_1 by lia)] ]
  end.
Qed.

Theorem code_HexParse : forall fuel dst src, (length src < fuel)%nat ->
  g_HexParse fuel dst src = mmap (parse_res dst) (lift (hex_parse (length dst) src)).
Proof.
  intros fuel dst src Hf. unfold g_HexParse. repeat autounfold with go2v_aux. step_code.
  rewrite hex_parse_eq. unfold esc_parse.
  rewrite <- (gparse_fuel 4 2 [92; 120] 16 255 byte_emit (length dst) src ltac:(lia) ltac:(lia) fuel (S (length src)) 0 0 [] ltac:(lia) ltac:(lia)).
  match goal with |- match while _ ?c ?b ?p ?s0 with Ret a => @?K a | Panic => Panic | NoFuel => NoFuel end = _ =>
    change (bind (while fuel c b p s0) K = mmap (parse_res dst) (lift (gparse 4 2 [92; 120] 16 255 byte_emit (length dst) fuel src 0 0 [])));
    first [ solve [parse_shape (fun (D : list Z) (e f i : Z) => (D, e, f, i)) c b p K fuel 4%nat 2%nat [92; 120] 16 8 255 byte_emit ltac:(rewrite pfx_ok_2 by lia)]
          | solve [parse_shape (fun (D : list Z) (e f i : Z) => (D, f, e, i)) c b p K fuel 4%nat 2%nat [92; 120] 16 8 255 byte_emit ltac:(rewrite pfx_ok_2 by lia)] ]
  end.
Qed.

Theorem code_UnicodeParse : forall fuel dst src, (length src < fuel)%nat ->
  g_UnicodeParse fuel dst src = mmap (parse_res dst) (lift (unicode_parse (length dst) src)).
Proof.
  intros fuel dst src Hf. unfold g_UnicodeParse. repeat autounfold with go2v_aux. step_code.
  rewrite unicode_parse_eq. unfold esc_parse.
  rewrite <- (gparse_fuel 10 2 [92; 85] 16 4294967295 unicode_emit (length dst) src ltac:(lia) ltac:(lia) fuel (S (length src)) 0 0 [] ltac:(lia) ltac:(lia)).
  match goal with |- match while _ ?c ?b ?p ?s0 with Ret a => @?K a | Panic => Panic | NoFuel => NoFuel end = _ =>
    change (bind (while fuel c b p s0) K = mmap (parse_res dst) (lift (gparse 10 2 [92; 85] 16 4294967295 unicode_emit (length dst) fuel src 0 0 [])));
    first [ solve [parse_shape (fun (D : list Z) (e f i : Z) => (D, e, f, i)) c b p K fuel 10%nat 2%nat [92; 85] 16 32 4294967295 unicode_emit ltac:(rewrite pfx_ok_2 by lia)]
          | solve [parse_shape (fun (D : list Z) (e f i : Z) => (D, f, e, i)) c b p K fuel 10%nat 2%nat [92; 85] 16 32 4294967295 unicode_emit ltac:(rewrite pfx_ok_2 by lia)] ]
  end.
Qed.

