(* C04 — heapz.Heap, every operation sequence: two heaps over one population of elements; the invariant of the
   world, its correspondence with the judge's state, and the theorem that the judge accepts the model's trace. *)
From Coq Require Import List Arith ZArith Lia Bool PeanoNat Permutation.
From V Require Import Model.Heap Proofs.HeapSift Proofs.HeapBuild Proofs.HeapBridge Proofs.HeapOps Proofs.HeapJudge Proofs.HeapHandles.
Import ListNotations.

Section HJ.
Variable A : Type.
Variable d : A.
Variable lt : A -> A -> bool.
Variable eqb : A -> A -> bool.
Hypothesis eqb_spec : forall a b, eqb a b = true <-> a = b.
Hypothesis le_trans : forall a b c, Heap.le A lt a b -> Heap.le A lt b c -> Heap.le A lt a c.
Hypothesis lt_asym : forall a b, lt a b = true -> lt b a = false.

Local Notation eidx := (Heap.eidx A).
Local Notation eown := (Heap.eown A).
Local Notation evalue := (Heap.evalue A).
Local Notation store := (Heap.store A).
Local Notation world := (Heap.world A).
Local Notation getE := (Heap.getE A d).
Local Notation valof := (Heap.valof A d).
Local Notation ltE := (Heap.ltE A lt).
Local Notation HS := (Heap.HS A d).
Local Notation Ord := (Heap.Ord A d lt).
Local Notation Hd := (Heap.Hd A d).
Local Notation hokN := (Heap.heap_ok nat 0).
Local Notation jst := (Heap.jst A).
Local Notation jlive := (Heap.jlive A).
Local Notation jput := (Heap.jput A).
Local Notation jval := (Heap.jval A d).
Local Notation view_ok := (Heap.view_ok A d lt).
Local Notation heap_okb := (Heap.heap_okb A d lt).

Local Notation WInv := (Heap.WInv A d lt).
Local Notation J := (Heap.J A).

(* ---- symmetry: the second heap sees the first one as "the other" ---- *)
Lemma HS_sym h a b st : HS h a b st -> HS (1 - h) b a st.
Proof.
  intros (H1 & H2 & H3). split; [exact H2|]. split; [replace (1 - (1 - h))%Z with h by lia; exact H1|].
  intros e He Hb Ha. apply H3; auto.
Qed.
Lemma Ord_sym a b st : Ord a b st -> Ord b a st.
Proof. intros [H1 H2]. split; assumption. Qed.

Definition mine (w : world) (h : Z) : list nat := fst (heap_of A w h).
Definition other (w : world) (h : Z) : list nat := fst (heap_of A w (1 - h)).
Lemma WInv_h w h : WInv w -> h = 0%Z \/ h = 1%Z -> HS h (mine w h) (other w h) (wst A w) /\ Ord (mine w h) (other w h) (wst A w).
Proof.
  intros [H1 H2] [-> | ->]; unfold mine, other, heap_of; cbn [fst Z.eqb Z.sub Z.add Z.opp Z.pos_sub].
  - split; assumption.
  - split; [apply (HS_sym 0%Z); exact H1|apply Ord_sym; exact H2].
Qed.
Lemma WInv_put w h m' st' : h = 0%Z \/ h = 1%Z -> HS h m' (other w h) st' -> Ord m' (other w h) st' -> WInv (put_heap A w h (m', st')).
Proof.
  intros [-> | ->] H1 H2; unfold put_heap, other, heap_of, Heap.WInv in *; cbn [fst snd Z.eqb Z.sub Z.add Z.opp Z.pos_sub wh0 wh1 wst] in *.
  - split; assumption.
  - split; [apply (HS_sym 1%Z); exact H1|apply Ord_sym; exact H2].
Qed.
Lemma heap_of_eq w h : heap_of A w h = (mine w h, wst A w).
Proof. unfold mine, heap_of. destruct (h =? 0)%Z; reflexivity. Qed.
Lemma put_mine w h m' st' : h = 0%Z \/ h = 1%Z -> mine (put_heap A w h (m', st')) h = m' /\ other (put_heap A w h (m', st')) h = other w h /\
  wst A (put_heap A w h (m', st')) = st'.
Proof. intros [-> | ->]; unfold mine, other, put_heap, heap_of; cbn; auto. Qed.

(* ---- reading the judge's view ---- *)
Lemma memn_iff e l : Heap.memn e l = true <-> In e l.
Proof.
  unfold Heap.memn. rewrite existsb_exists. split.
  - intros (x & Hx & E). apply Nat.eqb_eq in E. subst. exact Hx.
  - intros H. exists e. split; [exact H|apply Nat.eqb_refl].
Qed.
Lemma jval_valof w j e : J w j -> jval j e = valof (wst A w) e.
Proof.
  intros (_ & _ & E). unfold Heap.jval, Heap.valof, Heap.getE. rewrite E.
  rewrite <- (map_nth evalue (wst A w) (Heap.dummyE A d) e). reflexivity.
Qed.
Lemma idx_of_eq (st : store) e : e < length st -> Heap.idx_of (map eidx st) e = eidx (getE st e).
Proof.
  intros H. unfold Heap.idx_of, Heap.getE. rewrite (nth_indep _ (-2)%Z (eidx (Heap.dummyE A d))) by (rewrite map_length; exact H).
  rewrite <- (map_nth eidx st (Heap.dummyE A d) e). reflexivity.
Qed.
Lemma find_unique {X : Type} (p : X -> bool) (l : list X) x : In x l -> p x = true -> (forall y, In y l -> p y = true -> y = x) ->
  find p l = Some x.
Proof.
  induction l as [|a t IH]; intros Hin Hp Hu; [destruct Hin|]. cbn [find].
  destruct (p a) eqn:Ea; [f_equal; apply Hu; [left; reflexivity|exact Ea]|].
  destruct Hin as [->|Hin]; [congruence|]. apply IH; auto. intros y Hy. apply Hu. right. exact Hy.
Qed.
Lemma map_nth_seq (l : list nat) : map (fun k => nth k l 0) (seq 0 (length l)) = l.
Proof.
  set (f := fun k => nth k l 0).
  apply (nth_ext _ _ 0 0); [rewrite map_length, seq_length; reflexivity|].
  intros k Hk. rewrite map_length, seq_length in Hk.
  rewrite (nth_indep _ 0 (f 0)) by (rewrite map_length, seq_length; exact Hk).
  rewrite map_nth. rewrite seq_nth by exact Hk. reflexivity.
Qed.
Lemma hok_map (val : nat -> A) (s : list nat) : hokN (ltE val) s (length s) -> Heap.heap_ok A d lt (map val s) (length (map val s)).
Proof.
  intros H p c Hc Hpc. rewrite map_length in Hc. assert (p < length s) by (unfold is_child in Hpc; lia).
  specialize (H p c Hc Hpc). unfold Heap.ok, Heap.le, Heap.ltE in *.
  rewrite !(nth_indep _ d (val 0)) by (rewrite map_length; lia). rewrite !map_nth. exact H.
Qed.

Lemma heap_view_ok_of h (arr live : list nat) (st : store) j w : Hd h (arr, st) -> Permutation live arr ->
  J w j -> wst A w = st -> hokN (ltE (valof st)) arr (length arr) ->
  Heap.heap_view_ok A d lt j live (map eidx st) = true.
Proof.
  intros HdA P HJ Ew HO. pose proof HdA as [Hnd Hi]. cbn [fst snd] in *.
  assert (Ea : Heap.arr_of live (map eidx st) = map Some arr).
  { unfold Heap.arr_of. rewrite (Permutation_length P). rewrite <- (map_nth_seq arr) at 2. rewrite map_map.
    apply map_ext_in. intros k Hk. apply in_seq in Hk. destruct (Hi k ltac:(lia)) as (K1 & K2 & K3).
    apply find_unique.
    - eapply Permutation_in; [apply Permutation_sym; exact P|apply nth_In; lia].
    - rewrite idx_of_eq by exact K1. rewrite K2. apply Z.eqb_refl.
    - intros y Hy Ey. assert (Hy' : In y arr) by (eapply Permutation_in; [exact P|exact Hy]).
      destruct (In_nth _ _ 0 Hy') as (k' & Hk' & <-). destruct (Hi k' Hk') as (Q1 & Q2 & Q3).
      rewrite idx_of_eq in Ey by exact Q1. rewrite Q2 in Ey. apply Z.eqb_eq in Ey. f_equal. lia. }
  unfold Heap.heap_view_ok. rewrite Ea. apply andb_true_iff. split.
  - apply forallb_forall. intros o Ho. apply in_map_iff in Ho. destruct Ho as (x & <- & _). reflexivity.
  - rewrite map_map. apply (heap_okb_iff A d lt).
    assert (Em : map (fun x => jval j x) arr = map (valof st) arr) by (apply map_ext; intros x; rewrite <- Ew; apply (jval_valof w j x HJ)).
    rewrite Em. apply hok_map. exact HO.
Qed.

Lemma view_ok_of w j : WInv w -> J w j -> view_ok j (map eidx (wst A w)) = true.
Proof.
  intros [HSs [O1 O2]] HJ. pose proof HJ as (P0 & P1 & Ev). destruct HSs as (H0 & H1 & Hfree).
  unfold Heap.view_ok. rewrite !andb_true_iff. split; [split; [split|]|].
  - apply Nat.eqb_eq. rewrite Ev, !map_length. reflexivity.
  - apply (heap_view_ok_of 0%Z (wh0 A w) _ (wst A w) j w); auto.
  - apply (heap_view_ok_of (1 - 0)%Z (wh1 A w) _ (wst A w) j w); auto.
  - apply forallb_forall. intros e He. apply in_seq in He. rewrite map_length in He.
    destruct (in_dec Nat.eq_dec e (wh0 A w)) as [I0|I0].
    { assert (Heap.memn e (jl0 A j) = true) as -> by (apply memn_iff; eapply Permutation_in; [apply Permutation_sym; exact P0|exact I0]). reflexivity. }
    destruct (in_dec Nat.eq_dec e (wh1 A w)) as [I1|I1].
    { assert (Heap.memn e (jl1 A j) = true) as -> by (apply memn_iff; eapply Permutation_in; [apply Permutation_sym; exact P1|exact I1]). rewrite orb_true_r. reflexivity. }
    destruct (Hfree e ltac:(lia) I0 I1) as [Ei _]. rewrite idx_of_eq by lia. rewrite Ei. rewrite Z.eqb_refl. apply orb_true_r.
Qed.

(* ------------------------------------------------------------------ one operation *)
Local Notation hstep := (Heap.hstep A d lt).
Local Notation hrun := (Heap.hrun A d lt).
Local Notation hcase := (Heap.hcase A d lt).
Local Notation jh_step := (Heap.jh_step A d lt eqb).
Local Notation jh_run := (Heap.jh_run A d lt eqb).
Local Notation jh_case := (Heap.jh_case A d lt eqb).
Local Notation removen := Heap.removen.
Local Notation memn := Heap.memn.
Local Notation mkJ := (Heap.mkJ A).

Local Notation is01 := Heap.is01.
Local Notation hop_wf := (Heap.hop_wf A).
Lemma is01_iff h : is01 h = true <-> h = 0%Z \/ h = 1%Z.
Proof. unfold Heap.is01. rewrite orb_true_iff, !Z.eqb_eq. reflexivity. Qed.

Lemma removen_in e l x : In x (removen e l) <-> In x l /\ x <> e.
Proof.
  unfold Heap.removen. rewrite filter_In. split; intros [H1 H2]; split; auto.
  - intros ->. rewrite Nat.eqb_refl in H2. discriminate.
  - destruct (Nat.eqb_spec e x); [congruence|reflexivity].
Qed.
Lemma removen_perm e l m : NoDup l -> Permutation l (e :: m) -> Permutation (removen e l) m.
Proof.
  intros Hn P. assert (Hn2 : NoDup (e :: m)) by (eapply Permutation_NoDup; eauto).
  apply NoDup_cons_iff in Hn2. destruct Hn2 as [He Hm].
  apply NoDup_Permutation; [apply NoDup_filter; exact Hn|exact Hm|].
  intros x. rewrite removen_in. split.
  - intros [H1 H2]. assert (H3 : In x (e :: m)) by (eapply Permutation_in; eauto). destruct H3; [congruence|assumption].
  - intros H. split; [eapply Permutation_in; [apply Permutation_sym; exact P|right; exact H]|intros ->; contradiction].
Qed.
Lemma J_h w j h : J w j -> h = 0%Z \/ h = 1%Z -> Permutation (jlive j h) (mine w h).
Proof. intros (P0 & P1 & _) [-> | ->]; unfold Heap.jlive, mine, heap_of; cbn; assumption. Qed.
Lemma J_other w j h : J w j -> h = 0%Z \/ h = 1%Z -> Permutation (jlive j (1 - h)) (other w h).
Proof. intros (P0 & P1 & _) [-> | ->]; unfold Heap.jlive, other, heap_of; cbn; assumption. Qed.
Lemma J_len w j : J w j -> length (jvals A j) = length (wst A w).
Proof. intros (_ & _ & E). rewrite E. apply map_length. Qed.
Lemma J_put w j h m' st' live' vals' : h = 0%Z \/ h = 1%Z -> J w j -> Permutation live' m' -> vals' = map evalue st' ->
  J (put_heap A w h (m', st')) (jput (mkJ (jl0 A j) (jl1 A j) vals') h live').
Proof.
  intros Hh (P0 & P1 & _) P E. destruct Hh as [-> | ->]; unfold put_heap, Heap.jput, J; cbn; auto.
Qed.
Lemma jput_same (j : jst) h : h = 0%Z \/ h = 1%Z -> jput (mkJ (jl0 A j) (jl1 A j) (jvals A j)) h (jlive j h) = j.
Proof. intros [-> | ->]; destruct j; reflexivity. Qed.
Lemma jput_vals (j : jst) h l : jput j h l = jput (mkJ (jl0 A j) (jl1 A j) (jvals A j)) h l.
Proof. destruct j; reflexivity. Qed.
Lemma put_same w h : h = 0%Z \/ h = 1%Z -> put_heap A w h (mine w h, wst A w) = w.
Proof. intros [-> | ->]; destruct w; reflexivity. Qed.
Lemma map_evalue_ext (st st' : store) : length st' = length st -> (forall x, valof st' x = valof st x) -> map evalue st' = map evalue st.
Proof.
  intros L V. apply (nth_ext _ _ d d); [rewrite !map_length; exact L|]. intros k Hk.
  change d with (evalue (Heap.dummyE A d)). rewrite !map_nth. apply V.
Qed.
Lemma NoDup_mine w h : WInv w -> h = 0%Z \/ h = 1%Z -> NoDup (mine w h).
Proof. intros Hw Hh. destruct (WInv_h w h Hw Hh) as [(H1 & _) _]. apply H1. Qed.
Lemma live_NoDup w j h : WInv w -> J w j -> h = 0%Z \/ h = 1%Z -> NoDup (jlive j h).
Proof. intros Hw HJ Hh. eapply Permutation_NoDup; [apply Permutation_sym; apply (J_h w j h HJ Hh)|apply NoDup_mine; auto]. Qed.
Lemma mine_lt w h e : WInv w -> h = 0%Z \/ h = 1%Z -> In e (mine w h) -> e < length (wst A w).
Proof. intros Hw Hh Hin. destruct (WInv_h w h Hw Hh) as [(H1 & _) _]. destruct (Hd_in A d _ _ _ H1 Hin) as (K & _). exact K. Qed.

Lemma hb_go (b : bool) (j : jst) : b = true -> Heap.hb A b j = HGo A j.
Proof. intros ->. reflexivity. Qed.

(* the result of a step on heap h, packaged *)
Lemma step_pack w j h m' st' live' vals' : WInv w -> J w j -> h = 0%Z \/ h = 1%Z ->
  HS h m' (other w h) st' -> Ord m' (other w h) st' -> Permutation live' m' -> vals' = map evalue st' ->
  let w' := put_heap A w h (m', st') in
  let j' := jput (mkJ (jl0 A j) (jl1 A j) vals') h live' in
  WInv w' /\ J w' j' /\ view_ok j' (map eidx (wst A w')) = true.
Proof.
  intros Hw HJ Hh HS' O' P E w' j'.
  assert (Hw' : WInv w') by (apply WInv_put; auto).
  assert (HJ' : J w' j') by (apply J_put; auto).
  split; [exact Hw'|]. split; [exact HJ'|]. apply view_ok_of; auto.
Qed.

Definition Good (w : world) (j : jst) (o : hop A) : Prop :=
  exists w' r j', hstep w o = Ok (w', r) /\ jh_step j o r (map eidx (wst A w')) = HGo A j' /\ WInv w' /\ J w' j'.

Lemma step_push w j h v : WInv w -> J w j -> h = 0%Z \/ h = 1%Z -> Good w j (HPush A h v).
Proof.
  intros Hw HJ Hh. destruct (WInv_h w h Hw Hh) as [HSs HO]. unfold Good. cbn [Heap.hstep Heap.jh_step].
  rewrite heap_of_eq.
  destruct (hp_push_spec A d lt le_trans lt_asym h _ _ _ v HSs HO) as (m' & st' & E & HS' & O' & P & L & Vold & Vnew & Emap).
  rewrite E. cbn [bind].
  destruct (step_pack w j h m' st' (jlive j h ++ [length (jvals A j)]) (jvals A j ++ [v]) Hw HJ Hh HS' O') as (Hw' & HJ' & Hv).
  { rewrite (J_len w j HJ). etransitivity; [|apply Permutation_sym; exact P].
    etransitivity; [apply Permutation_app_tail; apply (J_h w j h HJ Hh)|]. apply Permutation_sym, Permutation_cons_append. }
  { destruct HJ as (_ & _ & Ev). rewrite Ev. symmetry. exact Emap. }
  eexists _, _, _. split; [reflexivity|]. split; [apply hb_go; exact Hv|]. split; assumption.
Qed.

Lemma jlive_nil w j h : J w j -> h = 0%Z \/ h = 1%Z -> (jlive j h = [] <-> mine w h = []).
Proof.
  intros HJ Hh. pose proof (J_h w j h HJ Hh) as P. split; intros E; rewrite E in P.
  - apply Permutation_nil. exact P.
  - apply Permutation_nil. apply Permutation_sym. exact P.
Qed.
Lemma minimal_live w j h e : WInv w -> J w j -> h = 0%Z \/ h = 1%Z ->
  (forall y, In y (mine w h) -> ltE (valof (wst A w)) y e = false) ->
  Heap.minimal A lt (jval j e) (map (jval j) (jlive j h)) = true.
Proof.
  intros Hw HJ Hh Hmin. apply (minimal_iff A lt). intros v Hv. apply in_map_iff in Hv. destruct Hv as (y & <- & Hy).
  unfold Heap.le. rewrite !(jval_valof w j _ HJ). apply Hmin. eapply Permutation_in; [apply (J_h w j h HJ Hh)|exact Hy].
Qed.

Lemma match_nonempty {X Y : Type} (l : list X) (a b : Y) : l <> [] -> match l with [] => a | _ :: _ => b end = b.
Proof. destruct l; [congruence|reflexivity]. Qed.

Lemma step_pop w j h : WInv w -> J w j -> h = 0%Z \/ h = 1%Z -> Good w j (HPop A h).
Proof.
  intros Hw HJ Hh. destruct (WInv_h w h Hw Hh) as [HSs HO]. unfold Good. cbn [Heap.hstep Heap.jh_step].
  rewrite heap_of_eq. destruct (mine w h) as [|a m0] eqn:Em.
  - rewrite (hp_pop_empty A d lt). cbn [bind fst snd]. rewrite <- Em, (put_same w h Hh).
    assert (El : jlive j h = []) by (apply (jlive_nil w j h HJ Hh); exact Em). rewrite El.
    eexists _, _, _. split; [reflexivity|]. split; [apply hb_go; rewrite Z.eqb_refl; apply view_ok_of; auto|]. split; assumption.
  - rewrite <- Em in *. assert (H1 : 1 <= length (mine w h)) by (rewrite Em; cbn [length]; lia).
    destruct (hp_pop_spec A d lt le_trans lt_asym h _ _ _ HSs HO H1) as (m' & st' & E & HS' & O' & P & Hmin & L & V & Ie).
    set (e := nth 0 (mine w h) 0) in *. rewrite E. cbn [bind fst snd].
    assert (Hne : jlive j h <> []) by (intros El; apply (jlive_nil w j h HJ Hh) in El; rewrite El in H1; cbn in H1; lia).
    assert (Hin : In e (mine w h)) by (apply nth_In; lia).
    destruct (step_pack w j h m' st' (removen e (jlive j h)) (jvals A j) Hw HJ Hh HS' O') as (Hw' & HJ' & Hv).
    { apply removen_perm; [apply (live_NoDup w j h); auto|]. etransitivity; [apply (J_h w j h HJ Hh)|apply Permutation_sym; exact P]. }
    { destruct HJ as (_ & _ & Ev). rewrite Ev. symmetry. apply map_evalue_ext; auto. }
    rewrite <- jput_vals in *.
    eexists _, _, _. split; [reflexivity|]. cbv beta iota. rewrite (match_nonempty (jlive j h) _ _ Hne). rewrite Nat2Z.id.
    split; [|split; eassumption].
    apply hb_go. rewrite !andb_true_iff. split; [split; [split|]|].
    + apply Z.leb_le. lia.
    + apply memn_iff. eapply Permutation_in; [apply Permutation_sym; apply (J_h w j h HJ Hh)|exact Hin].
    + apply (minimal_live w j h e); auto.
    + exact Hv.
Qed.

Lemma step_peek w j h : WInv w -> J w j -> h = 0%Z \/ h = 1%Z -> Good w j (HPeek A h).
Proof.
  intros Hw HJ Hh. destruct (WInv_h w h Hw Hh) as [HSs [O1 O2]]. unfold Good. cbn [Heap.hstep Heap.jh_step].
  rewrite heap_of_eq, (hp_peek_spec A). cbn [bind]. destruct (mine w h) as [|a m0] eqn:Em.
  - assert (El : jlive j h = []) by (apply (jlive_nil w j h HJ Hh); exact Em). rewrite El.
    eexists _, _, _. split; [reflexivity|]. split; [apply hb_go; rewrite Z.eqb_refl; apply view_ok_of; auto|]. split; assumption.
  - assert (Hne : jlive j h <> []) by (intros El; apply (jlive_nil w j h HJ Hh) in El; congruence).
    assert (Hin : In a (mine w h)) by (rewrite Em; left; reflexivity).
    eexists _, _, _. split; [reflexivity|]. cbv beta iota. rewrite (match_nonempty (jlive j h) _ _ Hne). rewrite Nat2Z.id.
    split; [|split; eassumption].
    apply hb_go. rewrite !andb_true_iff. split; [split; [split|]|].
    + apply Z.leb_le. lia.
    + apply memn_iff. eapply Permutation_in; [apply Permutation_sym; apply (J_h w j h HJ Hh)|exact Hin].
    + apply (minimal_live w j h a); auto. intros y Hy. rewrite Em in Hy. destruct (In_nth _ _ 0 Hy) as (k & Hk & <-).
      pose proof (root_is_min nat 0 (ltE (valof (wst A w))) (ltE_trans A lt le_trans _) (ltE_asym A lt lt_asym _) (a :: m0) (length (a :: m0)) O1 k Hk) as R.
      unfold Heap.le in R. cbn [nth] in R. exact R.
    + apply view_ok_of; auto.
Qed.

Lemma step_len w j h : WInv w -> J w j -> h = 0%Z \/ h = 1%Z -> Good w j (HLen A h).
Proof.
  intros Hw HJ Hh. unfold Good. cbn [Heap.hstep Heap.jh_step]. rewrite heap_of_eq. cbn [fst].
  eexists _, _, _. split; [reflexivity|]. split; [|split; eassumption].
  apply hb_go. apply andb_true_iff. split; [|apply view_ok_of; auto].
  apply Z.eqb_eq. unfold Zlen. f_equal. symmetry. apply Permutation_length. apply (J_h w j h HJ Hh).
Qed.

Lemma memn_live w j h e : J w j -> h = 0%Z \/ h = 1%Z -> memn e (jlive j h) = true <-> In e (mine w h).
Proof.
  intros HJ Hh. rewrite memn_iff. pose proof (J_h w j h HJ Hh) as P. split; intros H.
  - eapply Permutation_in; eauto.
  - eapply Permutation_in; [apply Permutation_sym; exact P|exact H].
Qed.
Lemma memn_false w j h e : J w j -> h = 0%Z \/ h = 1%Z -> ~ In e (mine w h) -> memn e (jlive j h) = false.
Proof. intros HJ Hh Hn. destruct (memn e (jlive j h)) eqn:E; [|reflexivity]. apply (memn_live w j h e HJ Hh) in E. contradiction. Qed.

Lemma step_remove w j h e : WInv w -> J w j -> h = 0%Z \/ h = 1%Z -> Good w j (HRemove A h e).
Proof.
  intros Hw HJ Hh. destruct (WInv_h w h Hw Hh) as [HSs HO]. unfold Good. cbn [Heap.hstep Heap.jh_step]. unfold Heap.known.
  destruct (in_dec Nat.eq_dec e (mine w h)) as [Hin|Hin].
  - assert (Hk : e < length (wst A w)) by (apply (mine_lt w h); auto).
    destruct (Nat.ltb_spec e (length (wst A w))); [|lia]. rewrite heap_of_eq.
    destruct (hp_remove_spec A d lt le_trans lt_asym h _ _ _ e HSs HO Hh Hin) as (m' & st' & E & HS' & O' & P & L & V & Ie).
    rewrite E. cbn [bind]. assert (Em : memn e (jlive j h) = true) by (apply (memn_live w j h e HJ Hh); exact Hin). rewrite Em.
    destruct (step_pack w j h m' st' (removen e (jlive j h)) (jvals A j) Hw HJ Hh HS' O') as (Hw' & HJ' & Hv).
    { apply removen_perm; [apply (live_NoDup w j h); auto|]. etransitivity; [apply (J_h w j h HJ Hh)|apply Permutation_sym; exact P]. }
    { destruct HJ as (_ & _ & Ev). rewrite Ev. symmetry. apply map_evalue_ext; auto. }
    rewrite <- jput_vals in *.
    eexists _, _, _. split; [reflexivity|]. split; [apply hb_go; exact Hv|]. split; eassumption.
  - rewrite (memn_false w j h e HJ Hh Hin).
    assert (E : (if e <? length (wst A w) then bind (Heap.hp_remove A d lt h (heap_of A w h) e) (fun t => Ok (put_heap A w h t, HNone A)) else Ok (w, HNone A)) = Ok (w, HNone A)).
    { destruct (e <? length (wst A w)); [|reflexivity]. rewrite heap_of_eq.
      rewrite (hp_remove_ignored A d lt h _ _ _ e HSs Hh Hin). cbn [bind]. rewrite (put_same w h Hh). reflexivity. }
    rewrite E. eexists _, _, _. split; [reflexivity|]. split; [apply hb_go; apply view_ok_of; auto|]. split; assumption.
Qed.

Lemma step_fix w j h e : WInv w -> J w j -> h = 0%Z \/ h = 1%Z -> Good w j (HFix A h e).
Proof.
  intros Hw HJ Hh. destruct (WInv_h w h Hw Hh) as [HSs [O1 O2]]. unfold Good. cbn [Heap.hstep Heap.jh_step]. unfold Heap.known.
  destruct (in_dec Nat.eq_dec e (mine w h)) as [Hin|Hin].
  - assert (Hk : e < length (wst A w)) by (apply (mine_lt w h); auto).
    destruct (Nat.ltb_spec e (length (wst A w))); [|lia]. rewrite heap_of_eq.
    destruct (hp_fix_spec A d lt le_trans lt_asym h _ _ _ e (valof (wst A w)) HSs Hh Hin ltac:(reflexivity) O1 O2) as (m' & st' & E & HS' & O' & P & L & V).
    rewrite E. cbn [bind].
    destruct (step_pack w j h m' st' (jlive j h) (jvals A j) Hw HJ Hh HS' O') as (Hw' & HJ' & Hv).
    { etransitivity; [apply (J_h w j h HJ Hh)|apply Permutation_sym; exact P]. }
    { destruct HJ as (_ & _ & Ev). rewrite Ev. symmetry. apply map_evalue_ext; auto. }
    rewrite (jput_same j h Hh) in *.
    eexists _, _, _. split; [reflexivity|]. split; [apply hb_go; exact Hv|]. split; eassumption.
  - assert (E : (if e <? length (wst A w) then bind (Heap.hp_fix A d lt h (heap_of A w h) e) (fun t => Ok (put_heap A w h t, HNone A)) else Ok (w, HNone A)) = Ok (w, HNone A)).
    { destruct (e <? length (wst A w)); [|reflexivity]. rewrite heap_of_eq.
      rewrite (hp_fix_ignored A d lt h _ _ _ e HSs Hh Hin). cbn [bind]. rewrite (put_same w h Hh). reflexivity. }
    rewrite E. eexists _, _, _. split; [reflexivity|]. split; [apply hb_go; apply view_ok_of; auto|]. split; assumption.
Qed.

Lemma idx_free w e : WInv w -> e < length (wst A w) ->
  (eidx (getE (wst A w) e) =? -1)%Z = negb (memn e (wh0 A w)) && negb (memn e (wh1 A w)).
Proof.
  intros [(H0 & H1 & Hf) _] He.
  destruct (memn e (wh0 A w)) eqn:E0.
  - apply memn_iff in E0. destruct (Hd_in A d _ _ _ H0 E0) as (_ & _ & k & _ & _ & Ei). cbn [snd] in Ei. rewrite Ei.
    cbn [negb andb]. apply Z.eqb_neq. lia.
  - destruct (memn e (wh1 A w)) eqn:E1.
    + apply memn_iff in E1. destruct (Hd_in A d _ _ _ H1 E1) as (_ & _ & k & _ & _ & Ei). cbn [snd] in Ei. rewrite Ei.
      cbn [negb andb]. apply Z.eqb_neq. lia.
    + cbn [negb andb]. destruct (Hf e He) as [Ei _].
      * intros H. apply memn_iff in H. congruence.
      * intros H. apply memn_iff in H. congruence.
      * rewrite Ei. reflexivity.
Qed.
Lemma memn_perm e l m : Permutation l m -> memn e l = memn e m.
Proof.
  intros P. destruct (memn e m) eqn:E.
  - apply memn_iff. apply memn_iff in E. eapply Permutation_in; [apply Permutation_sym; exact P|exact E].
  - destruct (memn e l) eqn:E2; [|reflexivity]. apply memn_iff in E2. assert (In e m) by (eapply Permutation_in; eauto).
    apply memn_iff in H. congruence.
Qed.
Lemma not_in_both w h e : h = 0%Z \/ h = 1%Z -> memn e (wh0 A w) = false -> memn e (wh1 A w) = false -> ~ In e (mine w h) /\ ~ In e (other w h).
Proof.
  intros Hh E0 E1. assert (N0 : ~ In e (wh0 A w)) by (intros H; apply memn_iff in H; congruence).
  assert (N1 : ~ In e (wh1 A w)) by (intros H; apply memn_iff in H; congruence).
  destruct Hh as [-> | ->]; unfold mine, other, heap_of; cbn; auto.
Qed.

Lemma step_pushelem w j h e : WInv w -> J w j -> h = 0%Z \/ h = 1%Z -> Good w j (HPushElem A h e).
Proof.
  intros Hw HJ Hh. destruct (WInv_h w h Hw Hh) as [HSs HO]. unfold Good. cbn [Heap.hstep Heap.jh_step]. unfold Heap.known.
  rewrite (J_len w j HJ). pose proof HJ as (P0 & P1 & Ev).
  rewrite (memn_perm e _ _ P0), (memn_perm e _ _ P1).
  destruct (Nat.ltb_spec e (length (wst A w))) as [He|He]; cbn [andb].
  - rewrite (idx_free w e Hw He).
    destruct (memn e (wh0 A w)) eqn:E0; cbn [negb andb];
      [eexists _, _, _; split; [reflexivity|]; split; [apply hb_go; apply view_ok_of; auto|]; split; assumption|].
    destruct (memn e (wh1 A w)) eqn:E1; cbn [negb andb];
      [eexists _, _, _; split; [reflexivity|]; split; [apply hb_go; apply view_ok_of; auto|]; split; assumption|].
    destruct (not_in_both w h e Hh E0 E1) as [Nm No]. rewrite heap_of_eq.
    destruct (hp_pushelem_spec A d lt le_trans lt_asym h _ _ _ e HSs HO He Nm No) as (m' & st' & E & HS' & O' & P & L & V).
    rewrite E. cbn [bind].
    destruct (step_pack w j h m' st' (jlive j h ++ [e]) (jvals A j) Hw HJ Hh HS' O') as (Hw' & HJ' & Hv).
    { etransitivity; [|apply Permutation_sym; exact P].
      etransitivity; [apply Permutation_app_tail; apply (J_h w j h HJ Hh)|]. apply Permutation_sym, Permutation_cons_append. }
    { rewrite Ev. symmetry. apply map_evalue_ext; auto. }
    rewrite <- jput_vals in *.
    eexists _, _, _. split; [reflexivity|]. split; [apply hb_go; exact Hv|]. split; eassumption.
  - eexists _, _, _. split; [reflexivity|]. split; [apply hb_go; apply view_ok_of; auto|]. split; assumption.
Qed.

Lemma step_init w j h vs : WInv w -> J w j -> h = 0%Z \/ h = 1%Z -> Good w j (HInit A h vs).
Proof.
  intros Hw HJ Hh. destruct (WInv_h w h Hw Hh) as [HSs [O1 O2]]. unfold Good. cbn [Heap.hstep Heap.jh_step].
  rewrite heap_of_eq.
  destruct (hp_init_spec A d lt le_trans lt_asym h _ _ _ vs HSs O2) as (m' & st' & E & HS' & O' & P & L & Vold & Emap & _).
  rewrite E. cbn [bind].
  destruct (step_pack w j h m' st' (seq (length (jvals A j)) (length vs)) (jvals A j ++ vs) Hw HJ Hh HS' O') as (Hw' & HJ' & Hv).
  { rewrite (J_len w j HJ). apply Permutation_sym. exact P. }
  { destruct HJ as (_ & _ & Ev). rewrite Ev. symmetry. exact Emap. }
  eexists _, _, _. split; [reflexivity|]. split; [apply hb_go; exact Hv|]. split; assumption.
Qed.

Lemma NoDup_app_parts {X : Type} (a b : list X) : NoDup (a ++ b) -> NoDup a /\ NoDup b /\ forall x, In x a -> In x b -> False.
Proof.
  induction a as [|h t IH]; cbn [app]; intros H.
  - split; [constructor|]. split; [exact H|]. intros x [].
  - apply NoDup_cons_iff in H. destruct H as [Hn H]. destruct (IH H) as (A1 & A2 & A3).
    split; [constructor; [intros Hi; apply Hn; apply in_or_app; left; exact Hi|exact A1]|]. split; [exact A2|].
    intros x [->|Hx] Hb; [apply Hn; apply in_or_app; right; exact Hb|exact (A3 x Hx Hb)].
Qed.

Lemma step_popall w j h k : WInv w -> J w j -> h = 0%Z \/ h = 1%Z -> Good w j (HPopAll A h k).
Proof.
  intros Hw HJ Hh. destruct (WInv_h w h Hw Hh) as [HSs HO]. unfold Good. cbn [Heap.hstep Heap.jh_step].
  rewrite heap_of_eq. cbn [fst].
  destruct (hpopall_spec A d lt le_trans lt_asym h (other w h) (S (length (mine w h))) (mine w h) (wst A w) k [] ltac:(lia) HSs HO)
    as (l & m' & st' & E & HS' & O' & P & Ss & M & Ln & L & V & I).
  cbn [rev app] in E. rewrite E. cbn [bind fst snd].
  set (idxs := map eidx st'). set (live := jlive j h).
  pose proof (J_h w j h HJ Hh) as Pl. fold live in Pl.
  assert (Hnl : NoDup live) by (apply (live_NoDup w j h); auto).
  assert (Hnm : NoDup (l ++ m')) by (eapply Permutation_NoDup; [apply Permutation_sym; exact P|apply (NoDup_mine w h); auto]).
  assert (Hlt : forall x, In x live -> x < length st') by (intros x Hx; rewrite L; apply (mine_lt w h); auto; eapply Permutation_in; eauto).
  assert (Hgone : forall x, In x live -> ((Heap.idx_of idxs x =? -1)%Z = true <-> In x l)).
  { intros x Hx. unfold idxs. rewrite idx_of_eq by (apply Hlt; exact Hx). split.
    - intros Ei. apply Z.eqb_eq in Ei.
      assert (Hx' : In x (l ++ m')) by (eapply Permutation_in; [apply Permutation_sym; exact P|eapply Permutation_in; eauto]).
      apply in_app_or in Hx'. destruct Hx' as [Hx'|Hx']; [exact Hx'|].
      destruct (Hd_in A d _ _ _ (proj1 HS') Hx') as (_ & _ & kk & _ & _ & Ek). cbn [snd] in Ek. lia.
    - intros Hl. apply Z.eqb_eq. apply I. exact Hl. }
  set (gone := filter (fun e => (Heap.idx_of idxs e =? -1)%Z) live).
  set (stay := filter (fun e => negb (Heap.idx_of idxs e =? -1)%Z) live).
  assert (Pg : Permutation gone l).
  { apply NoDup_Permutation; [apply NoDup_filter; exact Hnl|apply (NoDup_app_parts _ _ Hnm)|].
    intros x. unfold gone. rewrite filter_In. split.
    - intros [Hx Ei]. apply (Hgone x Hx). exact Ei.
    - intros Hl. assert (Hx : In x live) by (eapply Permutation_in; [apply Permutation_sym; exact Pl|eapply Permutation_in; [exact P|apply in_or_app; left; exact Hl]]).
      split; [exact Hx|apply (Hgone x Hx); exact Hl]. }
  assert (Ps : Permutation stay m').
  { apply NoDup_Permutation; [apply NoDup_filter; exact Hnl|apply (NoDup_app_parts _ _ Hnm)|].
    intros x. unfold stay. rewrite filter_In. split.
    - intros [Hx Ei]. assert (Hx' : In x (l ++ m')) by (eapply Permutation_in; [apply Permutation_sym; exact P|eapply Permutation_in; eauto]).
      apply in_app_or in Hx'. destruct Hx' as [Hx'|Hx']; [|exact Hx'].
      apply (Hgone x Hx) in Hx'. rewrite Hx' in Ei. discriminate.
    - intros Hm. assert (Hx : In x live) by (eapply Permutation_in; [apply Permutation_sym; exact Pl|eapply Permutation_in; [exact P|apply in_or_app; right; exact Hm]]).
      split; [exact Hx|]. destruct (Heap.idx_of idxs x =? -1)%Z eqn:Ei; [|reflexivity].
      apply (Hgone x Hx) in Ei. exfalso. exact (proj2 (proj2 (NoDup_app_parts _ _ Hnm)) x Ei Hm). }
  destruct (step_pack w j h m' st' stay (jvals A j) Hw HJ Hh HS' O' Ps) as (Hw' & HJ' & Hv).
  { destruct HJ as (_ & _ & Ev). rewrite Ev. symmetry. apply map_evalue_ext; auto. }
  rewrite <- jput_vals in *.
  assert (Ejv : forall x, jval j x = valof (wst A w) x) by (intros x; apply (jval_valof w j x HJ)).
  eexists _, _, _. split; [reflexivity|]. split; [|split; eassumption].
  destruct (put_mine w h m' st' Hh) as (_ & _ & Est). rewrite Est. fold idxs. fold live. fold gone. fold stay.
  apply hb_go. rewrite !andb_true_iff. split; [split; [split; [split|]|]|].
  - exact Ss.
  - apply (permb_iff A eqb eqb_spec). rewrite (map_ext _ _ Ejv). apply Permutation_map. apply Permutation_sym. exact Pg.
  - apply forallb_forall. intros v Hv'. apply in_map_iff in Hv'. destruct Hv' as (x & <- & Hx).
    apply (minimal_iff A lt). intros y Hy. apply in_map_iff in Hy. destruct Hy as (y0 & <- & Hy0).
    unfold Heap.le. rewrite Ejv. apply M; [exact Hx|]. eapply Permutation_in; [exact Ps|exact Hy0].
  - apply Nat.eqb_eq. rewrite map_length, Ln. rewrite (Permutation_length Pl). reflexivity.
  - rewrite Est in Hv. exact Hv.
Qed.

(* ---- e.Value = v; heaps[a].Fix(e); heaps[1-a].Fix(e) ---- *)
Local Notation set_val := (Heap.set_val A d).
Lemma map_upd {X Y : Type} (f : X -> Y) (l : list X) i x : map f (upd l i x) = upd (map f l) i (f x).
Proof. revert i; induction l as [|a l IH]; intros [|i]; cbn [upd map]; auto. rewrite IH. reflexivity. Qed.
Lemma map_evalue_set_val (st : store) e v : map evalue (set_val st e v) = upd (map evalue st) e v.
Proof. unfold Heap.set_val. rewrite map_upd. reflexivity. Qed.
Lemma HS_set_val h m o (st : store) e v : HS h m o st -> HS h m o (set_val st e v).
Proof.
  intros ((Hn & Hi) & (Hn2 & Hi2) & Hf). cbn [fst snd] in *. split; [|split].
  - split; [exact Hn|]. cbn [fst snd]. intros k Hk. destruct (Hi k Hk) as (K1 & K2 & K3).
    rewrite (set_val_length A d), (eidx_set_val A d), (eown_set_val A d). auto.
  - split; [exact Hn2|]. cbn [fst snd]. intros k Hk. destruct (Hi2 k Hk) as (K1 & K2 & K3).
    rewrite (set_val_length A d), (eidx_set_val A d), (eown_set_val A d). auto.
  - intros x Hx Hm Ho. rewrite (set_val_length A d) in Hx. rewrite (eidx_set_val A d), (eown_set_val A d). apply Hf; auto.
Qed.

(* structure intact, and in order with respect to reference values that the store agrees with except at e *)
Definition PreInv (w : world) (e : nat) (val0 : nat -> A) : Prop :=
  HS 0%Z (wh0 A w) (wh1 A w) (wst A w) /\ (forall x, x <> e -> valof (wst A w) x = val0 x) /\
  hokN (ltE val0) (wh0 A w) (length (wh0 A w)) /\ hokN (ltE val0) (wh1 A w) (length (wh1 A w)).
Lemma PreInv_h w e val0 b : PreInv w e val0 -> b = 0%Z \/ b = 1%Z ->
  HS b (mine w b) (other w b) (wst A w) /\ hokN (ltE val0) (mine w b) (length (mine w b)) /\ hokN (ltE val0) (other w b) (length (other w b)).
Proof.
  intros (H1 & _ & O1 & O2) [-> | ->]; unfold mine, other, heap_of; cbn [fst Z.eqb Z.sub Z.add Z.opp Z.pos_sub].
  - auto.
  - split; [apply (HS_sym 0%Z); exact H1|auto].
Qed.
Lemma WInv_PreInv w e : WInv w -> PreInv w e (valof (wst A w)).
Proof. intros [H [O1 O2]]. split; [exact H|]. split; [reflexivity|]. split; assumption. Qed.

Lemma fix_pre_step w1 j1 b e val0 : PreInv w1 e val0 -> J w1 j1 -> b = 0%Z \/ b = 1%Z ->
  exists t, Heap.hp_fix A d lt b (heap_of A w1 b) e = Ok t /\
    J (put_heap A w1 b t) j1 /\
    ((In e (mine w1 b) /\ WInv (put_heap A w1 b t)) \/ (~ In e (mine w1 b) /\ put_heap A w1 b t = w1)).
Proof.
  intros HP HJ Hb. destruct (PreInv_h w1 e val0 b HP Hb) as (HSs & O1 & O2). destruct HP as (_ & Hag & _).
  rewrite heap_of_eq. destruct (in_dec Nat.eq_dec e (mine w1 b)) as [Hin|Hin].
  - assert (O2' : hokN (ltE (valof (wst A w1))) (other w1 b) (length (other w1 b))).
    { apply (hok_ext_on A lt val0); [|exact O2]. intros x Hx. symmetry. apply Hag. intros ->.
      exact (HS_disjoint A d b _ _ _ e HSs Hin Hx). }
    destruct (hp_fix_spec A d lt le_trans lt_asym b _ _ _ e val0 HSs Hb Hin Hag O1 O2') as (m' & st' & E & HS' & O' & P & L & V).
    exists (m', st'). split; [exact E|]. split.
    + pose proof (J_put w1 j1 b m' st' (jlive j1 b) (jvals A j1) Hb HJ) as HJ'. rewrite (jput_same j1 b Hb) in HJ'. apply HJ'.
      * etransitivity; [apply (J_h w1 j1 b HJ Hb)|apply Permutation_sym; exact P].
      * destruct HJ as (_ & _ & Ev). rewrite Ev. symmetry. apply map_evalue_ext; auto.
    + left. split; [exact Hin|apply WInv_put; auto].
  - exists (mine w1 b, wst A w1). split; [apply (hp_fix_ignored A d lt b _ _ _ e HSs Hb Hin)|].
    rewrite (put_same w1 b Hb). split; [exact HJ|]. right. auto.
Qed.

Lemma step_setfix w j e v a : WInv w -> J w j -> a = 0%Z \/ a = 1%Z -> Good w j (HSetFix A e v a).
Proof.
  intros Hw HJ Ha. unfold Good. cbn [Heap.hstep Heap.jh_step]. unfold Heap.known. rewrite (J_len w j HJ).
  destruct (Nat.ltb_spec e (length (wst A w))) as [He|He].
  2:{ eexists _, _, _. split; [reflexivity|]. split; [apply hb_go; apply view_ok_of; auto|]. split; assumption. }
  set (w1 := Heap.mkW A (wh0 A w) (wh1 A w) (set_val (wst A w) e v)).
  set (j1 := mkJ (jl0 A j) (jl1 A j) (upd (jvals A j) e v)).
  assert (HJ1 : J w1 j1).
  { destruct HJ as (P0 & P1 & Ev). split; [exact P0|]. split; [exact P1|]. cbn [jvals wst w1 j1]. rewrite Ev. symmetry. apply map_evalue_set_val. }
  assert (HP1 : PreInv w1 e (valof (wst A w))).
  { destruct Hw as [H [O1 O2]]. split; [apply HS_set_val; exact H|]. split; [|split; assumption].
    intros x Hx. cbn [wst w1]. unfold Heap.valof. rewrite (evalue_set_val A d).
    destruct (Nat.eqb_spec x e); [contradiction|reflexivity]. }
  assert (Ha' : (1 - a = 0 \/ 1 - a = 1)%Z) by lia.
  destruct (fix_pre_step w1 j1 a e _ HP1 HJ1 Ha) as (t & E & HJ2 & C). rewrite E. cbn [bind].
  set (w2 := put_heap A w1 a t) in *.
  assert (HP2 : exists val2, PreInv w2 e val2).
  { destruct C as [[_ Hw2]|[_ Ew]]; [exists (valof (wst A w2)); apply WInv_PreInv; exact Hw2|rewrite Ew; eauto]. }
  destruct HP2 as (val2 & HP2).
  destruct (fix_pre_step w2 j1 (1 - a)%Z e _ HP2 HJ2 Ha') as (t' & E' & HJ3 & C'). rewrite E'. cbn [bind].
  set (w3 := put_heap A w2 (1 - a)%Z t') in *.
  assert (Hw3 : WInv w3).
  { destruct C' as [[_ H3]|[N3 E3]]; [exact H3|]. rewrite E3 in *. destruct C as [[_ H2]|[N2 E2]]; [exact H2|].
    rewrite E2 in *. (* e is in neither heap: the new value is invisible to both orders *)
    destruct HP1 as (H1 & Hag & O1 & O2). split; [exact H1|].
    assert (N0 : ~ In e (wh0 A w1) /\ ~ In e (wh1 A w1)).
    { destruct Ha as [-> | ->]; unfold mine, heap_of in N2, N3; cbn in N2, N3; auto. }
    split; (apply (hok_ext_on A lt (valof (wst A w))); [|assumption]); intros x Hx; symmetry; apply Hag; intros ->; tauto. }
  eexists _, _, _. split; [reflexivity|]. split; [|split; [exact Hw3|exact HJ3]].
  fold j1. apply hb_go. apply view_ok_of; auto.
Qed.

(* ------------------------------------------------------------------ every operation sequence *)
Lemma hstep_good w j o : WInv w -> J w j -> hop_wf o = true -> Good w j o.
Proof.
  intros Hw HJ Hwf. destruct o; cbn [Heap.hop_wf] in Hwf; try (apply is01_iff in Hwf).
  - apply step_push; auto.
  - apply step_pop; auto.
  - apply step_peek; auto.
  - apply step_len; auto.
  - apply step_remove; auto.
  - apply step_fix; auto.
  - apply step_setfix; auto.
  - apply step_pushelem; auto.
  - apply step_init; auto.
  - apply step_popall; auto.
  - discriminate.
Qed.

Theorem hrun_judged : forall ops w j, WInv w -> J w j -> forallb hop_wf ops = true ->
  exists tr, hrun w ops = Ok tr /\ jh_run j ops tr = true.
Proof.
  induction ops as [|o t IH]; intros w j Hw HJ Hwf; cbn [Heap.hrun]; [exists []; auto|].
  cbn [forallb] in Hwf. apply andb_true_iff in Hwf. destruct Hwf as [Ho Ht].
  destruct (hstep_good w j o Hw HJ Ho) as (w' & r & j' & E & Ej & Hw' & HJ'). rewrite E. cbn [bind fst snd].
  destruct (IH w' j' Hw' HJ' Ht) as (tr & E2 & Ej2). rewrite E2. cbn [bind].
  eexists. split; [reflexivity|]. cbn [Heap.jh_run]. rewrite Ej. exact Ej2.
Qed.

Lemma WInv_init : WInv (Heap.mkW A [] [] []).
Proof.
  split; [split; [|split]|split]; cbn [wh0 wh1 wst].
  - split; [constructor|]. cbn [fst length]. intros k Hk. lia.
  - split; [constructor|]. cbn [fst length]. intros k Hk. lia.
  - intros e He. cbn [length] in He. lia.
  - intros p c Hc. cbn [length] in Hc. lia.
  - intros p c Hc. cbn [length] in Hc. lia.
Qed.
Lemma J_init : J (Heap.mkW A [] [] []) (mkJ [] [] []).
Proof. split; [reflexivity|]. split; reflexivity. Qed.

(* a whole case on two fresh heaps: never panics, never out of fuel, accepted by the judge *)
Theorem hcase_judged (ops : list (hop A)) : forallb hop_wf ops = true ->
  (exists tr, hcase ops = Ok tr) /\ jh_case ops (hcase ops) = true.
Proof.
  intros Hwf. unfold Heap.hcase. destruct (hrun_judged ops _ _ WInv_init J_init Hwf) as (tr & E & Ej).
  rewrite E. split; [eauto|]. exact Ej.
Qed.
End HJ.
