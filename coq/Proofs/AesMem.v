(* C08, memory level: dst and src are views of ONE backing array.  The `*_mem` functions of Model/Aes.v (what Run/C08
   executes) agree with the functional ones for every placement the overlap rules of the library allow, in particular for
   the documented layouts (disjoint; dst and src starting at the same address: pre-grown plaintext / decrypt in place). *)
From Coq Require Import List ZArith Lia Bool Arith.
From V Require Import Lib.Enc Gen.Cryptz Model.Aes Proofs.AesPkcs7 Proofs.AesCbc.
Import ListNotations.

Definition lift {A B} (f : A -> B) (r : res A) : res B :=
  match r with Ok a => Ok (f a) | Err e => Err e | Panic => Panic end.

(* ---- views of a decomposed array *)
Lemma mread_frame (A x Bt : bytes) : mread (A ++ x ++ Bt) (length A) (length x) = x.
Proof.
  unfold mread. rewrite skipn_app, skipn_all, Nat.sub_diag. cbn [skipn app].
  rewrite firstn_app, Nat.sub_diag, firstn_all. cbn [firstn]. apply app_nil_r.
Qed.
Lemma mwrite_frame_le (A x Bt y : bytes) : length y <= length x ->
  mwrite (A ++ x ++ Bt) (length A) y = A ++ y ++ skipn (length y) x ++ Bt.
Proof.
  intros H. unfold mwrite. rewrite firstn_app, Nat.sub_diag, firstn_all. cbn [firstn]. rewrite app_nil_r.
  f_equal. f_equal. rewrite skipn_app. rewrite (skipn_all2 A) by lia. cbn [app].
  replace (length A + length y - length A) with (length y) by lia.
  rewrite skipn_app. replace (length y - length x) with 0 by lia. reflexivity.
Qed.
Lemma mwrite_frame (A x Bt y : bytes) : length y = length x -> mwrite (A ++ x ++ Bt) (length A) y = A ++ y ++ Bt.
Proof. intros H. rewrite mwrite_frame_le by lia. rewrite H, skipn_all. reflexivity. Qed.
Lemma mread_length m off len : off + len <= length m -> length (mread m off len) = len.
Proof. intros H. unfold mread. rewrite firstn_length, skipn_length. lia. Qed.

(* a view that lies entirely before or entirely behind the rewritten part is unchanged *)
Lemma mread_outside (A x y Bt : bytes) o l : length y = length x ->
  o + l <= length A \/ length A + length x <= o ->
  mread (A ++ y ++ Bt) o l = mread (A ++ x ++ Bt) o l.
Proof.
  intros Hl [H|H]; unfold mread.
  - rewrite !skipn_app. replace (o - length A) with 0 by lia. cbn [skipn].
    rewrite !firstn_app. rewrite skipn_length. replace (l - (length A - o)) with 0 by lia. reflexivity.
  - rewrite !skipn_app. rewrite !(skipn_all2 A) by lia. cbn [app].
    rewrite (skipn_all2 y), (skipn_all2 x) by lia. rewrite Hl. reflexivity.
Qed.

Section Mem.
Variable E D : bytes -> bytes -> bytes.
Hypothesis E_len : forall k b, good_key k = true -> length b = 16 -> length (E k b) = 16.
Hypothesis D_len : forall k b, good_key k = true -> length b = 16 -> length (D k b) = 16.

Lemma cbc_enc_bytes_length k iv d : good_key k = true -> length iv = 16 -> length d mod 16 = 0 ->
  length (cbc_enc_bytes E k iv d) = length d.
Proof.
  intros Hk Hiv Hd. unfold cbc_enc_bytes.
  assert (G : forall bs iv0, length iv0 = 16 -> Forall (fun b => length b = 16) bs ->
              Forall (fun b => length b = 16) (cbc_enc E k iv0 bs) /\ length (cbc_enc E k iv0 bs) = length bs).
  { induction bs as [|b t IH]; intros iv0 Hiv0 Hbs; cbn [cbc_enc]; [split; [constructor|reflexivity]|].
    inversion Hbs as [|? ? Hb Ht]; subst.
    assert (Hc : length (E k (xor b iv0)) = 16) by (apply E_len; [exact Hk|rewrite xor_len; lia]).
    destruct (IH _ Hc Ht) as [F L]. split; [constructor; assumption|cbn [length]; lia]. }
  destruct (G (blocks d) iv Hiv (blocks_forall d Hd)) as [F L].
  rewrite concat_length16 by exact F.
  pose proof (concat_length16 (blocks d) (blocks_forall d Hd)) as C. rewrite blocks_concat in C.
  transitivity (16 * length (blocks d)); [f_equal; exact L|symmetry; exact C].
Qed.
Lemma cbc_dec_bytes_length k iv d : good_key k = true -> length iv = 16 -> length d mod 16 = 0 ->
  length (cbc_dec_bytes D k iv d) = length d.
Proof.
  intros Hk Hiv Hd. unfold cbc_dec_bytes.
  assert (G : forall bs iv0, length iv0 = 16 -> Forall (fun b => length b = 16) bs ->
              Forall (fun b => length b = 16) (cbc_dec D k iv0 bs) /\ length (cbc_dec D k iv0 bs) = length bs).
  { induction bs as [|b t IH]; intros iv0 Hiv0 Hbs; cbn [cbc_dec]; [split; [constructor|reflexivity]|].
    inversion Hbs as [|? ? Hb Ht]; subst.
    destruct (IH _ Hb Ht) as [F L]. split; [constructor; [rewrite xor_len, D_len by assumption; lia|assumption]|cbn [length]; lia]. }
  destruct (G (blocks d) iv Hiv (blocks_forall d Hd)) as [F L].
  rewrite concat_length16 by exact F.
  pose proof (concat_length16 (blocks d) (blocks_forall d Hd)) as C. rewrite blocks_concat in C.
  transitivity (16 * length (blocks d)); [f_equal; exact L|symmetry; exact C].
Qed.

(* ---- AESCBCEncrypt: any placement of the source (copy is memmove, CryptBlocks runs in place on dst) *)
Theorem cbc_encrypt_mem_frame (A dst Bt : bytes) soff slen key iv : let m := A ++ dst ++ Bt in
  soff + slen <= length m ->
  cbc_encrypt_mem E m (length A) (length dst) soff slen key iv =
    lift (fun d => A ++ d ++ Bt) (cbc_encrypt E dst (mread m soff slen) key iv).
Proof.
  cbv zeta. intros Hin. set (m := A ++ dst ++ Bt) in *. set (plain := mread m soff slen).
  assert (Lp : length plain = slen) by (apply mread_length; exact Hin).
  unfold cbc_encrypt_mem, cbc_encrypt, cbc_encrypt_prep_mem, cbc_encrypt_prep. fold plain. clearbody plain. subst slen.
  destruct (good_key key) eqn:Hk; cbn [negb lift]; [|reflexivity].
  destruct (Nat.ltb_spec (length dst) (length plain)) as [|Hge]; [reflexivity|].
  destruct (nth_error pad_table (BS - masked (length plain))) as [pat|]; [|reflexivity].
  rewrite Nat.min_r by lia. rewrite firstn_all.
  set (X := skipn (length plain) dst). assert (LX : length X = length dst - length plain) by (unfold X; apply skipn_length).
  assert (M1 : mwrite m (length A) plain = (A ++ plain) ++ X ++ Bt).
  { unfold m. rewrite mwrite_frame_le by lia. rewrite <- app_assoc. reflexivity. }
  rewrite M1. rewrite (copy_into_prefix dst plain) by lia. fold X.
  assert (F1 : firstn (length plain) (plain ++ X) = plain)
    by (rewrite firstn_app, Nat.sub_diag, firstn_all; cbn [firstn]; apply app_nil_r).
  assert (F2 : skipn (length plain) (plain ++ X) = X) by (rewrite skipn_app, Nat.sub_diag, skipn_all; reflexivity).
  rewrite F1, F2.
  set (y := firstn (length dst - length plain) pat).
  assert (Hy : length y <= length X) by (unfold y; rewrite firstn_length; lia).
  assert (M2 : mwrite ((A ++ plain) ++ X ++ Bt) (length A + length plain) y = A ++ (plain ++ copy_into X pat) ++ Bt).
  { replace (length A + length plain) with (length (A ++ plain)) by (rewrite app_length; lia).
    rewrite mwrite_frame_le by exact Hy. unfold copy_into. rewrite LX. fold y. rewrite <- !app_assoc. do 3 f_equal.
    unfold y. rewrite firstn_length. destruct (Nat.le_ge_cases (length pat) (length dst - length plain)).
    - rewrite Nat.min_r by lia. reflexivity.
    - rewrite Nat.min_l by lia. rewrite <- LX. rewrite skipn_all. rewrite skipn_all2 by lia. reflexivity. }
  rewrite M2.
  destruct (negb (length iv =? BS)) eqn:Hiv; [reflexivity|].
  assert (Ld2 : length (plain ++ copy_into X pat) = length dst) by (rewrite app_length, copy_into_length; lia).
  rewrite Ld2.
  destruct (negb (length dst mod BS =? 0)) eqn:Hm; [reflexivity|]. cbn [lift].
  rewrite <- Ld2 at 1. rewrite mread_frame. f_equal. apply mwrite_frame.
  apply negb_false_iff in Hiv. apply Nat.eqb_eq in Hiv. apply negb_false_iff in Hm. apply Nat.eqb_eq in Hm.
  rewrite BS_eq in *. apply cbc_enc_bytes_length; [exact Hk|exact Hiv|rewrite Ld2; exact Hm].
Qed.

(* ---- AESCBCDecrypt: any placement CryptBlocks accepts (same start or no overlap) *)
Theorem cbc_decrypt_mem_frame (A dst Bt : bytes) soff slen key iv : let m := A ++ dst ++ Bt in
  soff + slen <= length m -> inexact_overlap (length A) slen soff slen = false ->
  cbc_decrypt_mem D m (length A) (length dst) soff slen key iv =
    lift (fun x => (fst x, A ++ snd x ++ Bt)) (cbc_decrypt D dst (mread m soff slen) key iv).
Proof.
  cbv zeta. intros Hin Hov. set (m := A ++ dst ++ Bt) in *. set (ct := mread m soff slen).
  assert (Lc : length ct = slen) by (apply mread_length; exact Hin).
  unfold cbc_decrypt_mem, cbc_decrypt. fold ct. rewrite Lc, Hov.
  destruct ((slen <? BS) || negb (masked slen =? 0)); [reflexivity|].
  destruct (good_key key) eqn:Hk; cbn [negb lift]; [|reflexivity].
  destruct (negb (length iv =? BS)) eqn:Hiv; [reflexivity|].
  destruct (negb (slen mod BS =? 0)) eqn:Hm; [reflexivity|].
  destruct (Nat.ltb_spec (length dst) slen) as [|Hge]; [reflexivity|].
  apply negb_false_iff in Hiv. apply Nat.eqb_eq in Hiv. apply negb_false_iff in Hm. apply Nat.eqb_eq in Hm. rewrite BS_eq in *.
  assert (Ld : length (cbc_dec_bytes D key iv ct) = slen) by (rewrite cbc_dec_bytes_length; auto; rewrite Lc; exact Hm).
  assert (M1 : mwrite m (length A) (cbc_dec_bytes D key iv ct) = A ++ copy_into dst (cbc_dec_bytes D key iv ct) ++ Bt).
  { unfold m. rewrite mwrite_frame_le by lia. rewrite copy_into_prefix by lia. rewrite <- app_assoc. reflexivity. }
  rewrite M1. rewrite <- (copy_into_length dst (cbc_dec_bytes D key iv ct)) at 1. rewrite mread_frame.
  destruct (unpad_tbl _); reflexivity.
Qed.
End Mem.

Section MemGcm.
Variable seal : bytes -> bytes -> bytes -> bytes -> bytes.
Variable open : bytes -> bytes -> bytes -> bytes -> option bytes.
Hypothesis seal_len : forall k n p a, length (seal k n p a) = length p + 16.
Hypothesis open_len : forall k n c a p, open k n c a = Some p -> length c = length p + 16.

Theorem gcm_encrypt_mem_frame (A dst Bt : bytes) soff slen key nonce ad : let m := A ++ dst ++ Bt in
  soff + slen <= length m -> (slen + 16 <= length dst -> inexact_overlap (length A) slen soff slen = false) ->
  gcm_encrypt_mem seal m (length A) (length dst) soff slen key nonce ad =
    lift (fun d => A ++ d ++ Bt) (gcm_encrypt seal dst (mread m soff slen) key nonce ad).
Proof.
  cbv zeta. intros Hin Hov. set (m := A ++ dst ++ Bt) in *. set (plain := mread m soff slen).
  assert (Lp : length plain = slen) by (apply mread_length; exact Hin).
  unfold gcm_encrypt_mem, gcm_encrypt. fold plain. rewrite Lp, TAG_eq.
  destruct (negb (good_key key)); [reflexivity|]. destruct (length nonce =? 0); [reflexivity|].
  destruct (Nat.leb_spec (slen + 16) (length dst)) as [Hle|Hgt]; [|reflexivity].
  rewrite (Hov Hle). cbn [lift]. f_equal. unfold m.
  rewrite mwrite_frame_le by (rewrite seal_len; lia). rewrite copy_into_prefix by (rewrite seal_len; lia).
  rewrite <- app_assoc. reflexivity.
Qed.

(* Open into dst[:0]: besides the overlap rule, the tag of the source must survive the write of the plaintext
   (true for the documented layouts, see below) *)
Theorem gcm_decrypt_mem_frame (A dst Bt : bytes) soff slen key nonce ad : let m := A ++ dst ++ Bt in
  soff + slen <= length m ->
  (slen - 16 <= length dst -> inexact_overlap (length A) (slen - 16) soff (slen - 16) = false) ->
  (forall p, length p = slen - 16 -> slen - 16 <= length dst ->
     mread (mwrite m (length A) p) (soff + (slen - 16)) 16 = mread m (soff + (slen - 16)) 16) ->
  gcm_decrypt_mem open m (length A) (length dst) soff slen key nonce ad =
    lift (fun d => A ++ d ++ Bt) (gcm_decrypt open dst (mread m soff slen) key nonce ad).
Proof.
  cbv zeta. intros Hin Hov Htag. set (m := A ++ dst ++ Bt) in *. set (ct := mread m soff slen).
  assert (Lc : length ct = slen) by (apply mread_length; exact Hin).
  unfold gcm_decrypt_mem, gcm_decrypt. fold ct. rewrite Lc, TAG_eq.
  destruct (negb (good_key key)); [reflexivity|]. destruct (length nonce =? 0); [reflexivity|].
  destruct (Nat.ltb_spec slen 16) as [Hs|Hs].
  - destruct (open key nonce ct ad) as [p|] eqn:Eo; [|reflexivity]. apply open_len in Eo. lia.
  - destruct (Nat.leb_spec (slen - 16) (length dst)) as [Hle|Hgt].
    + rewrite (Hov Hle). cbn [andb].
      destruct (open key nonce ct ad) as [p|] eqn:Eo; [|reflexivity]. apply open_len in Eo.
      assert (Lpp : length p = slen - 16) by lia.
      rewrite (Htag p Lpp Hle), beq_refl. cbn [lift]. f_equal. unfold m.
      rewrite mwrite_frame_le by lia. rewrite copy_into_prefix by lia. rewrite <- app_assoc. reflexivity.
    + cbn [andb]. destruct (open key nonce ct ad) as [p|]; reflexivity.
Qed.
End MemGcm.

(* ---- the documented layouts satisfy the side conditions *)
(* same start: dst = m[a : a+dlen], src = m[a : a+slen] *)
Lemma same_start_no_inexact a l : inexact_overlap a l a l = false.
Proof. unfold inexact_overlap. rewrite Nat.eqb_refl, !orb_true_r. reflexivity. Qed.
(* disjoint views *)
Lemma disjoint_no_inexact o1 l1 o2 l2 : o1 + l1 <= o2 \/ o2 + l2 <= o1 -> inexact_overlap o1 l1 o2 l2 = false.
Proof.
  intros H. unfold inexact_overlap, any_overlap. destruct ((l1 =? 0) || (l2 =? 0) || (o1 =? o2)); [reflexivity|].
  destruct (Nat.ltb_spec 0 l1), (Nat.ltb_spec 0 l2), (Nat.ltb_spec o1 (o2 + l2)), (Nat.ltb_spec o2 (o1 + l1)); cbn [andb]; try reflexivity; lia.
Qed.

(* decrypt in place, the layout of the doc comment: dst = cipherText[:AESGCMDecryptLen(cipherText)] *)
Lemma gcm_tag_survives_same_start (A body tag post p : bytes) : length p = length body ->
  mread (mwrite (A ++ body ++ tag ++ post) (length A) p) (length A + length body) (length tag) =
  mread (A ++ body ++ tag ++ post) (length A + length body) (length tag).
Proof.
  intros H. rewrite mwrite_frame by exact H.
  replace (length A + length body) with (length (A ++ p)) at 1 by (rewrite app_length; lia).
  replace (length A + length body) with (length (A ++ body)) by (rewrite app_length; lia).
  rewrite (app_assoc A p), (app_assoc A body). rewrite !mread_frame. reflexivity.
Qed.

(* ---- the documented in-place uses, spelled out *)
Section InPlace.
Variable E D : bytes -> bytes -> bytes.
Hypothesis E_len : forall k b, good_key k = true -> length b = 16 -> length (E k b) = 16.
Hypothesis D_len : forall k b, good_key k = true -> length b = 16 -> length (D k b) = 16.
Variable seal : bytes -> bytes -> bytes -> bytes -> bytes.
Variable open : bytes -> bytes -> bytes -> bytes -> option bytes.
Hypothesis seal_len : forall k n p a, length (seal k n p a) = length p + 16.
Hypothesis open_len : forall k n c a p, open k n c a = Some p -> length c = length p + 16.

Lemma mread_prefix (A x y Bt : bytes) : mread (A ++ (x ++ y) ++ Bt) (length A) (length x) = x.
Proof. rewrite <- (app_assoc x y Bt). apply mread_frame. Qed.

(* plaintext pre-grown by the padding length: dst = plain[:AESCBCEncryptLen(plain)] over the same memory *)
Theorem cbc_encrypt_in_place (A plain spare Bt : bytes) key iv :
  cbc_encrypt_mem E (A ++ (plain ++ spare) ++ Bt) (length A) (length (plain ++ spare)) (length A) (length plain) key iv =
    lift (fun d => A ++ d ++ Bt) (cbc_encrypt E (plain ++ spare) plain key iv).
Proof.
  rewrite cbc_encrypt_mem_frame by (auto; rewrite !app_length; lia). rewrite mread_prefix. reflexivity.
Qed.
(* dst = cipherText *)
Theorem cbc_decrypt_in_place (A ct Bt : bytes) key iv :
  cbc_decrypt_mem D (A ++ ct ++ Bt) (length A) (length ct) (length A) (length ct) key iv =
    lift (fun x => (fst x, A ++ snd x ++ Bt)) (cbc_decrypt D ct ct key iv).
Proof.
  rewrite cbc_decrypt_mem_frame by (auto using same_start_no_inexact; rewrite !app_length; lia). rewrite mread_frame. reflexivity.
Qed.
(* plaintext pre-grown by the tag size *)
Theorem gcm_encrypt_in_place (A plain spare Bt : bytes) key nonce ad :
  gcm_encrypt_mem seal (A ++ (plain ++ spare) ++ Bt) (length A) (length (plain ++ spare)) (length A) (length plain) key nonce ad =
    lift (fun d => A ++ d ++ Bt) (gcm_encrypt seal (plain ++ spare) plain key nonce ad).
Proof.
  rewrite gcm_encrypt_mem_frame by (auto using same_start_no_inexact; rewrite !app_length; lia). rewrite mread_prefix. reflexivity.
Qed.
(* dst = cipherText[:AESGCMDecryptLen(cipherText)] *)
Theorem gcm_decrypt_in_place (A body tag Bt : bytes) key nonce ad : length tag = 16 ->
  gcm_decrypt_mem open (A ++ body ++ tag ++ Bt) (length A) (length body) (length A) (length (body ++ tag)) key nonce ad =
    lift (fun d => A ++ d ++ tag ++ Bt) (gcm_decrypt open body (body ++ tag) key nonce ad).
Proof.
  intros Ht. rewrite (gcm_decrypt_mem_frame open open_len A body (tag ++ Bt)).
  - replace (A ++ body ++ tag ++ Bt) with (A ++ (body ++ tag) ++ Bt) by (rewrite <- app_assoc; reflexivity).
    rewrite mread_frame. reflexivity.
  - rewrite !app_length. lia.
  - intros _. apply same_start_no_inexact.
  - intros p Lp _. rewrite app_length, Ht in *. replace (length body + 16 - 16) with (length body) in * by lia.
    rewrite <- Ht. apply gcm_tag_survives_same_start. exact Lp.
Qed.

(* separate buffers (dst before src; the mirrored placement follows from the frame theorems in the same way) *)
Theorem cbc_decrypt_disjoint (A dst Mid ct Post : bytes) key iv : length ct <= length dst ->
  cbc_decrypt_mem D (A ++ dst ++ Mid ++ ct ++ Post) (length A) (length dst) (length (A ++ dst ++ Mid)) (length ct) key iv =
    lift (fun x => (fst x, A ++ snd x ++ Mid ++ ct ++ Post)) (cbc_decrypt D dst ct key iv).
Proof.
  intros Hl. rewrite (cbc_decrypt_mem_frame D D_len A dst (Mid ++ ct ++ Post)).
  - replace (A ++ dst ++ Mid ++ ct ++ Post) with ((A ++ dst ++ Mid) ++ ct ++ Post) by (rewrite <- !app_assoc; reflexivity).
    rewrite mread_frame. reflexivity.
  - rewrite !app_length. lia.
  - apply disjoint_no_inexact. rewrite !app_length. lia.
Qed.
Theorem gcm_decrypt_disjoint (A dst Mid ct Post : bytes) key nonce ad : length ct <= length dst + 16 ->
  gcm_decrypt_mem open (A ++ dst ++ Mid ++ ct ++ Post) (length A) (length dst) (length (A ++ dst ++ Mid)) (length ct) key nonce ad =
    lift (fun d => A ++ d ++ Mid ++ ct ++ Post) (gcm_decrypt open dst ct key nonce ad).
Proof.
  intros Hl. rewrite (gcm_decrypt_mem_frame open open_len A dst (Mid ++ ct ++ Post)).
  - replace (A ++ dst ++ Mid ++ ct ++ Post) with ((A ++ dst ++ Mid) ++ ct ++ Post) by (rewrite <- !app_assoc; reflexivity).
    rewrite mread_frame. reflexivity.
  - rewrite !app_length. lia.
  - intros _. apply disjoint_no_inexact. rewrite !app_length. lia.
  - intros p Lp Hle. rewrite mwrite_frame_le by lia.
    replace (A ++ p ++ skipn (length p) dst ++ Mid ++ ct ++ Post) with (A ++ (p ++ skipn (length p) dst) ++ Mid ++ ct ++ Post)
      by (rewrite <- !app_assoc; reflexivity).
    apply mread_outside; [rewrite app_length, skipn_length; lia|]. right. rewrite !app_length. lia.
Qed.
End InPlace.
