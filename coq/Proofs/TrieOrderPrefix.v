(* C05 — emission ORDER of PrefixSearch: the explicit-stack DFS (children pushed in ascending rune order, so the LAST
   child is popped first; a node is reported when it is popped, i.e. before its descendants) lists the end-marked nodes
   below the key's node strictly sorted by [dfs_before].  Stack invariant: frames nearer the top precede frames below them
   in that order, together with their whole subtrees ([sib_lt]: at the first differing position the rune is larger). *)
From Coq Require Import List ZArith Lia Bool Arith Sorted.
From V Require Import Lib.Utf8 Model.Trie Model.TrieOrder Proofs.TrieTable Proofs.TrieInsert Proofs.TrieRunes Proofs.TrieBuild
  Proofs.TrieOcc Proofs.TriePrefix Proofs.TrieOrderSorted.
Import ListNotations.

Module M := V.Model.Trie.

(* ------------------------------------------------------------------ the order on rune words *)
Definition wlt (x y : list Z) : Prop := dfs_before x y = true.

Lemma dfs_before_app q : forall x y, dfs_before (q ++ x) (q ++ y) = dfs_before x y.
Proof. induction q as [|a q IH]; intros x y; cbn [app dfs_before]; [reflexivity|]. rewrite Z.eqb_refl. apply IH. Qed.

Lemma dfs_before_irrefl x : dfs_before x x = false.
Proof. induction x as [|a x IH]; cbn [dfs_before]; [reflexivity|]. rewrite Z.eqb_refl. exact IH. Qed.

Lemma dfs_before_asym : forall x y, wlt x y -> wlt y x -> False.
Proof.
  unfold wlt. induction x as [|a x IH]; intros [|b y]; cbn [dfs_before]; try discriminate.
  rewrite (Z.eqb_sym b a). destruct (Z.eqb_spec a b) as [->|Hn]; [apply IH|].
  intros H1 H2. apply Z.ltb_lt in H1. apply Z.ltb_lt in H2. lia.
Qed.

Lemma dfs_before_trans : forall x y z, wlt x y -> wlt y z -> wlt x z.
Proof.
  unfold wlt. induction x as [|a x IH]; intros [|b y] [|c z]; cbn [dfs_before]; try discriminate; auto.
  destruct (Z.eqb_spec a b) as [->|Hab].
  - destruct (Z.eqb_spec b c) as [->|Hbc]; [apply IH|auto].
  - destruct (Z.eqb_spec b c) as [->|Hbc].
    + destruct (Z.eqb_spec a c); [congruence|auto].
    + intros H1 H2. apply Z.ltb_lt in H1. apply Z.ltb_lt in H2.
      destruct (Z.eqb_spec a c); [lia|]. apply Z.ltb_lt. lia.
Qed.

Lemma dfs_before_total : forall x y, x <> y -> wlt x y \/ wlt y x.
Proof.
  unfold wlt. induction x as [|a x IH]; intros [|b y] Hne; cbn [dfs_before]; try tauto; auto.
  rewrite (Z.eqb_sym b a). destruct (Z.eqb_spec a b) as [->|Hn].
  - apply IH. congruence.
  - destruct (Z.ltb_spec b a); [left; reflexivity|]. right. apply Z.ltb_lt. lia.
Qed.

(* a node precedes its proper extensions *)
Lemma ext_before w e : e <> [] -> wlt w (w ++ e).
Proof.
  intros He. unfold wlt. rewrite <- (app_nil_r w) at 1. rewrite dfs_before_app. destruct e; [congruence|reflexivity].
Qed.

(* branching: a common prefix, then a larger rune on the left *)
Definition sib_lt (a b : list Z) : Prop := exists q c d a' b', a = q ++ c :: a' /\ b = q ++ d :: b' /\ (d < c)%Z.

Lemma sib_lt_before a b : sib_lt a b -> wlt a b.
Proof.
  intros (q & c & d & a' & b' & -> & -> & H). unfold wlt. rewrite dfs_before_app. cbn [dfs_before].
  destruct (Z.eqb_spec c d); [lia|]. apply Z.ltb_lt. exact H.
Qed.
Lemma sib_lt_below a b x y : sib_lt a b -> wprefix a x -> wprefix b y -> sib_lt x y.
Proof.
  intros (q & c & d & a' & b' & -> & -> & H) (e & ->) (e' & ->). exists q, c, d, (a' ++ e), (b' ++ e').
  rewrite <- !app_assoc. cbn [app]. auto.
Qed.
Lemma sib_lt_kids w c d : (d < c)%Z -> sib_lt (w ++ [c]) (w ++ [d]).
Proof. intros H. exists w, c, d, [], []. auto. Qed.

(* the children list of the table is ascending *)
Lemma sorted_ss c : sorted c -> StronglySorted Z.lt c.
Proof.
  induction c as [|a c IH]; intros H; [constructor|]. apply ss_cons.
  - apply IH. intros i j Hij Hj. apply (H (S i) (S j)); cbn [length]; lia.
  - intros y Hy. destruct (In_nth c y 0%Z Hy) as (n & Hn & <-). apply (H 0%nat (S n)); cbn [length]; lia.
Qed.

Section Order.
Variable T0 T : trie.
Hypothesis HW : WF T0.
Hypothesis HS : SE T0 T.
Hypothesis HL : length T = length T0.
Notation inT0 := (inT0 T0).
Notation kids0 := (kids0 T0).
Notation Pend := (Pend T0).

Definition FrOrd (f g : frame) : Prop := sib_lt (fnode f) (fnode g).
Definition StackOrd (stack : list frame) : Prop := StronglySorted FrOrd stack.

Lemma kids_frames_ord w d : StackOrd (rev (map (fun c => mkF c d (w ++ [c])) (kids0 w))).
Proof.
  unfold StackOrd. apply (ss_rev (fun a b => FrOrd b a)). apply (ss_map Z.lt).
  - apply sorted_ss. apply (wf_sorted T0 HW).
  - intros a b _ _ H. unfold FrOrd. cbn [fnode]. apply sib_lt_kids. exact H.
Qed.

Lemma push_kids_ord w d rest : StackOrd rest -> (forall g, In g rest -> sib_lt w (fnode g)) ->
  StackOrd (push_kids T w d rest).
Proof.
  intros Hr Hw. unfold push_kids. rewrite (SE_kids T0 T w HS). apply ss_app; [apply kids_frames_ord|exact Hr|].
  intros f g Hf Hg. apply in_rev in Hf. apply in_map_iff in Hf. destruct Hf as (c & <- & _). unfold FrOrd. cbn [fnode].
  apply (sib_lt_below w (fnode g)); [apply Hw; exact Hg|exists [c]; reflexivity|exists []; symmetry; apply app_nil_r].
Qed.

(* everything still pending after the children of w were pushed over rest comes after w *)
Lemma pushed_after w d rest x : (forall g, In g rest -> sib_lt w (fnode g)) -> Pend (push_kids T w d rest) x -> wlt w x.
Proof.
  intros Hw (f & Hf & Hp & _). unfold push_kids in Hf. rewrite (SE_kids T0 T w HS) in Hf. apply in_app_or in Hf. destruct Hf as [Hf|Hf].
  - apply in_rev in Hf. apply in_map_iff in Hf. destruct Hf as (c & <- & _). cbn [fnode] in Hp. destruct Hp as (e & ->).
    rewrite <- app_assoc. apply ext_before. discriminate.
  - apply sib_lt_before. apply (sib_lt_below w (fnode f)); [apply Hw; exact Hf|exists []; symmetry; apply app_nil_r|exact Hp].
Qed.

(* ---- the DFS loop, as a list ---- *)
Lemma dfs_sorted : forall fuel stack buf ret b2 r2,
  StackOK stack buf -> (forall f, In f stack -> inT0 (fnode f) = true) -> StackOrd stack ->
  M.dfs fuel T stack buf ret = Ok (b2, r2) ->
  exists out, r2 = rev (map wbytes out) ++ ret /\ StronglySorted wlt out /\ (forall x, In x out -> Pend stack x).
Proof.
  induction fuel as [|k IH]; intros stack buf ret b2 r2 HB HT HO E; [discriminate|].
  cbn [M.dfs] in E. destruct stack as [|cur rest].
  - inversion E; subst. exists []. split; [reflexivity|]. split; [constructor|intros x []].
  - cbn [StackOK] in HB. destruct HB as ((p & E1 & E2 & E3 & E4) & HB2 & HB3).
    destruct cur as [r d w]. cbn [fr fdepth fnode] in *. subst w. subst d.
    assert (Hw : inT0 (p ++ [r]) = true) by (apply (HT (mkF r (Z.of_nat (length (wbytes p))) (p ++ [r]))); left; reflexivity).
    destruct (Z.leb_spec 0 (Z.of_nat (length (wbytes p)))); [|lia].
    destruct (Z.leb_spec (Z.of_nat (length (wbytes p))) (Z.of_nat (length buf))); [|lia]. cbn [andb] in E.
    rewrite Nat2Z.id, E3 in E. rewrite <- wbytes_snoc in E. set (w := p ++ [r]) in *. set (buf' := wbytes w) in *.
    rewrite (SE_end T0 T w HS) in E.
    assert (Hsib : forall g, In g rest -> sib_lt w (fnode g)).
    { intros g Hg. apply (ss_in FrOrd _ rest HO g Hg). }
    assert (Hpend : forall x, Pend (mkF r (Z.of_nat (length (wbytes p))) w :: rest) x <-> x = w \/ Pend (push_kids T w (Z.of_nat (length buf')) rest) x).
    { intros x. rewrite <- (pend_push T0 T HW HS w (Z.of_nat (length buf')) rest x Hw). unfold TriePrefix.Pend. split; intros (f & [<-|Hf] & H2).
      - eexists. split; [left; reflexivity|exact H2].
      - exists f. split; [right; exact Hf|exact H2].
      - eexists. split; [left; reflexivity|exact H2].
      - exists f. split; [right; exact Hf|exact H2]. }
    assert (Hlen : length (wbytes p) <= length buf') by (unfold buf', w; rewrite wbytes_snoc, app_length; lia).
    apply IH in E.
    + destruct E as (out & Er & Hs & Hp). destruct (is_end T0 w) eqn:Ee.
      * exists (w :: out). split; [|split].
        -- rewrite Er. cbn [map rev]. rewrite <- app_assoc. reflexivity.
        -- apply ss_cons; [exact Hs|]. intros x Hx. apply (pushed_after w (Z.of_nat (length buf')) rest x Hsib). apply Hp. exact Hx.
        -- intros x [<-|Hx]; apply Hpend; [left; reflexivity|right; apply Hp; exact Hx].
      * exists out. split; [exact Er|]. split; [exact Hs|]. intros x Hx. apply Hpend. right. apply Hp. exact Hx.
    + (* StackOK *)
      unfold push_kids. rewrite (SE_kids T0 T w HS).
      assert (Hrest : StackOK rest buf').
      { apply (StackOK_buf T0 T HL rest buf buf' (length (wbytes p))); [exact HB3|exact HB2| |exact Hlen].
        unfold buf', w. rewrite wbytes_snoc, firstn_app, Nat.sub_diag, firstn_all. cbn [firstn]. rewrite app_nil_r. symmetry. exact E3. }
      assert (G : forall l, StackOK (rev (map (fun c => mkF c (Z.of_nat (length buf')) (w ++ [c])) l) ++ rest) buf').
      { induction l as [|c l IHl] using rev_ind; [exact Hrest|]. rewrite map_app, rev_app_distr. cbn [map rev app StackOK].
        split; [|split; [|exact IHl]].
        - exists w. cbn [fnode fr fdepth]. split; [reflexivity|]. split; [reflexivity|]. split; [apply firstn_all|unfold buf'; lia].
        - intros g Hg. cbn [fdepth]. apply in_app_or in Hg. destruct Hg as [Hg|Hg].
          + apply in_rev in Hg. apply in_map_iff in Hg. destruct Hg as (c' & <- & _). cbn [fdepth]. lia.
          + specialize (HB2 g Hg). lia. }
      apply G.
    + intros f Hf'. unfold push_kids in Hf'. rewrite (SE_kids T0 T w HS) in Hf'. apply in_app_or in Hf'. destruct Hf' as [Hf'|Hf'].
      * apply in_rev in Hf'. apply in_map_iff in Hf'. destruct Hf' as (c & <- & Hc). cbn [fnode]. apply (kids_spec T0 HW). exact Hc.
      * apply HT. right. exact Hf'.
    + apply push_kids_ord; [|exact Hsib]. inversion HO; subst. assumption.
Qed.

(* ---- PrefixSearch, as a list of nodes ---- *)
Theorem prefix_search_sorted key l : wbytes (runes_of key) = key -> M.prefix_search T key = Ok l ->
  exists out, l = map wbytes out /\ StronglySorted wlt out /\ (forall x, In x out -> inT0 x = true).
Proof.
  intros Hk E. unfold M.prefix_search in E. rewrite (descend_spec T0 T HW HS (tokens key) [] (wf_root T0 HW)) in E. cbn [app] in E.
  fold (runes_of key) in E. set (nd := runes_of key) in *.
  destruct (inT0 nd) eqn:Hn.
  2:{ injection E as <-. exists []. split; [reflexivity|]. split; [constructor|intros x []]. }
  rewrite (SE_kids T0 T nd HS), (SE_end T0 T nd HS) in E.
  assert (Hone : StronglySorted wlt [nd]) by (constructor; [constructor|constructor]).
  destruct (kids0 nd) as [|c0 cs0] eqn:Ek.
  - destruct (is_end T0 nd); injection E as <-.
    + exists [nd]. cbn [map]. rewrite Hk. split; [reflexivity|]. split; [exact Hone|]. intros x [<-|[]]. exact Hn.
    + exists []. split; [reflexivity|]. split; [constructor|intros x []].
  - clear Ek c0 cs0.
    destruct (M.dfs (S (length T)) T (push_kids T nd (Z.of_nat (length key)) []) key (if is_end T0 nd then [key] else [])) as [[b2 r2]| |] eqn:Ed;
      [|discriminate|discriminate].
    injection E as <-.
    apply dfs_sorted in Ed.
    + destruct Ed as (out & -> & Hs & Hp).
      assert (Hin : forall x, In x out -> inT0 x = true) by (intros x Hx; destruct (Hp x Hx) as (f & _ & _ & H); exact H).
      assert (Hafter : forall x, In x out -> wlt nd x).
      { intros x Hx. apply (pushed_after nd (Z.of_nat (length key)) [] x); [intros g []|apply Hp; exact Hx]. }
      rewrite rev_app_distr, rev_involutive. destruct (is_end T0 nd).
      * exists (nd :: out). cbn [rev app map]. rewrite Hk. split; [reflexivity|]. split; [apply ss_cons; assumption|].
        intros x [<-|Hx]; auto.
      * exists out. split; [reflexivity|]. split; assumption.
    + unfold push_kids. rewrite (SE_kids T0 T nd HS).
      assert (G : forall l, StackOK (rev (map (fun c => mkF c (Z.of_nat (length key)) (nd ++ [c])) l) ++ []) key).
      { induction l as [|c l IHl] using rev_ind; [exact I|]. rewrite map_app, rev_app_distr. cbn [map rev app StackOK].
        split; [|split; [|exact IHl]].
        - exists nd. cbn [fnode fr fdepth]. rewrite Hk. split; [reflexivity|]. split; [reflexivity|]. split; [apply firstn_all|lia].
        - intros g Hg. rewrite app_nil_r in Hg. apply in_rev in Hg. apply in_map_iff in Hg. destruct Hg as (c' & <- & _). cbn [fdepth]. lia. }
      apply G.
    + intros f Hf'. unfold push_kids in Hf'. rewrite (SE_kids T0 T nd HS), app_nil_r in Hf'.
      apply in_rev in Hf'. apply in_map_iff in Hf'. destruct Hf' as (c & <- & Hc). cbn [fnode]. apply (kids_spec T0 HW). exact Hc.
    + apply push_kids_ord; [constructor|intros g []].
Qed.
End Order.
