(* C10 — the tie between the theorems and what the check executes: for every case the harness can send, the
   specification's output (Run.C10.entry 1) matches the model's output (entry 0) token by token, where a WILD
   token of the specification matches anything (this is the harness's own comparison, framework.go matchSpec). *)
From Coq Require Import List ZArith Lia Bool.
From V Require Import Lib.Enc Model.RingSeq Model.SyncRingSeq Run.C10 Proofs.RingSeq Proofs.SyncRingRun.
Import ListNotations.
Local Open Scope Z_scope.

Definition tok_match (s m : Z) : bool := (s =? WILD) || (s =? m).
Fixpoint out_match (s m : list Z) : bool :=
  match s, m with
  | [], [] => true
  | x :: s', y :: m' => tok_match x y && out_match s' m'
  | _, _ => false
  end.

Lemma out_match_refl l : out_match l l = true.
Proof. induction l as [|x l IH]; cbn [out_match]; auto. unfold tok_match. rewrite Z.eqb_refl, orb_true_r, IH. reflexivity. Qed.
Lemma out_match_app a a' b b' : out_match a a' = true -> out_match b b' = true -> out_match (a ++ b) (a' ++ b') = true.
Proof.
  revert a'; induction a as [|x a IH]; intros [|y a'] Ha Hb; cbn [out_match app] in *; try discriminate; auto.
  apply andb_true_iff in Ha. destruct Ha as [H1 H2]. rewrite H1, (IH a' H2 Hb). reflexivity.
Qed.
Lemma out_match_wild l : out_match (repeat WILD (length l)) l = true.
Proof.
  induction l as [|x l IH]; cbn [repeat length out_match]; [reflexivity|].
  rewrite IH. unfold tok_match. rewrite Z.eqb_refl. reflexivity.
Qed.

Lemma enc_res_hide r : out_match (enc_res (hide r)) (enc_res r) = true.
Proof.
  destruct r as [b|ok v|z| |l]; cbn [hide enc_res]; try apply out_match_refl.
  unfold put_list. rewrite repeat_length. cbn [out_match]. unfold tok_match at 1. rewrite Z.eqb_refl, orb_true_r.
  apply out_match_wild.
Qed.
Lemma enc_out_hide l : out_match (enc_out (map hide l)) (enc_out l) = true.
Proof.
  induction l as [|r l IH]; cbn [map enc_out flat_map]; auto. apply out_match_app; [apply enc_res_hide|exact IH].
Qed.

(* Ring: every case whatsoever (any capacity token, any op tokens; undecodable cases answer BADCASE on both sides) *)
Theorem entry_ring_spec_matches_model : forall c inj toks,
  out_match (entry 1 (0 :: c :: inj :: toks)) (entry 0 (0 :: c :: inj :: toks)) = true.
Proof.
  intros c inj toks. unfold entry. cbn [Z.eqb]. destruct (dec_ops dec_op toks []) as [ops|]; [|reflexivity].
  cbn [Z.eqb]. rewrite <- (ring_refines_fifo c ops). destruct (ring_case c ops) as [l|]; cbn [option_map enc_opt]; [|reflexivity].
  apply enc_out_hide.
Qed.

(* SyncRing: every case with 1 <= c <= 2^31 (fresh when inj < 0, injected at inj otherwise) whose op tokens decode
   to operations other than a re-Init — kind 1, and kind 2 (honest pairs replaced by the closed form) *)
Theorem entry_sync_spec_matches_model : forall k c inj toks ops, k = 1 \/ k = 2 ->
  1 <= c <= 2 ^ 31 -> dec_ops dec_sop toks [] = Some ops -> forallb (fun o => negb (is_init o)) ops = true ->
  out_match (entry 1 (k :: c :: inj :: toks)) (entry 0 (k :: c :: inj :: toks)) = true.
Proof.
  intros k c inj toks ops Hk Hc Hd Hno. unfold entry. destruct Hk as [-> | ->]; cbn [Z.eqb Pos.eqb]; rewrite Hd; cbn [Z.eqb].
  - destruct (syncring_seq_refines_fifo c (if inj <? 0 then None else Some inj) ops Hc) as (l & El & Es); [|exact Hno|].
    { intros n. destruct (Z.ltb_spec inj 0); [discriminate|]. intros E; inversion E; subst; lia. }
    rewrite El, <- Es. cbn [enc_outcome enc_opt]. apply enc_out_hide.
  - destruct (syncring_seq_refines_fifo c (Some (Z.max 0 inj)) ops Hc) as (l & El & Es); [|exact Hno|].
    { intros n E; inversion E; subst; lia. }
    rewrite El, <- Es. cbn [out_match]. unfold tok_match. rewrite Z.eqb_refl, orb_true_r. apply enc_out_hide.
Qed.
