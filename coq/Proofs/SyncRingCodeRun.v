(* C10 — the case interpreter of the correspondence run, kinds 1 and 2 (SyncRing from one goroutine), executed through the
   functions GENERATED from ringz/sync.go (Run/C10SyncCode.v) gives the output of Run.C10.entry on every case. *)
From Coq Require Import List ZArith Lia Bool Arith.
From V Require Import Lib.GoSem Lib.GoSemRec Lib.Enc Gen.Ringz Gen.RingCode Gen.SyncRingCode Model.RingSeq Model.SyncRingSeq
  Run.C10 Run.C10Code Run.C10SyncCode Proofs.SyncRingCap Proofs.RingCode Proofs.SyncRingCode.
Import ListNotations.
Local Open Scope Z_scope.

Definition sres_m (x : sres) : M (SyncRing * res) :=
  match x with SPanic => Panic | SNoFuel => NoFuel | SOk r y => Ret (of_sring r, y) end.
Definition outcome_m (o : outcome) : M (list res) :=
  match o with OutPanic => Panic | OutNoFuel => NoFuel | Out l => Ret l end.

(* the capacity Init computes is at most max 2 (2 * uint32(c)): the fuel chosen by Run/C10SyncCode.v suffices *)
Lemma init_cap_le c c32 : init_cap c = Some (Some c32) -> c32 <= Z.max 2 (2 * (c mod 2 ^ 32)).
Proof.
  unfold init_cap, sync_min_cap. destruct (c <=? sync_panic_bound); [discriminate|].
  destruct (sync_small_request =? c); [intros [= <-]; lia|]. cbv zeta.
  assert (Hu : u32 c = c mod 2 ^ 32) by reflexivity.
  pose proof (Z.mod_pos_bound c (2 ^ 32) ltac:(lia)) as Hb.
  destruct (0 <? Z.land (u32 c) (u32 (u32 c - 1))) eqn:El.
  - destruct (Z.eq_dec (u32 c) 0) as [E0|E0]; [rewrite E0 in El; discriminate|].
    destruct (roundup_spec (u32 c) ltac:(rewrite Hu; lia)) as (n & E & Hn & Hlo & Hhi). rewrite E. intros [= <-].
    assert (u32 (2 ^ n) <= 2 ^ n).
    { unfold u32, M32. apply Z.mod_le; [apply Z.pow_nonneg; lia|lia]. }
    replace (2 ^ n) with (2 * 2 ^ (n - 1)) in *.
    2:{ replace n with (1 + (n - 1)) at 2 by lia. rewrite Z.pow_add_r by lia. reflexivity. }
    rewrite <- Hu. lia.
  - intros [= <-]. rewrite Hu. lia.
Qed.

Lemma init_fuel_ok c : (64 <= init_fuel_for c)%nat /\ forall c32, init_cap c = Some (Some c32) -> c32 < Z.of_nat (init_fuel_for c).
Proof.
  unfold init_fuel_for. pose proof (Z.mod_pos_bound c (2 ^ 32) ltac:(lia)). split; [lia|].
  intros c32 E. apply init_cap_le in E. lia.
Qed.

Lemma gsstep_sstep : forall r o, 0 <= SyncRing_mask r -> gsstep r o = sres_m (sstep (to_sring r) o).
Proof.
  intros r o Hm. destruct o; cbn [gsstep sstep].
  - rewrite (code_SyncPush r v Hm). destruct (spush (to_sring r) v) as [[r' b]|]; reflexivity.
  - rewrite (code_SyncPop r Hm). destruct (spop (to_sring r)) as [[r' [b x]]|]; reflexivity.
  - rewrite code_SyncLen. cbn [bind sres_m]. rewrite of_to_sring. reflexivity.
  - rewrite code_SyncIsEmpty. cbn [bind sres_m]. rewrite of_to_sring. reflexivity.
  - rewrite code_SyncIsFull. cbn [bind sres_m]. rewrite of_to_sring. reflexivity.
  - rewrite code_SyncCap. cbn [bind sres_m]. rewrite of_to_sring. reflexivity.
  - destruct (init_fuel_ok c) as [H1 H2]. rewrite (code_SyncInit _ r c H1 H2).
    change (SyncRing_head r) with (shead (to_sring r)). change (SyncRing_tail r) with (stail (to_sring r)).
    destruct (init_on (shead (to_sring r)) (stail (to_sring r)) c); reflexivity.
  - cbn [sres_m]. rewrite of_to_sring. reflexivity.
  - rewrite (code_SyncPushWait 1 r v _ one_more_push Hm). unfold push_wait_model.
    destruct (spush (to_sring r) v) as [[r' b]|] eqn:E; [|destruct timed; reflexivity].
    destruct b; [destruct timed; reflexivity|].
    destruct timed; cbn [Z.ltb Z.eqb Z.compare bind sres_m]; [|reflexivity].
    apply spush_false_same in E. subst r'. unfold one_more_push. rewrite of_to_sring, (code_SyncPush r v Hm).
    destruct (spush (to_sring r) v) as [[r'' b]|]; reflexivity.
  - rewrite (code_SyncPopWait 1 r _ one_more_pop Hm). unfold pop_wait_model.
    destruct (spop (to_sring r)) as [[r' [b x]]|] eqn:E; [|destruct timed; reflexivity].
    destruct b; [destruct timed; reflexivity|].
    destruct timed; cbn [Z.ltb Z.eqb Z.compare bind sres_m]; [|reflexivity].
    apply spop_false_same in E. destruct E as [-> ->]. unfold one_more_pop. rewrite of_to_sring, (code_SyncPop r Hm).
    destruct (spop (to_sring r)) as [[r'' [b x']]|]; reflexivity.
Qed.

(* the mask stays a uint32 along every run of the model *)
Lemma u32_nonneg x : 0 <= u32 x.
Proof. unfold u32, M32. apply Z.mod_pos_bound. lia. Qed.
Lemma sstep_mask r o r' x : sstep r o = SOk r' x -> 0 <= smask r -> 0 <= smask r'.
Proof.
  assert (Hpush : forall r v r' b, spush r v = Some (r', b) -> smask r' = smask r).
  { intros r0 v r1 b. unfold spush. destruct (slot_at r0 (stail r0)) as [[i [y s]]|]; [|discriminate].
    destruct (negb (stail r0 =? s)); intros [= <- _]; reflexivity. }
  assert (Hpop : forall r r' y, spop r = Some (r', y) -> smask r' = smask r).
  { intros r0 r1 y. unfold spop. destruct (slot_at r0 (shead r0)) as [[i [z s]]|]; [|discriminate].
    destruct (negb (u32 (shead r0 + 1) =? s)); intros [= <- _]; reflexivity. }
  destruct o; cbn [sstep]; intros H Hm.
  - destruct (spush r v) as [[r1 b]|] eqn:E; [|discriminate]. injection H as <- _. rewrite (Hpush _ _ _ _ E). exact Hm.
  - destruct (spop r) as [[r1 [b y]]|] eqn:E; [|discriminate]. injection H as <- _. rewrite (Hpop _ _ _ E). exact Hm.
  - injection H as <- _. exact Hm.
  - injection H as <- _. exact Hm.
  - injection H as <- _. exact Hm.
  - injection H as <- _. exact Hm.
  - unfold init_on in H. destruct (init_cap c) as [[c32|]|]; try discriminate. injection H as <- _. apply u32_nonneg.
  - injection H as <- _. exact Hm.
  - destruct (spush r v) as [[r1 b]|] eqn:E; [|discriminate]. pose proof (Hpush _ _ _ _ E) as E1.
    destruct b; [injection H as <- _; lia|]. destruct timed; [|injection H as <- _; lia].
    destruct (spush r1 v) as [[r2 b2]|] eqn:E2; [|discriminate]. injection H as <- _. rewrite (Hpush _ _ _ _ E2). lia.
  - destruct (spop r) as [[r1 [b y]]|] eqn:E; [|discriminate]. pose proof (Hpop _ _ _ E) as E1.
    destruct b; [injection H as <- _; lia|]. destruct timed; [|injection H as <- _; lia].
    destruct (spop r1) as [[r2 [b2 y2]]|] eqn:E2; [|discriminate]. injection H as <- _. rewrite (Hpop _ _ _ E2). lia.
Qed.

Lemma gsrun_srun : forall ops r acc, 0 <= SyncRing_mask r -> gsrun_acc r ops acc = outcome_m (srun_acc (to_sring r) ops acc).
Proof.
  induction ops as [|o t IH]; intros r acc Hm; cbn [gsrun_acc srun_acc]; [reflexivity|].
  rewrite (gsstep_sstep r o Hm). destruct (sstep (to_sring r) o) as [| |r' x] eqn:E; try reflexivity.
  cbn [sres_m bind]. rewrite IH, to_of_sring; [reflexivity|].
  change (SyncRing_mask (of_sring r')) with (smask r'). exact (sstep_mask _ _ _ _ E Hm).
Qed.

Lemma gsync_case_sync_case : forall c inj ops, gsync_case c inj ops = outcome_m (sync_case c inj ops).
Proof.
  intros. unfold gsync_case, sync_case, srun. destruct (init_fuel_ok c) as [H1 H2]. rewrite (code_NewSync _ c H1 H2).
  destruct (sinit c) as [| |r0] eqn:E; try reflexivity. cbn [ires_m bind].
  assert (Hm : 0 <= smask r0).
  { unfold sinit, init_on in E. destruct (init_cap c) as [[c32|]|]; try discriminate. injection E as <-. apply u32_nonneg. }
  destruct inj as [n|].
  - rewrite to_of_sring, gsrun_srun, to_of_sring; [reflexivity|exact Hm].
  - rewrite gsrun_srun, to_of_sring; [reflexivity|exact Hm].
Qed.

(* what the check executes as `entry 0` on SyncRing cases IS the generated code *)
Theorem entry_sync_code_is_entry : forall sub args, entry_sync_code sub args = entry sub args.
Proof.
  intros sub args. unfold entry_sync_code. destruct args as [|k [|c [|inj r]]]; try apply entry_code_is_entry.
  destruct (sub =? 0) eqn:Es; [|rewrite !andb_false_r; apply entry_code_is_entry]. rewrite !andb_true_r.
  destruct (k =? 1) eqn:Ek.
  - unfold entry. apply Z.eqb_eq in Ek. subst k. cbn [Z.eqb].
    destruct (dec_ops dec_sop r []) as [ops|]; [|reflexivity]. rewrite Es.
    rewrite gsync_case_sync_case. destruct (sync_case c (if inj <? 0 then None else Some inj) ops); reflexivity.
  - destruct (k =? 2) eqn:Ek2; [|apply entry_code_is_entry].
    unfold entry. apply Z.eqb_eq in Ek2. subst k. cbn [Z.eqb].
    destruct (dec_ops dec_sop r []) as [ops|]; [|reflexivity]. rewrite Es.
    rewrite gsync_case_sync_case. destruct (sync_case c (Some (Z.max 0 inj)) ops); reflexivity.
Qed.

(* in-kernel anchors: the generated code computes (same cases as Run/C10.v anchor_sync_wrap, anchor_sync_f11) *)
Example anchor_sync_wrap_code : entry_sync_code 0 [1; 2; 4294967294; 0;7; 0;8; 0;9; 3;0; 5;0; 1;0; 1;0; 1;0; 10;0]
  = [1; 1; 0; 2; 1; 1; 7; 1; 8; 0; 0; 7; 0; 0; 1; 0; 0; 0; 1].
Proof. vm_compute. reflexivity. Qed.
Example anchor_sync_waits_code : entry_sync_code 0 [1; 2; -1; 11;5; 13;6; 13;7; 11;8; 12;0; 14;0; 14;0; 12;0; 9;3; 6;0]
  = entry 0 [1; 2; -1; 11;5; 13;6; 13;7; 11;8; 12;0; 14;0; 14;0; 12;0; 9;3; 6;0].
Proof. vm_compute. reflexivity. Qed.
