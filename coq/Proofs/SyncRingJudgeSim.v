(* C01, refinement between the step model (plus the run-level wait loops of Run/C01.v) and the history judge:
   the simulation relation and its stability lemmas.
   Per thread: [TR] relates the model's pc and run-level record to the judge's thread state;
   globally: the judge's queue is the ghost queue, the verdict flag is still true, and two operations that are
   in flight at the same time (in the judge's sense: from a start marker to the thread's next start) are both
   excused ([Einv]). *)
From Coq Require Import List ZArith Lia Bool Arith.
Import ListNotations.
From V Require Import Lib.Enc Model.SyncRingConc Model.SyncRingJudge Proofs.SyncRingConc Run.C01.
Local Open Scope Z_scope.
Arguments Z.add : simpl never.
Arguments Z.sub : simpl never.
Arguments Z.mul : simpl never.
Arguments Z.modulo : simpl never.
Arguments Z.div : simpl never.
Arguments Z.pow : simpl never.
Arguments Z.of_nat : simpl never.
Arguments Z.to_nat : simpl never.

Lemma updl_upd : @updl = @upd. Proof. reflexivity. Qed.
Lemma updn_upd : @updn = @upd. Proof. reflexivity. Qed.

Definition obs_code (k : obs) : Z := match k with KLen => -1 | KIsEmpty => -2 | KIsFull => -3 end.

(* a finished operation's record agrees with the result the model reported *)
Definition res_fits (cap : Z) (r : oprec) (x : res) : Prop :=
  match x with
  | RPush b => o_push r = true /\ o_lp r = b /\ (b = false -> o_excuse r || o_wait r = true)
  | RPop (Some v) _ => o_push r = false /\ o_lp r = true /\ o_got r = v
  | RPop None _ => o_push r = false /\ o_lp r = false /\ o_excuse r || o_wait r = true
  | RObs k z _ => o_val r = obs_code k /\ 0 <= z <= (if o_val r =? -1 then cap else 1) /\ (o_excuse r = false -> z = o_got r)
  end.

Definition att_ok (rt : rthread) (r : oprec) : Prop :=
  match attempt_of (r_wait rt) with
  | OpPush v => o_push r = true /\ o_val r = v /\ 0 <= v
  | OpPop => o_push r = false /\ 0 <= o_val r
  | OpObs _ => False
  end.

(* an operation in flight: the record against the pc *)
Definition rec_pc (r : oprec) (p : pc) : Prop :=
  match p with
  | Idle => False
  | PuLoadTail v | PuLoadSeq v _ _ | PuCas v _ _ _ => o_push r = true /\ o_val r = v /\ 0 <= v /\ o_lp r = false
  | PuWrite _ _ _ _ | PuPublish _ _ _ _ => o_push r = true /\ o_lp r = true
  | PoLoadHead | PoLoadSeq _ _ | PoCas _ _ _ => o_push r = false /\ 0 <= o_val r /\ o_lp r = false
  | PoRead _ _ _ gv | PoClear _ _ _ gv _ | PoRelease _ _ _ gv _ => o_push r = false /\ o_lp r = true /\ o_got r = gv
  | ObsFirst k | ObsSecond k _ => o_push r = false /\ o_val r = obs_code k /\ o_lp r = false /\ o_wait r = false
  end.

Definition TRcore (cap : Z) (p : pc) (rt : rthread) (t : tstate) (prog : list Z) : Prop :=
  exists ress dn,
    rev (r_res rt) = flat_map enc_res ress /\
    r_prog rt = skipn (t_next t) prog /\
    Forall2 (res_fits cap) (rev (t_done t)) dn /\
    match t_cur t with
    | None => p = Idle /\ r_wait rt = 0 /\ ress = dn
    | Some r =>
        match p with
        | Idle =>
            if r_wait rt =? 0
            then (exists x, ress = dn ++ [x] /\ res_fits cap r x) /\ o_wait r && negb (o_lp r) && negb (o_left r =? 0) = false
            else ress = dn /\ o_wait r = true /\ o_lp r = false /\ o_left r <> 0 /\
                 r_left rt = (if o_left r <? 0 then -1 else o_left r - 1) /\ att_ok rt r
        | _ => ress = dn /\ rec_pc r p /\ o_wait r = negb (r_wait rt =? 0) /\ (r_wait rt <> 0 -> o_left r = r_left rt /\ att_ok rt r)
        end
    end.

(* what an operation that has not been excused yet still knows about the shared state *)
Definition fresh (s : shared) (p : pc) (r : oprec) : Prop :=
  match p with
  | PuLoadSeq _ _ T0 | PuCas _ _ _ T0 => T0 = tl s
  | PoLoadSeq _ H0 | PoCas _ _ H0 => H0 = hd s
  | ObsFirst k => o_got r = obs_exact (cap s) (q s) (obs_code k)
  | ObsSecond k a => o_got r = obs_exact (cap s) (q s) (obs_code k) /\ a = match k with KIsEmpty => u32 (hd s) | _ => u32 (tl s) end
  | _ => True
  end.

Definition TR (cap : Z) (s : shared) (p : pc) (rt : rthread) (t : tstate) (prog : list Z) : Prop :=
  TRcore cap p rt t prog /\ (forall r, t_cur t = Some r -> o_excuse r = true \/ fresh s p r).

(* ---- the judge only ever adds excuses to the records of other threads ---- *)
Definition ext (t t' : tstate) : Prop :=
  t_next t' = t_next t /\ t_done t' = t_done t /\
  match t_cur t with None => t_cur t' = None | Some r => t_cur t' = Some r \/ t_cur t' = Some (set_excuse r) end.

Lemma ext_refl t : ext t t.
Proof. unfold ext. repeat split; auto. destruct (t_cur t); auto. Qed.
Lemma ext_trans a b c : ext a b -> ext b c -> ext a c.
Proof.
  unfold ext. intros (A1 & A2 & A3) (B1 & B2 & B3). repeat split; try congruence.
  destruct (t_cur a) as [r|].
  - destruct A3 as [E|E]; rewrite E in B3; destruct B3 as [F|F]; rewrite F; auto.
  - rewrite A3 in B3. exact B3.
Qed.
Lemma ext_look cap q t : ext t (look cap q t).
Proof.
  unfold ext, look. destruct (t_cur t) as [r|] eqn:E.
  - destruct (boundary_now cap q r); cbn [t_next t_done t_cur]; rewrite ?E; auto.
  - rewrite E. auto.
Qed.
Lemma ext_excuse_all t : ext t (excuse_all t).
Proof.
  unfold ext, excuse_all. destruct (t_cur t) as [r|] eqn:E; cbn [t_next t_done t_cur]; rewrite ?E; auto.
Qed.

Lemma res_fits_excuse cap r x : res_fits cap r x -> res_fits cap (set_excuse r) x.
Proof.
  destruct x as [b|[v|] g|k z c]; cbn [res_fits set_excuse o_push o_lp o_excuse o_wait o_got o_val]; intros H.
  - destruct H as (? & ? & ?). repeat split; auto.
  - exact H.
  - destruct H as (? & ? & ?). repeat split; auto.
  - destruct H as (A & B & C). split; [exact A|split; [exact B|intros; discriminate]].
Qed.

Lemma TRcore_ext cap p rt t t' prog : TRcore cap p rt t prog -> ext t t' -> TRcore cap p rt t' prog.
Proof.
  intros (ress & dn & H1 & H2 & H3 & H4) (E1 & E2 & E3). exists ress, dn.
  rewrite E1, E2. repeat split; auto.
  destruct (t_cur t) as [r|].
  - destruct E3 as [-> | ->]; auto.
    destruct p; try exact H4.
    destruct (r_wait rt =? 0).
    + destruct H4 as ((x & Hx & Hf) & Hn). split; [exists x; split; auto; apply res_fits_excuse; auto|exact Hn].
    + exact H4.
  - rewrite E3. exact H4.
Qed.

Lemma TR_ext cap s p rt t t' prog : TR cap s p rt t prog -> ext t t' -> TR cap s p rt t' prog.
Proof.
  intros [HC HF] HE. split; [eapply TRcore_ext; eauto|].
  destruct HE as (_ & _ & E3). intros r' Hr'. destruct (t_cur t) as [r|].
  - destruct E3 as [E|E]; rewrite E in Hr'; inversion Hr'; subst r'.
    + apply HF; auto.
    + left. reflexivity.
  - congruence.
Qed.

(* the part of the shared state that [fresh] looks at *)
Definition same_view (s s' : shared) : Prop := hd s' = hd s /\ tl s' = tl s /\ q s' = q s /\ cap s' = cap s.
Lemma fresh_view s s' p r : same_view s s' -> fresh s p r -> fresh s' p r.
Proof. intros (A & B & C & D). destruct p; cbn [fresh]; rewrite ?A, ?B, ?C, ?D; auto. Qed.
Lemma same_view_set_slot s i x f : same_view s (set_slot s i x f).
Proof. repeat split. Qed.

Lemma TR_view cap s s' p rt t prog :
  TR cap s p rt t prog -> (same_view s s' \/ forall r, t_cur t = Some r -> o_excuse r = true) -> TR cap s' p rt t prog.
Proof.
  intros [HC HF] HV. split; [exact HC|]. intros r Hr. destruct HV as [V|X].
  - destruct (HF r Hr) as [E|E]; [left; exact E|]. right. eapply fresh_view; eauto.
  - left. apply X. exact Hr.
Qed.

(* ---- overlapping operations are excused ---- *)
Definition Eall (l : list tstate) : Prop := forall j t r, nth_error l j = Some t -> t_cur t = Some r -> o_excuse r = true.
Definition Solo (l : list tstate) (i : nat) : Prop := forall j t, j <> i -> nth_error l j = Some t -> t_cur t = None.
Definition Einv (l : list tstate) : Prop := Eall l \/ exists i, Solo l i.

(* l' is l with (possibly) more excuses *)
Definition lext (l l' : list tstate) : Prop :=
  length l' = length l /\ forall j t', nth_error l' j = Some t' -> exists t, nth_error l j = Some t /\ ext t t'.

Lemma lext_refl l : lext l l.
Proof. split; auto. intros j t' H. exists t'. split; auto. apply ext_refl. Qed.
Lemma lext_trans a b c : lext a b -> lext b c -> lext a c.
Proof.
  intros [A1 A2] [B1 B2]. split; [congruence|]. intros j t' H. destruct (B2 j t' H) as (t1 & H1 & E1).
  destruct (A2 j t1 H1) as (t0 & H0 & E0). exists t0. split; auto. eapply ext_trans; eauto.
Qed.
Lemma lext_map f l : (forall t, ext t (f t)) -> lext l (map f l).
Proof.
  intros Hf. split; [apply map_length|]. intros j t' H. rewrite nth_error_map in H.
  destruct (nth_error l j) as [t|]; [|discriminate]. inversion H; subst. exists t. split; auto.
Qed.

Lemma ext_cur_some t t' r' : ext t t' -> t_cur t' = Some r' -> exists r, t_cur t = Some r /\ (o_excuse r = true -> o_excuse r' = true).
Proof.
  intros (_ & _ & E) H. destruct (t_cur t) as [r|].
  - exists r. split; auto. destruct E as [E|E]; rewrite E in H; inversion H; subst; auto.
  - congruence.
Qed.
Lemma ext_cur_none t t' : ext t t' -> t_cur t = None -> t_cur t' = None.
Proof. intros (_ & _ & E) H. rewrite H in E. exact E. Qed.

Lemma Einv_lext l l' : Einv l -> lext l l' -> Einv l'.
Proof.
  intros [HA|(i & HS)] [_ HL].
  - left. intros j t' r' Hj Hr'. destruct (HL j t' Hj) as (t & Ht & E).
    destruct (ext_cur_some t t' r' E Hr') as (r & Hr & Himp). apply Himp. eapply HA; eauto.
  - right. exists i. intros j t' Hne Hj. destruct (HL j t' Hj) as (t & Ht & E). eapply ext_cur_none; eauto.
Qed.

(* ---- simulation ---- *)
Record SIM (k : Z) (progs : list (list Z)) (s : shared) (pcs : list pc) (rts : list rthread) (js : jstate) : Prop := {
  sim_q : j_q js = q s;
  sim_ok : j_ok js = true;
  sim_len1 : length rts = length pcs;
  sim_len2 : length (j_ths js) = length pcs;
  sim_tr : forall i p rt t, nth_error pcs i = Some p -> nth_error rts i = Some rt -> nth_error (j_ths js) i = Some t ->
           TR (2 ^ k) s p rt t (nth i progs []);
  sim_e : Einv (j_ths js)
}.

Lemma nth_error_upd_len {A} (l : list A) i x y : nth_error l i = Some y -> nth_error (upd l i x) i = Some x.
Proof. intros H. apply nth_error_upd_eq. apply nth_error_Some. congruence. Qed.
Lemma upd_same {A} (l : list A) i x : nth_error l i = Some x -> upd l i x = l.
Proof. revert i; induction l as [|a l IH]; intros [|i] H; cbn [upd nth_error] in *; try discriminate; [congruence|f_equal; auto]. Qed.

Lemma sim_get k progs s pcs rts js i p :
  SIM k progs s pcs rts js -> nth_error pcs i = Some p ->
  exists rt t, nth_error rts i = Some rt /\ nth_error (j_ths js) i = Some t /\ TR (2 ^ k) s p rt t (nth i progs []).
Proof.
  intros H Hi. assert (Hl : (i < length pcs)%nat) by (apply nth_error_Some; congruence).
  destruct (nth_error rts i) as [rt|] eqn:E1; [|apply nth_error_None in E1; rewrite (sim_len1 _ _ _ _ _ _ H) in E1; lia].
  destruct (nth_error (j_ths js) i) as [t|] eqn:E2; [|apply nth_error_None in E2; rewrite (sim_len2 _ _ _ _ _ _ H) in E2; lia].
  exists rt, t. split; [reflexivity|]. split; [reflexivity|]. eapply sim_tr; eauto.
Qed.

(* thread i moves; the judge's other records only gain excuses *)
Lemma SIM_step k progs s pcs rts js i p s' p' rt' ths' ti' :
  SIM k progs s pcs rts js -> nth_error pcs i = Some p ->
  length ths' = length (j_ths js) ->
  (forall j t', j <> i -> nth_error ths' j = Some t' -> exists t, nth_error (j_ths js) j = Some t /\ ext t t') ->
  nth_error ths' i = Some ti' -> TR (2 ^ k) s' p' rt' ti' (nth i progs []) ->
  Einv ths' ->
  (same_view s s' \/ forall j t' r, j <> i -> nth_error ths' j = Some t' -> t_cur t' = Some r -> o_excuse r = true) ->
  SIM k progs s' (upd pcs i p') (updl rts i rt') {| j_q := q s'; j_ths := ths'; j_ok := true |}.
Proof.
  intros [Hq Hok L1 L2 HT HE] Hi Hlen Hoth Hti HTi HE' Hview.
  constructor; cbn [j_q j_ths j_ok]; auto.
  - rewrite updl_upd, !upd_length. exact L1.
  - rewrite upd_length. congruence.
  - intros j pj rtj tj Hp Hr Ht. rewrite updl_upd in Hr. destruct (Nat.eq_dec j i) as [->|Hne].
    + rewrite (nth_error_upd_len _ _ _ _ Hi) in Hp.
      assert (Hrt : exists rt, nth_error rts i = Some rt).
      { destruct (nth_error rts i) eqn:E; eauto. apply nth_error_None in E. assert (i < length pcs)%nat by (apply nth_error_Some; congruence). lia. }
      destruct Hrt as [rt Hrt]. rewrite (nth_error_upd_len _ _ _ _ Hrt) in Hr.
      inversion Hp; inversion Hr; subst. rewrite Hti in Ht. inversion Ht; subst. exact HTi.
    + rewrite nth_error_upd_ne in Hp by auto. rewrite nth_error_upd_ne in Hr by auto.
      destruct (Hoth j tj Hne Ht) as (t0 & Ht0 & E).
      apply (TR_view _ s).
      * eapply TR_ext; eauto.
      * destruct Hview as [V|X]; [left; exact V|right]. intros r Hr'. eapply X; eauto.
Qed.
